import QuiverModel.Core.Types.Basic
/-
M-Types, part 2 (import-free): union construction and the narrowing operations.

Mirrors
  * /repo/quiver-compiler/src/compiler/typing.rs     `union_type_ids`
  * /repo/quiver-compiler/src/compiler/narrowing.rs  `intersect_types`, `intersect_pair`,
        `compute_complement`, `subtract_one`, `contains_cycle`, `get_type_variants`

These functions register new types, so they take and return the table (`&mut Program`), in
exactly the registration order of the Rust code (ids of the results coincide with the ids the
implementation returns on an identical table). Recursion is fuelled; `none` = out of fuel.
`rf` is the fuel handed to the `is_compatible` / `types_overlap` calls made inside.
-/
namespace QM.Types

/-- `get_type_variants` / `get_type_variants_readonly`. -/
def getVariants (T : Table) (id : Nat) : List Nat :=
  match T.types[id]? with
  | none => []
  | some (.union ids) => ids
  | some _ => [id]

/-- first loop of `union_type_ids`: flatten one level of unions. -/
def flattenIds (T : Table) : List Nat → List Nat
  | [] => []
  | id :: rest =>
    (match T.types[id]? with
     | some (.union vs) => vs
     | _ => [id]) ++ flattenIds T rest

/-- `filter(|id| seen.insert(*id))`: keep first occurrences. -/
def dedupKeep : List Nat → List Nat → List Nat
  | _, [] => []
  | seen, x :: xs =>
    if seen.contains x then dedupKeep seen xs else x :: dedupKeep (x :: seen) xs

/-- `union_type_ids(program, type_ids)`. -/
def unionIds (T : Table) (ids : List Nat) : Table × Nat :=
  match dedupKeep [] (flattenIds T ids) with
  | [] => T.never
  | [x] => (T, x)
  | u => T.registerType (.union u)

/-! ### `contains_cycle` -/

def anyC (f : List Nat → Nat → Option (Bool × List Nat)) :
    List Nat → List Nat → Option (Bool × List Nat)
  | [], seen => some (false, seen)
  | c :: cs, seen =>
    match f seen c with
    | none => none
    | some (true, seen') => some (true, seen')
    | some (false, seen') => anyC f cs seen'

/-- `contains_cycle(type_id, program, seen)`; returns the verdict and the updated `seen`. -/
def containsCycleAux (vr : Variant) (T : Table) : Nat → List Nat → Nat → Option (Bool × List Nat)
  | 0, _, _ => none
  | fuel + 1, seen, id =>
    if seen.contains id then some (false, seen)
    else
      let seen' := id :: seen
      match T.types[id]? with
      | some (.cycle _) => some (true, seen')
      | some (.union ids) => anyC (containsCycleAux vr T fuel) ids seen'
      | some (.tuple tid) =>
        match T.tuples[tid]? with
        | some info => anyC (containsCycleAux vr T fuel) (info.fields.map (·.2)) seen'
        | none => some (false, seen')
      | some (.part _ fields) => anyC (containsCycleAux vr T fuel) (fields.map (·.2)) seen'
      -- a back-reference can also sit inside a function or process type (fix 9604765)
      | some (.callable p r c) =>
        if vr.cycleCheckSkipsCallable then some (false, seen')
        else anyC (containsCycleAux vr T fuel) [p, r, c] seen'
      | some (.process s r) =>
        if vr.cycleCheckSkipsCallable then some (false, seen')
        else anyC (containsCycleAux vr T fuel) (s.toList ++ r.toList) seen'
      | _ => some (false, seen')

/-- `contains_cycle(id, program, &mut Vec::new())`. Every call below the top pushes a new id onto
`seen` or returns at once, so `types.length + 2` levels always suffice (see
`Lemmas`-free remark: the driver reports `fuel-out` if this were ever wrong). -/
def containsCycle (vr : Variant) (T : Table) (id : Nat) : Option Bool :=
  (containsCycleAux vr T (T.types.length + 2) [] id).map (·.1)

/-- some position carries different labels in the two field lists -/
def labelsDiffer (f1 f2 : List (Option Name × Nat)) : Bool :=
  (f1.zip f2).any (fun p => decide (p.1.1 ≠ p.2.1))

/-! ### `intersect_types` / `intersect_pair` -/

abbrev TRes := Option (Table × Nat)

/-- the field loop of the tuple arm of `intersect_pair`; inner `none` = "some field intersection
is never" (early `return never`; registrations made so far persist). -/
def intersectFields (rec : Table → Nat → Nat → TRes) (never : Nat) :
    Table → List ((Option Name × Nat) × (Option Name × Nat)) →
      Option (Table × Option (List (Option Name × Nat)))
  | T, [] => some (T, some [])
  | T, p :: rest =>
    match rec T p.1.2 p.2.2 with
    | none => none
    | some (T1, fi) =>
      if fi = never then some (T1, none)
      else
        match intersectFields rec never T1 rest with
        | none => none
        | some (T2, none) => some (T2, none)
        | some (T2, some fs) => some (T2, some ((p.1.1, fi) :: fs))

/-- the tuple arm of `intersect_pair` (after `never` has been registered). -/
def meetTuple (vr : Variant) (rec : Table → Nat → Nat → TRes) (T : Table) (never id1 id2 : Nat) :
    TRes :=
  match T.tuples[id1]?, T.tuples[id2]? with
  | some i1, some i2 =>
    if i1.name ≠ i2.name ∨ i1.fields.length ≠ i2.fields.length then some (T, never)
    -- tuples whose field labels differ share no value (fix e0ad7de)
    else if !vr.narrowIgnoresLabels && labelsDiffer i1.fields i2.fields then some (T, never)
    else
      match intersectFields rec never T (i1.fields.zip i2.fields) with
      | none => none
      | some (T1, none) => some (T1, never)
      | some (T1, some fields) =>
        let r := T1.registerTuple i1.name fields
        some (r.1.registerType (.tuple r.2))
  | _, _ => some (T, never)

/-- the field loop of the partial arm of `intersect_pair` over the LEFT operand's fields: a field the
right operand also names (`find`: its first field of that label) gets the intersection of the two field
types; inner `none` = "that intersection is never" (early `return never`; registrations persist). -/
def meetPartFields (rec : Table → Nat → Nat → TRes) (never : Nat) (fields2 : List (Name × Nat)) :
    Table → List (Name × Nat) → Option (Table × Option (List (Name × Nat)))
  | T, [] => some (T, some [])
  | T, f1 :: rest =>
    match fields2.find? (fun f2 => f2.1 == f1.1) with
    | some f2 =>
      match rec T f1.2 f2.2 with
      | none => none
      | some (T1, both) =>
        if both = never then some (T1, none)
        else
          match meetPartFields rec never fields2 T1 rest with
          | none => none
          | some (T2, none) => some (T2, none)
          | some (T2, some fs) => some (T2, some ((f1.1, both) :: fs))
    | none =>
      match meetPartFields rec never fields2 T rest with
      | none => none
      | some (T2, none) => some (T2, none)
      | some (T2, some fs) => some (T2, some (f1 :: fs))

/-- `name1.or_else(|| name2)` -/
def orName : Option Name → Option Name → Option Name
  | some n, _ => some n
  | none, n2 => n2

/-- the partial-vs-partial arm of `intersect_pair` (fix 02d463a): the partial type with the
fields of both, the left operand's first, then the right operand's new ones. -/
def meetPart (rec : Table → Nat → Nat → TRes) (T : Table) (never : Nat) (n1 : Option Name)
    (fs1 : List (Name × Nat)) (n2 : Option Name) (fs2 : List (Name × Nat)) : TRes :=
  if n1.isSome ∧ n2.isSome ∧ n1 ≠ n2 then some (T, never)
  else
    match meetPartFields rec never fs2 T fs1 with
    | none => none
    | some (T1, none) => some (T1, never)
    | some (T1, some fields) =>
      some (T1.registerType
        (.part (orName n1 n2) (fields ++ fs2.filter (fun f2 => !fs1.any (fun f1 => f1.1 == f2.1)))))

/-- the `_` arm of `intersect_pair`: keep the left operand iff the two overlap. -/
def meetFallback (rf : Nat) (T : Table) (never a b : Nat) : TRes :=
  match typesOverlap T rf a b with
  | none => none
  | some true => some (T, a)
  | some false => some (T, never)

/-- `intersect_pair(a, b, program)` with `intersect_types` abstracted as `rec`. -/
def intersectPair (vr : Variant) (rf : Nat) (rec : Table → Nat → Nat → TRes) (T : Table) (a b : Nat) :
    TRes :=
  if a = b then some (T, a)
  else
    let Tn := T.never
    let T := Tn.1
    let never := Tn.2
    match T.types[a]?, T.types[b]? with
    | some ta, some tb =>
      match ta, tb with
      | .variable _, _ => some (T, a)
      | _, .variable _ => some (T, a)
      | .cycle _, _ => some (T, a)
      | _, .cycle _ => some (T, a)
      | .integer, .integer => some (T, a)
      | .binary, .binary => some (T, a)
      | .reference, .reference => some (T, a)
      | .tuple id1, .tuple id2 => meetTuple vr rec T never id1 id2
      | .part n1 fs1, .part n2 fs2 =>
        if vr.partialIntersectKeepsLeft then meetFallback rf T never a b
        else if vr.partialIntersectUnguarded then meetPart rec T never n1 fs1 n2 fs2
        else
          -- `contains_cycle(a) || contains_cycle(b)` (short-circuit; fix 7120dc6): a variant taken out of
          -- its recursive union keeps the old answer
          match containsCycle vr T a with
          | none => none
          | some true => meetFallback rf T never a b
          | some false =>
            match containsCycle vr T b with
            | none => none
            | some true => meetFallback rf T never a b
            | some false => meetPart rec T never n1 fs1 n2 fs2
      | _, _ => meetFallback rf T never a b
    | _, _ => some (T, never)

/-- the double loop of `intersect_types`: collect the non-never pieces. -/
def intersectLoopB (pair : Table → Nat → Nat → TRes) (never av : Nat) :
    Table → List Nat → Option (Table × List Nat)
  | T, [] => some (T, [])
  | T, bv :: rest =>
    match pair T av bv with
    | none => none
    | some (T1, piece) =>
      match intersectLoopB pair never av T1 rest with
      | none => none
      | some (T2, ps) => some (T2, if piece = never then ps else piece :: ps)

def intersectLoopA (pair : Table → Nat → Nat → TRes) (never : Nat) (bvs : List Nat) :
    Table → List Nat → Option (Table × List Nat)
  | T, [] => some (T, [])
  | T, av :: rest =>
    match intersectLoopB pair never av T bvs with
    | none => none
    | some (T1, ps1) =>
      match intersectLoopA pair never bvs T1 rest with
      | none => none
      | some (T2, ps2) => some (T2, ps1 ++ ps2)

/-- `intersect_types(a_id, b_id, program)`. -/
def intersect (vr : Variant) (rf : Nat) : Nat → Table → Nat → Nat → TRes
  | 0, _, _, _ => none
  | fuel + 1, T, a, b =>
    let avs := getVariants T a
    let bvs := getVariants T b
    let Tn := T.never
    match intersectLoopA (intersectPair vr rf (intersect vr rf fuel)) Tn.2 bvs Tn.1 avs with
    | none => none
    | some (T1, pieces) => some (unionIds T1 pieces)

/-! ### `compute_complement` / `subtract_one` -/

abbrev LRes := Option (Table × List Nat)

/-- replace the type of field `i` (`fields[i].1 = t`). -/
def setFieldType (fields : List (Option Name × Nat)) (i : Nat) (t : Nat) :
    List (Option Name × Nat) :=
  match fields[i]? with
  | some f => fields.set i (f.1, t)
  | none => fields

/-- the field loop of the tuple arm of `subtract_one` (`i` = index of the head of the list). -/
def subtractFields (rec : Table → Nat → Nat → TRes) (never : Nat) (name : Option Name)
    (fields1 : List (Option Name × Nat)) :
    Table → Nat → List ((Option Name × Nat) × (Option Name × Nat)) → LRes
  | T, _, [] => some (T, [])
  | T, i, p :: rest =>
    match rec T p.1.2 p.2.2 with
    | none => none
    | some (T1, fc) =>
      if fc = never then subtractFields rec never name fields1 T1 (i + 1) rest
      else
        let r := T1.registerTuple name (setFieldType fields1 i fc)
        let r2 := r.1.registerType (.tuple r.2)
        match subtractFields rec never name fields1 r2.1 (i + 1) rest with
        | none => none
        | some (T3, out) => some (T3, r2.2 :: out)

def isCycleTy : Ty → Bool
  | .cycle _ => true
  | _ => false

/-- `contains_cycle(a) || contains_cycle(b)` (short-circuit, fresh `seen` each). -/
def cyclicPair (vr : Variant) (T : Table) (a b : Nat) : Option Bool :=
  match containsCycle vr T a with
  | none => none
  | some ca => if ca then some true else containsCycle vr T b

/-- the `is_compatible` / `types_overlap` shortcuts of `subtract_one` (skipped for cyclic types):
`some (some out)` = decided, `some none` = go on structurally, `none` = out of fuel. -/
def diffShortcut (rf : Nat) (T : Table) (cyclic : Bool) (a b : Nat) : Option (Option (List Nat)) :=
  if cyclic then some none
  else
    match isCompatible T rf a b with
    | none => none
    | some true => some (some [])
    | some false =>
      match typesOverlap T rf a b with
      | none => none
      | some false => some (some [a])
      | some true => some none

/-- the tuple arm of `subtract_one` (after `never` has been registered):
`[A] ∖ [b]` = union over i of `[A₀, …, Aᵢ∖bᵢ, …, Aₙ]`. -/
def diffTuple (vr : Variant) (rec : Table → Nat → Nat → TRes) (T : Table) (never a id1 id2 : Nat) :
    LRes :=
  match T.tuples[id1]?, T.tuples[id2]? with
  | some i1, some i2 =>
    if i1.name ≠ i2.name ∨ i1.fields.length ≠ i2.fields.length then some (T, [a])
    -- tuples whose field labels differ share no value: nothing to subtract (fix e0ad7de)
    else if !vr.narrowIgnoresLabels && labelsDiffer i1.fields i2.fields then some (T, [a])
    else subtractFields rec never i1.name i1.fields T 0 (i1.fields.zip i2.fields)
  | _, _ => some (T, [a])

/-- `subtract_one(a, b, program)` with `compute_complement` abstracted as `rec`. -/
def subtractOne (vr : Variant) (rf : Nat) (rec : Table → Nat → Nat → TRes) (T : Table) (a b : Nat) :
    LRes :=
  if a = b then some (T, [])
  else
    match T.types[a]?, T.types[b]? with
    | some ta, some tb =>
      if isCycleTy ta || isCycleTy tb then some (T, [a])
      else
        match cyclicPair vr T a b with
        | none => none
        | some cyclic =>
          match diffShortcut rf T cyclic a b with
          | none => none
          | some (some out) => some (T, out)
          | some none =>
            -- `let never = program.never();` happens before the structural match
            match ta, tb with
            | .tuple id1, .tuple id2 => diffTuple vr rec T.never.1 T.never.2 a id1 id2
            | _, _ => some (T.never.1, [a])
    | _, _ => some (T, [a])

/-- `for piece in pieces { next.extend(subtract_one(piece, nv, program)) }`. -/
def subtractPieces (sub : Table → Nat → Nat → LRes) (nv : Nat) : Table → List Nat → LRes
  | T, [] => some (T, [])
  | T, piece :: rest =>
    match sub T piece nv with
    | none => none
    | some (T1, out1) =>
      match subtractPieces sub nv T1 rest with
      | none => none
      | some (T2, out2) => some (T2, out1 ++ out2)

/-- `for nv in narrowed_variants { pieces = … }`. -/
def complementLoop (sub : Table → Nat → Nat → LRes) : Table → List Nat → List Nat → LRes
  | T, pieces, [] => some (T, pieces)
  | T, pieces, nv :: rest =>
    match subtractPieces sub nv T pieces with
    | none => none
    | some (T1, next) => complementLoop sub T1 next rest

/-- `compute_complement(original_id, narrowed_id, program)`. -/
def complement (vr : Variant) (rf : Nat) : Nat → Table → Nat → Nat → TRes
  | 0, _, _, _ => none
  | fuel + 1, T, original, narrowed =>
    let nvs := getVariants T narrowed
    let pieces := getVariants T original
    match complementLoop (subtractOne vr rf (complement vr rf fuel)) T pieces nvs with
    | none => none
    | some (T1, out) => some (unionIds T1 out)

end QM.Types
