import QuiverModel.Core.Types.Basic
/-
M-Types, part 6 (import-free): renaming of type / tuple ids — what tree shaking
(`optimisation::tree_shake`), merging (`Environment::merge_bytecode`, `import_type`) and module
import do to a type table. Tuple names, labels and resource names are not renamed.
-/
namespace QM.Types

/-- rename the ids mentioned by a type (`ρ` type ids, `τ` tuple ids) -/
def Ty.rename (ρ τ : Nat → Nat) : Ty → Ty
  | .tuple id => .tuple (τ id)
  | .part n fs => .part n (fs.map (fun f => (f.1, ρ f.2)))
  | .callable p r c => .callable (ρ p) (ρ r) (ρ c)
  | .union ids => .union (ids.map ρ)
  | .process s r => .process (s.map ρ) (r.map ρ)
  | .integer => .integer
  | .binary => .binary
  | .reference => .reference
  | .cycle d => .cycle d
  | .resource n => .resource n
  | .variable n => .variable n

def TupleInfo.rename (ρ : Nat → Nat) (i : TupleInfo) : TupleInfo :=
  ⟨i.name, i.fields.map (fun f => (f.1, ρ f.2))⟩

/-- `T'` contains a `(ρ, τ)`-renamed copy of `T`: the entry at the image of an id is the renamed
entry (and the image of a missing id is missing); `ρ`, `τ` are injective. -/
structure Embeds (ρ τ : Nat → Nat) (T T' : Table) : Prop where
  injTy : ∀ a b, ρ a = ρ b → a = b
  injTu : ∀ a b, τ a = τ b → a = b
  types : ∀ t, T'.types[ρ t]? = (T.types[t]?).map (Ty.rename ρ τ)
  tuples : ∀ i, T'.tuples[τ i]? = (T.tuples[i]?).map (TupleInfo.rename ρ)

def Stk.map (ρ : Nat → Nat) (s : Stk) : Stk := ⟨s.l.map ρ, s.r.map ρ⟩

def mapAsm (ρ : Nat → Nat) (s : Asm) : Asm := s.map (fun p => (ρ p.1, ρ p.2.1, p.2.2.map ρ))

def mapRes (ρ : Nat → Nat) (r : Res) : Res := r.map (fun p => (p.1, mapAsm ρ p.2))

end QM.Types
