/-
M-Types, part 1 (import-free): the type table and the structural type relation.

Mirrors, branch by branch and in source order,
  * /repo/quiver-core/src/types.rs      `Type`, `TupleTypeInfo`, `check_type_relation`,
                                        `is_compatible` (mode ALL), `types_overlap` (mode ANY)
                                        — as of the fix commits 6273050 (partial name rule),
                                        e428d71 (assumption set restored when a union check fails),
                                        f506776 / 5646380 / f3628e7 (overlap of partial types);
  * /repo/quiver-core/src/program.rs    `Program::register_type / register_tuple / never` (dedup).

Conventions (shared API — C01, C08, C10, C13 import this read-only):
  * names (tuple names, field labels, resource names, type-variable names) are interned `Nat`s
    (`Name`); the harness sends the same interning to the driver;
  * `Table.types[i]?` / `Table.tuples[i]?` are `Program::lookup_type / lookup_tuple`;
  * the Rust `HashSet<(usize, usize)>` of coinductive assumptions is a list (`Asm` of `AKey`s); only
    membership is ever observed, and a key is inserted only after the membership test failed, so
    the list stays duplicate-free; "snapshot / restore" is "keep the old list";
  * the Rust `type_stack: Vec<usize>` (push at the end) is a list with the TOP FIRST, so
    `type_stack[len - d]` is `st[d-1]?`;
  * every function that mirrors unbounded Rust recursion takes `fuel` and answers `none` when it
    runs out (reported by the driver as `fuel-out`, never defaulted).
-/
namespace QM.Types

abbrev Name := Nat

/-- `quiver_core::types::Type`. All nested references are type ids into `Table.types`
(`tuple id` is a tuple id into `Table.tuples`). `part` is `Type::Partial` (`partial` is a Lean
keyword). -/
inductive Ty where
  | integer
  | binary
  | reference
  | tuple (id : Nat)
  | part (name : Option Name) (fields : List (Name × Nat))
  | callable (parameter result receive : Nat)
  | cycle (depth : Nat)
  | union (ids : List Nat)
  | process (send receive : Option Nat)
  | resource (name : Name)
  | variable (name : Name)
  deriving DecidableEq, Repr, Inhabited

/-- `TupleTypeInfo`. -/
structure TupleInfo where
  name : Option Name
  fields : List (Option Name × Nat)
  deriving DecidableEq, Repr, Inhabited

/-- The two registries of a `Program` that the type relation reads. -/
structure Table where
  types : List Ty
  tuples : List TupleInfo
  deriving DecidableEq, Repr, Inhabited

/-- `UnionMode`. -/
inductive Mode where
  | all
  | any
  deriving DecidableEq, Repr, Inhabited

/-- The two stacks of enclosing boundary types (each top first): `l` for the left (self) type, `r`
for the right (pattern) type — the Rust `self_stack` / `type_stack` (fix fd75268; before it there was
only the right one, and a left-hand `Cycle` was resolved on it). -/
structure Stk where
  l : List Nat := []
  r : List Nat := []
  deriving DecidableEq, Repr, Inhabited

/-- a coinductive assumption: the two ids and the stacks of enclosing types it was made under (fix
dc4f190; before it the stacks were not part of the key: `{}` with `Variant.asmKeyedByIdsOnly`) -/
abbrev AKey := Nat × Nat × Stk

abbrev Asm := List AKey

/-- Result of a (sub-)check: the verdict and the assumption set afterwards; `none` = out of fuel. -/
abbrev Res := Option (Bool × Asm)

/-- `iter.all(..)` over a check that mutates the assumption set: stops at the first `false`. -/
def allS {α : Type} (f : Asm → α → Res) : List α → Asm → Res
  | [], s => some (true, s)
  | x :: xs, s =>
    match f s x with
    | none => none
    | some (false, s') => some (false, s')
    | some (true, s') => allS f xs s'

/-- `iter.any(..)` over a check that mutates the assumption set: stops at the first `true`. -/
def anyS {α : Type} (f : Asm → α → Res) : List α → Asm → Res
  | [], s => some (false, s)
  | x :: xs, s =>
    match f s x with
    | none => none
    | some (true, s') => some (true, s')
    | some (false, s') => anyS f xs s'

/-- `type_stack[len - depth]` with the Rust guards: `None` when `len < depth` or `depth = 0`
(index `len` is out of range) — both are answered `true` by the checker. -/
def resolveCycle (st : List Nat) (d : Nat) : Option Nat :=
  if d = 0 then none else st[d - 1]?

/-- `if !type_stack.contains(&id) { type_stack.push(id) }` (the matching `pop` is implicit: the
stack is passed down, never returned). -/
def pushStack (st : List Nat) (id : Nat) : List Nat :=
  if st.contains id then st else id :: st

/-- Historical variants of the relation: each flag re-enables the behaviour a `fix:` commit
removed. The model of the code as it is NOW is the default `{}` (all flags off); the flags exist
only so that `Theorems/C09.lean` can state, kernel-checked, that each repaired defect was a real
counter-example under the old rule (and that it is gone under the current one). -/
structure Variant where
  /-- before 6273050: partial-vs-partial compared names only when BOTH were present -/
  nameRuleBothOnly : Bool := false
  /-- before e428d71: assumptions made below a failing union check were kept -/
  keepFailedAssumptions : Bool := false
  /-- before f506776: the ALL-mode name rule also ran in overlap mode -/
  nameRuleAllInAny : Bool := false
  /-- before 5646380: in overlap mode every pattern field had to exist in self (and any, not the
  first, field of that name could match) -/
  partFieldsAnyStrict : Bool := false
  /-- before f3628e7: partial-vs-tuple had no arm (always unrelated) -/
  noPartTupleArm : Bool := false
  /-- before 30aca33: the callable arm recorded no coinductive assumption (a `Cycle` pointing at a
  function type looped for ever: R4) -/
  callableNoAssumption : Bool := false
  /-- before e0ad7de: `intersect_pair` / `subtract_one` compared tuple types by name and arity only,
  never by field labels (narrowing functions, `Narrow.lean`) -/
  narrowIgnoresLabels : Bool := false
  /-- before 9604765: `contains_cycle` did not look inside callable / process types -/
  cycleCheckSkipsCallable : Bool := false
  /-- before fd75268: a left-hand `Cycle` was resolved on the RIGHT-hand stack (and the stacks were
  not swapped in contravariant positions): R1 -/
  leftCycleOnRightStack : Bool := false
  /-- before fd75268: two `Cycle`s of the same depth were taken for the same recursive type without
  resolving them -/
  cycleSameDepthShortcut : Bool := false
  /-- before 4bee69d: equal ids were taken for equal types even below different enclosing types
  (their back-references then mean different things) -/
  equalIdsIgnoreContext : Bool := false
  /-- before ecfc5db: a resolved `Cycle` went on with the whole stack of the place where the
  back-reference stood; its target was then "already on the stack", not pushed again, and the `Cycle`s
  inside it were counted from the entries between the reference and the target (R6) -/
  cycleKeepsInnerStack : Bool := false
  /-- before dc4f190: a coinductive assumption was keyed by the two ids alone, although an id with
  back-references means another type below other enclosing types; for a function type shared by two
  unions the assumption made for one direction answered the converse question of the parameter (R7) -/
  asmKeyedByIdsOnly : Bool := false
  /-- before 02d463a: `intersect_pair` had no arm for two partial types and fell back to "keep the left
  operand if the two overlap" — a written `'readable & 'writable` resolved to `'readable` alone
  (narrowing functions, `Narrow.lean`) -/
  partialIntersectKeepsLeft : Bool := false
  /-- between 02d463a and 7120dc6: the partial-vs-partial arm of `intersect_pair` was taken also when an
  operand contains a `Cycle` — a variant taken out of its recursive union — and copied the back-reference
  out of the union it points to (R8) -/
  partialIntersectUnguarded : Bool := false
  deriving DecidableEq, Repr, Inhabited


def Stk.pushL (s : Stk) (id : Nat) : Stk := { s with l := pushStack s.l id }
def Stk.pushR (s : Stk) (id : Nat) : Stk := { s with r := pushStack s.r id }
/-- contravariant positions: the two sides swap roles, and so do their stacks -/
def Stk.swap (s : Stk) : Stk := ⟨s.r, s.l⟩

/-- the same id is the same type when its back-references mean the same on both sides: the two
sides sit below the same enclosing types (fix 4bee69d); for overlap the optimistic answer is the safe
one, so there the same id always overlaps itself -/
def sameContext (vr : Variant) (mode : Mode) (st : Stk) : Bool :=
  vr.equalIdsIgnoreContext || (match mode with | .any => true | .all => false) || decide (st.l = st.r)

/-- the key under which the pair `(a, b)` is assumed and looked up at the stacks `st` -/
def akey (vr : Variant) (st : Stk) (a b : Nat) : AKey :=
  (a, b, if vr.asmKeyedByIdsOnly then {} else st)

@[simp] theorem akey_fst (vr : Variant) (st : Stk) (a b : Nat) : (akey vr st a b).1 = a := rfl
@[simp] theorem akey_snd (vr : Variant) (st : Stk) (a b : Nat) : (akey vr st a b).2.1 = b := rfl

/-- Restore the snapshot when a union check fails (fix e428d71). -/
def restoreOnFail (vr : Variant) (snapshot : Asm) : Res → Res
  | none => none
  | some (true, s') => some (true, s')
  | some (false, s') => some (false, if vr.keepFailedAssumptions then s' else snapshot)

abbrev Rec := Asm → Stk → Nat → Nat → Res

/-- the stacks with which a resolved `Cycle d` goes on: the `d` entries down to and including the
target are set aside on the stack it was resolved on (`split_off(lookup_index)`, fix ecfc5db; the target
pushes itself again) — the discipline `inhB` has (`st.drop d`). Before the fix: unchanged. -/
def Stk.resolved (vr : Variant) (onRight : Bool) (st : Stk) (d : Nat) : Stk :=
  if vr.cycleKeepsInnerStack then st
  else (if onRight then { st with r := st.r.drop d } else { st with l := st.l.drop d })

/-- `(Type::Cycle(depth), _)`: resolve on the stack, else `true` ("coinductive reasoning"). -/
def cycleLeft (vr : Variant) (rec : Rec) (asm : Asm) (st : Stk) (d b : Nat) : Res :=
  match resolveCycle (if vr.leftCycleOnRightStack then st.r else st.l) d with
  | none => some (true, asm)
  | some sid => rec asm (st.resolved vr vr.leftCycleOnRightStack d) sid b

/-- `(_, Type::Cycle(depth))`. -/
def cycleRight (vr : Variant) (rec : Rec) (asm : Asm) (st : Stk) (a d : Nat) : Res :=
  match resolveCycle st.r d with
  | none => some (true, asm)
  | some sid => rec asm (st.resolved vr true d) a sid

/-- `(Type::Union(variants), _)` with a non-empty left union. -/
def unionLeft (vr : Variant) (mode : Mode) (rec : Rec) (asm : Asm) (st : Stk) (a b : Nat)
    (vs : List Nat) : Res :=
  restoreOnFail vr asm
    (match mode with
     | .all => allS (fun s v => rec s (st.pushL a) v b) vs (akey vr st a b :: asm)
     | .any => anyS (fun s v => rec s (st.pushL a) v b) vs (akey vr st a b :: asm))

/-- `(_, Type::Union(variants))`. -/
def unionRight (vr : Variant) (rec : Rec) (asm : Asm) (st : Stk) (a b : Nat) (vs : List Nat) :
    Res :=
  restoreOnFail vr asm (anyS (fun s v => rec s (st.pushR b) a v) vs (akey vr st a b :: asm))

/-- the zipped field loop of the tuple-vs-tuple arm. -/
def tupleFields (rec : Rec) (st : Stk)
    (zipped : List ((Option Name × Nat) × (Option Name × Nat))) (asm : Asm) : Res :=
  allS (fun s p => if p.1.1 = p.2.1 then rec s st p.1.2 p.2.2 else some (false, s)) zipped asm

/-- `(Type::Tuple(id1), Type::Tuple(id2))`. -/
def tupleTuple (vr : Variant) (T : Table) (mode : Mode) (rec : Rec) (asm : Asm) (st : Stk) (i1 i2 : Nat) : Res :=
  if i1 = i2 ∧ sameContext vr mode st = true then some (true, asm)
  else
    match T.tuples[i1]?, T.tuples[i2]? with
    | some info1, some info2 =>
      if info1.name = info2.name ∧ info1.fields.length = info2.fields.length then
        tupleFields rec st (info1.fields.zip info2.fields) asm
      else some (false, asm)
    | _, _ => some (false, asm)

/-- every partial field exists in the concrete tuple with a related type (`all` of `any`). -/
def tuplePartFields (rec : Rec) (st : Stk) (cfs : List (Option Name × Nat))
    (pfs : List (Name × Nat)) (asm : Asm) : Res :=
  allS (fun s (pf : Name × Nat) =>
          anyS (fun s' (cf : Option Name × Nat) =>
                  if cf.1 = some pf.1 then rec s' st cf.2 pf.2 else some (false, s'))
               cfs s)
       pfs asm

/-- `(Type::Tuple(concrete_id), Type::Partial { .. })`. -/
def tuplePart (T : Table) (rec : Rec) (asm : Asm) (st : Stk) (c : Nat) (pn : Option Name)
    (pfs : List (Name × Nat)) : Res :=
  match T.tuples[c]? with
  | none => some (false, asm)
  | some ci =>
    if pn.isSome ∧ ci.name ≠ pn then some (false, asm)
    else tuplePartFields rec st ci.fields pfs asm

/-- the name rule of the partial-vs-partial arm. Assignability: a named pattern only admits that
name (fix 6273050); overlap: only two different names exclude each other (fix f506776). -/
def nameConflict (vr : Variant) (mode : Mode) (n1 n2 : Option Name) : Bool :=
  match mode with
  | .all =>
    if vr.nameRuleBothOnly then n1.isSome && n2.isSome && decide (n1 ≠ n2)
    else n2.isSome && decide (n1 ≠ n2)
  | .any =>
    if vr.nameRuleAllInAny then n2.isSome && decide (n1 ≠ n2)
    else n1.isSome && n2.isSome && decide (n1 ≠ n2)

/-- the field loop of the partial-vs-partial arm: `fields1.iter().find(name)` takes the FIRST
field of self with that name; a field self does not mention fails assignability and is
unconstrained for overlap (fix 5646380). -/
def partPartFields (vr : Variant) (mode : Mode) (rec : Rec) (st : Stk)
    (fs1 fs2 : List (Name × Nat)) (asm : Asm) : Res :=
  if vr.partFieldsAnyStrict then
    allS (fun s (f2 : Name × Nat) =>
            anyS (fun s' (f1 : Name × Nat) =>
                    if f1.1 = f2.1 then rec s' st f1.2 f2.2 else some (false, s'))
                 fs1 s)
         fs2 asm
  else
    allS (fun s (f2 : Name × Nat) =>
            match fs1.find? (fun f1 => f1.1 == f2.1) with
            | some f1 => rec s st f1.2 f2.2
            | none => some (match mode with | .all => false | .any => true, s))
         fs2 asm

/-- `(Type::Partial { .. }, Type::Partial { .. })`. -/
def partPart (vr : Variant) (mode : Mode) (rec : Rec) (asm : Asm) (st : Stk)
    (n1 : Option Name) (fs1 : List (Name × Nat)) (n2 : Option Name) (fs2 : List (Name × Nat)) : Res :=
  if nameConflict vr mode n1 n2 then some (false, asm)
  else partPartFields vr mode rec st fs1 fs2 asm

/-- every partial field exists in the concrete tuple with a related type, partial on the LEFT. -/
def partTupleFields (rec : Rec) (st : Stk) (cfs : List (Option Name × Nat))
    (pfs : List (Name × Nat)) (asm : Asm) : Res :=
  allS (fun s (pf : Name × Nat) =>
          anyS (fun s' (cf : Option Name × Nat) =>
                  if cf.1 = some pf.1 then rec s' st pf.2 cf.2 else some (false, s'))
               cfs s)
       pfs asm

/-- `(Type::Partial { .. }, Type::Tuple(id)) if mode == Any` (fix f3628e7); in ALL mode the pair
falls to `_ => false`. -/
def partTuple (vr : Variant) (T : Table) (mode : Mode) (rec : Rec) (asm : Asm) (st : Stk)
    (pn : Option Name) (pfs : List (Name × Nat)) (c : Nat) : Res :=
  match mode, vr.noPartTupleArm with
  | .all, _ => some (false, asm)
  | .any, true => some (false, asm)
  | .any, false =>
    match T.tuples[c]? with
    | none => some (false, asm)
    | some ci =>
      if pn.isSome ∧ ci.name ≠ pn then some (false, asm)
      else partTupleFields rec st ci.fields pfs asm

/-- one direction of a process type: checked only when both sides know it. -/
def optRel (rec : Rec) (asm : Asm) (st : Stk) : Option Nat → Option Nat → Res
  | some x, some y => rec asm st x y
  | _, _ => some (true, asm)

/-- `(Type::Process { .. }, Type::Process { .. })`: both sub-checks are always evaluated
(`let send_ok = …; let receive_ok = …; send_ok && receive_ok`). -/
def processProcess (rec : Rec) (asm : Asm) (st : Stk) (s1 r1 s2 r2 : Option Nat) : Res :=
  match optRel rec asm st s1 s2 with
  | none => none
  | some (sendOk, asm1) =>
    match optRel rec asm1 st r1 r2 with
    | none => none
    | some (recvOk, asm2) => some (sendOk && recvOk, asm2)

/-- `(Type::Callable { .. }, Type::Callable { .. })`: the pattern is pushed on the stack;
parameter contravariant && result covariant && receive contravariant (short-circuit). -/
def callableCallable (vr : Variant) (rec : Rec) (asm : Asm) (st : Stk) (a b : Nat)
    (p1 r1 c1 p2 r2 c2 : Nat) : Res :=
  -- both callables are pushed on their own stacks; contravariant positions swap the stacks
  let st' := (st.pushR b).pushL a
  let stc := if vr.leftCycleOnRightStack then st' else st'.swap
  match rec asm stc p2 p1 with
  | none => none
  | some (false, s1) => some (false, s1)
  | some (true, s1) =>
    match rec s1 st' r1 r2 with
    | none => none
    | some (false, s2) => some (false, s2)
    | some (true, s2) => rec s2 stc c2 c1

/-- The `match (self_type, pattern_type)` of `check_type_relation`, arms in source order, with
the recursive call abstracted as `rec` (so that facts about one unfolding are stated once). -/
def relStep (vr : Variant) (T : Table) (mode : Mode) (rec : Rec)
    (asm : Asm) (st : Stk) (a b : Nat) (ta tb : Ty) : Res :=
  match ta, tb with
  -- empty union on the left: bottom type
  | .union [], _ => some (match mode with | .all => true | .any => false, asm)
  | .integer, .integer => some (true, asm)
  | .binary, .binary => some (true, asm)
  | .reference, .reference => some (true, asm)
  | .resource r1, .resource r2 => some (decide (r1 = r2), asm)
  | .variable _, _ => some (true, asm)
  | _, .variable _ => some (true, asm)
  | .cycle d1, .cycle d2 =>
    -- (before fd75268: same depth ⇒ `true`) the pair falls to the arm `(Type::Cycle(depth), _)`
    if vr.cycleSameDepthShortcut = true ∧ d1 = d2 then some (true, asm) else cycleLeft vr rec asm st d1 b
  | .cycle d, _ => cycleLeft vr rec asm st d b
  | _, .cycle d => cycleRight vr rec asm st a d
  | .union vs, _ => unionLeft vr mode rec asm st a b vs
  | _, .union vs => unionRight vr rec asm st a b vs
  | .tuple i1, .tuple i2 => tupleTuple vr T mode rec asm st i1 i2
  | .tuple c, .part pn pfs => tuplePart T rec asm st c pn pfs
  | .part n1 fs1, .part n2 fs2 => partPart vr mode rec asm st n1 fs1 n2 fs2
  | .part pn pfs, .tuple c => partTuple vr T mode rec asm st pn pfs c
  | .process s1 r1, .process s2 r2 => processProcess rec asm st s1 r1 s2 r2
  | .callable p1 r1 c1, .callable p2 r2 c2 =>
    -- the pair is recorded as a coinductive assumption and dropped again on failure, as in the
    -- union arms (fix 30aca33)
    if vr.callableNoAssumption then callableCallable vr rec asm st a b p1 r1 c1 p2 r2 c2
    else restoreOnFail vr asm (callableCallable vr rec (akey vr st a b :: asm) st a b p1 r1 c1 p2 r2 c2)
  | _, _ => some (false, asm)

/-- `check_type_relation(self_id, pattern_id, lookup, mode, assumptions, type_stack)`. -/
def checkRelV (vr : Variant) (T : Table) (mode : Mode) : Nat → Asm → Stk → Nat → Nat → Res
  | 0, _, _, _, _ => none
  | fuel + 1, asm, st, a, b =>
    if a = b ∧ sameContext vr mode st = true then some (true, asm)
    else if asm.contains (akey vr st a b) then some (true, asm)
    else
      match T.types[a]?, T.types[b]? with
      | some ta, some tb => relStep vr T mode (checkRelV vr T mode fuel) asm st a b ta tb
      | _, _ => some (false, asm)

/-- the relation of the code as it is now -/
abbrev Variant.current : Variant := {}

def checkRel (T : Table) (mode : Mode) : Nat → Asm → Stk → Nat → Nat → Res :=
  checkRelV Variant.current T mode

/-- `is_compatible(self_id, pattern_id, lookup)`; `none` = out of fuel. -/
def isCompatible (T : Table) (fuel : Nat) (a b : Nat) : Option Bool :=
  (checkRel T .all fuel [] {} a b).map (·.1)

/-- `types_overlap(self_id, pattern_id, lookup)`; `none` = out of fuel. -/
def typesOverlap (T : Table) (fuel : Nat) (a b : Nat) : Option Bool :=
  (checkRel T .any fuel [] {} a b).map (·.1)

/-! ### Registration (`Program::register_type`, `register_tuple`, `never`) -/

/-- Index of the first element equal to `x`, if any (`iter().position(..)`). -/
def position {α : Type} [DecidableEq α] (x : α) : List α → Option Nat
  | [] => none
  | y :: ys => if y = x then some 0 else (position x ys).map (· + 1)

def Table.registerType (T : Table) (t : Ty) : Table × Nat :=
  match position t T.types with
  | some i => (T, i)
  | none => ({ T with types := T.types ++ [t] }, T.types.length)

def Table.registerTuple (T : Table) (name : Option Name) (fields : List (Option Name × Nat)) :
    Table × Nat :=
  match position (⟨name, fields⟩ : TupleInfo) T.tuples with
  | some i => (T, i)
  | none => ({ T with tuples := T.tuples ++ [⟨name, fields⟩] }, T.tuples.length)

def Table.never (T : Table) : Table × Nat := T.registerType (.union [])

/-- `Program::new()`: tuple 0 is NIL (`[]`), tuple 1 is `Ok`; `okName` is the interned "Ok". -/
def Table.initial (okName : Name) : Table :=
  { types := [], tuples := [⟨none, []⟩, ⟨some okName, []⟩] }

end QM.Types
