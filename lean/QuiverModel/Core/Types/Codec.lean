import QuiverModel.Core.Prelude
import QuiverModel.Core.Types.Inh
import QuiverModel.Core.Types.Narrow
/-
S-expression codec for M-Types (driver glue — trusted, not part of the model).

  type   ::= int | bin | ref | (tuple <tid>) | (part <name|_> (<label> <type id>)…)
           | (fn <param> <result> <receive>) | (cycle <d>) | (union <id>…)
           | (process <send|_> <receive|_>) | (res <name>) | (var <name>)
  tuple  ::= (<name|_> (<label|_> <type id>)…)
  table  ::= (table (types <type>…) (tuples <tuple>…))
  value  ::= (i <int>) | (b <hex>) | (b) | (r <n>) | (t <name|_> (<label|_> <value>)…)
           | (f <declared type id>) | (p <declared type id>) | (x <resource name>)
Names are interned small naturals.
-/
namespace QM.Types
open QM

def optNameOfSx : Sx → Option (Option Name)
  | .atom "_" => some none
  | x => x.asNat.map some

def renderOptName : Option Name → String
  | none => "_"
  | some n => toString n

def listMapM {α β : Type} (f : α → Option β) : List α → Option (List β)
  | [] => some []
  | x :: xs =>
    match f x, listMapM f xs with
    | some y, some ys => some (y :: ys)
    | _, _ => none

def Ty.ofSx : Sx → Option Ty
  | .atom "int" => some .integer
  | .atom "bin" => some .binary
  | .atom "ref" => some .reference
  | .list [.atom "tuple", i] => i.asNat.map .tuple
  | .list (.atom "part" :: n :: fs) =>
    match optNameOfSx n, listMapM (fun f =>
        match f with
        | Sx.list [l, t] => match l.asNat, t.asNat with
          | some l, some t => some (l, t)
          | _, _ => none
        | _ => none) fs with
    | some n, some fs => some (.part n fs)
    | _, _ => none
  | .list [.atom "fn", p, r, c] =>
    match p.asNat, r.asNat, c.asNat with
    | some p, some r, some c => some (.callable p r c)
    | _, _, _ => none
  | .list [.atom "cycle", d] => d.asNat.map .cycle
  | .list (.atom "union" :: ids) => (listMapM Sx.asNat ids).map .union
  | .list [.atom "process", s, r] =>
    match optNameOfSx s, optNameOfSx r with
    | some s, some r => some (.process s r)
    | _, _ => none
  | .list [.atom "res", n] => n.asNat.map .resource
  | .list [.atom "var", n] => n.asNat.map .variable
  | _ => none

def Ty.render : Ty → String
  | .integer => "int"
  | .binary => "bin"
  | .reference => "ref"
  | .tuple i => s!"(tuple {i})"
  | .part n fs =>
    "(part " ++ renderOptName n ++ String.join (fs.map (fun f => s!" ({f.1} {f.2})")) ++ ")"
  | .callable p r c => s!"(fn {p} {r} {c})"
  | .cycle d => s!"(cycle {d})"
  | .union ids => "(union" ++ String.join (ids.map (fun i => s!" {i}")) ++ ")"
  | .process s r => s!"(process {renderOptName s} {renderOptName r})"
  | .resource n => s!"(res {n})"
  | .variable n => s!"(var {n})"

def TupleInfo.ofSx : Sx → Option TupleInfo
  | .list (n :: fs) =>
    match optNameOfSx n, listMapM (fun f =>
        match f with
        | Sx.list [l, t] => match optNameOfSx l, t.asNat with
          | some l, some t => some (l, t)
          | _, _ => none
        | _ => none) fs with
    | some n, some fs => some ⟨n, fs⟩
    | _, _ => none
  | _ => none

def TupleInfo.render (i : TupleInfo) : String :=
  "(" ++ renderOptName i.name ++
    String.join (i.fields.map (fun f => s!" ({renderOptName f.1} {f.2})")) ++ ")"

def Table.ofSx : Sx → Option Table
  | .list [.atom "table", .list (.atom "types" :: tys), .list (.atom "tuples" :: tus)] =>
    match listMapM Ty.ofSx tys, listMapM TupleInfo.ofSx tus with
    | some tys, some tus => some ⟨tys, tus⟩
    | _, _ => none
  | _ => none

/-- the entries of `T'` beyond those of `T` (what a narrowing operation registered). -/
def Table.renderNew (T T' : Table) : String :=
  "(types" ++ String.join ((T'.types.drop T.types.length).map (fun t => " " ++ t.render)) ++
  ") (tuples" ++ String.join ((T'.tuples.drop T.tuples.length).map (fun t => " " ++ t.render)) ++ ")"

mutual
partial def V.ofSx : Sx → Option V
  | .list [.atom "i", z] => z.asInt.map .int
  | .list [.atom "b"] => some (.bin [])
  | .list [.atom "b", .atom h] => (parseHex h).map .bin
  | .list [.atom "r", n] => n.asNat.map .ref
  | .list (.atom "t" :: n :: fs) =>
    match optNameOfSx n, VFields.ofSx fs with
    | some n, some fs => some (.tup n fs)
    | _, _ => none
  | .list [.atom "f", d] => d.asNat.map .fn
  | .list [.atom "p", d] => d.asNat.map .proc
  | .list [.atom "x", n] => n.asNat.map .res
  | _ => none
partial def VFields.ofSx : List Sx → Option VFields
  | [] => some .nil
  | .list [l, v] :: rest =>
    match optNameOfSx l, V.ofSx v, VFields.ofSx rest with
    | some l, some v, some rest => some (.cons l v rest)
    | _, _, _ => none
  | _ => none
end

mutual
def V.render : V → String
  | .int z => s!"(i {z})"
  | .bin [] => "(b)"
  | .bin bs => "(b " ++ toHex bs ++ ")"
  | .ref r => s!"(r {r})"
  | .tup n fs => "(t " ++ renderOptName n ++ VFields.render fs ++ ")"
  | .fn d => s!"(f {d})"
  | .proc d => s!"(p {d})"
  | .res n => s!"(x {n})"
def VFields.render : VFields → String
  | .nil => ""
  | .cons l v rest => " (" ++ renderOptName l ++ " " ++ V.render v ++ ")" ++ VFields.render rest
end

def renderOptBool : Option Bool → String
  | none => "fuel-out"
  | some true => "true"
  | some false => "false"

end QM.Types
