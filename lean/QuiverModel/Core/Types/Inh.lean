import QuiverModel.Core.Types.Basic
import QuiverModel.Core.Types.Shape
/-
M-Types, part 3 (import-free): structural values and inhabitation — the *meaning* of a type id,
independent of `checkRel`, used as the oracle of C09 / C08 / C01.

Structural values `V` carry no table indices: a tuple is its name and its labelled fields (this is
`erase` of a runtime `Value::Tuple(id, …)` — C13). Function and process values carry the id of
their *declared* type (`Function::type_id`, resp. the `Type::Process` derived from it), because a
function has no structure a type could be checked against: `fn d` inhabits a callable type `t` iff
the declared type `d` is assignable to `t` (this is exactly what the runtime does for
`ConcreteType::Function`, compatibility.rs). So for callable/process types "inhabitation" is
*defined* through `checkRel`; the independent content of the semantics is the first-order part.

`Cycle d` means "the d-th enclosing boundary, counted upwards from here" where boundaries are the
union and callable nodes on the path from the root (typing.rs `resolve_ast_type_impl`:
`recursion_depth` is incremented exactly at `ast::Type::Union` and `ast::Type::Function`;
compiler.rs `resolve_function_cycles` says the same). `inhB` therefore keeps the stack of enclosing
boundaries (top first) and, on `Cycle d`, continues *at* boundary `st[d-1]` with the stack that
encloses that boundary (`st.drop d`) — de Bruijn style. On every table in which a path never meets
the same boundary id twice without passing a `Cycle` (all tables built through `register_*`
without forward references) this is the stack discipline `check_type_relation` implements on its
right-hand side with `if !type_stack.contains(..) { push }`; where the two differ (`checkRel` does
not truncate on resolution) the difference is a property of the checker, not of the meaning.

A dangling `Cycle` (depth 0 or deeper than the stack) and a missing id denote the empty type;
`Variable` denotes everything (closed types contain neither).
-/
namespace QM.Types

mutual
inductive V where
  | int (z : Int)
  | bin (bs : List UInt8)
  | ref (r : Nat)
  | tup (name : Option Name) (fields : VFields)
  | fn (decl : Nat)
  | proc (decl : Nat)
  | res (name : Name)
  deriving DecidableEq, Repr
inductive VFields where
  | nil
  | cons (label : Option Name) (v : V) (rest : VFields)
  deriving DecidableEq, Repr
end

instance : Inhabited V := ⟨.int 0⟩
instance : Inhabited VFields := ⟨.nil⟩

def VFields.toList : VFields → List (Option Name × V)
  | .nil => []
  | .cons l v rest => (l, v) :: rest.toList

def VFields.ofList : List (Option Name × V) → VFields
  | [] => .nil
  | (l, v) :: rest => .cons l v (VFields.ofList rest)

theorem VFields.toList_ofList (l : List (Option Name × V)) : (VFields.ofList l).toList = l := by
  induction l with
  | nil => rfl
  | cons p rest ih => cases p; simp [VFields.ofList, VFields.toList, ih]

theorem VFields.ofList_toList : (fs : VFields) → VFields.ofList fs.toList = fs
  | .nil => rfl
  | .cons l v rest => by simp [VFields.ofList, VFields.toList, VFields.ofList_toList rest]

/-- no label occurs twice among the fields -/
def labelsDistinct : List (Option Name × V) → Bool
  | [] => true
  | q :: rest =>
    (match q.1 with
     | none => true
     | some n => !(rest.any (fun r => decide (r.1 = some n)))) && labelsDistinct rest

mutual
/-- well-labelled: no tuple inside the value carries the same label twice (the only values the
language can build: `[x: 1, x: 2]` is rejected with `FieldDuplicated`). -/
def V.wf : V → Bool
  | .tup _ fs => labelsDistinct fs.toList && fs.wfAll
  | _ => true
def VFields.wfAll : VFields → Bool
  | .nil => true
  | .cons _ v rest => v.wf && rest.wfAll
end

/-- positional match of a tuple's declared fields against a value's fields: same length, same
labels, each value accepted by `f` at the declared field type. -/
def fieldsB (f : Nat → V → Bool) : List (Option Name × Nat) → VFields → Bool
  | [], .nil => true
  | p :: rest, .cons l' v vs => decide (p.1 = l') && f p.2 v && fieldsB f rest vs
  | _, _ => false

/-- some field of the value is labelled `name` and accepted by `f` at type `t`. -/
def hasFieldB (f : Nat → V → Bool) (name : Name) (t : Nat) : VFields → Bool
  | .nil => false
  | .cons l v vs => (decide (l = some name) && f t v) || hasFieldB f name t vs

/-- Fuelled Boolean inhabitation: does `v` inhabit type `t`, `st` being the boundaries that
enclose `t` (top first)? `false` when the fuel runs out (see `inhB_mono`). -/
def inhB (T : Table) : Nat → List Nat → Nat → V → Bool
  | 0, _, _, _ => false
  | fuel + 1, st, t, v =>
    match T.types[t]? with
    | none => false
    | some ty =>
      match ty with
      | .integer => match v with | .int _ => true | _ => false
      | .binary => match v with | .bin _ => true | _ => false
      | .reference => match v with | .ref _ => true | _ => false
      | .resource r => match v with | .res r' => decide (r = r') | _ => false
      | .variable _ => true
      | .cycle d =>
        match resolveCycle st d with
        | none => false
        | some id => inhB T fuel (st.drop d) id v
      | .union ids => ids.any (fun i => inhB T fuel (t :: st) i v)
      | .tuple id =>
        match T.tuples[id]?, v with
        | some info, .tup name fs => decide (name = info.name) && fieldsB (inhB T fuel st) info.fields fs
        | _, _ => false
      | .part pn pfs =>
        match v with
        | .tup name fs =>
          (pn.isNone || decide (name = pn)) &&
            pfs.all (fun pf => hasFieldB (inhB T fuel st) pf.1 pf.2 fs)
        | _ => false
      | .callable _ _ _ =>
        match v with
        | .fn d =>
          (match T.types[d]? with | some (.callable _ _ _) => true | _ => false) &&
          (match checkRel T .all fuel [] ⟨[], st⟩ d t with | some (true, _) => true | _ => false)
        | _ => false
      | .process _ _ =>
        match v with
        | .proc d =>
          (match T.types[d]? with | some (.process _ _) => true | _ => false) &&
          (match checkRel T .all fuel [] ⟨[], st⟩ d t with | some (true, _) => true | _ => false)
        | _ => false

/-- `v` inhabits type `t` under the enclosing boundaries `st`. -/
def inh (T : Table) (st : List Nat) (t : Nat) (v : V) : Prop := ∃ fuel, inhB T fuel st t v = true

/-! ### Enumeration of inhabitants (harness oracle) -/

def maxOpt : Option Name → Nat
  | none => 0
  | some n => n

/-- a name (label) that occurs nowhere in the table. -/
def freshName (T : Table) : Name :=
  let tyMax : Ty → Nat := fun t =>
    match t with
    | .part n fs => max (maxOpt n) (fs.foldl (fun m f => max m f.1) 0)
    | .resource r => r
    | .variable r => r
    | _ => 0
  let a := T.types.foldl (fun m t => max m (tyMax t)) 0
  let b := T.tuples.foldl
    (fun m i => max m (max (maxOpt i.name) (i.fields.foldl (fun m f => max m (maxOpt f.1)) 0))) 0
  max a b + 1

/-- all ways to pick one value per field (capped at `cap` results). -/
def prodFields (cap : Nat) : List (Option Name × List V) → List VFields
  | [] => [.nil]
  | p :: rest =>
    let tails := prodFields cap rest
    (p.2.flatMap (fun v => tails.map (fun tl => VFields.cons p.1 v tl))).take cap

def dedupNames : List (Option Name) → List (Option Name)
  | [] => []
  | x :: xs => if xs.contains x then dedupNames xs else x :: dedupNames xs

/-- tuple names a value of an unnamed partial may carry: none, every name of the table, a fresh one. -/
def candidateNames (T : Table) : List (Option Name) :=
  dedupNames
    ([none, some (freshName T)] ++ T.tuples.map (·.name) ++
      T.types.filterMap (fun t => match t with | .part (some n) _ => some (some n) | _ => none))

def optFields (f : Nat → Option V) : List (Option Name × Nat) → Option VFields
  | [] => some .nil
  | p :: rest =>
    match f p.2, optFields f rest with
    | some v, some vs => some (.cons p.1 v vs)
    | _, _ => none

/-- one cheap inhabitant of `t` (if one is found within `fuel` unfoldings): used by `enumVals` for
the fields a partial type does not constrain, so that the enumeration does not fan out there. -/
def defaultVal (T : Table) : Nat → List Nat → Nat → Option V
  | 0, _, _ => none
  | fuel + 1, st, t =>
    match T.types[t]? with
    | none => none
    | some ty =>
      match ty with
      | .integer => some (.int 0)
      | .binary => some (.bin [])
      | .reference => some (.ref 0)
      | .resource r => some (.res r)
      | .variable _ => some (.int 0)
      | .cycle d =>
        match resolveCycle st d with
        | none => none
        | some id => defaultVal T fuel (st.drop d) id
      | .union ids => ids.findSome? (fun i => defaultVal T fuel (t :: st) i)
      | .tuple id =>
        match T.tuples[id]? with
        | none => none
        | some info => (optFields (defaultVal T fuel st) info.fields).map (fun fs => V.tup info.name fs)
      | .part pn pfs =>
        (optFields (defaultVal T fuel st) (pfs.map (fun pf => (some pf.1, pf.2)))).map
          (fun fs => V.tup pn fs)
      | .callable _ _ _ => if closedB T (T.types.length + 1) [] t then some (.fn t) else none
      | .process _ _ => if closedB T (T.types.length + 1) [] t then some (.proc t) else none

/-- Type-directed enumeration of (a representative set of) inhabitants of `t` under `st`:
at most `width` values per union variant / field, `fuel` unfoldings deep. Every value returned is
re-checked with `inhB` by `enumInh`, so the enumerator itself is not trusted. For partial types it
produces the near-miss shapes: exact fields, an extra labelled / unlabelled field, reversed
order, other names, the labels of every other partial type of the table appended, and every
tuple of the table that carries the labels. -/
def enumVals (T : Table) (width : Nat) : Nat → List Nat → Nat → List V
  | 0, _, _ => []
  | fuel + 1, st, t =>
    match T.types[t]? with
    | none => []
    | some ty =>
      match ty with
      | .integer => [.int 0, .int 7]
      | .binary => [.bin [], .bin [0]]
      | .reference => [.ref 0]
      | .resource r => [.res r]
      | .variable _ => [.int 0]
      | .cycle d =>
        match resolveCycle st d with
        | none => []
        | some id => enumVals T width fuel (st.drop d) id
      | .union ids => ids.flatMap (fun i => (enumVals T width fuel (t :: st) i).take width)
      | .tuple id =>
        match T.tuples[id]? with
        | none => []
        | some info =>
          (prodFields (width * width)
            (info.fields.map (fun f => (f.1, (enumVals T width fuel st f.2).take width)))).map
            (fun fs => V.tup info.name fs)
      | .part pn pfs =>
        let base : List (Option Name × List V) :=
          pfs.map (fun pf => (some pf.1, (enumVals T width fuel st pf.2).take width))
        let names : List (Option Name) :=
          match pn with
          | some p => [some p]
          | none => candidateNames T
        let fresh := freshName T
        let has : Name → Bool := fun l => pfs.any (fun pf => pf.1 == l)
        -- labels of the other partial types, appended
        let others : List (List (Option Name × List V)) :=
          T.types.filterMap (fun u =>
            match u with
            | .part _ qfs =>
              let extra := qfs.filter (fun q => !has q.1)
              if extra.isEmpty then none
              else some (base ++ extra.map (fun q => (some q.1, (defaultVal T fuel [] q.2).toList)))
            | _ => none)
        -- tuples of the table that carry all the labels
        let carriers : List (Option Name × List (Option Name × List V)) :=
          T.tuples.filterMap (fun info =>
            if pfs.all (fun pf => info.fields.any (fun f => f.1 == some pf.1)) then
              some (info.name, info.fields.map (fun f =>
                match f.1 with
                | some l =>
                  match pfs.find? (fun pf => pf.1 == l) with
                  | some pf => (f.1, (enumVals T width fuel st pf.2).take width)
                  | none => (f.1, (defaultVal T fuel [] f.2).toList)
                | none => (f.1, (defaultVal T fuel [] f.2).toList)))
            else none)
        let layouts : List (List (Option Name × List V)) :=
          [base, base ++ [(some fresh, [V.int 0])], (none, [V.int 0]) :: base, base.reverse] ++ others
        let cap := width * width
        (names.flatMap (fun n =>
          layouts.flatMap (fun lay => (prodFields cap lay).map (fun fs => V.tup n fs)))) ++
        (carriers.flatMap (fun c =>
          if pn.isNone || c.1 == pn then (prodFields cap c.2).map (fun fs => V.tup c.1 fs) else []))
      | .callable _ _ _ =>
        -- function values: one per CLOSED callable type of the table (a declared type is closed)
        (List.range T.types.length).filterMap (fun (d : Nat) =>
          match T.types[d]? with
          | some (Ty.callable _ _ _) => if closedB T (T.types.length + 1) [] d then some (V.fn d) else none
          | _ => none)
      | .process _ _ =>
        (List.range T.types.length).filterMap (fun (d : Nat) =>
          match T.types[d]? with
          | some (Ty.process _ _) => if closedB T (T.types.length + 1) [] d then some (V.proc d) else none
          | _ => none)

/-- enumerated values that `inhB` confirms as inhabitants of `t` (top level: empty stack). -/
def enumInh (T : Table) (width efuel ifuel : Nat) (t : Nat) : List V :=
  (enumVals T width efuel [] t).filter (fun v => inhB T ifuel [] t v)

end QM.Types
