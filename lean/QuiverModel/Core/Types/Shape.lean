import QuiverModel.Core.Types.Basic
/-
M-Types, part 4 (import-free): decidable well-formedness classes of type ids, used as hypotheses of
the C09 / C08 theorems and checked by the harness on every generated table.

  * `Table.orderedB`  — every id mentioned by a type is smaller than the id of the type itself and
                        every tuple id resolves (what `register_*` without forward references
                        produces: the id graph is a DAG, recursion only through `Cycle`);
  * `foB`             — first-order, cycle-free: only int/bin/ref/resource/tuple/partial/union
                        nodes are reachable;
  * `closedB`         — closed and contractive: no `Variable`; process types have both directions;
                        every `Cycle d` points at an enclosing boundary (union or callable) and a
                        tuple / partial / callable / process constructor lies between that boundary
                        and the `Cycle`.
-/
namespace QM.Types

def Table.fieldTypes (T : Table) (tid : Nat) : List Nat :=
  match T.tuples[tid]? with
  | some i => i.fields.map (·.2)
  | none => []

/-- type ids directly mentioned by a type. -/
def Ty.children (T : Table) : Ty → List Nat
  | .tuple id => T.fieldTypes id
  | .part _ fs => fs.map (·.2)
  | .callable p r c => [p, r, c]
  | .union ids => ids
  | .process s r => s.toList ++ r.toList
  | _ => []

def Ty.tupleOk (T : Table) : Ty → Bool
  | .tuple id => decide (id < T.tuples.length)
  | _ => true

def orderedFrom (T : Table) : Nat → List Ty → Bool
  | _, [] => true
  | i, t :: rest => (t.children T).all (fun c => decide (c < i)) && t.tupleOk T && orderedFrom T (i + 1) rest

def Table.orderedB (T : Table) : Bool := orderedFrom T 0 T.types

def Ty.isFO : Ty → Bool
  | .integer | .binary | .reference | .resource _ | .tuple _ | .part _ _ | .union _ => true
  | _ => false

/-- first-order and cycle-free, explored `n` levels deep. -/
def foB (T : Table) : Nat → Nat → Bool
  | 0, _ => false
  | n + 1, t =>
    match T.types[t]? with
    | none => false
    | some ty => ty.isFO && ty.tupleOk T && (ty.children T).all (foB T n)

def Ty.isRFO : Ty → Bool
  | .integer | .binary | .reference | .resource _ | .tuple _ | .part _ _ | .union _ | .cycle _ => true
  | _ => false

/-- first-order with recursion: only int/bin/ref/resource/tuple/partial/union/`Cycle` nodes are
reachable (no callable, process or variable), explored `n` levels deep. -/
def rfoB (T : Table) : Nat → Nat → Bool
  | 0, _ => false
  | n + 1, t =>
    match T.types[t]? with
    | none => false
    | some ty => ty.isRFO && ty.tupleOk T && (ty.children T).all (rfoB T n)

/-- closed and contractive below the boundaries whose guard flags are `gs` (top first:
`gs[d-1]` = "a constructor has been crossed since the d-th enclosing boundary"). -/
def closedB (T : Table) : Nat → List Bool → Nat → Bool
  | 0, _, _ => false
  | n + 1, gs, t =>
    match T.types[t]? with
    | none => false
    | some ty =>
      match ty with
      | .integer | .binary | .reference | .resource _ => true
      | .variable _ => false
      | .cycle d => decide (d ≠ 0) && (gs[d - 1]?).getD false
      | .union ids => ids.all (closedB T n (false :: gs))
      | .tuple id =>
        match T.tuples[id]? with
        | none => false
        | some info => info.fields.all (fun f => closedB T n (gs.map (fun _ => true)) f.2)
      | .part _ fs => fs.all (fun f => closedB T n (gs.map (fun _ => true)) f.2)
      | .callable p r c =>
        let gs' := true :: gs.map (fun _ => true)
        closedB T n gs' p && closedB T n gs' r && closedB T n gs' c
      | .process s r =>
        match s, r with
        | some s, some r =>
          closedB T n (gs.map (fun _ => true)) s && closedB T n (gs.map (fun _ => true)) r
        | _, _ => false

/-- no partial type names a field twice (the compiler accepts such a type; the partial-vs-partial arm
then looks only at the FIRST field of that name, so such a type is not even assignable to itself once
the two sides sit below different enclosing types) -/
def Table.partsDistinctB (T : Table) : Bool :=
  T.types.all (fun ty => match ty with
    | .part _ fs => decide ((fs.map (·.1)).Nodup)
    | _ => true)

def PartsDistinct (T : Table) : Prop := T.partsDistinctB = true

def Ordered (T : Table) : Prop := T.orderedB = true
def FO (T : Table) (t : Nat) : Prop := ∃ n, foB T n t = true
def Closed (T : Table) (t : Nat) : Prop := ∃ n, closedB T n [] t = true
def RFO (T : Table) (t : Nat) : Prop := ∃ n, rfoB T n t = true

instance (T : Table) : Decidable (Ordered T) := inferInstanceAs (Decidable (_ = true))

end QM.Types
