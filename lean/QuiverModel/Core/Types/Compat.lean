import QuiverModel.Core.Types.Basic
/-
M-Types, part 5 (import-free): the precomputed runtime compatibility tables and the runtime type
test.

Mirrors
  * /repo/quiver-core/src/compatibility.rs   `TypeIndex::build`, `extract_function_type_info`,
        `compute_compatible_concrete_types`, `compute_type_compatibility`,
        `compute_param_compatibility`, `compute_canonical_tuples`
  * /repo/quiver-core/src/bytecode.rs        `ConcreteType`
  * /repo/quiver-core/src/executor.rs        `get_concrete_type`, `check_type_compatible`
        (`handle_is_type`), `check_message_compatible` (permissive when the table has no entry)

The runtime never inspects the structure of a value: it maps the value to its concrete tag
(`CTag`), and looks the tag up in a set computed per pattern type when the program is loaded. A tag
is accepted iff *the type id the index associates with the tag* is assignable to the pattern
(`is_compatible`); a tag with no associated type entry is never accepted (with one fallback for
int / bin / ref, mirrored below).
-/
namespace QM.Types

/-- `ConcreteType`. -/
inductive CTag where
  | integer
  | binary
  | reference
  | tuple (id : Nat)
  | function (id : Nat)
  | builtin (id : Nat)
  | process (fn : Nat)
  | resource (id : Nat)
  deriving DecidableEq, Repr, Inhabited

/-- what the compatibility computation reads of a `Function`: its `type_id` and the type ids of
its `IsType` instructions. -/
structure FnInfo where
  typeId : Nat
  isTypes : List Nat
  deriving DecidableEq, Repr, Inhabited

/-- `CompatibilityInput` (`builtins`: `(param_type, result_type)`; `resources`: resource names,
index = resource type id). -/
structure CInput where
  table : Table
  functions : List FnInfo
  builtins : List (Nat × Nat)
  resources : List Name
  deriving Repr, Inhabited

/-- `TypeIndex`: first occurrence of each concrete shape in the type table. The hash maps are
association lists (first insertion wins: `entry(..).or_insert`). -/
structure TypeIndex where
  integer : Option Nat := none
  binary : Option Nat := none
  reference : Option Nat := none
  /-- tuple id ↦ type id of `Type::Tuple(tuple_id)` -/
  tupleToType : List (Nat × Nat) := []
  /-- (parameter, result) ↦ type id of a never-receiving `Type::Callable` -/
  callableToType : List ((Nat × Nat) × Nat) := []
  /-- (send, receive) ↦ type id of `Type::Process` -/
  processToType : List ((Option Nat × Option Nat) × Nat) := []
  /-- resource name ↦ type id of `Type::Resource` -/
  resourceToType : List (Name × Nat) := []
  deriving Repr, Inhabited

def isNeverTy : Ty → Bool
  | .union [] => true
  | _ => false

/-- insert unless the key is present (`entry(k).or_insert(v)`, `get_or_insert`). -/
def insertFirst {κ : Type} [DecidableEq κ] (k : κ) (v : Nat) (m : List (κ × Nat)) : List (κ × Nat) :=
  if m.any (fun e => decide (e.1 = k)) then m else m ++ [(k, v)]

def lookupFirst {κ : Type} [DecidableEq κ] (k : κ) (m : List (κ × Nat)) : Option Nat :=
  (m.find? (fun e => decide (e.1 = k))).map (·.2)

/-- one step of the single pass of `TypeIndex::build` (type `ty` at index `i`). -/
def TypeIndex.step (T : Table) (idx : TypeIndex) (i : Nat) (ty : Ty) : TypeIndex :=
  match ty with
  | .integer => { idx with integer := idx.integer.orElse (fun _ => some i) }
  | .binary => { idx with binary := idx.binary.orElse (fun _ => some i) }
  | .reference => { idx with reference := idx.reference.orElse (fun _ => some i) }
  | .tuple tid =>
    -- `tuple_to_type.get_mut(tuple_id)`: only tuple ids inside the tuple table get a slot
    if tid < T.tuples.length then { idx with tupleToType := insertFirst tid i idx.tupleToType }
    else idx
  | .callable p r c =>
    if (T.types[c]?).map isNeverTy = some true then
      { idx with callableToType := insertFirst (p, r) i idx.callableToType }
    else idx
  | .process s r => { idx with processToType := insertFirst (s, r) i idx.processToType }
  | .resource n => { idx with resourceToType := insertFirst n i idx.resourceToType }
  | _ => idx

def TypeIndex.buildFrom (T : Table) : TypeIndex → Nat → List Ty → TypeIndex
  | idx, _, [] => idx
  | idx, i, ty :: rest => TypeIndex.buildFrom T (idx.step T i ty) (i + 1) rest

/-- `TypeIndex::build`. -/
def TypeIndex.build (T : Table) : TypeIndex := TypeIndex.buildFrom T {} 0 T.types

/-- `extract_function_type_info`: (parameter, callable type id, process send, process receive). -/
def extractFn (T : Table) (f : FnInfo) : Nat × Nat × Option Nat × Option Nat :=
  match T.types[f.typeId]? with
  | some (.callable p r c) => (p, f.typeId, some c, some r)
  | _ => (0, f.typeId, none, none)

/-- the type id whose assignability to the pattern decides whether tag `c` is accepted;
`none` = the index has no entry for the tag (then the tag is never accepted, except for the
int / bin / ref fallback in `tagAccepts`). -/
def tagType (inp : CInput) (idx : TypeIndex) : CTag → Option Nat
  | .integer => idx.integer
  | .binary => idx.binary
  | .reference => idx.reference
  | .tuple tid => lookupFirst tid idx.tupleToType
  | .function fid => (inp.functions[fid]?).map (fun f => (extractFn inp.table f).2.1)
  | .builtin bid => (inp.builtins[bid]?).bind (fun b => lookupFirst (b.1, b.2) idx.callableToType)
  | .process fid =>
    (inp.functions[fid]?).bind (fun f =>
      let e := extractFn inp.table f
      lookupFirst (e.2.2.1, e.2.2.2) idx.processToType)
  | .resource rid => (inp.resources[rid]?).bind (fun n => lookupFirst n idx.resourceToType)

/-- when the table has no `Type::Integer` (resp. Binary, Reference) entry at all, the code compares
the pattern directly: it accepts the tag iff the pattern IS that primitive type — or the empty
union (`never`), which is how the code is written. -/
def primFallback (T : Table) (pattern : Nat) (prim : Ty) : Bool :=
  match T.types[pattern]? with
  | some ty => decide (ty = prim) || isNeverTy ty
  | none => false

/-- is tag `c` put into the set of `pattern`? `none` = `is_compatible` ran out of fuel. -/
def tagAccepts (inp : CInput) (idx : TypeIndex) (fuel : Nat) (pattern : Nat) (c : CTag) : Option Bool :=
  match tagType inp idx c with
  | some id => isCompatible inp.table fuel id pattern
  | none =>
    match c with
    | .integer => some (primFallback inp.table pattern .integer)
    | .binary => some (primFallback inp.table pattern .binary)
    | .reference => some (primFallback inp.table pattern .reference)
    | _ => some false

/-- every tag the computation iterates over, in its order: int, bin, ref, all tuple ids, all
function ids (as functions), all builtin ids, all function ids (as processes), all resource ids. -/
def allTags (inp : CInput) : List CTag :=
  [.integer, .binary, .reference] ++
    (List.range inp.table.tuples.length).map .tuple ++
    (List.range inp.functions.length).map .function ++
    (List.range inp.builtins.length).map .builtin ++
    (List.range inp.functions.length).map .process ++
    (List.range inp.resources.length).map .resource

def filterTags (f : CTag → Option Bool) : List CTag → Option (List CTag)
  | [] => some []
  | c :: rest =>
    match f c, filterTags f rest with
    | some true, some r => some (c :: r)
    | some false, some r => some r
    | _, _ => none

/-- `compute_compatible_concrete_types(pattern_id, ..)` (as a list without duplicates). -/
def compatSet (inp : CInput) (idx : TypeIndex) (fuel : Nat) (pattern : Nat) : Option (List CTag) :=
  filterTags (tagAccepts inp idx fuel pattern) (allTags inp)

def listMapO {α β : Type} (f : α → Option β) : List α → Option (List β)
  | [] => some []
  | x :: xs =>
    match f x, listMapO f xs with
    | some y, some ys => some (y :: ys)
    | _, _ => none

/-- `compute_type_compatibility`: a set per type id; only ids used by some `IsType` instruction
(and inside the type table) are computed, all others are empty. -/
def typeCompat (inp : CInput) (fuel : Nat) : Option (List (List CTag)) :=
  let idx := TypeIndex.build inp.table
  let patterns := inp.functions.flatMap (·.isTypes)
  listMapO (fun t => if patterns.contains t then compatSet inp idx fuel t else some [])
    (List.range inp.table.types.length)

/-- `compute_param_compatibility`: per function (its parameter type; 0 when its `type_id` is not
a callable) and per builtin (its declared parameter type). -/
def paramCompat (inp : CInput) (fuel : Nat) : Option (List (List CTag) × List (List CTag)) :=
  let idx := TypeIndex.build inp.table
  match listMapO (fun f => compatSet inp idx fuel (extractFn inp.table f).1) inp.functions,
        listMapO (fun (b : Nat × Nat) => compatSet inp idx fuel b.1) inp.builtins with
  | some fs, some bs => some (fs, bs)
  | _, _ => none

/-- `compute_canonical_tuples`: the lowest tuple id with the same name and field labels. -/
def canonicalTuples (tuples : List TupleInfo) : List Nat :=
  let shape : TupleInfo → Option Name × List (Option Name) := fun i => (i.name, i.fields.map (·.1))
  (List.range tuples.length).map (fun id =>
    match tuples[id]? with
    | none => id
    | some info =>
      match (List.range tuples.length).find? (fun j =>
        match tuples[j]? with
        | some other => decide (shape other = shape info)
        | none => false) with
      | some j => j
      | none => id)

/-! ### the runtime test -/

/-- `check_type_compatible`: the tag is in the set of the pattern; no set ⇒ no match. -/
def isType (tc : List (List CTag)) (pattern : Nat) (c : CTag) : Bool :=
  match tc[pattern]? with
  | some set => set.contains c
  | none => false

/-- what a receive source is at runtime -/
inductive Source where
  | function (id : Nat)
  | builtin (id : Nat)
  | other
  deriving DecidableEq, Repr, Inhabited

/-- `check_message_compatible`: mailbox filtering by the source's parameter table; PERMISSIVE when
the table has no entry for the source (`unwrap_or(true)`) and for every other kind of source. -/
def checkMessage (fp bp : List (List CTag)) (msg : CTag) : Source → Bool
  | .function f =>
    match fp[f]? with
    | some set => set.contains msg
    | none => true
  | .builtin b =>
    match bp[b]? with
    | some set => set.contains msg
    | none => true
  | .other => true

end QM.Types
