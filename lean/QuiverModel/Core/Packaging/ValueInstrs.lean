import QuiverModel.Core.Packaging.Sem
/-
M-Packaging, part 3 — turning a value back into instructions (import-free; owner: C10).

Mirrors
  quiver-compiler/src/compiler.rs  `value_to_instructions_from_cache`  (= `v2iA`: a cached module value
                                    re-emitted at each `%m` / `%m.f` use; closures keep their captures:
                                    capture values are pushed, then `Function(f)` pops them)
  quiver-core/src/program.rs       `value_to_instructions` (= `v2iB`) and `inject_function_captures`
                                    (= `injectCaptures`: a closure becomes a *new* capture-free function
                                    whose prelude stores the captures, used by `quiv run`/`quiv compile`)
  quiver-core/src/program.rs       `register_constant`, `register_function` (dedup, else append)

Binaries: a `Val.bin` carries its bytes, so `Binary::Constant(i)` (re-uses constant `i`) and
`Binary::Heap(i)` (registers the bytes) both become "register the bytes" — with deduplicated constants
`register_constant` returns the same index `i` for the former. The type registrations both Rust
functions perform on the side (`register_type(Integer)`, the never-receiving `Callable` of a builtin, …)
do not influence the emitted instructions and are not modelled here (they matter to the compatibility
tables, which `checkRenaming` covers).
-/
namespace QM.Packaging

def indexOf? (k : Const) : List Const → Option Nat
  | [] => none
  | c :: cs => if c == k then some 0 else (indexOf? k cs).map (· + 1)

/-- `Program::register_constant`. -/
def Prog.registerConst (P : Prog) (k : Const) : Prog × Nat :=
  match indexOf? k P.consts.toList with
  | some i => (P, i)
  | none => ({ P with consts := P.consts.push k }, P.consts.size)

def fnIndexOf? (F : Fn) : List Fn → Option Nat
  | [] => none
  | c :: cs => if c == F then some 0 else (fnIndexOf? F cs).map (· + 1)

/-- `Program::register_function` (deduplicates on full equality). -/
def Prog.registerFn (P : Prog) (F : Fn) : Prog × Nat :=
  match fnIndexOf? F P.fns.toList with
  | some i => (P, i)
  | none => ({ P with fns := P.fns.push F }, P.fns.size)

mutual
/-- `value_to_instructions_from_cache`: `none` = the Rust returns an error
    (`FunctionUndefined`, `BuiltinUndefined`, `FeatureUnsupported` for refs / processes / resources). -/
def v2iA (P : Prog) : Val → Option (Prog × List Instr)
  | .int z => some ((P.registerConst (.int z)).1, [.const (P.registerConst (.int z)).2])
  | .bin bs => some ((P.registerConst (.bin bs)).1, [.const (P.registerConst (.bin bs)).2])
  | .tuple t fs =>
    match v2iAList P fs with
    | some (P1, is) => some (P1, is ++ [.tuple t])
    | none => none
  | .fn f cs =>
    match P.fns[f]? with
    | none => none
    | some _ =>
      match v2iAList P cs with
      | some (P1, is) => some (P1, is ++ [.function f])
      | none => none
  | .builtin b => if b < P.builtins.size then some (P, [.builtin b]) else none
  | .ref _ => none
  | .proc _ _ => none
  | .res _ _ => none
def v2iAList (P : Prog) : List Val → Option (Prog × List Instr)
  | [] => some (P, [])
  | v :: vs =>
    match v2iA P v with
    | none => none
    | some (P1, i1) =>
      match v2iAList P1 vs with
      | none => none
      | some (P2, i2) => some (P2, i1 ++ i2)
end

mutual
/-- `Program::value_to_instructions`: `none` = the Rust panics ("Cannot convert pid/resource/ref to
    instructions", missing function). A closure with captures is replaced by an injected function. -/
def v2iB (P : Prog) : Val → Option (Prog × List Instr)
  | .int z => some ((P.registerConst (.int z)).1, [.const (P.registerConst (.int z)).2])
  | .bin bs => some ((P.registerConst (.bin bs)).1, [.const (P.registerConst (.bin bs)).2])
  | .tuple t fs =>
    match v2iBList P fs with
    | some (P1, is) => some (P1, is ++ [.tuple t])
    | none => none
  | .fn f [] => some (P, [.function f])
  | .fn f (c :: cs) =>
    -- `inject_function_captures(f, captures)` inlined (it is mutually recursive with this function)
    match v2iBStores P (c :: cs) with
    | none => none
    | some (P1, prelude) =>
      match P1.fns[f]? with
      | none => none
      | some F =>
        some ((P1.registerFn { instrs := prelude ++ F.instrs, captures := 0, typeId := F.typeId }).1,
              [.function (P1.registerFn { instrs := prelude ++ F.instrs, captures := 0, typeId := F.typeId }).2])
  | .builtin b => some (P, [.builtin b])
  | .ref _ => none
  | .proc _ _ => none
  | .res _ _ => none
def v2iBList (P : Prog) : List Val → Option (Prog × List Instr)
  | [] => some (P, [])
  | v :: vs =>
    match v2iB P v with
    | none => none
    | some (P1, i1) =>
      match v2iBList P1 vs with
      | none => none
      | some (P2, i2) => some (P2, i1 ++ i2)
/-- the prelude of an injected function: for each capture, its instructions then `Store` -/
def v2iBStores (P : Prog) : List Val → Option (Prog × List Instr)
  | [] => some (P, [])
  | v :: vs =>
    match v2iB P v with
    | none => none
    | some (P1, i1) =>
      match v2iBStores P1 vs with
      | none => none
      | some (P2, i2) => some (P2, i1 ++ [.store] ++ i2)
end

/-- `Program::inject_function_captures(function_index, captures)`: the new program and the index of
    the injected function. -/
def injectCaptures (P : Prog) (f : Nat) (caps : List Val) : Option (Prog × Nat) :=
  match v2iBStores P caps with
  | none => none
  | some (P1, prelude) =>
    match P1.fns[f]? with
    | none => none
    | some F => some (P1.registerFn { instrs := prelude ++ F.instrs, captures := 0, typeId := F.typeId })

end QM.Packaging
