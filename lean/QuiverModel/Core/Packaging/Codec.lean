import QuiverModel.Core.Prelude
import QuiverModel.Core.Packaging.Renaming
import QuiverModel.Core.Packaging.ValueInstrs
/-
Driver glue for `qm_c10`: S-expression → `Prog` (trusted parsing code, no model content).

  (prog <slot> (consts K…) (fns F…) (builtins B…) (tuples T…) (types Y…) (resources R…)
               (compat ROW…) (canon n…) (fparam (TAG…)…) (bparam (TAG…)…))
  K   ::= (i <int>) | (b <hex>) | (b)
  F   ::= (fn <captures> <typeId> I…)
  I   ::= pop | dup | store | call | not | spawn | send | self | select
        | (c n) | (pick n) | (rot n) | (reset n) | (load n) | (tup n) | (get n) | (ist n)
        | (jmp k) | (jif k) | (tc 0|1) | (fn n) | (bi n) | (eq n) | (proc pid f)
  B   ::= (<name> <paramType> <resultType>)
  T   ::= (<name|~> (<label|~> <typeId>)…)          names are written `=name`, absent ones `~`
  Y   ::= int | bin | ref | (tuple n) | (part <name|~> (<field> <typeId>)…) | (fn p r recv)
        | (cycle d) | (union n…) | (process <n|~> <n|~>) | (resource <name>) | (var <name>)
  ROW ::= (<typeId> TAG…)      TAG ::= i | b | r | t<n> | f<n> | u<n> | p<n> | x<n>
-/
namespace QM.Packaging.Codec
open QM QM.Packaging

def optName : Sx → Option (Option String)
  | .atom "~" => some none
  | .atom s => if s.startsWith "=" then some (some (s.drop 1).toString) else none
  | _ => none

def optNat : Sx → Option (Option Nat)
  | .atom "~" => some none
  | x => x.asNat.map some

def parseInstr : Sx → Option Instr
  | .atom "pop" => some .pop
  | .atom "dup" => some .dup
  | .atom "store" => some .store
  | .atom "call" => some .call
  | .atom "not" => some .not
  | .atom "spawn" => some .spawn
  | .atom "send" => some .send
  | .atom "self" => some .self
  | .atom "select" => some .select
  | .list [.atom "c", n] => n.asNat.map .const
  | .list [.atom "pick", n] => n.asNat.map .pick
  | .list [.atom "rot", n] => n.asNat.map .rotate
  | .list [.atom "reset", n] => n.asNat.map .reset
  | .list [.atom "load", n] => n.asNat.map .load
  | .list [.atom "tup", n] => n.asNat.map .tuple
  | .list [.atom "get", n] => n.asNat.map .get
  | .list [.atom "ist", n] => n.asNat.map .isType
  | .list [.atom "jmp", k] => k.asInt.map .jump
  | .list [.atom "jif", k] => k.asInt.map .jumpIf
  | .list [.atom "tc", .atom "0"] => some (.tailCall false)
  | .list [.atom "tc", .atom "1"] => some (.tailCall true)
  | .list [.atom "fn", n] => n.asNat.map .function
  | .list [.atom "bi", n] => n.asNat.map .builtin
  | .list [.atom "eq", n] => n.asNat.map .equal
  | .list [.atom "proc", p, f] => match p.asNat, f.asNat with
    | some p, some f => some (.process p f)
    | _, _ => none
  | _ => none

def parseConst : Sx → Option Const
  | .list [.atom "i", z] => z.asInt.map .int
  | .list [.atom "b"] => some (.bin [])
  | .list [.atom "b", .atom h] => (parseHex h).map .bin
  | _ => none

def parseFn : Sx → Option Fn
  | .list (.atom "fn" :: caps :: ty :: is) =>
    match caps.asNat, ty.asNat, mapOpt parseInstr is with
    | some c, some t, some is => some { instrs := is, captures := c, typeId := t }
    | _, _, _ => none
  | _ => none

def parseBuiltin : Sx → Option BuiltinInfo
  | .list [.atom n, p, r] => match p.asNat, r.asNat with
    | some p, some r => some { name := n, paramType := p, resultType := r }
    | _, _ => none
  | _ => none

def parseField : Sx → Option (Option String × Nat)
  | .list [l, t] => match optName l, t.asNat with
    | some l, some t => some (l, t)
    | _, _ => none
  | _ => none

def parseTuple : Sx → Option TupleInfo
  | .list (n :: fs) => match optName n, mapOpt parseField fs with
    | some n, some fs => some { name := n, fields := fs }
    | _, _ => none
  | _ => none

def parsePField : Sx → Option (String × Nat)
  | .list [.atom f, t] => t.asNat.map (fun t => (f, t))
  | _ => none

def parseTy : Sx → Option Ty
  | .atom "int" => some .int
  | .atom "bin" => some .bin
  | .atom "ref" => some .ref
  | .list [.atom "tuple", n] => n.asNat.map .tuple
  | .list (.atom "part" :: n :: fs) => match optName n, mapOpt parsePField fs with
    | some n, some fs => some (.part n fs)
    | _, _ => none
  | .list [.atom "fn", p, r, v] => match p.asNat, r.asNat, v.asNat with
    | some p, some r, some v => some (.callable p r v)
    | _, _, _ => none
  | .list [.atom "cycle", d] => d.asNat.map .cycle
  | .list (.atom "union" :: ids) => (mapOpt Sx.asNat ids).map .union
  | .list [.atom "process", s, r] => match optNat s, optNat r with
    | some s, some r => some (.process s r)
    | _, _ => none
  | .list [.atom "resource", .atom n] => some (.resource n)
  | .list [.atom "var", .atom n] => some (.var n)
  | _ => none

def parseTag : Sx → Option Tag
  | .atom "i" => some .int
  | .atom "b" => some .bin
  | .atom "r" => some .ref
  | .atom s =>
    match s.toList with
    | c :: rest =>
      match (String.ofList rest).toNat? with
      | some n =>
        if c = 't' then some (.tuple n) else if c = 'f' then some (.fn n)
        else if c = 'u' then some (.builtin n) else if c = 'p' then some (.proc n)
        else if c = 'x' then some (.res n) else none
      | none => none
    | [] => none
  | _ => none

def parseRow : Sx → Option (Nat × List Tag)
  | .list (t :: tags) => match t.asNat, mapOpt parseTag tags with
    | some t, some tags => some (t, tags)
    | _, _ => none
  | _ => none

def parseTagRow : Sx → Option (List Tag)
  | .list tags => mapOpt parseTag tags
  | _ => none

def section? (name : String) (parts : List Sx) : Option (List Sx) :=
  parts.findSome? (fun p => match p with
    | .list (.atom n :: xs) => if n == name then some xs else none
    | _ => none)

def sect {α : Type} (name : String) (f : Sx → Option α) (parts : List Sx) : Except String (List α) :=
  match section? name parts with
  | none => .error s!"missing-section:{name}"
  | some xs =>
    match mapOpt f xs with
    | some ys => .ok ys
    | none =>
      match xs.find? (fun x => (f x).isNone) with
      | some bad => .error s!"bad-entry:{name}:{(bad.render.take 80)}"
      | none => .error s!"bad-section:{name}"

def parseProg (parts : List Sx) : Except String Prog := do
  let cs ← sect "consts" parseConst parts
  let fs ← sect "fns" parseFn parts
  let bs ← sect "builtins" parseBuiltin parts
  let ts ← sect "tuples" parseTuple parts
  let ys ← sect "types" parseTy parts
  let rs ← sect "resources" Sx.asAtom parts
  let rows ← sect "compat" parseRow parts
  let cn ← sect "canon" Sx.asNat parts
  let fp ← sect "fparam" parseTagRow parts
  let bp ← sect "bparam" parseTagRow parts
  return { consts := cs.toArray, fns := fs.toArray, builtins := bs.toArray, tuples := ts.toArray,
           types := ys.toArray, resources := rs.toArray, compat := rows, canon := cn.toArray,
           fparam := fp.toArray, bparam := bp.toArray }

/-! Values and rendering (for the `inject` / `v2i` requests). -/

/-- `(i n)` `(b hex)` `(b)` `(t id v…)` `(f idx v…)` `(u id)` `(r n)` `(p pid f)` `(x rid ty)`. -/
partial def parseVal : Sx → Option Val
  | .list [.atom "i", z] => z.asInt.map .int
  | .list [.atom "b"] => some (.bin [])
  | .list [.atom "b", .atom h] => (parseHex h).map .bin
  | .list [.atom "r", n] => n.asNat.map .ref
  | .list [.atom "u", n] => n.asNat.map .builtin
  | .list [.atom "p", a, b] => match a.asNat, b.asNat with
    | some a, some b => some (.proc a b)
    | _, _ => none
  | .list [.atom "x", a, b] => match a.asNat, b.asNat with
    | some a, some b => some (.res a b)
    | _, _ => none
  | .list (.atom "t" :: id :: vs) => match id.asNat, mapOpt parseVal vs with
    | some id, some vs => some (.tuple id vs)
    | _, _ => none
  | .list (.atom "f" :: id :: vs) => match id.asNat, mapOpt parseVal vs with
    | some id, some vs => some (.fn id vs)
    | _, _ => none
  | _ => none

def renderInstr : Instr → String
  | .const n => s!"(c {n})" | .pop => "pop" | .dup => "dup" | .pick n => s!"(pick {n})"
  | .rotate n => s!"(rot {n})" | .reset n => s!"(reset {n})" | .load n => s!"(load {n})" | .store => "store"
  | .tuple n => s!"(tup {n})" | .get n => s!"(get {n})" | .isType n => s!"(ist {n})"
  | .jump k => s!"(jmp {k})" | .jumpIf k => s!"(jif {k})" | .call => "call"
  | .tailCall b => s!"(tc {if b then 1 else 0})" | .function n => s!"(fn {n})" | .builtin n => s!"(bi {n})"
  | .equal n => s!"(eq {n})" | .not => "not" | .spawn => "spawn" | .send => "send" | .self => "self"
  | .select => "select" | .process p f => s!"(proc {p} {f})"

def renderConst : Const → String
  | .int z => s!"(i {z})"
  | .bin [] => "(b)"
  | .bin bs => s!"(b {toHex bs})"

end QM.Packaging.Codec
