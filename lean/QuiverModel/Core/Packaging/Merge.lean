import QuiverModel.Core.Packaging.ValueInstrs
/-
M-Packaging, part 5 — `Environment::merge_bytecode` (import-free; owner: C10).

Port of quiver-environment/src/environment.rs `merge_bytecode` with `import_type` / `import_type_value` /
`import_tuple` (deep import, dependencies first, memoised in `type_remap` / `tuple_remap`),
`remap_function` (operands through the tables, `.unwrap_or(idx)`: a reference to a function that is
merged LATER keeps its source index) and quiver-core/src/program.rs `register_constant` /
`register_type` / `register_tuple` / `register_builtin_info` (by name) / `register_function`
(deduplicate, else append). `none` = the Rust indexes out of range (`src_types[old_id]`) or the fuel of
the recursive import ran out.
-/
namespace QM.Packaging

def tyIndexOf? (τ : Ty) : List Ty → Option Nat
  | [] => none
  | c :: cs => if c == τ then some 0 else (tyIndexOf? τ cs).map (· + 1)

/-- `Program::register_type` -/
def Prog.registerType (P : Prog) (τ : Ty) : Prog × Nat :=
  match tyIndexOf? τ P.types.toList with
  | some i => (P, i)
  | none => ({ P with types := P.types.push τ }, P.types.size)

def tupIndexOf? (T : TupleInfo) : List TupleInfo → Option Nat
  | [] => none
  | c :: cs => if c == T then some 0 else (tupIndexOf? T cs).map (· + 1)

/-- `Program::register_tuple` (same name and same fields) -/
def Prog.registerTuple (P : Prog) (T : TupleInfo) : Prog × Nat :=
  match tupIndexOf? T P.tuples.toList with
  | some i => (P, i)
  | none => ({ P with tuples := P.tuples.push T }, P.tuples.size)

def builtinIndexOf? (name : String) : List BuiltinInfo → Option Nat
  | [] => none
  | c :: cs => if c.name == name then some 0 else (builtinIndexOf? name cs).map (· + 1)

/-- `Program::register_builtin_info` (an existing builtin of that NAME wins) -/
def Prog.registerBuiltin (P : Prog) (B : BuiltinInfo) : Prog × Nat :=
  match builtinIndexOf? B.name P.builtins.toList with
  | some i => (P, i)
  | none => ({ P with builtins := P.builtins.push B }, P.builtins.size)

structure MergeSt where
  prog : Prog
  tyMap : AMap := []
  tuMap : AMap := []

mutual
/-- `import_type` -/
def importType (fast : Bool) (src : Prog) : Nat → Nat → MergeSt → Option (MergeSt × Nat)
  | 0, _, _ => none
  | fuel + 1, old, st =>
    match st.tyMap.get old with
    | some n => some (st, n)
    | none =>
      match src.types[old]? with
      | none => none
      | some τ =>
        -- the seeded C08-3 "fast path" (NOT in the code; `fast := true` only in the witness): a
        -- structurally equal entry at the same index is mapped to itself, children un-imported
        if fast && st.prog.types[old]? == some τ then some ({ st with tyMap := (old, old) :: st.tyMap }, old)
        else
        match importTyValue fast src fuel τ st with
        | none => none
        | some (st1, τ') =>
          let r := st1.prog.registerType τ'
          some ({ st1 with prog := r.1, tyMap := (old, r.2) :: st1.tyMap }, r.2)
/-- `import_type_value` -/
def importTyValue (fast : Bool) (src : Prog) : Nat → Ty → MergeSt → Option (MergeSt × Ty)
  | 0, _, _ => none
  | fuel + 1, τ, st =>
    match τ with
    | .tuple id => (importTuple fast src fuel id st).map (fun r => (r.1, Ty.tuple r.2))
    | .part n fs =>
      (importTypes fast src fuel (fs.map (·.2)) st).map (fun r => (r.1, Ty.part n (List.zipWith (fun p t => (p.1, t)) fs r.2)))
    | .union ids => (importTypes fast src fuel ids st).map (fun r => (r.1, Ty.union r.2))
    | .callable p r v =>
      match importTypes fast src fuel [p, r, v] st with
      | some (st1, [p', r', v']) => some (st1, .callable p' r' v')
      | _ => none
    | .process s r =>
      match (match s with
             | none => some (st, none)
             | some t => (importType fast src fuel t st).map (fun (x : MergeSt × Nat) => (x.1, some x.2))) with
      | none => none
      | some (st1, s') =>
        match (match r with
               | none => some (st1, none)
               | some t => (importType fast src fuel t st1).map (fun (x : MergeSt × Nat) => (x.1, some x.2))) with
        | none => none
        | some (st2, r') => some (st2, .process s' r')
    | other => some (st, other)
def importTypes (fast : Bool) (src : Prog) : Nat → List Nat → MergeSt → Option (MergeSt × List Nat)
  | 0, _, _ => none
  | _ + 1, [], st => some (st, [])
  | fuel + 1, t :: ts, st =>
    match importType fast src fuel t st with
    | none => none
    | some (st1, t') =>
      match importTypes fast src fuel ts st1 with
      | none => none
      | some (st2, ts') => some (st2, t' :: ts')
/-- `import_tuple` -/
def importTuple (fast : Bool) (src : Prog) : Nat → Nat → MergeSt → Option (MergeSt × Nat)
  | 0, _, _ => none
  | fuel + 1, old, st =>
    match st.tuMap.get old with
    | some n => some (st, n)
    | none =>
      match src.tuples[old]? with
      | none => none
      | some T =>
        if fast && st.prog.tuples[old]? == some T then some ({ st with tuMap := (old, old) :: st.tuMap }, old)
        else
        match importTypes fast src fuel (T.fields.map (·.2)) st with
        | none => none
        | some (st1, ts') =>
          let r := st1.prog.registerTuple { name := T.name, fields := List.zipWith (fun p t => (p.1, t)) T.fields ts' }
          some ({ st1 with prog := r.1, tuMap := (old, r.2) :: st1.tuMap }, r.2)
end

def importFuel (src : Prog) : Nat :=
  8 + 4 * (src.types.size + src.tuples.size) +
    2 * (src.types.foldl (fun n τ => n + (match τ with | .part _ fs => fs.length | .union ids => ids.length | _ => 3)) 0 +
         src.tuples.foldl (fun n T => n + T.fields.length) 0)

def importAllTypes (fast : Bool) (src : Prog) : List Nat → MergeSt → Option MergeSt
  | [], st => some st
  | t :: ts, st =>
    match importType fast src (importFuel src) t st with
    | none => none
    | some (st1, _) => importAllTypes fast src ts st1

def importAllTuples (fast : Bool) (src : Prog) : List Nat → MergeSt → Option MergeSt
  | [], st => some st
  | t :: ts, st =>
    match importTuple fast src (importFuel src) t st with
    | none => none
    | some (st1, _) => importAllTuples fast src ts st1

def getOr (m : AMap) (i : Nat) : Nat := (m.get i).getD i

/-- `remap_function`'s instruction map (every lookup `.unwrap_or(idx)`; `Process` is not remapped) -/
def mergeInstr (cm fm tm ym bm : AMap) : Instr → Instr
  | .const i => .const (getOr cm i)
  | .function i => .function (getOr fm i)
  | .builtin i => .builtin (getOr bm i)
  | .tuple i => .tuple (getOr tm i)
  | .isType i => .isType (getOr ym i)
  | i => i

def mergeConsts : List Const → Nat → Prog → AMap → Prog × AMap
  | [], _, P, m => (P, m)
  | k :: ks, i, P, m =>
    let r := P.registerConst k
    mergeConsts ks (i + 1) r.1 ((i, r.2) :: m)

def mergeBuiltins (ym : AMap) : List BuiltinInfo → Nat → Prog → AMap → Prog × AMap
  | [], _, P, m => (P, m)
  | B :: bs, i, P, m =>
    let r := P.registerBuiltin { name := B.name, paramType := getOr ym B.paramType, resultType := getOr ym B.resultType }
    mergeBuiltins ym bs (i + 1) r.1 ((i, r.2) :: m)

def mergeFns (cm tm ym bm : AMap) : List Fn → Nat → Prog → AMap → Prog × AMap
  | [], _, P, fm => (P, fm)
  | F :: fs, i, P, fm =>
    let F' : Fn := { instrs := F.instrs.map (mergeInstr cm fm tm ym bm), captures := F.captures,
                     typeId := getOr ym F.typeId }
    let r := P.registerFn F'
    mergeFns cm tm ym bm fs (i + 1) r.1 ((i, r.2) :: fm)

/-- `Program::collect_resource_names` -/
def resourceNames (types : List Ty) : List String :=
  types.foldl (fun names τ => match τ with
    | .resource n => if names.contains n then names else names ++ [n]
    | _ => names) []

structure MergeOut where
  prog : Prog
  entry : Nat
  ren : Ren

/-- `Environment::merge_bytecode(src)` into the environment's program `env`. -/
def mergeBytecodeWith (fast : Bool) (env src : Prog) (entry : Nat) : Option MergeOut :=
  let (p1, cm) := mergeConsts src.consts.toList 0 env []
  match importAllTypes fast src (List.range src.types.size) { prog := p1 } with
  | none => none
  | some st1 =>
    match importAllTuples fast src (List.range src.tuples.size) st1 with
    | none => none
    | some st2 =>
      let (p3, bm) := mergeBuiltins st2.tyMap src.builtins.toList 0 st2.prog []
      let (p4, fm) := mergeFns cm st2.tuMap st2.tyMap bm src.fns.toList 0 p3 []
      match fm.get entry with
      | none => none
      | some e' =>
        some { prog := { p4 with resources := (resourceNames p4.types.toList).toArray },
               entry := e',
               ren := { const := cm, fn := fm, tuple := st2.tuMap, type := st2.tyMap, builtin := bm } }

def mergeBytecode (env src : Prog) (entry : Nat) : Option MergeOut := mergeBytecodeWith false env src entry

end QM.Packaging
