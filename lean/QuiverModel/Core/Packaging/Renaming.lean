/-
M-Packaging, part 1 — programs, index renamings and the renaming validator (import-free; owner: C10).

Mirrors
  quiver-core/src/bytecode.rs       `Instruction` (all 24 variants), `Function`, `Constant`, `Bytecode`,
                                    `ConcreteType` (= `Tag`)
  quiver-core/src/types.rs          `Type`, `TupleTypeInfo`, `BuiltinInfo`
  quiver-core/src/executor.rs       the tables an `Executor` consults at run time:
                                    `type_compatibility` (= `Prog.compat`), `canonical_tuples` (= `Prog.canon`)
  quiver-core/src/optimisation.rs   `tree_shake`        — what a packaging step must preserve
  quiver-environment/src/environment.rs  `merge_bytecode`, `remap_function`, `import_type`, `import_tuple`

A packaging step (tree-shake, merge behind other programs, a serde round trip) turns a program `P`
with entry `e` into `P'` with entry `e'`. It preserves behaviour when `P'` is a *consistent renaming*
of the part of `P` reachable from `e`: there are index maps `ρ = {const, fn, tuple, type, builtin,
resource}` — each injective — such that every reachable function of `P` is, instruction by
instruction, mapped to its image in `P'`, every table entry those functions refer to is mapped to its
ρ-image, and the run-time lookup tables (`compat`, `canon`) agree through ρ on everything a run can
consult. That is `IsRenaming`; `validateB` decides it for a *given* ρ; `recover` finds ρ by lock-step
traversal from the two entries (untrusted — only its output is validated); `checkRenaming` combines
them. `Theorems/C10.lean` proves `validateB ρ … = true → IsRenaming ρ …` and that execution commutes
with any `IsRenaming`.

Duplication note: `QuiverModel.Core.VM.Basic` (C07) has its own `Instr`/`Val`; this file keeps a
separate copy in namespace `QM.Packaging` because the C10 model needs the *type table* and the
run-time compatibility tables inside `Prog`, and must not break when M-VM is edited.
-/
namespace QM.Packaging

/-! ## Programs -/

/-- `bytecode.rs::Instruction`. -/
inductive Instr where
  | const (i : Nat)
  | pop
  | dup
  | pick (n : Nat)
  | rotate (n : Nat)
  | reset (n : Nat)
  | load (n : Nat)
  | store
  | tuple (id : Nat)
  | get (i : Nat)
  | isType (t : Nat)
  | jump (off : Int)
  | jumpIf (off : Int)
  | call
  | tailCall (recurse : Bool)
  | function (f : Nat)
  | builtin (b : Nat)
  | equal (n : Nat)
  | not
  | spawn
  | send
  | self
  | select
  | process (pid : Nat) (f : Nat)
  deriving DecidableEq, Repr, Inhabited

/-- `types.rs::Type`. -/
inductive Ty where
  | int
  | bin
  | ref
  | tuple (id : Nat)
  | part (name : Option String) (fields : List (String × Nat))
  | callable (param result receive : Nat)
  | cycle (depth : Nat)
  | union (ids : List Nat)
  | process (send receive : Option Nat)
  | resource (name : String)
  | var (name : String)
  deriving DecidableEq, Repr, Inhabited

/-- `bytecode.rs::Constant`. -/
inductive Const where
  | int (z : Int)
  | bin (bs : List UInt8)
  deriving DecidableEq, Repr, Inhabited

/-- `bytecode.rs::Function`. -/
structure Fn where
  instrs : List Instr
  captures : Nat
  typeId : Nat
  deriving DecidableEq, Repr, Inhabited

/-- `types.rs::BuiltinInfo`. -/
structure BuiltinInfo where
  name : String
  paramType : Nat
  resultType : Nat
  deriving DecidableEq, Repr, Inhabited

/-- `types.rs::TupleTypeInfo`. -/
structure TupleInfo where
  name : Option String
  fields : List (Option String × Nat)
  deriving DecidableEq, Repr, Inhabited

/-- `bytecode.rs::ConcreteType`: the tag `get_concrete_type` computes for a runtime value. -/
inductive Tag where
  | int | bin | ref
  | tuple (id : Nat)
  | fn (id : Nat)
  | builtin (id : Nat)
  | proc (fid : Nat)
  | res (rid : Nat)
  deriving DecidableEq, Repr, Inhabited

/-- A program as the packaging steps and the executor see it: the `Bytecode` tables plus the two
    lookup tables computed from them when the bytecode is loaded (`execute_bytecode_sync`,
    `merge_bytecode`): `compat` = non-empty rows of `type_compatibility` (row index, members),
    `canon` = `canonical_tuples`. -/
structure Prog where
  consts : Array Const
  fns : Array Fn
  builtins : Array BuiltinInfo
  tuples : Array TupleInfo
  types : Array Ty
  resources : Array String
  compat : List (Nat × List Tag)
  canon : Array Nat
  /-- `function_param_compatibility`: per function id, the tags its parameter type accepts
      (consulted by `check_message_compatible` when a select scans the mailbox) -/
  fparam : Array (List Tag) := #[]
  /-- `builtin_param_compatibility` -/
  bparam : Array (List Tag) := #[]
  deriving Repr, Inhabited

/-- `check_type_compatible`: `type_compatibility.get(t).map(|s| s.contains(tag)).unwrap_or(false)`. -/
def Prog.isCompat (P : Prog) (t : Nat) (c : Tag) : Bool :=
  match P.compat.lookup t with
  | some row => row.contains c
  | none => false

/-- `check_message_compatible` for a function source:
    `function_param_compatibility.get(f).map(|s| s.contains(tag)).unwrap_or(true)`. -/
def Prog.msgCompatFn (P : Prog) (f : Nat) (c : Tag) : Bool :=
  match P.fparam[f]? with
  | some row => row.contains c
  | none => true

/-- `check_message_compatible` for a builtin source. -/
def Prog.msgCompatBuiltin (P : Prog) (b : Nat) (c : Tag) : Bool :=
  match P.bparam[b]? with
  | some row => row.contains c
  | none => true

/-- `Executor::canonical_tuple`: `canonical_tuples.get(id).copied().unwrap_or(id)`. -/
def Prog.canonOf (P : Prog) (id : Nat) : Nat := (P.canon[id]?).getD id

/-- `Type::is_never` of a table entry. -/
def Prog.isNeverTy (P : Prog) (t : Nat) : Bool :=
  match P.types[t]? with
  | some (.union []) => true
  | _ => false

/-- Does the tag's *tag type* have an entry in the type table — i.e. does `TypeIndex::build`
    (compatibility.rs) find a type id for it? A tag without one is never a member of any compatibility
    row of this program (`compute_compatible_concrete_types` skips it), so what `IsType` answers for
    such a value is an artefact of the table, not of the value: the value lies outside the program's
    type universe. Functions are always resolvable (through their own `type_id`). For the three
    primitives `TypeIndex` keeps `Option<usize>`; without an entry the code falls back to a direct
    pattern match (`Integer` or `never` only), which differs from `is_compatible` for variable /
    union patterns — so a primitive without an entry is treated as absent too. -/
def Prog.tagPresent (P : Prog) : Tag → Bool
  | .int => P.types.toList.any (· == Ty.int)
  | .bin => P.types.toList.any (· == Ty.bin)
  | .ref => P.types.toList.any (· == Ty.ref)
  | .fn _ => true
  | .tuple t => P.types.toList.any (· == Ty.tuple t)
  | .builtin b =>
    match P.builtins[b]? with
    | some B => P.types.toList.any (fun τ => match τ with
        | .callable p r v => p == B.paramType && r == B.resultType && P.isNeverTy v
        | _ => false)
    | none => false
  | .proc f =>
    match P.fns[f]? with
    | some F =>
      match P.types[F.typeId]? with
      | some (.callable _ r v) => P.types.toList.any (· == Ty.process (some v) (some r))
      | _ => P.types.toList.any (· == Ty.process none none)
    | none => false
  | .res r =>
    match P.resources[r]? with
    | some n => P.types.toList.any (· == Ty.resource n)
    | none => false

/-! ## Renamings -/

/-- Finite partial map on indices (association list; first match wins). -/
abbrev AMap := List (Nat × Nat)

def AMap.get (m : AMap) (k : Nat) : Option Nat := m.lookup k

/-- The five index spaces a packaging step renumbers, plus resource-type ids (renumbered because
    `Bytecode.resources` is rebuilt: sorted by name in `tree_shake`, in type-table order in
    `collect_resource_names`). -/
structure Ren where
  const : AMap := []
  fn : AMap := []
  tuple : AMap := []
  type : AMap := []
  builtin : AMap := []
  resource : AMap := []
  deriving Repr, Inhabited

/-- `mapM` in `Option`, written out (easier to reason about than the monadic one). -/
def mapOpt {α β : Type} (f : α → Option β) : List α → Option (List β)
  | [] => some []
  | a :: as =>
    match f a, mapOpt f as with
    | some b, some bs => some (b :: bs)
    | _, _ => none

/-- The image of one instruction: `tree_shake`'s and `remap_function`'s instruction match. Index
    operands go through the corresponding map (undefined ⇒ no image); everything else is kept. -/
def renameInstr (ρ : Ren) : Instr → Option Instr
  | .const i => (ρ.const.get i).map .const
  | .tuple t => (ρ.tuple.get t).map .tuple
  | .isType t => (ρ.type.get t).map .isType
  | .function f => (ρ.fn.get f).map .function
  | .builtin b => (ρ.builtin.get b).map .builtin
  | .process pid f => (ρ.fn.get f).map (.process pid)
  | i => some i

def renameInstrs (ρ : Ren) (is : List Instr) : Option (List Instr) := mapOpt (renameInstr ρ) is

def renameOptTy (ρ : Ren) : Option Nat → Option (Option Nat)
  | none => some none
  | some t => (ρ.type.get t).map some

/-- The image of a type entry (`remap_type` in `tree_shake`, `import_type_value` in merge). -/
def renameTy (ρ : Ren) : Ty → Option Ty
  | .tuple id => (ρ.tuple.get id).map .tuple
  | .part n fs => (mapOpt (fun (p : String × Nat) => (ρ.type.get p.2).map (fun t => (p.1, t))) fs).map (.part n)
  | .callable p r v =>
    match ρ.type.get p, ρ.type.get r, ρ.type.get v with
    | some p', some r', some v' => some (.callable p' r' v')
    | _, _, _ => none
  | .union ids => (mapOpt ρ.type.get ids).map .union
  | .process s r =>
    match renameOptTy ρ s, renameOptTy ρ r with
    | some s', some r' => some (.process s' r')
    | _, _ => none
  | t => some t

def renameTag (ρ : Ren) : Tag → Option Tag
  | .int => some .int
  | .bin => some .bin
  | .ref => some .ref
  | .tuple t => (ρ.tuple.get t).map .tuple
  | .fn f => (ρ.fn.get f).map .fn
  | .builtin b => (ρ.builtin.get b).map .builtin
  | .proc f => (ρ.fn.get f).map .proc
  | .res r => (ρ.resource.get r).map .res

/-- Injective on its domain. -/
def AMap.Inj (m : AMap) : Prop := ∀ a b c, m.get a = some c → m.get b = some c → a = b

/-- The `IsType` operands of a function body. -/
def isTypeOps : List Instr → List Nat
  | [] => []
  | .isType t :: is => t :: isTypeOps is
  | _ :: is => isTypeOps is

/-- `P'` (entry `e'`) is a consistent renaming by `ρ` of the part of `P` reachable from `e`.
    The domain of `ρ.fn` is closed under reference because `renameInstrs` is defined only when every
    operand has an image; likewise for types/tuples through `renameTy` and the field maps. -/
structure IsRenaming (ρ : Ren) (P P' : Prog) (e e' : Nat) : Prop where
  entry : ρ.fn.get e = some e'
  inj_const : ρ.const.Inj
  inj_fn : ρ.fn.Inj
  inj_tuple : ρ.tuple.Inj
  inj_type : ρ.type.Inj
  inj_builtin : ρ.builtin.Inj
  /-- the runtime creates `Value::nil()` / `Value::ok()` with the fixed ids 0 and 1 -/
  nil_fixed : ρ.tuple.get 0 = some 0
  ok_fixed : ρ.tuple.get 1 = some 1
  fns : ∀ f f', ρ.fn.get f = some f' →
    ∃ F F', P.fns[f]? = some F ∧ P'.fns[f']? = some F' ∧ F'.captures = F.captures ∧
      renameInstrs ρ F.instrs = some F'.instrs ∧ ρ.type.get F.typeId = some F'.typeId
  consts : ∀ c c', ρ.const.get c = some c' → ∃ k, P.consts[c]? = some k ∧ P'.consts[c']? = some k
  tuples : ∀ t t', ρ.tuple.get t = some t' →
    ∃ T T', P.tuples[t]? = some T ∧ P'.tuples[t']? = some T' ∧ T'.name = T.name ∧
      T'.fields.map (·.1) = T.fields.map (·.1) ∧
      mapOpt (fun (p : Option String × Nat) => ρ.type.get p.2) T.fields = some (T'.fields.map (·.2))
  builtins : ∀ b b', ρ.builtin.get b = some b' →
    ∃ B B', P.builtins[b]? = some B ∧ P'.builtins[b']? = some B' ∧ B'.name = B.name ∧
      ρ.type.get B.paramType = some B'.paramType ∧ ρ.type.get B.resultType = some B'.resultType
  types : ∀ t t', ρ.type.get t = some t' →
    ∃ τ τ', P.types[t]? = some τ ∧ P'.types[t']? = some τ' ∧ renameTy ρ τ = some τ'
  resources : ∀ r r', ρ.resource.get r = some r' →
    ∃ n, P.resources[r]? = some n ∧ P'.resources[r']? = some n
  /-- what `IsType` answers: the two compatibility tables agree through ρ on every pattern type a
      reachable function tests against and every tag a reachable value can carry **whose tag type
      has an entry in `P`'s type table** (`tagPresent`). For a tag without an entry `P` answers
      "no" whatever the pattern; a packaging that adds the entry (merging behind a program that
      has it) may answer "yes". Such a value is outside `P`'s type universe — the compiler registers
      the static type of every scrutinee, so it never reaches the test; the execution theorem
      carries that as the hypothesis `IsTypeSafe` (see `Theorems/C10.lean` and notes/C10.md). -/
  compat : ∀ f f' F, ρ.fn.get f = some f' → P.fns[f]? = some F → ∀ t, t ∈ isTypeOps F.instrs →
    ∀ t', ρ.type.get t = some t' → ∀ c c', renameTag ρ c = some c' → P.tagPresent c = true →
      P.isCompat t c = P'.isCompat t' c'
  /-- what a select's mailbox scan consults (`check_message_compatible`): which messages a receive
      function / builtin accepts — F13 lives here for typed receives of process values -/
  fparam : ∀ f f', ρ.fn.get f = some f' → ∀ c c', renameTag ρ c = some c' → P.tagPresent c = true →
    P.msgCompatFn f c = P'.msgCompatFn f' c'
  bparam : ∀ b b', ρ.builtin.get b = some b' → ∀ c c', renameTag ρ c = some c' → P.tagPresent c = true →
    P.msgCompatBuiltin b c = P'.msgCompatBuiltin b' c'
  /-- what `Equal` consults: tuple ids are compared through `canonical_tuples` -/
  canon : ∀ a a' b b', ρ.tuple.get a = some a' → ρ.tuple.get b = some b' →
    (P.canonOf a = P.canonOf b ↔ P'.canonOf a' = P'.canonOf b')

/-- The strict form: the compatibility rows agree on **every** tag in the domain of ρ, present or
    not. Under it execution commutes with no side condition on the run (`C10.run_commutes_strict`).
    The validator reports for each pair whether the strict form holds (`strict=true`). -/
structure IsRenamingStrict (ρ : Ren) (P P' : Prog) (e e' : Nat) : Prop extends IsRenaming ρ P P' e e' where
  compat_all : ∀ f f' F, ρ.fn.get f = some f' → P.fns[f]? = some F → ∀ t, t ∈ isTypeOps F.instrs →
    ∀ t', ρ.type.get t = some t' → ∀ c c', renameTag ρ c = some c' → P.isCompat t c = P'.isCompat t' c'

/-! ## The validator (decides `IsRenaming` for a given ρ) -/

/-- No two entries share a value ⇒ the map is injective on its domain. -/
def distinctB : List Nat → Bool
  | [] => true
  | a :: as => !as.contains a && distinctB as

def AMap.injB (m : AMap) : Bool := distinctB (m.map (·.2))

def fnOK (ρ : Ren) (P P' : Prog) (p : Nat × Nat) : Bool :=
  match P.fns[p.1]?, P'.fns[p.2]? with
  | some F, some F' =>
    F'.captures == F.captures && renameInstrs ρ F.instrs == some F'.instrs &&
      ρ.type.get F.typeId == some F'.typeId
  | _, _ => false

def constOK (P P' : Prog) (p : Nat × Nat) : Bool :=
  match P.consts[p.1]?, P'.consts[p.2]? with
  | some k, some k' => k == k'
  | _, _ => false

def tupleOK (ρ : Ren) (P P' : Prog) (p : Nat × Nat) : Bool :=
  match P.tuples[p.1]?, P'.tuples[p.2]? with
  | some T, some T' =>
    T'.name == T.name && T'.fields.map (·.1) == T.fields.map (·.1) &&
      mapOpt (fun (q : Option String × Nat) => ρ.type.get q.2) T.fields == some (T'.fields.map (·.2))
  | _, _ => false

def builtinOK (ρ : Ren) (P P' : Prog) (p : Nat × Nat) : Bool :=
  match P.builtins[p.1]?, P'.builtins[p.2]? with
  | some B, some B' =>
    B'.name == B.name && ρ.type.get B.paramType == some B'.paramType &&
      ρ.type.get B.resultType == some B'.resultType
  | _, _ => false

def typeOK (ρ : Ren) (P P' : Prog) (p : Nat × Nat) : Bool :=
  match P.types[p.1]?, P'.types[p.2]? with
  | some τ, some τ' => renameTy ρ τ == some τ'
  | _, _ => false

def resourceOK (P P' : Prog) (p : Nat × Nat) : Bool :=
  match P.resources[p.1]?, P'.resources[p.2]? with
  | some n, some n' => n == n'
  | _, _ => false

/-- Every tag in the domain of `renameTag ρ`, with its image. -/
def tagPairs (ρ : Ren) : List (Tag × Tag) :=
  [(.int, .int), (.bin, .bin), (.ref, .ref)] ++
  ρ.tuple.map (fun p => (Tag.tuple p.1, Tag.tuple p.2)) ++
  ρ.fn.map (fun p => (Tag.fn p.1, Tag.fn p.2)) ++
  ρ.builtin.map (fun p => (Tag.builtin p.1, Tag.builtin p.2)) ++
  ρ.fn.map (fun p => (Tag.proc p.1, Tag.proc p.2)) ++
  ρ.resource.map (fun p => (Tag.res p.1, Tag.res p.2))

/-- …restricted to the tags whose tag type has an entry in `P`. -/
def presentPairs (ρ : Ren) (P : Prog) : List (Tag × Tag) := (tagPairs ρ).filter (fun cc => P.tagPresent cc.1)

/-- One pattern type: the rows agree on every tag pair. -/
def compatRowOK (P P' : Prog) (tags : List (Tag × Tag)) (t t' : Nat) : Bool :=
  tags.all (fun cc => P.isCompat t cc.1 == P'.isCompat t' cc.2)

/-- All `IsType` operands of one mapped function. -/
def compatFnOK (ρ : Ren) (P P' : Prog) (tags : List (Tag × Tag)) (p : Nat × Nat) : Bool :=
  match P.fns[p.1]? with
  | some F =>
    (isTypeOps F.instrs).all (fun t =>
      match ρ.type.get t with
      | some t' => compatRowOK P P' tags t t'
      | none => true)
  | none => true

def fparamOK (P P' : Prog) (tags : List (Tag × Tag)) (p : Nat × Nat) : Bool :=
  tags.all (fun cc => P.msgCompatFn p.1 cc.1 == P'.msgCompatFn p.2 cc.2)

def bparamOK (P P' : Prog) (tags : List (Tag × Tag)) (p : Nat × Nat) : Bool :=
  tags.all (fun cc => P.msgCompatBuiltin p.1 cc.1 == P'.msgCompatBuiltin p.2 cc.2)

def canonOK (ρ : Ren) (P P' : Prog) : Bool :=
  ρ.tuple.all (fun a => ρ.tuple.all (fun b =>
    (P.canonOf a.1 == P.canonOf b.1) == (P'.canonOf a.2 == P'.canonOf b.2)))

/-- The named checks, in the order they are reported. -/
def checks (ρ : Ren) (P P' : Prog) (e e' : Nat) : List (String × Bool) :=
  [ ("entry", ρ.fn.get e == some e'),
    ("inj-const", ρ.const.injB),
    ("inj-fn", ρ.fn.injB),
    ("inj-tuple", ρ.tuple.injB),
    ("inj-type", ρ.type.injB),
    ("inj-builtin", ρ.builtin.injB),
    ("nil-fixed", ρ.tuple.get 0 == some 0),
    ("ok-fixed", ρ.tuple.get 1 == some 1),
    ("fns", ρ.fn.all (fnOK ρ P P')),
    ("consts", ρ.const.all (constOK P P')),
    ("tuples", ρ.tuple.all (tupleOK ρ P P')),
    ("builtins", ρ.builtin.all (builtinOK ρ P P')),
    ("types", ρ.type.all (typeOK ρ P P')),
    ("resources", ρ.resource.all (resourceOK P P')),
    ("compat", ρ.fn.all (compatFnOK ρ P P' (presentPairs ρ P))),
    ("fparam", ρ.fn.all (fparamOK P P' (presentPairs ρ P))),
    ("bparam", ρ.builtin.all (bparamOK P P' (presentPairs ρ P))),
    ("canon", canonOK ρ P P') ]

def validateB (ρ : Ren) (P P' : Prog) (e e' : Nat) : Bool := (checks ρ P P' e e').all (·.2)

/-- The additional check of the strict form. -/
def strictB (ρ : Ren) (P P' : Prog) : Bool := ρ.fn.all (compatFnOK ρ P P' (tagPairs ρ))

/-- Name of the first failing check (diagnostics only). -/
def firstFailing (cs : List (String × Bool)) : Option String :=
  (cs.find? (fun c => !c.2)).map (·.1)

/-! ## Recovering ρ by lock-step traversal (untrusted; its output is validated) -/

inductive Item where
  | fn (a b : Nat)
  | ty (a b : Nat)
  | tup (a b : Nat)
  | bi (a b : Nat)
  deriving Repr

/-- Try to add `a ↦ b` to a map. `ok none` = already there; `ok (some m')` = added;
    `error` = conflicts with an existing entry (not a function / not injective). -/
def addPair (what : String) (m : AMap) (a b : Nat) : Except String (Option AMap) :=
  match m.lookup a with
  | some b0 => if b0 == b then .ok none else .error s!"{what} {a} maps to both {b0} and {b}"
  | none =>
    if (m.map (·.2)).contains b then .error s!"{what} {b} is the image of two different entries (second: {a})"
    else .ok (some ((a, b) :: m))

/-- Lock-step comparison of two instructions: constructor and non-index operands must agree; index
    operands are returned as work items / constant pairs. -/
def pairInstr (i i' : Instr) : Option (List Item × List (Nat × Nat)) :=
  match i, i' with
  | .const a, .const b => some ([], [(a, b)])
  | .tuple a, .tuple b => some ([.tup a b], [])
  | .isType a, .isType b => some ([.ty a b], [])
  | .function a, .function b => some ([.fn a b], [])
  | .builtin a, .builtin b => some ([.bi a b], [])
  | .process p a, .process q b => if p == q then some ([.fn a b], []) else none
  | a, b => if a == b then some ([], []) else none

def pairInstrs : Nat → List Instr → List Instr → Except String (List Item × List (Nat × Nat))
  | _, [], [] => .ok ([], [])
  | pc, i :: is, i' :: is' =>
    match pairInstr i i' with
    | none => .error s!"pc {pc}: {repr i} vs {repr i'}"
    | some (w, c) =>
      match pairInstrs (pc + 1) is is' with
      | .ok (w', c') => .ok (w ++ w', c ++ c')
      | .error e => .error e
  | pc, _, _ => .error s!"pc {pc}: instruction lists differ in length"

def pairOptTy : Option Nat → Option Nat → Option (List Item)
  | none, none => some []
  | some a, some b => some [.ty a b]
  | _, _ => none

def zipItems (f : Nat → Nat → Item) : List Nat → List Nat → Option (List Item)
  | [], [] => some []
  | a :: as, b :: bs => (zipItems f as bs).map (f a b :: ·)
  | _, _ => none

/-- Lock-step comparison of two type entries. -/
def pairTy (τ τ' : Ty) : Option (List Item) :=
  match τ, τ' with
  | .tuple a, .tuple b => some [.tup a b]
  | .part n fs, .part n' fs' =>
    if n == n' && fs.map (·.1) == fs'.map (·.1) then zipItems .ty (fs.map (·.2)) (fs'.map (·.2)) else none
  | .callable p r v, .callable p' r' v' => some [.ty p p', .ty r r', .ty v v']
  | .union ids, .union ids' => zipItems .ty ids ids'
  | .process s r, .process s' r' =>
    match pairOptTy s s', pairOptTy r r' with
    | some a, some b => some (a ++ b)
    | _, _ => none
  | a, b => if a == b then some [] else none

def addConsts (m : AMap) : List (Nat × Nat) → Except String AMap
  | [] => .ok m
  | (a, b) :: rest =>
    match addPair "constant" m a b with
    | .ok none => addConsts m rest
    | .ok (some m') => addConsts m' rest
    | .error e => .error e

def recoverLoop (P P' : Prog) : Nat → List Item → Ren → Except String Ren
  | 0, [], ρ => .ok ρ
  | 0, _ :: _, _ => .error "fuel-out"
  | _ + 1, [], ρ => .ok ρ
  | fuel + 1, it :: work, ρ =>
    match it with
    | .fn a b =>
      match addPair "function" ρ.fn a b with
      | .error e => .error e
      | .ok none => recoverLoop P P' fuel work ρ
      | .ok (some m) =>
        match P.fns[a]?, P'.fns[b]? with
        | some F, some F' =>
          if F.captures != F'.captures then .error s!"function {a}/{b}: capture counts {F.captures} vs {F'.captures}"
          else match pairInstrs 0 F.instrs F'.instrs with
            | .error e => .error s!"function {a}/{b}: {e}"
            | .ok (w, cs) =>
              match addConsts ρ.const cs with
              | .error e => .error s!"function {a}/{b}: {e}"
              | .ok cm => recoverLoop P P' fuel (Item.ty F.typeId F'.typeId :: w ++ work) { ρ with fn := m, const := cm }
        | _, _ => .error s!"function {a}/{b}: index out of range"
    | .ty a b =>
      match addPair "type" ρ.type a b with
      | .error e => .error e
      | .ok none => recoverLoop P P' fuel work ρ
      | .ok (some m) =>
        match P.types[a]?, P'.types[b]? with
        | some τ, some τ' =>
          match pairTy τ τ' with
          | none => .error s!"type {a}/{b}: {repr τ} vs {repr τ'}"
          | some w => recoverLoop P P' fuel (w ++ work) { ρ with type := m }
        | _, _ => .error s!"type {a}/{b}: index out of range"
    | .tup a b =>
      match addPair "tuple" ρ.tuple a b with
      | .error e => .error e
      | .ok none => recoverLoop P P' fuel work ρ
      | .ok (some m) =>
        match P.tuples[a]?, P'.tuples[b]? with
        | some T, some T' =>
          if T.name != T'.name || T.fields.map (·.1) != T'.fields.map (·.1) then
            .error s!"tuple {a}/{b}: name or labels differ"
          else match zipItems .ty (T.fields.map (·.2)) (T'.fields.map (·.2)) with
            | none => .error s!"tuple {a}/{b}: arity"
            | some w => recoverLoop P P' fuel (w ++ work) { ρ with tuple := m }
        | _, _ => .error s!"tuple {a}/{b}: index out of range"
    | .bi a b =>
      match addPair "builtin" ρ.builtin a b with
      | .error e => .error e
      | .ok none => recoverLoop P P' fuel work ρ
      | .ok (some m) =>
        match P.builtins[a]?, P'.builtins[b]? with
        | some B, some B' =>
          if B.name != B'.name then .error s!"builtin {a}/{b}: {B.name} vs {B'.name}"
          else recoverLoop P P' fuel (Item.ty B.paramType B'.paramType :: Item.ty B.resultType B'.resultType :: work)
                 { ρ with builtin := m }
        | _, _ => .error s!"builtin {a}/{b}: index out of range"

/-- Resource-type ids are matched by name. -/
def resourceMap (P P' : Prog) : AMap :=
  (List.range P.resources.size).filterMap (fun i =>
    match P.resources[i]? with
    | some n =>
      match P'.resources.toList.findIdx? (· == n) with
      | some j => some (i, j)
      | none => none
    | none => none)

def tySize : Ty → Nat
  | .part _ fs => 1 + fs.length
  | .union ids => 1 + ids.length
  | _ => 4

/-- A bound on the number of work items the traversal can process (every item is an edge of the
    program graph or one of the three roots). -/
def recoverFuel (P : Prog) : Nat :=
  16 + 2 * (P.fns.foldl (fun n F => n + 2 + F.instrs.length) 0 +
            P.types.foldl (fun n τ => n + tySize τ) 0 +
            P.tuples.foldl (fun n T => n + 1 + T.fields.length) 0 +
            3 * P.builtins.size)

def recover (P P' : Prog) (e e' : Nat) : Except String Ren :=
  recoverLoop P P' (recoverFuel P) [.tup 0 0, .tup 1 1, .fn e e'] { resource := resourceMap P P' }

/-- The validator: recover ρ from the entries, then validate it. `some ρ` = `P'` is proved to be a
    consistent renaming of the reachable part of `P`. -/
def checkRenaming (P P' : Prog) (e e' : Nat) : Option Ren :=
  match recover P P' e e' with
  | .ok ρ => if validateB ρ P P' e e' then some ρ else none
  | .error _ => none

/-! Diagnostics (driver output only; nothing is proved about them). -/

def findSome' {α β : Type} (f : α → Option β) : List α → Option β
  | [] => none
  | a :: as => match f a with
    | some b => some b
    | none => findSome' f as

def explainCompat (ρ : Ren) (P P' : Prog) : Option String :=
  let tags := presentPairs ρ P
  findSome' (fun (p : Nat × Nat) =>
    match P.fns[p.1]? with
    | none => none
    | some F =>
      findSome' (fun t =>
        match ρ.type.get t with
        | none => none
        | some t' =>
          findSome' (fun (cc : Tag × Tag) =>
            if P.isCompat t cc.1 == P'.isCompat t' cc.2 then none
            else some s!"function {p.1}/{p.2} IsType {t}/{t'} tag {repr cc.1}/{repr cc.2}: {P.isCompat t cc.1} vs {P'.isCompat t' cc.2}") tags)
        (isTypeOps F.instrs)) ρ.fn

def explainFparam (ρ : Ren) (P P' : Prog) : Option String :=
  let tags := presentPairs ρ P
  findSome' (fun (p : Nat × Nat) =>
    findSome' (fun (cc : Tag × Tag) =>
      if P.msgCompatFn p.1 cc.1 == P'.msgCompatFn p.2 cc.2 then none
      else some s!"function {p.1}/{p.2} tag {repr cc.1}/{repr cc.2}: {P.msgCompatFn p.1 cc.1} vs {P'.msgCompatFn p.2 cc.2}") tags) ρ.fn

def explainBparam (ρ : Ren) (P P' : Prog) : Option String :=
  let tags := presentPairs ρ P
  findSome' (fun (p : Nat × Nat) =>
    findSome' (fun (cc : Tag × Tag) =>
      if P.msgCompatBuiltin p.1 cc.1 == P'.msgCompatBuiltin p.2 cc.2 then none
      else some s!"builtin {p.1}/{p.2} tag {repr cc.1}/{repr cc.2}: {P.msgCompatBuiltin p.1 cc.1} vs {P'.msgCompatBuiltin p.2 cc.2}") tags) ρ.builtin

/-- How many (IsType operand, tag) pairs disagree on tags *without* an entry in `P` (exempt from
    `IsRenaming.compat`; reported in the evidence so the reader sees how often the exemption is used). -/
def exemptCount (ρ : Ren) (P P' : Prog) : Nat :=
  let tags := (tagPairs ρ).filter (fun cc => !P.tagPresent cc.1)
  ρ.fn.foldl (fun n p =>
    match P.fns[p.1]? with
    | none => n
    | some F =>
      (isTypeOps F.instrs).foldl (fun n t =>
        match ρ.type.get t with
        | none => n
        | some t' => n + (tags.filter (fun cc => P.isCompat t cc.1 != P'.isCompat t' cc.2)).length) n) 0

def explainPairs (what : String) (m : AMap) (ok : Nat × Nat → Bool) : Option String :=
  (m.find? (fun p => !ok p)).map (fun p => s!"{what} {p.1}/{p.2}")

def explain (ρ : Ren) (P P' : Prog) (e e' : Nat) : String :=
  match firstFailing (checks ρ P P' e e') with
  | none => "?"
  | some name =>
    let detail : Option String :=
      if name == "compat" then explainCompat ρ P P'
      else if name == "fparam" then explainFparam ρ P P'
      else if name == "bparam" then explainBparam ρ P P'
      else if name == "fns" then explainPairs "function" ρ.fn (fnOK ρ P P')
      else if name == "consts" then explainPairs "constant" ρ.const (constOK P P')
      else if name == "tuples" then explainPairs "tuple" ρ.tuple (tupleOK ρ P P')
      else if name == "builtins" then explainPairs "builtin" ρ.builtin (builtinOK ρ P P')
      else if name == "types" then explainPairs "type" ρ.type (typeOK ρ P P')
      else none
    s!"{name} {detail.getD ""}"

/-- Same, with the reason for a rejection (driver output). -/
def checkRenamingExplain (P P' : Prog) (e e' : Nat) : Except String Ren :=
  match recover P P' e e' with
  | .ok ρ =>
    if validateB ρ P P' e e' then .ok ρ
    else .error s!"validate {explain ρ P P' e e'}"
  | .error msg => .error s!"recover {msg}"

end QM.Packaging
