import QuiverModel.Core.Outcome
import QuiverModel.Core.Packaging.Renaming
/-
M-Packaging, part 2 — small-step semantics of one process over a `Prog` (import-free; owner: C10).

Mirrors quiver-core/src/executor.rs: the `handle_*` functions of `execute_hot` (same case analysis,
same error on the same input, same order of pops), the frame auto-pop loop of `Executor::step`
(including the `should_clear_locals` rule) and process completion. Everything whose behaviour depends
on a table index is modelled concretely (Constant, Tuple, Get, IsType, Function, Builtin, Call,
TailCall, Equal, …). What is *not* modelled is abstracted, not dropped:

  * builtin implementations are a parameter `B : String → Val → BRes` (looked up **by name**, as
    `update_program` resolves `builtin_impls` from the registry by name);
  * the five cold instructions (Spawn, Send, Self_, Select, Process) and builtins that return an
    `Action` end the sequential run with `Res.yield` — the scheduler/environment takes over (M-Sys);
  * the heap: a binary value carries its bytes (`Binary::Constant`/`Binary::Heap` erased), so
    `values_equal` on binaries is byte equality, which is what all four branches of the Rust compute.

Conventions (same as M-VM): `stack` head = top; `locals` index 0 first; `frames` head = current.
-/
namespace QM.Packaging

/-- `value.rs::Value` with binaries resolved to bytes. -/
inductive Val where
  | int (z : Int)
  | bin (bs : List UInt8)
  | ref (r : Nat)
  | tuple (id : Nat) (fields : List Val)
  | fn (idx : Nat) (captures : List Val)
  | builtin (id : Nat)
  | proc (pid : Nat) (fidx : Nat)
  | res (rid : Nat) (rty : Nat)
  deriving Repr, Inhabited

namespace Val
def nil : Val := .tuple 0 []
def ok : Val := .tuple 1 []
/-- `Value::is_nil`. -/
def isNil : Val → Bool
  | .tuple 0 [] => true
  | _ => false
/-- `Executor::get_concrete_type`. -/
def tag : Val → Tag
  | .int _ => .int
  | .bin _ => .bin
  | .ref _ => .ref
  | .tuple t _ => .tuple t
  | .fn f _ => .fn f
  | .builtin b => .builtin b
  | .proc _ f => .proc f
  | .res _ r => .res r
end Val

/-- `process.rs::Frame`. -/
structure Frame where
  fn : Nat
  base : Nat
  caps : Nat
  pc : Nat
  deriving Repr, DecidableEq, Inhabited

/-- The sequential part of `process.rs::Process`. -/
structure St where
  stack : List Val
  locals : List Val
  frames : List Frame
  persistent : Bool := false
  deriving Repr, Inhabited

/-- Result of a builtin call (`BuiltinResult` / `Err` / a Rust panic). -/
inductive BRes where
  | value (v : Val)
  | err (e : ErrClass)
  | action
  | panic

abbrev BuiltinSem := String → Val → BRes

/-- Result of one step. -/
inductive Res where
  | next (s : St)
  /-- the process ends with `result = Err(e)` -/
  | err (e : ErrClass)
  /-- the Rust code would panic (index out of bounds in `handle_equal` / `handle_rotate` with operand 0) -/
  | panic
  /-- a cold instruction or a builtin action: control goes to the scheduler (state before it) -/
  | yield (s : St) (i : Instr)
  /-- no frames left: the process result is the popped top of stack -/
  | done (v : Val)

mutual
/-- `Executor::values_equal` (resources are never equal: they fall into the `_ => false` arm). -/
def veq (P : Prog) : Val → Val → Bool
  | .int a, .int b => a == b
  | .bin a, .bin b => a == b
  | .ref a, .ref b => a == b
  | .tuple ta fa, .tuple tb fb => P.canonOf ta == P.canonOf tb && veqList P fa fb
  | .fn a ca, .fn b cb => a == b && veqList P ca cb
  | .builtin a, .builtin b => a == b
  | .proc a fa, .proc b fb => a == b && fa == fb
  | _, _ => false
/-- `len == len && zip.all(values_equal)`. -/
def veqList (P : Prog) : List Val → List Val → Bool
  | [], [] => true
  | a :: as, b :: bs => veq P a b && veqList P as bs
  | _, _ => false
end

def advance (fr : Frame) : Frame := { fr with pc := fr.pc + 1 }

/-- `counter.wrapping_add_signed(offset + 1)` on a 64-bit `usize`. -/
def jumpTarget (pc : Nat) (off : Int) : Nat := (((pc : Int) + off + 1) % (2 ^ 64 : Int)).toNat

/-- `Executor::current_instruction`. -/
def fetch (P : Prog) (fr : Frame) : Option Instr :=
  match P.fns[fr.fn]? with
  | some F => F.instrs[fr.pc]?
  | none => none

/-- Continue in the current frame at `pc + 1` with a new stack. -/
def cont (s : St) (fr : Frame) (rest : List Frame) (stack : List Val) : Res :=
  .next { s with stack := stack, frames := advance fr :: rest }

/-- One hot instruction (`execute_hot`). `fr` is the current frame, `rest` the frames below. -/
def exec (P : Prog) (B : BuiltinSem) (s : St) (fr : Frame) (rest : List Frame) : Instr → Res
  | .const i =>
    match P.consts[i]? with
    | some (.int z) => cont s fr rest (.int z :: s.stack)
    | some (.bin bs) => cont s fr rest (.bin bs :: s.stack)
    | none => .err .constantUndefined
  | .pop =>
    match s.stack with
    | _ :: st => cont s fr rest st
    | [] => .err .stackUnderflow
  | .dup =>
    match s.stack with
    | v :: st => cont s fr rest (v :: v :: st)
    | [] => .err .stackUnderflow
  | .pick n =>
    match s.stack[n]? with
    | some v => cont s fr rest (v :: s.stack)
    | none => .err .stackUnderflow
  | .rotate n =>
    if s.stack.length < n then .err .stackUnderflow
    else match n with
      | 0 => .panic
      | k + 1 =>
        match s.stack[k]? with
        | some v => cont s fr rest (v :: s.stack.eraseIdx k)
        | none => .err .stackUnderflow
  | .reset n =>
    if fr.base + n > s.locals.length then .err .stackUnderflow
    else .next { s with locals := s.locals.take (fr.base + n), frames := advance fr :: rest }
  | .load n =>
    match s.locals[fr.base + n]? with
    | some v => cont s fr rest (v :: s.stack)
    | none => .err .variableUndefined
  | .store =>
    match s.stack with
    | v :: st => .next { s with stack := st, locals := s.locals ++ [v], frames := advance fr :: rest }
    | [] => .err .stackUnderflow
  | .tuple t =>
    match P.tuples[t]? with
    | none => .err .typeMismatch
    | some T =>
      let n := T.fields.length
      if s.stack.length < n then .err .stackUnderflow
      else cont s fr rest (.tuple t (s.stack.take n).reverse :: s.stack.drop n)
  | .get i =>
    match s.stack with
    | [] => .err .stackUnderflow
    | .tuple _ fs :: st =>
      match fs[i]? with
      | some v => cont s fr rest (v :: st)
      | none => .err .fieldAccessInvalid
    | _ :: _ => .err .typeMismatch
  | .isType t =>
    match s.stack with
    | [] => .err .stackUnderflow
    | v :: st => cont s fr rest ((if P.isCompat t v.tag then Val.ok else Val.nil) :: st)
  | .jump off => .next { s with frames := { fr with pc := jumpTarget fr.pc off } :: rest }
  | .jumpIf off =>
    match s.stack with
    | [] => .err .stackUnderflow
    | c :: st =>
      if c.isNil then cont s fr rest st
      else .next { s with stack := st, frames := { fr with pc := jumpTarget fr.pc off } :: rest }
  | .call =>
    match s.stack with
    | [] => .err .stackUnderflow
    | .fn f caps :: st =>
      match P.fns[f]? with
      | none => .err .functionUndefined
      | some _ =>
        match st with
        | [] => .err .stackUnderflow
        | arg :: st' =>
          .next { s with stack := arg :: st', locals := s.locals ++ caps,
                         frames := { fn := f, base := s.locals.length, caps := caps.length, pc := 0 } :: fr :: rest }
    | .builtin b :: st =>
      match st with
      | [] => .err .stackUnderflow
      | arg :: st' =>
        match P.builtins[b]? with
        | none => .err .invalidArgument
        | some info =>
          match B info.name arg with
          | .value v => cont s fr rest (v :: st')
          | .err e => .err e
          | .action => .yield s .call
          | .panic => .panic
    | _ :: _ => .err .typeMismatch
  | .tailCall true =>
    match s.stack with
    | [] => .err .stackUnderflow
    | arg :: st =>
      .next { s with stack := arg :: st, locals := s.locals.take (fr.base + fr.caps),
                     frames := { fr with pc := 0 } :: rest }
  | .tailCall false =>
    match s.stack with
    | [] => .err .stackUnderflow
    | [_] => .err .stackUnderflow
    | fv :: arg :: st =>
      match fv with
      | .fn f caps =>
        match P.fns[f]? with
        | none => .err .functionUndefined
        | some _ =>
          .next { s with stack := arg :: st, locals := s.locals.take fr.base ++ caps,
                         frames := { fn := f, base := fr.base, caps := caps.length, pc := 0 } :: rest }
      | _ => .err .callInvalid
  | .function f =>
    match P.fns[f]? with
    | none => .err .functionUndefined
    | some F =>
      if s.stack.length < F.captures then .err .stackUnderflow
      else cont s fr rest (.fn f (s.stack.take F.captures).reverse :: s.stack.drop F.captures)
  | .builtin b =>
    if b < P.builtins.size then cont s fr rest (.builtin b :: s.stack) else .err .builtinUndefined
  | .equal n =>
    if n > s.stack.length then .err .stackUnderflow
    else match (s.stack.take n).reverse with
      | [] => .panic
      | first :: others =>
        cont s fr rest ((if others.all (veq P first) then first else Val.nil) :: s.stack.drop n)
  | .not =>
    match s.stack with
    | [] => .err .stackUnderflow
    | v :: st => cont s fr rest ((if v.isNil then Val.ok else Val.nil) :: st)
  | .spawn => .yield s .spawn
  | .send => .yield s .send
  | .self => .yield s .self
  | .select => .yield s .select
  | .process pid f => .yield s (.process pid f)

/-- One step of the process: an instruction, or the auto-pop of an exhausted frame
    (`should_clear_locals = !persistent || !is_last_frame`), or completion. -/
def step (P : Prog) (B : BuiltinSem) (s : St) : Res :=
  match s.frames with
  | [] =>
    match s.stack with
    | v :: _ => .done v
    | [] => .err .stackUnderflow
  | fr :: rest =>
    match fetch P fr with
    | some i => exec P B s fr rest i
    | none =>
      let locals := if !s.persistent || !rest.isEmpty then s.locals.take fr.base else s.locals
      match rest with
      | [] => .next { s with locals := locals, frames := [] }
      | c :: cs => .next { s with locals := locals, frames := advance c :: cs }

/-- `s` reaches `t` by zero or more steps. -/
inductive Steps (P : Prog) (B : BuiltinSem) : St → St → Prop where
  | refl (s : St) : Steps P B s s
  | cons {s t u : St} : QM.Packaging.step P B s = Res.next t → Steps P B t u → Steps P B s u

theorem Steps.trans {P : Prog} {B : BuiltinSem} {s t u : St} (h1 : Steps P B s t) (h2 : Steps P B t u) :
    Steps P B s u := by
  induction h1 with
  | refl => exact h2
  | cons hs _ ih => exact .cons hs (ih h2)

theorem Steps.single {P : Prog} {B : BuiltinSem} {s t : St} (h : QM.Packaging.step P B s = Res.next t) : Steps P B s t :=
  .cons h (.refl t)

/-- Fuelled runner (driver / examples): the first non-`next` result, or `none` on fuel exhaustion. -/
def run (P : Prog) (B : BuiltinSem) : Nat → St → Option Res
  | 0, _ => none
  | fuel + 1, s =>
    match step P B s with
    | .next t => run P B fuel t
    | r => some r

/-- Start state of `spawn_process(entry, captures = [], argument)`. -/
def St.start (entry : Nat) (arg : Val) : St :=
  { stack := [arg], locals := [], frames := [{ fn := entry, base := 0, caps := 0, pc := 0 }] }

end QM.Packaging
