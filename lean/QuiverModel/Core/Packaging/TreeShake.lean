import QuiverModel.Core.Packaging.Renaming
/-
M-Packaging, part 4 — `tree_shake` itself (import-free; owner: C10).

Port of quiver-core/src/optimisation.rs `tree_shake(bytecode, entry)`, loop by loop:

  mark phase   `collect_type_refs` / `collect_tuple_refs` (mutually recursive, guarded by the insert
               into `used_types` / `used_tuples`), NIL and OK tuples first, then the BFS over functions
               from `entry` (per instruction: Function / Process → queue, Constant, Tuple (+ the first
               `Type::Tuple(id)` entry), IsType, Builtin), then the parameter / result types of the used
               builtins, then the **index-only entries** (fix 5a04882, F13): every `Type::Process{Some s,
               Some r}` for which some kept function's callable type has `receive = s ∧ result = r`,
               and every never-receiving `Type::Callable{p, r, _}` matching a kept builtin's (p, r);
  sweep phase  used sets sorted → remap tables (rank), functions / constants / tuples / builtins /
               types rebuilt through the tables (`remap_type`; instruction operands with `.unwrap()`,
               type ids with `.unwrap_or(id)`), resources = the used names sorted, entry remapped.

Rust `HashSet`s are duplicate-free lists here (insertion order is irrelevant: everything is sorted
before use). The two recursive collectors take fuel (one unit per call; `#types + #tuples + 2` always
suffices because every call beyond the guard marks a new id) — exhaustion is reported as `none`, as is
every input on which the Rust indexes out of range (`bytecode.functions[old_id]`, … on a dangling id).
`legacy := true` gives the sweep before 5a04882 (no index-only entries), kept as a witness.
-/
namespace QM.Packaging

structure Marks where
  fns : List Nat := []
  consts : List Nat := []
  tuples : List Nat := []
  types : List Nat := []
  builtins : List Nat := []
  resources : List String := []
  deriving Repr, Inhabited

def insertNat (a : Nat) (l : List Nat) : List Nat := if l.contains a then l else a :: l
def insertStr (a : String) (l : List String) : List String := if l.contains a then l else a :: l

/-- children (type ids) of a type entry, in the order `collect_type_refs` visits them -/
def tyChildren : Ty → List Nat
  | .part _ fs => fs.map (·.2)
  | .callable p r v => [p, r, v]
  | .union ids => ids
  | .process s r => s.toList ++ r.toList
  | _ => []

mutual
/-- `collect_type_refs` -/
def collectType (P : Prog) : Nat → Nat → Marks → Option Marks
  | 0, _, _ => none
  | fuel + 1, t, m =>
    if m.types.contains t then some m
    else
      let m := { m with types := t :: m.types }
      match P.types[t]? with
      | none => some m
      | some (.tuple id) => collectTuple P fuel id m
      | some (.resource n) => some { m with resources := insertStr n m.resources }
      | some τ => collectTypes P fuel (tyChildren τ) m
/-- the `for` loops over child type ids -/
def collectTypes (P : Prog) : Nat → List Nat → Marks → Option Marks
  | 0, _, _ => none
  | _ + 1, [], m => some m
  | fuel + 1, t :: ts, m =>
    match collectType P fuel t m with
    | none => none
    | some m' => collectTypes P fuel ts m'
/-- `collect_tuple_refs` -/
def collectTuple (P : Prog) : Nat → Nat → Marks → Option Marks
  | 0, _, _ => none
  | fuel + 1, id, m =>
    if m.tuples.contains id then some m
    else
      let m := { m with tuples := id :: m.tuples }
      match P.tuples[id]? with
      | none => some m
      | some T => collectTypes P fuel (T.fields.map (·.2)) m
end

/-- fuel for one top-level call of a collector: every nested call either hits the guard or marks a new
    type / tuple id, and a `collectTypes` frame is entered once per child — bounded by the table sizes
    plus the total number of children -/
def collectFuel (P : Prog) : Nat :=
  4 + 2 * (P.types.size + P.tuples.size) +
    P.types.foldl (fun n τ => n + (tyChildren τ).length) 0 +
    P.tuples.foldl (fun n T => n + T.fields.length) 0

/-- position of the first `Type::Tuple(id)` entry -/
def firstTupleType (P : Prog) (id : Nat) : Option Nat :=
  P.types.toList.findIdx? (· == Ty.tuple id)

/-- the per-instruction part of the BFS body; returns the marks and the function ids to enqueue -/
def markInstrs (P : Prog) : List Instr → Marks → List Nat → Option (Marks × List Nat)
  | [], m, q => some (m, q)
  | i :: is, m, q =>
    match i with
    | .function id => markInstrs P is m (q ++ [id])
    | .process _ id => markInstrs P is m (q ++ [id])
    | .const id => markInstrs P is { m with consts := insertNat id m.consts } q
    | .builtin id => markInstrs P is { m with builtins := insertNat id m.builtins } q
    | .isType id =>
      match collectType P (collectFuel P) id m with
      | none => none
      | some m' => markInstrs P is m' q
    | .tuple id =>
      match collectTuple P (collectFuel P) id m with
      | none => none
      | some m1 =>
        match firstTupleType P id with
        | none => markInstrs P is m1 q
        | some t =>
          match collectType P (collectFuel P) t m1 with
          | none => none
          | some m2 => markInstrs P is m2 q
    | _ => markInstrs P is m q

/-- the BFS `while let Some(fn_id) = queue.pop_front()` -/
def markFns (P : Prog) : Nat → List Nat → Marks → Option Marks
  | 0, [], m => some m
  | 0, _ :: _, _ => none
  | _ + 1, [], m => some m
  | fuel + 1, f :: q, m =>
    if m.fns.contains f then markFns P fuel q m
    else
      let m := { m with fns := f :: m.fns }
      match P.fns[f]? with
      | none => markFns P fuel q m
      | some F =>
        match collectType P (collectFuel P) F.typeId m with
        | none => none
        | some m1 =>
          match markInstrs P F.instrs m1 q with
          | none => none
          | some (m2, q2) => markFns P fuel q2 m2

/-- every queue entry was pushed by an instruction (or is the entry) -/
def bfsFuel (P : Prog) : Nat := 2 + P.fns.foldl (fun n F => n + F.instrs.length) 0 + P.fns.size

def markBuiltins (P : Prog) : List Nat → Marks → Option Marks
  | [], m => some m
  | b :: bs, m =>
    match P.builtins[b]? with
    | none => markBuiltins P bs m
    | some B =>
      match collectType P (collectFuel P) B.paramType m with
      | none => none
      | some m1 =>
        match collectType P (collectFuel P) B.resultType m1 with
        | none => none
        | some m2 => markBuiltins P bs m2

/-- the filter that selects the index-only type entries (5a04882) -/
def isIndexOnly (P : Prog) (m : Marks) : Ty → Bool
  | .process (some send) (some recv) =>
    m.fns.any (fun f =>
      match P.fns[f]? with
      | some F =>
        match P.types[F.typeId]? with
        | some (.callable _ result fnRecv) => fnRecv == send && result == recv
        | _ => false
      | none => false)
  | .callable p r v =>
    P.isNeverTy v &&
      m.builtins.any (fun b =>
        match P.builtins[b]? with
        | some B => B.paramType == p && B.resultType == r
        | none => false)
  | _ => false

def indexOnly (P : Prog) (m : Marks) : List Nat :=
  (List.range P.types.size).filter (fun t =>
    match P.types[t]? with
    | some τ => isIndexOnly P m τ
    | none => false)

def markAll (P : Prog) (entry : Nat) (legacy : Bool) : Option Marks :=
  match collectTuple P (collectFuel P) 0 {} with
  | none => none
  | some m0 =>
    match collectTuple P (collectFuel P) 1 m0 with
    | none => none
    | some m1 =>
      match markFns P (bfsFuel P) [entry] m1 with
      | none => none
      | some m2 =>
        match markBuiltins P m2.builtins m2 with
        | none => none
        | some m3 =>
          if legacy then some m3
          else collectTypes P (collectFuel P + (indexOnly P m3).length + 1) (indexOnly P m3) m3

/-! ### Sweep -/

def insertAsc (a : Nat) : List Nat → List Nat
  | [] => [a]
  | b :: bs => if a ≤ b then a :: b :: bs else b :: insertAsc a bs

def sortAsc : List Nat → List Nat
  | [] => []
  | a :: as => insertAsc a (sortAsc as)

def insertStrAsc (a : String) : List String → List String
  | [] => [a]
  | b :: bs => if a ≤ b then a :: b :: bs else b :: insertStrAsc a bs

def sortStrAsc : List String → List String
  | [] => []
  | a :: as => insertStrAsc a (sortStrAsc as)

/-- `sorted.iter().enumerate().map(|(new, old)| (old, new))` -/
def rankMap (sorted : List Nat) : AMap := sorted.zipIdx

def orSelf (m : AMap) (i : Nat) : Nat := (m.get i).getD i

/-- `remap_type` (every lookup is `.unwrap_or(id)`) -/
def shakeTy (ρ : Ren) : Ty → Ty
  | .tuple id => .tuple (orSelf ρ.tuple id)
  | .part n fs => .part n (fs.map (fun p => (p.1, orSelf ρ.type p.2)))
  | .callable p r v => .callable (orSelf ρ.type p) (orSelf ρ.type r) (orSelf ρ.type v)
  | .union ids => .union (ids.map (orSelf ρ.type))
  | .process s r => .process (s.map (orSelf ρ.type)) (r.map (orSelf ρ.type))
  | t => t

/-- the instruction map of the sweep (every lookup is `.unwrap()`: `none` = panic) -/
def shakeInstr (ρ : Ren) : Instr → Option Instr := renameInstr ρ

def getAll {α : Type} (a : Array α) : List Nat → Option (List α)
  | [] => some []
  | i :: is =>
    match a[i]?, getAll a is with
    | some x, some xs => some (x :: xs)
    | _, _ => none

structure ShakeOut where
  prog : Prog
  entry : Nat
  ren : Ren
  marks : Marks

/-- the renaming the sweep builds from the marks -/
def shakeRen (P : Prog) (m : Marks) : Ren :=
  let sr := sortStrAsc m.resources
  { const := rankMap (sortAsc m.consts), fn := rankMap (sortAsc m.fns), tuple := rankMap (sortAsc m.tuples),
    type := rankMap (sortAsc m.types), builtin := rankMap (sortAsc m.builtins),
    resource := (List.range P.resources.size).filterMap (fun i =>
      match P.resources[i]? with
      | some n => (sr.findIdx? (· == n)).map (fun j => (i, j))
      | none => none) }

def shakeFn (ρ : Ren) (F : Fn) : Option Fn :=
  (mapOpt (shakeInstr ρ) F.instrs).map (fun is =>
    ({ instrs := is, captures := F.captures, typeId := orSelf ρ.type F.typeId } : Fn))

def shakeBuiltin (ρ : Ren) (B : BuiltinInfo) : BuiltinInfo :=
  { B with paramType := orSelf ρ.type B.paramType, resultType := orSelf ρ.type B.resultType }

def shakeTuple (ρ : Ren) (T : TupleInfo) : TupleInfo :=
  { T with fields := T.fields.map (fun p => (p.1, orSelf ρ.type p.2)) }

/-- the sweep phase. The lookup tables `compat` / `canon` / `fparam` / `bparam` of the result are left
    empty: they are recomputed when the bytecode is loaded. -/
def sweep (P : Prog) (entry : Nat) (m : Marks) : Option ShakeOut :=
  let ρ := shakeRen P m
  match getAll P.fns (sortAsc m.fns), getAll P.consts (sortAsc m.consts), getAll P.tuples (sortAsc m.tuples),
        getAll P.builtins (sortAsc m.builtins), getAll P.types (sortAsc m.types), ρ.fn.get entry with
  | some fs, some cs, some ts, some bs, some ys, some e' =>
    match mapOpt (shakeFn ρ) fs with
    | none => none
    | some fs' =>
      some { prog := { consts := cs.toArray, fns := fs'.toArray,
                       builtins := (bs.map (shakeBuiltin ρ)).toArray,
                       tuples := (ts.map (shakeTuple ρ)).toArray,
                       types := (ys.map (shakeTy ρ)).toArray,
                       resources := (sortStrAsc m.resources).toArray, compat := [], canon := #[] },
             entry := e', ren := ρ, marks := m }
  | _, _, _, _, _, _ => none

/-- `tree_shake`: mark, then sweep. -/
def treeShakeWith (legacy : Bool) (P : Prog) (entry : Nat) : Option ShakeOut :=
  match markAll P entry legacy with
  | none => none
  | some m => sweep P entry m

def treeShake (P : Prog) (entry : Nat) : Option ShakeOut := treeShakeWith false P entry

/-- Field-wise equality of the `Bytecode` part of two programs (`none` = equal, else the first
    differing table). -/
def bytecodeDiff (A B : Prog) : Option String :=
  if A.consts.toList != B.consts.toList then some "constants"
  else if A.fns.toList != B.fns.toList then some "functions"
  else if A.builtins.toList != B.builtins.toList then some "builtins"
  else if A.tuples.toList != B.tuples.toList then some "tuples"
  else if A.types.toList != B.types.toList then some "types"
  else if A.resources.toList != B.resources.toList then some "resources"
  else none

end QM.Packaging
