import QuiverModel.Core.NumShape
/-
`QM.Num.modelShape` — the structure of `std/num.qv` that the model `Core/Num.lean` was written
against (type aliases, every top-level definition, the exported record). HAND-MAINTAINED next to
the model: when num.qv changes, re-read the changed definitions, update `Core/Num.lean` (and the
theorems) accordingly, and only then copy the new entries from `Generated/NumShape.lean` here.
`C20.num_shape_matches` (Theorems/C20Shape.lean) states that the table regenerated from the live
source on every run equals this one.
Last synchronised with /repo std/num.qv as of fix 1b40f7e (floor / ceil dispatch on nil explicitly:
`| =[] => [] | =x => { t = x to_int, { … } }`; model `Num.floor` / `Num.ceil` re-read and updated);
before that 05255d8 (min/max/clamp short-circuit on a nil comparison).
-/
namespace QM.Num

def modelShape : ModuleShape where
  aliases := [
  ("'rational", "Rational['int, 'int]"),
  ("'coeff", "('int | 'rational)"),
  ("'surd", "Surd['coeff, 'coeff, 'int]"),
  ("'", "('coeff | 'surd)"),
  ("'opt", "(' | [])")]
  defs := [
  { name := "reduce", param := "'rational", binds := "=Rational[n, d]",
    branches := [
      { pattern := "", consequence := true, calls := ["__integer_compare__", "__integer_multiply__", "__integer_multiply__", "^"] },
      { pattern := "", consequence := false, calls := ["__integer_gcd__", "__integer_divide__", "__integer_divide__"] }],
    skeleton := "#'rational { =Rational[n, d], { [d, 0] __integer_compare__ =-1 => { Rational[[n, -1] __integer_multiply__, [d, -1] __integer_multiply__] ^ } | { g = [n, d] __integer_gcd__, Rational[[n, g] __integer_divide__, [d, g] __integer_divide__] } } }" },
  { name := "lower", param := "'coeff", binds := "",
    branches := [
      { pattern := "Rational[n, 1]", consequence := true, calls := [] },
      { pattern := "x", consequence := true, calls := [] }],
    skeleton := "#'coeff { =Rational[n, 1] => n | =x => x }" },
  { name := "to_rational", param := "'coeff", binds := "",
    branches := [
      { pattern := "Rational[n, d]", consequence := true, calls := [] },
      { pattern := "n", consequence := true, calls := [] }],
    skeleton := "#'coeff { =Rational[n, d] => Rational[n, d] | =n => Rational[n, 1] }" },
  { name := "rsign", param := "'rational", binds := "",
    branches := [
      { pattern := "Rational[n, _]", consequence := true, calls := ["__integer_compare__"] }],
    skeleton := "#'rational { =Rational[n, _] => [n, 0] __integer_compare__ }" },
  { name := "rneg", param := "'rational", binds := "",
    branches := [
      { pattern := "Rational[n, d]", consequence := true, calls := ["__integer_multiply__", "reduce"] }],
    skeleton := "#'rational { =Rational[n, d] => Rational[[n, -1] __integer_multiply__, d] reduce }" },
  { name := "radd", param := "['rational, 'rational]", binds := "",
    branches := [
      { pattern := "[Rational[a, b], Rational[c, d]]", consequence := false, calls := ["__integer_multiply__", "__integer_multiply__", "__integer_add__", "__integer_multiply__", "reduce"] }],
    skeleton := "#['rational, 'rational] { =[Rational[a, b], Rational[c, d]], Rational[[[a, d] __integer_multiply__, [c, b] __integer_multiply__] __integer_add__, [b, d] __integer_multiply__] reduce }" },
  { name := "rsub", param := "['rational, 'rational]", binds := "",
    branches := [
      { pattern := "[Rational[a, b], Rational[c, d]]", consequence := false, calls := ["__integer_multiply__", "__integer_multiply__", "__integer_subtract__", "__integer_multiply__", "reduce"] }],
    skeleton := "#['rational, 'rational] { =[Rational[a, b], Rational[c, d]], Rational[[[a, d] __integer_multiply__, [c, b] __integer_multiply__] __integer_subtract__, [b, d] __integer_multiply__] reduce }" },
  { name := "rmul", param := "['rational, 'rational]", binds := "",
    branches := [
      { pattern := "[Rational[a, b], Rational[c, d]]", consequence := false, calls := ["__integer_multiply__", "__integer_multiply__", "reduce"] }],
    skeleton := "#['rational, 'rational] { =[Rational[a, b], Rational[c, d]], Rational[[a, c] __integer_multiply__, [b, d] __integer_multiply__] reduce }" },
  { name := "rquot", param := "['rational, 'rational]", binds := "",
    branches := [
      { pattern := "[Rational[a, b], Rational[c, d]]", consequence := false, calls := ["__integer_multiply__", "__integer_multiply__", "reduce"] }],
    skeleton := "#['rational, 'rational] { =[Rational[a, b], Rational[c, d]], Rational[[a, d] __integer_multiply__, [b, c] __integer_multiply__] reduce }" },
  { name := "rcompare", param := "['rational, 'rational]", binds := "",
    branches := [
      { pattern := "[Rational[a, b], Rational[c, d]]", consequence := false, calls := ["__integer_multiply__", "__integer_multiply__", "__integer_compare__"] }],
    skeleton := "#['rational, 'rational] { =[Rational[a, b], Rational[c, d]], [[a, d] __integer_multiply__, [c, b] __integer_multiply__] __integer_compare__ }" },
  { name := "sqfree", param := "['int, 'int, 'int]", binds := "=[k, m, d]",
    branches := [
      { pattern := "", consequence := true, calls := ["__integer_multiply__", "__integer_compare__"] },
      { pattern := "", consequence := true, calls := ["__integer_multiply__", "__integer_modulo__", "__integer_multiply__", "__integer_multiply__", "__integer_divide__", "^"] },
      { pattern := "", consequence := false, calls := ["__integer_add__", "^"] }],
    skeleton := "#['int, 'int, 'int] { =[k, m, d], { [[d, d] __integer_multiply__, m] __integer_compare__ =1 => [k, m] | [m, [d, d] __integer_multiply__] __integer_modulo__ =0 => { [[k, d] __integer_multiply__, [m, [d, d] __integer_multiply__] __integer_divide__, d] ^ } | [k, m, [d, 1] __integer_add__] ^ } }" },
  { name := "explode", param := "'", binds := "",
    branches := [
      { pattern := "Surd[a, b, n]", consequence := true, calls := ["to_rational", "to_rational"] },
      { pattern := "r", consequence := true, calls := ["to_rational"] }],
    skeleton := "#' { =Surd[a, b, n] => [a to_rational, b to_rational, n] | =r => [r to_rational, Rational[0, 1], 1] }" },
  { name := "radical", param := "['rational, 'int, 'rational, 'int]", binds := "=[b1, n1, b2, n2]",
    branches := [
      { pattern := "", consequence := true, calls := ["rsign"] },
      { pattern := "", consequence := true, calls := ["rsign"] },
      { pattern := "", consequence := true, calls := ["__integer_compare__"] },
      { pattern := "", consequence := false, calls := [] }],
    skeleton := "#['rational, 'int, 'rational, 'int] { =[b1, n1, b2, n2], { b1 rsign =0 => n2 | b2 rsign =0 => n1 | [n1, n2] __integer_compare__ =0 => n1 | [] } }" },
  { name := "build", param := "['rational, 'rational, 'int]", binds := "=[a, b, n]",
    branches := [
      { pattern := "", consequence := true, calls := ["__integer_compare__", "radd", "lower"] },
      { pattern := "", consequence := true, calls := ["rsign", "lower"] },
      { pattern := "", consequence := false, calls := ["lower", "lower"] }],
    skeleton := "#['rational, 'rational, 'int] { =[a, b, n], { [n, 1] __integer_compare__ =0 => [a, b] radd lower | b rsign =0 => a lower | Surd[a lower, b lower, n] } }" },
  { name := "ssign", param := "['rational, 'rational, 'int]", binds := "=[a, b, n], sb = b rsign",
    branches := [
      { pattern := "", consequence := true, calls := ["__integer_compare__", "rsign"] },
      { pattern := "", consequence := false, calls := ["rmul", "rmul", "rmul", "rcompare", "rsign", "__integer_compare__", "__integer_compare__", "__integer_multiply__", "__integer_compare__"] }],
    skeleton := "#['rational, 'rational, 'int] { =[a, b, n], sb = b rsign, { [sb, 0] __integer_compare__ =0 => a rsign | { a2 = [a, a] rmul, b2n = [[b, b] rmul, Rational[n, 1]] rmul, dsign = [a2, b2n] rcompare, sa = a rsign, { [sb, 0] __integer_compare__ =1 => { [sa, 0] __integer_compare__ =-1 => [dsign, -1] __integer_multiply__ | 1 } | { [sa, 0] __integer_compare__ =1 => dsign | -1 } } } } }" },
  { name := "surd_add", param := "[', ']", binds := "",
    branches := [
      { pattern := "[x, y]", consequence := false, calls := ["explode", "explode", "radical", "radd", "radd", "build"] }],
    skeleton := "#[', '] { =[x, y], x explode =[a1, b1, n1], y explode =[a2, b2, n2], [b1, n1, b2, n2] radical =('int)n, [[a1, a2] radd, [b1, b2] radd, n] build }" },
  { name := "surd_sub", param := "[', ']", binds := "",
    branches := [
      { pattern := "[x, y]", consequence := false, calls := ["explode", "explode", "radical", "rsub", "rsub", "build"] }],
    skeleton := "#[', '] { =[x, y], x explode =[a1, b1, n1], y explode =[a2, b2, n2], [b1, n1, b2, n2] radical =('int)n, [[a1, a2] rsub, [b1, b2] rsub, n] build }" },
  { name := "surd_mul", param := "[', ']", binds := "",
    branches := [
      { pattern := "[x, y]", consequence := false, calls := ["explode", "explode", "radical", "rmul", "rmul", "rmul", "radd", "rmul", "rmul", "radd", "build"] }],
    skeleton := "#[', '] { =[x, y], x explode =[a1, b1, n1], y explode =[a2, b2, n2], [b1, n1, b2, n2] radical =('int)n, [[[a1, a2] rmul, [[b1, b2] rmul, Rational[n, 1]] rmul] radd, [[a1, b2] rmul, [a2, b1] rmul] radd, n] build }" },
  { name := "surd_div", param := "[', ']", binds := "=[x, y], x explode =[a1, b1, n1], y explode =[a2, b2, n2], [b1, n1, b2, n2] radical =('int)n, dd = [[a2, a2] rmul, [[b2, b2] rmul, Rational[n, 1]] rmul] rsub",
    branches := [
      { pattern := "", consequence := true, calls := ["rsign"] },
      { pattern := "", consequence := false, calls := ["rmul", "rmul", "rmul", "rsub", "rquot", "rmul", "rmul", "rsub", "rquot", "build"] }],
    skeleton := "#[', '] { =[x, y], x explode =[a1, b1, n1], y explode =[a2, b2, n2], [b1, n1, b2, n2] radical =('int)n, dd = [[a2, a2] rmul, [[b2, b2] rmul, Rational[n, 1]] rmul] rsub, { dd rsign =0 => [] | { [[[[a1, a2] rmul, [[b1, b2] rmul, Rational[n, 1]] rmul] rsub, dd] rquot, [[[b1, a2] rmul, [a1, b2] rmul] rsub, dd] rquot, n] build } } }" },
  { name := "surd_compare", param := "[', ']", binds := "",
    branches := [
      { pattern := "[x, y]", consequence := false, calls := ["explode", "explode", "radical", "rsub", "rsub", "ssign"] }],
    skeleton := "#[', '] { =[x, y], x explode =[a1, b1, n1], y explode =[a2, b2, n2], [b1, n1, b2, n2] radical =('int)n, [[a1, a2] rsub, [b1, b2] rsub, n] ssign }" },
  { name := "compare", param := "['opt, 'opt]", binds := "",
    branches := [
      { pattern := "[[], _]", consequence := true, calls := [] },
      { pattern := "[_, []]", consequence := true, calls := [] },
      { pattern := "[Surd[a, b, n], y]", consequence := true, calls := ["surd_compare"] },
      { pattern := "[x, Surd[a, b, n]]", consequence := true, calls := ["surd_compare"] },
      { pattern := "[Rational[a, b], y]", consequence := true, calls := ["to_rational", "rcompare"] },
      { pattern := "[x, Rational[c, d]]", consequence := true, calls := ["to_rational", "rcompare"] },
      { pattern := "[x, y]", consequence := true, calls := ["__integer_compare__"] }],
    skeleton := "#['opt, 'opt] { =[[], _] => [] | =[_, []] => [] | =[Surd[a, b, n], y] => [Surd[a, b, n], y] surd_compare | =[x, Surd[a, b, n]] => [x, Surd[a, b, n]] surd_compare | =[Rational[a, b], y] => [Rational[a, b], y to_rational] rcompare | =[x, Rational[c, d]] => [x to_rational, Rational[c, d]] rcompare | =[x, y] => [x, y] __integer_compare__ }" },
  { name := "to_int", param := "'opt", binds := "",
    branches := [
      { pattern := "Surd[a, b, n]", consequence := true, calls := ["to_rational", "to_rational", "ssign", "__integer_compare__", "rneg", "rneg", "__integer_multiply__", "__integer_multiply__", "__integer_multiply__", "__integer_multiply__", "__integer_multiply__", "__integer_sqrt__", "__integer_compare__", "__integer_add__", "__integer_add__", "__integer_subtract__", "__integer_divide__", "__integer_multiply__"] },
      { pattern := "'coeff", consequence := true, calls := ["to_rational", "__integer_divide__"] }],
    skeleton := "#'opt { =Surd[a, b, n] => { ar = a to_rational, br = b to_rational, [ar, br, n] ssign =sgn, { [sgn, 0] __integer_compare__ =-1 => [ar rneg, br rneg] | [ar, br] } =[Rational[pa, qa], Rational[pb, qb]], p = [pa, qb] __integer_multiply__, q = [pb, qa] __integer_multiply__, d = [qa, qb] __integer_multiply__, s = [[q, q] __integer_multiply__, n] __integer_multiply__ __integer_sqrt__, nlo = { [q, 0] __integer_compare__ =1 => [p, s] __integer_add__ | [p, [s, 1] __integer_add__] __integer_subtract__ }, [sgn, [nlo, d] __integer_divide__] __integer_multiply__ } | ='coeff => { $ to_rational =Rational[m, d], [m, d] __integer_divide__ } }" },
  { name := "sign", param := "'opt", binds := "",
    branches := [
      { pattern := "", consequence := false, calls := ["compare"] }],
    skeleton := "#'opt { [$, 0] compare }" },
  { name := "min", param := "['opt, 'opt]", binds := "",
    branches := [
      { pattern := "([[], _] | [_, []])", consequence := true, calls := [] },
      { pattern := "[x, y]", consequence := true, calls := ["compare"] }],
    skeleton := "#['opt, 'opt] { =([[], _] | [_, []]) => [] | =[x, y] => { [x, y] compare, { =1 => y | x } } }" },
  { name := "max", param := "['opt, 'opt]", binds := "",
    branches := [
      { pattern := "([[], _] | [_, []])", consequence := true, calls := [] },
      { pattern := "[x, y]", consequence := true, calls := ["compare"] }],
    skeleton := "#['opt, 'opt] { =([[], _] | [_, []]) => [] | =[x, y] => { [x, y] compare, { =-1 => y | x } } }" },
  { name := "clamp", param := "['opt, 'opt, 'opt]", binds := "",
    branches := [
      { pattern := "([[], _, _] | [_, [], _] | [_, _, []])", consequence := true, calls := [] },
      { pattern := "[x, lo, hi]", consequence := true, calls := ["compare", "compare"] }],
    skeleton := "#['opt, 'opt, 'opt] { =([[], _, _] | [_, [], _] | [_, _, []]) => [] | =[x, lo, hi] => { [x, lo] compare, { =-1 => lo | [x, hi] compare, { =1 => hi | x } } } }" },
  { name := "floor", param := "'opt", binds := "",
    branches := [
      { pattern := "[]", consequence := true, calls := [] },
      { pattern := "x", consequence := true, calls := ["to_int", "compare", "__integer_subtract__"] }],
    skeleton := "#'opt { =[] => [] | =x => { t = x to_int, { [x, t] compare =-1 => [t, 1] __integer_subtract__ | t } } }" },
  { name := "ceil", param := "'opt", binds := "",
    branches := [
      { pattern := "[]", consequence := true, calls := [] },
      { pattern := "x", consequence := true, calls := ["to_int", "compare", "__integer_add__"] }],
    skeleton := "#'opt { =[] => [] | =x => { t = x to_int, { [x, t] compare =1 => [t, 1] __integer_add__ | t } } }" },
  { name := "round", param := "'opt", binds := "",
    branches := [
      { pattern := "[]", consequence := true, calls := [] },
      { pattern := "", consequence := true, calls := ["floor", "__integer_multiply__", "__integer_add__", "compare", "__integer_add__", "compare", "__integer_compare__", "__integer_add__"] }],
    skeleton := "#'opt { =[] => [] | floor =f => { mid = f [~, 2] __integer_multiply__ [~, 1] __integer_add__ Rational[~, 2], { [$, mid] compare =1 => [f, 1] __integer_add__ | [$, mid] compare =-1 => f | [f, 0] __integer_compare__ =-1 => f | [f, 1] __integer_add__ } } }" }]
  exports := [
  { name := "numer", param := "'opt", binds := "",
    branches := [
      { pattern := "Surd[a, b, n]", consequence := true, calls := [] },
      { pattern := "Rational[n, _]", consequence := true, calls := [] },
      { pattern := "'int", consequence := true, calls := [] }],
    skeleton := "#'opt { =Surd[a, b, n] => [] | =Rational[n, _] => n | ='int => $ }" },
  { name := "denom", param := "'opt", binds := "",
    branches := [
      { pattern := "Surd[a, b, n]", consequence := true, calls := [] },
      { pattern := "Rational[_, d]", consequence := true, calls := [] },
      { pattern := "'int", consequence := true, calls := [] }],
    skeleton := "#'opt { =Surd[a, b, n] => [] | =Rational[_, d] => d | ='int => 1 }" },
  { name := "sqrt", param := "'opt", binds := "",
    branches := [
      { pattern := "Surd[a, b, n]", consequence := true, calls := [] },
      { pattern := "'coeff", consequence := true, calls := ["to_rational", "__integer_compare__", "__integer_compare__", "__integer_multiply__", "sqfree", "reduce", "build"] }],
    skeleton := "#'opt { =Surd[a, b, n] => [] | ='coeff => { $ to_rational =Rational[p, q], { [p, 0] __integer_compare__ =-1 => [] | [p, 0] __integer_compare__ =0 => 0 | { [1, [p, q] __integer_multiply__, 2] sqfree =[k, m], [Rational[0, 1], Rational[k, q] reduce, m] build } } } }" },
  { name := "add", param := "['opt, 'opt]", binds := "",
    branches := [
      { pattern := "([[], _] | [_, []])", consequence := true, calls := [] },
      { pattern := "[Surd[a, b, n], y]", consequence := true, calls := ["surd_add"] },
      { pattern := "[x, Surd[a, b, n]]", consequence := true, calls := ["surd_add"] },
      { pattern := "[Rational[a, b], y]", consequence := true, calls := ["to_rational", "radd"] },
      { pattern := "[x, Rational[c, d]]", consequence := true, calls := ["to_rational", "radd"] },
      { pattern := "[a, b]", consequence := true, calls := ["__integer_add__"] }],
    skeleton := "#['opt, 'opt] { =([[], _] | [_, []]) => [] | =[Surd[a, b, n], y] => [Surd[a, b, n], y] surd_add | =[x, Surd[a, b, n]] => [x, Surd[a, b, n]] surd_add | =[Rational[a, b], y] => [Rational[a, b], y to_rational] radd | =[x, Rational[c, d]] => [x to_rational, Rational[c, d]] radd | =[a, b] => [a, b] __integer_add__ }" },
  { name := "sub", param := "['opt, 'opt]", binds := "",
    branches := [
      { pattern := "([[], _] | [_, []])", consequence := true, calls := [] },
      { pattern := "[Surd[a, b, n], y]", consequence := true, calls := ["surd_sub"] },
      { pattern := "[x, Surd[a, b, n]]", consequence := true, calls := ["surd_sub"] },
      { pattern := "[Rational[a, b], y]", consequence := true, calls := ["to_rational", "rsub"] },
      { pattern := "[x, Rational[c, d]]", consequence := true, calls := ["to_rational", "rsub"] },
      { pattern := "[a, b]", consequence := true, calls := ["__integer_subtract__"] }],
    skeleton := "#['opt, 'opt] { =([[], _] | [_, []]) => [] | =[Surd[a, b, n], y] => [Surd[a, b, n], y] surd_sub | =[x, Surd[a, b, n]] => [x, Surd[a, b, n]] surd_sub | =[Rational[a, b], y] => [Rational[a, b], y to_rational] rsub | =[x, Rational[c, d]] => [x to_rational, Rational[c, d]] rsub | =[a, b] => [a, b] __integer_subtract__ }" },
  { name := "mul", param := "['opt, 'opt]", binds := "",
    branches := [
      { pattern := "([[], _] | [_, []])", consequence := true, calls := [] },
      { pattern := "[Surd[a, b, n], y]", consequence := true, calls := ["surd_mul"] },
      { pattern := "[x, Surd[a, b, n]]", consequence := true, calls := ["surd_mul"] },
      { pattern := "[Rational[a, b], y]", consequence := true, calls := ["to_rational", "rmul"] },
      { pattern := "[x, Rational[c, d]]", consequence := true, calls := ["to_rational", "rmul"] },
      { pattern := "[a, b]", consequence := true, calls := ["__integer_multiply__"] }],
    skeleton := "#['opt, 'opt] { =([[], _] | [_, []]) => [] | =[Surd[a, b, n], y] => [Surd[a, b, n], y] surd_mul | =[x, Surd[a, b, n]] => [x, Surd[a, b, n]] surd_mul | =[Rational[a, b], y] => [Rational[a, b], y to_rational] rmul | =[x, Rational[c, d]] => [x to_rational, Rational[c, d]] rmul | =[a, b] => [a, b] __integer_multiply__ }" },
  { name := "div", param := "['opt, 'opt]", binds := "",
    branches := [
      { pattern := "([[], _] | [_, []])", consequence := true, calls := [] },
      { pattern := "[Surd[a, b, n], y]", consequence := true, calls := ["surd_div"] },
      { pattern := "[x, Surd[a, b, n]]", consequence := true, calls := ["surd_div"] },
      { pattern := "[x, y]", consequence := true, calls := ["to_rational", "to_rational", "__integer_multiply__", "__integer_multiply__", "reduce"] }],
    skeleton := "#['opt, 'opt] { =([[], _] | [_, []]) => [] | =[Surd[a, b, n], y] => [Surd[a, b, n], y] surd_div | =[x, Surd[a, b, n]] => [x, Surd[a, b, n]] surd_div | =[x, y] => { x to_rational =Rational[a, b], y to_rational =Rational[c, d], { c =0 => [] | { Rational[[a, d] __integer_multiply__, [b, c] __integer_multiply__] reduce } } } }" },
  { name := "neg", param := "'opt", binds := "",
    branches := [
      { pattern := "Surd[a, b, n]", consequence := true, calls := ["to_rational", "rneg", "to_rational", "rneg", "build"] },
      { pattern := "Rational[m, d]", consequence := true, calls := ["__integer_multiply__", "reduce"] },
      { pattern := "'int", consequence := true, calls := ["__integer_multiply__"] }],
    skeleton := "#'opt { =Surd[a, b, n] => [a to_rational rneg, b to_rational rneg, n] build | =Rational[m, d] => Rational[[m, -1] __integer_multiply__, d] reduce | ='int => [$, -1] __integer_multiply__ }" },
  { name := "abs", param := "'opt", binds := "",
    branches := [
      { pattern := "Surd[a, b, n]", consequence := true, calls := ["to_rational", "to_rational", "ssign", "rneg", "rneg", "build"] },
      { pattern := "Rational[m, d]", consequence := true, calls := ["__integer_abs__"] },
      { pattern := "'int", consequence := true, calls := ["__integer_abs__"] }],
    skeleton := "#'opt { =Surd[a, b, n] => { ar = a to_rational, br = b to_rational, { [ar, br, n] ssign =-1 => [ar rneg, br rneg, n] build | Surd[a, b, n] } } | =Rational[m, d] => Rational[m __integer_abs__, d] | ='int => $ __integer_abs__ }" },
  { name := "to_int", param := "", binds := "", branches := [], skeleton := "&to_int" },
  { name := "floor", param := "", binds := "", branches := [], skeleton := "&floor" },
  { name := "ceil", param := "", binds := "", branches := [], skeleton := "&ceil" },
  { name := "round", param := "", binds := "", branches := [], skeleton := "&round" },
  { name := "sign", param := "", binds := "", branches := [], skeleton := "&sign" },
  { name := "min", param := "", binds := "", branches := [], skeleton := "&min" },
  { name := "max", param := "", binds := "", branches := [], skeleton := "&max" },
  { name := "clamp", param := "", binds := "", branches := [], skeleton := "&clamp" },
  { name := "eq?", param := "['opt, 'opt]", binds := "",
    branches := [
      { pattern := "", consequence := false, calls := ["compare"] }],
    skeleton := "#['opt, 'opt] { compare =0, Ok[] }" },
  { name := "lt?", param := "['opt, 'opt]", binds := "",
    branches := [
      { pattern := "", consequence := false, calls := ["compare"] }],
    skeleton := "#['opt, 'opt] { compare =-1, Ok[] }" },
  { name := "le?", param := "['opt, 'opt]", binds := "",
    branches := [
      { pattern := "", consequence := false, calls := ["compare"] }],
    skeleton := "#['opt, 'opt] { compare { =-1 | =0 }, Ok[] }" },
  { name := "gt?", param := "['opt, 'opt]", binds := "",
    branches := [
      { pattern := "", consequence := false, calls := ["compare"] }],
    skeleton := "#['opt, 'opt] { compare =1, Ok[] }" },
  { name := "ge?", param := "['opt, 'opt]", binds := "",
    branches := [
      { pattern := "", consequence := false, calls := ["compare"] }],
    skeleton := "#['opt, 'opt] { compare { =0 | =1 }, Ok[] }" }]
  other := [
]


end QM.Num
