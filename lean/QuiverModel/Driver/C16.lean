import QuiverModel.Core.VM.Wire
import QuiverModel.Core.VM.Inv
/-
qm_c16 — driver for the tail-call theorems (C16) on M-VM. One request per line:

  (prog …) / (fn …)                       load a program (wire format of `Core/VM/Wire.lean`)
  (annotate)                              `inferAnn` for every function, kept for the requests below → ok <#functions> | reject <f>
  (annotations)                           the annotations computed by (annotate)                → anns (h:l _ …) (…) …
  (stack-at s0 (f pc) (f pc) …)           frames, current first: the stack length `stack_length_running`
                                          predicts: `stackBaseOf rest + ann[top].height`          → ok <n> | unannotated
  (entry-sizes s0 lb fi (f pc) …)         suspended frames, innermost first: the sizes `AtEntry` fixes
                                          for entering `fi` on this activation                  → ok <frames> <locals> <stack>
  (tailcall r s l cc ncaps depth)         run `handleTailCall` on a synthetic process: `s` stack cells
                                          (for r = 0 the top one is a closure of function 0 with
                                          `ncaps` captures), `l` locals over a locals base 0, current
                                          frame with `cc` captures on top of `depth - 1` other frames
                                                                                                → ok <frames> <locals> <stack> <counter> | err <Class>
-/
open QM QM.VM QM.VM.Wire

namespace C16Driver

structure St where
  P : Prog := emptyProg
  A : Array Anns := #[]

def parseFrames (xs : List Sx) : Option (List Frame) :=
  xs.mapM (fun x =>
    match x with
    | .list [f, pc] => match f.asNat, pc.asNat with
      | some f, some pc => some (⟨f, 0, 0, pc⟩ : Frame)
      | _, _ => none
    | _ => none)

def step (st : St) (req : List Sx) : St × String :=
  match loadStep st.P req with
  | some (P', ans) => ({ P := P', A := #[] }, ans)
  | none =>
    match req with
    | [.list [.atom "annotate"]] =>
      let A := (Array.range st.P.functions.size).map (fun f => inferAnn st.P f)
      match (List.range st.P.functions.size).find? (fun f => !checkAnn st.P f (annsOf A f)) with
      | some f => ({ st with A := A }, s!"reject {f}")
      | none => ({ st with A := A }, s!"ok {st.P.functions.size}")
    | [.list [.atom "annotations"]] =>
      (st, "anns " ++ " ".intercalate (st.A.toList.map (fun a => "(" ++ renderAnns a ++ ")")))
    | [.list (.atom "stack-at" :: s0 :: frames)] =>
      match s0.asNat, parseFrames frames with
      | some s0, some (top :: rest) =>
        match (annsOf st.A top.functionIndex)[top.counter]? with
        | some (some a) => (st, s!"ok {stackBaseOf st.P st.A s0 rest + a.height}")
        | _ => (st, "unannotated")
      | _, _ => (st, "bad-request")
    | [.list (.atom "entry-sizes" :: s0 :: lb :: fi :: frames)] =>
      match s0.asNat, lb.asNat, fi.asNat, parseFrames frames with
      | some s0, some lb, some fi, some rest =>
        match st.P.functions[fi]? with
        | some fn => (st, s!"ok {rest.length + 1} {lb + fn.captures} {stackBaseOf st.P st.A s0 rest + 1}")
        | none => (st, "no-such-function")
      | _, _, _, _ => (st, "bad-request")
    | [.list [.atom "tailcall", r, s, l, cc, ncaps, depth]] =>
      match r.asNat, s.asNat, l.asNat, cc.asNat, ncaps.asNat, depth.asNat with
      | some r, some s, some l, some cc, some ncaps, some depth =>
        let top : List Val :=
          if r = 0 then [.fn 0 (ValList.ofList (List.replicate ncaps (.int 0)))] else []
        let p : Proc :=
          { stack := top ++ List.replicate (s - top.length) (Val.int 0),
            locals := List.replicate l (Val.int 0),
            frames := ⟨0, 0, cc, 7⟩ :: List.replicate (depth - 1) ⟨0, 0, 0, 3⟩ }
        match handleTailCall st.P p (r != 0) with
        | .ok (p', _) =>
          (st, s!"ok {p'.frames.length} {p'.locals.length} {p'.stack.length} {p'.curCounter}")
        | .error e => (st, s!"err {e.className}")
      | _, _, _, _, _, _ => (st, "bad-request")
    | _ => (st, "bad-request")

end C16Driver

def main : IO Unit := sxLoop C16Driver.step {}
