import QuiverModel.Core.Prelude
import QuiverModel.Core.Parse.Type
/-
Requests of `qm_c18` for M-Parse (the type-expression sub-language). Text travels as hex of its
UTF-8 bytes (`-` = empty). Offsets are byte offsets into the request's text.

  ptype <hex>     → ok <ty> <rest-offset> | err <offset> <code> | fuel-out      (`type_definition`, the
                    grammar of /repo 1d93429 = the old one: partial_or_group_factored_eq, receive_factored_eq)
  pbase <hex>     → the same for `base_type`
  pfio <hex>      → the same for `function_input_type` / `function_output_type`
  pinline <hex>   → the same for `inline_type_expression` (a type in pattern position)
  palias <hex>    → alias-only <alias> | alias-then-err <alias> <offset> | alias-then-more <alias> <offset>
                    | not-alias <offset> <code> | fuel-out                        (`programVerdict`)
  fmt-type <ty>   → s:<hex>    `render_type`
  fmt-atom <ty> | fmt-member <ty>   → s:<hex>   `render_type_atom` / `render_union_member`
  fmt-alias <alias> → s:<hex>  `format_program` on the one-alias program (layout at width 100)
  flat-alias <alias> → s:<hex> the single-line text of the alias (`printAlias`)
  broken-alias <alias> → s:<hex> | none   the one-member-per-line text of a union alias (`brokenAlias`)
  wf <ty> | wf-alias <alias>      → 1 | 0        `WFType` (the hypothesis of the round-trip theorems)

<ty>    ::= (prim int|bin|ref) | (tuple <name?> <0|1> <field>*) | (fn <ty> <ty>) | (union <ty>*)
          | (inter <ty>*) | (ident <name> <ty>*) | (cycle _|<n>) | (proc <ty?> <ty?>) | (res <name>)
          | (mod (<name>*) <name?> <ty>*) | (self <ty>*)
<field> ::= (field <name?> <ty>) | (spread <name?> <ty>*)
<alias> ::= (alias <name?> (<name>*) <ty>)
<name>  ::= h<hex-utf8>      <x?> ::= _ | <x>
-/
open QM QM.Parse

namespace QM.TypeDriver

def hexToStr (h : String) : Option Str :=
  if h = "-" then some [] else
  match parseHex h with
  | none => none
  | some bs =>
    match String.fromUTF8? (ByteArray.mk bs.toArray) with
    | some s => some s.toList
    | none => none

def strHex (cs : Str) : String := toHex (String.ofList cs).toUTF8.toList

def nameOfSx : Sx → Option Str
  | .atom s =>
    match s.toList with
    | 'h' :: rest => if rest.isEmpty then some [] else hexToStr (String.ofList rest)
    | _ => none
  | _ => none

def optNameOfSx : Sx → Option (Option Str)
  | .atom "_" => some none
  | x => (nameOfSx x).map some

mutual
partial def tyOfSx : Sx → Option Ty
  | .list [.atom "prim", .atom "int"] => some (.prim .int)
  | .list [.atom "prim", .atom "bin"] => some (.prim .bin)
  | .list [.atom "prim", .atom "ref"] => some (.prim .ref)
  | .list (.atom "tuple" :: nm :: .atom p :: fs) =>
    match optNameOfSx nm, fs.mapM fieldOfSx with
    | some nm, some fs =>
      if p = "1" then some (.tuple nm fs true) else if p = "0" then some (.tuple nm fs false) else none
    | _, _ => none
  | .list [.atom "fn", a, b] =>
    match tyOfSx a, tyOfSx b with
    | some a, some b => some (.func a b)
    | _, _ => none
  | .list (.atom "union" :: ts) => (ts.mapM tyOfSx).map Ty.union
  | .list (.atom "inter" :: ts) => (ts.mapM tyOfSx).map Ty.inter
  | .list (.atom "ident" :: n :: ts) =>
    match nameOfSx n, ts.mapM tyOfSx with
    | some n, some ts => some (.ident n ts)
    | _, _ => none
  | .list [.atom "cycle", .atom "_"] => some (.cycle none)
  | .list [.atom "cycle", n] => n.asNat.map (fun n => .cycle (some n))
  | .list [.atom "proc", a, r] =>
    match optTyOfSx a, optTyOfSx r with
    | some a, some r => some (.proc a r)
    | _, _ => none
  | .list [.atom "res", n] => (nameOfSx n).map Ty.resource
  | .list (.atom "mod" :: .list ms :: mem :: ts) =>
    match ms.mapM nameOfSx, optNameOfSx mem, ts.mapM tyOfSx with
    | some ms, some mem, some ts => some (.modty ms mem ts)
    | _, _, _ => none
  | .list (.atom "self" :: ts) => (ts.mapM tyOfSx).map Ty.selfDefault
  | _ => none
partial def optTyOfSx : Sx → Option (Option Ty)
  | .atom "_" => some none
  | x => (tyOfSx x).map some
partial def fieldOfSx : Sx → Option Field
  | .list [.atom "field", nm, t] =>
    match optNameOfSx nm, tyOfSx t with
    | some nm, some t => some (.field nm t)
    | _, _ => none
  | .list (.atom "spread" :: nm :: ts) =>
    match optNameOfSx nm, ts.mapM tyOfSx with
    | some nm, some ts => some (.spread nm ts)
    | _, _ => none
  | _ => none
end

def aliasOfSx : Sx → Option Alias
  | .list [.atom "alias", nm, .list ps, t] =>
    match optNameOfSx nm, ps.mapM nameOfSx, tyOfSx t with
    | some nm, some ps, some t => some ⟨nm, ps, t⟩
    | _, _, _ => none
  | _ => none

def sxName (n : Str) : String := "h" ++ strHex n
def sxOptName : Option Str → String
  | none => "_"
  | some n => sxName n

def spaced (xs : List String) : String := String.join (xs.map (" " ++ ·))

mutual
partial def sxTy : Ty → String
  | .prim .int => "(prim int)"
  | .prim .bin => "(prim bin)"
  | .prim .ref => "(prim ref)"
  | .tuple nm fs p => s!"(tuple {sxOptName nm} {if p then "1" else "0"}{spaced (fs.map sxField)})"
  | .func a b => s!"(fn {sxTy a} {sxTy b})"
  | .union ts => s!"(union{spaced (ts.map sxTy)})"
  | .inter ts => s!"(inter{spaced (ts.map sxTy)})"
  | .ident n ts => s!"(ident {sxName n}{spaced (ts.map sxTy)})"
  | .cycle none => "(cycle _)"
  | .cycle (some n) => s!"(cycle {n})"
  | .proc a r => s!"(proc {sxOptTy a} {sxOptTy r})"
  | .resource n => s!"(res {sxName n})"
  | .modty ms mem ts =>
    s!"(mod ({" ".intercalate (ms.map sxName)}) {sxOptName mem}{spaced (ts.map sxTy)})"
  | .selfDefault ts => s!"(self{spaced (ts.map sxTy)})"
partial def sxOptTy : Option Ty → String
  | none => "_"
  | some t => sxTy t
partial def sxField : Field → String
  | .field nm t => s!"(field {sxOptName nm} {sxTy t})"
  | .spread nm ts => s!"(spread {sxOptName nm}{spaced (ts.map sxTy)})"
end

def sxAlias (a : Alias) : String :=
  s!"(alias {sxOptName a.name} ({" ".intercalate (a.params.map sxName)}) {sxTy a.ty})"

def codeName : Code → String
  | .char => "Char" | .tag => "Tag" | .satisfy => "Satisfy" | .digit => "Digit"
  | .multispace => "MultiSpace" | .space => "Space" | .crlf => "CrLf" | .mapRes => "MapRes"
  | .verify => "Verify" | .not => "Not" | .many0 => "Many0" | .sepList => "SeparatedList"
  | .eof => "Eof"

/-- byte offset of the suffix `pos` of `input` -/
def offsetOf (input pos : Str) : Nat := QM.Text.utf8Len input - QM.Text.utf8Len pos

def renderRes (input : Str) : Res Ty → String
  | .ok t rest => s!"ok {sxTy t} {offsetOf input rest}"
  | .err pos c => s!"err {offsetOf input pos} {codeName c}"
  | .out => "fuel-out"

def renderVerdict (input : Str) : Verdict → String
  | .aliasOnly a => s!"alias-only {sxAlias a}"
  | .aliasThenErr a pos => s!"alias-then-err {sxAlias a} {offsetOf input pos}"
  | .aliasThenMore a pos => s!"alias-then-more {sxAlias a} {offsetOf input pos}"
  | .notAlias pos c => s!"not-alias {offsetOf input pos} {codeName c}"
  | .fuelOut => "fuel-out"

def sHex (cs : Str) : String := "s:" ++ strHex cs

/-- `none` = not a request of this sub-protocol. -/
def typeStep (req : List Sx) : Option String :=
  match req with
  | [.atom "ptype", .atom h] =>
    some (match hexToStr h with | some i => renderRes i (parseTypeG i) | none => "bad-request")
  | [.atom "pbase", .atom h] =>
    some (match hexToStr h with | some i => renderRes i (parseBaseTypeG i) | none => "bad-request")
  | [.atom "pfio", .atom h] =>
    some (match hexToStr h with | some i => renderRes i (parseFunctionIoTypeG i) | none => "bad-request")
  | [.atom "pinline", .atom h] =>
    some (match hexToStr h with | some i => renderRes i (parseInlineTypeG i) | none => "bad-request")
  | [.atom "palias", .atom h] =>
    some (match hexToStr h with | some i => renderVerdict i (programVerdict i) | none => "bad-request")
  | [.atom "fmt-type", t] =>
    some (match tyOfSx t with | some t => sHex (printTy t) | none => "bad-request")
  | [.atom "fmt-atom", t] =>
    some (match tyOfSx t with | some t => sHex (printAtom t) | none => "bad-request")
  | [.atom "fmt-member", t] =>
    some (match tyOfSx t with | some t => sHex (printMember t) | none => "bad-request")
  | [.atom "fmt-alias", a] =>
    some (match aliasOfSx a with | some a => sHex (fmtAlias a) | none => "bad-request")
  | [.atom "flat-alias", a] =>
    some (match aliasOfSx a with | some a => sHex (printAlias a) | none => "bad-request")
  | [.atom "broken-alias", a] =>
    some (match aliasOfSx a with
      | some ⟨name, ps, .union ts⟩ => sHex (brokenAlias name ps ts)
      | some _ => "none"
      | none => "bad-request")
  | [.atom "wf", t] =>
    some (match tyOfSx t with | some t => (if t.wf then "1" else "0") | none => "bad-request")
  | [.atom "wf-alias", a] =>
    some (match aliasOfSx a with | some a => (if a.wf then "1" else "0") | none => "bad-request")
  | _ => none

end QM.TypeDriver
