import QuiverModel.Core.Types.Codec
import QuiverModel.Core.Types.Shape
/-
qm_c09 — driver for M-Types (relation, narrowing, inhabitation). One request per line:

  (table (types …) (tuples …))      set the current table           → ok types=<n> tuples=<m> distinct=<b> ordered=<b>
                                    (distinct: no partial type names a field twice — `PartsDistinct`)
  (extend (types …) (tuples …))     append entries (kept until reset) → ok types=<n> tuples=<m>
  (reset)                           back to the table of the last `table` request → ok
  (class t)                                                         → fo=<b> closed=<b>
  (classes)                         one char per type id: f = first-order cycle-free (and closed),
                                    r = closed contractive recursive first-order (no function / process
                                    component: `compat_sound_rec_fo` applies), c = closed contractive,
                                    x = neither → string over f r c x
  (compat a b) | (overlap a b)                                      → true | false | fuel-out
  (matrix compat|overlap id…)       all ordered pairs of the ids, row-major → string over t f ?
  (inh t <value> st…)               inhabitation below the boundaries st (top first; default none)
                                                                    → true | false
  (enum t efuel width)              confirmed inhabitants            → (vals <value>…)
  (sem efuel width id…)             semantic matrix over enumerated inhabitants of the row type:
                                    e = none enumerated, s = all inhabit the column type,
                                    o = some do, d = none does       → string over e s o d
  (witness notin|both a b efuel width)  first enumerated inhabitant of a that is not in / also in b
                                                                    → (v <value>) | none
  (intersect a b) | (complement a b) | (union id…)
                                    → ok <id> (types <new>…) (tuples <new>…) | fuel-out
  (keeps meet|diff a b r efuel width)   no-value-dropped oracle for a result id r (of the current,
                                    possibly extended, table): every enumerated v with v∈a ∧ v∈b
                                    (meet) resp. v∈a ∧ v∉b (diff) inhabits r
                                                                    → ok <checked> | (dropped <value>)
The driver calls the definitions the theorems are about (`checkRel`, `inhB`, `intersect`, …).
-/
open QM QM.Types

structure C09State where
  base : Table := ⟨[], []⟩
  cur : Table := ⟨[], []⟩
  /-- enumerated inhabitants per (type id, efuel, width) of the BASE table (extensions only append
  entries, so the meaning of base ids — and hence this cache — is unaffected by `extend`). -/
  cache : List ((Nat × Nat × Nat) × List V) := []

def relFuel : Nat := 300
/-- fuel of the bulk semantic queries (`sem`, `enum`, `keeps`); a reported witness is re-checked
with `inhFuelBig` so that a verdict never depends on this bound. -/
def inhFuel : Nat := 96
def inhFuelBig : Nat := 400
def narrowFuel : Nat := 64

def natArgs (xs : List Sx) : Option (List Nat) := listMapM Sx.asNat xs

def boolStr (b : Bool) : String := if b then "true" else "false"

def relChar : Option Bool → Char
  | none => '?'
  | some true => 't'
  | some false => 'f'

def semChar (vals : List V) (inB : V → Bool) : Char :=
  if vals.isEmpty then 'e'
  else if vals.all inB then 's'
  else if vals.any inB then 'o'
  else 'd'

def renderTRes (T : Table) : TRes → String
  | none => "fuel-out"
  | some (T', id) => s!"ok {id} " ++ Table.renderNew T T'

/-- `enumInh` on the base table, memoised. -/
def enumCached (s : C09State) (w ef t : Nat) : C09State × List V :=
  match s.cache.lookup (t, ef, w) with
  | some vs => (s, vs)
  | none =>
    let vs := (enumInh s.base w ef inhFuel t).eraseDups
    ({ s with cache := ((t, ef, w), vs) :: s.cache }, vs)

def enumCachedMany (s : C09State) (w ef : Nat) : List Nat → C09State × List (List V)
  | [] => (s, [])
  | t :: rest =>
    let (s1, vs) := enumCached s w ef t
    let (s2, vss) := enumCachedMany s1 w ef rest
    (s2, vs :: vss)

def isUnionTy (T : Table) (t : Nat) : Bool :=
  match T.types[t]? with
  | some (.union _) => true
  | _ => false

/-- a narrowing result `r` computed from the original type `a` keeps `v`: either `r` as a type of
its own has `v`, or one of its variants has `v` when read in the context it was taken from — below
the boundary of `a` (this is how the compiler reads a narrowed recursive type: "the field's type is
fixed by the definition", narrowing.rs `get_declared_type_for_provenance`). -/
def keepsIn (T : Table) (fuel : Nat) (a r : Nat) (v : V) : Bool :=
  inhB T fuel [] r v ||
    (isUnionTy T a && (getVariants T r).any (fun p => inhB T fuel [a] p v))

def c09Step (s : C09State) (req : List Sx) : C09State × String :=
  let T := s.cur
  match req with
  | [x@(.list (.atom "table" :: _))] =>
    match Table.ofSx x with
    | some T' =>
      ({ base := T', cur := T', cache := [] },
        s!"ok types={T'.types.length} tuples={T'.tuples.length} distinct={boolStr T'.partsDistinctB} ordered={boolStr T'.orderedB}")
    | none => (s, "bad-request")
  | [.list [.atom "extend", .list (.atom "types" :: tys), .list (.atom "tuples" :: tus)]] =>
    match listMapM Ty.ofSx tys, listMapM TupleInfo.ofSx tus with
    | some tys, some tus =>
      let T' : Table := ⟨T.types ++ tys, T.tuples ++ tus⟩
      ({ s with cur := T' }, s!"ok types={T'.types.length} tuples={T'.tuples.length}")
    | _, _ => (s, "bad-request")
  | [.list [.atom "reset"]] => ({ s with cur := s.base }, "ok")
  | [.list [.atom "class", t]] =>
    match t.asNat with
    | some t =>
      (s, s!"fo={boolStr (foB T (T.types.length + 1) t)} closed={boolStr (closedB T (T.types.length + 1) [] t)}")
    | none => (s, "bad-request")
  | [.list [.atom "classes"]] =>
    let n := T.types.length + 1
    let cs := (List.range T.types.length).map (fun t =>
      if foB T n t then 'f' else if closedB T n [] t then (if rfoB T n t then 'r' else 'c') else 'x')
    (s, String.ofList cs)
  | [.list [.atom "compat", a, b]] =>
    match a.asNat, b.asNat with
    | some a, some b => (s, renderOptBool (isCompatible T relFuel a b))
    | _, _ => (s, "bad-request")
  | [.list [.atom "overlap", a, b]] =>
    match a.asNat, b.asNat with
    | some a, some b => (s, renderOptBool (typesOverlap T relFuel a b))
    | _, _ => (s, "bad-request")
  | [.list (.atom "matrix" :: .atom which :: ids)] =>
    match natArgs ids, (if which = "compat" then some Mode.all else if which = "overlap" then some Mode.any else none) with
    | some ids, some mode =>
      let cs := ids.flatMap (fun a => ids.map (fun b =>
        relChar ((checkRel T mode relFuel [] {} a b).map (·.1))))
      (s, String.ofList cs)
    | _, _ => (s, "bad-request")
  | [.list (.atom "inh" :: t :: v :: st)] =>
    match t.asNat, V.ofSx v, natArgs st with
    | some t, some v, some st => (s, boolStr (inhB T inhFuel st t v))
    | _, _, _ => (s, "bad-request")
  | [.list [.atom "enum", t, ef, w]] =>
    match t.asNat, ef.asNat, w.asNat with
    | some t, some ef, some w =>
      let (s, vals) := enumCached s w ef t
      (s, "(vals" ++ String.join (vals.map (fun v => " " ++ V.render v)) ++ ")")
    | _, _, _ => (s, "bad-request")
  | [.list (.atom "sem" :: ef :: w :: ids)] =>
    match ef.asNat, w.asNat, natArgs ids with
    | some ef, some w, some ids =>
      let (s, valss) := enumCachedMany s w ef ids
      let cs := valss.flatMap (fun vals =>
        ids.map (fun b => semChar vals (fun v => inhB T inhFuel [] b v)))
      (s, String.ofList cs)
    | _, _, _ => (s, "bad-request")
  | [.list [.atom "witness", .atom kind, a, b, ef, w]] =>
    match a.asNat, b.asNat, ef.asNat, w.asNat with
    | some a, some b, some ef, some w =>
      let (s, vals) := enumCached s w ef a
      let want : Option Bool := if kind = "notin" then some false else if kind = "both" then some true else none
      match want with
      | none => (s, "bad-request")
      | some want =>
        match vals.find? (fun v => inhB T inhFuelBig [] a v && (inhB T inhFuelBig [] b v == want)) with
        | some v => (s, "(v " ++ V.render v ++ ")")
        | none => (s, "none")
    | _, _, _, _ => (s, "bad-request")
  | [.list [.atom "intersect", a, b]] =>
    match a.asNat, b.asNat with
    | some a, some b => (s, renderTRes T (intersect Variant.current relFuel narrowFuel T a b))
    | _, _ => (s, "bad-request")
  | [.list [.atom "complement", a, b]] =>
    match a.asNat, b.asNat with
    | some a, some b => (s, renderTRes T (complement Variant.current relFuel narrowFuel T a b))
    | _, _ => (s, "bad-request")
  | [.list (.atom "union" :: ids)] =>
    match natArgs ids with
    | some ids => (s, renderTRes T (some (unionIds T ids)))
    | none => (s, "bad-request")
  | [.list [.atom "keeps", .atom kind, a, b, r, ef, w]] =>
    match a.asNat, b.asNat, r.asNat, ef.asNat, w.asNat with
    | some a, some b, some r, some ef, some w =>
      let inT : Nat → V → Bool := fun t v => inhB T inhFuel [] t v
      let (s, va) := enumCached s w ef a
      let (s, vb) := enumCached s w ef b
      let cand : Option (List V) :=
        if kind = "meet" then
          some ((va ++ vb).filter (fun v => inT a v && inT b v))
        else if kind = "diff" then
          some (va.filter (fun v => !inT b v))
        else none
      match cand with
      | none => (s, "bad-request")
      | some vals =>
        match vals.find? (fun v => !keepsIn T inhFuel a r v && !keepsIn T inhFuelBig a r v) with
        | some v => (s, "(dropped " ++ V.render v ++ ")")
        | none => (s, s!"ok {vals.length}")
    | _, _, _, _, _ => (s, "bad-request")
  | _ => (s, "bad-request")

def main : IO Unit := sxLoop c09Step {}
