import QuiverModel.Driver.TextCommon
/-
qm_c18 — driver for M-Text scanners, string decoding, spans and detect_error_kind; requests in
Driver/TextCommon.lean.
-/
open QM

def main : IO Unit := sxLoop (fun (_ : Unit) req => ((), textStep req)) ()
