import QuiverModel.Driver.TextCommon
import QuiverModel.Driver.TypeCommon
/-
qm_c18 — driver for M-Text scanners, string decoding, spans and detect_error_kind; requests in
Driver/TextCommon.lean. Requests of the type-expression sub-language (M-Parse: `ptype`, `palias`,
`fmt-type`, …) are answered by `QM.TypeDriver.typeStep` (Driver/TypeCommon.lean).
-/
open QM

def main : IO Unit :=
  sxLoop (fun (_ : Unit) req => ((), (QM.TypeDriver.typeStep req).getD (textStep req))) ()
