import QuiverModel.Core.Prelude
import QuiverModel.Core.Text.Doc
/-
qm_c17 — driver for M-Text (layout engine and string escaping). One request per line:

  print <width> <doc>        →  s:<hex of UTF-8 of pretty::print(doc, width)>
  flatten <doc>              →  s:<hex>
  flatwidth <max> <doc>      →  none | some <n>
  forcesbreak <doc>          →  true | false

<doc> ::= nil | line | softline | hardline | bp | (t <hex-utf8>) | (t) | (c <doc>*) | (n <k> <doc>)
        | (g <0|1> <doc>)   -- raw `Doc::Group(inner, should_break)`
        | (gg <doc>)        -- `pretty::group(inner)` (flag computed by forces_break)
        | (ib <broken> <flat>) | (ls <doc>)
Anything else answers `bad-request`.
-/
open QM QM.Text

def hexToChars (h : String) : Option (List Char) :=
  match parseHex h with
  | none => none
  | some bs =>
    match String.fromUTF8? (ByteArray.mk bs.toArray) with
    | some s => some s.toList
    | none => none

def charsToHex (cs : List Char) : String := toHex (String.ofList cs).toUTF8.toList

partial def docOfSx : Sx → Option Doc
  | .atom "nil" => some .nil
  | .atom "line" => some .line
  | .atom "softline" => some .softline
  | .atom "hardline" => some .hardline
  | .atom "bp" => some .breakParent
  | .list [.atom "t"] => some (.text [])
  | .list [.atom "t", .atom h] => (hexToChars h).map .text
  | .list (.atom "c" :: ds) => (ds.mapM docOfSx).map .concat
  | .list [.atom "n", k, d] =>
    match k.asNat, docOfSx d with
    | some k, some d => some (.nest k d)
    | _, _ => none
  | .list [.atom "g", .atom "0", d] => (docOfSx d).map (fun d => .group d false)
  | .list [.atom "g", .atom "1", d] => (docOfSx d).map (fun d => .group d true)
  | .list [.atom "gg", d] => (docOfSx d).map Doc.mkGroup
  | .list [.atom "ib", b, f] =>
    match docOfSx b, docOfSx f with
    | some b, some f => some (.ifBreak b f)
    | _, _ => none
  | .list [.atom "ls", d] => (docOfSx d).map .lineSuffix
  | _ => none

def c17Step (_ : Unit) (req : List Sx) : Unit × String :=
  match req with
  | [.atom "print", w, d] =>
    match w.asNat, docOfSx d with
    | some w, some d => ((), "s:" ++ charsToHex (print d w))
    | _, _ => ((), "bad-request")
  | [.atom "flatten", d] =>
    match docOfSx d with
    | some d => ((), "s:" ++ charsToHex (flatten d))
    | none => ((), "bad-request")
  | [.atom "flatwidth", m, d] =>
    match m.asNat, docOfSx d with
    | some m, some d =>
      match flatWidth d m with
      | some n => ((), s!"some {n}")
      | none => ((), "none")
    | _, _ => ((), "bad-request")
  | [.atom "forcesbreak", d] =>
    match docOfSx d with
    | some d => ((), if forcesBreak d then "true" else "false")
    | none => ((), "bad-request")
  | _ => ((), "bad-request")

def main : IO Unit := sxLoop c17Step ()
