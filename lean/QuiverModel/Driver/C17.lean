import QuiverModel.Driver.TextCommon
/-
qm_c17 — driver for M-Text (layout engine and string escaping); requests in Driver/TextCommon.lean.

<doc> ::= nil | line | softline | hardline | bp | (t <hex-utf8>) | (t) | (c <doc>*) | (n <k> <doc>)
        | (g <0|1> <doc>)   -- raw `Doc::Group(inner, should_break)`
        | (gg <doc>)        -- `pretty::group(inner)` (flag computed by forces_break)
        | (ib <broken> <flat>) | (ls <doc>)
Anything else answers `bad-request`.
-/
open QM

def main : IO Unit := sxLoop (fun (_ : Unit) req => ((), textStep req)) ()
