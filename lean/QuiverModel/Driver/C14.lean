import QuiverModel.Core.Prelude
import QuiverModel.Core.Resources.Basic
/-
qm_c14 — driver for M-Sys/resources (property C14). State: a `Sys`. Requests (one per line):
  reset N                         → ok                      (fresh system with N workers)
  start                           → <delta>
  request P KIND RID W            → <delta>                 (W = 0/1: the outside world lets it succeed)
  completions N                   → <delta>
  send SENDER TARGET VAL          → <delta>                 VAL ::= o | (r N) | (t VAL*) | (f VAL*)
  spawn CALLER (VAL*) VAL         → <delta>
  terminate P                     → <delta>
  exited P                        → <delta>                 (ProcessExited{P} handled; repair of F10)
  results AWAITER ((P R)*)        → <delta>                 (R = 0 None | 1 Some(Ok) | 2 Some(Err))
  state                           → own=… open=… next=… pend=… term=… rep=…
<delta> ::= wf=B x=(P:KIND:RID …) c=(R …) out=(CMD …) faults=N own=(R:P …) open=(R …) next=N pend=N pers=(P …)
  x   = what this event appended to backend.executed (execute(pid, effect) calls)
  c   = what it appended to backend.closeCalls (close_resource(id) calls), sorted (HashMap order)
  out = commands it made the environment send; wf = eventOk in the state before the event
Every answer is computed by `QM.Resources.step` / `eventOk` — the definitions the theorems are about.
-/
open QM QM.Resources

def kindNames : List (String × Kind) :=
  [("fileOpen", .fileOpen), ("fileRead", .fileRead), ("fileWrite", .fileWrite), ("fileFlush", .fileFlush),
   ("fileClose", .fileClose), ("stat", .stat), ("readDirOpen", .readDirOpen), ("readDirNext", .readDirNext),
   ("readDirClose", .readDirClose), ("dnsResolve", .dnsResolve), ("dnsNext", .dnsNext), ("dnsClose", .dnsClose),
   ("tcpConnect", .tcpConnect), ("tcpListen", .tcpListen), ("tcpListenerAccept", .tcpListenerAccept),
   ("tcpListenerClose", .tcpListenerClose), ("tcpSocketRead", .tcpSocketRead),
   ("tcpSocketWrite", .tcpSocketWrite), ("tcpSocketClose", .tcpSocketClose)]

def kindOfName (s : String) : Option Kind := (kindNames.find? (·.1 = s)).map (·.2)
def nameOfKind (k : Kind) : String := ((kindNames.find? (·.2 = k)).map (·.1)).getD "?"

mutual
partial def valOfSx : Sx → Option Val
  | .atom "o" => some .other
  | .list [.atom "r", n] => n.asNat.map Val.res
  | .list (.atom "t" :: xs) => (valsOfSx xs).map Val.tuple
  | .list (.atom "f" :: xs) => (valsOfSx xs).map Val.func
  | _ => none
partial def valsOfSx : List Sx → Option (List Val)
  | [] => some []
  | x :: xs =>
    match valOfSx x, valsOfSx xs with
    | some v, some vs => some (v :: vs)
    | _, _ => none
end

def boolOfSx (x : Sx) : Option Bool :=
  match x.asNat with
  | some 0 => some false
  | some 1 => some true
  | _ => none

def repOfSx (x : Sx) : Option Rep :=
  match x.asNat with
  | some 0 => some .pending
  | some 1 => some .ok
  | some 2 => some .failed
  | _ => none

def resultsOfSx : List Sx → Option (List (Pid × Rep))
  | [] => some []
  | .list [p, b] :: rest =>
    match p.asNat, repOfSx b, resultsOfSx rest with
    | some p, some b, some r => some ((p, b) :: r)
    | _, _, _ => none
  | _ => none

def eventOfReq : List Sx → Option Event
  | [.atom "start"] => some .start
  | [.atom "request", p, .atom k, r, w] =>
    match p.asNat, kindOfName k, r.asNat, boolOfSx w with
    | some p, some k, some r, some w => some (.request p { kind := k, rid := r } w)
    | _, _, _, _ => none
  | [.atom "completions", n] => n.asNat.map Event.completions
  | [.atom "send", a, t, v] =>
    match a.asNat, t.asNat, valOfSx v with
    | some a, some t, some v => some (.send a t v)
    | _, _, _ => none
  | [.atom "spawn", c, .list caps, arg] =>
    match c.asNat, valsOfSx caps, valOfSx arg with
    | some c, some caps, some arg => some (.spawn c caps arg)
    | _, _, _ => none
  | [.atom "terminate", p] => p.asNat.map Event.terminate
  | [.atom "exited", p] => p.asNat.map Event.exited
  | [.atom "results", a, .list rs] =>
    match a.asNat, resultsOfSx rs with
    | some a, some rs => some (.results a rs)
    | _, _ => none
  | _ => none

def sortNat (l : List Nat) : List Nat := l.mergeSort (· ≤ ·)

def renderNats (l : List Nat) : String := "(" ++ " ".intercalate (l.map toString) ++ ")"

def renderRes : Res → String
  | .okRes r => s!"res{r}"
  | .okOther => "ok"
  | .err => "err"

def renderCmd : Cmd → String
  | .effectCompletion p r => s!"done:{p}:{renderRes r}"
  | .spawnProcess w id => s!"spawn:{id}@{w}"
  | .notifySpawn c id => s!"notify:{c}:{id}"
  | .deliverMessage t => s!"deliver:{t}"
  | .startProcess w id => s!"start:{id}@{w}"

def renderOwn (m : Own) : String :=
  let ks := sortNat (ownKeys m)
  "(" ++ " ".intercalate (ks.map fun r => s!"{r}:{(ownGet m r).getD 0}") ++ ")"

def renderState (s : Sys) : String :=
  s!"own={renderOwn s.env.owner} open={renderNats (sortNat s.env.backend.openSet)} " ++
  s!"next={s.env.backend.nextRid} pend={s.env.backend.pending.length} " ++
  s!"pers={renderNats (sortNat s.env.persistent)} exited={renderNats (sortNat s.env.exited)}"

def renderDelta (s s' : Sys) (ok : Bool) : String :=
  let x := s'.env.backend.executed.drop s.env.backend.executed.length
  let c := s'.env.backend.closeCalls.drop s.env.backend.closeCalls.length
  let o := s'.env.out.drop s.env.out.length
  let f := s'.env.faults.length - s.env.faults.length
  s!"wf={if ok then 1 else 0} " ++
  "x=(" ++ " ".intercalate (x.map fun (p, e) => s!"{p}:{nameOfKind e.kind}:{e.rid}") ++ ") " ++
  s!"c={renderNats (sortNat c)} " ++
  "out=(" ++ " ".intercalate (o.map renderCmd) ++ ") " ++
  s!"faults={f} " ++ renderState s'

def c14Step (s : Sys) (req : List Sx) : Sys × String :=
  match req with
  | [.atom "reset", n] =>
    match n.asNat with
    | some n => (init n, "ok")
    | none => (s, "bad-request")
  | [.atom "state"] =>
    (s, renderState s ++ s!" term={renderNats (sortNat s.terminated)} rep={renderNats (sortNat s.reported)}")
  | _ =>
    match eventOfReq req with
    | none => (s, "bad-request")
    | some ev =>
      let s' := step s ev
      (s', renderDelta s s' (eventOk s ev))

def main : IO Unit := sxLoop c14Step (init 1)
