import QuiverModel.Core.VM.Wire
/-
qm_c07 — driver for M-Check / M-VM (C07). One request per line:

  (prog (consts n) (tuples arity…) (types n) (builtins n) (fn captures Op:arg …)…)
                         load a program (functions may also follow one per line)  →  ok <#functions>
  (fn captures Op:arg …) append a function to the loaded program                  →  ok <index>
  (infer f)              `inferAnn P f`                                           →  anns h:l _ h:l …
  (check f h:l _ …)      `checkAnn P f anns`                                      →  ok | reject <pc> <reason…>
  (certify)              `indicesOk` + `inferAnn`/`checkAnn` on every function    →  ok <#functions> | reject <f> <pc> <reason…>
  (annotations)          inferred annotations of every function                   →  anns (h:l _ …) (…) …
  (transfer Op:arg pc n caps h l)   the abstract transfer function                    →  ok pc':h:l … | reject <reason>

Instruction tokens: the Rust variant name, then `:`-separated arguments (`Jump:-3`, `TailCall:1`,
`Process:4:2`, `Pop`).
-/
open QM QM.VM

namespace C07Driver
open QM.VM.Wire

/-- Synthetic process of a given shape for `(step …)`: `h` dummy values on the stack (`top` on
top if given), `l` locals, one frame of function 0 at counter `pc`. -/
def shapeProc (h l pc : Nat) (top : List Val) : Proc :=
  { stack := top ++ List.replicate (h - top.length) (Val.int 0), locals := List.replicate l (Val.int 0),
    frames := [⟨0, 0, 0, pc⟩] }

def dummyOracle : Oracle :=
  { isType := fun _ _ => false, valuesEqual := fun _ _ => true,
    builtin := fun _ _ => .value (Val.int 0), select := .park }

def step (P : Prog) (req : List Sx) : Prog × String :=
  match req with
  | [.list (.atom "prog" :: items)] =>
    match parseProg items with
    | some P' => (P', s!"ok {P'.functions.size}")
    | none => (P, "bad-request")
  | [.list (.atom "fn" :: f)] =>
    match parseFn f with
    | some fn => ({ P with functions := P.functions.push fn }, s!"ok {P.functions.size}")
    | none => (P, "bad-request")
  | [.list [.atom "infer", f]] =>
    match f.asNat with
    | some k => if k < P.functions.size then (P, "anns " ++ renderAnns (inferAnn P k)) else (P, "no-such-function")
    | none => (P, "bad-request")
  | [.list (.atom "check" :: f :: anns)] =>
    match f.asNat, anns.mapM (fun x => x.asAtom.bind parseAnn) with
    | some k, some as =>
      if checkAnn P k as.toArray then (P, "ok")
      else
        match P.functions[k]? with
        | none => (P, "reject 0 no-such-function")
        | some fn =>
          match explainReject P fn as.toArray with
          | some (pc, why) => (P, s!"reject {pc} {why}")
          | none => (P, "reject 0 rejected")
    | _, _ => (P, "bad-request")
  | [.list [.atom "certify"]] =>
    match certify P with
    | none => (P, s!"ok {P.functions.size}")
    | some (f, pc, why) => (P, s!"reject {f} {pc} {why}")
  | [.list [.atom "annotations"]] =>
    (P, "anns " ++ " ".intercalate ((List.range P.functions.size).map (fun f => "(" ++ renderAnns (inferAnn P f) ++ ")")))
  | [.list [.atom "transfer", op, pc, n, caps, h, l]] =>
    match op.asAtom.bind parseInstr, pc.asNat, n.asNat, caps.asNat, h.asNat, l.asNat with
    | some i, some pc, some n, some caps, some h, some l =>
      match transfer P n caps pc ⟨h, l⟩ i with
      | .ok succs => (P, "ok " ++ " ".intercalate (succs.map (fun s => s!"{s.1}:{s.2.height}:{s.2.locals}")))
      | .error r => (P, s!"reject {r}")
    | _, _, _, _, _, _ => (P, "bad-request")
  | _ => (P, "bad-request")

end C07Driver

def main : IO Unit :=
  sxLoop C07Driver.step { constants := #[], functions := #[], tuples := #[], types := 0, builtins := 0 }
