import QuiverModel.Core.VM.Wire
/-
qm_c07 — driver for M-Check / M-VM (C07). One request per line:

  (prog (consts n) (tuples arity…) (types n) (builtins n) (fn captures Op:arg …)…)
                         load a program (functions may also follow one per line)  →  ok <#functions>
  (fn captures Op:arg …) append a function to the loaded program                  →  ok <index>
  (infer f)              `inferAnn P f`                                           →  anns h:l _ h:l …
  (check f h:l _ …)      `checkAnn P f anns`                                      →  ok | reject <pc> <reason…>
  (certify)              `indicesOk` + `inferAnn`/`checkAnn` on every function    →  ok <#functions> | reject <f> <pc> <reason…>
  (annotations)          inferred annotations of every function                   →  anns (h:l _ …) (…) …
  (step f pc s l variant)  **`stepInstr`** on a synthetic process: the instruction at `pc` of function `f` of
                         the loaded program, current frame ⟨f, base 0, captures(f), pc⟩ over one other
                         frame, `s` stack cells, `l` locals; `variant` shapes the top of the stack:
                         plain | nil | tup:<n> | fn:<g> | builtin | proc   →  ok <depth> <f'> <pc'> <stack> <locals rel. to the
                         current frame's base> <park> | err <Class>
  (transfer Op:arg pc n caps h l)   the abstract transfer function                    →  ok pc':h:l … | reject <reason>

Instruction tokens: the Rust variant name, then `:`-separated arguments (`Jump:-3`, `TailCall:1`,
`Process:4:2`, `Pop`).
-/
open QM QM.VM

namespace C07Driver
open QM.VM.Wire

/-- Synthetic process of a given shape for `(step …)`: `s` values on the stack (`top` on top if
given, the rest integers), `l` integer locals, the frame ⟨f, 0, cc, pc⟩ on top of one other frame. -/
def shapeProc (f cc pc s l : Nat) (top : List Val) : Proc :=
  { stack := top ++ List.replicate (s - top.length) (Val.int 0), locals := List.replicate l (Val.int 0),
    frames := [⟨f, 0, cc, pc⟩, ⟨f, 0, 0, 0⟩] }

def ints (n : Nat) : ValList := ValList.ofList (List.replicate n (Val.int 0))

def parseVariant (P : Prog) (tok : String) : Option (List Val) :=
  match tok.splitOn ":" with
  | ["plain"] => some []
  | ["nil"] => some [Val.nil]
  | ["tup", n] => n.toNat?.map (fun k => [Val.tup 2 (ints k)])
  | ["fn", g] => g.toNat?.bind (fun g => (P.functions[g]?).map (fun fn => [Val.fn g (ints fn.captures)]))
  | ["builtin"] => some [Val.builtin 0]
  | ["proc"] => some [Val.proc 1 0]
  | _ => none

def parkName : Park → String
  | .none => "none" | .spawning => "spawning" | .selecting => "selecting" | .effecting => "effecting"

def dummyOracle : Oracle :=
  { isType := fun _ _ => false, valuesEqual := fun _ _ => true,
    builtin := fun _ _ => .value (Val.int 0), select := .park }

def step (P : Prog) (req : List Sx) : Prog × String :=
  match req with
  | [.list (.atom "prog" :: items)] =>
    match parseProg items with
    | some P' => (P', s!"ok {P'.functions.size}")
    | none => (P, "bad-request")
  | [.list (.atom "fn" :: f)] =>
    match parseFn f with
    | some fn => ({ P with functions := P.functions.push fn }, s!"ok {P.functions.size}")
    | none => (P, "bad-request")
  | [.list [.atom "infer", f]] =>
    match f.asNat with
    | some k => if k < P.functions.size then (P, "anns " ++ renderAnns (inferAnn P k)) else (P, "no-such-function")
    | none => (P, "bad-request")
  | [.list (.atom "check" :: f :: anns)] =>
    match f.asNat, anns.mapM (fun x => x.asAtom.bind parseAnn) with
    | some k, some as =>
      if checkAnn P k as.toArray then (P, "ok")
      else
        match P.functions[k]? with
        | none => (P, "reject 0 no-such-function")
        | some fn =>
          match explainReject P fn as.toArray with
          | some (pc, why) => (P, s!"reject {pc} {why}")
          | none => (P, "reject 0 rejected")
    | _, _ => (P, "bad-request")
  | [.list [.atom "certify"]] =>
    match certify P with
    | none => (P, s!"ok {P.functions.size}")
    | some (f, pc, why) => (P, s!"reject {f} {pc} {why}")
  | [.list [.atom "annotations"]] =>
    (P, "anns " ++ " ".intercalate ((List.range P.functions.size).map (fun f => "(" ++ renderAnns (inferAnn P f) ++ ")")))
  | [.list [.atom "step", f, pc, sLen, l, variant]] =>
    match f.asNat, pc.asNat, sLen.asNat, l.asNat, variant.asAtom.bind (parseVariant P) with
    | some f, some pc, some sLen, some l, some top =>
      match P.functions[f]? with
      | none => (P, "no-such-function")
      | some fn =>
        match fn.instructions[pc]? with
        | none => (P, "no-such-instruction")
        | some i =>
          match stepInstr dummyOracle P (shapeProc f fn.captures pc sLen l top) i with
          | .error e => (P, s!"err {e.className}")
          | .ok (p', _) =>
            match p'.frames with
            | [] => (P, "ok 0 0 0 0 0 none")
            | t :: _ =>
              (P, s!"ok {p'.frames.length} {t.functionIndex} {t.counter} {p'.stack.length} {p'.locals.length - t.localsBase} {parkName p'.park}")
    | _, _, _, _, _ => (P, "bad-request")
  | [.list [.atom "transfer", op, pc, n, caps, h, l]] =>
    match op.asAtom.bind parseInstr, pc.asNat, n.asNat, caps.asNat, h.asNat, l.asNat with
    | some i, some pc, some n, some caps, some h, some l =>
      match transfer P n caps pc ⟨h, l, .none⟩ i with
      | .ok succs => (P, "ok " ++ " ".intercalate (succs.map (fun s => s!"{s.1}:{s.2.height}:{s.2.locals}")))
      | .error r => (P, s!"reject {r}")
    | _, _, _, _, _, _ => (P, "bad-request")
  | _ => (P, "bad-request")

end C07Driver

def main : IO Unit :=
  sxLoop C07Driver.step { constants := #[], functions := #[], tuples := #[], types := 0, builtins := 0 }
