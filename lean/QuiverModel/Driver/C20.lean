import QuiverModel.Core.Num
import QuiverModel.Core.Prelude
/-
qm_c20 — driver for M-Num. Requests (one per line):
  (op <name>) <num> …          name ∈ add sub mul div compare min max (2 operands),
                               clamp (3), neg abs sqrt numer denom to_int floor ceil round sign (1),
                               eq? lt? le? gt? ge? (2)
  (lit dec <0|1> <digits> <digits>)    decimal literal  [-]<int digits>.<fraction digits>
  (lit frac <0|1> <digits> <digits>)   fraction literal [-]<digits>/<digits>
nums: (int z) | (rat n d) | (surd <coeff> <coeff> n) | nil ; coeff: (int z) | (rat n d)
answers: a num | nil | Ok | err <Class> | panic | fuel-out | parse-error | bad-request
The driver calls the definitions of `QuiverModel.Core.Num` that the C20 theorems are about.
-/
open QM QM.Num

namespace C20Driver

def coeffOfSx : Sx → Option Coeff
  | .list [.atom "int", z] => (Sx.asInt z).map Coeff.int
  | .list [.atom "rat", n, d] => do
    let n ← Sx.asInt n
    let d ← Sx.asInt d
    pure (Coeff.rat n d)
  | _ => none

/-- outer `none` = malformed; inner `none` = nil -/
def numOfSx : Sx → Option (Option Num)
  | .atom "nil" => some none
  | .list [.atom "int", z] => (Sx.asInt z).map (fun z => some (Num.int z))
  | .list [.atom "rat", n, d] => do
    let n ← Sx.asInt n
    let d ← Sx.asInt d
    pure (some (Num.rat n d))
  | .list [.atom "surd", a, b, n] => do
    let a ← coeffOfSx a
    let b ← coeffOfSx b
    let n ← Sx.asInt n
    pure (some (Num.surd a b n))
  | _ => none

def renderCoeff : Coeff → String
  | .int z => s!"(int {z})"
  | .rat n d => s!"(rat {n} {d})"

def renderNum : Num → String
  | .int z => s!"(int {z})"
  | .rat n d => s!"(rat {n} {d})"
  | .surd a b n => s!"(surd {renderCoeff a} {renderCoeff b} {n})"

def renderRes {α} (f : α → String) : Res (Option α) → String
  | .ok (some v) => f v
  | .ok none => "nil"
  | .err e => "err " ++ e.name
  | .panic => "panic"
  | .fuelOut => "fuel-out"

def rNum (r : Res (Option Num)) : String := renderRes renderNum r
def rInt (r : Res (Option Int)) : String := renderRes (fun z => s!"(int {z})") r
def rOk (r : Res (Option Unit)) : String := renderRes (fun _ => "Ok") r

def op1 (name : String) (x : Option Num) : Option String :=
  match name with
  | "neg" => some (rNum (neg x))
  | "abs" => some (rNum (abs x))
  | "sqrt" => some (rNum (sqrt x))
  | "numer" => some (rInt (numer x))
  | "denom" => some (rInt (denom x))
  | "to_int" => some (rInt (toInt x))
  | "floor" => some (rInt (floor x))
  | "ceil" => some (rInt (ceil x))
  | "round" => some (rInt (round x))
  | "sign" => some (rInt (sign x))
  | _ => none

def op2 (name : String) (x y : Option Num) : Option String :=
  match name with
  | "add" => some (rNum (add x y))
  | "sub" => some (rNum (sub x y))
  | "mul" => some (rNum (mul x y))
  | "div" => some (rNum (div x y))
  | "compare" => some (rInt (compare x y))
  | "min" => some (rNum (min x y))
  | "max" => some (rNum (max x y))
  | "eq?" => some (rOk (eqQ x y))
  | "lt?" => some (rOk (ltQ x y))
  | "le?" => some (rOk (leQ x y))
  | "gt?" => some (rOk (gtQ x y))
  | "ge?" => some (rOk (geQ x y))
  | _ => none

def digitsOf (s : String) : Option (List Nat) :=
  s.toList.mapM (fun c => if '0' ≤ c ∧ c ≤ '9' then some (c.toNat - '0'.toNat) else none)

def negOf : Sx → Option Bool
  | .atom "0" => some false
  | .atom "1" => some true
  | _ => none

def step (_ : Unit) (req : List Sx) : Unit × String :=
  match req with
  | [.list [.atom "op", .atom name], a] =>
    match numOfSx a with
    | some x => ((), (op1 name x).getD "bad-request")
    | none => ((), "bad-request")
  | [.list [.atom "op", .atom name], a, b] =>
    match numOfSx a, numOfSx b with
    | some x, some y => ((), (op2 name x y).getD "bad-request")
    | _, _ => ((), "bad-request")
  | [.list [.atom "op", .atom "clamp"], a, b, c] =>
    match numOfSx a, numOfSx b, numOfSx c with
    | some x, some lo, some hi => ((), rNum (clamp x lo hi))
    | _, _, _ => ((), "bad-request")
  | [.list [.atom "lit", .atom "dec", s, .atom ip, .atom fp]] =>
    match negOf s, digitsOf ip, digitsOf fp with
    | some ng, some i, some f =>
      if i.isEmpty ∨ f.isEmpty then ((), "bad-request") else ((), renderNum (decimalLit ng i f))
    | _, _, _ => ((), "bad-request")
  | [.list [.atom "lit", .atom "frac", s, .atom np, .atom dp]] =>
    match negOf s, digitsOf np, digitsOf dp with
    | some ng, some n, some d =>
      if n.isEmpty ∨ d.isEmpty then ((), "bad-request")
      else match fractionLit ng n d with
        | some z => ((), renderNum z)
        | none => ((), "parse-error")
    | _, _, _ => ((), "bad-request")
  | _ => ((), "bad-request")

end C20Driver

def main : IO Unit := sxLoop C20Driver.step ()
