import QuiverModel.Core.Types.Codec
import QuiverModel.Core.Soundness.Unify
import QuiverModel.Core.Soundness.FieldAccess
import QuiverModel.Core.Soundness.Sequence
import QuiverModel.Core.Soundness.Infer
import QuiverModel.Core.RefSem.Parse
/-
qm_c01 — driver for the C01 guards model and the result-inhabitation oracle.

Requests (one S-expression list per line; see Core/Types/Codec.lean for `<type>`, `<tuple>`, `<value>`):
  (table (types <type>…) (tuples <tuple>…))   set the current table            → ok <#types> <#tuples>
  (unify <param id> <arg id>)                 `unify` from empty bindings      → ok (bindings (<name> <id>)…) <new entries> | fail <new entries> | fuel-out
  (subst (<name> <id>)… <type id>)            `substitute` on the scratch table (= the table after the
                                              last `unify`), which it extends   → ok <id> <new entries> | fuel-out
  (unify-old <param id> <arg id>)             the rule before fix 8f4b36d      → same
  (call <rules> <param id> <result id> <arg id>)  call guard under a rule set  → accept <result id> <new entries> | reject | fuel-out
       <rules> ::= cur | old | strict-cycle | old-merge | shared-names   (`cur` = the code as it is; the others
       are the alternatives of `QM.Soundness.Rules`, used to classify findings). The table
       extended by the guard is kept as the *scratch* table:
  (inh-scratch <type id> <value>)             `inh` against the scratch table  → true | false | fuel-out
  (compat <arg id> <param id>)                `is_compatible`                  → true | false | fuel-out
  (hasvars <id>)                              `contains_variables`             → true | false | fuel-out
  (inh <type id> <value>)                     does the value inhabit the type? → true | false | fuel-out
  (seq <0|1>…)                                nil-ability of a `,`-sequence from the own nil-ability
                                              of its chains (`compile_sequence`)  → nil | no-nil
  (field <type id> <name>)                    `get_field_by_name`              → ok <index> <result type id> (<field type id>…) | non-tuple | not-found | fuel-out
                                              (result type id = `union_type_ids` of the field types on the current table)
  (infer (names (<string> <name>)…) (env (<var> <type id>)…) <ok|nil> <program>)
                                              `QM.Soundness.inferSeq` on the current table: the fragment
                                              of the inference proved sound by `infer_sound_fragment`
                                              (`<program>` in the exchange syntax of Core/RefSem/Parse.lean;
                                              `ok|nil` = the type of the value flowing into the first chain)
                                                                               → ok <type id> [<reference value>] | outside
                                              (the reference value — `evalProgram` on the ELABORATED
                                              program — is printed when `env` is empty)
Bindings are printed sorted by (interned) name. Everything else answers `bad-request`.
-/
open QM QM.Types QM.Soundness

structure C01State where
  table : Table := ⟨[], []⟩
  scratch : Table := ⟨[], []⟩

def rulesOfSx : Sx → Option Rules
  | .atom "cur" => some Rules.current
  | .atom "old" => some Rules.beforeF6
  | .atom "strict-cycle" => some { cycle := .strict }
  | .atom "old-merge" => some Rules.beforeMergeFix
  | .atom "shared-names" => some Rules.sharedNames
  | _ => none

def guardFuel (T : Table) : Nat := 4 * (T.types.length + T.tuples.length) + 64

mutual
def vDepth : V → Nat
  | .tup _ fs => vfDepth fs + 1
  | _ => 1
def vfDepth : VFields → Nat
  | .nil => 0
  | .cons _ v rest => max (vDepth v) (vfDepth rest)
end

/-- every `inhB` step either descends into the value or moves along a type-only edge (union
variant, cycle target); on a contractive table at most `#types` type-only steps separate two
descents. Answer `fuel-out` when doubling the fuel changes a negative answer. -/
def inhAnswer (T : Table) (t : Nat) (v : V) : String :=
  let f := (vDepth v + 1) * (T.types.length + 2) + 64
  if inhB T f [] t v then "true"
  else if inhB T (2 * f) [] t v then "fuel-out"
  else "false"

def insertSorted (p : Name × Nat) : List (Name × Nat) → List (Name × Nat)
  | [] => [p]
  | q :: rest => if p.1 ≤ q.1 then p :: q :: rest else q :: insertSorted p rest

def renderBindings (b : Bindings) : String :=
  String.join ((b.foldr insertSorted []).map (fun p => s!" ({p.1} {p.2})"))

def renderURes (T : Table) : URes → String
  | none => "fuel-out"
  | some (T', none) => "fail " ++ Table.renderNew T T'
  | some (T', some b) => "ok (bindings" ++ renderBindings b ++ ") " ++ Table.renderNew T T'

def c01Step (s : C01State) (req : List Sx) : C01State × String :=
  match req with
  | [x@(.list (.atom "table" :: _))] =>
    match Table.ofSx x with
    | some T => ({ s with table := T, scratch := T }, s!"ok {T.types.length} {T.tuples.length}")
    | none => (s, "bad-request")
  | [.list [.atom "unify", p, a]] =>
    match p.asNat, a.asNat with
    | some p, some a =>
      let f := guardFuel s.table
      let r := unify f f s.table [] p a
      let s' := match r with
        | some (T', _) => { s with scratch := T' }
        | none => s
      (s', renderURes s.table r)
    | _, _ => (s, "bad-request")
  | [.list [.atom "unify-old", p, a]] =>
    match p.asNat, a.asNat with
    | some p, some a =>
      let f := guardFuel s.table
      (s, renderURes s.table (unifyAnyVariant f f s.table [] p a))
    | _, _ => (s, "bad-request")
  | [.list (.atom "subst" :: rest)] =>
    match rest.reverse with
    | t :: bsRev =>
      let bs : Option Bindings := listMapM (fun x =>
        match x with
        | Sx.list [n, i] => match n.asNat, i.asNat with
          | some n, some i => some (n, i)
          | _, _ => none
        | _ => none) bsRev.reverse
      match t.asNat, bs with
      | some t, some bs =>
        match substitute bs (guardFuel s.scratch) s.scratch t with
        | some (T', r) => ({ s with scratch := T' }, s!"ok {r} " ++ Table.renderNew s.scratch T')
        | none => (s, "fuel-out")
      | _, _ => (s, "bad-request")
    | [] => (s, "bad-request")
  | [.list [.atom "call", rs, p, r, a]] =>
    match rulesOfSx rs, p.asNat, r.asNat, a.asNat with
    | some rules, some p, some r, some a =>
      match callGuard rules (guardFuel s.table) s.table p r a with
      | .accept T' res => ({ s with scratch := T' }, s!"accept {res} " ++ Table.renderNew s.table T')
      | .reject T' => ({ s with scratch := T' }, "reject")
      | .fuelOut => (s, "fuel-out")
    | _, _, _, _ => (s, "bad-request")
  | [.list [.atom "inh-scratch", t, v]] =>
    match t.asNat, V.ofSx v with
    | some t, some v => (s, inhAnswer s.scratch t v)
    | _, _ => (s, "bad-request")
  | [.list [.atom "compat", a, p]] =>
    match a.asNat, p.asNat with
    | some a, some p => (s, renderOptBool (isCompatible s.table (guardFuel s.table) a p))
    | _, _ => (s, "bad-request")
  | [.list [.atom "hasvars", t]] =>
    match t.asNat with
    | some t => (s, renderOptBool (containsVariables s.table (guardFuel s.table) t))
    | none => (s, "bad-request")
  | [.list (.atom "seq" :: flags)] =>
    match listMapM (fun x => match x with | Sx.atom "1" => some true | Sx.atom "0" => some false | _ => none) flags with
    | some own => (s, if seqNilable .accumulated own then "nil" else "no-nil")
    | none => (s, "bad-request")
  | [.list [.atom "field", t, n]] =>
    match t.asNat, n.asNat with
    | some t, some n =>
      match getFieldByName s.table (guardFuel s.table) t n with
      | .ok idx tys =>
        let rid := (unionIds s.table tys).2
        (s, s!"ok {idx} {rid} (" ++ " ".intercalate (tys.map toString) ++ ")")
      | .nonTuple => (s, "non-tuple")
      | .notFound => (s, "not-found")
      | .fuelOut => (s, "fuel-out")
    | _, _ => (s, "bad-request")
  | [.list [.atom "inh", t, v]] =>
    match t.asNat, V.ofSx v with
    | some t, some v => (s, inhAnswer s.table t v)
    | _, _ => (s, "bad-request")
  | [.list [.atom "infer", .list (.atom "names" :: ns), .list (.atom "env" :: es), .atom flowKind, prog]] =>
    let names := listMapM (fun x => match x with
      | Sx.list [.atom n, k] => k.asNat.map (fun k => (n, k))
      | _ => none) ns
    let env := listMapM (fun x => match x with
      | Sx.list [.atom n, k] => k.asNat.map (fun k => (n, k))
      | _ => none) es
    match names, env, QM.RefSem.parseProgram prog with
    | some names, some env, some cs =>
      -- names the table does not know are interned injectively above the known ones
      let nm : String → Nat := fun n =>
        match List.lookup n names with
        | some k => k
        | none => 1000003 + n.foldl (fun a ch => a * 1114112 + ch.toNat + 1) 0
      let c : Ctx := ⟨{ fuel := guardFuel s.table }, s.table, nm, []⟩
      let ft := if flowKind = "ok" then okTy c else nilTy c
      match ft with
      | some ft =>
        match inferSeq c env ft cs with
        | some (t, cs') =>
          if env.isEmpty then (s, s!"ok {t} " ++ QM.RefSem.renderRes (QM.RefSem.evalProgram 400 cs'))
          else (s, s!"ok {t}")
        | none => (s, "outside")
      | none => (s, "outside")
    | _, _, _ => (s, "bad-request")
  | _ => (s, "bad-request")

def main : IO Unit := sxLoop c01Step {}
