import QuiverModel.Core.Packaging.Codec
import QuiverModel.Lemmas.Packaging.Canon
import QuiverModel.Core.Packaging.TreeShake
import QuiverModel.Core.Packaging.Merge
import QuiverModel.Theorems.C10Tables
/-
qm_c10 — driver for the renaming validator (M-Packaging). Requests:
  (prog A …) / (prog B …)       store a program in slot A / B          → ok <sizes> | bad-prog <why>
  (check-renaming eA eB)         `checkRenamingExplain A B eA eB`        → ok consts=… fns=… tuples=… types=… builtins=… resources=…
                                                                          | reject <where> <why>
  (check-identity e)             `checkRenamingExplain A A e e`          → same (sanity: every program renames to itself)
  (prog C …) + (merge e)         `mergeBytecode C A e` vs slot B = the environment's program after merge_bytecode(A) → equal entry=… validate=… | differs <table> | none
  (shake-hypotheses e fuel)      hypotheses of treeShake_preserves_behaviour_computed on (A, B) → hyp all=… tables-computed-A=… …
  (shake e)                      `treeShake A e` vs slot B = real tree_shake(A, e)  → equal entry=… validate=… | differs <table> | none
  (inject f V…)                  `injectCaptures A f caps`               → ok g=… fns=… instrs=(…) consts=(…) | none
  (v2i V)                        `v2iA A v`                              → ok instrs=(…) consts=(…) | none
The driver calls the definitions `Theorems/C10.lean` is about (`recover`, `validateB` through
`checkRenamingExplain`; `C10.checkRenamingExplain_ok_iff` ties it to `checkRenaming`).
-/
open QM QM.Packaging QM.Packaging.Codec

structure C10State where
  a : Option Prog := none
  b : Option Prog := none
  /-- slot C: the environment's program BEFORE a merge -/
  c : Option Prog := none
  /-- `canonComputedB` is quadratic in the number of tuples: only programs up to this size are checked
      (`(canon-limit n)`; the harness raises it in the thorough tier) -/
  canonLimit : Nat := 120

def sizes (limit : Nat) (P : Prog) : String :=
  let cc := if P.canon.isEmpty || P.tuples.size > limit then "skipped" else toString P.canonComputedB
  s!"consts={P.consts.size} fns={P.fns.size} builtins={P.builtins.size} tuples={P.tuples.size} types={P.types.size} canon-computed={cc}"

def answer (P P' : Prog) (e e' : Nat) : String :=
  match checkRenamingExplain P P' e e' with
  | .ok ρ => s!"ok consts={ρ.const.length} fns={ρ.fn.length} tuples={ρ.tuple.length} types={ρ.type.length} builtins={ρ.builtin.length} resources={ρ.resource.length} exempt={exemptCount ρ P P'} strict={strictB ρ P P'}"
  | .error msg => s!"reject {msg}"

def tyCtorName : Ty → String
  | .int => "int" | .bin => "bin" | .ref => "ref" | .tuple _ => "tuple" | .part _ _ => "partial"
  | .callable _ _ _ => "callable" | .cycle _ => "cycle" | .union _ => "union" | .process _ _ => "process"
  | .resource _ => "resource" | .var _ => "var"

/-- Coverage statistics of one shake: for every KEPT type, its constructor, whether its own index moved
    (`m`) and whether the ids it carries were rewritten (`w`). One token per kept type whose index moved
    or whose contents changed: `partial:mw`, `int:m`, … (comma separated; `-` when nothing moved). -/
def renumberStats (P : Prog) (ρ : Ren) : String :=
  let toks := ρ.type.filterMap (fun (p : Nat × Nat) =>
    match P.types[p.1]? with
    | some τ =>
      let moved := p.1 != p.2
      let rewritten := renameTy ρ τ != some τ
      if moved || rewritten then
        some s!"{tyCtorName τ}:{if moved then "m" else ""}{if rewritten then "w" else ""}"
      else none
    | none => none)
  if toks.isEmpty then "-" else ",".intercalate toks

/-- `SrcWf` (Lemmas/Packaging/MergeLoops.lean) decided: operands in range, backward function references, no
    `Process` literal -/
def srcWfB (P : Prog) : Bool :=
  (List.range P.fns.size).all (fun i =>
    match P.fns[i]? with
    | some F =>
      decide (F.typeId < P.types.size) &&
      F.instrs.all (fun a =>
        match a with
        | .const c => decide (c < P.consts.size)
        | .tuple u => decide (u < P.tuples.size)
        | .isType t => decide (t < P.types.size)
        | .builtin b => decide (b < P.builtins.size)
        | .function g => decide (g < i)
        | .process _ _ => false
        | _ => true)
    | none => true)

/-- ranks for `Stratified`: relax `rank(referrer) > rank(referent)` until nothing changes (at most `size` rounds;
    `none` = still changing, i.e. a reference cycle) -/
def stratRanks (P : Prog) : Option (Array Nat × Array Nat) :=
  let nT := P.types.size
  let nU := P.tuples.size
  let step (r : Array Nat × Array Nat) : Array Nat × Array Nat :=
    let rT := (List.range nT).foldl (fun (acc : Array Nat) (t : Nat) =>
      match P.types[t]? with
      | some (Ty.tuple u) => acc.setIfInBounds t (Nat.max (acc.getD t 0) ((r.2.getD u 0) + 1))
      | some τ => acc.setIfInBounds t ((tyChildren τ).foldl (fun m x => Nat.max m ((acc.getD x 0) + 1)) (acc.getD t 0))
      | none => acc) r.1
    let rU := (List.range nU).foldl (fun (acc : Array Nat) (u : Nat) =>
      match P.tuples[u]? with
      | some T => acc.setIfInBounds u (T.fields.foldl (fun m p => Nat.max m ((rT.getD p.2 0) + 1)) (acc.getD u 0))
      | none => acc) r.2
    (rT, rU)
  let rec go : Nat → Array Nat × Array Nat → Option (Array Nat × Array Nat)
    | 0, _ => none
    | n + 1, r =>
      let r' := step r
      if r' == r then some r else go n r'
  go (nT + nU + 2) (Array.replicate nT 0, Array.replicate nU 0)

/-- `Stratified P rT rU` for the computed ranks, decided clause by clause -/
def stratifiedB (P : Prog) : Bool :=
  match stratRanks P with
  | none => false
  | some (rT, rU) =>
    (List.range P.types.size).all (fun (t : Nat) =>
      match P.types[t]? with
      | some (Ty.tuple u) => decide (rU.getD u 0 < rT.getD t 0)
      | some τ => (tyChildren τ).all (fun x => decide (rT.getD x 0 < rT.getD t 0))
      | none => true) &&
    (List.range P.tuples.size).all (fun (u : Nat) =>
      match P.tuples[u]? with
      | some T => T.fields.all (fun p => decide (rT.getD p.2 0 < rU.getD u 0))
      | none => true)

/-- the remaining hypotheses of `C10.merge_isRenaming` about (environment `E`, source `P`, merge output) -/
def mergeHypotheses (E P : Prog) (out : MergeOut) : String :=
  let dedup := decide (P.consts.toList.Nodup) && decide (P.fns.toList.Nodup) && decide (P.types.toList.Nodup) &&
    decide (P.tuples.toList.Nodup) && decide ((P.builtins.toList.map (·.name)).Nodup)
  let fix := (List.range 2).all (fun (i : Nat) =>
    match P.tuples[i]?, E.tuples[i]? with
    | some T, some T' => T == T' && T.fields.isEmpty
    | _, _ => false)
  let outNodup := decide (out.prog.tuples.toList.Nodup)
  let btypes := out.ren.builtin.all (fun (p : Nat × Nat) =>
    match P.builtins[p.1]?, out.prog.builtins[p.2]? with
    | some B, some B' => out.ren.type.get B.paramType == some B'.paramType &&
        out.ren.type.get B.resultType == some B'.resultType
    | _, _ => true)
  let strat := stratifiedB P
  s!"dedup={dedup} nil-ok={fix} out-tuples-nodup={outNodup} builtin-types={btypes} stratified={strat}"

def c10Step (st : C10State) (req : List Sx) : C10State × String :=
  match req with
  | [.list (.atom "prog" :: .atom slot :: parts)] =>
    match parseProg parts with
    | .error e => (st, s!"bad-prog {e}")
    | .ok P =>
      if slot == "A" then ({ st with a := some P }, s!"ok {sizes st.canonLimit P}")
      else if slot == "B" then ({ st with b := some P }, s!"ok {sizes st.canonLimit P}")
      else if slot == "C" then ({ st with c := some P }, s!"ok {sizes 0 P}")
      else (st, "bad-request")
  | [.list [.atom "canon-limit", n]] =>
    match n.asNat with
    | some n => ({ st with canonLimit := n }, "ok")
    | none => (st, "bad-request")
  | [.list [.atom "check-renaming", ea, eb]] =>
    match st.a, st.b, ea.asNat, eb.asNat with
    | some P, some P', some e, some e' => (st, answer P P' e e')
    | _, _, _, _ => (st, "bad-request")
  | [.list [.atom "check-identity", ea]] =>
    match st.a, ea.asNat with
    | some P, some e => (st, answer P P e e)
    | _, _ => (st, "bad-request")
  | [.list [.atom "merge", ea]] =>
    -- `mergeBytecode C A e` compared with slot B (the environment's real program after merging A into C)
    match st.a, st.b, st.c, ea.asNat with
    | some P, some R, some E, some e =>
      match mergeBytecode E P e with
      | none => (st, "none")
      | some out =>
        match bytecodeDiff out.prog R with
        | some field => (st, s!"differs {field} entry={out.entry}")
        | none =>
          let v := validateB { out.ren with resource := resourceMap P R } P R e out.entry
          let why := if v then "" else s!" failing={(firstFailing (checks { out.ren with resource := resourceMap P R } P R e out.entry)).getD "?"}"
          let kd := distinctB (out.ren.type.map (·.1)) && distinctB (out.ren.tuple.map (·.1))
          (st, s!"equal entry={out.entry} validate={v}{why} keys-distinct={kd} src-wf={srcWfB P} {mergeHypotheses E P out}")
    | _, _, _, _ => (st, "bad-request")
  | [.list [.atom "shake", ea]] =>
    -- `treeShake A e` compared with slot B (the real `tree_shake(A, e)`), field by field, and the
    -- model's OWN remap tables validated against B's run-time tables
    match st.a, st.b, ea.asNat with
    | some P, some R, some e =>
      match treeShake P e with
      | none => (st, "none")
      | some out =>
        match bytecodeDiff out.prog R with
        | some field => (st, s!"differs {field} entry={out.entry}")
        | none =>
          let v := validateB out.ren P R e out.entry
          let why := if v then "" else s!" failing={(firstFailing (checks out.ren P R e out.entry)).getD "?"}"
          -- T2 per instance: shaking the shaken program returns it unchanged, with the identity renaming
          let idem := match treeShake out.prog out.entry with
            | some o2 => (bytecodeDiff o2.prog out.prog).isNone && o2.entry == out.entry &&
                o2.ren.fn.all (fun p => p.1 == p.2) && o2.ren.type.all (fun p => p.1 == p.2)
            | none => false
          (st, s!"equal entry={out.entry} validate={v}{why} idempotent={idem} kept-fns={out.marks.fns.length} kept-types={out.marks.types.length} renumbered={renumberStats P out.ren}")
    | _, _, _ => (st, "bad-request")
  | [.list [.atom "shake-hypotheses", ea, fa]] =>
    -- the hypotheses of `C10.treeShake_preserves_behaviour_computed` for A (original, real tables) and
    -- B (shaken as loaded, real tables), decided on every tag in range
    match st.a, st.b, ea.asNat, fa.asNat with
    | some P, some R, some e, some fuel => (st, C10.shakeHypotheses fuel P R e)
    | _, _, _, _ => (st, "bad-request")
  | [.list (.atom "inject" :: f :: caps)] =>
    -- `Program::inject_function_captures(f, caps)` on slot A (model: `injectCaptures`)
    match st.a, f.asNat, mapOpt parseVal caps with
    | some P, some f, some caps =>
      match injectCaptures P f caps with
      | none => (st, "none")
      | some (P2, g) =>
        let instrs := match P2.fns[g]? with
          | some G => " ".intercalate (G.instrs.map renderInstr)
          | none => "?"
        let consts := " ".intercalate (P2.consts.toList.map renderConst)
        (st, s!"ok g={g} fns={P2.fns.size} instrs=({instrs}) consts=({consts})")
    | _, _, _ => (st, "bad-request")
  | [.list [.atom "v2i", v]] =>
    -- `value_to_instructions_from_cache` on slot A (model: `v2iA`)
    match st.a, parseVal v with
    | some P, some v =>
      match v2iA P v with
      | none => (st, "none")
      | some (P1, is) =>
        (st, s!"ok instrs=({" ".intercalate (is.map renderInstr)}) consts=({" ".intercalate (P1.consts.toList.map renderConst)})")
    | _, _ => (st, "bad-request")
  | _ => (st, "bad-request")

def main : IO Unit := sxLoop c10Step {}
