import QuiverModel.Core.Packaging.Codec
/-
qm_c10 — driver for the renaming validator (M-Packaging). Requests:
  (prog A …) / (prog B …)       store a program in slot A / B          → ok <sizes> | bad-prog <why>
  (check-renaming eA eB)         `checkRenamingExplain A B eA eB`        → ok consts=… fns=… tuples=… types=… builtins=… resources=…
                                                                          | reject <where> <why>
  (check-identity e)             `checkRenamingExplain A A e e`          → same (sanity: every program renames to itself)
The driver calls the definitions `Theorems/C10.lean` is about (`recover`, `validateB` through
`checkRenamingExplain`; `C10.checkRenamingExplain_ok_iff` ties it to `checkRenaming`).
-/
open QM QM.Packaging QM.Packaging.Codec

structure C10State where
  a : Option Prog := none
  b : Option Prog := none

def sizes (P : Prog) : String :=
  s!"consts={P.consts.size} fns={P.fns.size} builtins={P.builtins.size} tuples={P.tuples.size} types={P.types.size}"

def answer (P P' : Prog) (e e' : Nat) : String :=
  match checkRenamingExplain P P' e e' with
  | .ok ρ => s!"ok consts={ρ.const.length} fns={ρ.fn.length} tuples={ρ.tuple.length} types={ρ.type.length} builtins={ρ.builtin.length} resources={ρ.resource.length} exempt={exemptCount ρ P P'} strict={strictB ρ P P'}"
  | .error msg => s!"reject {msg}"

def c10Step (st : C10State) (req : List Sx) : C10State × String :=
  match req with
  | [.list (.atom "prog" :: .atom slot :: parts)] =>
    match parseProg parts with
    | .error e => (st, s!"bad-prog {e}")
    | .ok P =>
      if slot == "A" then ({ st with a := some P }, s!"ok {sizes P}")
      else if slot == "B" then ({ st with b := some P }, s!"ok {sizes P}")
      else (st, "bad-request")
  | [.list [.atom "check-renaming", ea, eb]] =>
    match st.a, st.b, ea.asNat, eb.asNat with
    | some P, some P', some e, some e' => (st, answer P P' e e')
    | _, _, _, _ => (st, "bad-request")
  | [.list [.atom "check-identity", ea]] =>
    match st.a, ea.asNat with
    | some P, some e => (st, answer P P e e)
    | _, _ => (st, "bad-request")
  | _ => (st, "bad-request")

def main : IO Unit := sxLoop c10Step {}
