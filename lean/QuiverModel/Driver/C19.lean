import QuiverModel.Core.Prelude
import QuiverModel.Core.Dict
/-
qm_c19 — driver for M-Dict (`QuiverModel/Core/Dict.lean`), instantiated at `K := Key` (binary or
`Str[bin]`), `V := Int`, `hash := keyHash` (FNV-1a 32-bit of the key bytes) and fuel `defaultFuel`.
It holds a numbered store of dict versions; version 0 is `%dict.new`. Requests (one per line):

  reset                         → ok            (store := [new])
  hash  <key>                   → <nat>
  put   <ver> <key> <int>       → ok <newver> | fuel-out
  remove <ver> <key>            → ok <newver>
  from  (<key> <int>) …         → ok <newver> | fuel-out
  merge <a> <b>                 → ok <newver> | fuel-out
  get   <ver> <key>             → <value> | nil
  has   <ver> <key>             → ok | nil
  count <ver>                   → i<n>
  entries|keys|values <ver>     → the Cons/Nil list, canonical syntax
  tree  <ver>                   → the trie, canonical syntax

<key> is `b<hex>` (binary) or `s<hex>` (`Str[binary]`); the empty binary is `b` / `s`.
Canonical syntax is that of `qverif::canon`: `i<dec>`, `b<hex>`, `t(<name|_>;_=<v>,…)`.
-/
open QM QM.Dict

namespace C19Driver

abbrev D := Dict Key Int

def parseKey (s : String) : Option Key :=
  match s.toList with
  | 'b' :: rest => (parseHex (String.ofList rest)).map Key.bin
  | 's' :: rest => (parseHex (String.ofList rest)).map Key.str
  | _ => none

def cKey : Key → String
  | .bin b => "b" ++ toHex b
  | .str b => "t(Str;_=b" ++ toHex b ++ ")"

def cInt (i : Int) : String := "i" ++ toString i

def cList {α : Type} (f : α → String) : List α → String
  | [] => "t(Nil;)"
  | h :: t => "t(Cons;_=" ++ f h ++ ",_=" ++ cList f t ++ ")"

def cEntry (e : Key × Int) : String := "t(_;_=" ++ cKey e.1 ++ ",_=" ++ cInt e.2 ++ ")"

partial def cTree : D → String
  | .empty => "t(Empty;)"
  | .leaf h k v => "t(Leaf;_=i" ++ toString h ++ ",_=" ++ cKey k ++ ",_=" ++ cInt v ++ ")"
  | .collision h es => "t(Collision;_=i" ++ toString h ++ ",_=" ++ cList cEntry es ++ ")"
  | .node b cs => "t(Node;_=i" ++ toString b ++ ",_=" ++ cList cTree cs ++ ")"

structure St where
  store : Array D := #[Dict.empty]

def push (s : St) (d : D) : St × String :=
  ({ store := s.store.push d }, "ok " ++ toString s.store.size)

def parsePairs : List Sx → Option (List (Key × Int))
  | [] => some []
  | .list [.atom k, .atom v] :: rest =>
    match parseKey k, v.toInt?, parsePairs rest with
    | some k, some v, some r => some ((k, v) :: r)
    | _, _, _ => none
  | _ => none

def step (s : St) (req : List Sx) : St × String :=
  let ver (a : String) : Option D := a.toNat?.bind (fun i => s.store[i]?)
  match req with
  | [.atom "reset"] => ({}, "ok")
  | [.atom "hash", .atom k] =>
    match parseKey k with
    | some k => (s, toString (keyHash k))
    | none => (s, "bad-request")
  | [.atom "put", .atom v, .atom k, .atom x] =>
    match ver v, parseKey k, x.toInt? with
    | some d, some k, some x =>
      match Api.put keyHash defaultFuel d k x with
      | some d' => push s d'
      | none => (s, "fuel-out")
    | _, _, _ => (s, "bad-request")
  | [.atom "remove", .atom v, .atom k] =>
    match ver v, parseKey k with
    | some d, some k => push s (Api.remove keyHash d k)
    | _, _ => (s, "bad-request")
  | .atom "from" :: pairs =>
    match parsePairs pairs with
    | some ps =>
      match Api.from keyHash defaultFuel ps with
      | some d' => push s d'
      | none => (s, "fuel-out")
    | none => (s, "bad-request")
  | [.atom "merge", .atom a, .atom b] =>
    match ver a, ver b with
    | some da, some db =>
      match Api.merge keyHash defaultFuel da db with
      | some d' => push s d'
      | none => (s, "fuel-out")
    | _, _ => (s, "bad-request")
  | [.atom "get", .atom v, .atom k] =>
    match ver v, parseKey k with
    | some d, some k =>
      match Api.get keyHash d k with
      | some x => (s, cInt x)
      | none => (s, "nil")
    | _, _ => (s, "bad-request")
  | [.atom "has", .atom v, .atom k] =>
    match ver v, parseKey k with
    | some d, some k => (s, if Api.has keyHash d k then "ok" else "nil")
    | _, _ => (s, "bad-request")
  | [.atom "count", .atom v] =>
    match ver v with
    | some d => (s, cInt (Api.count d))
    | none => (s, "bad-request")
  | [.atom "entries", .atom v] =>
    match ver v with
    | some d => (s, cList cEntry (Api.entries d))
    | none => (s, "bad-request")
  | [.atom "keys", .atom v] =>
    match ver v with
    | some d => (s, cList cKey (Api.keys d))
    | none => (s, "bad-request")
  | [.atom "values", .atom v] =>
    match ver v with
    | some d => (s, cList cInt (Api.values d))
    | none => (s, "bad-request")
  | [.atom "tree", .atom v] =>
    match ver v with
    | some d => (s, cTree d)
    | none => (s, "bad-request")
  | _ => (s, "bad-request")

end C19Driver

def main : IO Unit := sxLoop C19Driver.step {}
