import QuiverModel.Core.Types.Basic
/-
A reference variant of the type relation for the harnesses of C08 / C09. It is NOT part of the model
of the code and no theorem mentions it: the drivers answer `compatT` requests with it so that the
harness can name the mechanism of an unsound verdict on recursive types (notes/C09.md).
-/
namespace QM.Types

/-- NOT the code: `checkRel` except that a resolved `Cycle` continues with the stack that encloses
the boundary it points to (`drop d`, as `inhB` does) instead of the stack of the place where the
back-reference stood. The harness asks for it to classify an unsound verdict on recursive types: when
this variant refuses the pair, the acceptance came from back-references counted on a stack that still
held the types between the reference and its target (notes/C09.md, open defect "resolved cycle keeps
the inner stack"). No theorem is about this function. -/
def checkRelT (T : Table) (mode : Mode) : Nat → Asm → Stk → Nat → Nat → Res
  | 0, _, _, _, _ => none
  | fuel + 1, asm, st, a, b =>
    if a = b ∧ sameContext {} mode st = true then some (true, asm)
    else if asm.contains (a, b) then some (true, asm)
    else
      match T.types[a]?, T.types[b]? with
      | some ta, some tb =>
        match ta, tb with
        | .union [], _ => relStep {} T mode (checkRelT T mode fuel) asm st a b ta tb
        | .variable _, _ => some (true, asm)
        | _, .variable _ => some (true, asm)
        | .cycle d, _ =>
          match resolveCycle st.l d with
          | none => some (true, asm)
          | some sid => checkRelT T mode fuel asm { st with l := st.l.drop d } sid b
        | _, .cycle d =>
          match resolveCycle st.r d with
          | none => some (true, asm)
          | some sid => checkRelT T mode fuel asm { st with r := st.r.drop d } a sid
        | _, _ => relStep {} T mode (checkRelT T mode fuel) asm st a b ta tb
      | _, _ => some (false, asm)

end QM.Types
