import QuiverModel.Core.Prelude
import QuiverModel.Core.Repl.Basic
/-
qm_c11 — driver for M-Repl. Values are opaque tokens (atoms). Requests:
  (reset <nil-token> <nil-type-token>)                                          → state
  (line parse-error) | (line compile-error m…)                  → state   (m… = modules the rejected line mentions)
  (line no-code (bindings (x i)…) (imports m…))                 → state
  (line ran (bindings (x i)…) (appended tok…) (result tok tytok) (imports m…)) → state, after checking the line assumptions
  (lookup x)                                                    → val <tok> | unbound
answer `state`:  b=x:i,y:j l=tok,tok,… arg=tok ty=tytok mc=m,m,… viol=<none|…>
`viol` lists violated assumptions of `C11.runLine_preserves_aligned` about the submitted line:
  old:<x>:<observed>:<predicted>   a binding below the compacted length whose index is not the one `compact` predicts
  range:<x>:<i>                    a binding index beyond compacted + appended locals
The driver calls `QM.Repl.runLine` / `compact` / `lookup` — the definitions `Theorems/C11.lean` is about.
-/
open QM QM.Repl

structure C11State where
  s : Session String := { bindings := [], locals := [], lastResult := "nil" }
  nil : String := "nil"

def renderState (s : Session String) (viol : List String) : String :=
  let b := ",".intercalate (s.bindings.map (fun p => s!"{p.1}:{p.2}"))
  let l := ",".intercalate s.locals
  let v := if viol.isEmpty then "none" else ";".intercalate viol
  let mc := ",".intercalate s.moduleCache
  s!"b={b} l={l} arg={nextArgument s} ty={s.lastResultTy} mc={mc} viol={v}"

def parseBinding : Sx → Option (String × Nat)
  | .list [.atom x, i] => i.asNat.map (fun i => (x, i))
  | _ => none

def parseBindings (xs : List Sx) : Option (List (String × Nat)) :=
  xs.foldr (fun x acc => match parseBinding x, acc with
    | some b, some bs => some (b :: bs)
    | _, _ => none) (some [])

def atoms (xs : List Sx) : Option (List String) :=
  xs.foldr (fun x acc => match x.asAtom, acc with
    | some a, some as => some (a :: as)
    | _, _ => none) (some [])

/-- The assumptions of `runLine_preserves_aligned` that can be checked from indices alone. -/
def lineViolations (c : Session String) (eff : LineEffect String) : List String :=
  let n := c.locals.length
  eff.bindings.filterMap (fun p =>
    if p.2 < n then
      match c.bindings.lookup p.1 with
      | some j => if j == p.2 then none else some s!"old:{p.1}:{p.2}:{j}"
      | none => some s!"old:{p.1}:{p.2}:unbound"
    else if p.2 < n + eff.appended.length then none
    else some s!"range:{p.1}:{p.2}")

def c11Step (st : C11State) (req : List Sx) : C11State × String :=
  match req with
  | [.list [.atom "reset", .atom nil, .atom ty]] =>
    let s : Session String := { bindings := [], locals := [], lastResult := nil, lastResultTy := ty }
    ({ s := s, nil := nil }, renderState s [])
  | [.list [.atom "line", .atom "parse-error"]] =>
    let s := runLine st.nil st.s .parseError
    ({ st with s := s }, renderState s [])
  | [.list (.atom "line" :: .atom "compile-error" :: att)] =>
    match atoms att with
    | some att =>
      let s := runLine st.nil st.s (.compileError att)
      ({ st with s := s }, renderState s [])
    | none => (st, "bad-request")
  | [.list [.atom "line", .atom "no-code", .list (.atom "bindings" :: bs), .list (.atom "imports" :: im)]] =>
    match parseBindings bs, atoms im with
    | some b, some im =>
      let s := runLine st.nil st.s (.noCode b im)
      ({ st with s := s }, renderState s [])
    | _, _ => (st, "bad-request")
  | [.list [.atom "line", .atom "ran", .list (.atom "bindings" :: bs), .list (.atom "appended" :: app),
            .list [.atom "result", .atom r, .atom ty], .list (.atom "imports" :: im)]] =>
    match parseBindings bs, atoms app, atoms im with
    | some b, some app, some im =>
      let eff : LineEffect String := { bindings := b, appended := app, result := r, resultTy := ty, imports := im }
      let viol := lineViolations (compact st.s) eff
      let s := runLine st.nil st.s (.ran eff)
      ({ st with s := s }, renderState s viol)
    | _, _, _ => (st, "bad-request")
  | [.list [.atom "lookup", .atom x]] =>
    match lookup st.s x with
    | some v => (st, s!"val {v}")
    | none => (st, "unbound")
  | _ => (st, "bad-request")

def main : IO Unit := sxLoop c11Step {}
