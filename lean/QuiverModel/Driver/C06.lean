import QuiverModel.Core.Prelude
import QuiverModel.Core.Heap.Select
/-
qm_c06 — driver for M-Heap. One executor state; requests (S-expressions, one per line):

  (init)
  (config dead-roots 0|1)                      model the repair of F17 (source contains release_dead_roots)
  (config select-waits 0|1)                    model notes/C05-fixes/01 (source has SelectState.unanswered)
  (notify-pending awaiter awaited)             notify_pending (the answer "not finished yet")
  (program (canon n*) (builtins name*))        tables used by `equal` and builtin calls
  (receivers (fcompat (fid kind*)*) (empty fid*))  parameter compatibility / body-less functions (select)
  (i pid (select now))                         a `Select` instruction at clock `now` (stepSelect)
  (notify-failure awaiter awaited)             notify_failure (recorded in `awaiting_failed`)
  (spawn-process id fi|none (v*) v (hex*) 0|1) spawn_process(id, fi, captures, argument, heap, persistent)
  (i pid INSTR)                                one instruction incl. the Err arm (stepInstr)
  (popframe pid) (finish pid) (ppf)            bookkeeping of `step`
  (notify-message id v (hex*)) (notify-result awaiter awaited v (hex*)) (notify-spawn id pid fn)
  (notify-effect pid v|err (hex*)) (resume id fi) (compact pid (n*)) (orphans pid (n*)) (materialize idx)
  choke-point level, with a register file of held (uncounted) handles:
  (alloc hex) (push pid reg) (pop pid) (pushlocal pid reg) (truncate pid n) (replace pid (reg*)) (drop reg)
  (extract reg) (inject v (hex*))              transfer by copy (inject puts the handle in a register)
  (view) (check) (value pid)                   canonical heap view / model check_refcounts / result of pid

INSTR ::= (const-int idx z) | (const-bin idx hex) | (const-undef idx) | pop | dup | (pick n) | (rotate n)
        | (load i) | store | (tuple tid size|none) | (get i) | (istype tid 0|1) | (jump t) | (jumpif t)
        | call | (tailcall 0|1) | (function fi caps|none) | (reset i) | (builtin i 0|1) | (equal n) | not
        | spawn | send | (self fn|none) | (procref pid fn)
v     ::= (i z) | (h n) | (c n) | (r n) | (t id v*) | (f id v*) | (bi id) | (p pid fn) | (res a b)

Every answer is `<outcome> | <view>`; the view is the multiset (sorted) of `hex:count:reach` over
the un-freed slots, then `free= pending= size=` and the ghost fields. Slot numbers never appear.
-/
open QM QM.Heap QM.Heap.State

structure DState where
  s : State := {}
  regs : List Val := []
  canon : List Nat := []
  builtins : List String := []
  /-- `function_param_compatibility`: function id → accepted message kinds (`int`, `bin`, `tuple`);
  a function without entry accepts everything -/
  fcompat : List (Nat × List String) := []
  /-- functions with an empty body (type-only receivers) -/
  emptyFns : List Nat := []
  /-- `awaiting_failed` of every process: (awaiter, awaited) pairs (errors carry no values) -/
  failed : List (Nat × Nat) := []
  /-- the source under test contains `release_dead_roots` (repair of F17): `finish` is followed by
  `releaseDeadRoots`, `notify-message` is `notifyMessageGuarded` -/
  deadRoots : Bool := false
  /-- the source under test has `SelectState.unanswered` (notes/C05-fixes/01): a select with process
  sources evaluates nothing until every target has been answered -/
  selectWaits : Bool := false
  /-- `select_state.unanswered` of every process: (process, target) pairs -/
  unanswered : List (Nat × Nat) := []
  deriving Inhabited

partial def parseVal : Sx → Option Val
  | .list [.atom "i", z] => z.asInt.map .int
  | .list [.atom "h", n] => n.asNat.map (fun k => .bin (.heap k))
  | .list [.atom "c", n] => n.asNat.map (fun k => .bin (.const k))
  | .list [.atom "r", n] => n.asNat.map .ref
  | .list (.atom "t" :: id :: vs) => do
      let i ← id.asNat
      let fs ← vs.mapM parseVal
      pure (.tuple i fs)
  | .list (.atom "f" :: id :: vs) => do
      let i ← id.asNat
      let fs ← vs.mapM parseVal
      pure (.func i fs)
  | .list [.atom "bi", n] => n.asNat.map .builtin
  | .list [.atom "p", a, b] => do pure (.proc (← a.asNat) (← b.asNat))
  | .list [.atom "res", a, b] => do pure (.resource (← a.asNat) (← b.asNat))
  | _ => none

def parseHexAtom : Sx → Option Bytes
  | .atom "-" => some []
  | .atom s => parseHex s
  | _ => none

def parseHexList : Sx → Option (List Bytes)
  | .list xs => xs.mapM parseHexAtom
  | _ => none

def parseNatList : Sx → Option (List Nat)
  | .list xs => xs.mapM Sx.asNat
  | _ => none

def parseOptNat : Sx → Option (Option Nat)
  | .atom "none" => some none
  | x => x.asNat.map some

def parseBool : Sx → Option Bool
  | .atom "0" => some false
  | .atom "1" => some true
  | _ => none

def parseInstr : Sx → Option Instr
  | .list [.atom "const-int", idx, z] => do pure (.constant (← idx.asNat) (some (.int (← z.asInt))))
  | .list [.atom "const-bin", idx, h] => do pure (.constant (← idx.asNat) (some (.bin (← parseHexAtom h))))
  | .list [.atom "const-undef", idx] => do pure (.constant (← idx.asNat) none)
  | .atom "pop" => some .pop
  | .atom "dup" => some .duplicate
  | .list [.atom "pick", n] => n.asNat.map .pick
  | .list [.atom "rotate", n] => n.asNat.map .rotate
  | .list [.atom "load", n] => n.asNat.map .load
  | .atom "store" => some .store
  | .list [.atom "tuple", t, sz] => do pure (.tuple (← t.asNat) (← parseOptNat sz))
  | .list [.atom "get", n] => n.asNat.map .get
  | .list [.atom "istype", t, _] => t.asNat.map .isType
  | .list [.atom "jump", n] => n.asNat.map .jump
  | .list [.atom "jumpif", n] => n.asNat.map .jumpIf
  | .atom "call" => some .call
  | .list [.atom "tailcall", b] => (parseBool b).map .tailCall
  | .list [.atom "function", fi, c] => do pure (.function (← fi.asNat) (← parseOptNat c))
  | .list [.atom "reset", n] => n.asNat.map .reset
  | .list [.atom "builtin", n, b] => do pure (.builtin (← n.asNat) (← parseBool b))
  | .list [.atom "equal", n] => n.asNat.map .equal
  | .atom "not" => some .not
  | .atom "spawn" => some .spawn
  | .atom "send" => some .send
  | .list [.atom "self", sw] => (parseOptNat sw).map .self
  | .list [.atom "procref", a, b] => do pure (.processRef (← a.asNat) (← b.asNat))
  | _ => none

/-- the flag of an `(istype tid b)` request -/
def instrFlag : Sx → Bool
  | .list [.atom "istype", _, .atom "1"] => true
  | _ => false

/-! builtins the driver computes itself (movement pattern + content), by registry name -/

def heapBytes (s : State) : Val → Option Bytes
  | .bin (.heap j) => if j < s.heap.size then some (s.bytesAt j) else none
  | _ => none

def builtinRun (s : State) (name : String) : Option BuiltinRun :=
  match name with
  | "binary_concat" => some
    { allocs := fun p => match p with
        | .tuple _ [a, b] => match heapBytes s a, heapBytes s b with
          | some x, some y => if x.length + y.length > maxBinarySize then none else some [.rope (x ++ y)]
          | _, _ => none
        | _ => none,
      result := fun _ idxs => match idxs with | [k] => some (.bin (.heap k)) | _ => none }
  | "binary_slice" => some
    { allocs := fun p => match p with
        | .tuple _ [a, .int st, .int en] => match heapBytes s a with
          | some x =>
            if st < 0 ∨ en < 0 then none
            else
              let st := st.toNat; let en := en.toNat
              if st > x.length ∨ en > x.length ∨ st > en then none
              else some [.rope ((x.drop st).take (en - st))]
          | none => none
        | _ => none,
      result := fun _ idxs => match idxs with | [k] => some (.bin (.heap k)) | _ => none }
  | "binary_new" => some
    { allocs := fun p => match p with
        | .int n => if n < 0 ∨ n.toNat > maxBinarySize then none else some [.rope (List.replicate n.toNat 0)]
        | _ => none,
      result := fun _ idxs => match idxs with | [k] => some (.bin (.heap k)) | _ => none }
  | "binary_length" => some
    { allocs := fun p => match heapBytes s p with | some _ => some [] | none => none,
      result := fun p _ => (heapBytes s p).map (fun x => .int x.length) }
  | _ => none

def kindOf : Val → String
  | .int _ => "int"
  | .bin _ => "bin"
  | .tuple _ _ => "tuple"
  | .func _ _ => "func"
  | .builtin _ => "builtin"
  | .proc _ _ => "proc"
  | .ref _ => "ref"
  | .resource _ _ => "resource"

def mkSelEnv (d : DState) (pid now : Nat) : SelEnv :=
  { now := now,
    compat := fun m src => match src with
      | .func f _ => match d.fcompat.find? (·.1 == f) with
        | some (_, kinds) => kinds.contains (kindOf m)
        | none => true
      | _ => true,
    typeOnly := fun src => match src with
      | .func f _ => d.emptyFns.contains f
      | .builtin _ => true
      | _ => false,
    failed := fun t => d.failed.contains (pid, t),
    fnExists := fun _ => true,
    run := fun id => (d.builtins[id]?).bind (builtinRun d.s) }

def selectSources (s : State) (pid : Nat) : List Val :=
  match s.getProc pid with
  | some p => match p.selectState with
    | some st => st.sources
    | none => []
  | none => []

def hasSelectState (s : State) (pid : Nat) : Bool :=
  match s.getProc pid with
  | some p => p.selectState.isSome
  | none => false

def mkEnv (d : DState) (flag : Bool) : Env :=
  { fnExists := fun _ => true,
    run := fun id => (d.builtins[id]?).bind (builtinRun d.s),
    eqv := valuesEqual (fun t => d.canon.getD t t) (fun _ => none),
    isMatch := fun _ _ => flag }

/-! rendering -/

def viewEntries (s : State) : List String :=
  let reach := s.reachable
  let es := (List.range s.heap.size).filterMap (fun i =>
    if s.isFreed i then none
    else some (s!"{toHex (s.bytesAt i)}:{s.rc i}:{if reach.contains i then 1 else 0}"))
  (es.toArray.qsort (· < ·)).toList

/-- the model's `check_refcounts` -/
def checkRefcounts (s : State) : Option Nat :=
  let reach := s.reachable
  (List.range s.heap.size).find? (fun i => (decide (0 < s.rc i)) != reach.contains i)

def renderView (s : State) : String :=
  let chk := match checkRefcounts s with | none => "ok" | some i => s!"bad@{toHex (s.bytesAt i)}"
  s!"view=({" ".intercalate (viewEntries s)}) free={s.free.length} pending={s.pendingFree.length} size={s.heap.size} check={chk} transit={s.transit.length} fresh={s.fresh.length}"

partial def renderVal (s : State) : Val → String
  | .int z => s!"(i {z})"
  | .bin (.heap j) => s!"(b {toHex (s.bytesAt j)})"
  | .bin (.const k) => s!"(c {k})"
  | .ref r => s!"(r {r})"
  | .tuple id fs => "(t " ++ toString id ++ String.join (fs.map (fun f => " " ++ renderVal s f)) ++ ")"
  | .func id fs => "(f " ++ toString id ++ String.join (fs.map (fun f => " " ++ renderVal s f)) ++ ")"
  | .builtin k => s!"(bi {k})"
  | .proc a b => s!"(p {a} {b})"
  | .resource a b => s!"(res {a} {b})"

def renderAction (s : State) : Action → String
  | .spawn c f caps a => s!"spawn {c} {f} ({" ".intercalate (caps.map (renderVal s))}) {renderVal s a}"
  | .deliver t v => s!"deliver {t} {renderVal s v}"
  | .await ts c => s!"await {ts} {c}"
  | .effect p => s!"effect {p}"

def renderOut (s : State) : Out → String
  | .ok => "ok"
  | .fail => "fail"
  | .act a => "act " ++ renderAction s a
  | .wait => "wait"

def answer (d : DState) (out : String) : DState × String := (d, out ++ " | " ++ renderView d.s)

/-- answer of a per-process request: also the number of frames of that process -/
def answerP (d : DState) (pid : Nat) (out : String) : DState × String :=
  let top := match stackOf d.s pid with
    | v :: _ => renderVal d.s v
    | [] => "-"
  (d, out ++ " | " ++ renderView d.s ++ s!" frames={(framesOf d.s pid).length} stack={(stackOf d.s pid).length} locals={(localsOf d.s pid).length} top={top}")

def c06Step (d : DState) (req : List Sx) : DState × String :=
  match req with
  | [.list [.atom "init"]] => answer { deadRoots := d.deadRoots, selectWaits := d.selectWaits } "ok"
  | [.list [.atom "config", .atom "select-waits", b]] =>
    match parseBool b with
    | some b => answer { d with selectWaits := b } "ok"
    | none => (d, "bad-request")
  | [.list [.atom "notify-pending", a, b]] =>
    -- `notify_pending`: the target's worker answered "not finished yet" (no values involved)
    match a.asNat, b.asNat with
    | some a, some b => answer { d with unanswered := d.unanswered.filter (fun e => !(e.1 == a && e.2 == b)) } "ok"
    | _, _ => (d, "bad-request")
  | [.list [.atom "config", .atom "dead-roots", b]] =>
    match parseBool b with
    | some b => answer { d with deadRoots := b } "ok"
    | none => (d, "bad-request")
  | [.list [.atom "program", .list (.atom "canon" :: cs), .list (.atom "builtins" :: bs)]] =>
    match cs.mapM Sx.asNat, bs.mapM Sx.asAtom with
    | some c, some b => answer { d with canon := c, builtins := b } "ok"
    | _, _ => (d, "bad-request")
  | [.list [.atom "receivers", .list (.atom "fcompat" :: fc), .list (.atom "empty" :: es)]] =>
    let parseEntry : Sx → Option (Nat × List String)
      | .list (f :: kinds) => do pure (← f.asNat, ← kinds.mapM Sx.asAtom)
      | _ => none
    match fc.mapM parseEntry, es.mapM Sx.asNat with
    | some fc, some es => answer { d with fcompat := fc, emptyFns := es } "ok"
    | _, _ => (d, "bad-request")
  | [.list [.atom "spawn-process", id, fi, .list caps, arg, hd, pers]] =>
    match id.asNat, parseOptNat fi, caps.mapM parseVal, parseVal arg, parseHexList hd, parseBool pers with
    | some id, some fi, some caps, some arg, some hd, some pers =>
      let (s, o) := spawnProcess d.s id fi caps arg hd pers
      answer { d with s := s } (renderOut s o)
    | _, _, _, _, _, _ => (d, "bad-request")
  | [.list [.atom "i", pid, .list [.atom "select", now]]] =>
    match pid.asNat, now.asNat with
    | some pid, some now =>
      let before := selectSources d.s pid
      let pending := d.selectWaits && d.unanswered.any (fun e => e.1 == pid)
      let (s, o) := if d.selectWaits then stepSelectWaiting (mkSelEnv d pid now) pending d.s pid
        else stepSelect (mkSelEnv d pid now) d.s pid
      -- `initialize_select` records the process sources as unanswered; the list goes with the state
      let unanswered := match o with
        | .act (.await ts _) => ts.map (fun t => (pid, t)) ++ d.unanswered.filter (fun e => e.1 != pid)
        | _ => if hasSelectState s pid then d.unanswered else d.unanswered.filter (fun e => e.1 != pid)
      let d := { d with unanswered := unanswered }
      -- `complete_select` also clears `awaiting_failed` for the process sources of the select
      let failed := if !before.isEmpty && !hasSelectState s pid
        then d.failed.filter (fun e => !(e.1 == pid && (pidTargets before).contains e.2)) else d.failed
      answerP { d with s := s, failed := failed } pid (renderOut s o)
    | _, _ => (d, "bad-request")
  | [.list [.atom "i", pid, ins]] =>
    match pid.asNat, parseInstr ins with
    | some pid, some i =>
      let (s, o) := stepInstr (mkEnv d (instrFlag ins)) d.s pid i
      answerP { d with s := s } pid (renderOut s o)
    | _, _ => (d, "bad-request")
  | [.list [.atom "notify-failure", a, b]] =>
    match a.asNat, b.asNat with
    | some a, some b =>
      let still := match d.s.getProc a with
        | some p => p.result.isNone && (aget p.awaiting b).isSome
        | none => false
      answer { d with failed := if still then (a, b) :: d.failed else d.failed,
                      unanswered := if still then d.unanswered.filter (fun e => !(e.1 == a && e.2 == b))
                                    else d.unanswered } "ok"
    | _, _ => (d, "bad-request")
  | [.list [.atom "popframe", pid]] =>
    match pid.asNat with
    | some pid => answerP { d with s := popFrame d.s pid } pid "ok"
    | none => (d, "bad-request")
  | [.list [.atom "finish", pid]] =>
    match pid.asNat with
    | some pid =>
      let (s, o) := finish d.s pid
      -- the rest of the completion block: same-executor awaiters
      let failedNow := match s.getProc pid with
        | some p => match p.result with | some .err => true | _ => false
        | none => false
      let stillAwaiting := (awaitersOf s pid).filter (fun a => match s.getProc a with
        | some p => p.result.isNone
        | none => false)
      -- (a stack underflow at completion returns early: nobody is notified)
      let notified := match o with | .fail => false | _ => true
      let failed := if failedNow && notified then stillAwaiting.map (fun a => (a, pid)) ++ d.failed else d.failed
      -- answers given by the same-executor notification: a failure always, a value when the
      -- injection with an empty heap list succeeds (the value mentions no heap slot)
      let valueStored := match s.getProc pid with
        | some p => match p.result with | some (.ok v) => v.idxs.isEmpty | _ => false
        | none => false
      let answered := if notified && (failedNow || valueStored) then stillAwaiting else []
      let unanswered := d.unanswered.filter (fun e => !(e.2 == pid && answered.contains e.1))
      let d := { d with unanswered := unanswered }
      let s := if notified then notifyAwaiters s pid else s
      let s := if d.deadRoots then releaseDeadRoots s pid else s
      let failed := if d.deadRoots then failed.filter (fun e => e.1 != pid ||
          (match s.getProc pid with | some p => p.persistent | none => false)) else failed
      answerP { d with s := s, failed := failed } pid (renderOut s o)
    | none => (d, "bad-request")
  | [.list [.atom "ppf"]] => answer { d with s := processPendingFree d.s } "ok"
  | [.list [.atom "notify-message", id, v, hd]] =>
    match id.asNat, parseVal v, parseHexList hd with
    | some id, some v, some hd =>
      let (s, o) := if d.deadRoots then notifyMessageGuarded d.s id v hd else notifyMessage d.s id v hd
      answer { d with s := s } (renderOut s o)
    | _, _, _ => (d, "bad-request")
  | [.list [.atom "notify-result", a, b, v, hd]] =>
    match a.asNat, b.asNat, parseVal v, parseHexList hd with
    | some a, some b, some v, some hd =>
      let still := match d.s.getProc a with
        | some p => p.result.isNone && (aget p.awaiting b).isSome
        | none => false
      let (s, o) := notifyResult d.s a b v hd
      -- `mark_answered` sits after the injection inside the still-awaiting branch
      let stored := still && (match o with | .fail => false | _ => true)
      let unanswered := if stored then d.unanswered.filter (fun e => !(e.1 == a && e.2 == b)) else d.unanswered
      answer { d with s := s, unanswered := unanswered } (renderOut s o)
    | _, _, _, _ => (d, "bad-request")
  | [.list [.atom "notify-spawn", id, p, f]] =>
    match id.asNat, p.asNat, f.asNat with
    | some id, some p, some f => answer { d with s := notifySpawn d.s id p f } "ok"
    | _, _, _ => (d, "bad-request")
  | [.list [.atom "notify-effect", pid, v, hd]] =>
    match pid.asNat, parseHexList hd with
    | some pid, some hd =>
      match v with
      | .atom "err" => let (s, o) := notifyEffectCompletion d.s pid none hd; answer { d with s := s } (renderOut s o)
      | v => match parseVal v with
        | some v => let (s, o) := notifyEffectCompletion d.s pid (some v) hd; answer { d with s := s } (renderOut s o)
        | none => (d, "bad-request")
    | _, _ => (d, "bad-request")
  | [.list [.atom "resume", id, fi]] =>
    match id.asNat, fi.asNat with
    | some id, some fi => let (s, o) := resumeProcess d.s id fi; answer { d with s := s } (renderOut s o)
    | _, _ => (d, "bad-request")
  | [.list [.atom "compact", pid, keep]] =>
    match pid.asNat, parseNatList keep with
    | some pid, some keep => let (s, o) := compactLocals d.s pid keep; answer { d with s := s } (renderOut s o)
    | _, _ => (d, "bad-request")
  | [.list [.atom "orphans", pid, keep]] =>
    match pid.asNat, parseNatList keep with
    | some pid, some keep =>
      let (b, s) := releaseOrphanLocals d.s pid keep
      answer { d with s := s } (if b then "ok" else "fail")
    | _, _ => (d, "bad-request")
  | [.list [.atom "materialize", idx]] =>
    match idx.asNat with
    | some idx => let (bs, s) := materialize d.s idx; answer { d with s := s } s!"bytes {toHex bs}"
    | none => (d, "bad-request")
  -- choke-point level
  | [.list [.atom "alloc", h]] =>
    match parseHexAtom h with
    | some bs =>
      match allocate d.s (.owned bs) with
      | (some idx, s) => answer { d with s := s, regs := d.regs ++ [.bin (.heap idx)] } s!"reg {d.regs.length}"
      | (none, s) => answer { d with s := s } "fail"
    | none => (d, "bad-request")
  | [.list [.atom "push", pid, r]] =>
    match pid.asNat, r.asNat.bind (fun k => d.regs[k]?) with
    | some pid, some v => answer { d with s := pushValue d.s pid v } "ok"
    | _, _ => (d, "bad-request")
  | [.list [.atom "pushlocal", pid, r]] =>
    match pid.asNat, r.asNat.bind (fun k => d.regs[k]?) with
    | some pid, some v => answer { d with s := pushLocal d.s pid v } "ok"
    | _, _ => (d, "bad-request")
  | [.list [.atom "pop", pid]] =>
    match pid.asNat with
    | some pid =>
      match popValue d.s pid with
      | (some v, s) => answer { d with s := s, regs := d.regs ++ [v] } s!"reg {d.regs.length} {renderVal s v}"
      | (none, s) => answer { d with s := s } "fail"
    | none => (d, "bad-request")
  | [.list [.atom "truncate", pid, n]] =>
    match pid.asNat, n.asNat with
    | some pid, some n => answer { d with s := truncateLocals d.s pid n } "ok"
    | _, _ => (d, "bad-request")
  | [.list [.atom "replace", pid, .list rs]] =>
    match pid.asNat, rs.mapM (fun r => r.asNat.bind (fun k => d.regs[k]?)) with
    | some pid, some vs =>
      let (b, s) := replaceLocals d.s pid vs
      answer { d with s := s } (if b then "ok" else "fail")
    | _, _ => (d, "bad-request")
  | [.list [.atom "extract", r]] =>
    match r.asNat.bind (fun k => d.regs[k]?) with
    | some v =>
      match extractHeapData d.s v with
      | some (v', hd) => answer d s!"ok {renderVal { heap := (hd.map Data.owned).toArray } v'}"
      | none => answer d "fail"
    | none => (d, "bad-request")
  | [.list [.atom "inject", v, hd]] =>
    match parseVal v, parseHexList hd with
    | some v, some hd =>
      match injectHeapData d.s v hd with
      | (some w, s) => answer { d with s := s, regs := d.regs ++ [w] } s!"reg {d.regs.length} {renderVal s w}"
      | (none, s) => answer { d with s := s } "fail"
    | _, _ => (d, "bad-request")
  | [.list [.atom "view"]] => answer d "ok"
  | [.list [.atom "check"]] => answer d (match checkRefcounts d.s with | none => "ok" | some _ => "bad")
  | [.list [.atom "value", pid]] =>
    match pid.asNat.bind d.s.getProc with
    | some p =>
      match p.result with
      | some (.ok v) => answer d ("value " ++ renderVal d.s v)
      | some .err => answer d "error"
      | none => answer d "running"
    | none => (d, "bad-request")
  | _ => (d, "bad-request")

def main : IO Unit := sxLoop c06Step {}
