import QuiverModel.Core.Prelude
import QuiverModel.Core.Exec.Error
/-
qm_c15 — driver for the failure-containment part of M-Exec (`QM.Exec`, Core/Exec/Error.lean): one
`Worker` record per real worker. Values are opaque (`v`): only result classes, map keys and mailbox
lengths are compared.

Requests (one per line; `W` = worker index):
  (init n [on])                          n workers; the REPL process 0 sleeps on worker 0; `on` = variant selectWaitsForAnswer → ok
  (cmd W spawn pid)                      SpawnProcess / StartProcess with a function
  (cmd W deliver pid)                    DeliverMessage
  (cmd W update awaiter (t none|ok|(err Class))…)   UpdateAwaitResults
  (cmd W query awaiter t…)               QueryAndAwait
  (cmd W notifyspawn pid)                NotifySpawn
  (cmd W effect pid ok|err)              EffectCompletion
  (cmd W resume pid)                     ResumeProcess
                                         → ok EVENTS | error IErr         (EVENTS = emitted ProcessResults)
  (front W now)                          the process `Executor::step` will run after the expiry check at `now`
                                         → none | pid
  (step W now idle)                                                           the executor step
  (step W now ranfinished)
  (step W now ran END (mb n) (aw (t none|some)…) (af (t Class)…) (sel 0|1 [start|none (timeout ms)…]))
        END := yields | (finishes) | (raises Class) | parks-selecting | parks-spawning | parks-effecting | finishes-empty
        the record after END is the running process's own state after its slice (an input: the body is abstract)
                                         → ok EVENTS                       (EVENTS of check_completed_processes)
  (expired W now)                        the parked processes `check_expired_timeouts now` would wake       → (pid…)
  (mqueue W)                             the run queue                                                      → (pid…)
  (preexpire W now pid…)                 apply `check_expired_timeouts now` ahead of the step and order the run queue as
                                         given (a permutation: several processes expired at once)          → ok | not-a-permutation
  (setqueue W pid…)                      re-order the run queue (same elements) — `HashSet` iteration order of
                                         simultaneously expired processes is not modelled          → ok | not-a-permutation
  (registry W)                           the worker's await registry (for the hooks Worker::verif_awaited … once they exist)
                                         → awaited=(…) for=((target (awaiter…))…)
  (state W)                              → queue=(…) selecting=(…) spawning=(…) effecting=(…) | pid res aw af mb sel | …
EVENTS := [awaiter (t none|ok|Class)…]…
-/
open QM QM.Exec

abbrev Val := Unit

def errOfName (n : String) : Option ErrClass :=
  [ErrClass.stackUnderflow, .callInvalid, .functionUndefined, .builtinUndefined, .frameUnderflow,
   .variableUndefined, .constantUndefined, .fieldAccessInvalid, .typeMismatch, .arityMismatch,
   .invalidArgument, .tupleEmpty, .operationNotAllowed, .scopeCountInvalid, .scopeUnderflow].find?
    (fun e => e.name = n)

structure St where
  ws : List (Worker Val) := []

def insertSortedBy {α} (key : α → Nat) (x : α) : List α → List α
  | [] => [x]
  | y :: ys => if key x ≤ key y then x :: y :: ys else y :: insertSortedBy key x ys

def sortBy {α} (key : α → Nat) (l : List α) : List α := l.foldr (insertSortedBy key) []

def renderNats (l : List Nat) : String := "(" ++ " ".intercalate (l.map toString) ++ ")"

def renderRes : Option (Res Val) → String
  | none => "none"
  | some (.ok _) => "ok"
  | some (.err e) => e.name

def renderEvents (evs : List (ProcessResults Val)) : String :=
  " ".intercalate (evs.map (fun ev =>
    "[" ++ toString ev.awaiter ++ " " ++
      " ".intercalate ((sortBy (·.1) ev.results).map (fun (t, r) => s!"({t} {renderRes r})")) ++ "]"))

def renderProc (pid : Nat) (p : Proc Val) : String :=
  let aw := "(" ++ " ".intercalate ((sortBy (·.1) p.awaiting).map (fun (k, v) =>
    s!"({k} " ++ (match v with | none => "none" | some _ => "some") ++ ")")) ++ ")"
  let af := "(" ++ " ".intercalate ((sortBy (·.1) p.awaitingFailed).map (fun (k, e) => s!"({k} {e.name})")) ++ ")"
  s!"{pid} res={renderRes p.result} aw={aw} af={af} mb={p.mailbox.length} sel={if p.sel.isSome then 1 else 0}"

def renderWorker (w : Worker Val) : String :=
  " | ".intercalate
    (s!"queue={renderNats w.ex.queue} selecting={renderNats (sortBy id w.ex.selecting)} spawning={renderNats (sortBy id w.ex.spawning)} effecting={renderNats (sortBy id w.ex.effecting)}" ::
      (sortBy (·.1) w.ex.procs).map (fun (k, p) => renderProc k p))

def setNth {α} : List α → Nat → α → List α
  | [], _, _ => []
  | _ :: xs, 0, a => a :: xs
  | x :: xs, n + 1, a => x :: setNth xs n a

def resOfSx : Sx → Option (Option (WireRes Val))
  | .atom "none" => some none
  | .atom "ok" => some (some (.ok { val := () }))
  | .list [.atom "err", .atom c] => (errOfName c).map (fun e => some (.err e))
  | _ => none

def resultsOfSx : List Sx → Option (AMap (Option (WireRes Val)))
  | [] => some []
  | .list [t, r] :: rest =>
    match t.asNat, resOfSx r, resultsOfSx rest with
    | some t, some r, some rs => some ((t, r) :: rs)
    | _, _, _ => none
  | _ => none

def natsOfSx : List Sx → Option (List Nat)
  | [] => some []
  | x :: rest =>
    match x.asNat, natsOfSx rest with
    | some n, some ns => some (n :: ns)
    | _, _ => none

def awOfSx : List Sx → Option (AMap (Option Val))
  | [] => some []
  | .list [t, .atom "none"] :: rest =>
    match t.asNat, awOfSx rest with
    | some t, some m => some ((t, none) :: m)
    | _, _ => none
  | .list [t, .atom "some"] :: rest =>
    match t.asNat, awOfSx rest with
    | some t, some m => some ((t, some ()) :: m)
    | _, _ => none
  | _ => none

def afOfSx : List Sx → Option (AMap ErrClass)
  | [] => some []
  | .list [t, .atom c] :: rest =>
    match t.asNat, errOfName c, afOfSx rest with
    | some t, some e, some m => some ((t, e) :: m)
    | _, _, _ => none
  | _ => none

def timeoutsOfSx : List Sx → Option (List (Source Val))
  | [] => some []
  | .list [.atom "timeout", ms] :: rest =>
    match ms.asInt, timeoutsOfSx rest with
    | some ms, some l => some (.timeout ms :: l)
    | _, _ => none
  | _ => none

/-- the select state of the running process as far as the executor's own bookkeeping reads it: its
    presence, the stored start time and the timeout sources (for `check_expired_timeouts`) -/
def selOfSx : List Sx → Option (Option (SelState Val))
  | [.atom "0"] => some none
  | .atom "1" :: start :: touts =>
    let st : Option (Option Nat) := match start with
      | .atom "none" => some none
      | x => x.asNat.map some
    match st, timeoutsOfSx touts with
    | some st, some srcs => some (some { sources := srcs, cursors := [], startTime := st, receiving := none })
    | _, _ => none
  | _ => none

def endOfSx : Sx → Option (SliceEnd Val)
  | .atom "yields" => some .yields
  | .list [.atom "finishes"] => some (.finishes ())
  | .list [.atom "raises", .atom c] => (errOfName c).map .raises
  | .atom "parks-selecting" => some .parksSelecting
  | .atom "parks-spawning" => some .parksSpawning
  | .atom "parks-effecting" => some .parksEffecting
  | .atom "finishes-empty" => some .finishesEmpty
  | _ => none

def cmdOfSx : List Sx → Option (Cmd Val)
  | [.atom "spawn", pid] => pid.asNat.map (fun p => .spawn p true)
  | [.atom "deliver", pid] => pid.asNat.map (fun p => .deliver p { val := () })
  | .atom "update" :: a :: rs =>
    match a.asNat, resultsOfSx rs with
    | some a, some rs => some (.updateAwaitResults a rs)
    | _, _ => none
  | .atom "query" :: a :: ts =>
    match a.asNat, natsOfSx ts with
    | some a, some ts => some (.queryAndAwait a ts)
    | _, _ => none
  | [.atom "notifyspawn", pid] => pid.asNat.map .notifySpawn
  | [.atom "effect", pid, .atom "ok"] => pid.asNat.map (fun p => .effectCompletion p (some { val := () }))
  | [.atom "effect", pid, .atom "err"] => pid.asNat.map (fun p => .effectCompletion p none)
  | [.atom "resume", pid] => pid.asNat.map (fun p => .resume p true)
  | _ => none

def isPerm (a b : List Nat) : Bool := sortBy id a == sortBy id b

def c15Step (s : St) (req : List Sx) : St × String :=
  match req with
  | [.list [.atom "init", n]] =>
    match n.asNat with
    | some n =>
      let w0 : Worker Val := { ex := { procs := [(0, { result := some (.ok ()) })] } }
      ({ ws := w0 :: List.replicate (n - 1) {} }, "ok")
    | none => (s, "bad-request")
  -- `(init n on)`: the workers mirror notes/C05-fixes/01 (a FAILED target is answered in the first answer)
  | [.list [.atom "init", n, .atom "on"]] =>
    match n.asNat with
    | some n =>
      let v : Variant := { selectWaitsForAnswer := true }
      let w0 : Worker Val := { ex := { procs := [(0, { result := some (.ok ()) })] }, variant := v }
      ({ ws := w0 :: List.replicate (n - 1) { variant := v } }, "ok")
    | none => (s, "bad-request")
  -- `(init n on|off on|off)`: select-waits switch, then the `releaseDead` switch (notes/C06-fixes/01); pid 0 (the
  -- REPL process) is the only persistent process
  | [.list [.atom "init", n, .atom sw, .atom rel]] =>
    match n.asNat with
    | some n =>
      let v : Variant := { selectWaitsForAnswer := sw == "on", releaseDead := rel == "on" }
      let w0 : Worker Val := { ex := { procs := [(0, { result := some (.ok ()) })] }, variant := v, persistent := [0] }
      ({ ws := w0 :: List.replicate (n - 1) { variant := v, persistent := [0] } }, "ok")
    | none => (s, "bad-request")
  | [.list (.atom "cmd" :: wi :: rest)] =>
    match wi.asNat, cmdOfSx rest with
    | some i, some c =>
      match s.ws[i]? with
      | some w =>
        match w.handleCommand c with
        | .ok (w', evs) => ({ s with ws := setNth s.ws i w' }, "ok " ++ renderEvents evs)
        | .error e => (s, s!"error {repr e}")
      | none => (s, "bad-request")
    | _, _ => (s, "bad-request")
  | [.list [.atom "front", wi, now]] =>
    match wi.asNat, now.asNat with
    | some i, some t =>
      match s.ws[i]? with
      | some w => (s, match (w.ex.checkExpiredTimeouts t).queue with | [] => "none" | p :: _ => toString p)
      | none => (s, "bad-request")
    | _, _ => (s, "bad-request")
  | [.list (.atom "step" :: wi :: now :: what)] =>
    match wi.asNat, now.asNat with
    | some i, some t =>
      match s.ws[i]? with
      | some w =>
        let slice : Option (Slice Val) :=
          match what with
          | [.atom "idle"] => some .idle
          | [.atom "ranfinished"] => some .ranFinished
          | [.atom "ran", e, .list [.atom "mb", n], .list (.atom "aw" :: aw), .list (.atom "af" :: af), .list (.atom "sel" :: sel)] =>
            match endOfSx e, n.asNat, awOfSx aw, afOfSx af, selOfSx sel with
            | some e, some n, some aw, some af, some sel =>
              -- the result field is set by `endSlice`; a process that is still running has none
              some (.ran { mailbox := List.replicate n (), awaiting := aw, awaitingFailed := af, sel := sel, result := none } e)
            | _, _, _, _, _ => none
          | _ => none
        match slice with
        | some sl =>
          -- `Worker::step` without commands (they were fed one by one): executor step + check_completed
          match w.step t [] sl with
          | .ok (w', evs) => ({ s with ws := setNth s.ws i w' }, "ok " ++ renderEvents evs)
          | .error e => (s, s!"error {repr e}")
        | none => (s, "bad-request")
      | none => (s, "bad-request")
    | _, _ => (s, "bad-request")
  | [.list [.atom "expired", wi, now]] =>
    match wi.asNat, now.asNat with
    | some i, some t =>
      match s.ws[i]? with
      | some w => (s, renderNats (sortBy id (w.ex.selecting.filter (w.ex.isExpired t))))
      | none => (s, "bad-request")
    | _, _ => (s, "bad-request")
  | [.list [.atom "mqueue", wi]] =>
    match wi.asNat with
    | some i => (s, match s.ws[i]? with | some w => renderNats w.ex.queue | none => "bad-request")
    | none => (s, "bad-request")
  | [.list (.atom "preexpire" :: wi :: now :: pids)] =>
    match wi.asNat, now.asNat, natsOfSx pids with
    | some i, some t, some q =>
      match s.ws[i]? with
      | some w =>
        let ex1 := w.ex.checkExpiredTimeouts t
        if isPerm ex1.queue q then ({ s with ws := setNth s.ws i { w with ex := { ex1 with queue := q } } }, "ok")
        else (s, "not-a-permutation")
      | none => (s, "bad-request")
    | _, _, _ => (s, "bad-request")
  | [.list (.atom "setqueue" :: wi :: pids)] =>
    match wi.asNat, natsOfSx pids with
    | some i, some q =>
      match s.ws[i]? with
      | some w =>
        if isPerm w.ex.queue q then ({ s with ws := setNth s.ws i { w with ex := { w.ex with queue := q } } }, "ok")
        else (s, "not-a-permutation")
      | none => (s, "bad-request")
    | _, _ => (s, "bad-request")
  | [.list [.atom "registry", wi]] =>
    match wi.asNat with
    | some i =>
      (s, match s.ws[i]? with
        | some w => s!"awaited={renderNats (sortBy id w.awaited)} for=(" ++
            " ".intercalate ((sortBy (·.1) w.awaitersFor).map (fun (t, as) => s!"({t} {renderNats as})")) ++ ")"
        | none => "bad-request")
    | none => (s, "bad-request")
  | [.list [.atom "state", wi]] =>
    match wi.asNat with
    | some i => (s, match s.ws[i]? with | some w => renderWorker w | none => "bad-request")
    | none => (s, "bad-request")
  | _ => (s, "bad-request")

def main : IO Unit := sxLoop c15Step {}
