import QuiverModel.Core.Prelude
import QuiverModel.Core.Equal.Basic
/-
qm_c13 — driver for M-Equal. One request per line:

  (ctx (tuples (name|_ label|_ …) …) (consts (i z)|(b hex)|(b) …) (heap (b hex)|(b) …))
        → ok <#tuples> <#consts> <#heap>          sets the context (`Ctx.ofProgram`)
  (ctxraw (tuples …) (canon n …) (consts …) (heap …))   same, with an explicit canonical table
  (equal a b)      → true | false                       `valuesEqual`
  (verdict a b)    → ok true | ok false | err C | panic `matchVerdict` (a = matched value, b = pin)
  (equaln n v…)    → ok v… | err C | panic              `equalN n stack`, stack listed top first
  (canon i)        → n                                  `Ctx.canonOf`
  (canontable)     → n n n …                            `Ctx.canon`
  (erase a)        → structural value                   `erase`
  (wf a)           → true | false                       `wfB`
  (heapok)         → true | false                       every heap rope satisfies `Rope.lenOKB`
heap entries are ropes: (b hex) | (b) owned, (z n) zeroed, (s rope off len), (c rope rope total), (tl rope count)
  (mintref w c)    → n                                  `mintRef`
  (createref w c)  → ok r c' | panic                    `createRef`
  (mintrun n w…)   → ok r… | fail                       `MintState.run` from `init n`, refs oldest first

values:  (i z) (bc idx) (bh idx) (r n) (t id v…) (f idx v…) (u id) (p pid fidx) (x rid ty)
-/
open QM QM.VM QM.Equal

namespace C13Driver

def optAtom (s : String) : Option String := if s = "_" then none else some s

def parseTuple : Sx → Option TupleInfo
  | .list (.atom n :: labels) => do
    let ls ← labels.mapM (fun l => l.asAtom.map optAtom)
    some ⟨optAtom n, ls⟩
  | _ => none

def parseBytes : Sx → Option (List UInt8)
  | .list [.atom "b"] => some []
  | .list [.atom "b", .atom h] => parseHex h
  | _ => none

/-- ropes: `(b hex)` / `(b)` owned, `(z n)` zeroed, `(s rope off len)`, `(c rope rope total)`, `(tl rope count)` -/
partial def parseRope : Sx → Option Rope
  | .list [.atom "z", n] => n.asNat.map Rope.zeroed
  | .list [.atom "s", p, o, l] => do some (.slice (← parseRope p) (← o.asNat) (← l.asNat))
  | .list [.atom "c", l, r, t] => do some (.concat (← parseRope l) (← parseRope r) (← t.asNat))
  | .list [.atom "tl", u, c] => do some (.tiled (← parseRope u) (← c.asNat))
  | x => (parseBytes x).map Rope.owned

def parseConst : Sx → Option Const
  | .list [.atom "i", z] => z.asInt.map Const.int
  | x => (parseBytes x).map Const.bin

mutual
partial def parseVal : Sx → Option Val
  | .list [.atom "i", z] => z.asInt.map Val.int
  | .list [.atom "bc", i] => i.asNat.map (fun i => Val.bin (.const i))
  | .list [.atom "bh", i] => i.asNat.map (fun i => Val.bin (.heap i))
  | .list [.atom "r", n] => n.asNat.map Val.ref
  | .list (.atom "t" :: id :: fs) => do
    let id ← id.asNat
    let vs ← parseVals fs
    some (.tup id (ValList.ofList vs))
  | .list (.atom "f" :: id :: fs) => do
    let id ← id.asNat
    let vs ← parseVals fs
    some (.fn id (ValList.ofList vs))
  | .list [.atom "u", i] => i.asNat.map Val.builtin
  | .list [.atom "p", p, f] => do some (.proc (← p.asNat) (← f.asNat))
  | .list [.atom "x", r, t] => do some (.res (← r.asNat) (← t.asNat))
  | _ => none
partial def parseVals : List Sx → Option (List Val)
  | [] => some []
  | x :: xs => do
    let v ← parseVal x
    let vs ← parseVals xs
    some (v :: vs)
end

mutual
partial def renderVal : Val → String
  | .int z => s!"(i {z})"
  | .bin (.const i) => s!"(bc {i})"
  | .bin (.heap i) => s!"(bh {i})"
  | .ref r => s!"(r {r})"
  | .tup id fs => s!"(t {id}{renderVals fs})"
  | .fn id fs => s!"(f {id}{renderVals fs})"
  | .builtin i => s!"(u {i})"
  | .proc p f => s!"(p {p} {f})"
  | .res r t => s!"(x {r} {t})"
partial def renderVals : ValList → String
  | .nil => ""
  | .cons v vs => " " ++ renderVal v ++ renderVals vs
end

def optStr : Option String → String
  | some s => s
  | none => "_"

mutual
partial def renderSV : SV → String
  | .int z => s!"(i {z})"
  | .bin bs => if bs.isEmpty then "(b)" else s!"(b {toHex bs})"
  | .ref r => s!"(r {r})"
  | .tup n ls fs => s!"(t {optStr n} ({" ".intercalate (ls.map optStr)}){renderSVs fs})"
  | .fn i cs => s!"(f {i}{renderSVs cs})"
  | .builtin i => s!"(u {i})"
  | .proc p => s!"(p {p})"
  | .res r => s!"(x {r})"
  | .bad => "bad"
partial def renderSVs : SVList → String
  | .nil => ""
  | .cons v vs => " " ++ renderSV v ++ renderSVs vs
end

def renderOutcome {α} (f : α → String) : Outcome α → String
  | .ok v => "ok " ++ f v
  | .err e => "err " ++ e.name
  | .panic => "panic"

def parseSection (tag : String) (f : Sx → Option α) : Sx → Option (List α)
  | .list (.atom t :: xs) => if t = tag then xs.mapM f else none
  | _ => none

def step (X : Ctx) (req : List Sx) : Ctx × String :=
  match req with
  | [.list [.atom "ctx", ts, cs, hp]] =>
    match parseSection "tuples" parseTuple ts, parseSection "consts" parseConst cs,
        parseSection "heap" parseRope hp with
    | some ts, some cs, some hp =>
      (Ctx.ofProgram ts cs hp, s!"ok {ts.length} {cs.length} {hp.length}")
    | _, _, _ => (X, "bad-request")
  | [.list [.atom "ctxraw", ts, cn, cs, hp]] =>
    match parseSection "tuples" parseTuple ts, parseSection "canon" Sx.asNat cn,
        parseSection "consts" parseConst cs, parseSection "heap" parseRope hp with
    | some ts, some cn, some cs, some hp =>
      ({ tuples := ts, canon := cn, consts := cs, heap := hp }, s!"ok {ts.length} {cs.length} {hp.length}")
    | _, _, _, _ => (X, "bad-request")
  | [.list [.atom "equal", a, b]] =>
    match parseVal a, parseVal b with
    | some a, some b => (X, toString (valuesEqual X a b))
    | _, _ => (X, "bad-request")
  | [.list [.atom "verdict", a, b]] =>
    match parseVal a, parseVal b with
    | some a, some b => (X, renderOutcome toString (matchVerdict X a b))
    | _, _ => (X, "bad-request")
  | [.list (.atom "equaln" :: n :: vs)] =>
    match n.asNat, parseVals vs with
    | some n, some vs =>
      (X, renderOutcome (fun st => " ".intercalate (st.map renderVal)) (equalN X n vs))
    | _, _ => (X, "bad-request")
  | [.list [.atom "canon", i]] =>
    match i.asNat with
    | some i => (X, toString (X.canonOf i))
    | none => (X, "bad-request")
  | [.list [.atom "heapok"]] => (X, toString (X.heap.all Rope.lenOKB))
  | [.list [.atom "canontable"]] => (X, " ".intercalate (X.canon.map toString))
  | [.list [.atom "erase", a]] =>
    match parseVal a with
    | some a => (X, renderSV (erase X a))
    | none => (X, "bad-request")
  | [.list [.atom "wf", a]] =>
    match parseVal a with
    | some a => (X, toString (wfB X a))
    | none => (X, "bad-request")
  | [.list [.atom "mintref", w, c]] =>
    match w.asNat, c.asNat with
    | some w, some c =>
      if w < 65536 ∧ c < 18446744073709551616 then
        (X, toString (mintRef (UInt16.ofNat w) (UInt64.ofNat c)).toNat)
      else (X, "bad-request")
    | _, _ => (X, "bad-request")
  | [.list [.atom "createref", w, c]] =>
    match w.asNat, c.asNat with
    | some w, some c =>
      if w < 65536 ∧ c < 18446744073709551616 then
        (X, renderOutcome (fun (r, c') => s!"{r.toNat} {c'.toNat}") (createRef (UInt16.ofNat w) (UInt64.ofNat c)))
      else (X, "bad-request")
    | _, _ => (X, "bad-request")
  | [.list (.atom "mintrun" :: n :: ws)] =>
    match n.asNat, ws.mapM Sx.asNat with
    | some n, some ws =>
      match (MintState.init n).run ws with
      | some s => (X, "ok " ++ " ".intercalate (s.minted.reverse.map (fun p => toString p.2.toNat)))
      | none => (X, "fail")
    | _, _ => (X, "bad-request")
  | _ => (X, "bad-request")

end C13Driver

def main : IO Unit := sxLoop C13Driver.step (Ctx.ofProgram [] [] [])
