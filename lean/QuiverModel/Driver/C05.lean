import QuiverModel.Core.Prelude
import QuiverModel.Core.Exec.Select
/-
qm_c05 — driver for the select machine of M-Exec (`QM.Exec`, Core/Exec/Select.lean).

The process under test is pid 0 of a one-process executor. Values: `(i n)` integer, `(b hex)` binary,
`(s hex)` the tuple `Str[bin]`, `(t Name)` a field-less named tuple (`(t Ok)`, …).

Requests (one per line), every answer is one line:
  (scenario (site SRC…) (site SRC…) …)     set the static select sites of the process, reset      → ok
      SRC := (await pid) | (recv (TAG…) none) | (recv (TAG…) (filter CLAUSE…)) | (timeout ms) | (invalid Class)
      TAG := int | bin | str | Name        CLAUSE := (PRED RES)   (first matching clause decides; none → nil)
      PRED := any | even | odd | (eq VAL) | (lt n) | (ge n) | (lenlt n) | (lenge n)
      RES := nil | (val VAL) | (fail Class)
  (msg VAL)                 notify_message                                    → STATE
  (result pid (ok VAL))     Executor::notify_result                           → STATE
  (result pid (err Class))  Executor::notify_failure (Worker::notify_result Err arm) → STATE
  (pfinished)               the process body finished normally (result = Ok)  → STATE
  (finished pid (ok VAL)|(err Class))  a process on the same executor finished: awaiter loop of Executor::step → STATE
  (wake)                    wake_selecting (end of update_await_results)                                      → STATE
  (select site now)         one execution of the Select instruction at `site` (the verdict of a pending
                            receive function is computed from its clauses)    → RES STATE
  (filterfail)              the pending receive function raises               → failed Class STATE | no-fail
  (expire now)              check_expired_timeouts                            → STATE
  (next-timeout)            next_timeout_ms                                   → none | n
  (state)                                                                     → STATE
  (spec (site SRC…) (mailbox VAL…) (results (pid (ok VAL)|(err Class))…) start now)
                            selectSpec on an explicit state                   → yields VAL|nil taken i|none | fails Class | not-ready
STATE := mb=(VAL…) aw=((pid none|VAL)…) af=((pid Class)…) sel=none|(cur (n…) start none|n recv none|(idx VAL)) parked=0|1 queued=0|1 res=none|ok|Class
-/
open QM QM.Exec

inductive Val where
  | i (n : Int)
  | b (hex : String)
  | s (hex : String)
  | t (name : String)
  deriving DecidableEq, Repr, Inhabited

namespace Val
def render : Val → String
  | i n => s!"(i {n})"
  | b h => if h.isEmpty then "(b)" else s!"(b {h})"
  | s h => if h.isEmpty then "(s)" else s!"(s {h})"
  | t n => s!"(t {n})"

def ofSx : Sx → Option Val
  | .list [.atom "i", n] => n.asInt.map Val.i
  | .list [.atom "b"] => some (.b "")
  | .list [.atom "b", .atom h] => some (.b h)
  | .list [.atom "s"] => some (.s "")
  | .list [.atom "s", .atom h] => some (.s h)
  | .list [.atom "t", .atom n] => some (.t n)
  | _ => none

def tag : Val → String
  | i _ => "int"
  | b _ => "bin"
  | s _ => "str"
  | t n => n

def byteLen : Val → Option Nat
  | b h => some (h.length / 2)
  | s h => some (h.length / 2)
  | _ => none
end Val

def errOfName (n : String) : Option ErrClass :=
  [ErrClass.stackUnderflow, .callInvalid, .functionUndefined, .builtinUndefined, .frameUnderflow,
   .variableUndefined, .constantUndefined, .fieldAccessInvalid, .typeMismatch, .arityMismatch,
   .invalidArgument, .tupleEmpty, .operationNotAllowed, .scopeCountInvalid, .scopeUnderflow].find?
    (fun e => e.name = n)

inductive Pred where
  | any | even | odd
  | eq (v : Val)
  | lt (n : Int) | ge (n : Int)
  | lenlt (n : Nat) | lenge (n : Nat)

def Pred.holds : Pred → Val → Bool
  | .any, _ => true
  | .even, .i n => n % 2 == 0
  | .odd, .i n => n % 2 != 0
  | .eq v, m => v == m
  | .lt k, .i n => n < k
  | .ge k, .i n => n ≥ k
  | .lenlt k, m => match m.byteLen with | some l => l < k | none => false
  | .lenge k, m => match m.byteLen with | some l => l ≥ k | none => false
  | _, _ => false

def Pred.ofSx : Sx → Option Pred
  | .atom "any" => some .any
  | .atom "even" => some .even
  | .atom "odd" => some .odd
  | .list [.atom "eq", v] => (Val.ofSx v).map .eq
  | .list [.atom "lt", n] => n.asInt.map .lt
  | .list [.atom "ge", n] => n.asInt.map .ge
  | .list [.atom "lenlt", n] => n.asNat.map .lenlt
  | .list [.atom "lenge", n] => n.asNat.map .lenge
  | _ => none

def resOfSx : Sx → Option (FilterRes Val)
  | .atom "nil" => some (.ret .nil)
  | .list [.atom "val", v] => (Val.ofSx v).map (fun x => .ret (.value x))
  | .list [.atom "fail", .atom c] => (errOfName c).map .fail
  | _ => none

def runClauses : List (Pred × FilterRes Val) → Val → FilterRes Val
  | [], _ => .ret .nil
  | (p, r) :: rest, m => if p.holds m then r else runClauses rest m

def clausesOfSx : List Sx → Option (List (Pred × FilterRes Val))
  | [] => some []
  | .list [p, r] :: rest =>
    match Pred.ofSx p, resOfSx r, clausesOfSx rest with
    | some p, some r, some cs => some ((p, r) :: cs)
    | _, _, _ => none
  | _ => none

def atomsOf : List Sx → Option (List String)
  | [] => some []
  | .atom a :: rest => (atomsOf rest).map (a :: ·)
  | _ => none

def sourceOfSx : Sx → Option (Source Val)
  | .list [.atom "await", p] => p.asNat.map .await
  | .list [.atom "timeout", n] => n.asInt.map .timeout
  | .list [.atom "invalid", .atom c] => (errOfName c).map .invalid
  | .list [.atom "recv", .list tags, f] =>
    match atomsOf tags with
    | none => none
    | some ts =>
      let ty : Val → Bool := fun m => ts.contains m.tag
      match f with
      | .atom "none" => some (.receive ty none)
      | .list (.atom "filter" :: cs) => (clausesOfSx cs).map (fun cl => .receive ty (some (runClauses cl)))
      | _ => none
  | _ => none

def sourcesOfSx : List Sx → Option (List (Source Val))
  | [] => some []
  | x :: rest =>
    match sourceOfSx x, sourcesOfSx rest with
    | some s, some r => some (s :: r)
    | _, _ => none

def siteOfSx : Sx → Option (List (Source Val))
  | .list (.atom "site" :: srcs) => sourcesOfSx srcs
  | _ => none

def sitesOfSx : List Sx → Option (List (List (Source Val)))
  | [] => some []
  | x :: rest =>
    match siteOfSx x, sitesOfSx rest with
    | some s, some r => some (s :: r)
    | _, _ => none

def valsOfSx : List Sx → Option (List Val)
  | [] => some []
  | x :: rest =>
    match Val.ofSx x, valsOfSx rest with
    | some v, some r => some (v :: r)
    | _, _ => none

def resultsOfSx : List Sx → Option (AMap (Res Val))
  | [] => some []
  | .list [p, .list [.atom "ok", v]] :: rest =>
    match p.asNat, Val.ofSx v, resultsOfSx rest with
    | some p, some v, some r => some ((p, .ok v) :: r)
    | _, _, _ => none
  | .list [p, .list [.atom "err", .atom c]] :: rest =>
    match p.asNat, errOfName c, resultsOfSx rest with
    | some p, some e, some r => some ((p, .err e) :: r)
    | _, _, _ => none
  | _ => none

def renderYield : Yield Val → String
  | .value v => v.render
  | .nil => "nil"

def renderRes : StepRes Val → String
  | .completed y => s!"completed {renderYield y}"
  | .calledFilter => "called"
  | .parked => "parked"
  | .awaitAction ts => "await (" ++ " ".intercalate (ts.map toString) ++ ")"
  | .initialized => "initialized"
  | .failed e => s!"failed {e.name}"
  | .panic => "panic"

def insertSorted (x : Nat × Option Val) : List (Nat × Option Val) → List (Nat × Option Val)
  | [] => [x]
  | y :: ys => if x.1 ≤ y.1 then x :: y :: ys else y :: insertSorted x ys

def sortAw (m : List (Nat × Option Val)) : List (Nat × Option Val) := m.foldr insertSorted []

def insertSortedAf (x : Nat × ErrClass) : List (Nat × ErrClass) → List (Nat × ErrClass)
  | [] => [x]
  | y :: ys => if x.1 ≤ y.1 then x :: y :: ys else y :: insertSortedAf x ys

def sortAf (m : List (Nat × ErrClass)) : List (Nat × ErrClass) := m.foldr insertSortedAf []

structure St where
  sites : List (List (Source Val)) := []
  /-- which implementation is mirrored: `(variant on)` = notes/C05-fixes/01 (the select waits for its answer) -/
  variant : Variant := {}
  w : ExecW Val := { ex := { procs := [(0, {})], queue := [0], selecting := [] } }

def St.ex (s : St) : Exec Val := s.w.ex
def St.setEx (s : St) (ex : Exec Val) : St := { s with w := { s.w with ex := ex } }

def renderState (s : St) : String :=
  match s.ex.getProc 0 with
  | none => "no-process"
  | some p =>
    let mb := "(" ++ " ".intercalate (p.mailbox.map Val.render) ++ ")"
    let aw := "(" ++ " ".intercalate ((sortAw p.awaiting).map (fun (k, v) =>
      s!"({k} " ++ (match v with | none => "none" | some x => x.render) ++ ")")) ++ ")"
    let sel := match p.sel with
      | none => "none"
      | some st =>
        "(cur (" ++ " ".intercalate (st.cursors.map toString) ++ ") start " ++
          (match st.startTime with | none => "none" | some t => toString t) ++ " recv " ++
          (match st.receiving with | none => "none" | some (i, m) => s!"({i} {m.render})") ++ ")"
    let parked := if 0 ∈ s.ex.selecting then "1" else "0"
    let queued := if 0 ∈ s.ex.queue then "1" else "0"
    let af := "(" ++ " ".intercalate ((sortAf p.awaitingFailed).map (fun (k, e) => s!"({k} {e.name})")) ++ ")"
    let res := match p.result with | none => "none" | some (.ok _) => "ok" | some (.err e) => e.name
    let un := if s.variant.selectWaitsForAnswer then
        " un=(" ++ " ".intercalate ((s.w.un 0).map toString) ++ ")" else ""
    s!"mb={mb} aw={aw} af={af} sel={sel} parked={parked} queued={queued} res={res}{un}"

def renderSpec : SpecOutcome Val → String
  | .yields y taken => s!"yields {renderYield y} taken " ++ (match taken with | none => "none" | some i => toString i)
  | .fails e => s!"fails {e.name}"
  | .notReady => "not-ready"

def c05Step (s : St) (req : List Sx) : St × String :=
  match req with
  | [.list (.atom "scenario" :: sites)] =>
    match sitesOfSx sites with
    | some ss => ({ sites := ss, variant := s.variant }, "ok")
    | none => (s, "bad-request")
  | [.list [.atom "variant", .atom "on"]] => ({ s with variant := { s.variant with selectWaitsForAnswer := true } }, "ok")
  | [.list [.atom "variant", .atom "off"]] => ({ s with variant := { s.variant with selectWaitsForAnswer := false } }, "ok")
  -- `(release on|off)`: variant `releaseDead` (notes/C06-fixes/01)
  | [.list [.atom "release", .atom "on"]] => ({ s with variant := { s.variant with releaseDead := true } }, "ok")
  | [.list [.atom "release", .atom "off"]] => ({ s with variant := { s.variant with releaseDead := false } }, "ok")
  | [.list [.atom "msg", v]] =>
    match Val.ofSx v with
    | some m =>
      -- p is not persistent
      let s' := { s with w := { s.w with ex := Exec.notifyMessageV s.variant (fun _ => false) s.w.ex 0 m } }
      (s', renderState s')
    | none => (s, "bad-request")
  | [.list [.atom "pending", p]] =>
    -- a `None` entry of an UpdateAwaitResults (`notify_pending`; only the patched code calls it)
    match p.asNat with
    | some pid =>
      let s' := if s.variant.selectWaitsForAnswer then { s with w := s.w.notifyPending 0 pid } else s
      (s', renderState s')
    | none => (s, "bad-request")
  | [.list [.atom "result", p, .list [.atom "ok", v]]] =>
    match p.asNat, Val.ofSx v with
    | some pid, some x => let s' := { s with w := s.w.notifyResultOk 0 pid x }; (s', renderState s')
    | _, _ => (s, "bad-request")
  | [.list [.atom "result", p, .list [.atom "err", .atom c]]] =>
    match p.asNat, errOfName c with
    | some pid, some e => let s' := { s with w := s.w.notifyFailure 0 pid e }; (s', renderState s')
    | _, _ => (s, "bad-request")
  | [.list [.atom "finished", p, .list [.atom "ok", v]]] =>
    match p.asNat, Val.ofSx v with
    | some pid, some x => let s' := { s with w := s.w.notifyFinished 0 pid (.ok x) }; (s', renderState s')
    | _, _ => (s, "bad-request")
  | [.list [.atom "finished", p, .list [.atom "err", .atom c]]] =>
    match p.asNat, errOfName c with
    | some pid, some e => let s' := { s with w := s.w.notifyFinished 0 pid (.err e) }; (s', renderState s')
    | _, _ => (s, "bad-request")
  | [.list [.atom "pfinished"]] =>
    match s.ex.getProc 0 with
    | some p =>
      let s1 := s.setEx (s.ex.setProc 0 { p with result := some (.ok (.t "Ok")) })
      -- the finished block of `Executor::step` ends with `release_dead_roots` (variant `releaseDead`)
      let s' := if s.variant.releaseDead then { s1 with w := s1.w.releaseDead 0 } else s1
      (s', renderState s')
    | none => (s, "no-process")
  | [.list [.atom "wake"]] => let s' := s.setEx (s.ex.wake 0); (s', renderState s')
  | [.list [.atom "select", site, now]] =>
    match site.asNat, now.asNat with
    | some k, some t =>
      match s.sites[k]?, s.ex.getProc 0 with
      | some srcs, some p =>
        -- a pending receive function that raises never comes back to the Select instruction
        match p.sel.bind pendingFilterRes with
        | some (.fail _) => (s, "filter-does-not-return")
        | _ =>
          -- `step` pops the process from the queue before running it
          let w0 : ExecW Val := { s.w with ex := { s.ex with queue := s.ex.queue.filter (· != 0) } }
          match w0.selectPure s.variant 0 t srcs with
          | (w1, some r) =>
            -- a process that did not park is re-queued at the end of the slice (or keeps running)
            let ex1 := w1.ex
            let ex2 := if 0 ∈ ex1.selecting then ex1 else { ex1 with queue := ex1.queue ++ [0] }
            let s1 := { s with w := { w1 with ex := ex2 } }
            -- a failing select ends the process in the same executor step: finished block, then release
            let s' := match r with
              | .failed _ => if s.variant.releaseDead then { s1 with w := s1.w.releaseDead 0 } else s1
              | _ => s1
            (s', renderRes r ++ " " ++ renderState s')
          | (_, none) => (s, "no-process")
      | _, _ => (s, "bad-request")
    | _, _ => (s, "bad-request")
  | [.list [.atom "filterfail"]] =>
    match s.ex.getProc 0 with
    | some p =>
      match p.sel.bind pendingFilterRes with
      | some (.fail _) =>
        match s.ex.selectPure 0 0 [] with
        | (ex1, some r) =>
          let s1 := s.setEx ex1
          let s' := if s.variant.releaseDead then { s1 with w := s1.w.releaseDead 0 } else s1
          (s', renderRes r ++ " " ++ renderState s')
        | (_, none) => (s, "no-process")
      | _ => (s, "no-fail")
    | none => (s, "no-process")
  | [.list [.atom "expire", now]] =>
    match now.asNat with
    | some t => let s' := s.setEx (s.ex.checkExpiredTimeouts t); (s', renderState s')
    | none => (s, "bad-request")
  | [.list [.atom "next-timeout"]] =>
    (s, match s.ex.nextTimeoutMs with | none => "none" | some t => toString t)
  | [.list [.atom "state"]] => (s, renderState s)
  | [.list [.atom "spec", site, .list (.atom "mailbox" :: mb), .list (.atom "results" :: rs), start, now]] =>
    match siteOfSx site, valsOfSx mb, resultsOfSx rs, start.asNat, now.asNat with
    | some srcs, some mb, some rs, some st, some t => (s, renderSpec (selectSpec mb (fun k => amLookup k rs) st t srcs))
    | _, _, _, _, _ => (s, "bad-request")
  | [.list [.atom "spec-sys", site, .list (.atom "mailbox" :: mb), .list (.atom "results" :: rs),
        .list (.atom "certain" :: cs), start, now]] =>
    -- system-level readiness: known results first, else what had certainly finished before the select started
    match siteOfSx site, valsOfSx mb, resultsOfSx rs, resultsOfSx cs, start.asNat, now.asNat with
    | some srcs, some mb, some rs, some cs, some st, some t =>
      (s, renderSpec (selectSpecSys mb (fun k => amLookup k rs) (fun k => amLookup k cs) st t srcs))
    | _, _, _, _, _, _ => (s, "bad-request")
  | _ => (s, "bad-request")

def main : IO Unit := sxLoop c05Step {}
