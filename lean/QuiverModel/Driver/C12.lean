import QuiverModel.Core.Builtins.Dispatch
/-
qm_c12 — driver for M-Builtins. Requests:
  call <name> <arg>      →  ok <value> | err <Class> | panic | no-model
-/
open QM QM.Builtins

def c12Step (_ : Unit) (req : List Sx) : Unit × String :=
  match req with
  | [.atom "call", .atom name, a] =>
    match BArg.ofSx a with
    | none => ((), "bad-arg")
    | some arg =>
      match callBuiltin name arg with
      | some o => ((), renderOutcome o)
      | none => ((), "no-model")
  | _ => ((), "bad-request")

def main : IO Unit := sxLoop c12Step ()
