import QuiverModel.Driver.SysCommon
/- qm_c03 — the same M-Sys driver as qm_c04 (protocol in Driver/SysCommon.lean); C03 replays every
run of its confluent scenarios through `sysStep` as well. -/
def main : IO Unit := QM.sxLoop C04Driver.step {}
