import QuiverModel.Core.Prelude
import QuiverModel.Core.Sys.Basic
/-
Shared driver for M-Sys (`qm_c04`, `qm_c03`). Requests (one S-expression line each):

  (init <n> <req> (<script> …))      start `Sys.init n prog req`;        → snapshot
       script = (<act> …); act = (send r tag seq) | (spawn fn (r …)) | (select (<src> …)) | fail
       src = (proc r) | (recv any) | (recv tag k) | (recv range lo hi) | (timeout ms)
  (cfg exit-reports on|off)          variant of the runtime (default: the code at HEAD)
  (cfg select-waits on|off)          …
  (cfg release-dead on|off)          …
  (mode current|replace-answers|mark-active-on-empty|wake-only-on-empty-answer)   which `Rules` the step uses (default current) → ok
  (env (<vis> …))                     `Choice.env`   (a `*` entry = everything)            → snapshot
  (worker i vis fuel (ordQ…) (ordE…)) `Choice.worker` (`*` for vis = everything)           → snapshot
  (tick ms)                                                                                → snapshot
  (ghost)                             sent / appended / dropped / spawned / reported / learned

The snapshot is canonical: sets and maps are printed sorted.  It calls `sysStep` / `sysStepReplace`
of Core/Sys/Basic.lean — the definitions the theorems are about.
-/
open QM QM.Sys

namespace C04Driver

def joinWith (sep : String) (xs : List String) : String := sep.intercalate xs

def showNats (xs : List Nat) : String := "[" ++ joinWith "," (xs.map toString) ++ "]"
def sortNats (xs : List Nat) : List Nat := xs.mergeSort (fun a b => a ≤ b)

def showVal (v : Val) : String := joinWith "," (v.map toString)

def showRes : Res → String
  | .ok v => "ok:" ++ showVal v
  | .err => "err"

def showResults (rs : Results) : String :=
  let sorted := rs.mergeSort (fun a b => a.1 ≤ b.1)
  "{" ++ joinWith ";" (sorted.map (fun tr => toString tr.1 ++ "=" ++ (match tr.2 with
    | none => "none"
    | some r => showRes r))) ++ "}"

def showMsg (m : Msg) : String := "(" ++ toString m.tag ++ "," ++ toString m.seq ++ ")"

def showCmd : Cmd → String
  | .misc => "misc"
  | .start p => s!"start:{p}"
  | .resume p _ => s!"resume:{p}"
  | .spawn p _ _ => s!"spawn:{p}"
  | .notifySpawn c p => s!"nspawn:{c}:{p}"
  | .deliver t m => s!"deliver:{t}:{showMsg m}"
  | .queryAwait a ts => s!"query:{a}:{showNats ts}"
  | .updateAwait a rs => s!"update:{a}:{showResults rs}"
  | .getResult r p => s!"getres:{r}:{p}"

def showEvt : Evt → String
  | .spawn c _ _ _ => s!"spawn:{c}"
  | .deliver t m => s!"deliver:{t}:{showMsg m}"
  | .await a ts => s!"await:{a}:{showNats ts}"
  | .procResults a rs => s!"results:{a}:{showResults rs}"
  | .resultResp r res => s!"resp:{r}:{showRes res}"
  | .exited p => s!"exited:{p}"

def procClass (w : WorkerSt) (p : Pid) (x : Proc) : String :=
  if p ∈ w.queue then "run"
  else if p ∈ w.spawning then "pspawn"
  else if p ∈ w.selecting then "pselect"
  else match x.result with
    | some (.ok _) => if x.persistent then "sleep" else "done"
    | some .err => "failed"
    | none => "limbo"

def showProc (showUn : Bool) (w : WorkerSt) (p : Pid) : String :=
  match w.procs p with
  | none => s!"P{p}:missing"
  | some x =>
    -- variant `selectWaits`: `SelectState.unanswered` of the current select
    let un := if showUn && x.selInit then s!" un={showNats x.unanswered}" else ""
    let aw := (x.awaiting.mergeSort (fun a b => a.1 ≤ b.1)).map (fun kv =>
      toString kv.1 ++ (match kv.2 with | some v => "=" ++ showVal v | none => "=none"))
    let res := match x.result with | none => "none" | some r => showRes r
    s!"P{p}:{procClass w p x} mb=[{joinWith "" (x.mailbox.map showMsg)}] aw=[{joinWith ";" aw}] af={showNats (sortNats x.awaitFailed)} sel={if x.selInit then 1 else 0}{un} res={res}"

/-- `Worker.awaited` / `Worker.awaiters_for_target` (hooks `verif_awaited`, `verif_awaiters_for_target`) -/
def showAwaitBook (w : WorkerSt) : String :=
  let ts := sortNats w.awaited
  let af := (ts.filter (fun t => !(w.awaitersFor t).isEmpty)).map (fun t => s!"{t}:{showNats (w.awaitersFor t)}")
  s!"AW={showNats ts} AF=[{joinWith " " af}]"

def showWorker (showUn : Bool) (s : Sys) (i : Wid) : String :=
  let w := s.wk i
  let procs := (sortNats w.pids).map (showProc showUn w)
  s!"W{i} q={showNats w.queue} sp={showNats (sortNats w.spawning)} se={showNats (sortNats w.selecting)} " ++
  s!"{showAwaitBook w} " ++
  s!"C=[{joinWith " " ((s.cmdQ i).map showCmd)}] E=[{joinWith " " ((s.evtQ i).map showEvt)}] " ++
  joinWith " " procs

/-- `Environment.process_router` (hook `verif_router`) -/
def showRouter (s : Sys) : String :=
  joinWith " " ((List.range s.env.nextPid).filterMap (fun p =>
    match s.env.router p with
    | some w => some s!"{p}>{w}"
    | none => none))

def showStatus : Option Res → String
  | none => "0"
  | some (.ok _) => "1"
  | some .err => "2"

/-- `Environment.pending_awaits` (hook `verif_pending_awaits`): awaiter, workers still expected,
answers collected so far as target=status -/
def showPending (s : Sys) : String :=
  joinWith " " ((List.range s.env.nextPid).filterMap (fun a =>
    match s.env.pending a with
    | none => none
    | some pa =>
      let resp := (pa.responses.mergeSort (fun x y => x.1 ≤ y.1)).map (fun wr =>
        let rs := (wr.2.mergeSort (fun x y => x.1 ≤ y.1)).map (fun tr => s!"{tr.1}={showStatus tr.2}")
        s!"{wr.1}:[{joinWith ";" rs}]")
      some s!"{a}:e{showNats (sortNats pa.expected)}:r[{joinWith " " resp}]"))

def snapshot (s : Sys) (showUn : Bool := false) : String :=
  s!"now={s.now} fault={if s.fault then 1 else 0} next={s.env.nextPid} R=[{showRouter s}] PA=[{showPending s}] | " ++
  joinWith " | " ((List.range s.n).map (showWorker showUn s))

def showPairs (xs : List (Pid × Msg)) : String :=
  joinWith " " (xs.map (fun rm => s!"{rm.2.src}>{rm.1}:{showMsg rm.2}"))

def ghost (s : Sys) : String :=
  s!"sent=[{showPairs s.sent}] appended=[{showPairs s.appended}] dropped=[{showPairs s.dropped}] dead=[{showPairs s.deadDropped}] " ++
  s!"spawned=[{joinWith " " (s.spawned.map (fun cp => s!"{cp.1}>{cp.2}"))}] " ++
  s!"notified=[{joinWith " " (s.spawnNotified.map (fun x => s!"{x.1}>{x.2.1}:{if x.2.2 then 1 else 0}"))}] " ++
  s!"reported=[{joinWith " " (s.reported.map (fun cp => s!"{cp.1}<{cp.2}"))}] " ++
  s!"learned=[{joinWith " " (s.learned.map (fun cp => s!"{cp.1}<{cp.2}"))}] " ++
  s!"answers=[{joinWith " " (s.env.results.map (fun rr => s!"{rr.1}:{showRes rr.2}"))}]"

/-! parsing -/

def natList (x : Sx) : Option (List Nat) := do
  let xs ← x.asList
  xs.mapM Sx.asNat

def parseSrc : Sx → Option Src
  | .list [.atom "proc", r] => do some (.proc (← r.asNat))
  | .list [.atom "recv", .atom "any"] => some (.recv .any)
  | .list [.atom "recv", .atom "tag", k] => do some (.recv (.tag (← k.asNat)))
  | .list [.atom "recv", .atom "range", lo, hi] => do some (.recv (.range (← lo.asNat) (← hi.asNat)))
  | .list [.atom "timeout", ms] => do some (.timeout (← ms.asNat))
  | _ => none

def parseAct : Sx → Option Act
  | .list [.atom "send", r, t, q] => do some (.send (← r.asNat) (← t.asNat) (← q.asNat))
  | .list [.atom "spawn", f, pass] => do some (.spawn (← f.asNat) (← natList pass))
  | .list [.atom "select", .list srcs] => do some (.select (← srcs.mapM parseSrc))
  | .atom "fail" => some .fail
  | _ => none

def parseScript (x : Sx) : Option Script := do
  let xs ← x.asList
  xs.mapM parseAct

/-- `*` = everything visible -/
def visNat : Sx → Option Nat
  | .atom "*" => some 1000000000
  | x => x.asNat

structure St where
  sys : Option Sys := none
  rules : Rules := Rules.current
  /-- the variant of the runtime the model mirrors (`(cfg <flag> on|off)`); default: the code at HEAD -/
  cfg : Cfg := Cfg.head

def stepOf (st : St) (s : Sys) (c : Choice) : St × String :=
  let s' := @sysStepWith st.cfg st.rules s c
  ({ st with sys := some s' }, snapshot s' st.cfg.selectWaits)

def step (st : St) (req : List Sx) : St × String :=
  match req with
  | [.list [.atom "init", n, r, .list scripts]] =>
    match n.asNat, r.asNat, scripts.mapM parseScript with
    | some n, some r, some prog =>
      let s := Sys.init n prog r
      ({ st with sys := some s }, snapshot s st.cfg.selectWaits)
    | _, _, _ => (st, "bad-request")
  | [.list [.atom "cfg", .atom "exit-reports", .atom "on"]] => ({ st with cfg := { st.cfg with exitReports := true } }, "ok")
  | [.list [.atom "cfg", .atom "exit-reports", .atom "off"]] => ({ st with cfg := { st.cfg with exitReports := false } }, "ok")
  | [.list [.atom "cfg", .atom "select-waits", .atom "on"]] => ({ st with cfg := { st.cfg with selectWaits := true } }, "ok")
  | [.list [.atom "cfg", .atom "select-waits", .atom "off"]] => ({ st with cfg := { st.cfg with selectWaits := false } }, "ok")
  | [.list [.atom "cfg", .atom "release-dead", .atom "on"]] => ({ st with cfg := { st.cfg with releaseDead := true } }, "ok")
  | [.list [.atom "cfg", .atom "release-dead", .atom "off"]] => ({ st with cfg := { st.cfg with releaseDead := false } }, "ok")
  | [.list [.atom "mode", .atom "current"]] => ({ st with rules := Rules.current }, "ok")
  | [.list [.atom "mode", .atom "replace-answers"]] => ({ st with rules := Rules.replaceAnswers }, "ok")
  | [.list [.atom "mode", .atom "mark-active-on-empty"]] => ({ st with rules := Rules.markActiveOnEmpty }, "ok")
  | [.list [.atom "mode", .atom "wake-only-on-empty-answer"]] => ({ st with rules := Rules.wakeOnlyOnEmptyAnswer }, "ok")
  | [.list [.atom "ghost"]] =>
    match st.sys with
    | some s => (st, ghost s)
    | none => (st, "no-system")
  | [.list [.atom "env", .list vis]] =>
    match st.sys, vis.mapM visNat with
    | some s, some vis => stepOf st s (.env vis)
    | none, _ => (st, "no-system")
    | _, _ => (st, "bad-request")
  | [.list [.atom "worker", i, vis, fuel, oq, oe]] =>
    match st.sys, i.asNat, visNat vis, fuel.asNat, natList oq, natList oe with
    | some s, some i, some vis, some fuel, some oq, some oe => stepOf st s (.worker i vis fuel oq oe)
    | none, _, _, _, _, _ => (st, "no-system")
    | _, _, _, _, _, _ => (st, "bad-request")
  | [.list [.atom "tick", ms]] =>
    match st.sys, ms.asNat with
    | some s, some ms => stepOf st s (.tick ms)
    | none, _ => (st, "no-system")
    | _, _ => (st, "bad-request")
  | _ => (st, "bad-request")

end C04Driver
