import QuiverModel.Core.Types.Codec
import QuiverModel.Core.Types.Shape
import QuiverModel.Core.Types.Compat
/-
qm_c08 — driver for the runtime compatibility tables (M-Types `Compat.lean`). One request per line:

  (program (table (types …) (tuples …)) (functions (<type id> <IsType id>…)…) (builtins (<param> <result>)…)
           (resources <name>…))          set the current compatibility input → ok types=<n> functions=<m>
  (type-compat)        → (tc (<tag>…)…)          one tag list per type id, tags in canonical order
                         | fuel-out
  (param-compat)       → (fp (<tag>…)…) (bp (<tag>…)…) | fuel-out
  (canonical)          → (canon <id>…)
  (tag-type <tag>)     → <type id> | none
  (tag-types)          → (tt (<tag> <type id | _>)…)   for every tag of the input, in canonical order
  (is-type <pattern> <tag>)   → true | false | fuel-out     (through `typeCompat` + `isType`)
  (message fn|builtin|other <id> <tag>)  → true | false | fuel-out  (`paramCompat` + `checkMessage`)
  (compat a b)         → true | false | fuel-out
  (sound <pattern> <tag> efuel width)   every enumerated inhabitant of the tag's type inhabits the
                         pattern → ok <n> | (bad <value>) | no-type
  (classes)            → string over f c x (as qm_c09)
  tag ::= i | b | r | (t <id>) | (f <id>) | (u <id>) | (p <id>) | (x <id>)
-/
open QM QM.Types

structure C08State where
  inp : CInput := ⟨⟨[], []⟩, [], [], []⟩

def c08Fuel : Nat := 300

def tagOfSx : Sx → Option CTag
  | .atom "i" => some .integer
  | .atom "b" => some .binary
  | .atom "r" => some .reference
  | .list [.atom "t", n] => n.asNat.map .tuple
  | .list [.atom "f", n] => n.asNat.map .function
  | .list [.atom "u", n] => n.asNat.map .builtin
  | .list [.atom "p", n] => n.asNat.map .process
  | .list [.atom "x", n] => n.asNat.map .resource
  | _ => none

def renderTag : CTag → String
  | .integer => "i"
  | .binary => "b"
  | .reference => "r"
  | .tuple n => s!"(t {n})"
  | .function n => s!"(f {n})"
  | .builtin n => s!"(u {n})"
  | .process n => s!"(p {n})"
  | .resource n => s!"(x {n})"

/-- `allTags` order is the canonical order of a rendered set (the model's sets are sub-lists of it) -/
def renderSet (s : List CTag) : String :=
  "(" ++ " ".intercalate (s.map renderTag) ++ ")"

def renderSets (ss : List (List CTag)) : String :=
  " ".intercalate (ss.map renderSet)

def fnOfSx : Sx → Option FnInfo
  | .list (t :: is) =>
    match t.asNat, listMapM Sx.asNat is with
    | some t, some is => some ⟨t, is⟩
    | _, _ => none
  | _ => none

def pairOfSx : Sx → Option (Nat × Nat)
  | .list [a, b] =>
    match a.asNat, b.asNat with
    | some a, some b => some (a, b)
    | _, _ => none
  | _ => none

def boolS (b : Bool) : String := if b then "true" else "false"

def c08Step (s : C08State) (req : List Sx) : C08State × String :=
  let inp := s.inp
  let T := inp.table
  match req with
  | [.list [.atom "program", tbl, .list (.atom "functions" :: fs), .list (.atom "builtins" :: bs),
      .list (.atom "resources" :: rs)]] =>
    match Table.ofSx tbl, listMapM fnOfSx fs, listMapM pairOfSx bs, listMapM Sx.asNat rs with
    | some T', some fs, some bs, some rs =>
      ({ inp := ⟨T', fs, bs, rs⟩ }, s!"ok types={T'.types.length} functions={fs.length}")
    | _, _, _, _ => (s, "bad-request")
  | [.list [.atom "type-compat"]] =>
    match typeCompat inp c08Fuel with
    | some tc => (s, "(tc " ++ renderSets tc ++ ")")
    | none => (s, "fuel-out")
  | [.list [.atom "param-compat"]] =>
    match paramCompat inp c08Fuel with
    | some (fp, bp) => (s, "(fp " ++ renderSets fp ++ ") (bp " ++ renderSets bp ++ ")")
    | none => (s, "fuel-out")
  | [.list [.atom "canonical"]] =>
    (s, "(canon" ++ String.join ((canonicalTuples T.tuples).map (fun i => s!" {i}")) ++ ")")
  | [.list [.atom "tag-type", c]] =>
    match tagOfSx c with
    | some c =>
      match tagType inp (TypeIndex.build T) c with
      | some id => (s, toString id)
      | none => (s, "none")
    | none => (s, "bad-request")
  | [.list [.atom "tag-types"]] =>
    let idx := TypeIndex.build T
    (s, "(tt" ++ String.join ((allTags inp).map (fun c =>
      " (" ++ renderTag c ++ " " ++ (match tagType inp idx c with | some id => toString id | none => "_") ++ ")")) ++ ")")
  | [.list [.atom "is-type", p, c]] =>
    match p.asNat, tagOfSx c with
    | some p, some c =>
      match typeCompat inp c08Fuel with
      | some tc => (s, boolS (isType tc p c))
      | none => (s, "fuel-out")
    | _, _ => (s, "bad-request")
  | [.list [.atom "message", .atom kind, id, c]] =>
    match id.asNat, tagOfSx c with
    | some id, some c =>
      let src : Option Source :=
        if kind = "fn" then some (.function id) else if kind = "builtin" then some (.builtin id)
        else if kind = "other" then some .other else none
      match src, paramCompat inp c08Fuel with
      | some src, some (fp, bp) => (s, boolS (checkMessage fp bp c src))
      | none, _ => (s, "bad-request")
      | _, none => (s, "fuel-out")
    | _, _ => (s, "bad-request")
  | [.list [.atom "compat", a, b]] =>
    match a.asNat, b.asNat with
    | some a, some b => (s, renderOptBool (isCompatible T c08Fuel a b))
    | _, _ => (s, "bad-request")
  | [.list [.atom "classes"]] =>
    let n := T.types.length + 1
    let cs := (List.range T.types.length).map (fun t =>
      if foB T n t then 'f' else if closedB T n [] t then 'c' else 'x')
    (s, String.ofList cs)
  | [.list [.atom "sound", p, c, ef, w]] =>
    match p.asNat, tagOfSx c, ef.asNat, w.asNat with
    | some p, some c, some ef, some w =>
      match tagType inp (TypeIndex.build T) c with
      | none => (s, "no-type")
      | some id =>
        let vals := (enumInh T w ef 96 id).eraseDups
        match vals.find? (fun v => !inhB T 96 [] p v && !inhB T 400 [] p v) with
        | some v => (s, "(bad " ++ V.render v ++ ")")
        | none => (s, s!"ok {vals.length}")
    | _, _, _, _ => (s, "bad-request")
  | _ => (s, "bad-request")

def main : IO Unit := sxLoop c08Step {}
