import QuiverModel.Driver.SysCommon
/- qm_c04 — driver for M-Sys (protocol in Driver/SysCommon.lean). -/
def main : IO Unit := QM.sxLoop C04Driver.step {}
