import QuiverModel.Core.RefSem.Parse
/-
qm_c02 — driver for M-RefSem. Requests:
  (eval <program> <fuel>)  →  ok <canonical value> | err <Class> | fuel-out | unspecified <why> | unsupported
The evaluation is `QM.RefSem.evalProgram`, the definition `Theorems/C02.lean` is about.
-/
open QM QM.RefSem

def c02Step (_ : Unit) (req : List Sx) : Unit × String :=
  match req with
  | [.list [.atom "eval", prog, fuel]] =>
    match parseProgram prog, fuel.asNat with
    | some steps, some n =>
      if programTailOk steps then ((), renderRes (evalProgram n steps))
      else ((), "unsupported tail-call-outside-tail-position")
    | none, _ => ((), "unsupported unparsable-program")
    | _, none => ((), "bad-request")
  | _ => ((), "bad-request")

def main : IO Unit := sxLoop c02Step ()
