import QuiverModel.Core.RefSem.Parse
import QuiverModel.Core.RefSem.Compile0
import QuiverModel.Core.RefSem.Compile1
import QuiverModel.Core.RefSem.Compile2
import QuiverModel.Core.RefSem.Compile3
import QuiverModel.Core.RefSem.Compile4
import QuiverModel.Core.RefSem.Compile5
/-
qm_c02 — driver for M-RefSem. Requests:
  (eval <program> <fuel>)  →  ok <canonical value> | err <Class> | fuel-out | unspecified <why> | unsupported
  (compile0 <chain>)       →  ok <instruction>*          (fragment compiler model, Core/RefSem/Compile0)
  (compile0seq <chain>+)   →  ok <instruction>*          (sequence `c₁, c₂, …` of the fragment: + dup, not, jumpif<off>)
      chain ::= (ch term*)    term ::= (i z cidx) | (~) | (t id chain*)
      instructions print as pop, const<i>, pick<k>, tuple<id>, rot<n>
  (compile1 <chain1>+)     →  ok <instruction>*          (Core/RefSem/Compile1: + locals, bindings, simple matches;
                                                          compiled with one anonymous slot, the entry parameter)
  (eval1 <chain1>+)        →  ok <value> <locals>… | stuck   (the meaning function `C1.evalSq` from nil, locals [nil])
      term1 ::= (i z cidx) | (~) | (t id chain1*) | (v x) | (m pat)
      pat ::= (pt sub) | (ptup sub*)      sub ::= (b x) | (w) | (l z cidx)
      values print as i<z> | t(<id>;v,…)
  (compile3 (fns (fn <fi> (caps x …) branch+)…) <chain3>+)  →  ok <entry code> ; f<fi> <code> ; …   (Compile3: + functions)
  (eval3 <fuel> (fns …) <chain3>+)                           →  ok <value> | stuck
      term3 ::= term2 | (fnlit <fi> x …) | (call x) | (callnil x)        function values print as f<fi>
  (compile4 (fns …) <chain4>+)  →  as compile3                             (Compile4: + `^` and builtin calls)
  (eval4 <fuel> (bis (<index> <name>)…) (fns …) <chain4>+)  →  ok <value> | stuck
      term4 ::= term3 | (tail) | (bcall <index>)
  (compile5 …) / (eval5 …)  →  as compile4 / eval4                          (Compile5: + named tail calls)
      term5 ::= term4 | (tailn x)
  (compile2 <chain2>+) / (eval2 <chain2>+)   the same with blocks (Core/RefSem/Compile2):
      term2 ::= term1 | (blk branch+)      branch ::= (br (s chain2+)) | (br (s chain2+) (s chain2+))
The evaluation is `QM.RefSem.evalProgram`, the compilation `QM.RefSem.C0.compileCh` — the definitions
`Theorems/C02.lean` / `Theorems/C02Compile.lean` are about.
-/
open QM QM.RefSem

namespace C0Glue
open QM.RefSem.C0

mutual
  partial def parseT : Sx → Option T0
    | .list [.atom "i", z, c] =>
      match z.asInt, c.asNat with
      | some z, some c => some (.int z c)
      | _, _ => none
    | .list [.atom "~"] => some .ripple
    | .list (.atom "t" :: id :: fs) =>
      match id.asNat, parseFs fs with
      | some id, some fs => some (.tup id fs)
      | _, _ => none
    | _ => none
  partial def parseCh : Sx → Option Ch0
    | .list (.atom "ch" :: ts) => parseTs ts
    | _ => none
  partial def parseTs : List Sx → Option Ch0
    | [] => some .nil
    | t :: r =>
      match parseT t, parseTs r with
      | some t, some r => some (.cons t r)
      | _, _ => none
  partial def parseFs : List Sx → Option Fs0
    | [] => some .nil
    | c :: r =>
      match parseCh c, parseFs r with
      | some c, some r => some (.cons c r)
      | _, _ => none
end

partial def parseSq : List Sx → Option Sq0
  | [c] => (parseCh c).map Sq0.last
  | c :: r =>
    match parseCh c, parseSq r with
    | some c, some r => some (.cons c r)
    | _, _ => none
  | [] => none

def showInstr : QM.VM.Instr → String
  | .pop => "pop"
  | .constant i => s!"const{i}"
  | .pick k => s!"pick{k}"
  | .tuple id => s!"tuple{id}"
  | .rotate n => s!"rot{n}"
  | .duplicate => "dup"
  | .not => "not"
  | .jumpIf off => s!"jumpif{off}"
  | .load k => s!"load{k}"
  | .store => "store"
  | .reset n => s!"reset{n}"
  | .jump off => s!"jump{off}"
  | .get k => s!"get{k}"
  | .equal n => s!"equal{n}"
  | .isType id => s!"istype{id}"
  | .function i => s!"function{i}"
  | .call => "call"
  | .tailCall true => "tailself"
  | .tailCall false => "tailnamed"
  | .builtin i => s!"builtin{i}"
  | _ => "?"
end C0Glue

namespace C1Glue
open QM.RefSem.C1

def parseSub : Sx → Option Sub
  | .list [.atom "b", .atom x] => some (.bind x)
  | .list [.atom "w"] => some .wild
  | .list [.atom "l", z, c] =>
    match z.asInt, c.asNat with
    | some z, some c => some (.lit z c)
    | _, _ => none
  | _ => none

def parseSubs : List Sx → Option (List Sub)
  | [] => some []
  | s :: r =>
    match parseSub s, parseSubs r with
    | some s, some r => some (s :: r)
    | _, _ => none

def parsePat : Sx → Option Pat1
  | .list [.atom "pt", s] => (parseSub s).map Pat1.top
  | .list (.atom "ptup" :: ss) => (parseSubs ss).map Pat1.tup
  | _ => none

mutual
  partial def parseT : Sx → Option T1
    | .list [.atom "i", z, c] =>
      match z.asInt, c.asNat with
      | some z, some c => some (.int z c)
      | _, _ => none
    | .list [.atom "~"] => some .ripple
    | .list [.atom "v", .atom x] => some (.var x)
    | .list [.atom "m", p] => (parsePat p).map T1.mtch
    | .list (.atom "t" :: id :: fs) =>
      match id.asNat, parseFs fs with
      | some id, some fs => some (.tup id fs)
      | _, _ => none
    | _ => none
  partial def parseCh : Sx → Option Ch1
    | .list (.atom "ch" :: ts) => parseTs ts
    | _ => none
  partial def parseTs : List Sx → Option Ch1
    | [] => some .nil
    | t :: r =>
      match parseT t, parseTs r with
      | some t, some r => some (.cons t r)
      | _, _ => none
  partial def parseFs : List Sx → Option Fs1
    | [] => some .nil
    | c :: r =>
      match parseCh c, parseFs r with
      | some c, some r => some (.cons c r)
      | _, _ => none
end

partial def parseSq : List Sx → Option Sq1
  | [c] => (parseCh c).map Sq1.last
  | c :: r =>
    match parseCh c, parseSq r with
    | some c, some r => some (.cons c r)
    | _, _ => none
  | [] => none

partial def showVal : QM.VM.Val → String
  | .int z => s!"i{z}"
  | .tup id fs => s!"t({id};" ++ ",".intercalate (fs.toList.map showVal) ++ ")"
  | _ => "?"

/-- the entry function's frame: one anonymous slot holding the (nil) parameter -/
def Γ₀ : List String := [""]
end C1Glue

namespace C2Glue
open QM.RefSem.C2
open QM.RefSem.C1 (Sub Pat1)
open C1Glue (parsePat)

mutual
  partial def parseT : Sx → Option T2
    | .list [.atom "i", z, c] =>
      match z.asInt, c.asNat with
      | some z, some c => some (.int z c)
      | _, _ => none
    | .list [.atom "~"] => some .ripple
    | .list [.atom "v", .atom x] => some (.var x)
    | .list [.atom "m", p] => (C1Glue.parsePat p).map T2.mtch
    | .list (.atom "blk" :: bs) => (parseBrs bs).map T2.block
    | .list (.atom "t" :: id :: fs) =>
      match id.asNat, parseFs fs with
      | some id, some fs => some (.tup id fs)
      | _, _ => none
    | _ => none
  partial def parseCh : Sx → Option Ch2
    | .list (.atom "ch" :: ts) => parseTs ts
    | _ => none
  partial def parseTs : List Sx → Option Ch2
    | [] => some .nil
    | t :: r =>
      match parseT t, parseTs r with
      | some t, some r => some (.cons t r)
      | _, _ => none
  partial def parseFs : List Sx → Option Fs2
    | [] => some .nil
    | c :: r =>
      match parseCh c, parseFs r with
      | some c, some r => some (.cons c r)
      | _, _ => none
  partial def parseSq : List Sx → Option Sq2
    | [c] => (parseCh c).map Sq2.last
    | c :: r =>
      match parseCh c, parseSq r with
      | some c, some r => some (.cons c r)
      | _, _ => none
    | [] => none
  partial def parseS : Sx → Option Sq2
    | .list (.atom "s" :: cs) => parseSq cs
    | _ => none
  partial def parseBrs : List Sx → Option Brs2
    | [] => some .nil
    | .list [.atom "br", c] :: r =>
      match parseS c, parseBrs r with
      | some c, some r => some (.cons c .none r)
      | _, _ => none
    | .list [.atom "br", c, k] :: r =>
      match parseS c, parseS k, parseBrs r with
      | some c, some k, some r => some (.cons c (.some k) r)
      | _, _, _ => none
    | _ => none
end

partial def showVal : QM.VM.Val → String
  | .int z => s!"i{z}"
  | .tup id fs => s!"t({id};" ++ ",".intercalate (fs.toList.map showVal) ++ ")"
  | _ => "?"

/-- the entry function's frame: one anonymous slot holding the (nil) parameter -/
def Γ₀ : List String := [""]
end C2Glue

namespace C3Glue
open QM.RefSem.C3
open QM.RefSem.C1 (Sub Pat1)
open C1Glue (parsePat)

mutual
  partial def parseT : Sx → Option T3
    | .list [.atom "i", z, c] =>
      match z.asInt, c.asNat with
      | some z, some c => some (.int z c)
      | _, _ => none
    | .list [.atom "~"] => some .ripple
    | .list [.atom "v", .atom x] => some (.var x)
    | .list [.atom "m", p] => (C1Glue.parsePat p).map T3.mtch
    | .list (.atom "blk" :: bs) => (parseBrs bs).map T3.block
    | .list (.atom "fnlit" :: fi :: caps) =>
      match fi.asNat with
      | some fi => some (.fnlit fi (caps.filterMap (fun | .atom a => some a | _ => none)))
      | none => none
    | .list [.atom "call", .atom x] => some (.call x)
    | .list [.atom "callnil", .atom x] => some (.callNil x)
    | .list (.atom "t" :: id :: fs) =>
      match id.asNat, parseFs fs with
      | some id, some fs => some (.tup id fs)
      | _, _ => none
    | _ => none
  partial def parseCh : Sx → Option Ch3
    | .list (.atom "ch" :: ts) => parseTs ts
    | _ => none
  partial def parseTs : List Sx → Option Ch3
    | [] => some .nil
    | t :: r =>
      match parseT t, parseTs r with
      | some t, some r => some (.cons t r)
      | _, _ => none
  partial def parseFs : List Sx → Option Fs3
    | [] => some .nil
    | c :: r =>
      match parseCh c, parseFs r with
      | some c, some r => some (.cons c r)
      | _, _ => none
  partial def parseSq : List Sx → Option Sq3
    | [c] => (parseCh c).map Sq3.last
    | c :: r =>
      match parseCh c, parseSq r with
      | some c, some r => some (.cons c r)
      | _, _ => none
    | [] => none
  partial def parseS : Sx → Option Sq3
    | .list (.atom "s" :: cs) => parseSq cs
    | _ => none
  partial def parseBrs : List Sx → Option Brs3
    | [] => some .nil
    | .list [.atom "br", c] :: r =>
      match parseS c, parseBrs r with
      | some c, some r => some (.cons c .none r)
      | _, _ => none
    | .list [.atom "br", c, k] :: r =>
      match parseS c, parseS k, parseBrs r with
      | some c, some k, some r => some (.cons c (.some k) r)
      | _, _, _ => none
    | _ => none
end

partial def showVal : QM.VM.Val → String
  | .int z => s!"i{z}"
  | .tup id fs => s!"t({id};" ++ ",".intercalate (fs.toList.map showVal) ++ ")"
  | _ => "?"

/-- the entry function's frame: one anonymous slot holding the (nil) parameter -/
def Γ₀ : List String := [""]
/-- `(fns (fn <fi> (caps x …) (br …)+) …)` -/
partial def parseFns : List Sx → Option QM.RefSem.C3.FTab
  | [] => some []
  | .list (.atom "fn" :: fi :: .list (.atom "caps" :: caps) :: bs) :: r =>
    match fi.asNat, parseBrs bs, parseFns r with
    | some fi, some body, some r =>
      some ((fi, ⟨caps.filterMap (fun | .atom a => some a | _ => none), body⟩) :: r)
    | _, _, _ => none
  | _ => none

partial def showVal3 : QM.VM.Val → String
  | .int z => s!"i{z}"
  | .tup id fs => s!"t({id};" ++ ",".intercalate (fs.toList.map showVal3) ++ ")"
  | .fn fi _ => s!"f{fi}"
  | _ => "?"
end C3Glue

namespace C4Glue
open QM.RefSem.C4
open QM.RefSem.C1 (Sub Pat1)

mutual
  partial def parseT : Sx → Option T4
    | .list [.atom "i", z, c] =>
      match z.asInt, c.asNat with
      | some z, some c => some (.int z c)
      | _, _ => none
    | .list [.atom "~"] => some .ripple
    | .list [.atom "v", .atom x] => some (.var x)
    | .list [.atom "m", p] => (C1Glue.parsePat p).map T4.mtch
    | .list (.atom "blk" :: bs) => (parseBrs bs).map T4.block
    | .list (.atom "fnlit" :: fi :: caps) =>
      match fi.asNat with
      | some fi => some (.fnlit fi (caps.filterMap (fun | .atom a => some a | _ => none)))
      | none => none
    | .list [.atom "call", .atom x] => some (.call x)
    | .list [.atom "callnil", .atom x] => some (.callNil x)
    | .list [.atom "tail"] => some .tailSelf
    | .list [.atom "bcall", i] => i.asNat.map T4.bcall
    | .list (.atom "t" :: id :: fs) =>
      match id.asNat, parseFs fs with
      | some id, some fs => some (.tup id fs)
      | _, _ => none
    | _ => none
  partial def parseCh : Sx → Option Ch4
    | .list (.atom "ch" :: ts) => parseTs ts
    | _ => none
  partial def parseTs : List Sx → Option Ch4
    | [] => some .nil
    | t :: r =>
      match parseT t, parseTs r with
      | some t, some r => some (.cons t r)
      | _, _ => none
  partial def parseFs : List Sx → Option Fs4
    | [] => some .nil
    | c :: r =>
      match parseCh c, parseFs r with
      | some c, some r => some (.cons c r)
      | _, _ => none
  partial def parseSq : List Sx → Option Sq4
    | [c] => (parseCh c).map Sq4.last
    | c :: r =>
      match parseCh c, parseSq r with
      | some c, some r => some (.cons c r)
      | _, _ => none
    | [] => none
  partial def parseS : Sx → Option Sq4
    | .list (.atom "s" :: cs) => parseSq cs
    | _ => none
  partial def parseBrs : List Sx → Option Brs4
    | [] => some .nil
    | .list [.atom "br", c] :: r =>
      match parseS c, parseBrs r with
      | some c, some r => some (.cons c .none r)
      | _, _ => none
    | .list [.atom "br", c, k] :: r =>
      match parseS c, parseS k, parseBrs r with
      | some c, some k, some r => some (.cons c (.some k) r)
      | _, _, _ => none
    | _ => none
end

partial def parseFns : List Sx → Option FTab
  | [] => some []
  | .list (.atom "fn" :: fi :: .list (.atom "caps" :: caps) :: bs) :: r =>
    match fi.asNat, parseBrs bs, parseFns r with
    | some fi, some body, some r =>
      some ((fi, ⟨caps.filterMap (fun | .atom a => some a | _ => none), body⟩) :: r)
    | _, _, _ => none
  | _ => none

/-- `(bis (<index> <name>) …)`: which builtin sits at which index of the program's table -/
def parseBis : List Sx → List (Nat × String)
  | .list [i, .atom n] :: r => (match i.asNat with | some i => [(i, n)] | none => []) ++ parseBis r
  | _ => []

/-- the meaning of the integer builtins the fragment's generator uses (quiver-core builtins/integer.rs:
arbitrary-precision arithmetic on a two-field tuple of integers); nothing else has a meaning here -/
def biSem (tab : List (Nat × String)) (i : Nat) (arg : QM.VM.Val) : Option QM.VM.Val :=
  match tab.lookup i, arg with
  | some name, .tup _ (.cons (.int a) (.cons (.int b) .nil)) =>
    if name = "integer_add" then some (.int (a + b))
    else if name = "integer_subtract" then some (.int (a - b))
    else if name = "integer_multiply" then some (.int (a * b))
    else none
  | _, _ => none
end C4Glue

namespace C5Glue
open QM.RefSem.C5
open QM.RefSem.C1 (Sub Pat1)

mutual
  partial def parseT : Sx → Option T4
    | .list [.atom "i", z, c] =>
      match z.asInt, c.asNat with
      | some z, some c => some (.int z c)
      | _, _ => none
    | .list [.atom "~"] => some .ripple
    | .list [.atom "v", .atom x] => some (.var x)
    | .list [.atom "m", p] => (C1Glue.parsePat p).map T4.mtch
    | .list (.atom "blk" :: bs) => (parseBrs bs).map T4.block
    | .list (.atom "fnlit" :: fi :: caps) =>
      match fi.asNat with
      | some fi => some (.fnlit fi (caps.filterMap (fun | .atom a => some a | _ => none)))
      | none => none
    | .list [.atom "call", .atom x] => some (.call x)
    | .list [.atom "callnil", .atom x] => some (.callNil x)
    | .list [.atom "tail"] => some .tailSelf
    | .list [.atom "bcall", i] => i.asNat.map T4.bcall
    | .list [.atom "tailn", .atom x] => some (.tailNamed x)
    | .list (.atom "t" :: id :: fs) =>
      match id.asNat, parseFs fs with
      | some id, some fs => some (.tup id fs)
      | _, _ => none
    | _ => none
  partial def parseCh : Sx → Option Ch4
    | .list (.atom "ch" :: ts) => parseTs ts
    | _ => none
  partial def parseTs : List Sx → Option Ch4
    | [] => some .nil
    | t :: r =>
      match parseT t, parseTs r with
      | some t, some r => some (.cons t r)
      | _, _ => none
  partial def parseFs : List Sx → Option Fs4
    | [] => some .nil
    | c :: r =>
      match parseCh c, parseFs r with
      | some c, some r => some (.cons c r)
      | _, _ => none
  partial def parseSq : List Sx → Option Sq4
    | [c] => (parseCh c).map Sq4.last
    | c :: r =>
      match parseCh c, parseSq r with
      | some c, some r => some (.cons c r)
      | _, _ => none
    | [] => none
  partial def parseS : Sx → Option Sq4
    | .list (.atom "s" :: cs) => parseSq cs
    | _ => none
  partial def parseBrs : List Sx → Option Brs4
    | [] => some .nil
    | .list [.atom "br", c] :: r =>
      match parseS c, parseBrs r with
      | some c, some r => some (.cons c .none r)
      | _, _ => none
    | .list [.atom "br", c, k] :: r =>
      match parseS c, parseS k, parseBrs r with
      | some c, some k, some r => some (.cons c (.some k) r)
      | _, _, _ => none
    | _ => none
end

partial def parseFns : List Sx → Option FTab
  | [] => some []
  | .list (.atom "fn" :: fi :: .list (.atom "caps" :: caps) :: bs) :: r =>
    match fi.asNat, parseBrs bs, parseFns r with
    | some fi, some body, some r =>
      some ((fi, ⟨caps.filterMap (fun | .atom a => some a | _ => none), body⟩) :: r)
    | _, _, _ => none
  | _ => none

end C5Glue

def c02Step (_ : Unit) (req : List Sx) : Unit × String :=
  match req with
  | [.list [.atom "eval", prog, fuel]] =>
    match parseProgram prog, fuel.asNat with
    | some steps, some n =>
      if programTailOk steps then ((), renderRes (evalProgram n steps))
      else ((), "unsupported tail-call-outside-tail-position")
    | none, _ => ((), "unsupported unparsable-program")
    | _, none => ((), "bad-request")
  | [.list [.atom "compile0", ch]] =>
    match C0Glue.parseCh ch with
    | some c => ((), "ok " ++ " ".intercalate ((QM.RefSem.C0.compileCh c).map C0Glue.showInstr))
    | none => ((), "bad-request")
  | [.list (.atom "compile0seq" :: chs)] =>
    match C0Glue.parseSq chs with
    | some sq => ((), "ok " ++ " ".intercalate ((QM.RefSem.C0.compileSq sq).map C0Glue.showInstr))
    | none => ((), "bad-request")
  | [.list (.atom "compile1" :: chs)] =>
    match C1Glue.parseSq chs with
    | some sq => ((), "ok " ++ " ".intercalate ((QM.RefSem.C1.compileSq C1Glue.Γ₀ sq).1.map C0Glue.showInstr))
    | none => ((), "bad-request")
  | [.list (.atom "eval1" :: chs)] =>
    match C1Glue.parseSq chs with
    | some sq =>
      match QM.RefSem.C1.evalSq C1Glue.Γ₀ [QM.VM.Val.nil] QM.VM.Val.nil sq with
      | some (v, L) => ((), "ok " ++ C1Glue.showVal v ++ " " ++ " ".intercalate (L.map C1Glue.showVal))
      | none => ((), "stuck")
    | none => ((), "bad-request")
  | [.list (.atom "compile2" :: chs)] =>
    match C2Glue.parseSq chs with
    | some sq => ((), "ok " ++ " ".intercalate ((QM.RefSem.C2.compileSq C2Glue.Γ₀ sq).1.map C0Glue.showInstr))
    | none => ((), "bad-request")
  | [.list (.atom "eval2" :: chs)] =>
    match C2Glue.parseSq chs with
    | some sq =>
      match QM.RefSem.C2.evalSq C2Glue.Γ₀ [QM.VM.Val.nil] QM.VM.Val.nil sq with
      | some (v, L) => ((), "ok " ++ C2Glue.showVal v ++ " " ++ " ".intercalate (L.map C2Glue.showVal))
      | none => ((), "stuck")
    | none => ((), "bad-request")
  | [.list (.atom "compile3" :: .list (.atom "fns" :: fns) :: chs)] =>
    match C3Glue.parseFns fns, C3Glue.parseSq chs with
    | some Φ, some sq =>
      let entry := " ".intercalate ((QM.RefSem.C3.compileSq C3Glue.Γ₀ sq).1.map C0Glue.showInstr)
      let fs := Φ.map (fun (fi, d) => s!" ; f{fi} " ++ " ".intercalate ((QM.RefSem.C3.fnCode d).map C0Glue.showInstr))
      ((), "ok " ++ entry ++ String.join fs)
    | _, _ => ((), "bad-request")
  | [.list (.atom "eval3" :: fuel :: .list (.atom "fns" :: fns) :: chs)] =>
    match fuel.asNat, C3Glue.parseFns fns, C3Glue.parseSq chs with
    | some n, some Φ, some sq =>
      match QM.RefSem.C3.evalSq (QM.RefSem.C3.callSem Φ n) C3Glue.Γ₀ [QM.VM.Val.nil] QM.VM.Val.nil sq with
      | some (v, _) => ((), "ok " ++ C3Glue.showVal3 v)
      | none => ((), "stuck")
    | _, _, _ => ((), "bad-request")
  | [.list (.atom "compile4" :: .list (.atom "fns" :: fns) :: chs)] =>
    match C4Glue.parseFns fns, C4Glue.parseSq chs with
    | some Φ, some sq =>
      let entry := " ".intercalate ((QM.RefSem.C4.compileSq C3Glue.Γ₀ sq).1.map C0Glue.showInstr)
      let fs := Φ.map (fun (fi, d) => s!" ; f{fi} " ++ " ".intercalate ((QM.RefSem.C4.fnCode d).map C0Glue.showInstr))
      ((), "ok " ++ entry ++ String.join fs)
    | _, _ => ((), "bad-request")
  | [.list (.atom "eval4" :: fuel :: .list (.atom "bis" :: bis) :: .list (.atom "fns" :: fns) :: chs)] =>
    match fuel.asNat, C4Glue.parseFns fns, C4Glue.parseSq chs with
    | some n, some Φ, some sq =>
      match QM.RefSem.C4.evalSq (QM.RefSem.C4.topSem Φ (C4Glue.biSem (C4Glue.parseBis bis)) n) C3Glue.Γ₀
          [QM.VM.Val.nil] QM.VM.Val.nil sq with
      | some (.norm v _) => ((), "ok " ++ C3Glue.showVal3 v)
      | some (.exit v) => ((), "ok " ++ C3Glue.showVal3 v)
      | none => ((), "stuck")
    | _, _, _ => ((), "bad-request")
  | [.list (.atom "compile5" :: .list (.atom "fns" :: fns) :: chs)] =>
    match C5Glue.parseFns fns, C5Glue.parseSq chs with
    | some Φ, some sq =>
      let entry := " ".intercalate ((QM.RefSem.C5.compileSq C3Glue.Γ₀ sq).1.map C0Glue.showInstr)
      let fs := Φ.map (fun (fi, d) => s!" ; f{fi} " ++ " ".intercalate ((QM.RefSem.C5.fnCode d).map C0Glue.showInstr))
      ((), "ok " ++ entry ++ String.join fs)
    | _, _ => ((), "bad-request")
  | [.list (.atom "eval5" :: fuel :: .list (.atom "bis" :: bis) :: .list (.atom "fns" :: fns) :: chs)] =>
    match fuel.asNat, C5Glue.parseFns fns, C5Glue.parseSq chs with
    | some n, some Φ, some sq =>
      match QM.RefSem.C5.evalSq (QM.RefSem.C5.topSem Φ (C4Glue.biSem (C4Glue.parseBis bis)) n) C3Glue.Γ₀
          [QM.VM.Val.nil] QM.VM.Val.nil sq with
      | some (.norm v _) => ((), "ok " ++ C3Glue.showVal3 v)
      | some (.exit v) => ((), "ok " ++ C3Glue.showVal3 v)
      | none => ((), "stuck")
    | _, _, _ => ((), "bad-request")
  | _ => ((), "bad-request")

def main : IO Unit := sxLoop c02Step ()
