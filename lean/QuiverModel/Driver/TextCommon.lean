import QuiverModel.Core.Prelude
import QuiverModel.Core.Text.Doc
import QuiverModel.Core.Text.Escape
import QuiverModel.Core.Text.Scan
import QuiverModel.Core.Text.Fragment
/-
Requests shared by `qm_c17` and `qm_c18` (M-Text). Strings travel as hex of their UTF-8 bytes; the
empty string is `-`.

  print <width> <doc> | flatten <doc> | flatwidth <max> <doc> | forcesbreak <doc>      (see Driver/C17)
  decode-single <hex>          → ok <hex> | err <escape-offset> <length> <hex-escape>
  segments <hex>               → closed <hex> <hex-rest> | hole <hex> <hex-rest> | unterminated | bad-escape
  dedent <hex>                 → none | some <hex>
  ml-string <hex-raw>          → none | some <hex>                 (process_multiline_string)
  ml-segments <hex-raw>        → text <hex> | hole <hex> <hex-rest> | malformed
  escape-single <hex> | escape-multi <hex> | protect <hex> | collapse <hex>  → s:<hex>
  fmt-ml <depth> <hex-value>   → s:<hex>   model of format_program on `x = [[…"""v"""…]]` (depth brackets)
  fmt-ml-roundtrip <depth> <hex-value> → none | some <hex>   decode of the literal inside that output
  scan-single <hex> | scan-multi <hex>        → none | some <idx>
  pattern-single <hex> | pattern-multi <hex>  → ok <hex> <hex-rest> | unterminated | malformed | panic
  detect <hex-source>          → UnterminatedString | …
  span <hex-input> <offset>    → <offset> <line> <column> <length>
  frag-fmt (p <term>+)         → s:<hex>   model of format_program on the fragment (Core/Text/Fragment)
  frag-print <width> (p <term>+) → s:<hex>   print (programDoc terms) width
  frag-parse <hex-source>      → ok (pp (p <term>+)*) <hex-rest> | err <offset-from-end> <code> | out   (programP)
      <term> ::= (l <hex-name>) | (a <hex-name> ((f <hex-field>) | (x <index>))+) | (c <term> <term>+) | (s <hex-string-value>) | (i <decimal>) | (b <hex-bytes | ->) | (t <hex-tuple-name | _> <field>*)    <field> ::= (u <term>) | (n <hex-label> <term>)
-/
open QM QM.Text

def hexToChars (h : String) : Option (List Char) :=
  if h = "-" then some [] else
  match parseHex h with
  | none => none
  | some bs =>
    match String.fromUTF8? (ByteArray.mk bs.toArray) with
    | some s => some s.toList
    | none => none

def charsToHex (cs : List Char) : String :=
  if cs.isEmpty then "-" else toHex (String.ofList cs).toUTF8.toList

/-- result payload: `s:` + hex (empty string = `s:`) -/
def sHex (cs : List Char) : String := "s:" ++ toHex (String.ofList cs).toUTF8.toList

partial def docOfSx : Sx → Option Doc
  | .atom "nil" => some .nil
  | .atom "line" => some .line
  | .atom "softline" => some .softline
  | .atom "hardline" => some .hardline
  | .atom "bp" => some .breakParent
  | .list [.atom "t"] => some (.text [])
  | .list [.atom "t", .atom h] => (hexToChars h).map .text
  | .list (.atom "c" :: ds) => (ds.mapM docOfSx).map .concat
  | .list [.atom "n", k, d] =>
    match k.asNat, docOfSx d with
    | some k, some d => some (.nest k d)
    | _, _ => none
  | .list [.atom "g", .atom "0", d] => (docOfSx d).map (fun d => .group d false)
  | .list [.atom "g", .atom "1", d] => (docOfSx d).map (fun d => .group d true)
  | .list [.atom "gg", d] => (docOfSx d).map Doc.mkGroup
  | .list [.atom "ib", b, f] =>
    match docOfSx b, docOfSx f with
    | some b, some f => some (.ifBreak b f)
    | _, _ => none
  | .list [.atom "ls", d] => (docOfSx d).map .lineSuffix
  | _ => none

/-- `format.rs::bracketed(open, close, [item], trailing = true)` for a single item. -/
def bracketed1 (opn : List Char) (item : Doc) : Doc :=
  Doc.mkGroup (.concat [
    .text opn,
    .nest 2 (.concat [.softline, Doc.join (.concat [.text [','], .line]) [item],
      .ifBreak (.text [',']) .nil]),
    .softline,
    .text [']']])

/-- The `Doc` that `format.rs` builds for the one-statement program `x = [[…"""v"""…]]`
    (`depth` anonymous one-field tuples around a text-only multi-line string): `statement_doc` →
    `sequence_doc` → `chain_doc` (binding with a single term) → `tuple_doc`/`bracketed` → `field_doc`
    → `chain_doc` → `multiline_string_doc`; no trivia. -/
def mlValueDoc : Nat → List Char → Doc
  | 0, _ => multilineDoc 0
  | n + 1, v =>
    -- field_doc: concat [leading, value, trailing]; value = chain_doc(field chain)
    let inner := mlValueDoc n v
    let fieldChain := Doc.concat [.nil, Doc.mkGroup (breakIfWiderThan (.concat [inner]) 50)]
    bracketed1 ['['] (.concat [.nil, fieldChain, .nil])

def mlProgramDoc (depth : Nat) (v : List Char) : Doc :=
  let term := mlValueDoc depth v
  let chain := Doc.concat [.text ['x', ' ', '=', ' '], Doc.mkGroup (breakIfWiderThan (.concat [term]) 50)]
  let item := Doc.concat [.nil, chain, .nil]
  let seq := Doc.mkGroup (.concat [item, .nest 0 (.concat [])])
  Doc.join .hardline [seq]

/-- model of `format_program` on that program: lay out (with the placeholder line), collapse blank
    lines, then put the literal's content lines back. -/
def fmtMl (depth : Nat) (v : List Char) : List Char :=
  match expandLiterals (collapseBlanks (print (mlProgramDoc depth v) 100)) [multilineLines v] with
  | some out => out
  | none => "<panic: literal index out of range>".toList

/-- The raw text between the `"""` delimiters of the (only) multi-line literal in `out`. -/
def rawBetweenTriple (out : List Char) : Option (List Char) :=
  let rec find : List Char → Option (List Char)
    | '"' :: '"' :: '"' :: rest => some rest
    | _ :: rest => find rest
    | [] => none
  match find out with
  | none => none
  | some body =>
    match scanCloseMulti body with
    | none => none
    | some idx => takeBytes idx body

def renderSeg : SegResult → String
  | .closed t r => s!"closed {charsToHex t} {charsToHex r}"
  | .hole t r => s!"hole {charsToHex t} {charsToHex r}"
  | .unterminated => "unterminated"
  | .badEscape => "bad-escape"

def renderLit : LitResult → String
  | .ok v r => s!"ok {charsToHex v} {charsToHex r}"
  | .unterminated => "unterminated"
  | .malformed => "malformed"
  | .panic => "panic"

def renderOpt : Option (List Char) → String
  | some cs => s!"some {charsToHex cs}"
  | none => "none"

def fragAccOfSx : Sx → Option QM.Frag.Acc
  | .list [.atom "f", .atom h] => (hexToChars h).map .field
  | .list [.atom "x", n] => n.asNat.map .index
  | _ => none

mutual
partial def fragOfSx : Sx → Option QM.Frag.T
  | .list [.atom "l", .atom h] => (hexToChars h).map .leaf
  | .list (.atom "a" :: .atom h :: path) =>
    match hexToChars h, path.mapM fragAccOfSx with
    | some n, some p => some (.acc n p)
    | _, _ => none
  | .list (.atom "c" :: t :: more) =>
    match fragOfSx t, more.mapM fragOfSx with
    | some t, some more => some (.chain t more)
    | _, _ => none
  | .list [.atom "s", .atom h] => (hexToChars h).map .str
  | .list [.atom "i", .atom d] => d.toInt?.map .int
  | .list [.atom "b", .atom h] =>
    if h = "-" then some (.bin []) else (QM.parseHexNat h.toList).map .bin
  | .list (.atom "t" :: .atom name :: fs) =>
    match (if name = "_" then some none else (hexToChars name).map some), fs.mapM fragFieldOfSx with
    | some name, some fs => some (.tup name fs)
    | _, _ => none
  | _ => none
partial def fragFieldOfSx : Sx → Option QM.Frag.F
  | .list [.atom "u", t] => (fragOfSx t).map (.mk none)
  | .list [.atom "n", .atom h, t] =>
    match hexToChars h, fragOfSx t with
    | some l, some t => some (.mk (some l) t)
    | _, _ => none
  | _ => none
end

mutual
partial def fragToSx : QM.Frag.T → String
  | .leaf n => s!"(l {charsToHex n})"
  | .acc n p =>
    "(a " ++ charsToHex n ++ String.join (p.map fun
      | .field f => s!" (f {charsToHex f})"
      | .index i => s!" (x {i})") ++ ")"
  | .chain t more => "(c " ++ fragToSx t ++ String.join (more.map (fun u => " " ++ fragToSx u)) ++ ")"
  | .str v => s!"(s {charsToHex v})"
  | .int i => s!"(i {i})"
  | .bin bs => "(b " ++ (if bs.isEmpty then "-" else String.ofList (QM.Frag.hexText bs)) ++ ")"
  | .tup name fs =>
    "(t " ++ (match name with | none => "_" | some n => charsToHex n) ++
      String.join (fs.map (fun f => " " ++ fragFieldToSx f)) ++ ")"
partial def fragFieldToSx : QM.Frag.F → String
  | .mk none t => s!"(u {fragToSx t})"
  | .mk (some l) t => s!"(n {charsToHex l} {fragToSx t})"
end

def textStep (req : List Sx) : String :=
  match req with
  | [.atom "frag-fmt", .list (.atom "p" :: ts)] =>
    match ts.mapM fragOfSx with
    | some ts => sHex (QM.Frag.fmtFrag ts)
    | none => "bad-request"
  | [.atom "frag-print", w, .list (.atom "p" :: ts)] =>
    match w.asNat, ts.mapM fragOfSx with
    | some w, some ts => sHex (print (QM.Frag.programDoc ts) w)
    | _, _ => "bad-request"
  | [.atom "frag-parse", .atom h] =>
    match hexToChars h with
    | none => "bad-request"
    | some cs =>
      match QM.Frag.programP cs with
      | .ok stmts rest =>
        let one (ts : List QM.Frag.T) := "(p" ++ String.join (ts.map (fun t => " " ++ fragToSx t)) ++ ")"
        s!"ok (pp{String.join (stmts.map (fun ts => " " ++ one ts))}) {charsToHex rest}"
      | .err pos code => s!"err {pos.length} {reprStr code}"
      | .out => "out"
  | [.atom "print", w, d] =>
    match w.asNat, docOfSx d with
    | some w, some d => sHex (print d w)
    | _, _ => "bad-request"
  | [.atom "flatten", d] =>
    match docOfSx d with
    | some d => sHex (flatten d)
    | none => "bad-request"
  | [.atom "flatwidth", m, d] =>
    match m.asNat, docOfSx d with
    | some m, some d =>
      match flatWidth d m with
      | some n => s!"some {n}"
      | none => "none"
    | _, _ => "bad-request"
  | [.atom "forcesbreak", d] =>
    match docOfSx d with
    | some d => if forcesBreak d then "true" else "false"
    | none => "bad-request"
  | [.atom op, .atom h] =>
    match hexToChars h with
    | none => "bad-request"
    | some cs =>
      if op = "decode-single" then
        match decodeSingle cs with
        | .ok v => s!"ok {charsToHex v}"
        | .error e => s!"err {e.escapeOffset} {e.length} {charsToHex e.escape}"
      else if op = "segments" then renderSeg (stringSegments cs)
      else if op = "dedent" then renderOpt (multilineDedent cs)
      else if op = "ml-string" then renderOpt (processMultilineString cs)
      else if op = "ml-segments" then
        match processMultilineSegments cs with
        | .text t => s!"text {charsToHex t}"
        | .hole t r => s!"hole {charsToHex t} {charsToHex r}"
        | .malformed => "malformed"
      else if op = "escape-single" then sHex (escapeSingle cs)
      else if op = "escape-multi" then sHex (escapeMultiText cs)
      else if op = "protect" then sHex (protectTrailingSpaces cs)
      else if op = "collapse" then sHex (collapseBlanks cs)
      else if op = "scan-single" then
        match scanCloseSingle cs with
        | some i => s!"some {i}"
        | none => "none"
      else if op = "scan-multi" then
        match scanCloseMulti cs with
        | some i => s!"some {i}"
        | none => "none"
      else if op = "pattern-single" then renderLit (singleLinePattern cs)
      else if op = "pattern-multi" then renderLit (multilinePattern cs)
      else if op = "detect" then (detectErrorKind cs).name
      else "bad-request"
  | [.atom "fmt-ml", k, .atom h] =>
    match k.asNat, hexToChars h with
    | some k, some v => sHex (fmtMl k v)
    | _, _ => "bad-request"
  | [.atom "fmt-ml-roundtrip", k, .atom h] =>
    match k.asNat, hexToChars h with
    | some k, some v =>
      match rawBetweenTriple (fmtMl k v) with
      | none => "none"
      | some raw =>
        match processMultilineSegments raw with
        | .text t => s!"some {charsToHex t}"
        | _ => "none"
    | _, _ => "bad-request"
  | [.atom "span", .atom h, o] =>
    match hexToChars h, o.asNat with
    | some cs, some off =>
      let s := spanOfSuffix cs off
      s!"{s.offset} {s.line} {s.column} {s.length}"
    | _, _ => "bad-request"
  | _ => "bad-request"
