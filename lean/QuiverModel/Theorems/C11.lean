import QuiverModel.Core.Repl.Basic
import QuiverModel.Core.Packaging.Sem
/-
C11 — REPL evaluation is equivalent to evaluating the lines as one program (property theorems about
the session state machine M-Repl).

  * `compact_preserves_lookup`       compaction never changes the value of a bound variable
  * `compact_localCount`             after compaction `local_count = max index + 1` equals the number of
                                     locals — the precondition of the next theorem
  * `runLine_preserves_aligned`      a line that stores its new bindings from `local_count` upwards and
                                     leaves the old slots alone keeps bindings and locals aligned
  * `misaligned_without_compaction`  …and the same line breaks alignment if compaction is skipped
  * `releaseOrphans_preserves_lookup`
  * `rejected_line_observationally_noop`
  * `persistent_frame_keeps_locals`  (+ its tie to the VM model's frame auto-pop)

That the compiler assigns indices as `runLine_preserves_aligned` assumes is *not* proved (the compiler
is not modelled); the harness checks it per line.
-/
namespace C11
open QM.Repl

variable {α : Type}

/-! ### Sorting and the index mapping -/

theorem mem_insertSorted {a b : Nat} {l : List Nat} : b ∈ insertSorted a l ↔ b = a ∨ b ∈ l := by
  induction l with
  | nil => simp [insertSorted]
  | cons c cs ih =>
    simp only [insertSorted]
    split
    · simp
    · simp only [List.mem_cons, ih]
      constructor
      · rintro (h | h | h)
        · exact Or.inr (Or.inl h)
        · exact Or.inl h
        · exact Or.inr (Or.inr h)
      · rintro (h | h | h)
        · exact Or.inr (Or.inl h)
        · exact Or.inl h
        · exact Or.inr (Or.inr h)

theorem mem_sortNat {b : Nat} {l : List Nat} : b ∈ sortNat l ↔ b ∈ l := by
  induction l with
  | nil => simp [sortNat]
  | cons a as ih => simp [sortNat, mem_insertSorted, ih]

theorem length_insertSorted (a : Nat) (l : List Nat) : (insertSorted a l).length = l.length + 1 := by
  induction l with
  | nil => simp [insertSorted]
  | cons c cs ih =>
    simp only [insertSorted]
    split <;> simp [ih]

theorem length_sortNat (l : List Nat) : (sortNat l).length = l.length := by
  induction l with
  | nil => rfl
  | cons a as ih => simp [sortNat, length_insertSorted, ih]

theorem newIndexFrom_spec {base old : Nat} {ks : List Nat} {j : Nat}
    (h : newIndexFrom base old ks = some j) : ∃ k, j = base + k ∧ ks[k]? = some old := by
  induction ks generalizing base j with
  | nil => simp [newIndexFrom] at h
  | cons k ks ih =>
    simp only [newIndexFrom] at h
    split at h
    · rename_i j' hj'
      cases h
      obtain ⟨m, hm, hget⟩ := ih hj'
      exact ⟨m + 1, by omega, by simpa using hget⟩
    · split at h
      · rename_i hk
        cases h
        exact ⟨0, by omega, by simp [hk]⟩
      · cases h

theorem newIndexFrom_isSome {base old : Nat} {ks : List Nat} (h : old ∈ ks) :
    ∃ j, newIndexFrom base old ks = some j := by
  induction ks generalizing base with
  | nil => cases h
  | cons k ks ih =>
    simp only [newIndexFrom]
    cases hrec : newIndexFrom (base + 1) old ks with
    | some j => exact ⟨j, rfl⟩
    | none =>
      rcases List.mem_cons.mp h with h | h
      · subst h; exact ⟨base, by simp⟩
      · obtain ⟨j, hj⟩ := ih (base := base + 1) h
        rw [hj] at hrec; cases hrec

theorem keptValues_spec {locals : List α} {keep : List Nat} (h : ∀ i ∈ keep, i < locals.length) :
    ∃ vs, keptValues locals keep = some vs ∧ vs.length = keep.length ∧
      ∀ (j i : Nat), keep[j]? = some i → vs[j]? = locals[i]? := by
  induction keep with
  | nil => exact ⟨[], rfl, rfl, by simp⟩
  | cons i is ih =>
    obtain ⟨vs, hvs, hlen, hget⟩ := ih (fun i hi => h i (List.mem_cons_of_mem _ hi))
    have hi : i < locals.length := h i (List.mem_cons_self ..)
    have hsome : locals[i]? = some locals[i] := List.getElem?_eq_getElem hi
    refine ⟨locals[i] :: vs, by simp [keptValues, hsome, hvs], by simp [hlen], ?_⟩
    intro j i' hj
    cases j with
    | zero =>
      have : i = i' := by simpa using hj
      subst this; simp [hsome]
    | succ j => simpa using hget j i' (by simpa using hj)

theorem lookup_map_snd {l : List (String × Nat)} {f : Nat → Nat} {x : String} :
    (l.map (fun p => (p.1, f p.2))).lookup x = (l.lookup x).map f := by
  induction l with
  | nil => rfl
  | cons p ps ih =>
    obtain ⟨y, i⟩ := p
    simp only [List.map_cons, List.lookup_cons]
    split <;> simp [ih]

theorem mem_of_lookup {l : List (String × Nat)} {x : String} {i : Nat} (h : l.lookup x = some i) :
    (x, i) ∈ l := by
  induction l with
  | nil => simp at h
  | cons p ps ih =>
    obtain ⟨y, j⟩ := p
    simp only [List.lookup_cons] at h
    split at h
    · rename_i heq
      have : x = y := by simpa using heq
      cases h; subst this; simp
    · exact List.mem_cons_of_mem _ (ih h)

theorem mem_keepIndices {b : List (String × Nat)} {x : String} {i : Nat} (h : b.lookup x = some i) :
    i ∈ keepIndices b := by
  unfold keepIndices
  rw [mem_sortNat]
  exact List.mem_map.mpr ⟨(x, i), mem_of_lookup h, rfl⟩

/-! ### Compaction -/

/-- **Compaction preserves every lookup.** If all binding indices are valid, then after `compact`
    (bindings re-indexed, locals replaced by the kept values) every bound variable reads the same
    value as before — including when two names share a slot (the mapping sends a shared index to the
    position of its last occurrence, where the same value sits). -/
theorem compact_preserves_lookup (s : Session α) (hr : InRange s) (x : String) :
    lookup (compact s) x = lookup s x := by
  have hb : (compact s).bindings =
      s.bindings.map (fun p => (p.1, (fun i => (newIndex (keepIndices s.bindings) i).getD i) p.2)) := rfl
  have hl : (compact s).locals = (keptValues s.locals (keepIndices s.bindings)).getD s.locals := rfl
  unfold lookup
  rw [hb, lookup_map_snd (l := s.bindings) (f := fun i => (newIndex (keepIndices s.bindings) i).getD i) (x := x), hl]
  cases hx : s.bindings.lookup x with
  | none => rfl
  | some i =>
    have hmem : i ∈ keepIndices s.bindings := mem_keepIndices hx
    have hrange : ∀ k ∈ keepIndices s.bindings, k < s.locals.length := by
      intro k hk
      unfold keepIndices at hk
      rw [mem_sortNat] at hk
      obtain ⟨p, hp, rfl⟩ := List.mem_map.mp hk
      exact hr p hp
    obtain ⟨vs, hvs, _, hget⟩ := keptValues_spec hrange
    obtain ⟨j, hj⟩ := newIndexFrom_isSome (base := 0) hmem
    obtain ⟨k, hk, hkeep⟩ := newIndexFrom_spec hj
    have hjk : j = k := by omega
    subst hjk
    simp only [Option.map_some, newIndex, hj, Option.getD_some, hvs]
    exact hget j i hkeep

/-- After compaction the kept values are as many as the bindings, and every binding index is valid. -/
theorem compact_inRange (s : Session α) (hr : InRange s) : InRange (compact s) ∧
    (compact s).locals.length = s.bindings.length := by
  have hrange : ∀ k ∈ keepIndices s.bindings, k < s.locals.length := by
    intro k hk
    unfold keepIndices at hk
    rw [mem_sortNat] at hk
    obtain ⟨p, hp, rfl⟩ := List.mem_map.mp hk
    exact hr p hp
  obtain ⟨vs, hvs, hlen, _⟩ := keptValues_spec hrange
  have hlen' : (compact s).locals.length = s.bindings.length := by
    have h1 : (compact s).locals = vs := by simp only [compact, hvs, Option.getD_some]
    rw [h1, hlen]
    simp [keepIndices, length_sortNat]
  refine ⟨?_, hlen'⟩
  intro p hp
  simp only [compact, List.mem_map] at hp
  obtain ⟨q, hq, rfl⟩ := hp
  have hmem : q.2 ∈ keepIndices s.bindings := by
    unfold keepIndices; rw [mem_sortNat]; exact List.mem_map.mpr ⟨q, hq, rfl⟩
  obtain ⟨j, hj⟩ := newIndexFrom_isSome (base := 0) hmem
  obtain ⟨k, hk, hkeep⟩ := newIndexFrom_spec hj
  have hklt : k < (keepIndices s.bindings).length := by
    rcases Nat.lt_or_ge k (keepIndices s.bindings).length with h | h
    · exact h
    · rw [List.getElem?_eq_none h] at hkeep; cases hkeep
  simp only [newIndex, hj, Option.getD_some, hlen']
  have : (keepIndices s.bindings).length = s.bindings.length := by simp [keepIndices, length_sortNat]
  omega

theorem foldl_max_ge (l : List (String × Nat)) (m : Nat) :
    m ≤ l.foldl (fun m p => max m (p.2 + 1)) m := by
  induction l generalizing m with
  | nil => exact Nat.le_refl _
  | cons p ps ih => exact Nat.le_trans (Nat.le_max_left _ _) (ih _)

theorem localCount_le {b : List (String × Nat)} {n : Nat} (h : ∀ p ∈ b, p.2 < n) : localCount b ≤ n := by
  unfold localCount
  suffices H : ∀ m, m ≤ n → b.foldl (fun m p => max m (p.2 + 1)) m ≤ n from H 0 (Nat.zero_le _)
  induction b with
  | nil => intro m hm; exact hm
  | cons p ps ih =>
    intro m hm
    exact ih (fun q hq => h q (List.mem_cons_of_mem _ hq)) _
      (Nat.max_le.mpr ⟨hm, h p (List.mem_cons_self ..)⟩)

theorem localCount_gt {b : List (String × Nat)} {p : String × Nat} (hp : p ∈ b) : p.2 < localCount b := by
  unfold localCount
  suffices H : ∀ m, p.2 < b.foldl (fun m q => max m (q.2 + 1)) m from H 0
  induction b with
  | nil => cases hp
  | cons q qs ih =>
    intro m
    rcases List.mem_cons.mp hp with h | h
    · subst h
      exact Nat.lt_of_lt_of_le (Nat.lt_of_lt_of_le (Nat.lt_succ_self _) (Nat.le_max_right _ _))
        (foldl_max_ge qs _)
    · exact ih h _

/-- The position of the last element of a non-empty sorted keep list is hit by the mapping: some
    binding is sent to `n - 1`. -/
theorem newIndexFrom_last {base : Nat} {ks : List Nat} {a : Nat} (h : ks.getLast? = some a) :
    newIndexFrom base a ks = some (base + ks.length - 1) := by
  induction ks generalizing base with
  | nil => simp at h
  | cons k ks ih =>
    simp only [newIndexFrom]
    cases ks with
    | nil =>
      have : k = a := by simpa using h
      subst this; simp [newIndexFrom]
    | cons k2 ks2 =>
      have h' : (k2 :: ks2).getLast? = some a := by simpa [List.getLast?_cons_cons] using h
      rw [ih (base := base + 1) h']
      simp only [List.length_cons]
      congr 1
      omega

/-- **After compaction `local_count` is the number of locals**: `max index + 1 = locals.length`. This
    is what makes the compiler's index arithmetic (new slots from `local_count`) agree with where
    `Store` physically appends (at `locals.length`). -/
theorem compact_localCount (s : Session α) (hr : InRange s) :
    localCount (compact s).bindings = (compact s).locals.length := by
  obtain ⟨hr', hlen⟩ := compact_inRange s hr
  apply Nat.le_antisymm
  · exact localCount_le hr'
  · -- some binding is mapped to the last position
    cases hb : s.bindings with
    | nil => simp [hlen, hb]
    | cons p ps =>
      have hne : keepIndices s.bindings ≠ [] := by
        intro h
        have := congrArg List.length h
        simp [keepIndices, length_sortNat, hb] at this
      obtain ⟨a, ha⟩ : ∃ a, (keepIndices s.bindings).getLast? = some a := by
        cases hk : keepIndices s.bindings with
        | nil => exact (hne hk).elim
        | cons k ks => exact ⟨_, List.getLast?_eq_some_getLast (by simp)⟩
      have hamem : a ∈ keepIndices s.bindings := List.mem_of_getLast? ha
      unfold keepIndices at hamem
      rw [mem_sortNat] at hamem
      obtain ⟨q, hq, hqa⟩ := List.mem_map.mp hamem
      have hlast := newIndexFrom_last (base := 0) ha
      have hq' : (q.1, (newIndex (keepIndices s.bindings) q.2).getD q.2) ∈ (compact s).bindings := by
        simp only [compact]
        exact List.mem_map.mpr ⟨q, hq, rfl⟩
      have hgt := localCount_gt hq'
      simp only [newIndex, hqa, hlast, Option.getD_some] at hgt
      have hkl : (keepIndices s.bindings).length = s.bindings.length := by simp [keepIndices, length_sortNat]
      rw [hlen]
      have hpos : 0 < s.bindings.length := by simp [hb]
      omega

/-! ### Orphan release -/

theorem releaseFrom_get (nil : α) (keep : List Nat) (base : Nat) (l : List α) (j : Nat) :
    (releaseFrom nil keep base l)[j]? = (l[j]?).map (fun v => if keep.contains (base + j) then v else nil) := by
  induction l generalizing base j with
  | nil => simp [releaseFrom]
  | cons v vs ih =>
    cases j with
    | zero => simp [releaseFrom]
    | succ j =>
      simp only [releaseFrom, List.getElem?_cons_succ, ih]
      have : base + 1 + j = base + (j + 1) := by omega
      rw [this]

/-- **Releasing orphans preserves every lookup**: a bound variable's index is in the keep-set, so its
    slot is not overwritten. -/
theorem releaseOrphans_preserves_lookup (nil : α) (s : Session α) (x : String) :
    lookup { s with locals := releaseOrphans nil (keepIndices s.bindings) s.locals } x = lookup s x := by
  unfold lookup
  cases hx : s.bindings.lookup x with
  | none => rfl
  | some i =>
    simp only [releaseOrphans, releaseFrom_get, Nat.zero_add]
    have : i ∈ keepIndices s.bindings := mem_keepIndices hx
    simp [this]

/-! ### Lines -/

/-- **A line keeps the session aligned.** Start from the compacted session `c = compact s`, aligned for
    the variable values `V`. Assume about the line (compiler + VM, checked per line by the harness):
    every binding it returns is either an old one, untouched (`i < c.locals.length`, same index, same
    value), or a new one whose value the line's function stored at its index, counted from the end of
    the compacted locals (`c.locals.length ≤ i`, `appended[i - c.locals.length] = V' x`) — which is
    where the compiler's `local_count = max index + 1` points *because* compaction happened
    (`compact_localCount`). Then after the line (orphans released) the session is aligned for `V'`. -/
theorem runLine_preserves_aligned (nil : α) (s : Session α) (eff : LineEffect α) (V V' : String → α)
    (hal : Aligned (compact s) V)
    (hnew : ∀ x i, eff.bindings.lookup x = some i →
      (i < (compact s).locals.length ∧ (compact s).bindings.lookup x = some i ∧ V' x = V x) ∨
      ((compact s).locals.length ≤ i ∧ eff.appended[i - (compact s).locals.length]? = some (V' x))) :
    Aligned (runLine nil s (.ran eff)) V' := by
  intro x i hx
  simp only [runLine] at hx ⊢
  simp only [releaseOrphans, releaseFrom_get, Nat.zero_add]
  have hkeep : (keepIndices eff.bindings).contains i = true := by simpa using mem_keepIndices hx
  simp only [hkeep, if_true]
  rcases hnew x i hx with ⟨hlt, hold, hv⟩ | ⟨hge, happ⟩
  · rw [List.getElem?_append_left hlt, hal x i hold, hv]; rfl
  · rw [List.getElem?_append_right hge, happ]; rfl

/-- The same line **without** compaction breaks alignment: one variable `a` at slot 0, an orphan in
    slot 1 left by the previous line; the compiler counts `local_count = 1`, puts the parameter at 1
    and the new variable `b` at 2 — but `Store` appends at 2 and 3, so `b` reads the parameter. -/
theorem misaligned_without_compaction :
    let s : Session String := { bindings := [("a", 0)], locals := ["va", "orphan"], lastResult := "r" }
    let eff : LineEffect String := { bindings := [("b", 2), ("a", 0)], appended := ["r", "vb"], result := "vb" }
    -- with compaction: aligned
    lookup (runLine "nil" s (.ran eff)) "b" = some "vb" ∧
    -- skipping `compact` (locals keep the orphan): `b` reads the wrong slot
    lookup ({ bindings := eff.bindings,
              locals := releaseOrphans "nil" (keepIndices eff.bindings) (s.locals ++ eff.appended),
              lastResult := eff.result } : Session String) "b" = some "r" := by
  decide

/-- **A rejected line is observationally a no-op.** A parse failure changes nothing at all. A compile
    failure changes the state only by `compact`: every variable reads the same value and the result
    that flows into the next line is the same. -/
theorem rejected_line_observationally_noop (nil : α) (s : Session α) (attempted : List String) :
    runLine nil s .parseError = s ∧
    (InRange s → (∀ x, lookup (runLine nil s (.compileError attempted)) x = lookup s x) ∧
      nextArgument (runLine nil s (.compileError attempted)) = nextArgument s ∧
      (runLine nil s (.compileError attempted)).lastResultTy = s.lastResultTy ∧
      (runLine nil s (.compileError attempted)).moduleCache = s.moduleCache ∧
      (runLine nil s (.compileError attempted)).bindings.map (·.1) = s.bindings.map (·.1)) := by
  refine ⟨rfl, fun hr => ⟨fun x => compact_preserves_lookup s hr x, rfl, rfl, rfl, ?_⟩⟩
  simp [runLine, compact, List.map_map, Function.comp_def]

/-- **Module-cache rollback.** Whatever a rejected line had imported before it failed, the session's
    module cache afterwards is the one before the line (the compiler worked on a clone) — so a later
    line that imports the same module compiles it afresh against the committed program. A line that
    compiles (code or not) commits exactly its imports. -/
theorem rejected_line_keeps_module_cache (nil : α) (s : Session α) (attempted : List String) :
    (runLine nil s .parseError).moduleCache = s.moduleCache ∧
    (runLine nil s (.compileError attempted)).moduleCache = s.moduleCache ∧
    (∀ b im, (runLine nil s (.noCode b im)).moduleCache = addModules s.moduleCache im) ∧
    (∀ eff, (runLine nil s (.ran eff)).moduleCache = addModules s.moduleCache eff.imports) :=
  ⟨rfl, rfl, fun _ _ => rfl, fun _ => rfl⟩

/-- Witness for the leaky rule (seeded changes C11-1 / C10-3 / C07-3): the rejected line's first import
    of `list` stays cached, so the session differs from the one that never saw the line. -/
theorem leaky_rule_keeps_rejected_imports :
    let s : Session String := { bindings := [("x", 0)], locals := ["1"], lastResult := "Ok" }
    (runLine "nil" s (.compileError ["list"])).moduleCache = [] ∧
    (runLineLeaky "nil" s (.compileError ["list"])).moduleCache = ["list"] := by
  decide

/-- **The flowing result stays typed.** Whatever happens to a line — parse error, compile error, a
    code-less line of type definitions, or a line that ran and whose result has its static result
    type — the value that flows into the next line is typed by the recorded `lastResultTy`. For the
    three outcomes that run nothing, value and type are literally unchanged. -/
theorem runLine_preserves_argTyped (nil : α) (hasTy : α → String → Prop) (s : Session α)
    (h : ArgTyped hasTy s) (o : LineOutcome α)
    (hran : ∀ eff, o = .ran eff → hasTy eff.result eff.resultTy) :
    ArgTyped hasTy (runLine nil s o) := by
  cases o with
  | parseError => exact h
  | compileError att => exact h
  | noCode b im => exact h
  | ran eff => exact hran eff rfl

theorem code_less_line_keeps_result_and_type (nil : α) (s : Session α) (b : List (String × Nat))
    (im : List String) :
    nextArgument (runLine nil s (.noCode b im)) = nextArgument s ∧
    (runLine nil s (.noCode b im)).lastResultTy = s.lastResultTy := ⟨rfl, rfl⟩

/-- Witness for F-C11-1 (the rule before 7b757f2): after `5` the session holds `5 : 'int`; a
    type-definition line makes the old rule record the type `[]` for the still-flowing `5`. -/
theorem old_rule_forgets_result_type :
    let hasTy : String → String → Prop := fun v t => (v = "5" ∧ t = "'int") ∨ (v = "nil" ∧ t = "[]")
    let s : Session String := { bindings := [], locals := ["nil"], lastResult := "5", lastResultTy := "'int" }
    ArgTyped hasTy s ∧ ¬ ArgTyped hasTy (runLineOld "nil" s (.noCode [] [])) ∧
      ArgTyped hasTy (runLine "nil" s (.noCode [] [])) := by
  refine ⟨Or.inl ⟨rfl, rfl⟩, ?_, Or.inl ⟨rfl, rfl⟩⟩
  intro h
  rcases h with ⟨_, h2⟩ | ⟨h1, _⟩
  · exact absurd h2 (by decide)
  · exact absurd h1 (by decide)

/-- **The persistent top-level frame keeps its locals; every other frame exit clears them.** -/
theorem persistent_frame_keeps_locals (base : Nat) (locals : List α) :
    localsAfterFrameExit true true base locals = locals ∧
    (∀ last, localsAfterFrameExit false last base locals = locals.take base) ∧
    (∀ pers, localsAfterFrameExit pers false base locals = locals.take base) := by
  refine ⟨rfl, fun last => ?_, fun pers => ?_⟩
  · simp [localsAfterFrameExit, shouldClearLocals]
  · cases pers <;> simp [localsAfterFrameExit, shouldClearLocals]

/-- The VM model's frame auto-pop (`Core/Packaging/Sem.lean`, mirror of `Executor::step`) applies
    exactly that rule: when the last frame of a persistent process is exhausted the locals survive. -/
theorem vm_persistent_frame_keeps_locals (P : QM.Packaging.Prog) (B : QM.Packaging.BuiltinSem)
    (stk lo : List QM.Packaging.Val) (fr : QM.Packaging.Frame) (pers : Bool)
    (h : QM.Packaging.fetch P fr = none) :
    QM.Packaging.step P B ⟨stk, lo, [fr], pers⟩ =
      .next ⟨stk, localsAfterFrameExit pers true fr.base lo, [], pers⟩ := by
  cases pers <;> simp [QM.Packaging.step, h, localsAfterFrameExit, shouldClearLocals]

/-- Non-vacuity of the hypotheses: a concrete two-variable session with a shared slot and an orphan. -/
example :
    let s : Session String := { bindings := [("x", 3), ("y", 1), ("z", 3)], locals := ["p", "vy", "t", "vx"],
                                lastResult := "r" }
    InRange s ∧ (compact s).bindings = [("x", 2), ("y", 0), ("z", 2)] ∧ (compact s).locals = ["vy", "vx", "vx"] ∧
      lookup (compact s) "z" = some "vx" := by
  refine ⟨?_, by decide, by decide, by decide⟩
  intro p hp
  simp at hp
  rcases hp with rfl | rfl | rfl <;> decide

end C11
