import QuiverModel.Lemmas.Resources.Cleanup
/-!
# C14 — a resource is usable only by its single owner and is closed exactly once

Theorems about M-Sys/resources (`Core/Resources/Basic.lean`), for EVERY history (list of events of
any length over any number of processes and resources, values nested to any depth). Histories are
the interleavings: an event is what the environment handles next, in whatever order the schedule
made the workers' events arrive.
-/
namespace C14
open QM.Resources

/-! ## owner_unique -/

theorem step_keysNodup (s : Sys) (ev : Event) (h : KeysNodup s.env.owner) :
    KeysNodup (step s ev).env.owner := by
  cases ev with
  | start => exact h
  | request p e w =>
    simp only [step, handleEffectRequest_owner]
    split
    · exact h
    · split
      · exact h.regOf _ _
      · exact h
  | completions n => simp only [step, handleCompletions_owner]; exact h.regAll _
  | send a t v => simp only [step, handleDeliver_owner]; exact h.insertAll _ _
  | spawn c caps arg => simp only [step, handleSpawn_owner]; exact h.insertAll _ _
  | terminate p => exact h
  | results a rs =>
    simp only [step]
    exact handleProcessResults_induct (P := fun e => KeysNodup e.owner)
      (fun s p hs => by simpa using hs.eraseAll _) _ _ h

/-- **owner_unique.** In the state reached by any history whatsoever, the ownership map is a
function with no id registered twice: `ownGet` yields at most one owner (by type) and the
registration list has no duplicate id, so "the resources owned by `p`" never lists an id twice and
never lists an id whose `ownGet` is another process. -/
theorem owner_unique (n : Nat) (h : List Event) : KeysNodup (run (init n) h).env.owner := by
  suffices ∀ s : Sys, KeysNodup s.env.owner → KeysNodup (run s h).env.owner from
    this _ (by simp [init, KeysNodup, ownKeys])
  induction h with
  | nil => intro s hs; exact hs
  | cons ev rest ih => intro s hs; exact ih _ (step_keysNodup s ev hs)

/-- Consequence used by cleanup: the list of resources "owned by `p`" is exactly the set of ids
whose owner is `p`, without repetition. -/
theorem owned_list_exact (n : Nat) (h : List Event) (p : Pid) (r : Rid) :
    let m := (run (init n) h).env.owner
    (r ∈ ownedBy m p ↔ ownGet m r = some p) ∧ (ownedBy m p).Nodup :=
  ⟨mem_ownedBy (owner_unique n h), ownedBy_nodup (owner_unique n h) p⟩

example : ownGet (run (init 2) [.start, .open 0, .open 0]).env.owner 2 = some 0 := by decide

/-! ## transfer_moves -/

/-- **transfer_moves (deliver).** After the environment handles `DeliverAction{target, message}`,
every resource occurring anywhere in the message — at any depth inside tuples and closure captures
— is owned by the target, whoever owned it before and whoever sent it; all other registrations are
untouched. Holds in every state. -/
theorem transfer_moves_send (s : Sys) (sender target : Pid) (msg : Val) (r : Rid) :
    ownGet (step s (.send sender target msg)).env.owner r
      = if r ∈ msg.resources then some target else ownGet s.env.owner r := by
  simp [step, ownGet_insertAll]

/-- **transfer_moves (spawn).** After `SpawnAction{caller, captures, argument}`, every resource
occurring anywhere in a capture or in the argument is owned by the NEW process (whose id is the
environment's `next_process_id` before the step); all other registrations are untouched. -/
theorem transfer_moves_spawn (s : Sys) (caller : Pid) (caps : List Val) (arg : Val) (r : Rid) :
    ownGet (step s (.spawn caller caps arg)).env.owner r
      = if r ∈ resourcesList caps ++ arg.resources then some s.env.nextPid
        else ownGet s.env.owner r := by
  simp only [step, handleSpawn_owner, ownGet_insertAll]

/-- The new process is announced under that id. -/
theorem spawn_announces_new_pid (s : Sys) (caller : Pid) (caps : List Val) (arg : Val) :
    ∃ w, Cmd.spawnProcess w s.env.nextPid ∈ (step s (.spawn caller caps arg)).env.out := by
  refine ⟨(colocate s.env.owner s.env.router (caps ++ [arg])).getD (s.env.nextPid % s.env.nWorkers), ?_⟩
  simp only [step, handleSpawn]
  split <;> simp

example :
    let h : List Event := [.start, .start, .open 0,
      .send 0 1 (.tuple [.other, .func [.tuple [.res 1]]])]
    ownGet (run (init 2) h).env.owner 1 = some 1 := by decide

example :
    let h : List Event := [.start, .open 0, .open 0,
      .spawn 0 [.func [.res 1]] (.tuple [.other, .res 2])]
    ownGet (run (init 2) h).env.owner 1 = some 1 ∧ ownGet (run (init 2) h).env.owner 2 = some 1 := by
  decide

/-! ## non_owner_never_reaches_backend -/

/-- **non_owner_never_reaches_backend.** In every state: a request by `p` for an effect on a
registered resource whose owner is another process leaves the backend untouched — nothing is
appended to `executed`, no id is allocated, nothing is closed, nothing is submitted — leaves the
ownership map untouched, and (p being a routed process) sends `p` exactly one command: an error
completion, which makes `p` fail with a runtime error (`notify_effect_completion`). -/
theorem non_owner_never_reaches_backend (s : Sys) (p o : Pid) (e : Effect) (w : Bool) (r : Rid)
    (he : e.resourceId = some r) (hreg : ownGet s.env.owner r = some o) (hne : o ≠ p) :
    (step s (.request p e w)).env.backend = s.env.backend ∧
    (step s (.request p e w)).env.owner = s.env.owner ∧
    (∀ wk, routeGet s.env.router p = some wk →
      (step s (.request p e w)).env.out = s.env.out ++ [.effectCompletion p .err]) := by
  have hv : violatesOwnership s.env.owner p e = true := by
    simp [violatesOwnership, he, hreg, hne]
  simp only [step, handleEffectRequest_rejected _ _ _ _ hv]
  refine ⟨by simp, by simp, ?_⟩
  intro wk hwk
  exact reportEffectError_out _ _ _ hwk

/-- The converse direction, for the log: whatever reaches `execute` was requested by the owner of
the resource it names, or names an unregistered id (never opened, or already cleaned up). -/
theorem executed_only_for_owner (s : Sys) (p : Pid) (e : Effect) (w : Bool) (x : Pid × Effect)
    (hx : x ∈ (step s (.request p e w)).env.backend.executed) (hnew : x ∉ s.env.backend.executed) :
    x = (p, e) ∧ ∀ r, e.resourceId = some r → ownGet s.env.owner r = some p ∨ ownGet s.env.owner r = none := by
  simp only [step, handleEffectRequest_backend] at hx
  by_cases hv : violatesOwnership s.env.owner p e = true
  · simp [hv] at hx; exact absurd hx hnew
  · have hv' : violatesOwnership s.env.owner p e = false := by simpa using hv
    simp only [hv', Bool.false_eq_true, ↓reduceIte, execute_executed, List.mem_append,
      List.mem_singleton] at hx
    rcases hx with hx | hx
    · exact absurd hx hnew
    · refine ⟨hx, ?_⟩
      intro r hr
      simp only [violatesOwnership, hr] at hv'
      cases ho : ownGet s.env.owner r with
      | none => exact .inr rfl
      | some o =>
        simp only [ho, bne_eq_false_iff_eq] at hv'
        exact .inl (by rw [hv'])

/-- Only `request` events ever reach `execute`. -/
theorem executed_only_by_requests (s : Sys) (ev : Event)
    (h : (step s ev).env.backend.executed ≠ s.env.backend.executed) : ∃ p e w, ev = .request p e w := by
  cases ev with
  | request p e w => exact ⟨p, e, w, rfl⟩
  | start => exact absurd rfl h
  | terminate p => exact absurd rfl h
  | send a t v => simp [step] at h
  | spawn c caps arg => simp [step] at h
  | completions n =>
    exfalso; apply h
    simp only [step, handleCompletions_backend, processCompletions_executed]
  | results a rs =>
    exfalso; apply h
    simp only [step, handleProcessResults_backend, closeAll_executed]

example :
    let s := run (init 2) [.start, .start, .open 0, .send 0 1 (.res 1)]
    (step s (.use 0 1)).env.backend.executed = s.env.backend.executed ∧
    (step s (.use 0 1)).env.out = s.env.out ++ [.effectCompletion 0 .err] ∧
    (step s (.use 1 1)).env.backend.executed = s.env.backend.executed ++ [(1, { kind := .fileRead, rid := 1 })] := by
  decide

/-! ## cleanup_closes_once / no_close_while_owner_alive -/

/-- Only `results` events (a `ProcessResults` arriving at the environment) call `close_resource`. -/
theorem close_calls_only_by_results (s : Sys) (ev : Event)
    (h : (step s ev).env.backend.closeCalls ≠ s.env.backend.closeCalls) : ∃ a rs, ev = .results a rs := by
  cases ev with
  | results a rs => exact ⟨a, rs, rfl⟩
  | start => exact absurd rfl h
  | terminate p => exact absurd rfl h
  | send a t v => simp [step] at h
  | spawn c caps arg => simp [step] at h
  | completions n =>
    exfalso; apply h
    simp only [step, handleCompletions_backend, processCompletions_closeCalls]
  | request p e w =>
    exfalso; apply h
    simp only [step, handleEffectRequest_backend]
    split
    · rfl
    · exact execute_closeCalls _ _ _ _

/-- **cleanup_closes_once (one batch).** When a `ProcessResults` is handled in a state whose
ownership map has unique keys (every reachable state: `owner_unique`), the ids passed to
`close_resource` are, without repetition, exactly the ids registered to a process reported as
completed in this very message (`result.is_some()`), and each of them is unregistered afterwards —
so a later batch cannot close it again unless something registers it anew. -/
theorem cleanup_closes_once_step (s : Sys) (hn : KeysNodup s.env.owner) (a : Pid) (rs : List (Pid × Bool)) :
    ∃ closed : List Rid,
      (step s (.results a rs)).env.backend.closeCalls = s.env.backend.closeCalls ++ closed ∧
      closed.Nodup ∧
      (∀ r, r ∈ closed ↔ ∃ p, (p, true) ∈ rs ∧ ownGet s.env.owner r = some p) ∧
      (∀ r ∈ closed, ownGet (step s (.results a rs)).env.owner r = none) := by
  refine ⟨cleanupList s.env.owner rs, ?_, cleanupList_nodup hn rs, fun r => mem_cleanupList hn, ?_⟩
  · simp only [step, handleProcessResults_backend, closeAll_closeCalls]
  · intro r hr
    simp only [step, handleProcessResults_owner, ownGet_eraseAll, if_pos hr]

/-- **no_close_while_owner_alive.** In a state reached by any history, when the workers respect
`livenessOk` for the next event (they report `Some(result)` only for a process whose body has
finished), every id passed to `close_resource` by that event is registered to a process that has
terminated. Together with `close_calls_only_by_results`: the environment never closes a resource
whose owner is alive. -/
theorem no_close_while_owner_alive (n : Nat) (h : List Event) (ev : Event)
    (hev : livenessOk (run (init n) h) ev = true) (r : Rid)
    (hr : r ∈ (step (run (init n) h) ev).env.backend.closeCalls)
    (hnew : r ∉ (run (init n) h).env.backend.closeCalls) :
    ∃ p, ownGet (run (init n) h).env.owner r = some p ∧ p ∈ (run (init n) h).terminated := by
  generalize hs : run (init n) h = s at *
  have hn : KeysNodup s.env.owner := hs ▸ owner_unique n h
  by_cases hc : (step s ev).env.backend.closeCalls = s.env.backend.closeCalls
  · rw [hc] at hr; exact absurd hr hnew
  · obtain ⟨a, rs, rfl⟩ := close_calls_only_by_results s ev hc
    obtain ⟨closed, hcl, _, hmem, _⟩ := cleanup_closes_once_step s hn a rs
    rw [hcl, List.mem_append] at hr
    rcases hr with hr | hr
    · exact absurd hr hnew
    · obtain ⟨p, hp, hg⟩ := (hmem r).1 hr
      refine ⟨p, hg, ?_⟩
      simp only [livenessOk, List.all_eq_true] at hev
      have := hev p (mem_reportedOf.2 hp)
      simpa using this

example :
    let s := run (init 2) [.start, .start, .open 0, .open 1, .open 1, .terminate 1]
    (step s (.awaitReport 0 1)).env.backend.closeCalls = [3, 2] ∧
    (step s (.awaitReport 0 1)).env.backend.openSet = [1] := by decide

/-! ## closed on termination: FALSE in general (F10), true when the termination is reported -/

/-- Events the environment produces by itself (no worker sent anything). -/
def EnvOnly (h : List Event) : Prop := ∀ ev ∈ h, ∃ n, ev = Event.completions n

/-- *Full statement (FALSE of the code — finding F10).* Every resource still registered to a
process that has terminated is eventually closed by the environment on its own: there is a
continuation of environment-only steps after which the backend no longer holds it open. -/
def ClosedOnTerminationStatement : Prop :=
  ∀ (n : Nat) (h : List Event), wfFrom (init n) h = true →
    ∀ p r, p ∈ (run (init n) h).terminated → ownGet (run (init n) h).env.owner r = some p →
      ∃ h', EnvOnly h' ∧ r ∉ (run (init n) (h ++ h')).env.backend.openSet

theorem run_append (s : Sys) (a b : List Event) : run s (a ++ b) = run (run s a) b := by
  induction a generalizing s with
  | nil => rfl
  | cons x rest ih => simp [run, ih]

theorem envOnly_idle (s : Sys) (hp : s.env.backend.pending = []) (h' : List Event) (he : EnvOnly h') :
    run s h' = s := by
  induction h' with
  | nil => rfl
  | cons ev rest ih =>
    obtain ⟨k, rfl⟩ := he _ (List.mem_cons_self)
    have : step s (.completions k) = s := by
      simp only [step, handleCompletions_idle _ _ hp]
    simp only [run, this]
    exact ih (fun e hm => he e (List.mem_cons_of_mem _ hm))

/-- The witness history of F10: process 0 opens a file and terminates; nobody awaits it. -/
def f10Witness : List Event := [.start, .open 0, .terminate 0]

/-- **F10.** `ClosedOnTerminationStatement` is false: after `[open r by p; p terminates]` the
resource stays open whatever number of environment steps follow — cleanup runs only inside
`handle_process_results`, i.e. only if somebody awaits `p`. -/
theorem closedOnTermination_false : ¬ ClosedOnTerminationStatement := by
  intro hst
  obtain ⟨h', he, hno⟩ := hst 1 f10Witness (by decide) 0 1 (by decide) (by decide)
  rw [run_append, envOnly_idle _ (by decide) h' he] at hno
  exact hno (by decide)

/-- **closed_on_reported_termination_partial** — the part of "closed on termination" that does
hold: as soon as a `ProcessResults` reporting `p` as completed is handled (some process awaited
`p`), every resource registered to `p` has been passed to `close_resource`, is no longer open in the
backend and is no longer registered; registrations of processes not reported in that message are
untouched. What is missing for the full statement: a cleanup trigger for processes nobody awaits. -/
theorem closed_on_reported_termination_partial (n : Nat) (h : List Event) (a p : Pid)
    (rs : List (Pid × Bool)) (hp : (p, true) ∈ rs) (r : Rid)
    (hr : ownGet (run (init n) h).env.owner r = some p) :
    let s' := step (run (init n) h) (.results a rs)
    r ∈ s'.env.backend.closeCalls ∧ r ∉ s'.env.backend.openSet ∧ ownGet s'.env.owner r = none ∧
    (∀ r' q, ownGet (run (init n) h).env.owner r' = some q → (q, true) ∉ rs →
      ownGet s'.env.owner r' = some q) := by
  have hn := owner_unique n h
  generalize run (init n) h = s at *
  have hm : r ∈ cleanupList s.env.owner rs := (mem_cleanupList hn).2 ⟨p, hp, hr⟩
  refine ⟨?_, ?_, ?_, ?_⟩
  · simp only [step, handleProcessResults_backend, closeAll_closeCalls, List.mem_append]
    exact .inr hm
  · simp only [step, handleProcessResults_backend, closeAll_openSet, List.mem_filter]
    intro hc; simp [hm] at hc
  · simp only [step, handleProcessResults_owner, ownGet_eraseAll, if_pos hm]
  · intro r' q hq hnq
    simp only [step, handleProcessResults_owner, ownGet_eraseAll]
    rw [if_neg]
    · exact hq
    · intro hc
      obtain ⟨p', hp', hg⟩ := (mem_cleanupList hn).1 hc
      rw [hq] at hg; cases hg
      exact hnq hp'

end C14
