import QuiverModel.Lemmas.Resources.Reach
import QuiverModel.Lemmas.Resources.Persistent
/-!
# C14 — a resource is usable only by its single owner and is closed exactly once

Theorems about M-Sys/resources (`Core/Resources/Basic.lean`), for EVERY history (list of events of
any length over any number of processes and resources, values nested to any depth). Histories are
the interleavings: an event is what the environment handles next, in whatever order the schedule
made the workers' events arrive.
-/
namespace C14
open QM.Resources

/-! ## owner_unique -/

theorem step_keysNodup (s : Sys) (ev : Event) (h : KeysNodup s.env.owner) :
    KeysNodup (step s ev).env.owner := by
  cases ev with
  | start => exact h
  | request p e w =>
    simp only [step, handleEffectRequest_owner]
    split
    · exact h
    · split
      · exact h.regOf _ _
      · exact h
  | completions n => simp only [step, handleCompletions_owner]; exact h.regAll _
  | send a t v => simp only [step, handleDeliver_owner]; exact (h.insertAll _ _).eraseAll _
  | spawn c caps arg => simp only [step, handleSpawn_owner]; exact h.insertAll _ _
  | terminate p => exact h
  | exited p => simp only [step, handleProcessExited_owner]; exact h.eraseAll _
  | results a rs =>
    simp only [step, handleProcessResults_owner]
    exact h.eraseAll _

/-- **owner_unique.** In the state reached by any history whatsoever, the ownership map is a
function with no id registered twice: `ownGet` yields at most one owner (by type) and the
registration list has no duplicate id, so "the resources owned by `p`" never lists an id twice and
never lists an id whose `ownGet` is another process. -/
theorem owner_unique (n : Nat) (h : List Event) : KeysNodup (run (init n) h).env.owner := by
  suffices ∀ s : Sys, KeysNodup s.env.owner → KeysNodup (run s h).env.owner from
    this _ (by simp [init, KeysNodup, ownKeys])
  induction h with
  | nil => intro s hs; exact hs
  | cons ev rest ih => intro s hs; exact ih _ (step_keysNodup s ev hs)

/-- Consequence used by cleanup: the list of resources "owned by `p`" is exactly the set of ids
whose owner is `p`, without repetition. -/
theorem owned_list_exact (n : Nat) (h : List Event) (p : Pid) (r : Rid) :
    let m := (run (init n) h).env.owner
    (r ∈ ownedBy m p ↔ ownGet m r = some p) ∧ (ownedBy m p).Nodup :=
  ⟨mem_ownedBy (owner_unique n h), ownedBy_nodup (owner_unique n h) p⟩

example : ownGet (run (init 2) [.start, .open 0, .open 0]).env.owner 2 = some 0 := by decide

/-! ## transfer_moves -/

/-- **transfer_moves (deliver), general form.** After the environment handles
`DeliverAction{target, message}`: every resource occurring anywhere in the message — at any depth
inside tuples and closure captures — is owned by the target, whoever owned it before and whoever
sent it, and all other registrations are untouched; EXCEPT when the target has already terminated
(`exited_processes`, repair of F10b): then everything the target would own is closed and
unregistered instead (`deliverClosed`). Holds in every state. -/
theorem transfer_moves_send_gen (s : Sys) (sender target : Pid) (msg : Val) (r : Rid) :
    ownGet (step s (.send sender target msg)).env.owner r
      = if r ∈ deliverClosed s.env target msg then none
        else if r ∈ msg.resources then some target else ownGet s.env.owner r := by
  simp only [step, handleDeliver_owner, ownGet_eraseAll, ownGet_insertAll]

/-- **transfer_moves (deliver).** Delivery to a process that has not terminated: every resource
anywhere in the message is owned by the target afterwards; all other registrations are untouched. -/
theorem transfer_moves_send (s : Sys) (sender target : Pid) (msg : Val) (r : Rid)
    (halive : s.env.exited.contains target = false) :
    ownGet (step s (.send sender target msg)).env.owner r
      = if r ∈ msg.resources then some target else ownGet s.env.owner r := by
  rw [transfer_moves_send_gen, deliverClosed_alive _ halive]
  simp

/-- **F10b repaired.** Delivery to a process that HAS terminated: every resource anywhere in the
message is passed to `close_resource`, is no longer open and is registered to nobody — it does not
stay open, owned by a process that no longer exists. -/
theorem delivery_to_exited_closes (s : Sys) (hn : KeysNodup s.env.owner) (sender target : Pid) (msg : Val)
    (hdead : s.env.exited.contains target = true) (r : Rid) (hr : r ∈ msg.resources) :
    let s' := step s (.send sender target msg)
    r ∈ s'.env.backend.closeCalls ∧ r ∉ s'.env.backend.openSet ∧ ownGet s'.env.owner r = none := by
  have hm : r ∈ deliverClosed s.env target msg := by
    rw [deliverClosed_dead _ hdead]
    rw [mem_ownedBy (hn.insertAll _ _), ownGet_insertAll, if_pos hr]
  refine ⟨?_, ?_, ?_⟩
  · simp only [step, handleDeliver_backend, closeAll_closeCalls, List.mem_append]; exact .inr hm
  · simp only [step, handleDeliver_backend, closeAll_openSet, List.mem_filter]
    intro hc; simp [hm] at hc
  · rw [transfer_moves_send_gen, if_pos hm]

/-- **transfer_moves (spawn).** After `SpawnAction{caller, captures, argument}`, every resource
occurring anywhere in a capture or in the argument is owned by the NEW process (whose id is the
environment's `next_process_id` before the step); all other registrations are untouched. -/
theorem transfer_moves_spawn (s : Sys) (caller : Pid) (caps : List Val) (arg : Val) (r : Rid) :
    ownGet (step s (.spawn caller caps arg)).env.owner r
      = if r ∈ resourcesList caps ++ arg.resources then some s.env.nextPid
        else ownGet s.env.owner r := by
  simp only [step, handleSpawn_owner, ownGet_insertAll]

/-- The new process is announced under that id. -/
theorem spawn_announces_new_pid (s : Sys) (caller : Pid) (caps : List Val) (arg : Val) :
    ∃ w, Cmd.spawnProcess w s.env.nextPid ∈ (step s (.spawn caller caps arg)).env.out := by
  refine ⟨(colocate s.env.owner s.env.router (caps ++ [arg])).getD (s.env.nextPid % s.env.nWorkers), ?_⟩
  simp only [step, handleSpawn]
  split <;> simp

example :
    let h : List Event := [.start, .start, .open 0,
      .send 0 1 (.tuple [.other, .func [.tuple [.res 1]]])]
    ownGet (run (init 2) h).env.owner 1 = some 1 := by decide

example :
    let h : List Event := [.start, .open 0, .open 0,
      .spawn 0 [.func [.res 1]] (.tuple [.other, .res 2])]
    ownGet (run (init 2) h).env.owner 1 = some 1 ∧ ownGet (run (init 2) h).env.owner 2 = some 1 := by
  decide

/-! ## non_owner_never_reaches_backend -/

/-- **non_owner_never_reaches_backend.** In every state: a request by `p` for an effect on a
registered resource whose owner is another process leaves the backend untouched — nothing is
appended to `executed`, no id is allocated, nothing is closed, nothing is submitted — leaves the
ownership map untouched, and (p being a routed process) sends `p` exactly one command: an error
completion, which makes `p` fail with a runtime error (`notify_effect_completion`). -/
theorem non_owner_never_reaches_backend (s : Sys) (p o : Pid) (e : Effect) (w : Bool) (r : Rid)
    (he : e.resourceId = some r) (hreg : ownGet s.env.owner r = some o) (hne : o ≠ p) :
    (step s (.request p e w)).env.backend = s.env.backend ∧
    (step s (.request p e w)).env.owner = s.env.owner ∧
    (∀ wk, routeGet s.env.router p = some wk →
      (step s (.request p e w)).env.out = s.env.out ++ [.effectCompletion p .err]) := by
  have hv : violatesOwnership s.env.owner p e = true := by
    simp [violatesOwnership, he, hreg, hne]
  simp only [step, handleEffectRequest_rejected _ _ _ _ hv]
  refine ⟨by simp, by simp, ?_⟩
  intro wk hwk
  exact reportEffectError_out _ _ _ hwk

/-- The converse direction, for the log: whatever reaches `execute` was requested by the owner of
the resource it names, or names an unregistered id (never opened, or already cleaned up). -/
theorem executed_only_for_owner (s : Sys) (p : Pid) (e : Effect) (w : Bool) (x : Pid × Effect)
    (hx : x ∈ (step s (.request p e w)).env.backend.executed) (hnew : x ∉ s.env.backend.executed) :
    x = (p, e) ∧ ∀ r, e.resourceId = some r → ownGet s.env.owner r = some p ∨ ownGet s.env.owner r = none := by
  simp only [step, handleEffectRequest_backend] at hx
  by_cases hv : violatesOwnership s.env.owner p e = true
  · simp [hv] at hx; exact absurd hx hnew
  · have hv' : violatesOwnership s.env.owner p e = false := by simpa using hv
    simp only [hv', Bool.false_eq_true, ↓reduceIte, execute_executed, List.mem_append,
      List.mem_singleton] at hx
    rcases hx with hx | hx
    · exact absurd hx hnew
    · refine ⟨hx, ?_⟩
      intro r hr
      simp only [violatesOwnership, hr] at hv'
      cases ho : ownGet s.env.owner r with
      | none => exact .inr rfl
      | some o =>
        simp only [ho, bne_eq_false_iff_eq] at hv'
        exact .inl (by rw [hv'])

/-- Only `request` events ever reach `execute`. -/
theorem executed_only_by_requests (s : Sys) (ev : Event)
    (h : (step s ev).env.backend.executed ≠ s.env.backend.executed) : ∃ p e w, ev = .request p e w := by
  cases ev with
  | request p e w => exact ⟨p, e, w, rfl⟩
  | start => exact absurd rfl h
  | terminate p => exact absurd rfl h
  | exited p => simp [step, closeAll_executed] at h
  | send a t v => simp [step, handleDeliver_backend, closeAll_executed] at h
  | spawn c caps arg => simp [step] at h
  | completions n =>
    exfalso; apply h
    simp only [step, handleCompletions_backend, processCompletions_executed]
  | results a rs =>
    exfalso; apply h
    simp only [step, handleProcessResults_backend, closeAll_executed]

example :
    let s := run (init 2) [.start, .start, .open 0, .send 0 1 (.res 1)]
    (step s (.use 0 1)).env.backend.executed = s.env.backend.executed ∧
    (step s (.use 0 1)).env.out = s.env.out ++ [.effectCompletion 0 .err] ∧
    (step s (.use 1 1)).env.backend.executed = s.env.backend.executed ++ [(1, { kind := .fileRead, rid := 1 })] := by
  decide

/-! ## cleanup_closes_once / no_close_while_owner_alive -/

/-- `close_resource` is called only by a cleanup: while handling a `ProcessResults`, a
`ProcessExited`, or the delivery of a message to a process that has already terminated. -/
theorem close_calls_only_by_cleanup (s : Sys) (ev : Event)
    (h : (step s ev).env.backend.closeCalls ≠ s.env.backend.closeCalls) :
    (∃ a rs, ev = .results a rs) ∨ (∃ p, ev = .exited p) ∨
    (∃ a t v, ev = .send a t v ∧ s.env.exited.contains t = true) := by
  rw [step_closeCalls] at h
  cases ev with
  | results a rs => exact .inl ⟨a, rs, rfl⟩
  | exited p => exact .inr (.inl ⟨p, rfl⟩)
  | send a t v =>
    refine .inr (.inr ⟨a, t, v, rfl, ?_⟩)
    cases hc : s.env.exited.contains t with
    | true => rfl
    | false => exfalso; apply h; simp [closedBy, deliverClosed_alive _ hc]
  | start => exact absurd (by simp [closedBy]) h
  | terminate p => exact absurd (by simp [closedBy]) h
  | spawn c caps arg => exact absurd (by simp [closedBy]) h
  | completions n => exact absurd (by simp [closedBy]) h
  | request p e w => exact absurd (by simp [closedBy]) h

/-- `p` is cleaned up by this `ProcessResults`: the message carries `Some(result)` for `p`, and `p`
is not a persistent process reporting a value (= merely asleep until resumed; repair 200f50e). -/
def Cleaned (s : Sys) (rs : List (Pid × Rep)) (p : Pid) : Prop :=
  ∃ rep, (p, rep) ∈ rs ∧ rep ≠ .pending ∧ ¬ (p ∈ s.env.persistent ∧ rep = .ok)

theorem cleans_iff (pers : List Pid) (p : Pid) (rep : Rep) :
    cleans pers (p, rep) = true ↔ rep ≠ .pending ∧ ¬ (p ∈ pers ∧ rep = .ok) := by
  cases rep <;> simp [cleans]

theorem cleaned_iff (s : Sys) (rs : List (Pid × Rep)) (p : Pid) :
    (p, true) ∈ classify s.env.persistent rs ↔ Cleaned s rs p := by
  rw [mem_classify]
  constructor
  · rintro ⟨rep, hm, hc⟩; exact ⟨rep, hm, (cleans_iff _ _ _).1 hc⟩
  · rintro ⟨rep, hm, hc⟩; exact ⟨rep, hm, (cleans_iff _ _ _).2 hc⟩

/-- **cleanup_closes_once (one batch).** When a `ProcessResults` is handled in a state whose
ownership map has unique keys (every reachable state: `owner_unique`), the ids passed to
`close_resource` are, without repetition, exactly the ids registered to a process this very message
reports as complete (`Some(result)`, and not a sleeping persistent process), and each of them is
unregistered afterwards — so a later batch cannot close it again unless something registers it
anew. -/
theorem cleanup_closes_once_step (s : Sys) (hn : KeysNodup s.env.owner) (a : Pid) (rs : List (Pid × Rep)) :
    ∃ closed : List Rid,
      (step s (.results a rs)).env.backend.closeCalls = s.env.backend.closeCalls ++ closed ∧
      closed.Nodup ∧
      (∀ r, r ∈ closed ↔ ∃ p, Cleaned s rs p ∧ ownGet s.env.owner r = some p) ∧
      (∀ r ∈ closed, ownGet (step s (.results a rs)).env.owner r = none) := by
  refine ⟨cleanupList s.env.owner (classify s.env.persistent rs), ?_, cleanupList_nodup hn _, ?_, ?_⟩
  · simp only [step, handleProcessResults_backend, closeAll_closeCalls]
  · intro r
    rw [mem_cleanupList hn]
    constructor
    · rintro ⟨p, hp, hg⟩; exact ⟨p, (cleaned_iff s rs p).1 hp, hg⟩
    · rintro ⟨p, hp, hg⟩; exact ⟨p, (cleaned_iff s rs p).2 hp, hg⟩
  · intro r hr
    simp only [step, handleProcessResults_owner, ownGet_eraseAll, if_pos hr]

/-- Every process whose `ProcessExited` the environment has handled is dead. -/
def ExitedInv (s : Sys) : Prop := ∀ p ∈ s.env.exited, p ∈ s.terminated

theorem exitedInv_step {s : Sys} (h : ExitedInv s) (ev : Event) (hev : livenessOk s ev = true) :
    ExitedInv (step s ev) := by
  intro p hp
  rw [step_exited] at hp
  rw [step_terminated]
  cases ev with
  | exited q =>
    simp only [List.mem_cons] at hp
    rcases hp with rfl | hp
    · simpa [livenessOk] using hev
    · exact h p hp
  | terminate q => exact List.mem_cons_of_mem _ (h p hp)
  | start => exact h p hp
  | request q e w => exact h p hp
  | completions k => exact h p hp
  | send a t v => exact h p hp
  | spawn c caps arg => exact h p hp
  | results a rs => exact h p hp

theorem exited_sub_terminated (n : Nat) (h : List Event) (hw : wfFrom (init n) h = true) :
    ExitedInv (run (init n) h) := by
  suffices ∀ s : Sys, ExitedInv s → wfFrom s h = true → ExitedInv (run s h) from
    this _ (by intro p hp; simp [init] at hp) hw
  clear hw
  induction h with
  | nil => intro s hs _; exact hs
  | cons ev rest ih =>
    intro s hs hw
    simp only [wfFrom, eventOk, Bool.and_eq_true] at hw
    exact ih _ (exitedInv_step hs ev hw.1.2) hw.2

/-- The ownership map at the moment a step calls `close_resource` (a delivery transfers first). -/
def ownerAtClose (s : Sys) : Event → Own
  | .send _ t v => insertAll s.env.owner v.resources t
  | _ => s.env.owner

/-- **no_close_while_owner_alive.** In a state reached by any well-formed history, when the workers
respect `livenessOk` for the next event — they report `Some(result)` only for a process that is
dead, or `Some(Ok(_))` for a persistent process that is merely asleep between two resumptions (which
is what `query_and_await` does: it treats `Sleeping` like `Completed`), and send `ProcessExited`
only for a dead process — every id the step passes to `close_resource` (`closedBy`, which by
`step_closeCalls` is exactly what the step appends to the call log) is, at that moment, registered
to a process that is dead. The environment never closes a resource whose owner is alive,
*including the sleeping REPL process when somebody awaits it* (before the repair 200f50e that case
failed: `sleeping_owner_closed_by_old_rule`). -/
theorem no_close_while_owner_alive (n : Nat) (h : List Event) (hw : wfFrom (init n) h = true)
    (ev : Event) (hev : livenessOk (run (init n) h) ev = true) (r : Rid)
    (hr : r ∈ closedBy (run (init n) h) ev) :
    ∃ p, ownGet (ownerAtClose (run (init n) h) ev) r = some p ∧ p ∈ (run (init n) h).terminated := by
  have hn := owner_unique n h
  have hex := exited_sub_terminated n h hw
  generalize run (init n) h = s at *
  cases ev with
  | results a rs =>
    obtain ⟨p, hp, hg⟩ := (mem_cleanupList hn).1 hr
    obtain ⟨rep, hm, hne, hns⟩ := (cleaned_iff s rs p).1 hp
    refine ⟨p, hg, ?_⟩
    simp only [livenessOk, List.all_eq_true] at hev
    have := hev (p, rep) hm
    simp only [Bool.or_eq_true, beq_iff_eq, List.contains_eq_mem, decide_eq_true_eq,
      Bool.and_eq_true] at this
    rcases this with (h1 | h1) | h1
    · exact absurd h1 hne
    · exact h1
    · exact absurd h1 hns
  | exited p =>
    refine ⟨p, (mem_ownedBy hn).1 hr, ?_⟩
    simpa [livenessOk] using hev
  | send a t v =>
    simp only [closedBy] at hr
    cases hc : s.env.exited.contains t with
    | false => rw [deliverClosed_alive _ hc] at hr; cases hr
    | true =>
      rw [deliverClosed_dead _ hc] at hr
      refine ⟨t, (mem_ownedBy (hn.insertAll _ _)).1 hr, hex t (by simpa using hc)⟩
  | start => cases hr
  | terminate p => cases hr
  | spawn c caps arg => cases hr
  | request p e w => cases hr
  | completions k => cases hr

/-- The repair in isolation: a `ProcessResults` that reports a value for a persistent process
changes nothing at all — its resources stay registered and open. -/
theorem sleeping_report_changes_nothing (s : Sys) (a p : Pid) (hp : p ∈ s.env.persistent) :
    (step s (.awaitReport a p)).env = s.env := by
  simp [step, Event.awaitReport, handleProcessResults, cleans, hp, handleCleanups]

/-- Only `start_process` makes a process persistent: after any history, the process a spawn is
about to create is not persistent — so a spawned process that reports a value IS cleaned up; the
exemption of the repair concerns exactly the processes started through `start_process`. -/
theorem spawned_process_not_persistent (n : Nat) (h : List Event) :
    (run (init n) h).env.nextPid ∉ (run (init n) h).env.persistent := by
  intro hm
  have : PersInv (init n) := by intro p hp; simp [init] at hp
  exact absurd (persInv_run this h _ hm) (Nat.lt_irrefl _)

/-- A FAILED persistent process can never be resumed: it is cleaned up like any other. -/
theorem failed_persistent_is_cleaned (s : Sys) (a p : Pid) :
    Cleaned s [(p, .failed)] p := ⟨.failed, by simp, by simp, by simp⟩

example :
    let s := run (init 2) [.start, .spawn 0 [] .other, .open 0, .open 1, .open 1, .terminate 1]
    (step s (.awaitReport 0 1)).env.backend.closeCalls = [3, 2] ∧
    (step s (.awaitReport 0 1)).env.backend.openSet = [1] := by decide

/-! ## closed on termination: FALSE in general (F10), true when the termination is reported -/

/-- Events the environment produces by itself (no worker sent anything). -/
def EnvOnly (h : List Event) : Prop := ∀ ev ∈ h, ∃ n, ev = Event.completions n

/-- *The statement as it had to be read BEFORE the repair of F10, when workers did not report
terminations* (FALSE — finding F10): every resource still registered to a process that has
terminated is eventually closed by the environment on its own: there is a continuation of
environment-only steps after which the backend no longer holds it open. -/
def ClosedOnTerminationWithoutExitReportsStatement : Prop :=
  ∀ (n : Nat) (h : List Event), wfFrom (init n) h = true →
    ∀ p r, p ∈ (run (init n) h).terminated → ownGet (run (init n) h).env.owner r = some p →
      ∃ h', EnvOnly h' ∧ r ∉ (run (init n) (h ++ h')).env.backend.openSet

/-- Continuations that only deliver what has already happened: backend completions, and the
`ProcessExited` a worker sends for a process that has terminated. -/
def ExitDelivery (s : Sys) (h' : List Event) : Prop :=
  ∀ ev ∈ h', (∃ n, ev = Event.completions n) ∨ (∃ p, ev = Event.exited p ∧ p ∈ s.terminated)

/-- **Closed on termination** (full statement; TRUE of the code as it is, since the repair of F10 in
/repo 5cb2956). Every resource still
registered to a process that has terminated is eventually closed without anybody awaiting the
process: there is a well-formed continuation consisting only of deliveries of what the workers have
already emitted — here: the `ProcessExited` of that process — after which the backend no longer
holds the resource open. ("Eventually" = that event is delivered; channels lose nothing.) -/
def ClosedOnTerminationStatement : Prop :=
  ∀ (n : Nat) (h : List Event), wfFrom (init n) h = true →
    ∀ p r, p ∈ (run (init n) h).terminated → ownGet (run (init n) h).env.owner r = some p →
      ∃ h', ExitDelivery (run (init n) h) h' ∧ wfFrom (run (init n) h) h' = true ∧
        r ∉ (run (init n) (h ++ h')).env.backend.openSet ∧
        ownGet (run (init n) (h ++ h')).env.owner r = none

theorem run_append (s : Sys) (a b : List Event) : run s (a ++ b) = run (run s a) b := by
  induction a generalizing s with
  | nil => rfl
  | cons x rest ih => simp [run, ih]

theorem envOnly_idle (s : Sys) (hp : s.env.backend.pending = []) (h' : List Event) (he : EnvOnly h') :
    run s h' = s := by
  induction h' with
  | nil => rfl
  | cons ev rest ih =>
    obtain ⟨k, rfl⟩ := he _ (List.mem_cons_self)
    have : step s (.completions k) = s := by
      simp only [step, handleCompletions_idle _ _ hp]
    simp only [run, this]
    exact ih (fun e hm => he e (List.mem_cons_of_mem _ hm))

/-- The witness history of F10: process 0 spawns process 1, which opens a file and terminates; nobody
awaits it. -/
def f10Witness : List Event := [.start, .spawn 0 [] .other, .open 1, .terminate 1]

/-- **F10 (the old protocol).** Without exit reports the statement is false: after `[open r by p; p
terminates]` the resource stays open whatever number of environment steps follow — cleanup ran only
inside `handle_process_results`, i.e. only if somebody awaited `p`. -/
theorem closedOnTermination_false_without_exit_reports :
    ¬ ClosedOnTerminationWithoutExitReportsStatement := by
  intro hst
  obtain ⟨h', he, hno⟩ := hst 1 f10Witness (by decide) 1 1 (by decide) (by decide)
  rw [run_append, envOnly_idle _ (by decide) h' he] at hno
  exact hno (by decide)

/-- **closed_on_termination** — `ClosedOnTerminationStatement` holds: delivering the
`ProcessExited` of the terminated owner closes the resource and drops its registration. -/
theorem closed_on_termination : ClosedOnTerminationStatement := by
  intro n h _ p r hp hr
  have hn := owner_unique n h
  refine ⟨[.exited p], ?_, ?_, ?_, ?_⟩
  · intro ev hev
    simp only [List.mem_singleton] at hev
    exact .inr ⟨p, hev, hp⟩
  · simp [wfFrom, eventOk, handlesExist, livenessOk, hp]
  · rw [run_append]
    simp only [run, step, handleProcessExited_backend, closeAll_openSet, List.mem_filter, not_and]
    intro _
    simp [(mem_ownedBy hn).2 hr]
  · rw [run_append]
    simp only [run, step, handleProcessExited_owner, ownGet_eraseAll, if_pos ((mem_ownedBy hn).2 hr)]

-- the F10 witness continued by the exit report the repaired worker sends: closed
example :
    let s := run (init 1) (f10Witness ++ [.exited 1])
    wfFrom (init 1) (f10Witness ++ [.exited 1]) = true ∧ s.env.backend.closeCalls = [1] ∧
    s.env.backend.openSet = [] ∧ ownGet s.env.owner 1 = none := by decide

/-! ## a terminated process owns nothing, for good (F10 and F10b repaired) -/

/-- Processes with an operation in flight are alive. -/
def PendInv (s : Sys) : Prop := ∀ x ∈ s.env.backend.pending, x.1 ∉ s.terminated
/-- Dead processes have an allocated id. -/
def TermLt (s : Sys) : Prop := ∀ p ∈ s.terminated, p < s.env.nextPid
/-- A process whose `ProcessExited` has been handled owns nothing. -/
def ExOwn (s : Sys) : Prop := ∀ p ∈ s.env.exited, ∀ r, ownGet s.env.owner r ≠ some p

theorem execute_pending (b : Backend) (p : Pid) (e : Effect) (w : Bool) :
    ∀ x ∈ (b.execute p e w).1.pending, x ∈ b.pending ∨ x.1 = p := by
  intro x hx
  unfold Backend.execute Backend.alloc at hx
  cases hs : e.kind.shape <;> simp only [hs] at hx <;> (repeat' split at hx) <;>
    simp_all <;> rcases hx with hx | hx <;> simp_all

theorem completeAll_pids (b : Backend) (xs : List (Pid × Pending)) :
    (b.completeAll xs).2.map (·.1) = xs.map (·.1) := by
  induction xs generalizing b with
  | nil => rfl
  | cons x rest ih =>
    obtain ⟨p, pd⟩ := x
    simp only [Backend.completeAll, List.map_cons, ih]
    cases pd with
    | plain ok => simp [Backend.completeOne]
    | creating ok => cases ok <;> simp [Backend.completeOne, Backend.alloc]

theorem processCompletions_pids (b : Backend) (n : Nat) {p : Pid} {res : Res}
    (h : (p, res) ∈ (b.processCompletions n).2) : ∃ pd, (p, pd) ∈ b.pending := by
  have h1 : p ∈ (b.processCompletions n).2.map (·.1) := List.mem_map.2 ⟨(p, res), h, rfl⟩
  rw [processCompletions_eq, completeAll_pids] at h1
  obtain ⟨⟨q, pd⟩, hm, hq⟩ := List.mem_map.1 h1
  simp only at hq; subst hq
  exact ⟨pd, List.mem_of_mem_take hm⟩

theorem processCompletions_pending (b : Backend) (n : Nat) :
    (b.processCompletions n).1.pending = b.pending.drop n := by
  rw [processCompletions_eq]
  exact (completeAll_frame _ _).2.2.2

theorem step_pending (s : Sys) (ev : Event) :
    ∀ x ∈ (step s ev).env.backend.pending,
      x ∈ s.env.backend.pending ∨ ∃ e w, ev = .request x.1 e w := by
  intro x hx
  cases ev with
  | start => exact .inl hx
  | terminate p => exact .inl hx
  | exited p => simp only [step, handleProcessExited_backend, closeAll_pending] at hx; exact .inl hx
  | send a t v => simp only [step, handleDeliver_backend, closeAll_pending] at hx; exact .inl hx
  | spawn c caps arg => simp only [step, handleSpawn_backend] at hx; exact .inl hx
  | results a rs => simp only [step, handleProcessResults_backend, closeAll_pending] at hx; exact .inl hx
  | completions n =>
    simp only [step, handleCompletions_backend, processCompletions_pending] at hx
    exact .inl (List.mem_of_mem_drop hx)
  | request p e w =>
    simp only [step, handleEffectRequest_backend] at hx
    split at hx
    · exact .inl hx
    · rcases execute_pending _ _ _ _ x hx with h | h
      · exact .inl h
      · exact .inr ⟨e, w, by rw [h]⟩

theorem pendInv_step {s : Sys} (h : PendInv s) (ev : Event) (hev : livenessOk s ev = true) :
    PendInv (step s ev) := by
  intro x hx
  rw [step_terminated]
  rcases step_pending s ev x hx with hp | ⟨e, w, rfl⟩
  · cases ev with
    | terminate q =>
      simp only [List.mem_cons, not_or]
      refine ⟨?_, h x hp⟩
      simp only [livenessOk, Bool.and_eq_true, Bool.not_eq_eq_eq_not, Bool.not_true,
        List.contains_eq_mem, decide_eq_false_iff_not, decide_eq_true_eq] at hev
      intro hq
      exact hev.2 (List.mem_map.2 ⟨x, hp, hq⟩)
    | start => exact h x hp
    | exited q => exact h x hp
    | request q e w => exact h x hp
    | completions k => exact h x hp
    | send a t v => exact h x hp
    | spawn c caps arg => exact h x hp
    | results a rs => exact h x hp
  · simpa [livenessOk] using hev

theorem step_nextPid_mono (s : Sys) (ev : Event) : s.env.nextPid ≤ (step s ev).env.nextPid := by
  cases ev with
  | start => simp [step, startProcess]
  | terminate p => exact Nat.le_refl _
  | exited p => simp [step]
  | request p e w => simp [step, handleEffectRequest_nextPid]
  | completions n => simp [step, (handleCompletions_persistent _ _).2]
  | send a t v => simp [step, (handleDeliver_frame _ _ _).2.1]
  | spawn c caps arg => simp [step, (handleSpawn_persistent _ _ _ _).2]
  | results a rs => simp [step, handleProcessResults, handleCleanups_nextPid]

theorem termLt_step {s : Sys} (h : TermLt s) (ev : Event) (hev : livenessOk s ev = true) :
    TermLt (step s ev) := by
  intro p hp
  rw [step_terminated] at hp
  have hm := step_nextPid_mono s ev
  cases ev with
  | terminate q =>
    simp only [List.mem_cons] at hp
    rcases hp with rfl | hp
    · simp only [livenessOk, Bool.and_eq_true, decide_eq_true_eq] at hev
      exact Nat.lt_of_lt_of_le hev.1.2 hm
    · exact Nat.lt_of_lt_of_le (h p hp) hm
  | start => exact Nat.lt_of_lt_of_le (h p hp) hm
  | exited q => exact Nat.lt_of_lt_of_le (h p hp) hm
  | request q e w => exact Nat.lt_of_lt_of_le (h p hp) hm
  | completions k => exact Nat.lt_of_lt_of_le (h p hp) hm
  | send a t v => exact Nat.lt_of_lt_of_le (h p hp) hm
  | spawn c caps arg => exact Nat.lt_of_lt_of_le (h p hp) hm
  | results a rs => exact Nat.lt_of_lt_of_le (h p hp) hm

theorem ownGet_regAll_cases {m : Own} {cs : List (Pid × Res)} {r : Rid} {p : Pid}
    (h : ownGet (regAll m cs) r = some p) : ownGet m r = some p ∨ (p, Res.okRes r) ∈ cs := by
  induction cs generalizing m with
  | nil => exact .inl h
  | cons c rest ih =>
    obtain ⟨q, res⟩ := c
    simp only [regAll] at h
    rcases ih h with h1 | h1
    · rw [ownGet_regOf] at h1
      split at h1
      · rename_i hres; cases h1; subst hres; exact .inr List.mem_cons_self
      · exact .inl h1
    · exact .inr (List.mem_cons_of_mem _ h1)

theorem exOwn_step {s : Sys} (hn : KeysNodup s.env.owner) (hx : ExitedInv s) (hp : PendInv s)
    (ht : TermLt s) (h : ExOwn s) (ev : Event) (hev : livenessOk s ev = true) : ExOwn (step s ev) := by
  intro p hpe r hr
  rw [step_exited] at hpe
  cases ev with
  | start => exact h p hpe r hr
  | terminate q => exact h p hpe r hr
  | exited q =>
    simp only [step, handleProcessExited_owner, ownGet_eraseAll] at hr
    split at hr
    · cases hr
    · rename_i hnm
      simp only [List.mem_cons] at hpe
      rcases hpe with rfl | hpe
      · exact hnm ((mem_ownedBy hn).2 hr)
      · exact h p hpe r hr
  | results a rs =>
    simp only [step, handleProcessResults_owner, ownGet_eraseAll] at hr
    split at hr
    · cases hr
    · exact h p hpe r hr
  | send a t v =>
    rw [transfer_moves_send_gen] at hr
    split at hr
    · cases hr
    · rename_i hnm
      split at hr
      · rename_i hres
        cases hr
        apply hnm
        rw [deliverClosed_dead _ (by simpa using hpe), mem_ownedBy (hn.insertAll _ _),
          ownGet_insertAll, if_pos hres]
      · exact h p hpe r hr
  | spawn c caps arg =>
    rw [transfer_moves_spawn] at hr
    split at hr
    · cases hr
      exact absurd (ht _ (hx _ hpe)) (Nat.lt_irrefl _)
    · exact h p hpe r hr
  | request q e w =>
    simp only [step, handleEffectRequest_owner] at hr
    have hq : q ∉ s.env.exited := by
      intro hc
      have := hx q hc
      simp [livenessOk, this] at hev
    split at hr
    · exact h p hpe r hr
    · split at hr
      · rw [ownGet_regOf] at hr
        split at hr
        · cases hr; exact hq hpe
        · exact h p hpe r hr
      · exact h p hpe r hr
  | completions n =>
    simp only [step, handleCompletions_owner] at hr
    rcases ownGet_regAll_cases hr with h1 | h1
    · exact h p hpe r h1
    · obtain ⟨pd, hm⟩ := processCompletions_pids _ _ h1
      exact hp (p, pd) hm (hx p hpe)

/-- **exited_owns_nothing.** Along every well-formed history: a process whose `ProcessExited` the
environment has handled owns nothing, and never will again — neither what it owned when it
terminated (F10) nor anything handed to it afterwards (F10b). With `closed_on_termination` and
`effective_close_once`: when a process terminates, each resource it still owns is closed exactly
once, awaited or not. -/
theorem exited_owns_nothing (n : Nat) (h : List Event) (hw : wfFrom (init n) h = true) :
    ∀ p ∈ (run (init n) h).env.exited, ∀ r, ownGet (run (init n) h).env.owner r ≠ some p := by
  suffices ∀ s : Sys, KeysNodup s.env.owner → ExitedInv s → PendInv s → TermLt s → ExOwn s →
      wfFrom s h = true → ExOwn (run s h) from
    this (init n) (by simp [init, KeysNodup, ownKeys]) (by intro p hp; simp [init] at hp)
      (by intro x hx; simp [init] at hx) (by intro p hp; simp [init] at hp)
      (by intro p hp; simp [init] at hp) hw
  clear hw
  induction h with
  | nil => intro s _ _ _ _ h _; exact h
  | cons ev rest ih =>
    intro s hn hx hp ht h hw
    simp only [wfFrom, eventOk, Bool.and_eq_true] at hw
    exact ih (step s ev) (step_keysNodup s ev hn) (exitedInv_step hx ev hw.1.2)
      (pendInv_step hp ev hw.1.2) (termLt_step ht ev hw.1.2)
      (exOwn_step hn hx hp ht h ev hw.1.2) hw.2


/-! ## liveness under fairness: once every exit report has been delivered nothing is leaked -/

/-- Every `ProcessExited` the workers owe has been handled (fairness: channels lose nothing and the
environment keeps stepping, so every history extends to one with this property). -/
def AllExitsDelivered (s : Sys) : Prop := ∀ p ∈ s.terminated, p ∈ s.env.exited

/-- **no_leak_when_exits_delivered.** After a well-formed history in which every owed exit report
has been delivered, no resource is registered to a dead process: every registered resource has a
live owner. (This is the end-of-run oracle of the harness.) -/
theorem no_leak_when_exits_delivered (n : Nat) (h : List Event) (hw : wfFrom (init n) h = true)
    (hd : AllExitsDelivered (run (init n) h)) (r : Rid) (p : Pid)
    (hr : ownGet (run (init n) h).env.owner r = some p) : p ∉ (run (init n) h).terminated :=
  fun hp => exited_owns_nothing n h hw p (hd p hp) r hr

theorem deliver_exits (s : Sys) (ps : List Pid) (hps : ∀ p ∈ ps, p ∈ s.terminated) :
    wfFrom s (ps.map Event.exited) = true ∧
    (run s (ps.map Event.exited)).terminated = s.terminated ∧
    (∀ p, p ∈ ps ∨ p ∈ s.env.exited → p ∈ (run s (ps.map Event.exited)).env.exited) := by
  induction ps generalizing s with
  | nil => exact ⟨rfl, rfl, fun p hp => hp.elim (fun h => by cases h) id⟩
  | cons q rest ih =>
    have hq := hps q List.mem_cons_self
    have hterm : (step s (.exited q)).terminated = s.terminated := rfl
    have hex : (step s (.exited q)).env.exited = q :: s.env.exited := rfl
    obtain ⟨h1, h2, h3⟩ := ih (step s (.exited q))
      (fun p hp => hterm ▸ hps p (List.mem_cons_of_mem _ hp))
    refine ⟨?_, ?_, ?_⟩
    · simp only [List.map_cons, wfFrom, eventOk, handlesExist, livenessOk, Bool.true_and,
        Bool.and_eq_true, List.contains_eq_mem, decide_eq_true_eq]
      exact ⟨hq, h1⟩
    · simp only [List.map_cons, run]; rw [h2, hterm]
    · intro p hp
      simp only [List.map_cons, run]
      apply h3
      rw [hex]
      rcases hp with hp | hp
      · rcases List.mem_cons.1 hp with rfl | hp
        · exact .inr List.mem_cons_self
        · exact .inl hp
      · exact .inr (List.mem_cons_of_mem _ hp)

theorem wfFrom_append (s : Sys) (a b : List Event) (ha : wfFrom s a = true)
    (hb : wfFrom (run s a) b = true) : wfFrom s (a ++ b) = true := by
  induction a generalizing s with
  | nil => exact hb
  | cons ev rest ih =>
    simp only [wfFrom, Bool.and_eq_true] at ha
    simp only [List.cons_append, wfFrom, Bool.and_eq_true]
    exact ⟨ha.1, ih _ ha.2 hb⟩

/-- **eventually_nothing_leaks.** Every well-formed history has a continuation that consists only
of deliveries of exit reports the workers already owe (no process does anything, nobody awaits
anybody) after which no resource is registered to a dead process — every resource of every
terminated process has been closed (`exited_owns_nothing`, `closed_on_termination`), exactly once
(`effective_close_once`). Under fairness (every owed report is eventually delivered) this is the
liveness half of C14; before the repair of F10 no such continuation existed
(`closedOnTermination_false_without_exit_reports`, `stays_open_while_left_alone`). -/
theorem eventually_nothing_leaks (n : Nat) (h : List Event) (hw : wfFrom (init n) h = true) :
    ∃ h', ExitDelivery (run (init n) h) h' ∧ wfFrom (init n) (h ++ h') = true ∧
      ∀ r p, ownGet (run (init n) (h ++ h')).env.owner r = some p →
        p ∉ (run (init n) (h ++ h')).terminated := by
  obtain ⟨h1, h2, h3⟩ := deliver_exits (run (init n) h) (run (init n) h).terminated (fun p hp => hp)
  refine ⟨(run (init n) h).terminated.map Event.exited, ?_, wfFrom_append _ _ _ hw h1, ?_⟩
  · intro ev hev
    obtain ⟨p, hp, rfl⟩ := List.mem_map.1 hev
    exact .inr ⟨p, rfl, hp⟩
  · intro r p hr
    apply no_leak_when_exits_delivered n _ (wfFrom_append _ _ _ hw h1) _ r p hr
    intro q hq
    rw [run_append] at hq ⊢
    rw [h2] at hq
    exact h3 q (.inl hq)


/-- **closed_on_reported_termination_partial** — the part of "closed on termination" that does
hold: as soon as a `ProcessResults` reporting `p` as completed is handled (some process awaited
`p`), every resource registered to `p` has been passed to `close_resource`, is no longer open in the
backend and is no longer registered; registrations of processes not reported in that message are
untouched. What is missing for the full statement: a cleanup trigger for processes nobody awaits. -/
theorem closed_on_reported_termination_partial (n : Nat) (h : List Event) (a p : Pid)
    (rs : List (Pid × Rep)) (hp : Cleaned (run (init n) h) rs p) (r : Rid)
    (hr : ownGet (run (init n) h).env.owner r = some p) :
    let s' := step (run (init n) h) (.results a rs)
    r ∈ s'.env.backend.closeCalls ∧ r ∉ s'.env.backend.openSet ∧ ownGet s'.env.owner r = none ∧
    (∀ r' q, ownGet (run (init n) h).env.owner r' = some q → ¬ Cleaned (run (init n) h) rs q →
      ownGet s'.env.owner r' = some q) := by
  have hn := owner_unique n h
  generalize run (init n) h = s at *
  have hm : r ∈ cleanupList s.env.owner (classify s.env.persistent rs) :=
    (mem_cleanupList hn).2 ⟨p, (cleaned_iff s rs p).2 hp, hr⟩
  refine ⟨?_, ?_, ?_, ?_⟩
  · simp only [step, handleProcessResults_backend, closeAll_closeCalls, List.mem_append]
    exact .inr hm
  · simp only [step, handleProcessResults_backend, closeAll_openSet, List.mem_filter]
    intro hc; simp [hm] at hc
  · simp only [step, handleProcessResults_owner, ownGet_eraseAll, if_pos hm]
  · intro r' q hq hnq
    simp only [step, handleProcessResults_owner, ownGet_eraseAll]
    rw [if_neg]
    · exact hq
    · intro hc
      obtain ⟨p', hp', hg⟩ := (mem_cleanupList hn).1 hc
      rw [hq] at hg; cases hg
      exact hnq ((cleaned_iff s rs q).1 hp')

/-! ## created_owned_by_creator -/

/-- What a step appends to the commands, with what a "here is your new resource" completion
implies. -/
theorem created_aux (s : Sys) (ev : Event) :
    ∃ l, (step s ev).env.out = s.env.out ++ l ∧
      ∀ p r, Cmd.effectCompletion p (.okRes r) ∈ l →
        ownGet (step s ev).env.owner r = some p ∧ s.env.backend.nextRid ≤ r := by
  cases ev with
  | start => exact ⟨[.startProcess (s.env.nextPid % s.env.nWorkers) s.env.nextPid], rfl, by simp⟩
  | terminate p => exact ⟨[], by simp [step], by simp⟩
  | exited p => exact ⟨[], by simp [step], by simp⟩
  | results a rs => exact ⟨[], by simp [step, handleProcessResults_out], by simp⟩
  | send a t v =>
    simp only [step]
    rcases handleDeliver_out_cases s.env t v with h | h
    · exact ⟨[], by simp [h], by simp⟩
    · exact ⟨[.deliverMessage t], h, by simp⟩
  | spawn c caps arg =>
    simp only [step, handleSpawn]
    split
    · exact ⟨[_], rfl, by simp⟩
    · refine ⟨[Cmd.spawnProcess ((colocate s.env.owner s.env.router (caps ++ [arg])).getD
          (s.env.nextPid % s.env.nWorkers)) s.env.nextPid, Cmd.notifySpawn c s.env.nextPid], ?_, ?_⟩ <;> simp
  | request p e w =>
    simp only [step]
    by_cases hv : violatesOwnership s.env.owner p e = true
    · rw [handleEffectRequest_rejected _ _ _ _ hv]
      rcases reportEffectError_out_cases s.env p with h | h
      · exact ⟨[], by simp [h], by simp⟩
      · exact ⟨[_], h, by simp⟩
    · have hv' : violatesOwnership s.env.owner p e = false := by simpa using hv
      have hown := handleEffectRequest_owner s.env p e w
      rw [handleEffectRequest_accepted _ _ _ _ hv'] at hown ⊢
      simp only [hv', Bool.false_eq_true, ↓reduceIte] at hown
      cases hrep : (s.env.backend.execute p e w).2 with
      | submitted => exact ⟨[], by simp, by simp⟩
      | failed =>
        simp only
        rcases reportEffectError_out_cases { s.env with backend := (s.env.backend.execute p e w).1 } p with h | h
        · exact ⟨[], by simp [h], by simp⟩
        · exact ⟨[_], h, by simp⟩
      | immediate res =>
        simp only [hrep] at hown ⊢
        rcases handleEffectCompletion_out_cases { s.env with backend := (s.env.backend.execute p e w).1 } p res with h | h
        · exact ⟨[], by simp [h], by simp⟩
        · refine ⟨[_], h, ?_⟩
          intro p' r hm
          simp only [List.mem_singleton, Cmd.effectCompletion.injEq] at hm
          obtain ⟨rfl, rfl⟩ := hm
          obtain ⟨h1, _⟩ := execute_reply_okRes hrep
          refine ⟨?_, by rw [h1]; exact Nat.le_refl _⟩
          rw [hown, ownGet_regOf]; simp
  | completions n =>
    simp only [step]
    obtain ⟨l, hl, hsub⟩ := handleCompletions_out s.env n
    refine ⟨l, hl, ?_⟩
    intro p r hm
    obtain ⟨p', r', h1, h2⟩ := hsub _ hm
    simp only [Cmd.effectCompletion.injEq] at h1
    obtain ⟨rfl, rfl⟩ := h1
    have hids := processCompletions_resIds s.env.backend n
    refine ⟨?_, (hids.2 r (mem_resIds.2 ⟨p, h2⟩)).1⟩
    rw [handleCompletions_owner]
    exact ownGet_regAll_of_mem hids.1 h2

/-- **created_owned_by_creator.** In every state satisfying the invariant (every state reached by a
history without forged handles: `inv_run`), whenever a step makes the environment tell a process
`p` "your effect completed and created resource `r`" (`EffectCompletion{p, Ok(Resource r)}` — the
synchronous creations inside `handle_effect_request` as well as accept/connect completions
collected later, several per step), then after the step `r` is registered to `p`, and before the
step `r` was registered to nobody (the id is fresh: not below the allocator). -/
theorem created_owned_by_creator (s : Sys) (hs : Inv s) (ev : Event) (l : List Cmd)
    (hl : (step s ev).env.out = s.env.out ++ l) (p : Pid) (r : Rid)
    (hc : Cmd.effectCompletion p (.okRes r) ∈ l) :
    ownGet (step s ev).env.owner r = some p ∧ ownGet s.env.owner r = none := by
  obtain ⟨l', hl', h⟩ := created_aux s ev
  have : l = l' := List.append_cancel_left (hl.symm.trans hl')
  subst this
  obtain ⟨h1, h2⟩ := h p r hc
  refine ⟨h1, ?_⟩
  rw [ownGet_eq_none_iff]
  intro hk
  exact absurd (hs.keys_lt r hk) (Nat.not_lt.2 h2)

/-- The invariant holds after every history whose handles exist (in particular every well-formed
history). -/
theorem reachable_inv (n : Nat) (h : List Event) (hw : handlesFrom (init n) h = true) :
    Inv (run (init n) h) := inv_run (inv_init n) h hw

example :
    let s := run (init 2) [.start, .open 0]
    (step s (.open 0)).env.out = s.env.out ++ [.effectCompletion 0 (.okRes 2)] ∧
    ownGet (step s (.open 0)).env.owner 2 = some 0 := by decide

-- accept: the new socket is registered when the completion is collected, to the accepting process
example :
    let s := run (init 2) [.start, .request 0 { kind := .tcpListen } true,
      .request 0 { kind := .tcpListenerAccept, rid := 1 } true]
    ownGet s.env.owner 2 = none ∧ ownGet (step s (.completions 1)).env.owner 2 = some 0 := by decide

/-! ## a registration changes hands only by a transfer event -/

/-- **owner_unique, second half.** In every state satisfying the invariant: if a step changes the
owner of a registered resource `r` from `p` to a different process `q`, the step is the delivery of
a message containing `r` to `q`, or a spawn whose captures/argument contain `r` and `q` is the new
process. No completion, request, cleanup or await can re-register an id to a second process. -/
theorem owner_changes_only_by_transfer (s : Sys) (hs : Inv s) (ev : Event) (r : Rid) (p q : Pid)
    (h0 : ownGet s.env.owner r = some p) (h1 : ownGet (step s ev).env.owner r = some q) (hne : q ≠ p) :
    (∃ sender msg, ev = .send sender q msg ∧ r ∈ msg.resources) ∨
    (∃ caller caps arg, ev = .spawn caller caps arg ∧ q = s.env.nextPid ∧
      r ∈ resourcesList caps ++ arg.resources) := by
  have hk : r ∈ ownKeys s.env.owner := (ownGet_isSome_iff _ _).1 (by simp [h0])
  have hlt := hs.keys_lt r hk
  have same : ownGet (step s ev).env.owner r = ownGet s.env.owner r → False := by
    intro h; rw [h, h0] at h1; cases h1; exact hne rfl
  cases ev with
  | start => exact (same rfl).elim
  | terminate x => exact (same rfl).elim
  | exited x =>
    exfalso
    simp only [step, handleProcessExited_owner, ownGet_eraseAll] at h1
    split at h1
    · cases h1
    · rw [h0] at h1; cases h1; exact hne rfl
  | send a t v =>
    rw [transfer_moves_send_gen] at h1
    split at h1
    · cases h1
    · split at h1
      · cases h1; exact .inl ⟨a, v, rfl, ‹_›⟩
      · rw [h0] at h1; cases h1; exact (hne rfl).elim
  | spawn c caps arg =>
    rw [transfer_moves_spawn] at h1
    split at h1
    · cases h1; exact .inr ⟨c, caps, arg, rfl, rfl, ‹_›⟩
    · rw [h0] at h1; cases h1; exact (hne rfl).elim
  | results a rs =>
    exfalso
    simp only [step, handleProcessResults_owner, ownGet_eraseAll] at h1
    split at h1
    · cases h1
    · rw [h0] at h1; cases h1; exact hne rfl
  | completions n =>
    exfalso; apply same
    simp only [step, handleCompletions_owner]
    apply ownGet_regAll_of_not_mem
    intro hm
    have := ((processCompletions_resIds s.env.backend n).2 r hm).1
    exact absurd hlt (Nat.not_lt.2 this)
  | request x e w =>
    exfalso; apply same
    simp only [step, handleEffectRequest_owner]
    split
    · rfl
    · split
      · rename_i res hres
        rw [ownGet_regOf]
        split
        · rename_i hr; subst hr
          obtain ⟨h2, _⟩ := execute_reply_okRes hres
          rw [h2] at hlt
          exact absurd hlt (Nat.lt_irrefl _)
        · rfl
      · rfl

/-! ## closes: at most one effective close per id; at most one `close_resource` call per id -/

/-- **effective close at most once.** After ANY history, no resource id has been effectively
closed (removed from the backend's registry by an explicit close effect or by `close_resource`)
more than once, and no effectively closed id is open. -/
theorem effective_close_once (n : Nat) (h : List Event) :
    (run (init n) h).env.backend.effClosed.Nodup ∧
    ∀ r ∈ (run (init n) h).env.backend.effClosed, r ∉ (run (init n) h).env.backend.openSet := by
  suffices ∀ s : Sys, BInv s.env.backend → BInv (run s h).env.backend from
    ⟨(this _ (inv_init n).binv).eff_nodup, (this _ (inv_init n).binv).eff_not_open⟩
  induction h with
  | nil => intro s hs; exact hs
  | cons ev rest ih => intro s hs; exact ih _ (step_binv s ev hs)


/-- **Who can close.** In every state with unique registrations: if a step removes an open resource
`r` from the backend's registry, the step is
* an explicit close effect naming `r` that passed the ownership check (requested by `r`'s owner, or
  `r` is unregistered), or
* a `ProcessResults` reporting the process `r` is registered to as complete (`Cleaned`: not a
  sleeping persistent process), or
* the `ProcessExited` of the process `r` is registered to, or
* the delivery of a message to an already terminated process that, after the transfer, `r` is
  registered to.
Nothing else ever closes a resource — not time, and (before the repair of F10, when the last two
events did not exist) not the termination of its owner. -/
theorem closed_only_by_owner_close_or_cleanup (s : Sys) (hn : KeysNodup s.env.owner) (ev : Event) (r : Rid)
    (h0 : r ∈ s.env.backend.openSet) (h1 : r ∉ (step s ev).env.backend.openSet) :
    (∃ p e w, ev = .request p e w ∧ e.kind.shape = .closeSync ∧ e.rid = r ∧
      violatesOwnership s.env.owner p e = false) ∨
    (∃ a rs p, ev = .results a rs ∧ Cleaned s rs p ∧ ownGet s.env.owner r = some p) ∨
    (∃ p, ev = .exited p ∧ ownGet s.env.owner r = some p) ∨
    (∃ a t v, ev = .send a t v ∧ s.env.exited.contains t = true ∧
      ownGet (insertAll s.env.owner v.resources t) r = some t) := by
  cases ev with
  | start => exact absurd h0 h1
  | terminate p => exact absurd h0 h1
  | exited p =>
    simp only [step, handleProcessExited_backend, closeAll_openSet, List.mem_filter, h0, true_and,
      decide_eq_true_eq, Classical.not_not] at h1
    exact .inr (.inr (.inl ⟨p, rfl, (mem_ownedBy hn).1 h1⟩))
  | send a t v =>
    simp only [step, handleDeliver_backend, closeAll_openSet, List.mem_filter, h0, true_and,
      decide_eq_true_eq, Classical.not_not] at h1
    cases hc : s.env.exited.contains t with
    | false => rw [deliverClosed_alive _ hc] at h1; cases h1
    | true =>
      rw [deliverClosed_dead _ hc] at h1
      exact .inr (.inr (.inr ⟨a, t, v, rfl, hc, (mem_ownedBy (hn.insertAll _ _)).1 h1⟩))
  | spawn c caps arg => simp only [step, handleSpawn_backend] at h1; exact absurd h0 h1
  | completions n =>
    simp only [step, handleCompletions_backend] at h1
    exact absurd (processCompletions_openSet_mono _ n h0) h1
  | request p e w =>
    simp only [step, handleEffectRequest_backend] at h1
    by_cases hv : violatesOwnership s.env.owner p e = true
    · simp only [hv, ↓reduceIte] at h1; exact absurd h0 h1
    · have hv' : violatesOwnership s.env.owner p e = false := by simpa using hv
      simp only [hv', Bool.false_eq_true, ↓reduceIte] at h1
      rcases execute_openSet s.env.backend p e w h0 with h | ⟨h2, h3⟩
      · exact absurd h h1
      · exact .inl ⟨p, e, w, rfl, h2, h3, hv'⟩
  | results a rs =>
    simp only [step, handleProcessResults_backend, closeAll_openSet, List.mem_filter, h0, true_and,
      decide_eq_true_eq, Classical.not_not] at h1
    obtain ⟨p, hp, hg⟩ := (mem_cleanupList hn).1 h1
    exact .inr (.inl ⟨a, rs, p, rfl, (cleaned_iff s rs p).1 hp, hg⟩)

/-- F10 in general form: along ANY continuation that contains neither an accepted explicit close of
`r`, nor a report or the `ProcessExited` of `r`'s current owner (and no transfer of `r`, so the owner
stays the same), an open resource stays open — whether or not its owner has terminated. This is
what made F10 a defect when no `ProcessExited` existed, and it is why the repair consists of the
worker sending one. -/
def leavesAlone (r : Rid) (o : Pid) : Event → Bool
  | .request _ e _ => !(e.kind.shape = .closeSync && e.rid = r)
  | .results _ rs => !(reportedOf rs).contains o
  | .exited p => !(p == o)
  | .send _ _ msg => !msg.resources.contains r
  | .spawn _ caps arg => !(resourcesList caps ++ arg.resources).contains r
  | _ => true

theorem stays_open_while_left_alone (s : Sys) (hs : Inv s) (r : Rid) (o : Pid)
    (hopen : r ∈ s.env.backend.openSet) (hown : ownGet s.env.owner r = some o)
    (hno : o ∉ s.env.exited)
    (h : List Event) (hw : handlesFrom s h = true) (hl : ∀ ev ∈ h, leavesAlone r o ev = true) :
    r ∈ (run s h).env.backend.openSet ∧ ownGet (run s h).env.owner r = some o := by
  induction h generalizing s with
  | nil => exact ⟨hopen, hown⟩
  | cons ev rest ih =>
    simp only [handlesFrom, Bool.and_eq_true] at hw
    have hev := hl ev List.mem_cons_self
    have hs' := inv_step hs ev hw.1
    have hno' : o ∉ (step s ev).env.exited := by
      rw [step_exited]
      cases ev with
      | exited p =>
        simp only [List.mem_cons, not_or]
        refine ⟨?_, hno⟩
        intro hc; subst hc; simp [leavesAlone] at hev
      | start => exact hno
      | terminate p => exact hno
      | request p e w => exact hno
      | completions k => exact hno
      | send a t v => exact hno
      | spawn c caps arg => exact hno
      | results a rs => exact hno
    -- a delivery that leaves r alone does not touch r's registration, and does not close r
    have hsend : ∀ a t v, ev = .send a t v → r ∉ deliverClosed s.env t v := by
      intro a t v he hm
      subst he
      cases hc : s.env.exited.contains t with
      | false => rw [deliverClosed_alive _ hc] at hm; cases hm
      | true =>
        rw [deliverClosed_dead _ hc, mem_ownedBy (hs.keys.insertAll _ _), ownGet_insertAll] at hm
        simp only [leavesAlone, Bool.not_eq_eq_eq_not, Bool.not_true, List.contains_eq_mem,
          decide_eq_false_iff_not] at hev
        rw [if_neg hev, hown] at hm
        cases hm
        exact hno (by simpa using hc)
    have hopen' : r ∈ (step s ev).env.backend.openSet := by
      apply Classical.byContradiction
      intro hc
      rcases closed_only_by_owner_close_or_cleanup s hs.keys ev r hopen hc with
        ⟨p, e, w, rfl, h2, h3, _⟩ | ⟨a, rs, p, rfl, hp, hg⟩ | ⟨p, rfl, hg⟩ | ⟨a, t, v, rfl, hx, hg⟩
      · simp [leavesAlone, h2, h3] at hev
      · rw [hown] at hg; cases hg
        simp only [leavesAlone, Bool.not_eq_eq_eq_not, Bool.not_true, List.contains_eq_mem,
          decide_eq_false_iff_not] at hev
        obtain ⟨rep, hm, hne, _⟩ := hp
        exact hev (mem_reportedOf.2 ⟨rep, hm, hne⟩)
      · rw [hown] at hg; cases hg
        simp [leavesAlone] at hev
      · apply hsend a t v rfl
        rw [deliverClosed_dead _ hx, mem_ownedBy (hs.keys.insertAll _ _)]
        exact hg
    have hown' : ownGet (step s ev).env.owner r = some o := by
      cases hq : ownGet (step s ev).env.owner r with
      | none =>
        -- only a cleanup unregisters, and it would have closed r
        exfalso
        cases ev with
        | start => simp [step, hown] at hq
        | terminate p => simp [step, hown] at hq
        | exited p =>
          simp only [step, handleProcessExited_owner, ownGet_eraseAll] at hq
          split at hq
          · rename_i hm
            have := (mem_ownedBy hs.keys).1 hm
            rw [hown] at this; cases this
            simp [leavesAlone] at hev
          · rw [hown] at hq; cases hq
        | send a t v =>
          rw [transfer_moves_send_gen, if_neg (hsend a t v rfl)] at hq
          split at hq
          · cases hq
          · rw [hown] at hq; cases hq
        | spawn c caps arg =>
          rw [transfer_moves_spawn] at hq
          split at hq
          · cases hq
          · rw [hown] at hq; cases hq
        | completions n =>
          have hk : r ∈ ownKeys s.env.owner := (ownGet_isSome_iff _ _).1 (by simp [hown])
          have : r ∈ ownKeys (step s (.completions n)).env.owner := by
            simp only [step, handleCompletions_owner, mem_ownKeys_regAll]; exact .inr hk
          exact (ownGet_eq_none_iff _ _).1 hq this
        | request p e w =>
          have hk : r ∈ ownKeys s.env.owner := (ownGet_isSome_iff _ _).1 (by simp [hown])
          have : r ∈ ownKeys (step s (.request p e w)).env.owner := by
            simp only [step, handleEffectRequest_owner]
            split
            · exact hk
            · split
              · rw [mem_ownKeys_regOf]; exact .inr hk
              · exact hk
          exact (ownGet_eq_none_iff _ _).1 hq this
        | results a a' =>
          simp only [step, handleProcessResults_owner, ownGet_eraseAll] at hq
          split at hq
          · rename_i hm
            obtain ⟨p, hp, hg⟩ := (mem_cleanupList hs.keys).1 hm
            rw [hown] at hg; cases hg
            simp only [leavesAlone, Bool.not_eq_eq_eq_not, Bool.not_true, List.contains_eq_mem,
              decide_eq_false_iff_not] at hev
            obtain ⟨rep, hm', hne, _⟩ := (cleaned_iff s a' o).1 hp
            exact hev (mem_reportedOf.2 ⟨rep, hm', hne⟩)
          · rw [hown] at hq; cases hq
      | some q =>
        by_cases hqo : q = o
        · rw [hqo]
        · exfalso
          rcases owner_changes_only_by_transfer s hs ev r o q hown hq hqo with
            ⟨a, v, rfl, hm⟩ | ⟨c, caps, arg, rfl, _, hm⟩
          · simp [leavesAlone, hm] at hev
          · simp only [leavesAlone, Bool.not_eq_eq_eq_not, Bool.not_true, List.contains_eq_mem,
              decide_eq_false_iff_not] at hev
            exact hev hm
    exact ih (step s ev) hs' hopen' hown' hno' hw.2 (fun e he => hl e (List.mem_cons_of_mem _ he))

-- a terminated, never-awaited owner: whatever else the other processes do, its file stays open
example :
    let s := run (init 2) [.start, .start, .open 1, .terminate 1]
    let h : List Event := [.open 0, .use 0 2, .send 0 1 (.res 2), .completions 3, .awaitReport 1 0]
    (∀ ev ∈ h, leavesAlone 1 1 ev = true) ∧ 1 ∈ (run s h).env.backend.openSet := by decide

/-- A transfer does not carry an id that `close_resource` has already been called for (a stale
copy of a handle whose resource was cleaned up). -/
def noStale (s : Sys) : Event → Bool
  | .send _ _ msg => msg.resources.all (fun r => !s.env.backend.closeCalls.contains r)
  | .spawn _ caps arg =>
    (resourcesList caps ++ arg.resources).all (fun r => !s.env.backend.closeCalls.contains r)
  | _ => true

def noStaleFrom (s : Sys) : List Event → Bool
  | [] => true
  | ev :: rest => noStale s ev && noStaleFrom (step s ev) rest

structure CInv (s : Sys) : Prop where
  nodup : s.env.backend.closeCalls.Nodup
  not_reg : ∀ r ∈ s.env.backend.closeCalls, r ∉ ownKeys s.env.owner

theorem closedBy_nodup {s : Sys} (hk : KeysNodup s.env.owner) (ev : Event) : (closedBy s ev).Nodup := by
  cases ev with
  | results a rs => exact cleanupList_nodup hk _
  | exited p => exact ownedBy_nodup hk p
  | send a t v =>
    simp only [closedBy, deliverClosed]
    split
    · exact ownedBy_nodup (hk.insertAll _ _) t
    · exact List.nodup_nil
  | start => exact List.nodup_nil
  | terminate p => exact List.nodup_nil
  | spawn c caps arg => exact List.nodup_nil
  | request p e w => exact List.nodup_nil
  | completions n => exact List.nodup_nil

/-- What a step passes to `close_resource` is unregistered after the step. -/
theorem closedBy_unreg (s : Sys) (ev : Event) {r : Rid} (h : r ∈ closedBy s ev) :
    r ∉ ownKeys (step s ev).env.owner := by
  cases ev with
  | results a rs =>
    simp only [step, handleProcessResults_owner, mem_ownKeys_eraseAll, not_and, Classical.not_not]
    exact fun _ => h
  | exited p =>
    simp only [step, handleProcessExited_owner, mem_ownKeys_eraseAll, not_and, Classical.not_not]
    exact fun _ => h
  | send a t v =>
    simp only [step, handleDeliver_owner, mem_ownKeys_eraseAll, not_and, Classical.not_not]
    exact fun _ => h
  | start => cases h
  | terminate p => cases h
  | spawn c caps arg => cases h
  | request p e w => cases h
  | completions n => cases h

theorem cinv_step {s : Sys} (hs : Inv s) (hc : CInv s) (ev : Event) (h2 : noStale s ev = true) :
    CInv (step s ev) := by
  have hcalls := step_closeCalls s ev
  -- an id already passed to close_resource is not passed again by this step
  have hdisj : ∀ r, r ∈ s.env.backend.closeCalls → r ∉ closedBy s ev := by
    intro r hr hm
    rcases closedBy_sub hs.keys ev hm with hk | ⟨a, t, v, rfl, hv⟩
    · exact hc.not_reg r hr hk
    · simp only [noStale, List.all_eq_true, Bool.not_eq_eq_eq_not, Bool.not_true,
        List.contains_eq_mem, decide_eq_false_iff_not] at h2
      exact h2 r hv hr
  refine ⟨?_, ?_⟩
  · rw [hcalls]
    refine List.nodup_append.2 ⟨hc.nodup, closedBy_nodup hs.keys ev, ?_⟩
    intro x hx y hy hxy
    subst hxy
    exact hdisj x hx hy
  · intro r hr
    rw [hcalls, List.mem_append] at hr
    rcases hr with hr | hr
    · -- r was closed earlier: it is not registered, and this step does not register it
      have hnk := hc.not_reg r hr
      cases ev with
      | results a rs =>
        simp only [step, handleProcessResults_owner, mem_ownKeys_eraseAll, not_and]
        exact fun hk => absurd hk hnk
      | exited p =>
        simp only [step, handleProcessExited_owner, mem_ownKeys_eraseAll, not_and]
        exact fun hk => absurd hk hnk
      | start => exact hnk
      | terminate p => exact hnk
      | send a t v =>
        simp only [step, handleDeliver_owner, mem_ownKeys_eraseAll, mem_ownKeys_insertAll, not_and]
        intro hk
        rcases hk with hm | hk
        · simp only [noStale, List.all_eq_true, Bool.not_eq_eq_eq_not, Bool.not_true,
            List.contains_eq_mem, decide_eq_false_iff_not] at h2
          exact absurd hr (h2 r hm)
        · exact absurd hk hnk
      | spawn c caps arg =>
        simp only [step, handleSpawn_owner, mem_ownKeys_insertAll, not_or]
        refine ⟨?_, hnk⟩
        intro hm
        simp only [noStale, List.all_eq_true, Bool.not_eq_eq_eq_not, Bool.not_true,
          List.contains_eq_mem, decide_eq_false_iff_not] at h2
        exact h2 r hm hr
      | completions n =>
        simp only [step, handleCompletions_owner, mem_ownKeys_regAll, not_or]
        refine ⟨?_, hnk⟩
        intro hm
        have := ((processCompletions_resIds s.env.backend n).2 r hm).1
        exact absurd (hs.calls_lt r hr) (Nat.not_lt.2 this)
      | request p e w =>
        simp only [step, handleEffectRequest_owner]
        split
        · exact hnk
        · split
          · rename_i res hres
            rw [mem_ownKeys_regOf, not_or]
            refine ⟨?_, hnk⟩
            intro hx; subst hx
            obtain ⟨h3, _⟩ := execute_reply_okRes hres
            have := hs.calls_lt r hr
            rw [h3] at this
            exact absurd this (Nat.lt_irrefl _)
          · exact hnk
    · exact closedBy_unreg s ev hr

/-- **cleanup_closes_once.** Along every history whose handles exist and in which no transfer
carries a stale copy of an already cleaned-up handle, `close_resource` is called at most once per
resource id over the WHOLE history (`closedByCleanup` has no duplicates), and an id it has been
called for is no longer registered. Each call happens only for a process reported complete
(`cleanup_closes_once_step`). -/
theorem cleanup_closes_once (n : Nat) (h : List Event) (hw : handlesFrom (init n) h = true)
    (hst : noStaleFrom (init n) h = true) :
    (run (init n) h).env.backend.closeCalls.Nodup ∧
    ∀ r ∈ (run (init n) h).env.backend.closeCalls, ownGet (run (init n) h).env.owner r = none := by
  suffices ∀ s : Sys, Inv s → CInv s → handlesFrom s h = true → noStaleFrom s h = true → CInv (run s h) by
    have hc := this (init n) (inv_init n) ⟨by simp [init], by simp [init]⟩ hw hst
    exact ⟨hc.nodup, fun r hr => (ownGet_eq_none_iff _ _).2 (hc.not_reg r hr)⟩
  clear hw hst
  induction h with
  | nil => intro s _ hc _ _; exact hc
  | cons ev rest ih =>
    intro s hs hc hw hst
    simp only [handlesFrom, noStaleFrom, Bool.and_eq_true] at hw hst
    exact ih (step s ev) (inv_step hs ev hw.1) (cinv_step hs hc ev hst.1) hw.2 hst.2

/-- Without the `noStale` hypothesis the statement about *calls* is false — of the model and of the
code: a stale copy of a cleaned-up handle, sent on, registers the dead id again and the next cleanup
passes it to `close_resource` a second time (a no-op in the backend: `effective_close_once` still
holds). Witness: 0 opens r, sends it to 1; 1 ends and is awaited (close r); 0 sends its stale copy
to 2; 2 ends and is awaited (close r again). -/
def staleRecloseWitness : List Event :=
  [.start, .spawn 0 [] .other, .spawn 0 [] .other, .open 0, .send 0 1 (.res 1), .terminate 1,
   .awaitReport 0 1, .send 0 2 (.res 1), .terminate 2, .awaitReport 0 2]

theorem close_called_twice_after_stale_transfer :
    wfFrom (init 3) staleRecloseWitness = true ∧
    (run (init 3) staleRecloseWitness).env.backend.closeCalls = [1, 1] ∧
    (run (init 3) staleRecloseWitness).env.backend.effClosed = [1] := by decide

/-! ## two more consequences of "cleanup only inside handle_process_results" and of "transfer is not
restricted to the owner" (recorded as observations in notes/C14.md) -/

/-- Second trigger of F10: a handle delivered to a process whose completion has ALREADY been
reported (and cleaned up) is registered to the dead process and stays open. -/
def lateArrivalWitness : List Event :=
  [.start, .spawn 0 [] .other, .open 0, .terminate 1, .awaitReport 0 1,
   .send 0 1 (.tuple [.other, .res 1])]

theorem late_arrival_not_closed :
    wfFrom (init 2) lateArrivalWitness = true ∧
    1 ∈ (run (init 2) lateArrivalWitness).reported ∧
    ownGet (run (init 2) lateArrivalWitness).env.owner 1 = some 1 ∧
    ∀ h', EnvOnly h' → 1 ∈ (run (init 2) (lateArrivalWitness ++ h')).env.backend.openSet := by
  refine ⟨by decide, by decide, by decide, ?_⟩
  intro h' he
  rw [run_append, envOnly_idle _ (by decide) h' he]
  decide

-- the same late arrival under the repaired protocol (the worker has reported the exit): the handle
-- is closed on arrival instead of staying open, registered to a dead process
example :
    let h : List Event := [.start, .spawn 0 [] .other, .open 0, .terminate 1, .exited 1,
      .awaitReport 0 1, .send 0 1 (.tuple [.other, .res 1])]
    wfFrom (init 2) h = true ∧ (run (init 2) h).env.backend.closeCalls = [1] ∧
    (run (init 2) h).env.backend.openSet = [] ∧ ownGet (run (init 2) h).env.owner 1 = none := by decide

/-- The environment does not check that the SENDER of a handle owns it: a process that has given a
resource away can still move its ownership with the stale copy it kept (here 0 gives r to 1, then
hands the stale copy to 2: 1 loses r, 2 can use it). C14 as stated defines the owner as the last
recipient, so this is within the property; it is recorded as an observation. -/
theorem stale_sender_moves_ownership :
    let h : List Event := [.start, .start, .start, .open 0, .send 0 1 (.res 1), .send 0 2 (.res 1)]
    wfFrom (init 3) h = true ∧ ownGet (run (init 3) h).env.owner 1 = some 2 ∧
    (step (run (init 3) h) (.use 1 1)).env.backend.executed = (run (init 3) h).env.backend.executed ∧
    (step (run (init 3) h) (.use 2 1)).env.backend.executed
      = (run (init 3) h).env.backend.executed ++ [(2, { kind := .fileRead, rid := 1 })] := by decide


/-- F14 / F38 (found by the C14 harness, repaired in 200f50e) — a witness about the OLD rule.
Before the repair `handle_process_results` cleaned up for every `Some(result)`. The worker's
`query_and_await` treats a *sleeping persistent* process (the REPL's process between two lines) as
completed, so a process awaiting it made the environment close the resources of a process that is
alive and will be resumed. With the old rule (`handleProcessResultsOld`): 0 (persistent) opens r; a
`ProcessResults` reports `Some(Ok)` for the sleeping 0; r is closed although 0 is not dead. With the
repaired rule the very same event changes nothing and 0's next use of r reaches the backend. -/
def sleepingOwnerPrefix : List Event := [.start, .spawn 0 [] .other, .open 0]

theorem sleeping_owner_closed_by_old_rule :
    let s := run (init 2) sleepingOwnerPrefix
    -- the report is one a correct worker emits (the workers' side of the contract is respected)
    livenessOk s (.awaitReport 1 0) = true ∧ 0 ∉ s.terminated ∧ ownGet s.env.owner 1 = some 0 ∧
    -- OLD rule: closed while its owner is alive
    (handleProcessResultsOld s.env [(0, .ok)]).backend.closeCalls = [1] ∧
    (handleProcessResultsOld s.env [(0, .ok)]).backend.openSet = [] ∧
    -- repaired rule: untouched, and the owner's next use is executed
    (step s (.awaitReport 1 0)).env.backend.closeCalls = [] ∧
    (step s (.awaitReport 1 0)).env.backend.openSet = [1] ∧
    ownGet (step s (.awaitReport 1 0)).env.owner 1 = some 0 ∧
    (step (step s (.awaitReport 1 0)) (.use 0 1)).env.backend.executed
      = s.env.backend.executed ++ [(0, { kind := .fileRead, rid := 1 })] := by decide

/-- …while a FAILED persistent process (it can never be resumed) is still cleaned up. -/
example :
    let s := run (init 2) (sleepingOwnerPrefix ++ [.terminate 0])
    livenessOk s (.awaitFailure 1 0) = true ∧
    (step s (.awaitFailure 1 0)).env.backend.closeCalls = [1] := by decide

/-! ## the co-location rule of handle_spawn reads the ownership map -/

/-- If the first top-level resource among captures ++ [argument] is registered to a routed process,
the child is placed on that process's worker (nested resources do not count; otherwise round-robin). -/
theorem spawn_colocated (s : Sys) (caller : Pid) (caps : List Val) (arg : Val) (w : Wid)
    (h : colocate s.env.owner s.env.router (caps ++ [arg]) = some w) :
    Cmd.spawnProcess w s.env.nextPid ∈ (step s (.spawn caller caps arg)).env.out := by
  simp only [step, handleSpawn, h, Option.getD_some]
  split <;> simp

theorem colocate_first (m : Own) (router : List (Pid × Wid)) (r : Rid) (o : Pid) (w : Wid) (rest : List Val)
    (h1 : ownGet m r = some o) (h2 : routeGet router o = some w) :
    colocate m router (.res r :: rest) = some w := by
  simp [colocate, h1, h2]

example :
    let s := run (init 3) [.start, .start, .start, .open 1]
    Cmd.spawnProcess 1 3 ∈ (step s (.spawn 0 [.other, .res 1] .other)).env.out ∧
    -- nested: not considered, round-robin 3 % 3 = 0
    Cmd.spawnProcess 0 3 ∈ (step s (.spawn 0 [.tuple [.res 1]] .other)).env.out := by decide

end C14
