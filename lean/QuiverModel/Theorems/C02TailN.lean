import QuiverModel.Theorems.C02Call
import QuiverModel.Core.RefSem.Compile5
/-
C02, stretch goal, part 8 — **named tail calls (`^f`) are compiled correctly**, on C07's M-VM, with everything of
part 7 (self tail calls, builtin calls) around and inside them. The text is C02Tail's over Compile5's syntax, with

* one more abstract step `tailN` (`TailCall(false)`: function and argument on the stack, justified by
  `cs.app fv arg = some res`; like `^` it ends at the END of the function's code with the result on the stack);
* a different LIFTED invariant: after a named tail call the frame belongs to ANOTHER function, so "the run is at
  the end of `f`'s code" becomes `Done` — the frame on top of `r` has run to the end of its function's code,
  whichever function that is — and `liftX` carries `InvE` (`InvC` inside the code; `InvC` or `Done` at its end).
  The return (`return_done`) needs no more than `Done`;
* the contracts `CallOK`, `TailOK` and `NTailOK` for `callSem Φ bi n` together by induction on the fuel
  (`contracts_all`); `ntail_step` is `handleTailCall false` on a process in `InvC`;
* `compileSq5_correct`.
-/
open QM.VM QM.RefSem.C5
open QM.RefSem.C1 (Sub Pat1 slot compilePat patBinds evalPat wfPat wfProg)
open QM.RefSem.C2 (resetIf)
open C02L (St astepL InvL sim_stepL OracleIntEq e63 jumpTarget_eq Located.tail Located.bound bindVals_length)
open C02F (InvC TRuns.trans transition_instr call_step return_step located_toArray step_keeps_select
  astepL_frag bump_select)

set_option linter.unusedSimpArgs false

namespace C02N

/-! ### Static and dynamic local counts -/

mutual
  def nbT : T4 → Nat
    | .tup _ fs => nbFs fs
    | .mtch p => (patBinds p).length
    | _ => 0
  def nbCh : Ch4 → Nat
    | .nil => 0
    | .cons t r => nbT t + nbCh r
  def nbFs : Fs4 → Nat
    | .nil => 0
    | .cons c r => nbCh c + nbFs r
  def nbSq : Sq4 → Nat
    | .last c => nbCh c
    | .cons c r => nbCh c + nbSq r
end

mutual
  theorem compileT_len : (t : T4) → (Γ : List String) → (compileT Γ t).2.length = Γ.length + nbT t
    | .int _ _, Γ => by simp [compileT, nbT]
    | .ripple, Γ => by simp [compileT, nbT]
    | .tup _ fs, Γ => by simp [compileT, nbT, compileFs_len fs Γ 0]
    | .var _, Γ => by simp [compileT, nbT]
    | .mtch p, Γ => by simp [compileT, nbT]
    | .block _, Γ => by simp [compileT, nbT]
    | .fnlit _ _, Γ => by simp [compileT, nbT]
    | .call _, Γ => by simp [compileT, nbT]
    | .callNil _, Γ => by simp [compileT, nbT]
    | .tailSelf, Γ => by simp [compileT, nbT]
    | .bcall _, Γ => by simp [compileT, nbT]
    | .tailNamed _, Γ => by simp [compileT, nbT]
  theorem compileCh_len : (c : Ch4) → (Γ : List String) → (compileCh Γ c).2.length = Γ.length + nbCh c
    | .nil, Γ => by simp [compileCh, nbCh]
    | .cons t r, Γ => by
      simp only [compileCh, nbCh]
      rw [compileCh_len r, compileT_len t]
      omega
  theorem compileFs_len : (fs : Fs4) → (Γ : List String) → (k : Nat) →
      (compileFs Γ fs k).2.length = Γ.length + nbFs fs
    | .nil, Γ, k => by simp [compileFs, nbFs]
    | .cons c r, Γ, k => by
      simp only [compileFs, nbFs]
      rw [compileFs_len r, compileCh_len c]
      omega
  theorem compileSq_len : (sq : Sq4) → (Γ : List String) → (compileSq Γ sq).2.length = Γ.length + nbSq sq
    | .last c, Γ => by simp [compileSq, nbSq, compileCh_len c Γ]
    | .cons c r, Γ => by
      simp only [compileSq, nbSq]
      rw [compileSq_len r, compileCh_len c]
      omega
end

mutual
  theorem evalT_ext (cs : Sem) : (t : T4) → (Γ : List String) → (L : List Val) → (flow v : Val) → (L' : List Val) →
      evalT cs Γ L flow t = some (.norm v L') → ∃ ext, L' = L ++ ext ∧ ext.length = nbT t
    | .int _ _, Γ, L, flow, v, L', h => by
      simp only [evalT, Option.some.injEq, Out.norm.injEq] at h
      exact ⟨[], by simp [h.2], rfl⟩
    | .ripple, Γ, L, flow, v, L', h => by
      simp only [evalT, Option.some.injEq, Out.norm.injEq] at h
      exact ⟨[], by simp [h.2], rfl⟩
    | .tup _ fs, Γ, L, flow, v, L', h => by
      simp only [evalT, Option.map_eq_some_iff] at h
      obtain ⟨⟨vs, L''⟩, hfs, hv⟩ := h
      simp only [Out.norm.injEq] at hv
      obtain ⟨_, rfl⟩ := hv
      simpa [nbT] using evalFs_ext cs fs Γ L flow vs L'' hfs
    | .var _, Γ, L, flow, v, L', h => by
      simp only [evalT, Option.bind_eq_some_iff, Option.map_eq_some_iff] at h
      obtain ⟨i, _, w, _, hv⟩ := h
      simp only [Out.norm.injEq] at hv
      exact ⟨[], by simp [hv.2], rfl⟩
    | .mtch p, Γ, L, flow, v, L', h => by
      simp only [evalT, Option.map_eq_some_iff] at h
      obtain ⟨⟨w, bound⟩, hp, hv⟩ := h
      simp only [Out.norm.injEq] at hv
      obtain ⟨_, rfl⟩ := hv
      exact ⟨bound, rfl, by simpa [nbT] using C02B.evalPat_length flow p w bound hp⟩
    | .block _, Γ, L, flow, v, L', h => by
      simp only [evalT, Option.map_eq_some_iff] at h
      obtain ⟨o, _, hv⟩ := h
      cases o with
      | norm w Lw =>
        simp only [Out.norm.injEq] at hv
        exact ⟨[], by simp [hv.2], by simp [nbT]⟩
      | exit res => simp at hv
    | .fnlit _ _, Γ, L, flow, v, L', h => by
      simp only [evalT, Option.map_eq_some_iff] at h
      obtain ⟨w, _, hv⟩ := h
      simp only [Out.norm.injEq] at hv
      exact ⟨[], by simp [hv.2], by simp [nbT]⟩
    | .call _, Γ, L, flow, v, L', h => by
      simp only [evalT, Option.bind_eq_some_iff, Option.map_eq_some_iff] at h
      obtain ⟨i, _, fv, _, res, _, hv⟩ := h
      simp only [Out.norm.injEq] at hv
      exact ⟨[], by simp [hv.2], by simp [nbT]⟩
    | .callNil _, Γ, L, flow, v, L', h => by
      simp only [evalT, Option.bind_eq_some_iff, Option.map_eq_some_iff] at h
      obtain ⟨i, _, fv, _, res, _, hv⟩ := h
      simp only [Out.norm.injEq] at hv
      exact ⟨[], by simp [hv.2], by simp [nbT]⟩
    | .tailSelf, Γ, L, flow, v, L', h => by
      simp only [evalT, Option.bind_eq_some_iff, Option.map_eq_some_iff] at h
      obtain ⟨sv, _, res, _, hv⟩ := h
      simp at hv
    | .bcall _, Γ, L, flow, v, L', h => by
      simp only [evalT, Option.map_eq_some_iff] at h
      obtain ⟨w, _, hv⟩ := h
      simp only [Out.norm.injEq] at hv
      exact ⟨[], by simp [hv.2], by simp [nbT]⟩
    | .tailNamed _, Γ, L, flow, v, L', h => by
      simp only [evalT, Option.bind_eq_some_iff, Option.map_eq_some_iff] at h
      obtain ⟨i, _, fv, _, res, _, hv⟩ := h
      simp at hv
  theorem evalCh_ext (cs : Sem) : (c : Ch4) → (Γ : List String) → (L : List Val) → (flow v : Val) → (L' : List Val) →
      evalCh cs Γ L flow c = some (.norm v L') → ∃ ext, L' = L ++ ext ∧ ext.length = nbCh c
    | .nil, Γ, L, flow, v, L', h => by
      simp only [evalCh, Option.some.injEq, Out.norm.injEq] at h
      exact ⟨[], by simp [h.2], rfl⟩
    | .cons t r, Γ, L, flow, v, L', h => by
      simp only [evalCh, Option.bind_eq_some_iff] at h
      obtain ⟨o, ht, hr⟩ := h
      cases o with
      | norm v₁ L₁ =>
        simp only at hr
        obtain ⟨e₁, rfl, l₁⟩ := evalT_ext cs t Γ L flow v₁ L₁ ht
        obtain ⟨e₂, rfl, l₂⟩ := evalCh_ext cs r _ _ _ v L' hr
        exact ⟨e₁ ++ e₂, by simp, by simp [nbCh, l₁, l₂]⟩
      | exit res => simp at hr
  theorem evalFs_ext (cs : Sem) : (fs : Fs4) → (Γ : List String) → (L : List Val) → (flow : Val) → (vs L' : List Val) →
      evalFs cs Γ L flow fs = some (vs, L') → ∃ ext, L' = L ++ ext ∧ ext.length = nbFs fs
    | .nil, Γ, L, flow, vs, L', h => by
      simp only [evalFs, Option.some.injEq, Prod.mk.injEq] at h
      exact ⟨[], by simp [h.2], rfl⟩
    | .cons c r, Γ, L, flow, vs, L', h => by
      simp only [evalFs, Option.bind_eq_some_iff] at h
      obtain ⟨o, hc, hr⟩ := h
      cases o with
      | norm v₁ L₁ =>
        simp only [Option.map_eq_some_iff, Prod.mk.injEq] at hr
        obtain ⟨⟨vs₂, L₂⟩, hr, _, rfl⟩ := hr
        obtain ⟨e₁, rfl, l₁⟩ := evalCh_ext cs c Γ L flow v₁ L₁ hc
        obtain ⟨e₂, rfl, l₂⟩ := evalFs_ext cs r _ _ _ vs₂ L₂ hr
        exact ⟨e₁ ++ e₂, by simp, by simp [nbFs, l₁, l₂]⟩
      | exit res => simp at hr
  theorem evalSq_ext (cs : Sem) : (sq : Sq4) → (Γ : List String) → (L : List Val) → (flow v : Val) → (L' : List Val) →
      evalSq cs Γ L flow sq = some (.norm v L') →
      ∃ ext, L' = L ++ ext ∧ ext.length ≤ nbSq sq ∧ (v.isNil = false → ext.length = nbSq sq)
    | .last c, Γ, L, flow, v, L', h => by
      simp only [evalSq] at h
      obtain ⟨e, rfl, l⟩ := evalCh_ext cs c Γ L flow v L' h
      exact ⟨e, rfl, by simp [nbSq, l], fun _ => by simp [nbSq, l]⟩
    | .cons c r, Γ, L, flow, v, L', h => by
      simp only [evalSq, Option.bind_eq_some_iff] at h
      obtain ⟨o, hc, hr⟩ := h
      cases o with
      | norm v₁ L₁ =>
        simp only at hr
        obtain ⟨e₁, rfl, l₁⟩ := evalCh_ext cs c Γ L flow v₁ L₁ hc
        by_cases hv : v₁.isNil = true
        · simp only [hv, if_true, Option.some.injEq, Out.norm.injEq] at hr
          obtain ⟨rfl, rfl⟩ := hr
          exact ⟨e₁, rfl, by simp [nbSq, l₁], fun h => by rw [hv] at h; cases h⟩
        · have hv' : v₁.isNil = false := by simpa using hv
          simp only [hv', Bool.false_eq_true, if_false] at hr
          obtain ⟨e₂, rfl, l₂, l₃⟩ := evalSq_ext cs r _ _ _ v L' hr
          exact ⟨e₁ ++ e₂, by simp, by simp [nbSq, l₁]; omega, fun h => by simp [nbSq, l₁, l₃ h]⟩
      | exit res => simp at hr
end

theorem compileBrs_isNil (Γp : List String) (n k : Nat) (first : Bool) (bs : Brs4) (h : bs.isNil = true) :
    compileBrs Γp n bs k first = ([], []) := by
  cases bs with
  | nil => simp [compileBrs]
  | cons a b c => simp [Brs4.isNil] at h

/-! ### Abstract runs with `Function`, `Call`, `TailCall(true)` and builtin steps -/

/-- abstract runs over the code of function `fi` (with `nc` captures) -/
inductive ARunsX (O : Oracle) (P : Prog) (code : Array Instr) (cs : Sem) (fi nc : Nat) : St → St → Prop where
  | refl (x : St) : ARunsX O P code cs fi nc x x
  | step {pc : Nat} {s L : List Val} {x y : St} (i : Instr) (hi : code[pc]? = some i)
      (h : astepL O P i pc s L = some x) (r : ARunsX O P code cs fi nc x y) : ARunsX O P code cs fi nc (pc, s, L) y
  | func {pc : Nat} {s L : List Val} {y : St} (fj : Nat) (fn : Function) (ws : List Val)
      (hi : code[pc]? = some (.function fj)) (hfn : P.functions[fj]? = some fn) (hc : fn.captures = ws.length)
      (r : ARunsX O P code cs fi nc (pc + 1, .fn fj (ValList.ofList ws) :: s, L) y) :
      ARunsX O P code cs fi nc (pc, ws.reverse ++ s, L) y
  | call {pc : Nat} {s L : List Val} {y : St} (fv arg res : Val) (hi : code[pc]? = some .call)
      (h : cs.app fv arg = some res) (r : ARunsX O P code cs fi nc (pc + 1, res :: s, L) y) :
      ARunsX O P code cs fi nc (pc, fv :: arg :: s, L) y
  /-- `TailCall(true)`: the function is re-entered with the flowing value; what that yields (`cs.app self arg`)
  is the function's result — the run is at the END of the function's code with the locals cut back to the
  captures. `self` is the function whose code this is, over the captures in the first `nc` locals. -/
  | tail {pc : Nat} {s L : List Val} {y : St} (sv arg res : Val) (hi : code[pc]? = some (.tailCall true))
      (hs : cs.self = some sv) (hsv : sv = .fn fi (ValList.ofList (L.take nc))) (hle : nc ≤ L.length)
      (h : cs.app sv arg = some res)
      (r : ARunsX O P code cs fi nc (code.size, res :: s, L.take nc) y) :
      ARunsX O P code cs fi nc (pc, arg :: s, L) y
  /-- `TailCall(false)`: the function on top of the stack takes the frame over with the argument below it;
  what it yields is this function's result. -/
  | tailN {pc : Nat} {s L : List Val} {y : St} (fv arg res : Val) (hi : code[pc]? = some (.tailCall false))
      (h : cs.app fv arg = some res)
      (r : ARunsX O P code cs fi nc (code.size, res :: s, L.take nc) y) :
      ARunsX O P code cs fi nc (pc, fv :: arg :: s, L) y
  | bcall {pc : Nat} {s L : List Val} {y : St} (bi : Nat) (arg v : Val) (hi : code[pc]? = some (.builtin bi))
      (hi2 : code[pc + 1]? = some .call) (hb : bi < P.builtins) (h : cs.bi bi arg = some v)
      (r : ARunsX O P code cs fi nc (pc + 1 + 1, v :: s, L) y) : ARunsX O P code cs fi nc (pc, arg :: s, L) y

theorem ARunsX.trans {O : Oracle} {P : Prog} {code : Array Instr} {cs : Sem} {fi nc : Nat} {x y z : St}
    (h₁ : ARunsX O P code cs fi nc x y) (h₂ : ARunsX O P code cs fi nc y z) : ARunsX O P code cs fi nc x z := by
  induction h₁ with
  | refl => exact h₂
  | step i hi h _ ih => exact .step i hi h (ih h₂)
  | func fj fn ws hi hfn hc _ ih => exact .func fj fn ws hi hfn hc (ih h₂)
  | call fv arg res hi h _ ih => exact .call fv arg res hi h (ih h₂)
  | tail sv arg res hi hs hsv hle h _ ih => exact .tail sv arg res hi hs hsv hle h (ih h₂)
  | tailN fv arg res hi h _ ih => exact .tailN fv arg res hi h (ih h₂)
  | bcall bi arg v hi hi2 hb h _ ih => exact .bcall bi arg v hi hi2 hb h (ih h₂)

theorem ARunsX.ofL {O : Oracle} {P : Prog} {code : Array Instr} {cs : Sem} {fi nc : Nat} {x y : St}
    (h : C02L.ARunsL O P code x y) : ARunsX O P code cs fi nc x y := by
  induction h with
  | refl x => exact .refl x
  | step i hi h _ ih => exact .step i hi h ih

/-- where a construct's run ends: at the end of its code, or — a `^` was taken — at the end of the
function's code with the locals cut back to the captures -/
def Target (code : Array Instr) (nc pcEnd : Nat) (rest L : List Val) : Out → St
  | .norm v L' => (pcEnd, v :: rest, L')
  | .exit res => (code.size, res :: rest, L.take nc)

theorem Target_ext (code : Array Instr) (nc pcEnd : Nat) (rest L e : List Val) (out : Out) (h : nc ≤ L.length) :
    Target code nc pcEnd rest (L ++ e) out = Target code nc pcEnd rest L out := by
  cases out with
  | norm v L' => rfl
  | exit res => simp [Target, List.take_append_of_le_length h]

/-- the function `^` re-enters is the one whose code runs, over the captures in the frame's first locals -/
def SelfOK (cs : Sem) (fi nc : Nat) (L : List Val) : Prop :=
  ∀ sv, cs.self = some sv → sv = .fn fi (ValList.ofList (L.take nc))

theorem SelfOK.ext {cs : Sem} {fi nc : Nat} {L : List Val} (h : SelfOK cs fi nc L) (hnc : nc ≤ L.length)
    (e : List Val) : SelfOK cs fi nc (L ++ e) := by
  intro sv hs
  rw [List.take_append_of_le_length hnc]
  exact h sv hs

/-- the value at the parameter clear comes with the locals `Lp` -/
theorem evalBrs_norm (cs : Sem) (Γp : List String) (Lp : List Val) (flow : Val) :
    (bs : Brs4) → (v : Val) → (Lw : List Val) → evalBrs cs Γp Lp flow bs = some (.norm v Lw) → Lw = Lp
  | .nil, v, Lw, h => by
    simp only [evalBrs, Option.some.injEq, Out.norm.injEq] at h
    exact h.2.symm
  | .cons cond .none rs, v, Lw, h => by
    simp only [evalBrs, Option.bind_eq_some_iff] at h
    obtain ⟨o, _, hr⟩ := h
    cases o with
    | norm vc Lc =>
      simp only at hr
      split at hr
      · exact evalBrs_norm cs Γp Lp flow rs v Lw hr
      · simp only [Option.some.injEq, Out.norm.injEq] at hr
        exact hr.2.symm
    | exit res => simp at hr
  | .cons cond (.some cons) rs, v, Lw, h => by
    simp only [evalBrs, Option.bind_eq_some_iff] at h
    obtain ⟨o, _, hr⟩ := h
    cases o with
    | norm vc Lc =>
      simp only at hr
      split at hr
      · exact evalBrs_norm cs Γp Lp flow rs v Lw hr
      · simp only [Option.map_eq_some_iff] at hr
        obtain ⟨o2, _, hm⟩ := hr
        cases o2 with
        | norm w Lk =>
          simp only [Out.norm.injEq] at hm
          exact hm.2.symm
        | exit res => simp at hm
    | exit res => simp at hr

section Lifted
variable {O : Oracle} {P : Prog} {code : Array Instr} {cs : Sem} {fi nc : Nat} {pc : Nat}

theorem l_pop {v : Val} {s L : List Val} (hi : code[pc]? = some .pop) :
    ARunsX O P code cs fi nc (pc, v :: s, L) (pc + 1, s, L) := .ofL (C02L.l_pop hi)
theorem l_const {i : Nat} {z : Int} {s L : List Val} (hi : code[pc]? = some (.constant i))
    (hc : P.constants[i]? = some (.int z)) : ARunsX O P code cs fi nc (pc, s, L) (pc + 1, .int z :: s, L) :=
  .ofL (C02L.l_const hi hc)
theorem l_pick {n : Nat} {v : Val} {s L : List Val} (hi : code[pc]? = some (.pick n))
    (hv : s[n]? = some v) : ARunsX O P code cs fi nc (pc, s, L) (pc + 1, v :: s, L) := .ofL (C02L.l_pick hi hv)
theorem l_rot2 {a b : Val} {s L : List Val} (hi : code[pc]? = some (.rotate 2)) :
    ARunsX O P code cs fi nc (pc, a :: b :: s, L) (pc + 1, b :: a :: s, L) := .ofL (C02L.l_rot2 hi)
theorem l_tuple {id : Nat} {vs rest L : List Val} (hi : code[pc]? = some (.tuple id))
    (hid : P.tuples[id]? = some vs.length) :
    ARunsX O P code cs fi nc (pc, vs.reverse ++ rest, L) (pc + 1, .tup id (ValList.ofList vs) :: rest, L) :=
  .ofL (C02L.l_tuple hi hid)
theorem l_dup {v : Val} {s L : List Val} (hi : code[pc]? = some .duplicate) :
    ARunsX O P code cs fi nc (pc, v :: s, L) (pc + 1, v :: v :: s, L) := .ofL (C02L.l_dup hi)
theorem l_not {v : Val} {s L : List Val} (hi : code[pc]? = some .not) :
    ARunsX O P code cs fi nc (pc, v :: s, L) (pc + 1, (if v.isNil then Val.ok else Val.nil) :: s, L) :=
  .ofL (C02L.l_not hi)
theorem l_jumpIf_fall {off : Int} {c : Val} {s L : List Val}
    (hi : code[pc]? = some (.jumpIf off)) (hc : c.isNil = true) :
    ARunsX O P code cs fi nc (pc, c :: s, L) (pc + 1, s, L) := .ofL (C02L.l_jumpIf_fall hi hc)
theorem l_jumpIf_to {off : Int} {t : Nat} {c : Val} {s L : List Val}
    (hi : code[pc]? = some (.jumpIf off)) (hc : c.isNil = false)
    (h : (pc : Int) + off + 1 = (t : Int)) (ht : t < 2 ^ 63) :
    ARunsX O P code cs fi nc (pc, c :: s, L) (t, s, L) := .ofL (C02L.l_jumpIf_to hi hc h ht)
theorem l_load {k : Nat} {v : Val} {s L : List Val} (hi : code[pc]? = some (.load k))
    (hv : L[k]? = some v) : ARunsX O P code cs fi nc (pc, s, L) (pc + 1, v :: s, L) := .ofL (C02L.l_load hi hv)
theorem l_store {v : Val} {s L : List Val} (hi : code[pc]? = some .store) :
    ARunsX O P code cs fi nc (pc, v :: s, L) (pc + 1, s, L ++ [v]) := .ofL (C02L.l_store hi)
theorem l_reset {n : Nat} {s L : List Val} (hi : code[pc]? = some (.reset n)) (hn : n ≤ L.length) :
    ARunsX O P code cs fi nc (pc, s, L) (pc + 1, s, L.take n) := .ofL (C02L.l_reset hi hn)
theorem l_jump {off : Int} {t : Nat} {s L : List Val} (hi : code[pc]? = some (.jump off))
    (h : (pc : Int) + off + 1 = (t : Int)) (ht : t < 2 ^ 63) :
    ARunsX O P code cs fi nc (pc, s, L) (t, s, L) := .ofL (C02L.l_jump hi h ht)

theorem compilePat_aruns (hO : OracleIntEq O) (hP : wfProg P) (hsz : code.size < 2 ^ 63 - 1)
    (p : Pat1) (pc : Nat) (flow : Val) (rest L : List Val) (v : Val) (bound : List Val)
    (hl : C02S.Located code pc (compilePat p)) (hw : wfPat P p) (hev : evalPat flow p = some (v, bound)) :
    ARunsX O P code cs fi nc (pc, flow :: rest, L) (pc + (compilePat p).length, v :: rest, L ++ bound) ∧
      bound.length = (patBinds p).length :=
  ⟨.ofL (C02L.compilePat_aruns hO hP hsz p pc flow rest L v bound hl hw hev).1,
   (C02L.compilePat_aruns (O := O) hO hP hsz p pc flow rest L v bound hl hw hev).2⟩

end Lifted

/-! ### The structural proof, with the two targets -/

section Machine
variable {O : Oracle} {P : Prog} {code : Array Instr} {cs : Sem} {fi nc : Nat}

/-- `Reset(n+1)` where the branch has compile-time bindings; where it has none, nothing was stored -/
theorem resetIf_aruns (len n pc : Nat) (s Lp ext : List Val) (hl : C02S.Located code pc (resetIf len n))
    (hLp : Lp.length = n + 1) (hext : ¬ (len > n + 1) → ext = []) :
    ARunsX O P code cs fi nc (pc, s, Lp ++ ext) (pc + (resetIf len n).length, s, Lp) := by
  unfold resetIf at hl ⊢
  by_cases h : len > n + 1
  · simp only [h, if_true] at hl ⊢
    have := l_reset (O := O) (P := P) (cs := cs) (fi := fi) (nc := nc) (s := s) (L := Lp ++ ext) (n := n + 1) hl.head (by simp; omega)
    simpa [← hLp] using this
  · simp only [h, if_false] at hl ⊢
    rw [hext h]
    simpa using ARunsX.refl _

/-- a later branch starts by popping the failed condition's nil -/
theorem pre_aruns (first : Bool) (junk : Val) (rest L : List Val) (pos : Nat) (X : List Instr)
    (hl : C02S.Located code pos ((if first then [] else [Instr.pop]) ++ X)) :
    ∃ p1, ARunsX O P code cs fi nc (pos, (if first then rest else junk :: rest), L) (p1, rest, L) ∧
      C02S.Located code p1 X ∧ p1 = pos + (if first then [] else [Instr.pop]).length := by
  cases first with
  | true => exact ⟨pos, by simpa using ARunsX.refl _, by simpa using hl, by simp⟩
  | false =>
    simp only [Bool.false_eq_true, if_false] at hl ⊢
    have hl' : C02S.Located code pos (.pop :: X) := by simpa using hl
    exact ⟨pos + 1, l_pop hl'.head, Located.tail hl', by simp⟩

theorem loadsOf_length (Γ : List String) : (caps : List String) → (loadsOf Γ caps).length = caps.length
  | [] => rfl
  | c :: r => by simp [loadsOf, loadsOf_length Γ r]

theorem capVals_length (Γ : List String) (L : List Val) : (caps : List String) → (ws : List Val) →
    capVals Γ L caps = some ws → ws.length = caps.length
  | [], ws, h => by simp only [capVals, Option.some.injEq] at h; subst h; rfl
  | c :: r, ws, h => by
    simp only [capVals] at h
    split at h
    · rename_i v vs _ hvs
      simp only [Option.some.injEq] at h
      subst h
      simp [capVals_length Γ L r vs hvs]
    · simp at h

/-- the captured values are pushed in capture order -/
theorem loads_aruns (Γ : List String) (L : List Val) : (caps : List String) → (ws : List Val) → (q : Nat) →
    (s : List Val) → C02S.Located code q (loadsOf Γ caps) → capVals Γ L caps = some ws →
    ARunsX O P code cs fi nc (q, s, L) (q + caps.length, ws.reverse ++ s, L)
  | [], ws, q, s, _, h => by
    simp only [capVals, Option.some.injEq] at h
    subst h
    simpa using ARunsX.refl _
  | c :: r, ws, q, s, hl, h => by
    simp only [capVals] at h
    split at h
    · rename_i v vs hv hvs
      simp only [Option.some.injEq] at h
      subst h
      simp only [Option.bind_eq_some_iff] at hv
      obtain ⟨i, hi, hLi⟩ := hv
      have hl' : C02S.Located code q (.load i :: loadsOf Γ r) := by simpa [loadsOf, hi] using hl
      have a := l_load (O := O) (P := P) (cs := cs) (fi := fi) (nc := nc) (s := s) (L := L) hl'.head hLi
      have b := loads_aruns Γ L r vs (q + 1) (v :: s) (Located.tail hl') hvs
      have := a.trans b
      have e : q + (c :: r).length = q + 1 + r.length := by simp; omega
      rw [e]
      simpa using this
    · simp at h

theorem Located.le_size {pc : Nat} {is : List Instr} (h : C02S.Located code pc is) :
    is ≠ [] → pc + is.length ≤ code.size := by
  intro hne
  have hpos : 0 < is.length := List.length_pos_iff.mpr hne
  have := Located.bound h (is.length - 1) (by omega)
  omega

mutual
  theorem compileT_aruns (hO : OracleIntEq O) (hP : wfProg P) (hsz : code.size < 2 ^ 63 - 1) :
      (t : T4) → (Γ : List String) → (pc : Nat) → (flow : Val) → (rest L : List Val) → (out : Out) →
      C02S.Located code pc (compileT Γ t).1 → wfT P t → L.length = Γ.length → nc ≤ L.length →
      SelfOK cs fi nc L → evalT cs Γ L flow t = some out →
      ARunsX O P code cs fi nc (pc, flow :: rest, L) (Target code nc (pc + (compileT Γ t).1.length) rest L out)
    | .int z i, Γ, pc, flow, rest, L, out, hl, hw, _, _, _, hev => by
      simp only [evalT, Option.some.injEq] at hev
      subst hev
      simp only [Target]
      simp only [compileT] at hl ⊢
      exact (l_pop hl.head).trans (l_const (Located.tail hl).head hw)
    | .ripple, Γ, pc, flow, rest, L, out, _, _, _, _, _, hev => by
      simp only [evalT, Option.some.injEq] at hev
      subst hev
      simp only [Target]
      simp only [compileT, List.length_nil, Nat.add_zero]
      exact .refl _
    | .tup id fs, Γ, pc, flow, rest, L, out, hl, hw, hal, hnc, hself, hev => by
      simp only [evalT, Option.map_eq_some_iff] at hev
      obtain ⟨⟨vs, L''⟩, hfs, hv⟩ := hev
      subst hv
      simp only [Target]
      simp only [compileT] at hl ⊢
      obtain ⟨hrun, hlen⟩ := compileFs_aruns hO hP hsz fs Γ pc flow rest L [] vs L'' hl.left hw.2 hal hnc hself hfs
      simp only [List.length_nil, List.reverse_nil, List.nil_append] at hrun
      refine hrun.trans ?_
      have hr := hl.right
      have h0 := hr.head
      have h1 := (Located.tail hr).head
      have h2 := (Located.tail (Located.tail hr)).head
      have hid : P.tuples[id]? = some vs.length := by rw [hlen]; exact hw.1
      have e : pc + ((compileFs Γ fs 0).1 ++ [Instr.tuple id, Instr.rotate 2, Instr.pop]).length =
          pc + (compileFs Γ fs 0).1.length + 1 + 1 + 1 := by simp; omega
      rw [e]
      exact ((l_tuple h0 hid).trans (l_rot2 h1)).trans (l_pop h2)
    | .var x, Γ, pc, flow, rest, L, out, hl, _, _, _, _, hev => by
      simp only [evalT, Option.bind_eq_some_iff, Option.map_eq_some_iff] at hev
      obtain ⟨i, hi, w, hw', hv⟩ := hev
      subst hv
      simp only [Target]
      simp only [compileT, hi, Option.getD_some] at hl ⊢
      exact (l_pop hl.head).trans (l_load (Located.tail hl).head hw')
    | .mtch p, Γ, pc, flow, rest, L, out, hl, hw, _, _, _, hev => by
      simp only [evalT, Option.map_eq_some_iff] at hev
      obtain ⟨⟨w, bound⟩, hp, hv⟩ := hev
      subst hv
      simp only [Target]
      simp only [compileT] at hl ⊢
      exact (compilePat_aruns hO hP hsz p pc flow rest L w bound hl hw hp).1
    | .block bs, Γ, pc, flow, rest, L, out, hl, hw, hal, hnc, hself, hev => by
      simp only [evalT, Option.map_eq_some_iff] at hev
      obtain ⟨o, hbs, hv⟩ := hev
      simp only [compileT] at hl ⊢
      -- the pieces of the block's code
      have hl1 : C02S.Located code pc (.store :: ((compileBrs (Γ ++ [""]) Γ.length bs 0 true).1 ++
          ([.reset Γ.length] ++ ((if (compileBrs (Γ ++ [""]) Γ.length bs 0 true).2 = [] then []
            else [.jump (((compileBrs (Γ ++ [""]) Γ.length bs 0 true).2.length : Nat) : Int)]) ++
            (compileBrs (Γ ++ [""]) Γ.length bs 0 true).2)))) := by simpa using hl
      have hst := hl1.head
      have hmain := (Located.tail hl1).left
      have hafter := (Located.tail hl1).right
      have hreset : code[pc + 1 + (compileBrs (Γ ++ [""]) Γ.length bs 0 true).1.length]? = some (.reset Γ.length) :=
        hafter.head
      have hrest := Located.tail hafter
      have hPC : pc + 1 + (compileBrs (Γ ++ [""]) Γ.length bs 0 true).1.length < code.size := by
        have := Located.bound hafter 0 (by simp)
        simpa using this
      have s1 := l_store (O := O) (P := P) (cs := cs) (fi := fi) (nc := nc) (v := flow) (s := rest) (L := L) hst
      -- the cleanup blocks sit two instructions after the parameter clear, if there are any
      have hcl : C02S.Located code (pc + 1 + (compileBrs (Γ ++ [""]) Γ.length bs 0 true).1.length + 2 + 2 * 0)
          (compileBrs (Γ ++ [""]) Γ.length bs 0 true).2 := by
        by_cases hc : (compileBrs (Γ ++ [""]) Γ.length bs 0 true).2 = []
        · rw [hc]; intro k hk; simp at hk
        · simp only [hc, if_false] at hrest
          have hrest' : C02S.Located code (pc + 1 + (compileBrs (Γ ++ [""]) Γ.length bs 0 true).1.length + 1)
              (.jump (((compileBrs (Γ ++ [""]) Γ.length bs 0 true).2.length : Nat) : Int) ::
                (compileBrs (Γ ++ [""]) Γ.length bs 0 true).2) := by simpa using hrest
          have := Located.tail hrest'
          simpa [Nat.add_assoc] using this
      have main := compileBrs_aruns hO hP hsz bs (Γ ++ [""]) Γ.length 0 true (pc + 1)
        (pc + 1 + (compileBrs (Γ ++ [""]) Γ.length bs 0 true).1.length) flow flow rest L o hmain rfl hcl hPC hw.2
        (by simp) hal hnc hself (fun _ => hw.1) (fun h => by cases h) hbs
      simp only [if_true] at main
      cases o with
      | exit res =>
        -- a `^` was taken inside the block: the function's end, nothing of the block's epilogue runs
        subst hv
        simp only [Target] at main ⊢
        rw [List.take_append_of_le_length hnc] at main
        exact s1.trans main
      | norm w Lw =>
        subst hv
        have hLw := evalBrs_norm cs (Γ ++ [""]) (L ++ [flow]) flow bs w Lw hbs
        subst hLw
        simp only [Target] at main ⊢
        have r1 := l_reset (O := O) (P := P) (cs := cs) (fi := fi) (nc := nc) (s := w :: rest) (L := L ++ [flow]) (n := Γ.length) hreset
          (by simp; omega)
        have htake : (L ++ [flow]).take Γ.length = L := by rw [← hal]; simp
        rw [htake] at r1
        refine (s1.trans main).trans (r1.trans ?_)
        by_cases hc : (compileBrs (Γ ++ [""]) Γ.length bs 0 true).2 = []
        · simp only [hc, if_true, List.append_nil]
          have e : pc + ([Instr.store] ++ ((compileBrs (Γ ++ [""]) Γ.length bs 0 true).1 ++ [Instr.reset Γ.length])).length =
              pc + 1 + (compileBrs (Γ ++ [""]) Γ.length bs 0 true).1.length + 1 := by simp; omega
          rw [e]
          exact .refl _
        · simp only [hc, if_false] at hrest ⊢
          have hj := hrest.head
          have hb := Located.le_size (code := code) hrest (by simp)
          have e : pc + ([Instr.store] ++ ((compileBrs (Γ ++ [""]) Γ.length bs 0 true).1 ++ ([Instr.reset Γ.length] ++
              ([Instr.jump (((compileBrs (Γ ++ [""]) Γ.length bs 0 true).2.length : Nat) : Int)] ++
                (compileBrs (Γ ++ [""]) Γ.length bs 0 true).2)))).length =
              pc + 1 + (compileBrs (Γ ++ [""]) Γ.length bs 0 true).1.length + 1 + 1 +
                (compileBrs (Γ ++ [""]) Γ.length bs 0 true).2.length := by simp; omega
          rw [e]
          simp at hb
          exact l_jump hj (by omega) (by rw [e63]; omega)
    | .fnlit fj caps, Γ, pc, flow, rest, L, out, hl, hw, _, _, _, hev => by
      simp only [evalT, Option.map_eq_some_iff] at hev
      obtain ⟨ws, hws, hv⟩ := hev
      subst hv
      simp only [Target]
      obtain ⟨fn, hfn, hcap⟩ := hw
      simp only [compileT] at hl ⊢
      have hl' : C02S.Located code pc (.pop :: (loadsOf Γ caps ++ [.function fj])) := by simpa using hl
      have a := l_pop (O := O) (P := P) (cs := cs) (fi := fi) (nc := nc) (v := flow) (s := rest) (L := L) hl'.head
      have hl2 := Located.tail hl'
      have b := loads_aruns (O := O) (P := P) (cs := cs) (fi := fi) (nc := nc) Γ L caps ws (pc + 1) rest hl2.left hws
      have hf : code[pc + 1 + caps.length]? = some (.function fj) := by
        have := hl2.right.head
        simpa [loadsOf_length] using this
      have hlen := capVals_length Γ L caps ws hws
      have c : ARunsX O P code cs fi nc (pc + 1 + caps.length, ws.reverse ++ rest, L)
          (pc + 1 + caps.length + 1, .fn fj (ValList.ofList ws) :: rest, L) :=
        .func fj fn ws hf hfn (by rw [hcap, hlen]) (.refl _)
      have e : pc + ([Instr.pop] ++ (loadsOf Γ caps ++ [Instr.function fj])).length = pc + 1 + caps.length + 1 := by
        simp [loadsOf_length]; omega
      rw [e]
      exact (a.trans b).trans c
    | .call x, Γ, pc, flow, rest, L, out, hl, _, _, _, _, hev => by
      simp only [evalT, Option.bind_eq_some_iff, Option.map_eq_some_iff] at hev
      obtain ⟨i, hi, fv, hfv, res, hres, hv⟩ := hev
      subst hv
      simp only [Target]
      simp only [compileT, hi, Option.getD_some] at hl ⊢
      have a := l_load (O := O) (P := P) (cs := cs) (fi := fi) (nc := nc) (s := flow :: rest) (L := L) hl.head hfv
      have b : ARunsX O P code cs fi nc (pc + 1, fv :: flow :: rest, L) (pc + 1 + 1, res :: rest, L) :=
        .call fv flow res (Located.tail hl).head hres (.refl _)
      exact a.trans b
    | .callNil x, Γ, pc, flow, rest, L, out, hl, _, _, _, _, hev => by
      simp only [evalT, Option.bind_eq_some_iff, Option.map_eq_some_iff] at hev
      obtain ⟨i, hi, fv, hfv, res, hres, hv⟩ := hev
      subst hv
      simp only [Target]
      simp only [compileT, hi, Option.getD_some] at hl ⊢
      have t1 := Located.tail hl
      have t2 := Located.tail t1
      have t3 := Located.tail t2
      have t4 := Located.tail t3
      have t5 := Located.tail t4
      have a := l_load (O := O) (P := P) (cs := cs) (fi := fi) (nc := nc) (s := flow :: rest) (L := L) hl.head hfv
      have b := l_rot2 (O := O) (P := P) (cs := cs) (fi := fi) (nc := nc) (a := fv) (b := flow) (s := rest) (L := L) t1.head
      have c := l_pop (O := O) (P := P) (cs := cs) (fi := fi) (nc := nc) (v := flow) (s := fv :: rest) (L := L) t2.head
      have d := l_tuple (O := O) (P := P) (cs := cs) (fi := fi) (nc := nc) (id := 0) (vs := []) (rest := fv :: rest) (L := L) t3.head
        (by simpa using hP.1)
      have e := l_rot2 (O := O) (P := P) (cs := cs) (fi := fi) (nc := nc) (a := Val.tup 0 (ValList.ofList [])) (b := fv) (s := rest) (L := L)
        (by simpa using t4.head)
      have f : ARunsX O P code cs fi nc (pc + 1 + 1 + 1 + 1 + 1, fv :: Val.nil :: rest, L)
          (pc + 1 + 1 + 1 + 1 + 1 + 1, res :: rest, L) :=
        .call fv Val.nil res t5.head hres (.refl _)
      have := ((((a.trans b).trans c).trans (by simpa using d)).trans (by simpa [ValList.ofList] using e)).trans
        (by simpa [Val.nil] using f)
      simpa using this
    | .tailSelf, Γ, pc, flow, rest, L, out, hl, _, _, hnc, hself, hev => by
      simp only [evalT, Option.bind_eq_some_iff, Option.map_eq_some_iff] at hev
      obtain ⟨sv, hs, res, hres, hv⟩ := hev
      subst hv
      simp only [Target, compileT] at hl ⊢
      exact .tail sv flow res hl.head hs (hself sv hs) hnc hres (.refl _)
    | .bcall bi, Γ, pc, flow, rest, L, out, hl, hw, _, _, _, hev => by
      simp only [evalT, Option.map_eq_some_iff] at hev
      obtain ⟨w, hres, hv⟩ := hev
      subst hv
      simp only [Target, compileT] at hl ⊢
      exact .bcall bi flow w hl.head (Located.tail hl).head hw hres (.refl _)
    | .tailNamed x, Γ, pc, flow, rest, L, out, hl, _, _, _, _, hev => by
      simp only [evalT, Option.bind_eq_some_iff, Option.map_eq_some_iff] at hev
      obtain ⟨i, hi, fv, hfv, res, hres, hv⟩ := hev
      subst hv
      simp only [Target]
      simp only [compileT, hi, Option.getD_some] at hl ⊢
      have a := l_load (O := O) (P := P) (cs := cs) (fi := fi) (nc := nc) (s := flow :: rest) (L := L) hl.head hfv
      have b : ARunsX O P code cs fi nc (pc + 1, fv :: flow :: rest, L) (code.size, res :: rest, L.take nc) :=
        .tailN fv flow res (Located.tail hl).head hres (.refl _)
      exact a.trans b
  theorem compileCh_aruns (hO : OracleIntEq O) (hP : wfProg P) (hsz : code.size < 2 ^ 63 - 1) :
      (c : Ch4) → (Γ : List String) → (pc : Nat) → (flow : Val) → (rest L : List Val) → (out : Out) →
      C02S.Located code pc (compileCh Γ c).1 → wfCh P c → L.length = Γ.length → nc ≤ L.length →
      SelfOK cs fi nc L → evalCh cs Γ L flow c = some out →
      ARunsX O P code cs fi nc (pc, flow :: rest, L) (Target code nc (pc + (compileCh Γ c).1.length) rest L out)
    | .nil, Γ, pc, flow, rest, L, out, _, _, _, _, _, hev => by
      simp only [evalCh, Option.some.injEq] at hev
      subst hev
      simp only [Target, compileCh, List.length_nil, Nat.add_zero]
      exact .refl _
    | .cons t r, Γ, pc, flow, rest, L, out, hl, hw, hal, hnc, hself, hev => by
      simp only [evalCh, Option.bind_eq_some_iff] at hev
      obtain ⟨o₁, ht, hr⟩ := hev
      simp only [compileCh] at hl ⊢
      have run₁ := compileT_aruns hO hP hsz t Γ pc flow rest L o₁ hl.left hw.1 hal hnc hself ht
      cases o₁ with
      | exit res =>
        simp only [Option.some.injEq] at hr
        subst hr
        simpa [Target] using run₁
      | norm v₁ L₁ =>
        simp only at hr
        obtain ⟨e₁, rfl, l₁⟩ := evalT_ext cs t Γ L flow v₁ L₁ ht
        have al₁ : (L ++ e₁).length = (compileT Γ t).2.length := by rw [compileT_len]; simp [hal, l₁]
        have run₂ := compileCh_aruns hO hP hsz r (compileT Γ t).2 (pc + (compileT Γ t).1.length) v₁ rest
          (L ++ e₁) out hl.right hw.2 al₁ (by simp; omega) (hself.ext hnc e₁) hr
        simp only [Target] at run₁
        refine run₁.trans ?_
        rw [Target_ext code nc _ rest L e₁ out hnc] at run₂
        simpa [Nat.add_assoc] using run₂
  theorem compileFs_aruns (hO : OracleIntEq O) (hP : wfProg P) (hsz : code.size < 2 ^ 63 - 1) :
      (fs : Fs4) → (Γ : List String) → (pc : Nat) → (flow : Val) → (rest L acc vs : List Val) →
      (L' : List Val) → C02S.Located code pc (compileFs Γ fs acc.length).1 → wfFs P fs →
      L.length = Γ.length → nc ≤ L.length → SelfOK cs fi nc L → evalFs cs Γ L flow fs = some (vs, L') →
      ARunsX O P code cs fi nc (pc, acc.reverse ++ flow :: rest, L)
          (pc + (compileFs Γ fs acc.length).1.length, (acc ++ vs).reverse ++ flow :: rest, L') ∧
        vs.length = fs.length
    | .nil, Γ, pc, flow, rest, L, acc, vs, L', _, _, _, _, _, hev => by
      simp only [evalFs, Option.some.injEq, Prod.mk.injEq] at hev
      obtain ⟨rfl, rfl⟩ := hev
      simp only [compileFs, List.append_nil, List.length_nil, Nat.add_zero]
      exact ⟨.refl _, rfl⟩
    | .cons c r, Γ, pc, flow, rest, L, acc, vs, L', hl, hw, hal, hnc, hself, hev => by
      simp only [evalFs, Option.bind_eq_some_iff] at hev
      obtain ⟨o₁, hc, hr⟩ := hev
      cases o₁ with
      | exit res => simp at hr
      | norm v₁ L₁ =>
        simp only [Option.map_eq_some_iff, Prod.mk.injEq] at hr
        obtain ⟨⟨vs₂, L₂⟩, hr, rfl, rfl⟩ := hr
        simp only [compileFs] at hl ⊢
        rw [List.append_assoc] at hl
        have h0 : code[pc]? = some (.pick acc.length) := hl.head
        have hpick : (acc.reverse ++ flow :: rest)[acc.length]? = some flow :=
          C02S.getElem?_append_reverse' acc flow rest
        have hl2 : C02S.Located code (pc + 1) ((compileCh Γ c).1 ++ (compileFs (compileCh Γ c).2 r (acc.length + 1)).1) := by
          have := hl.right
          simpa using this
        have run₁ := compileCh_aruns hO hP hsz c Γ (pc + 1) flow (acc.reverse ++ flow :: rest) L (.norm v₁ L₁)
          hl2.left hw.1 hal hnc hself hc
        simp only [Target] at run₁
        obtain ⟨e₁, rfl, l₁⟩ := evalCh_ext cs c Γ L flow v₁ L₁ hc
        have al₁ : (L ++ e₁).length = (compileCh Γ c).2.length := by rw [compileCh_len]; simp [hal, l₁]
        obtain ⟨run₂, len₂⟩ := compileFs_aruns hO hP hsz r (compileCh Γ c).2 (pc + 1 + (compileCh Γ c).1.length)
          flow rest (L ++ e₁) (acc ++ [v₁]) vs₂ L₂ (by simpa using hl2.right) hw.2 al₁ (by simp; omega)
          (hself.ext hnc e₁) hr
        refine ⟨(l_pick h0 hpick).trans (run₁.trans ?_), by simp [Fs4.length, len₂]⟩
        have e : pc + ([Instr.pick acc.length] ++ (compileCh Γ c).1 ++ (compileFs (compileCh Γ c).2 r (acc.length + 1)).1).length =
            pc + 1 + (compileCh Γ c).1.length + (compileFs (compileCh Γ c).2 r (acc ++ [v₁]).length).1.length := by
          simp; omega
        rw [e]
        simpa using run₂
  theorem compileSq_aruns (hO : OracleIntEq O) (hP : wfProg P) (hsz : code.size < 2 ^ 63 - 1) :
      (sq : Sq4) → (Γ : List String) → (pc : Nat) → (flow : Val) → (rest L : List Val) → (out : Out) →
      C02S.Located code pc (compileSq Γ sq).1 → wfSq P sq → L.length = Γ.length → nc ≤ L.length →
      SelfOK cs fi nc L → evalSq cs Γ L flow sq = some out →
      ARunsX O P code cs fi nc (pc, flow :: rest, L) (Target code nc (pc + (compileSq Γ sq).1.length) rest L out)
    | .last c, Γ, pc, flow, rest, L, out, hl, hw, hal, hnc, hself, hev => by
      simp only [compileSq, evalSq] at hl hev ⊢
      exact compileCh_aruns hO hP hsz c Γ pc flow rest L out hl hw hal hnc hself hev
    | .cons c r, Γ, pc, flow, rest, L, out, hl, hw, hal, hnc, hself, hev => by
      simp only [evalSq, Option.bind_eq_some_iff] at hev
      obtain ⟨o₁, hc, hr⟩ := hev
      simp only [compileSq] at hl ⊢
      have run₁ := compileCh_aruns hO hP hsz c Γ pc flow rest L o₁ hl.left hw.1 hal hnc hself hc
      cases o₁ with
      | exit res =>
        simp only [Option.some.injEq] at hr
        subst hr
        simpa [Target] using run₁
      | norm v₁ L₁ =>
        simp only at hr
        simp only [Target] at run₁
        obtain ⟨e₁, rfl, l₁⟩ := evalCh_ext cs c Γ L flow v₁ L₁ hc
        have al₁ : (L ++ e₁).length = (compileCh Γ c).2.length := by rw [compileCh_len]; simp [hal, l₁]
        refine run₁.trans ?_
        have hl2 := hl.right
        have hd := hl2.head
        have hn := (Located.tail hl2).head
        have hj := (Located.tail (Located.tail hl2)).head
        have hl3 : C02S.Located code (pc + (compileCh Γ c).1.length + 1 + 1 + 1) (compileSq (compileCh Γ c).2 r).1 :=
          Located.tail (Located.tail (Located.tail hl2))
        have hjb := Located.bound hl2 2 (by simp)
        have hend : pc + (compileCh Γ c).1.length + 1 + 1 + (compileSq (compileCh Γ c).2 r).1.length + 1 ≤ code.size := by
          by_cases h0 : (compileSq (compileCh Γ c).2 r).1.length = 0
          · omega
          · have := Located.bound hl3 ((compileSq (compileCh Γ c).2 r).1.length - 1) (by omega)
            omega
        have etot : pc + ((compileCh Γ c).1 ++ ([Instr.duplicate, Instr.not,
            Instr.jumpIf ((compileSq (compileCh Γ c).2 r).1.length : Int)] ++ (compileSq (compileCh Γ c).2 r).1)).length
            = pc + (compileCh Γ c).1.length + 1 + 1 + (compileSq (compileCh Γ c).2 r).1.length + 1 := by simp; omega
        rw [etot]
        refine ((l_dup hd).trans (l_not hn)).trans ?_
        by_cases hv : v₁.isNil = true
        · simp only [hv, if_true, Option.some.injEq] at hr ⊢
          subst hr
          simp only [Target]
          exact l_jumpIf_to hj rfl (by omega) (by rw [e63]; omega)
        · have hv' : v₁.isNil = false := by simpa using hv
          simp only [hv', Bool.false_eq_true, if_false] at hr ⊢
          refine (l_jumpIf_fall hj rfl).trans ?_
          have := compileSq_aruns hO hP hsz r (compileCh Γ c).2 _ v₁ rest (L ++ e₁) out hl3 hw.2 al₁ (by simp; omega)
            (hself.ext hnc e₁) hr
          rw [Target_ext code nc _ rest L e₁ out hnc] at this
          have e2 : pc + (compileCh Γ c).1.length + 1 + 1 + 1 + (compileSq (compileCh Γ c).2 r).1.length =
              pc + (compileCh Γ c).1.length + 1 + 1 + (compileSq (compileCh Γ c).2 r).1.length + 1 := by omega
          rw [e2] at this
          exact this
  /-- the branches from one on: from the branch's start (with the previous condition's nil on the stack
  unless it is the first) to the parameter clear at `PC`, value on the stack, locals `L ++ [parameter]` -/
  theorem compileBrs_aruns (hO : OracleIntEq O) (hP : wfProg P) (hsz : code.size < 2 ^ 63 - 1) :
      (bs : Brs4) → (Γp : List String) → (n k : Nat) → (first : Bool) → (pos PC : Nat) →
      (flow junk : Val) → (rest L : List Val) → (out : Out) →
      C02S.Located code pos (compileBrs Γp n bs k first).1 →
      pos + (compileBrs Γp n bs k first).1.length = PC →
      C02S.Located code (PC + 2 + 2 * k) (compileBrs Γp n bs k first).2 →
      PC < code.size → wfBrs P bs → Γp.length = n + 1 → L.length = n → nc ≤ L.length →
      SelfOK cs fi nc L → (first = true → bs.isNil = false) → (first = false → junk = Val.nil) →
      evalBrs cs Γp (L ++ [flow]) flow bs = some out →
      ARunsX O P code cs fi nc (pos, (if first then rest else junk :: rest), L ++ [flow])
        (Target code nc PC rest (L ++ [flow]) out)
    | .nil, Γp, n, k, first, pos, PC, flow, junk, rest, L, out, _, hPC, _, _, _, _, _, _, _, hf, hj, hev => by
      cases first with
      | true => have := hf rfl; simp [Brs4.isNil] at this
      | false =>
        simp only [evalBrs, Option.some.injEq] at hev
        simp only [compileBrs, List.length_nil, Nat.add_zero] at hPC
        subst hev hPC
        rw [hj rfl]
        simp only [Target]
        exact .refl _
    | .cons cond .none rs, Γp, n, k, first, pos, PC, flow, junk, rest, L, out, hl, hPC, hcl, hPCs, hw, hΓ, hL, hnc, hself, _, _, hev => by
      simp only [evalBrs, Option.bind_eq_some_iff] at hev
      obtain ⟨oc, hc, hrest⟩ := hev
      simp only [compileBrs] at hl hPC hcl
      obtain ⟨p1, runPre, hl1, hp1⟩ := pre_aruns (O := O) (P := P) (cs := cs) (fi := fi) (nc := nc) first junk rest (L ++ [flow]) pos _ hl
      refine runPre.trans ?_
      have hl1' : C02S.Located code p1 (.load n :: ((compileSq Γp cond).1 ++ (resetIf (compileSq Γp cond).2.length n ++
          ((if rs.isNil then [] else [.duplicate, .jumpIf ((compileBrs Γp n rs k false).1.length : Int)]) ++
            (compileBrs Γp n rs k false).1)))) := by simpa using hl1
      have hload := hl1'.head
      have hl2 := (Located.tail hl1')
      have hLp : (L ++ [flow]).length = Γp.length := by simp [hL, hΓ]
      have hncp : nc ≤ (L ++ [flow]).length := by simp; omega
      have hselfp : SelfOK cs fi nc (L ++ [flow]) := hself.ext hnc [flow]
      have hflow : (L ++ [flow])[n]? = some flow := by rw [← hL]; simp
      have runLoad := l_load (O := O) (P := P) (cs := cs) (fi := fi) (nc := nc) (s := rest) (L := L ++ [flow]) hload hflow
      have runCond := compileSq_aruns hO hP hsz cond Γp (p1 + 1) flow rest (L ++ [flow]) oc hl2.left hw.1 hLp hncp hselfp hc
      cases oc with
      | exit res =>
        -- a `^` inside the condition: the function's end
        simp only [Option.some.injEq] at hrest
        subst hrest
        simp only [Target] at runCond ⊢
        exact runLoad.trans runCond
      | norm vc Lc =>
      simp only at hrest
      simp only [Target] at runCond
      obtain ⟨ext, rfl, le, lx⟩ := evalSq_ext cs cond Γp (L ++ [flow]) flow vc Lc hc
      have hl3 := hl2.right
      have runReset := resetIf_aruns (O := O) (P := P) (cs := cs) (fi := fi) (nc := nc) (compileSq Γp cond).2.length n
        (p1 + 1 + (compileSq Γp cond).1.length) (vc :: rest) (L ++ [flow]) ext hl3.left (by simp [hL])
        (by intro h; rw [compileSq_len, hΓ] at h; apply List.eq_nil_of_length_eq_zero; omega)
      refine (runLoad.trans (runCond.trans runReset)).trans ?_
      have hl4 := hl3.right
      by_cases hlast : rs.isNil = true
      · -- last branch: the code ends at the parameter clear
        have hr0 := compileBrs_isNil Γp n k false rs hlast
        simp only [hlast, if_true, hr0, List.append_nil, List.length_append, List.length_cons,
          List.length_nil] at hPC hl4 ⊢
        have e : p1 + 1 + (compileSq Γp cond).1.length + (resetIf (compileSq Γp cond).2.length n).length = PC := by
          rw [hp1]; omega
        rw [e]
        by_cases hv : vc.isNil = true
        · simp only [hv, if_true] at hrest
          cases rs with
          | nil =>
            simp only [evalBrs, Option.some.injEq] at hrest
            subst hrest
            rw [C02B.isNil_eq vc hv]
            simp only [Target]
            exact .refl _
          | cons a b c => simp [Brs4.isNil] at hlast
        · have hv' : vc.isNil = false := by simpa using hv
          simp only [hv', Bool.false_eq_true, if_false, Option.some.injEq] at hrest
          subst hrest
          simp only [Target]
          exact .refl _
      · have hlast' : rs.isNil = false := by simpa using hlast
        simp only [hlast', Bool.false_eq_true, if_false] at hPC hl4 ⊢
        have hl5 : C02S.Located code (p1 + 1 + (compileSq Γp cond).1.length + (resetIf (compileSq Γp cond).2.length n).length)
            (.duplicate :: .jumpIf ((compileBrs Γp n rs k false).1.length : Int) :: (compileBrs Γp n rs k false).1) := by
          simpa using hl4
        have hd := hl5.head
        have hji := (Located.tail hl5).head
        have hl6 := Located.tail (Located.tail hl5)
        have ePC : p1 + 1 + (compileSq Γp cond).1.length + (resetIf (compileSq Γp cond).2.length n).length + 1 + 1 +
            (compileBrs Γp n rs k false).1.length = PC := by
          rw [hp1]
          simp only [List.length_append, List.length_cons, List.length_nil] at hPC
          omega
        have runDup := l_dup (O := O) (P := P) (cs := cs) (fi := fi) (nc := nc) (v := vc) (s := rest) (L := L ++ [flow]) hd
        refine runDup.trans ?_
        by_cases hv : vc.isNil = true
        · simp only [hv, if_true] at hrest
          have runFall := l_jumpIf_fall (O := O) (P := P) (cs := cs) (fi := fi) (nc := nc) (c := vc) (s := vc :: rest) (L := L ++ [flow]) hji hv
          refine runFall.trans ?_
          have ih := compileBrs_aruns hO hP hsz rs Γp n k false _ PC flow vc rest L out hl6 ePC hcl hPCs hw.2 hΓ hL hnc hself
            (fun h => by cases h) (fun _ => C02B.isNil_eq vc hv) hrest
          simpa using ih
        · have hv' : vc.isNil = false := by simpa using hv
          simp only [hv', Bool.false_eq_true, if_false, Option.some.injEq] at hrest
          subst hrest
          simp only [Target]
          exact l_jumpIf_to hji hv' (by omega) (by rw [e63]; omega)
    | .cons cond (.some cons) rs, Γp, n, k, first, pos, PC, flow, junk, rest, L, out, hl, hPC, hcl, hPCs, hw, hΓ, hL, hnc, hself, _, _, hev => by
      simp only [evalBrs, Option.bind_eq_some_iff] at hev
      obtain ⟨oc, hc, hrest⟩ := hev
      simp only [compileBrs] at hl hPC hcl
      have hLp : (L ++ [flow]).length = Γp.length := by simp [hL, hΓ]
      have hncp : nc ≤ (L ++ [flow]).length := by simp; omega
      have hselfp : SelfOK cs fi nc (L ++ [flow]) := hself.ext hnc [flow]
      have hflow : (L ++ [flow])[n]? = some flow := by rw [← hL]; simp
      cases oc with
      | exit res =>
        -- a `^` inside the condition: the function's end
        simp only [Option.some.injEq] at hrest
        subst hrest
        obtain ⟨p1, runPre, hl1, hp1⟩ := pre_aruns (O := O) (P := P) (cs := cs) (fi := fi) (nc := nc) first junk rest (L ++ [flow]) pos _ hl
        have hload : code[p1]? = some (.load n) := hl1.left.head
        have hlc : C02S.Located code (p1 + 1) (compileSq Γp cond).1 := by
          have := hl1.right.left
          simpa using this
        have runLoad := l_load (O := O) (P := P) (cs := cs) (fi := fi) (nc := nc) (s := rest) (L := L ++ [flow]) hload hflow
        have runCond := compileSq_aruns hO hP hsz cond Γp (p1 + 1) flow rest (L ++ [flow]) (.exit res) hlc hw.1 hLp hncp hselfp hc
        simp only [Target] at runCond ⊢
        exact runPre.trans (runLoad.trans runCond)
      | norm vc Lc =>
      simp only at hrest
      -- facts about the condition that mention `compileSq Γp cond` are derived before it is abstracted
      obtain ⟨ext, rfl, le, lx⟩ := evalSq_ext cs cond Γp (L ++ [flow]) flow vc Lc hc
      have hclen := compileSq_len cond Γp
      have hcclen := compileSq_len cons (compileSq Γp cond).2
      have hncx : nc ≤ (L ++ [flow] ++ ext).length := by simp; omega
      have hselfx : SelfOK cs fi nc (L ++ [flow] ++ ext) := hselfp.ext hncp ext
      have condRun : ∀ q, C02S.Located code q (compileSq Γp cond).1 →
          ARunsX O P code cs fi nc (q, flow :: rest, L ++ [flow]) (q + (compileSq Γp cond).1.length, vc :: rest, L ++ [flow] ++ ext) :=
        fun q hq => by
          have := compileSq_aruns hO hP hsz cond Γp q flow rest (L ++ [flow]) (.norm vc (L ++ [flow] ++ ext)) hq hw.1 hLp hncp hselfp hc
          simpa [Target] using this
      have consRun : ∀ q o2, C02S.Located code q (compileSq (compileSq Γp cond).2 cons).1 →
          (L ++ [flow] ++ ext).length = (compileSq Γp cond).2.length →
          evalSq cs (compileSq Γp cond).2 (L ++ [flow] ++ ext) flow cons = some o2 →
          ARunsX O P code cs fi nc (q, flow :: rest, L ++ [flow] ++ ext)
            (Target code nc (q + (compileSq (compileSq Γp cond).2 cons).1.length) rest (L ++ [flow] ++ ext) o2) :=
        fun q o2 hq hal he => compileSq_aruns hO hP hsz cons _ q flow rest _ o2 hq hw.2.1 hal hncx hselfx he
      have restRun : ∀ k' q, C02S.Located code q (compileBrs Γp n rs k' false).1 →
          q + (compileBrs Γp n rs k' false).1.length = PC →
          C02S.Located code (PC + 2 + 2 * k') (compileBrs Γp n rs k' false).2 → vc.isNil = true →
          evalBrs cs Γp (L ++ [flow]) flow rs = some out →
          ARunsX O P code cs fi nc (q, vc :: rest, L ++ [flow]) (Target code nc PC rest (L ++ [flow]) out) :=
        fun k' q hq hqe hqc hv he => by
          have := compileBrs_aruns hO hP hsz rs Γp n k' false q PC flow vc rest L out hq hqe hqc hPCs hw.2.2 hΓ hL hnc hself
            (fun h => by cases h) (fun _ => C02B.isNil_eq vc hv) he
          simpa using this
      have restNil : ∀ k', rs.isNil = true → compileBrs Γp n rs k' false = ([], []) :=
        fun k' h => compileBrs_isNil Γp n k' false rs h
      -- abstract the compiled pieces
      generalize compileSq Γp cond = c at *
      generalize compileSq c.2 cons = cc at *
      have hflowx : (L ++ [flow] ++ ext)[n]? = some flow := by
        rw [List.append_assoc, ← hL]; simp
      have hLpn : (L ++ [flow]).length = n + 1 := by simp [hL]
      -- the committed path: Pop, Load(n), the consequence, the per-branch Reset, to the parameter clear —
      -- or, if a `^` is taken in the consequence, to the function's end
      have succ : ∀ (q : Nat) (ejL rI : List Instr),
          C02S.Located code q (.pop :: .load n :: (cc.1 ++ (resetIf cc.2.length n ++ (ejL ++ rI)))) →
          ((ejL = [] ∧ rI = []) ∨ ejL = [.jump (rI.length : Int)]) →
          q + 2 + cc.1.length + (resetIf cc.2.length n).length + ejL.length + rI.length = PC →
          vc.isNil = false →
          ARunsX O P code cs fi nc (q, vc :: rest, L ++ [flow] ++ ext) (Target code nc PC rest (L ++ [flow]) out) := by
        intro q ejL rI hq hej hqe hv
        simp only [hv, Bool.false_eq_true, if_false, Option.map_eq_some_iff] at hrest
        obtain ⟨o2, hk, hmap⟩ := hrest
        have a := l_pop (O := O) (P := P) (cs := cs) (fi := fi) (nc := nc) (v := vc) (s := rest) (L := L ++ [flow] ++ ext) hq.head
        have b := l_load (O := O) (P := P) (cs := cs) (fi := fi) (nc := nc) (s := rest) (L := L ++ [flow] ++ ext) (Located.tail hq).head hflowx
        have hq2 := Located.tail (Located.tail hq)
        have hal : (L ++ [flow] ++ ext).length = c.2.length := by
          rw [hclen, ← hLp]; simp [lx hv]; omega
        have cr := consRun (q + 1 + 1) o2 hq2.left hal hk
        cases o2 with
        | exit res =>
          subst hmap
          simp only [Target] at cr ⊢
          rw [List.take_append_of_le_length hncp] at cr
          exact (a.trans b).trans cr
        | norm w Lk =>
        subst hmap
        simp only [Target] at cr ⊢
        obtain ⟨ext2, rfl, le2, _⟩ := evalSq_ext cs cons c.2 (L ++ [flow] ++ ext) flow w Lk hk
        have hq3 := hq2.right
        have rr := resetIf_aruns (O := O) (P := P) (cs := cs) (fi := fi) (nc := nc) cc.2.length n (q + 1 + 1 + cc.1.length) (w :: rest)
          (L ++ [flow]) (ext ++ ext2) hq3.left hLpn
          (by
            intro h
            rw [hcclen, hclen, hΓ] at h
            have h1 := lx hv
            apply List.eq_nil_of_length_eq_zero
            simp only [List.length_append]
            omega)
        rw [← List.append_assoc] at rr
        refine ((a.trans b).trans (cr.trans rr)).trans ?_
        have hq4 := hq3.right
        rcases hej with ⟨rfl, rfl⟩ | rfl
        · simp only [List.length_nil, Nat.add_zero] at hqe
          have e : q + 1 + 1 + cc.1.length + (resetIf cc.2.length n).length = PC := by omega
          rw [e]
          exact .refl _
        · have hjmp : code[q + 1 + 1 + cc.1.length + (resetIf cc.2.length n).length]? = some (.jump (rI.length : Int)) := by
            have : C02S.Located code (q + 1 + 1 + cc.1.length + (resetIf cc.2.length n).length)
                (.jump (rI.length : Int) :: rI) := by simpa using hq4
            exact this.head
          simp only [List.length_cons, List.length_nil] at hqe
          exact l_jump hjmp (by omega) (by rw [e63]; omega)
      have hejcases : ∀ r : List Instr × List Instr, (rs.isNil = true → r = ([], [])) →
          (((if rs.isNil = true then [] else [Instr.jump (r.1.length : Int)]) = [] ∧ r.1 = []) ∨
            (if rs.isNil = true then [] else [Instr.jump (r.1.length : Int)]) = [Instr.jump (r.1.length : Int)]) := by
        intro r hr
        by_cases h : rs.isNil = true
        · left; simp [h, hr h]
        · right; simp [h]
      by_cases hneeds : c.2.length > n + 1
      · -- the condition has bindings: a failed condition leaves through this branch's cleanup block
        simp only [hneeds, decide_true, if_true] at hl hPC hcl
        generalize hr : compileBrs Γp n rs (k + 1) false = r at *
        obtain ⟨p1, runPre, hl1, hp1⟩ := pre_aruns (O := O) (P := P) (cs := cs) (fi := fi) (nc := nc) first junk rest (L ++ [flow]) pos _ hl
        refine runPre.trans ?_
        have hl1' : C02S.Located code p1 (.load n :: (c.1 ++ (.duplicate :: .not ::
            .jumpIf (((2 + cc.1.length + (resetIf cc.2.length n).length +
                (if rs.isNil = true then [] else [Instr.jump (r.1.length : Int)]).length + r.1.length + 2 + 2 * k : Nat)) : Int) ::
            .pop :: .load n :: (cc.1 ++ (resetIf cc.2.length n ++
              ((if rs.isNil = true then [] else [Instr.jump (r.1.length : Int)]) ++ r.1)))))) := by
          simpa using hl1
        have ePC : p1 + 1 + c.1.length + 1 + 1 + 1 + 2 + cc.1.length + (resetIf cc.2.length n).length +
            (if rs.isNil = true then [] else [Instr.jump (r.1.length : Int)]).length + r.1.length = PC := by
          rw [hp1]
          simp only [List.length_append, List.length_cons, List.length_nil] at hPC
          omega
        have hload := hl1'.head
        have hl2 := Located.tail hl1'
        have runLoad := l_load (O := O) (P := P) (cs := cs) (fi := fi) (nc := nc) (s := rest) (L := L ++ [flow]) hload hflow
        have runCond := condRun (p1 + 1) hl2.left
        have hl3 := hl2.right
        have hd := hl3.head
        have hn := (Located.tail hl3).head
        have hj := (Located.tail (Located.tail hl3)).head
        have hl4 := Located.tail (Located.tail (Located.tail hl3))
        have runDup := l_dup (O := O) (P := P) (cs := cs) (fi := fi) (nc := nc) (v := vc) (s := rest) (L := L ++ [flow] ++ ext) hd
        have runNot := l_not (O := O) (P := P) (cs := cs) (fi := fi) (nc := nc) (v := vc) (s := vc :: rest) (L := L ++ [flow] ++ ext) hn
        refine (runLoad.trans (runCond.trans (runDup.trans runNot))).trans ?_
        have hcl' : C02S.Located code (PC + 2 + 2 * k)
            (.reset (n + 1) :: .jump (-((r.1.length + 2 * k + 4 : Nat) : Int)) :: r.2) := by simpa using hcl
        by_cases hv : vc.isNil = true
        · simp only [hv, if_true] at hrest ⊢
          have hTb := Located.bound hcl' 1 (by simp)
          have runJ := l_jumpIf_to (O := O) (P := P) (cs := cs) (fi := fi) (nc := nc) (c := Val.ok) (s := vc :: rest) (L := L ++ [flow] ++ ext)
            (t := PC + 2 + 2 * k) hj rfl (by omega) (by rw [e63]; omega)
          have runR := l_reset (O := O) (P := P) (cs := cs) (fi := fi) (nc := nc) (s := vc :: rest) (L := L ++ [flow] ++ ext) (n := n + 1) hcl'.head
            (by simp; omega)
          have htk : (L ++ [flow] ++ ext).take (n + 1) = L ++ [flow] := by
            rw [← hLpn]; exact List.take_left' rfl
          rw [htk] at runR
          have runB := l_jump (O := O) (P := P) (cs := cs) (fi := fi) (nc := nc) (s := vc :: rest) (L := L ++ [flow])
            (t := p1 + 1 + c.1.length + 1 + 1 + 1 + 2 + cc.1.length + (resetIf cc.2.length n).length +
              (if rs.isNil = true then [] else [Instr.jump (r.1.length : Int)]).length)
            (Located.tail hcl').head (by omega) (by rw [e63]; omega)
          refine ((runJ.trans runR).trans runB).trans ?_
          have hlr : C02S.Located code (p1 + 1 + c.1.length + 1 + 1 + 1 + 2 + cc.1.length + (resetIf cc.2.length n).length +
              (if rs.isNil = true then [] else [Instr.jump (r.1.length : Int)]).length) r.1 := by
            have := ((Located.tail (Located.tail hl4)).right).right.right
            simpa [Nat.add_assoc] using this
          have hclr : C02S.Located code (PC + 2 + 2 * (k + 1)) r.2 := by
            have := Located.tail (Located.tail hcl')
            simpa [Nat.mul_add, Nat.add_assoc] using this
          subst hr
          exact restRun (k + 1) _ hlr ePC hclr hv hrest
        · have hv' : vc.isNil = false := by simpa using hv
          simp only [hv', Bool.false_eq_true, if_false]
          have runF := l_jumpIf_fall (O := O) (P := P) (cs := cs) (fi := fi) (nc := nc) (c := Val.nil) (s := vc :: rest) (L := L ++ [flow] ++ ext) hj rfl
          refine runF.trans ?_
          exact succ _ _ r.1 hl4 (hejcases r (fun h => by rw [← hr]; exact restNil (k + 1) h)) (by omega) hv'
      · -- no bindings in the condition: nothing was stored, the failure path goes straight on
        have hneeds' : decide (c.2.length > n + 1) = false := by simpa using hneeds
        simp only [hneeds', Bool.false_eq_true, if_false, List.nil_append] at hl hPC hcl
        generalize hr : compileBrs Γp n rs k false = r at *
        obtain ⟨p1, runPre, hl1, hp1⟩ := pre_aruns (O := O) (P := P) (cs := cs) (fi := fi) (nc := nc) first junk rest (L ++ [flow]) pos _ hl
        refine runPre.trans ?_
        have hl1' : C02S.Located code p1 (.load n :: (c.1 ++ (.duplicate :: .not ::
            .jumpIf (((2 + cc.1.length + (resetIf cc.2.length n).length +
                (if rs.isNil = true then [] else [Instr.jump (r.1.length : Int)]).length : Nat)) : Int) ::
            .pop :: .load n :: (cc.1 ++ (resetIf cc.2.length n ++
              ((if rs.isNil = true then [] else [Instr.jump (r.1.length : Int)]) ++ r.1)))))) := by
          simpa using hl1
        have ePC : p1 + 1 + c.1.length + 1 + 1 + 1 + 2 + cc.1.length + (resetIf cc.2.length n).length +
            (if rs.isNil = true then [] else [Instr.jump (r.1.length : Int)]).length + r.1.length = PC := by
          rw [hp1]
          simp only [List.length_append, List.length_cons, List.length_nil] at hPC
          omega
        have hload := hl1'.head
        have hl2 := Located.tail hl1'
        have runLoad := l_load (O := O) (P := P) (cs := cs) (fi := fi) (nc := nc) (s := rest) (L := L ++ [flow]) hload hflow
        have runCond := condRun (p1 + 1) hl2.left
        have hl3 := hl2.right
        have hd := hl3.head
        have hn := (Located.tail hl3).head
        have hj := (Located.tail (Located.tail hl3)).head
        have hl4 := Located.tail (Located.tail (Located.tail hl3))
        have runDup := l_dup (O := O) (P := P) (cs := cs) (fi := fi) (nc := nc) (v := vc) (s := rest) (L := L ++ [flow] ++ ext) hd
        have runNot := l_not (O := O) (P := P) (cs := cs) (fi := fi) (nc := nc) (v := vc) (s := vc :: rest) (L := L ++ [flow] ++ ext) hn
        refine (runLoad.trans (runCond.trans (runDup.trans runNot))).trans ?_
        by_cases hv : vc.isNil = true
        · simp only [hv, if_true] at hrest ⊢
          have hext : ext = [] := by
            apply List.eq_nil_of_length_eq_zero
            rw [hclen, hΓ] at hneeds
            omega
          subst hext
          have runJ := l_jumpIf_to (O := O) (P := P) (cs := cs) (fi := fi) (nc := nc) (c := Val.ok) (s := vc :: rest) (L := L ++ [flow] ++ [])
            (t := p1 + 1 + c.1.length + 1 + 1 + 1 + 2 + cc.1.length + (resetIf cc.2.length n).length +
              (if rs.isNil = true then [] else [Instr.jump (r.1.length : Int)]).length)
            hj rfl (by omega) (by rw [e63]; omega)
          refine runJ.trans ?_
          have hlr : C02S.Located code (p1 + 1 + c.1.length + 1 + 1 + 1 + 2 + cc.1.length + (resetIf cc.2.length n).length +
              (if rs.isNil = true then [] else [Instr.jump (r.1.length : Int)]).length) r.1 := by
            have := ((Located.tail (Located.tail hl4)).right).right.right
            simpa [Nat.add_assoc] using this
          subst hr
          simpa using restRun k _ hlr ePC hcl hv hrest
        · have hv' : vc.isNil = false := by simpa using hv
          simp only [hv', Bool.false_eq_true, if_false]
          have runF := l_jumpIf_fall (O := O) (P := P) (cs := cs) (fi := fi) (nc := nc) (c := Val.nil) (s := vc :: rest) (L := L ++ [flow] ++ ext) hj rfl
          refine runF.trans ?_
          exact succ _ _ r.1 hl4 (hejcases r (fun h => by rw [← hr]; exact restNil k h)) (by omega) hv'
end


end Machine


/-! ### The process level -/

/-- the builtins' meaning is the oracle's -/
def BiOK (O : Oracle) (cs : Sem) : Prop := ∀ i a v, cs.bi i a = some v → O.builtin i a = .value v

/-- the frame on top of `r` (over the locals `pre`) has run to the END of its function's code, with `s` on
the stack — whichever function that is by now (a named tail call hands the frame over) -/
def Done (P : Prog) (q : Proc) (r : List Frame) (pre s : List Val) : Prop :=
  ∃ (g : Frame) (fn : Function) (Lc : List Val), P.functions[g.functionIndex]? = some fn ∧
    InvC q g r pre fn.instructions.size s Lc

/-- the lifted invariant of a run over the code of `f`'s function: inside the code `InvC`; at its end `InvC`,
or `Done` after a tail call was taken -/
def InvE (P : Prog) (size : Nat) (q : Proc) (f : Frame) (r : List Frame) (pre : List Val) (x : St) : Prop :=
  (x.1 < size → InvC q f r pre x.1 x.2.1 x.2.2) ∧
  (size ≤ x.1 → InvC q f r pre x.1 x.2.1 x.2.2 ∨ Done P q r pre x.2.1)

theorem InvE.ofC {P : Prog} {size : Nat} {q : Proc} {f : Frame} {r : List Frame} {pre : List Val} {x : St}
    (h : InvC q f r pre x.1 x.2.1 x.2.2) : InvE P size q f r pre x := ⟨fun _ => h, fun _ => .inl h⟩

theorem InvE.ofDone {P : Prog} {size : Nat} {q : Proc} {f : Frame} {r : List Frame} {pre s L : List Val}
    (h : Done P q r pre s) : InvE P size q f r pre (size, s, L) :=
  ⟨fun hlt => absurd hlt (Nat.lt_irrefl _), fun _ => .inr h⟩

theorem lt_of_fetch {code : Array Instr} {pc : Nat} {i : Instr} (h : code[pc]? = some i) : pc < code.size := by
  rcases Nat.lt_or_ge pc code.size with h' | h'
  · exact h'
  · rw [Array.getElem?_eq_none h'] at h
    cases h

/-- every self tail call `cs` gives a meaning to is realised by the VM: from the `TailCall(true)` to the end
of the function's code — of whichever function the frame belongs to by then —, the function's result in
place of the argument -/
def TailOK (O : Oracle) (P : Prog) (cs : Sem) : Prop :=
  ∀ sv arg res, cs.self = some sv → cs.app sv arg = some res →
    ∀ (fn : Function) (f : Frame) (r : List Frame) (pre : List Val) (pc : Nat) (rest L : List Val) (p : Proc),
      P.functions[f.functionIndex]? = some fn → fn.instructions[pc]? = some (.tailCall true) →
      sv = .fn f.functionIndex (ValList.ofList (L.take f.capturesCount)) → f.capturesCount ≤ L.length →
      InvC p f r pre pc (arg :: rest) L →
      ∃ q, C02S.TRuns O P p q ∧ Done P q r pre (res :: rest)

/-- every named tail call: from the `TailCall(false)`, function and argument on the stack, to the end of
the callee's code in the SAME frame slot -/
def NTailOK (O : Oracle) (P : Prog) (app : Val → Val → Option Val) : Prop :=
  ∀ fv arg res, app fv arg = some res →
    ∀ (fn : Function) (f : Frame) (r : List Frame) (pre : List Val) (pc : Nat) (rest L : List Val) (p : Proc),
      P.functions[f.functionIndex]? = some fn → fn.instructions[pc]? = some (.tailCall false) →
      InvC p f r pre pc (fv :: arg :: rest) L →
      ∃ q, C02S.TRuns O P p q ∧ Done P q r pre (res :: rest)

theorem liftX (O : Oracle) (P : Prog) (cs : Sem) (hcs : C02F.CallOK O P cs.app) (hts : TailOK O P cs)
    (hns : NTailOK O P cs.app) (hbs : BiOK O cs) (fn : Function) (f : Frame) (r : List Frame) (pre : List Val)
    (hfn : P.functions[f.functionIndex]? = some fn) {x y : St}
    (h : ARunsX O P fn.instructions cs f.functionIndex f.capturesCount x y) :
    ∀ p : Proc, InvE P fn.instructions.size p f r pre x →
      ∃ q, C02S.TRuns O P p q ∧ InvE P fn.instructions.size q f r pre y := by
  induction h with
  | refl x => exact fun p hp => ⟨p, .refl p, hp⟩
  | @step pc s L x y i hi hstep _ ih =>
    intro p hp
    have hp := hp.1 (lt_of_fetch hi)
    obtain ⟨hpL, hsel⟩ := hp
    obtain ⟨q, hq, hinv⟩ := sim_stepL O P i p f r pre pc s L x hpL hstep
    have hqs := step_keeps_select O P p q i (astepL_frag O P i pc s L x hstep) hq
    obtain ⟨hs, hf, hl, hb, hpark, hres⟩ := hpL
    have htr : transition P p (.run O) = some (.ok (q, none)) := by
      rw [transition_instr O P p _ r fn i hpark hres hf (by simpa using hfn) (by simpa using hi), hq]
    obtain ⟨z, hz, hzi⟩ := ih q (InvE.ofC ⟨hinv, by rw [hqs, hsel]⟩)
    exact ⟨z, .step htr hz, hzi⟩
  | @func pc s L y fj fnF ws hi hfnF hc _ ih =>
    intro p hp
    have hp := hp.1 (lt_of_fetch hi)
    obtain ⟨⟨hs, hf, hl, hb, hpark, hres⟩, hsel⟩ := hp
    simp only at hs hf hl
    have hlen : ¬ (p.stack.length < fnF.captures) := by rw [hs, hc]; simp
    have htake : (p.stack.take fnF.captures).reverse = ws := by
      rw [hs, hc]
      have : ws.length = ws.reverse.length := by simp
      rw [this, List.take_left']
      · simp
      · rfl
    have hdrop : p.stack.drop fnF.captures = s := by
      rw [hs, hc]
      have : ws.length = ws.reverse.length := by simp
      rw [this, List.drop_left']
      rfl
    have hq : stepInstr O P p (.function fj) =
        .ok (({ p with stack := .fn fj (ValList.ofList ws) :: s } : Proc).bump, none) := by
      simp only [stepInstr, handleFunction, hfnF, hlen, if_false, htake, hdrop, QM.VM.ok]
    have htr : transition P p (.run O) =
        some (.ok (({ p with stack := .fn fj (ValList.ofList ws) :: s } : Proc).bump, none)) := by
      rw [transition_instr O P p _ r fn (.function fj) hpark hres hf (by simpa using hfn) (by simpa using hi), hq]
    have hinv : InvC (({ p with stack := .fn fj (ValList.ofList ws) :: s } : Proc).bump) f r pre (pc + 1)
        (.fn fj (ValList.ofList ws) :: s) L := by
      refine ⟨⟨?_, ?_, ?_, hb, ?_, ?_⟩, ?_⟩
      · simp [Proc.bump, hf]
      · simp [Proc.bump, hf]
      · simp [Proc.bump, hf, hl]
      · simp [Proc.bump, hf, hpark]
      · simp [Proc.bump, hf, hres]
      · rw [bump_select]; exact hsel
    obtain ⟨z, hz, hzi⟩ := ih _ (InvE.ofC hinv)
    exact ⟨z, .step htr hz, hzi⟩
  | @call pc s L y fv arg res hi hcall _ ih =>
    intro p hp
    have hp := hp.1 (lt_of_fetch hi)
    obtain ⟨q, hq, hinv⟩ := hcs fv arg res hcall fn f r pre pc s L p hfn hi hp
    obtain ⟨z, hz, hzi⟩ := ih q (InvE.ofC hinv)
    exact ⟨z, TRuns.trans hq hz, hzi⟩
  | @tail pc s L y sv arg res hi hs hsv hle happ _ ih =>
    intro p hp
    have hp := hp.1 (lt_of_fetch hi)
    obtain ⟨q, hq, hdone⟩ := hts sv arg res hs happ fn f r pre pc s L p hfn hi hsv hle hp
    obtain ⟨z, hz, hzi⟩ := ih q (InvE.ofDone hdone)
    exact ⟨z, TRuns.trans hq hz, hzi⟩
  | @tailN pc s L y fv arg res hi happ _ ih =>
    intro p hp
    have hp := hp.1 (lt_of_fetch hi)
    obtain ⟨q, hq, hdone⟩ := hns fv arg res happ fn f r pre pc s L p hfn hi hp
    obtain ⟨z, hz, hzi⟩ := ih q (InvE.ofDone hdone)
    exact ⟨z, TRuns.trans hq hz, hzi⟩
  | @bcall pc s L y bi arg v hi hi2 hb hbi _ ih =>
    intro p hp
    have hp := hp.1 (lt_of_fetch hi)
    obtain ⟨⟨hs, hf, hl, hbase, hpark, hres⟩, hsel⟩ := hp
    simp only at hs hf hl
    -- `Builtin(bi)`: the builtin value is pushed
    have hnb : ¬ (bi ≥ P.builtins) := by omega
    have hq1 : stepInstr O P p (.builtin bi) = .ok ((p.push (.builtin bi)).bump, none) := by
      simp only [stepInstr, handleBuiltin, hnb, if_false, QM.VM.ok]
    have htr1 : transition P p (.run O) = some (.ok ((p.push (.builtin bi)).bump, none)) := by
      rw [transition_instr O P p _ r fn (.builtin bi) hpark hres hf (by simpa using hfn) (by simpa using hi), hq1]
    -- `Call` on a builtin: the oracle's value replaces builtin and argument
    have hf1 : ((p.push (.builtin bi)).bump).frames = { f with counter := pc + 1 } :: r := by
      simp [Proc.push, Proc.bump, hf]
    have hs1 : ((p.push (.builtin bi)).bump).stack = .builtin bi :: arg :: s := by
      simp [Proc.push, Proc.bump, hf, hs]
    have hq2 : stepInstr O P ((p.push (.builtin bi)).bump) .call =
        .ok (({ (p.push (.builtin bi)).bump with stack := v :: s } : Proc).bump, none) := by
      simp only [stepInstr, handleCall]
      rw [hs1]
      simp only [hbs bi arg v hbi, QM.VM.ok]
    have htr2 : transition P ((p.push (.builtin bi)).bump) (.run O) =
        some (.ok (({ (p.push (.builtin bi)).bump with stack := v :: s } : Proc).bump, none)) := by
      rw [transition_instr O P _ _ r fn .call (by simp [Proc.push, Proc.bump, hf, hpark])
        (by simp [Proc.push, Proc.bump, hf, hres]) hf1 (by simpa using hfn) (by simpa using hi2), hq2]
    have hinv : InvC (({ (p.push (.builtin bi)).bump with stack := v :: s } : Proc).bump) f r pre (pc + 1 + 1)
        (v :: s) L := by
      refine ⟨⟨?_, ?_, ?_, hbase, ?_, ?_⟩, ?_⟩
      · simp [Proc.push, Proc.bump, hf]
      · simp [Proc.push, Proc.bump, hf]
      · simp [Proc.push, Proc.bump, hf, hl]
      · simp [Proc.push, Proc.bump, hf, hpark]
      · simp [Proc.push, Proc.bump, hf, hres]
      · simp [Proc.push, Proc.bump, hf, hsel]
    obtain ⟨z, hz, hzi⟩ := ih _ (InvE.ofC hinv)
    exact ⟨z, .step htr1 (.step htr2 hz), hzi⟩

/-- `TailCall(true)`: the frame is restarted — counter 0, the locals cut back to the captures —, the
argument stays -/
theorem tail_step (O : Oracle) (P : Prog) (fn : Function) (f : Frame) (r : List Frame) (pre : List Val)
    (pc : Nat) (arg : Val) (rest L : List Val) (p : Proc)
    (hfn : P.functions[f.functionIndex]? = some fn) (hi : fn.instructions[pc]? = some (.tailCall true))
    (hle : f.capturesCount ≤ L.length) (hp : InvC p f r pre pc (arg :: rest) L) :
    ∃ q, transition P p (.run O) = some (.ok (q, none)) ∧
      InvC q f r pre 0 (arg :: rest) (L.take f.capturesCount) := by
  obtain ⟨⟨hs, hf, hl, hb, hpark, hres⟩, hsel⟩ := hp
  refine ⟨{ p with stack := arg :: rest, locals := p.locals.take (f.localsBase + f.capturesCount),
                   frames := Frame.new f.functionIndex f.localsBase f.capturesCount :: r }, ?_, ?_⟩
  · rw [transition_instr O P p _ r fn (.tailCall true) hpark hres hf (by simpa using hfn) (by simpa using hi)]
    simp only [stepInstr, handleTailCall, if_true]
    rw [hs, hf]
    rfl
  · refine ⟨⟨rfl, ?_, ?_, hb, hpark, hres⟩, hsel⟩
    · simp [Frame.new]
    · simp only [hl, ← hb]
      exact List.take_length_add_append _

/-- `TailCall(false)`: the frame is replaced by one of the callee over its captures (same base), the
argument stays -/
theorem ntail_step (O : Oracle) (P : Prog) (fn fnC : Function) (f : Frame) (r : List Frame) (pre : List Val)
    (pc fi : Nat) (cv : ValList) (arg : Val) (rest L : List Val) (p : Proc)
    (hfn : P.functions[f.functionIndex]? = some fn) (hi : fn.instructions[pc]? = some (.tailCall false))
    (hfnC : P.functions[fi]? = some fnC) (hp : InvC p f r pre pc (.fn fi cv :: arg :: rest) L) :
    ∃ q, transition P p (.run O) = some (.ok (q, none)) ∧
      InvC q (Frame.new fi f.localsBase cv.toList.length) r pre 0 (arg :: rest) cv.toList := by
  obtain ⟨⟨hs, hf, hl, hb, hpark, hres⟩, hsel⟩ := hp
  refine ⟨{ p with stack := arg :: rest, locals := p.locals.take f.localsBase ++ cv.toList,
                   frames := Frame.new fi f.localsBase cv.toList.length :: r }, ?_, ?_⟩
  · rw [transition_instr O P p _ r fn (.tailCall false) hpark hres hf (by simpa using hfn) (by simpa using hi)]
    simp only [stepInstr, handleTailCall]
    rw [hs]
    simp only [hfnC, hf]
    rfl
  · refine ⟨⟨rfl, ?_, ?_, ?_, hpark, hres⟩, hsel⟩
    · simp [Frame.new]
    · simp only [hl, ← hb]
      rw [List.take_left' rfl]
    · simpa [Frame.new] using hb

/-- the contracts at one fuel level -/
def Contracts (O : Oracle) (P : Prog) (Φ : FTab) (bi : Nat → Val → Option Val) (n : Nat) : Prop :=
  C02F.CallOK O P (callSem Φ bi n) ∧ (∀ sv, TailOK O P ⟨callSem Φ bi n, bi, some sv⟩) ∧
    NTailOK O P (callSem Φ bi n)

/-- the value of an outcome -/
def outVal : Out → Val
  | .norm v _ => v
  | .exit res => res

/-- a function's code run in a frame of that function whose locals are the captures, from counter 0 until the
frame is done — by falling off the end, through `^`, or in another function's code after a named tail call -/
theorem body_run (O : Oracle) (P : Prog) (hO : OracleIntEq O) (hP : wfProg P) (Φ : FTab) (hΦ : FnOK P Φ)
    (bi : Nat → Val → Option Val) (hbi : ∀ i a v, bi i a = some v → O.builtin i a = .value v) (n : Nat)
    (hn : Contracts O P Φ bi n) (cv : ValList) (d : FnDef) (g : Frame) (hd : Φ.lookup g.functionIndex = some d)
    (hlen : cv.toList.length = d.caps.length) (arg : Val) (o : Out)
    (hev : evalBrs ⟨callSem Φ bi n, bi, some (.fn g.functionIndex cv)⟩ (d.caps ++ [""]) (cv.toList ++ [arg]) arg
      d.body = some o)
    (r : List Frame) (pre rest : List Val)
    (hgc : g.capturesCount = cv.toList.length) (q1 : Proc) (hinv1 : InvC q1 g r pre 0 (arg :: rest) cv.toList) :
    ∃ q2, C02S.TRuns O P q1 q2 ∧ Done P q2 r pre (outVal o :: rest) := by
  obtain ⟨fnC, hfnC, hcode, hcaps, hne, hwf, hszC⟩ := hΦ g.functionIndex d hd
  have hloc : C02S.Located fnC.instructions 0 (compileT d.caps (.block d.body)).1 := by
    rw [hcode]; exact located_toArray _
  have hself : SelfOK ⟨callSem Φ bi n, bi, some (.fn g.functionIndex cv)⟩ g.functionIndex g.capturesCount
      cv.toList := by
    intro sv hs
    simp only [Option.some.injEq] at hs
    subst hs
    simp [hgc]
  have hsize : 0 + (compileT d.caps (.block d.body)).1.length = fnC.instructions.size := by
    rw [hcode]; simp [fnCode]
  have hevT : evalT ⟨callSem Φ bi n, bi, some (.fn g.functionIndex cv)⟩ d.caps cv.toList arg (.block d.body) =
      some (match o with | .norm v _ => .norm v cv.toList | .exit res => .exit res) := by
    cases o <;> simp only [evalT, hev, Option.map_some]
  have run := compileT_aruns (O := O) (P := P) (code := fnC.instructions)
    (cs := ⟨callSem Φ bi n, bi, some (.fn g.functionIndex cv)⟩) (fi := g.functionIndex) (nc := g.capturesCount)
    hO hP hszC (.block d.body) d.caps 0 arg rest cv.toList _ hloc ⟨hne, hwf⟩ hlen (Nat.le_of_eq hgc) hself hevT
  obtain ⟨q2, ht2, hinv2⟩ := liftX O P ⟨callSem Φ bi n, bi, some (.fn g.functionIndex cv)⟩ hn.1 (hn.2.1 _) hn.2.2 hbi
    fnC g r pre hfnC run q1 (InvE.ofC hinv1)
  refine ⟨q2, ht2, ?_⟩
  cases o with
  | norm v Lx =>
    simp only [Target, hsize] at hinv2
    rcases hinv2.2 (Nat.le_refl _) with h | h
    · exact ⟨g, fnC, _, hfnC, h⟩
    · exact h
  | exit res =>
    simp only [Target] at hinv2
    rcases hinv2.2 (Nat.le_refl _) with h | h
    · exact ⟨g, fnC, _, hfnC, h⟩
    · exact h

/-- the return, from a frame that is done (whichever function it ended in) -/
theorem return_done (O : Oracle) (P : Prog) (f : Frame) (r : List Frame) (pre L : List Val) (pc : Nat) (v : Val)
    (rest : List Val) (q : Proc) (hpre : pre.length = f.localsBase)
    (hq : Done P q ({ f with counter := pc } :: r) (pre ++ L) (v :: rest)) :
    ∃ q', transition P q (.run O) = some (.ok (q', none)) ∧ InvC q' f r pre (pc + 1) (v :: rest) L := by
  obtain ⟨g, fnC, Lc, hfnC, hinv⟩ := hq
  exact return_step O P fnC f g r pre L pc v rest Lc q hfnC hpre hinv

/-- **The knot.** By induction on the fuel: `Call` (callee's frame, its run until the frame is done, the
return), `TailCall(true)` (the frame restarted over its captures) and `TailCall(false)` (the frame handed to
another function over ITS captures) all realise what `callSem Φ bi n` says. -/
theorem contracts_all (O : Oracle) (P : Prog) (hO : OracleIntEq O) (hP : wfProg P) (Φ : FTab) (hΦ : FnOK P Φ)
    (bi : Nat → Val → Option Val) (hbi : ∀ i a v, bi i a = some v → O.builtin i a = .value v) :
    (n : Nat) → Contracts O P Φ bi n
  | 0 => by
    refine ⟨?_, ?_, ?_⟩
    · intro fv arg res h
      simp [callSem] at h
    · intro sv0 sv arg res _ h
      simp [callSem] at h
    · intro fv arg res h
      simp [callSem] at h
  | n + 1 => by
    have ih := contracts_all O P hO hP Φ hΦ bi hbi n
    refine ⟨?_, ?_, ?_⟩
    · intro fv arg res h fn f r pre pc rest L p hfn hcall hinv
      cases fv with
      | fn fi cv =>
        simp only [callSem] at h
        split at h
        · rename_i d hd
          split at h
          · rename_i hlen
            obtain ⟨fnC0, hfnC0, _⟩ := hΦ fi d hd
            obtain ⟨q1, ht1, hinv1⟩ := call_step O P fn fnC0 f r pre pc fi cv arg rest L p hfn hcall hfnC0 hinv
            have key : ∀ o, evalBrs ⟨callSem Φ bi n, bi, some (.fn fi cv)⟩ (d.caps ++ [""]) (cv.toList ++ [arg]) arg
                d.body = some o → outVal o = res →
                ∃ q, C02S.TRuns O P p q ∧ InvC q f r pre (pc + 1) (res :: rest) L := by
              intro o hev hres
              obtain ⟨q2, ht2, hdone⟩ := body_run O P hO hP Φ hΦ bi hbi n ih cv d
                (Frame.new fi (pre ++ L).length cv.toList.length) hd hlen arg o hev
                ({ f with counter := pc } :: r) (pre ++ L) rest rfl q1 hinv1
              rw [hres] at hdone
              obtain ⟨q3, ht3, hinv3⟩ := return_done O P f r pre L pc res rest q2 hinv.1.2.2.2.1 hdone
              exact ⟨q3, .step ht1 (TRuns.trans ht2 (.step ht3 (.refl _))), hinv3⟩
            split at h
            · rename_i v Lx hev
              simp only [Option.some.injEq] at h
              exact key _ hev (by simpa [outVal] using h)
            · rename_i res' hev
              simp only [Option.some.injEq] at h
              exact key _ hev (by simpa [outVal] using h)
            · simp at h
          · simp at h
        · simp at h
      | int z => simp [callSem] at h
      | bin b => simp [callSem] at h
      | ref r => simp [callSem] at h
      | tup a b => simp [callSem] at h
      | builtin i => simp [callSem] at h
      | proc a b => simp [callSem] at h
      | res a b => simp [callSem] at h
    · intro sv0 sv arg res hs h fn f r pre pc rest L p hfn htc hsv hle hinv
      simp only at h
      subst hsv
      simp only [callSem] at h
      split at h
      · rename_i d hd
        split at h
        · rename_i hlen
          simp only [ValList.toList_ofList] at hlen
          have hcl : (ValList.ofList (L.take f.capturesCount)).toList.length = f.capturesCount := by
            simp [List.length_take, Nat.min_eq_left hle]
          obtain ⟨q1, ht1, hinv1⟩ := tail_step O P fn f r pre pc arg rest L p hfn htc hle hinv
          have hinv1' : InvC q1 f r pre 0 (arg :: rest) (ValList.ofList (L.take f.capturesCount)).toList := by
            simpa using hinv1
          have key : ∀ o, evalBrs ⟨callSem Φ bi n, bi, some (.fn f.functionIndex (ValList.ofList (L.take f.capturesCount)))⟩
              (d.caps ++ [""]) ((ValList.ofList (L.take f.capturesCount)).toList ++ [arg]) arg d.body = some o →
              outVal o = res → ∃ q, C02S.TRuns O P p q ∧ Done P q r pre (res :: rest) := by
            intro o hev hres
            obtain ⟨q2, ht2, hdone⟩ := body_run O P hO hP Φ hΦ bi hbi n ih
              (ValList.ofList (L.take f.capturesCount)) d f hd (by simpa using hlen) arg o hev r pre rest
              hcl.symm q1 hinv1'
            rw [hres] at hdone
            exact ⟨q2, .step ht1 ht2, hdone⟩
          split at h
          · rename_i v Lx hev
            simp only [Option.some.injEq] at h
            exact key _ hev (by simpa [outVal] using h)
          · rename_i res' hev
            simp only [Option.some.injEq] at h
            exact key _ hev (by simpa [outVal] using h)
          · simp at h
        · simp at h
      · simp at h
    · intro fv arg res h fn f r pre pc rest L p hfn htc hinv
      cases fv with
      | fn fi cv =>
        simp only [callSem] at h
        split at h
        · rename_i d hd
          split at h
          · rename_i hlen
            obtain ⟨fnC0, hfnC0, _⟩ := hΦ fi d hd
            obtain ⟨q1, ht1, hinv1⟩ := ntail_step O P fn fnC0 f r pre pc fi cv arg rest L p hfn htc hfnC0 hinv
            have key : ∀ o, evalBrs ⟨callSem Φ bi n, bi, some (.fn fi cv)⟩ (d.caps ++ [""]) (cv.toList ++ [arg]) arg
                d.body = some o → outVal o = res → ∃ q, C02S.TRuns O P p q ∧ Done P q r pre (res :: rest) := by
              intro o hev hres
              obtain ⟨q2, ht2, hdone⟩ := body_run O P hO hP Φ hΦ bi hbi n ih cv d
                (Frame.new fi f.localsBase cv.toList.length) hd hlen arg o hev r pre rest rfl q1 hinv1
              rw [hres] at hdone
              exact ⟨q2, .step ht1 ht2, hdone⟩
            split at h
            · rename_i v Lx hev
              simp only [Option.some.injEq] at h
              exact key _ hev (by simpa [outVal] using h)
            · rename_i res' hev
              simp only [Option.some.injEq] at h
              exact key _ hev (by simpa [outVal] using h)
            · simp at h
          · simp at h
        · simp at h
      | int z => simp [callSem] at h
      | bin b => simp [callSem] at h
      | ref r => simp [callSem] at h
      | tup a b => simp [callSem] at h
      | builtin i => simp [callSem] at h
      | proc a b => simp [callSem] at h
      | res a b => simp [callSem] at h

/-- **Named tail calls are compiled correctly** (with everything of C02Tail around and inside them): a process
whose current function contains the code of the sequence `sq` at `pc`, locals aligned with `Γ`, the flowing
value on top of the stack, no select in progress, runs by `Executor::step` units alone — through every `Call`,
`TailCall(true)` and `TailCall(false)` in the functions it calls, every frame handed over — to the state the
meaning `evalSq (topSem Φ bi n)` gives: after the code with value and locals, in the same frame (`InvC`; at the
very end of the function's code the statement is `InvE`: `InvC`, or the frame done in another function after a
named tail call of the sequence itself). -/
theorem compileSq5_correct (O : Oracle) (P : Prog) (hO : OracleIntEq O) (hP : wfProg P) (Φ : FTab)
    (hΦ : FnOK P Φ) (bi : Nat → Val → Option Val) (hbi : ∀ i a v, bi i a = some v → O.builtin i a = .value v)
    (n : Nat) (fn : Function) (f : Frame) (r : List Frame) (pre : List Val)
    (hfn : P.functions[f.functionIndex]? = some fn) (hsz : fn.instructions.size < 2 ^ 63 - 1) (sq : Sq4)
    (Γ : List String) (pc : Nat) (flow : Val) (rest L : List Val) (out : Out)
    (hl : C02S.Located fn.instructions pc (compileSq Γ sq).1) (hw : wfSq P sq) (hal : L.length = Γ.length)
    (hnc : f.capturesCount ≤ L.length)
    (hev : evalSq (topSem Φ bi n) Γ L flow sq = some out)
    (p : Proc) (hp : InvC p f r pre pc (flow :: rest) L) :
    ∃ q, C02S.TRuns O P p q ∧ InvE P fn.instructions.size q f r pre
      (Target fn.instructions f.capturesCount (pc + (compileSq Γ sq).1.length) rest L out) := by
  have hc := contracts_all O P hO hP Φ hΦ bi hbi n
  have hts : TailOK O P (topSem Φ bi n) := by
    intro sv arg res hs
    simp [topSem] at hs
  have run := compileSq_aruns (O := O) (P := P) (code := fn.instructions) (cs := topSem Φ bi n)
    (fi := f.functionIndex) (nc := f.capturesCount) hO hP hsz sq Γ pc flow rest L _ hl hw hal hnc
    (by intro sv hs; simp [topSem] at hs) hev
  exact liftX O P (topSem Φ bi n) hc.1 hts hc.2.2 hbi fn f r pre hfn run p (InvE.ofC hp)

/-- `compileSq5_correct` for a sequence that runs to its END and is not the last thing in the function's code
(every sequence inside a function body: the parameter clear `Reset` follows): the process is in `InvC`, in the
same frame, after the code, with the value and the locals the meaning gives. -/
theorem compileSq5_correct_inner (O : Oracle) (P : Prog) (hO : OracleIntEq O) (hP : wfProg P) (Φ : FTab)
    (hΦ : FnOK P Φ) (bi : Nat → Val → Option Val) (hbi : ∀ i a v, bi i a = some v → O.builtin i a = .value v)
    (n : Nat) (fn : Function) (f : Frame) (r : List Frame) (pre : List Val)
    (hfn : P.functions[f.functionIndex]? = some fn) (hsz : fn.instructions.size < 2 ^ 63 - 1) (sq : Sq4)
    (Γ : List String) (pc : Nat) (flow : Val) (rest L : List Val) (v : Val) (L' : List Val)
    (hl : C02S.Located fn.instructions pc (compileSq Γ sq).1) (hw : wfSq P sq) (hal : L.length = Γ.length)
    (hnc : f.capturesCount ≤ L.length)
    (hev : evalSq (topSem Φ bi n) Γ L flow sq = some (.norm v L'))
    (hin : pc + (compileSq Γ sq).1.length < fn.instructions.size)
    (p : Proc) (hp : InvC p f r pre pc (flow :: rest) L) :
    ∃ q, C02S.TRuns O P p q ∧ InvC q f r pre (pc + (compileSq Γ sq).1.length) (v :: rest) L' := by
  obtain ⟨q, hq, hinv⟩ := compileSq5_correct O P hO hP Φ hΦ bi hbi n fn f r pre hfn hsz sq Γ pc flow rest L _
    hl hw hal hnc hev p hp
  exact ⟨q, hq, by simpa [Target] using hinv.1 (by simpa [Target] using hin)⟩

end C02N
