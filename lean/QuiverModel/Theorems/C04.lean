import QuiverModel.Lemmas.Sys.Faithful
import QuiverModel.Lemmas.Sys.Stored
import QuiverModel.Lemmas.Sys.Live
import QuiverModel.Lemmas.Sys.Dead
/-
C04 — Messages: exactly-once, per-sender FIFO, and no lost wake-ups.

All theorems are about `QM.Sys.run (Sys.init n prog req) cs`: the state of M-Sys
(Core/Sys/Basic.lean — the model the driver `qm_c04` executes in lock-step with the real
Environment/Workers) after ANY sequence `cs` of scheduler choices: any interleaving of environment
and worker steps, any partial visibility of the queues, any time-slice length (`fuel`), any
hash-iteration order (`ordQ`, `ordE`), any clock ticks; for any worker count `n ≥ 1` and any
well-formed script table `prog`.
-/
namespace C04
open QM.Sys
set_option linter.unusedSectionVars false
section
variable [Cfg]

/-- The state after the choices `cs`, from the start-up state of `Repl::evaluate`. -/
abbrev reach (n : Nat) (prog : Prog) (req : Nat) (cs : List Choice) : Sys := run (Sys.init n prog req) cs

/-- The routing invariant (`RInv`): no `EnvironmentError` (`fault = false`), every pid that occurs in
a queue, a register or an awaiter table is routed, a process lives on the worker the router names,
every command sits in the queue of the worker it concerns — after every choice sequence. -/
theorem routing_invariant (n : Nat) (prog : Prog) (req : Nat) (hn : 0 < n) (hwf : ProgWF prog) (cs : List Choice) :
    PreStart (reach n prog req cs) ∨ RInv (reach n prog req cs) :=
  invariant_from_init Rules.current RInv (fun _ h => RInv.of_started h)
    (fun _ m h => h.micro Rules.current_tame m) n prog req hn hwf cs

/-- The delivery invariant (`DInv`) after every choice sequence. -/
theorem delivery_invariant (n : Nat) (prog : Prog) (req : Nat) (hn : 0 < n) (hwf : ProgWF prog) (cs : List Choice) :
    PreStart (reach n prog req cs) ∨ DInv (reach n prog req cs) :=
  invariant_from_init Rules.current DInv (fun _ h => DInv.of_started h)
    (fun _ m h => h.micro Rules.current_tame m) n prog req hn hwf cs

/-- **Message conservation** for every pair (sender `a`, receiver `b`): what `notify_message` has
appended to `b`'s mailbox from `a`, followed by the `DeliverMessage` commands for it still queued
at `b`'s worker, followed by the `DeliverAction` events still queued at `a`'s worker, is exactly the
sequence of sends `a → b` handled so far — in order.  Hence exactly-once (no loss, no duplicate)
and per-sender FIFO. -/
theorem delivery_conservation (n : Nat) (prog : Prog) (req : Nat) (hn : 0 < n) (hwf : ProgWF prog)
    (cs : List Choice) (a b : Pid) :
    let s := reach n prog req cs
    sel a b s.appended ++ selC a b (s.cmdQ (home s b)) ++ selE a b (s.evtQ (home s a)) = sel a b s.sent := by
  intro s
  rcases delivery_invariant n prog req hn hwf cs with h | h
  · show sel a b s.appended ++ selC a b (s.cmdQ (home s b)) ++ selE a b (s.evtQ (home s a)) = sel a b s.sent
    rw [h.appended, h.sent, (Inert.facts (K := fun _ => True) (h.inert _)).2.1, h.evtQ]; rfl
  · exact h.conserve a b

/-- The same with the workers named by the router. -/
theorem delivery_conservation_routed (n : Nat) (prog : Prog) (req : Nat) (hn : 0 < n) (hwf : ProgWF prog)
    (cs : List Choice) (a b : Pid) (wa wb : Wid)
    (ha : (reach n prog req cs).env.router a = some wa) (hb : (reach n prog req cs).env.router b = some wb) :
    let s := reach n prog req cs
    sel a b s.appended ++ selC a b (s.cmdQ wb) ++ selE a b (s.evtQ wa) = sel a b s.sent := by
  intro s
  have := delivery_conservation n prog req hn hwf cs a b
  simp only [home_eq ha, home_eq hb] at this
  exact this

/-- Exactly-once / FIFO as a prefix statement: the messages from `a` in `b`'s mailbox history are a
prefix of the messages `a` sent to `b`. -/
theorem appended_prefix_of_sent (n : Nat) (prog : Prog) (req : Nat) (hn : 0 < n) (hwf : ProgWF prog)
    (cs : List Choice) (a b : Pid) :
    sel a b (reach n prog req cs).appended <+: sel a b (reach n prog req cs).sent := by
  have := delivery_conservation n prog req hn hwf cs a b
  simp only [List.append_assoc] at this
  exact ⟨_, this⟩

/-- No message is ever dropped: `notify_message` always finds its target process (a
`DeliverMessage` never overtakes the `SpawnProcess` of its target). -/
theorem no_message_dropped (n : Nat) (prog : Prog) (req : Nat) (hn : 0 < n) (hwf : ProgWF prog) (cs : List Choice) :
    (reach n prog req cs).dropped = [] := by
  rcases delivery_invariant n prog req hn hwf cs with h | h
  · exact h.dropped
  · exact h.nodrop

/-- No `EnvironmentError` is ever produced. -/
theorem no_fault (n : Nat) (prog : Prog) (req : Nat) (hn : 0 < n) (hwf : ProgWF prog) (cs : List Choice) :
    (reach n prog req cs).fault = false := by
  rcases routing_invariant n prog req hn hwf cs with h | h
  · exact h.nofault
  · exact h.nofault

/-- When all queues are empty everything that was sent has been appended, in send order. -/
theorem quiescent_all_delivered (n : Nat) (prog : Prog) (req : Nat) (hn : 0 < n) (hwf : ProgWF prog)
    (cs : List Choice) (a b : Pid) (hidle : (reach n prog req cs).idle) :
    sel a b (reach n prog req cs).appended = sel a b (reach n prog req cs).sent := by
  have hc := delivery_conservation n prog req hn hwf cs a b
  rcases routing_invariant n prog req hn hwf cs with h | h
  · rw [h.appended, h.sent]
  · have hlt : ∀ p, home (reach n prog req cs) p < (reach n prog req cs).n := by
      intro p
      unfold home
      cases hr : (reach n prog req cs).env.router p with
      | some w => exact h.wbound p w hr
      | none =>
        have hz := h.zero
        unfold Routed at hz
        cases h0 : (reach n prog req cs).env.router 0 with
        | none => rw [h0] at hz; simp at hz
        | some w0 => exact Nat.lt_of_le_of_lt (Nat.zero_le _) (h.wbound 0 w0 h0)
    simp only [] at hc
    rw [(hidle _ (hlt b)).1, (hidle _ (hlt a)).2.1] at hc
    simpa [selC, selE, cmdMsgs, evtMsgs] using hc

/-- **Spawn replies are conserved** per caller `c`: the pids `notify_spawn` has handed to `c`, followed
by the `NotifySpawn` commands for `c` still queued at its worker, are exactly the pids the
environment allocated for `c`'s SpawnActions, in order: every SpawnAction handled produces exactly
one NotifySpawn, delivered to the caller's worker. -/
theorem spawn_reply (n : Nat) (prog : Prog) (req : Nat) (hn : 0 < n) (hwf : ProgWF prog) (cs : List Choice) (c : Pid) :
    let s := reach n prog req cs
    notifiedOf c s.spawnNotified ++ notifyC c (s.cmdQ (home s c)) = spawnedOf c s.spawned := by
  intro s
  rcases delivery_invariant n prog req hn hwf cs with h | h
  · show notifiedOf c s.spawnNotified ++ notifyC c (s.cmdQ (home s c)) = spawnedOf c s.spawned
    rw [h.spawnNotified, h.spawned, (Inert.facts (K := fun _ => True) (h.inert _)).2.2.1]; rfl
  · exact h.spawnReply c

/-- The scheduling invariant (`SInv`) after every choice sequence. -/
theorem sched_invariant (n : Nat) (prog : Prog) (req : Nat) (hn : 0 < n) (hwf : ProgWF prog) (cs : List Choice) :
    PreStart (reach n prog req cs) ∨ SInv (reach n prog req cs) :=
  invariant_from_init Rules.current SInv (fun _ h => SInv.of_started h)
    (fun _ m h => h.micro Rules.current_sane m) n prog req hn hwf cs

theorem preStart_sched {s : Sys} (h : PreStart s) (w : Wid) : WSched (s.wk w) ∧ (s.wk w).spawning = [] := by
  rw [h.wk]
  by_cases e : w = 0
  · subst e
    simp only [upd_same]
    refine ⟨{ qnd := by simp [W0init, WorkerSt.setProc, WorkerSt.empty], spnd := by simp [W0init, WorkerSt.setProc, WorkerSt.empty],
              send := by simp [W0init, WorkerSt.setProc, WorkerSt.empty], dqs := ?_, dss := ?_, live := ?_ }, by simp [W0init, WorkerSt.setProc, WorkerSt.empty]⟩
    · intro p hp; simp [W0init, WorkerSt.setProc, WorkerSt.empty] at hp
    · intro p hp; simp [W0init, WorkerSt.setProc, WorkerSt.empty] at hp
    · intro p hp; simp [W0init, WorkerSt.setProc, WorkerSt.empty] at hp
  · simp only [upd_other _ _ _ _ e]
    refine ⟨{ qnd := by simp [WorkerSt.empty], spnd := by simp [WorkerSt.empty], send := by simp [WorkerSt.empty],
              dqs := ?_, dss := ?_, live := ?_ }, by simp [WorkerSt.empty]⟩
    · intro p hp; simp [WorkerSt.empty] at hp
    · intro p hp; simp [WorkerSt.empty] at hp
    · intro p hp; simp [WorkerSt.empty] at hp

/-- **Re-queue only if parked**: on every worker, `queue`, `spawning` and `selecting` are duplicate
free and pairwise disjoint, and every process in one of them exists and is unfinished — a process is
never runnable twice, never runnable while parked, never parked for two reasons. -/
theorem sched_sets_disjoint (n : Nat) (prog : Prog) (req : Nat) (hn : 0 < n) (hwf : ProgWF prog) (cs : List Choice)
    (w : Wid) : WSched ((reach n prog req cs).wk w) := by
  rcases sched_invariant n prog req hn hwf cs with h | h
  · exact (preStart_sched h w).1
  · exact h.sched w

/-- **A spawner always receives its pid**: while a process is parked in `spawning`, its SpawnAction
is queued at its worker's event queue or the NotifySpawn for it is queued at its worker's command
queue. -/
theorem spawner_receives_pid (n : Nat) (prog : Prog) (req : Nat) (hn : 0 < n) (hwf : ProgWF prog) (cs : List Choice)
    (w : Wid) (c : Pid) (hc : c ∈ ((reach n prog req cs).wk w).spawning) :
    (∃ fn regs coloc, Evt.spawn c fn regs coloc ∈ (reach n prog req cs).evtQ w) ∨
    (∃ p, Cmd.notifySpawn c p ∈ (reach n prog req cs).cmdQ w) := by
  rcases sched_invariant n prog req hn hwf cs with h | h
  · rw [(preStart_sched h w).2] at hc; simp at hc
  · exact h.spawner w c hc

/-- … hence when the queues are empty nobody is waiting for a spawn reply. -/
theorem quiescent_no_spawner_waiting (n : Nat) (prog : Prog) (req : Nat) (hn : 0 < n) (hwf : ProgWF prog)
    (cs : List Choice) (hidle : (reach n prog req cs).idle) (w : Wid) (hw : w < (reach n prog req cs).n) :
    ((reach n prog req cs).wk w).spawning = [] := by
  apply List.eq_nil_iff_forall_not_mem.mpr
  intro c hc
  rcases spawner_receives_pid n prog req hn hwf cs w c hc with ⟨_, _, _, h1⟩ | ⟨_, h1⟩
  · rw [(hidle w hw).2.1] at h1; simp at h1
  · rw [(hidle w hw).1] at h1; simp at h1

/-- The wake-up invariant (`WInv`) after every choice sequence. -/
theorem wakeup_invariant (n : Nat) (prog : Prog) (req : Nat) (hn : 0 < n) (hwf : ProgWF prog) (cs : List Choice) :
    PreStart (reach n prog req cs) ∨ WInv (reach n prog req cs) :=
  invariant_from_init Rules.current WInv (fun _ h => WInv.of_started h) (fun _ m h => h.micro m) n prog req hn hwf cs

/-- **No lost wake-up.**  A process parked in `selecting` either has no ready source in its local
state — no message in its mailbox that one of the select's receive sources accepts, no awaited
target with a stored result or a recorded failure — or something that will re-queue it is in flight:
a `DeliverMessage` or `UpdateAwaitResults` for it, or a link of its await chain (`AwaitAction`,
`QueryAndAwait`, `ProcessResults`).  (Timeouts are woken by `check_expired_timeouts` at the next
executor step; the quiescence detector treats a pending timeout as "not quiescent".) -/
theorem no_lost_wakeup (n : Nat) (prog : Prog) (req : Nat) (hn : 0 < n) (hwf : ProgWF prog) (cs : List Choice)
    (w : Wid) (p : Pid) (x : Proc) (hsel : p ∈ ((reach n prog req cs).wk w).selecting)
    (hx : ((reach n prog req cs).wk w).procs p = some x) :
    ¬ LocalReady (reach n prog req cs).prog x ∨ WakePending (reach n prog req cs) p := by
  rcases wakeup_invariant n prog req hn hwf cs with h | h
  · rw [(h.wk_idle w).2.1] at hsel; simp at hsel
  · exact h.core.wake w p x hsel hx

/-- Everything in flight that concerns a process sits in the queue of a real worker. -/
theorem wakePending_not_idle {s : Sys} (h : WInv s) {p : Pid} (hp : WakePending s p) :
    ∃ w, w < s.n ∧ (s.cmdQ w ≠ [] ∨ s.evtQ w ≠ []) := by
  have hr := h.si.r
  rcases hp with ⟨w, c, hc, hm⟩ | ⟨w, e, he, hm⟩
  · refine ⟨w, ?_, Or.inl (List.ne_nil_of_mem hc)⟩
    have hcok := hr.cmds w c hc
    cases c with
    | deliver t m => exact hr.wbound t w hcok
    | updateAwait a rs => exact hr.wbound a w hcok
    | queryAwait a ts =>
      obtain ⟨t, ht⟩ := List.exists_mem_of_ne_nil ts (h.core.neQ w a ts hc)
      exact hr.wbound t w (hcok.2 t ht)
    | misc => simp [mentionsC] at hm
    | start _ => simp [mentionsC] at hm
    | resume _ _ => simp [mentionsC] at hm
    | spawn _ _ _ => simp [mentionsC] at hm
    | notifySpawn _ _ => simp [mentionsC] at hm
    | getResult _ _ => simp [mentionsC] at hm
  · refine ⟨w, ?_, Or.inr (List.ne_nil_of_mem he)⟩
    have heok := hr.evts w e he
    cases e with
    | await a ts => exact hr.wbound a w heok.1
    | procResults a rs =>
      obtain ⟨tr, htr⟩ := List.exists_mem_of_ne_nil rs (h.core.neR w a rs he)
      exact hr.wbound tr.1 w (heok.2 tr htr)
    | spawn _ _ _ _ => simp [mentionsE] at hm
    | deliver _ _ => simp [mentionsE] at hm
    | resultResp _ _ => simp [mentionsE] at hm
    | exited _ => simp [mentionsE] at hm

/-- … hence **the system never becomes idle while a blocked process has a ready source**: when all
queues of all workers are empty, no process parked in a select has a ready source in its local
state. -/
theorem quiescent_no_blocked_ready (n : Nat) (prog : Prog) (req : Nat) (hn : 0 < n) (hwf : ProgWF prog) (cs : List Choice)
    (hidle : (reach n prog req cs).idle) (w : Wid) (p : Pid) (x : Proc)
    (hsel : p ∈ ((reach n prog req cs).wk w).selecting) (hx : ((reach n prog req cs).wk w).procs p = some x) :
    ¬ LocalReady (reach n prog req cs).prog x := by
  rcases wakeup_invariant n prog req hn hwf cs with h | h
  · rw [(h.wk_idle w).2.1] at hsel; simp at hsel
  · rcases h.core.wake w p x hsel hx with h1 | h1
    · exact h1
    · obtain ⟨w', hw', hne⟩ := wakePending_not_idle h h1
      rcases hne with hne | hne
      · exact absurd (hidle w' hw').1 hne
      · exact absurd (hidle w' hw').2.1 hne

/-- **Spawn pairing**: for every worker and process, the number of SpawnActions plus NotifySpawns
in flight for it at that worker is 1 if it is parked in `spawning` and 0 otherwise: a NotifySpawn
always finds its caller parked, and a parked spawner has exactly one reply coming. -/
theorem spawn_pairing (n : Nat) (prog : Prog) (req : Nat) (hn : 0 < n) (hwf : ProgWF prog) (cs : List Choice)
    (w : Wid) (c : Pid) :
    ((reach n prog req cs).evtQ w).countP (isSpawnEvt c) + ((reach n prog req cs).cmdQ w).countP (isNotify c) =
      if c ∈ ((reach n prog req cs).wk w).spawning then 1 else 0 := by
  rcases wakeup_invariant n prog req hn hwf cs with h | h
  · rw [h.evtQ w, (preStart_sched h w).2]
    simp only [List.countP_nil, Nat.zero_add, List.not_mem_nil, if_false]
    rw [List.countP_eq_zero]
    intro c' hc'
    have := (h.inert w c' hc').2.2 c
    cases c' <;> simp_all [isNotify, cmdNotify]
  · exact h.pair w c

/-! ### await answers -/

/-- an answer carrying the result of `t` for awaiter `a` is on its way (or will be produced: `a` is
registered at `t`'s worker, or a fresh query for `t` on behalf of `a` is in flight) -/
def AnswerInFlight (s : Sys) (a t : Pid) : Prop :=
  (∃ w rs r, Evt.procResults a rs ∈ s.evtQ w ∧ (t, some r) ∈ rs) ∨
  (∃ w r, pendingHas s a w t r) ∨
  (∃ w rs r, Cmd.updateAwait a rs ∈ s.cmdQ w ∧ (t, some r) ∈ rs) ∨
  (∃ w, a ∈ (s.wk w).awaitersFor t) ∨
  (∃ w ts, Evt.await a ts ∈ s.evtQ w ∧ t ∈ ts) ∨ (∃ w ts, Cmd.queryAwait a ts ∈ s.cmdQ w ∧ t ∈ ts)

/-- the awaiter's current select does not (any longer) wait for `t` -/
def NotAwaiting (s : Sys) (a t : Pid) : Prop :=
  ∀ w x, (s.wk w).procs a = some x → x.result.isSome ∨ (alookup x.awaiting t).isNone

/-- Full statement of answer completeness (NOT proved at system level): every completed target a
worker has reported to an awaiter has been applied at the awaiter's worker, or the answer is still
on its way, or the awaiter's select no longer waits for that target (its `pending_awaits` entry was
replaced by a newer select's and the collected answers for the completed one were discarded). -/
def AwaitAnswerCompleteStatement : Prop :=
  ∀ (n : Nat) (prog : Prog) (req : Nat), 0 < n → ProgWF prog → ∀ (cs : List Choice) (a t : Pid),
    (a, t) ∈ (reach n prog req cs).reported →
      (a, t) ∈ (reach n prog req cs).learned ∨ AnswerInFlight (reach n prog req cs) a t ∨ NotAwaiting (reach n prog req cs) a t

/-- Proved part: the step that the repaired defect F8 concerned.  On EVERY state, handling a further
ProcessResults event with MERGED answers never loses a result already collected in the pending
entry of the awaiter: it stays collected or leaves in the UpdateAwaitResults command.
(`replace_loses_await_answer` below: the replace variant loses it.)  Together with
`no_lost_wakeup` (the answer chain never dies: `WInv.pend` — every worker the environment still
expects has its query or its answer in flight) this is what the system-level statement rests on;
the remaining links (worker → event, event → pending entry, command → `awaiting` map) each move the
result verbatim. -/
theorem await_answer_complete_partial (s : Sys) (a : Pid) (new : Results) (w0 : Wid) (t : Pid) (r : Res)
    (hrouted : (s.env.router a).isSome) (hhas : pendingHas s a w0 t r) (hnew : alookup new t = none) :
    pendingHas (handleProcResultsWith mergeAnswer s a new) a w0 t r ∨
    ∃ aw rs, Cmd.updateAwait a rs ∈ (handleProcResultsWith mergeAnswer s a new).cmdQ aw ∧ (t, some r) ∈ rs :=
  merge_keeps_collected s a new w0 t r hrouted hhas hnew

/-- Every worker the environment still expects an answer from (for the pending await of `p`) has its
QueryAndAwait still queued or its ProcessResults on the way: the collection always completes. -/
theorem pending_await_completes (n : Nat) (prog : Prog) (req : Nat) (hn : 0 < n) (hwf : ProgWF prog) (cs : List Choice)
    (p : Pid) (pa : PendingAwait) (hp : (reach n prog req cs).env.pending p = some pa) (w : Wid) (hw : w ∈ pa.expected) :
    InFlightFrom (reach n prog req cs) p w := by
  rcases wakeup_invariant n prog req hn hwf cs with h | h
  · rw [h.pending] at hp; cases hp
  · exact h.core.pend p pa hp w hw

/-- **Results are stable**: from any state satisfying the scheduling invariant (every state after
start-up does: `sched_invariant`), no scheduler choice changes the result of a process that has one. -/
theorem results_stable (s : Sys) (h : SInv s) (c : Choice) : ResMono s (sysStep s c) ∧ SInv (sysStep s c) := by
  have := sysStep_invariant Rules.current (fun s' => SInv s' ∧ ResMono s s')
    (fun s' m hs => ⟨hs.1.micro Rules.current_sane m, hs.2.trans (ResMono.micro hs.1 m)⟩) s c ⟨h, ResMono.refl s⟩
  exact ⟨this.2, this.1⟩

/-- **Completion reports are truthful**: every completed target in a ProcessResults event in flight
carries exactly the result that target has on the reporting worker (and, by `results_stable`, will
always have).  The later links of the answer chain copy it verbatim (`mergeAnswer` / flatten /
`applyResults`; `await_answer_complete_partial`). -/
theorem reports_truthful (n : Nat) (prog : Prog) (req : Nat) (hn : 0 < n) (hwf : ProgWF prog) (cs : List Choice)
    (w : Wid) (a : Pid) (rs : Results) (hm : Evt.procResults a rs ∈ (reach n prog req cs).evtQ w)
    (t : Pid) (r : Res) (htr : (t, some r) ∈ rs) : ((reach n prog req cs).wk w).resultOf t = some r := by
  have hinv : PreStart (reach n prog req cs) ∨ EInv (reach n prog req cs) :=
    invariant_from_init Rules.current EInv (fun _ h => EInv.of_started h) (fun _ m h => h.micro m) n prog req hn hwf cs
  rcases hinv with h | h
  · rw [h.evtQ w] at hm; simp at hm
  · exact h.evt w a rs hm t r htr

/-- **Every spawn reply re-queues its caller**: each NotifySpawn applied so far found its caller
parked in `spawning` (flag `true` in the ghost history), so — with `notify_spawn_requeues_iff_parked`
and `spawn_reply` — every spawner is resumed exactly once per spawn, with the new pid. -/
theorem spawner_always_requeued (n : Nat) (prog : Prog) (req : Nat) (hn : 0 < n) (hwf : ProgWF prog) (cs : List Choice) :
    ∀ x ∈ (reach n prog req cs).spawnNotified, x.2.2 = true := by
  have hinv : PreStart (reach n prog req cs) ∨ NInv (reach n prog req cs) :=
    invariant_from_init Rules.current NInv (fun _ h => NInv.of_started h) (fun _ m h => h.micro m) n prog req hn hwf cs
  rcases hinv with h | h
  · intro x hx; rw [h.spawnNotified] at hx; simp at hx
  · exact h.all

/-- `notify_spawn` re-queues the caller iff it was parked in `spawning` (and always hands it the
pid): the handler on an arbitrary state. -/
theorem notify_spawn_requeues_iff_parked (s : Sys) (i : Wid) (caller newPid : Pid) (x : Proc)
    (hx : (s.wk i).procs caller = some x) :
    let s' := handleCmd s i (.notifySpawn caller newPid)
    ((s'.wk i).queue = if caller ∈ (s.wk i).spawning then (s.wk i).queue ++ [caller] else (s.wk i).queue) ∧
    caller ∉ (s'.wk i).spawning ∧
    (s'.wk i).procs caller = some { x with regs := x.regs ++ [newPid], pc := x.pc + 1, spawnIssued := false } := by
  by_cases hsp : caller ∈ (s.wk i).spawning
  · simp [handleCmd, handleCmdWith, hx, hsp, mem_serase]
  · simp [handleCmd, handleCmdWith, hx, hsp, mem_serase]

/-! ### examples: the hypotheses are satisfiable by non-trivial reachable states -/

end

/-! ### concrete witnesses (configuration: the default, the code at HEAD) -/

/-- main spawns a child that sends it one message -/
def exProg : Prog := [[.spawn 1 [0], .select [.recv .any]], [.send 1 1 0]]
def exCs : List Choice := [.worker 0 100 5 [] [], .env [100, 100], .worker 1 100 5 [] [], .env [100, 100]]

theorem exProg_wf : ProgWF exProg := by
  refine ⟨by decide, ?_⟩
  intro sc hsc fn pass h
  simp [exProg] at hsc
  rcases hsc with rfl | rfl <;> simp at h
  obtain ⟨rfl, _⟩ := h; decide

/-- a reachable state with a message in flight in the receiver's command queue, behind the spawn
reply of the same caller -/
example : sel 1 0 (reach 2 exProg 1 exCs).sent = [{ src := 1, tag := 1, seq := 0 }]
    ∧ selC 1 0 ((reach 2 exProg 1 exCs).cmdQ 0) = [{ src := 1, tag := 1, seq := 0 }]
    ∧ sel 1 0 (reach 2 exProg 1 exCs).appended = []
    ∧ notifyC 0 ((reach 2 exProg 1 exCs).cmdQ 0) = [1]
    ∧ spawnedOf 0 (reach 2 exProg 1 exCs).spawned = [1] := by decide

/-- … and after worker 0's next step the message is in the mailbox history and the spawner has its pid -/
example : sel 1 0 (reach 2 exProg 1 (exCs ++ [.worker 0 100 5 [] []])).appended = [{ src := 1, tag := 1, seq := 0 }]
    ∧ notifiedOf 0 (reach 2 exProg 1 (exCs ++ [.worker 0 100 5 [] []])).spawnNotified = [1] := by decide

/-- a reachable state with a process parked in a select, nothing ready locally, and the message
that will wake it in flight in its worker's command queue -/
example :
    let s := reach 2 exProg 1 [.worker 0 100 5 [] [], .env [100, 100], .worker 0 100 5 [] [], .worker 1 100 5 [] [], .env [100, 100]]
    0 ∈ (s.wk 0).selecting ∧ ((s.wk 0).procs 0).map (·.mailbox) = some [] ∧
    Cmd.deliver 0 { src := 1, tag := 1, seq := 0 } ∈ s.cmdQ 0 := by decide

/-! ### the theorems depend on the repairs (witnesses of the earlier rules) -/

/-- variant `exitReports` (notes/C14-fixes/01): the worker of the child reports its termination
(`Evt.exited 1`) in the worker step in which it finishes, after what that step had already emitted;
without the variant nothing is reported.  Every theorem of this file (outside this section of
concrete witnesses) is stated for an arbitrary configuration `[Cfg]`, i.e. holds for both. -/
example :
    (@reach { exitReports := true } 2 exProg 1 [.worker 0 100 5 [] [], .env [100, 100], .worker 1 100 5 [] [], .worker 1 100 5 [] []]).evtQ 1 =
      [.deliver 0 { src := 1, tag := 1, seq := 0 }, .exited 1] ∧
    (@reach { exitReports := false } 2 exProg 1 [.worker 0 100 5 [] [], .env [100, 100], .worker 1 100 5 [] [], .worker 1 100 5 [] []]).evtQ 1 =
      [.deliver 0 { src := 1, tag := 1, seq := 0 }] := by decide

/-- main: `c = @{}, 7 c, ! [50]` — the child finishes at once, the message reaches it afterwards -/
def deadProg : Prog := [[.spawn 1 [], .send 1 7 0, .select [.timeout 50]], []]

def deadCs : List Choice :=
  [.worker 0 100 5 [] [], .env [100, 100], .worker 0 100 5 [] [], .worker 1 100 5 [] [], .env [100, 100],
   .worker 0 100 5 [] [], .worker 1 100 5 [] [], .env [100, 100], .worker 0 100 5 [] [], .worker 1 100 5 [] [],
   .env [100, 100], .worker 1 100 5 [] [], .worker 0 100 5 [] []]

/-- variant `releaseDead` (notes/C06-fixes/01): a message that reaches a process which has already
finished (and is not persistent) is handled — counted in `appended` — but not stored: the mailbox
stays empty and the message is listed in `deadDropped`.  Without the variant (HEAD) the same run puts
it into the dead process's mailbox, where nobody reads it. -/
example :
    (let s := @reach { releaseDead := true } 2 deadProg 1 deadCs
     (s.sent.length, s.appended.length, s.deadDropped.length, ((s.wk 1).procs 1).map (·.mailbox.length),
       ((s.wk 1).procs 1).map (·.result.isSome))) = (1, 1, 1, some 0, some true) ∧
    (let s := @reach { releaseDead := false } 2 deadProg 1 deadCs
     (s.sent.length, s.appended.length, s.deadDropped.length, ((s.wk 1).procs 1).map (·.mailbox.length),
       ((s.wk 1).procs 1).map (·.result.isSome))) = (1, 1, 0, some 1, some true) := by decide

/-- main: `c1 = @{ ! [50] }, c2 = @{ [2,0] me }, ! [c1, #recv], c3 = @{}, ! [c3]` -/
def staleProg : Prog :=
  [[.spawn 1 [], .spawn 2 [0], .select [.proc 1, .recv .any], .spawn 3 [], .select [.proc 3]],
   [.select [.timeout 50]], [.send 1 2 0], []]

def staleCs : List Choice :=
  [.worker 0 100 5 [] [], .env [100, 100], .worker 0 100 5 [] [], .env [100, 100], .worker 0 100 5 [] [],
   .worker 0 100 5 [] [], .env [100, 100], .worker 0 100 5 [] [], .worker 0 100 5 [] [], .worker 1 100 5 [] [],
   .env [0, 100], .worker 0 100 5 [] []]

/-- F16 (repaired by c08a680).  With `mark_active` on an empty await answer, a process parked in
`spawning` is re-queued by the late answer of a select that already completed through a message; its
`Spawn` runs a second time and it fails — although no script contains `fail`.  With the current rule
(`wake_selecting`) the same schedule leaves it parked, waiting for its spawn reply. -/
theorem stale_answer_wakes_spawner :
    (((runWith Rules.markActiveOnEmpty (Sys.init 2 staleProg 1) staleCs).wk 0).procs 0).map (·.result) = some (some .err)
    ∧ (((run (Sys.init 2 staleProg 1) staleCs).wk 0).procs 0).map (·.result) = some none
    ∧ 0 ∈ ((run (Sys.init 2 staleProg 1) staleCs).wk 0).spawning := by decide

/-- awaiter 0 awaits `[1, 3, 2]`; 1 and 3 live on worker 1, 2 on worker 0 -/
def lostProg : Prog :=
  [[.spawn 1 [], .spawn 2 [], .spawn 3 [], .select [.proc 1, .proc 3, .proc 2]], [], [.select [.recv .any]],
   [.select [.timeout 5]]]

def lostCs : List Choice :=
  [.worker 0 100 9 [] [], .env [100, 100], .worker 0 100 9 [] [], .env [100, 100], .worker 0 100 9 [] [],
   .worker 0 100 9 [] [], .worker 1 100 9 [] [], .env [100, 100], .worker 1 100 9 [] [], .worker 0 100 9 [] [],
   .env [100, 100], .worker 1 100 9 [] [], .tick 10, .worker 1 100 9 [] [], .env [0, 100], .worker 0 100 9 [] [],
   .env [100, 100], .worker 0 100 9 [] []]

/-- F8 (repaired by b8eb814), the 3-target / 2-worker schedule.  With `responses.insert` (replace),
worker 1's later completion report for 3 replaces its pending answer `{1: done, 3: pending}` while
worker 0 has not answered yet: process 1's result is reported but never reaches the awaiter, whose
select yields the result of 3 although 1 has priority.  With merged answers (the code now) the same
schedule delivers both and the select yields the result of 1. -/
theorem replace_loses_await_answer :
    let bad := runWith Rules.replaceAnswers (Sys.init 2 lostProg 1) lostCs
    let good := run (Sys.init 2 lostProg 1) lostCs
    (bad.reported = [(0, 1), (0, 3)] ∧ bad.learned = [(0, 3)]
      ∧ ((bad.wk 0).procs 0).map (·.result) = some (some (.ok [-1, 0, -1, 3, -1, -2, -2, -2]))
      ∧ (∀ w, w < 2 → bad.cmdQ w = [] ∧ (bad.evtQ w).all (fun e => match e with | .resultResp _ _ => true | _ => false)))
    ∧ (good.reported = [(0, 1), (0, 3)] ∧ good.learned = [(0, 3), (0, 1)]
      ∧ ((good.wk 0).procs 0).map (·.result) = some (some (.ok [-1, 0, -1, 1, -2, -2]))) := by decide

/-- main: `c1 = @{ !recv, fail }, c2 = @{ [2,0] me }, c3 = @{ !recv }, c4 = @{ !recv }, ! [c1, #recv],
[0,0] c1, ! [c3, c4, 20]` -/
def staleFailProg : Prog :=
  [[.spawn 1 [], .spawn 2 [0], .spawn 3 [], .spawn 4 [], .select [.proc 1, .recv .any], .send 1 0 0,
    .select [.proc 3, .proc 4, .timeout 20]],
   [.select [.recv .any], .fail], [.send 1 2 0], [.select [.recv .any]], [.select [.recv .any]]]

def staleFailCs : List Choice :=
  let W0 := Choice.worker 0 100 9 [] []
  let W1 := Choice.worker 1 100 9 [] []
  let E := Choice.env [100, 100]
  let E1 := Choice.env [0, 100]
  [W0, E, W0, E, W0, E, W0, E, W0, W0, W0, E, W1, W0, E, W0, W0, W0, E, W1, E1, W0, E, W0,
   E, W1, E1, W0, E, W0, .tick 30, W0, W0]

/-- F17 (repaired by 755cedc).  With the earlier rule (`update_await_results` wakes the awaiter only
if the answer carries no result at all) the initial answer of `! [c3, c4, 20]`, merged with the
stale failure report of `c1`, wakes nobody: the select is never evaluated (`selStart = none`), its
timeout never starts, and the system is idle — a lost wake-up.  With the current rule the same
schedule evaluates the select, the timeout fires and the process finishes with `[0, [2,0], []]`. -/
theorem stale_failure_suppresses_wakeup :
    let bad := runWith Rules.wakeOnlyOnEmptyAnswer (Sys.init 2 staleFailProg 1) staleFailCs
    let good := run (Sys.init 2 staleFailProg 1) staleFailCs
    (0 ∈ (bad.wk 0).selecting ∧ ((bad.wk 0).procs 0).map (·.selStart) = some none
      ∧ (∀ w, w < 2 → bad.cmdQ w = [] ∧ bad.evtQ w = [] ∧ (bad.wk w).queue = [])
      ∧ (∀ w, w < 2 → (bad.wk w).hasTimeout bad.prog = false))
    ∧ ((good.wk 0).procs 0).map (·.result) = some (some (.ok [-1, 0, -1, 2, 0, -2, -1, -2, -2])) := by
  decide +kernel

section
variable [Cfg]

/-! ### await answers end to end -/

/-- The faithful-answer invariant (`TInv`) after every choice sequence. -/
theorem stored_invariant (n : Nat) (prog : Prog) (req : Nat) (hn : 0 < n) (hwf : ProgWF prog) (cs : List Choice) :
    PreStart (reach n prog req cs) ∨ TInv (reach n prog req cs) :=
  invariant_from_init Rules.current TInv (fun _ h => TInv.of_started h) (fun _ m h => h.micro m) n prog req hn hwf cs

/-- **Await answers are faithful end to end**: a result stored in an awaiter's `awaiting` map —
whether it came through the local notification of `Executor::step`, or through
ProcessResults → the environment's pending answers (merged) → UpdateAwaitResults — is the result
the awaited process really has, on whichever worker it lives; so is every result still travelling
in a pending answer or an UpdateAwaitResults command. -/
theorem stored_results_faithful (n : Nat) (prog : Prog) (req : Nat) (hn : 0 < n) (hwf : ProgWF prog) (cs : List Choice) :
    (∀ w a x t v, ((reach n prog req cs).wk w).procs a = some x → (t, some v) ∈ x.awaiting →
      ∃ w', ((reach n prog req cs).wk w').resultOf t = some (.ok v)) ∧
    (∀ w a rs t r, Cmd.updateAwait a rs ∈ (reach n prog req cs).cmdQ w → (t, some r) ∈ rs →
      ∃ w', ((reach n prog req cs).wk w').resultOf t = some r) ∧
    (∀ a pa w rs t r, (reach n prog req cs).env.pending a = some pa → (w, rs) ∈ pa.responses → (t, some r) ∈ rs →
      ∃ w', ((reach n prog req cs).wk w').resultOf t = some r) := by
  rcases stored_invariant n prog req hn hwf cs with h | h
  · refine ⟨?_, ?_, ?_⟩
    · intro w a x t v hx hm
      rw [h.wk] at hx
      by_cases e : w = 0
      · subst e
        simp only [upd_same, W0init, WorkerSt.setProc, WorkerSt.empty, upd_apply] at hx
        split at hx
        · simp only [Option.some.injEq] at hx; subst hx; simp [Proc.sleeping, Proc.fresh] at hm
        · cases hx
      · simp [e, WorkerSt.empty] at hx
    · intro w a rs t r hm
      have := (h.inert w) _ hm
      simp [cmdMsg, cmdCreate, cmdNotify] at this
      by_cases ew : w = 0
      · subst ew; obtain ⟨k, req', hq⟩ := h.cmd0; rw [hq] at hm; simp at hm
      · have := h.cmdOther w ew _ hm; cases this
    · intro a pa w rs t r hp; rw [h.pending] at hp; cases hp
  · exact ⟨fun w a x t v hx hm => h.core.stored w a x t v hx hm,
           fun w a rs t r hm ht => h.core.updc w a rs t r hm ht,
           fun a pa w rs t r hp hm ht => h.core.pend a pa w rs t r hp hm ht⟩

/-! ### messages to a process that can no longer receive (variant `releaseDead`) -/

/-- The invariant about dropped messages (`XInv`) after every choice sequence. -/
theorem dead_drop_invariant (n : Nat) (prog : Prog) (req : Nat) (hn : 0 < n) (hwf : ProgWF prog) (cs : List Choice) :
    PreStart (reach n prog req cs) ∨ XInv (reach n prog req cs) :=
  invariant_from_init Rules.current XInv (fun _ h => XInv.of_started h) (fun _ m h => h.micro m) n prog req hn hwf cs

/-- With the code at HEAD (variant `releaseDead` off) `notify_message` stores every message it
handles for a known process: nothing is dropped, `appended` IS the mailbox history. -/
theorem nothing_dropped_without_variant (n : Nat) (prog : Prog) (req : Nat) (hn : 0 < n) (hwf : ProgWF prog)
    (cs : List Choice) (hoff : Cfg.releaseDead = false) : (reach n prog req cs).deadDropped = [] := by
  rcases dead_drop_invariant n prog req hn hwf cs with h | h
  · exact h.deadDropped
  · exact h.off hoff

/-- With the variant on, a message that was handled but not stored (`deadDropped`) is one of the
handled ones (so conservation, exactly-once and FIFO above still count it), and its receiver HAS a
result on its worker: it had terminated before the message reached it.  C04 speaks of messages sent
to a LIVE process; these are the others. -/
theorem dropped_only_for_finished_receiver (n : Nat) (prog : Prog) (req : Nat) (hn : 0 < n) (hwf : ProgWF prog)
    (cs : List Choice) (t : Pid) (m : Msg) (hm : (t, m) ∈ (reach n prog req cs).deadDropped) :
    (t, m) ∈ (reach n prog req cs).appended ∧ ∃ w r, ((reach n prog req cs).wk w).resultOf t = some r := by
  rcases dead_drop_invariant n prog req hn hwf cs with h | h
  · rw [h.deadDropped] at hm; cases hm
  · obtain ⟨r, w, hw⟩ := h.fin (t, m) hm
    exact ⟨h.sub (t, m) hm, w, r, hw⟩

/-- **A live process loses nothing**, whatever the configuration: for a process that has no result
yet, no message addressed to it was ever dropped — every message `notify_message` handled for it
(`appended`, which by `delivery_conservation` is exactly what was sent to it and has arrived, in
per-sender order) went into its mailbox. -/
theorem live_receiver_loses_nothing (n : Nat) (prog : Prog) (req : Nat) (hn : 0 < n) (hwf : ProgWF prog)
    (cs : List Choice) (w : Wid) (b : Pid) (x : Proc) (hx : ((reach n prog req cs).wk w).procs b = some x)
    (hr : x.result = none) (m : Msg) : (b, m) ∉ (reach n prog req cs).deadDropped := by
  rcases dead_drop_invariant n prog req hn hwf cs with h | h
  · rw [h.deadDropped]; intro hm; cases hm
  · exact h.live_lost_nothing hx hr m

/-! ### no process is forgotten by the scheduler -/

/-- **No process in limbo**: in every reachable state — any worker count, any choices, the start-up
phase included — a process that has no result is in `queue`, `spawning` or `selecting` of its
executor: nothing is ever dropped from the scheduler's sets while it still has work to do. -/
theorem no_process_in_limbo (n : Nat) (prog : Prog) (req : Nat) (cs : List Choice) (w : Wid) (p : Pid) (x : Proc)
    (hx : ((reach n prog req cs).wk w).procs p = some x) (hr : x.result = none) :
    p ∈ ((reach n prog req cs).wk w).queue ∨ p ∈ ((reach n prog req cs).wk w).spawning ∨
    p ∈ ((reach n prog req cs).wk w).selecting :=
  no_limbo n prog req cs w p x hx hr

/-- **What an idle system looks like**: every unfinished process is parked in `selecting`, in a
select none of whose sources is locally ready (no matching message in its mailbox, no stored
answer, no failed target, no expired timeout). With `no_lost_wakeup`: an idle system is stuck only
on selects that really have nothing to take. -/
theorem idle_unfinished_parked (n : Nat) (prog : Prog) (req : Nat) (hn : 0 < n) (hwf : ProgWF prog) (cs : List Choice)
    (hidle : (reach n prog req cs).idle) (w : Wid) (hw : w < (reach n prog req cs).n) (p : Pid) (x : Proc)
    (hx : ((reach n prog req cs).wk w).procs p = some x) (hr : x.result = none) :
    p ∈ ((reach n prog req cs).wk w).selecting ∧ ¬ LocalReady (reach n prog req cs).prog x := by
  have hsel : p ∈ ((reach n prog req cs).wk w).selecting := by
    rcases no_process_in_limbo n prog req cs w p x hx hr with h | h | h
    · rw [(hidle w hw).2.2] at h; cases h
    · rw [quiescent_no_spawner_waiting n prog req hn hwf cs hidle w hw] at h; cases h
    · exact h
  exact ⟨hsel, quiescent_no_blocked_ready n prog req hn hwf cs hidle w p x hsel hx⟩

end

end C04
