import QuiverModel.Core.Heap.Unfixed
import QuiverModel.Lemmas.Heap.ResultPres
/-
C06 — Binary heap accounting is exact: no leak, no premature free, no aliasing damage.

Model: M-Heap (`Core/Heap/Basic.lean`: state, `retain`/`release`, choke points, allocation,
reclamation, transfer by copy) + its instruction layer (`Core/Heap/Instr.lean`, `Exec.lean`,
`Select.lean`: the value-movement pattern of every handler, including the select machinery). Invariant: `QM.Heap.Inv` (`Lemmas/Heap/Inv.lean`), whose
clause `acct` is

    Acct s : ∀ i, refcounts[i] = countRefs (roots s) i + floating s i

(`countRefs` = number of *paths* from a root to `Binary::Heap(i)` — `retain` walks into every tuple
every time; `floating` = occurrences in handles that left a root by a raw `pop` and are still
counted). All theorems are for every state, value, process id, program table and builtin
behaviour; nothing is bounded.
-/
namespace C06
open QM.Heap QM.Heap.State

/-! ## the invariant holds initially -/

theorem acct_init : Inv State.init := by
  refine ⟨rfl, rfl, ?_, ?_, ?_, ?_, ?_, ?_, ?_, rfl⟩
  · intro i; simp [State.init, State.rc, State.countRefs, State.procsCount, State.constCount,
      State.constCountL, State.floating]
  · intro i hi; simp [State.init, State.isFreed] at hi
  · intro j hj; simp [State.init] at hj
  · intro i hi; simp [State.init, State.isFreed] at hi
  · simp [State.init]
  · intro i hi; simp [State.init] at hi
  · intro j hj; simp [State.init] at hj

/-- the headline equation is a clause of the invariant -/
theorem acct_of_inv {s : State} (h : Inv s) :
    ∀ i, s.rc i = s.countRefs i + s.floating i := h.acct

/-! ## `acct_step`: every choke point preserves the invariant -/

theorem acct_step_pushValue {s : State} (h : Inv s) (pid : Nat) {v : Val} (hv : Live s v) :
    Inv (pushValue s pid v) := inv_pushValue h pid hv

theorem acct_step_popValue {s : State} (h : Inv s) (pid : Nat) : Inv (popValue s pid).2 := inv_popValue h pid

theorem acct_step_pushLocal {s : State} (h : Inv s) (pid : Nat) {v : Val} (hv : Live s v) :
    Inv (pushLocal s pid v) := inv_pushLocal h pid hv

theorem acct_step_truncateLocals {s : State} (h : Inv s) (pid len : Nat) : Inv (truncateLocals s pid len) :=
  inv_truncateLocals h pid len

theorem acct_step_replaceLocals {s : State} (h : Inv s) (pid : Nat) {newLocals : List Val}
    (hv : LiveL s newLocals) : Inv (replaceLocals s pid newLocals).2 := inv_replaceLocals h pid hv

theorem acct_step_releaseOrphanLocals {s : State} (h : Inv s) (pid : Nat) (keep : List Nat) :
    Inv (releaseOrphanLocals s pid keep).2 := inv_releaseOrphanLocals h pid keep

theorem acct_step_allocate {s : State} (h : Inv s) (d : Data) : Inv (allocate s d).2 := inv_allocate h d

theorem acct_step_processPendingFree {s : State} (h : Inv s) : Inv (processPendingFree s) :=
  inv_processPendingFree h

theorem acct_step_materialize {s : State} (h : Inv s) (index : Nat) (hnf : s.isFreed index = false) :
    Inv (materialize s index).2 := inv_materialize h index hnf

theorem acct_step_cachedConstantBinary {s : State} (h : Inv s) (index : Nat) (bytes : Option Bytes) :
    Inv (cachedConstantBinary s index bytes).2 := (cachedConstantBinary_spec h index bytes).1

theorem acct_step_injectHeapData {s : State} (h : Inv s) (v : Val) (hd : List Bytes) :
    Inv (injectHeapData s v hd).2 := (injectHeapData_spec h v hd).1.inv

/-- a popped handle stays usable (its slots are neither freed nor overwritten) until the next
reclamation point, whatever its count has dropped to -/
theorem popped_handle_live {s : State} (h : Inv s) (pid : Nat) (v : Val) (hv : (popValue s pid).1 = some v) :
    Live (popValue s pid).2 v := (popValue_spec h pid).2.2 v hv

/-! ## `acct_step`: every instruction handler -/

/-- side conditions of the two handlers that drop a raw-popped handle on a failure path. They hold
for verified bytecode of a type-checked program (C07: stack depth; C01: a send target is a process). -/
def InstrPre (s : State) (pid : Nat) : Instr → Prop
  | .spawn => (stackOf s pid).length ≠ 1
  | .send => (stackOf s pid).length ≠ 1 ∧
      ∀ t, (stackOf s pid).head? = some t → (∃ a b, t = Val.proc a b) ∨ t.heapFree
  | _ => True

/-- every builtin's result mentions only slots of its argument and slots it allocated itself -/
def EnvOk (env : Env) : Prop := ∀ id r, env.run id = some r → BuiltinOk r

/-- **acct_step** for instructions: the invariant is kept, no live slot is freed or overwritten,
and nothing is left in transit — whether the handler succeeds or fails half-way. -/
theorem acct_step_instr (env : Env) (henv : EnvOk env) {s : State} (h : Inv s) (pid : Nat) (i : Instr)
    (hpre : InstrPre s pid i) :
    Inv (exec env s pid i).1 ∧ Stable s (exec env s pid i).1 ∧ (exec env s pid i).1.transit = s.transit := by
  have key : GoodT s (exec env s pid i).1 := by
    cases i with
    | constant index c => exact good_handleConstant h pid index c
    | pop => exact good_handlePop h pid
    | duplicate => exact good_handleDuplicate h pid
    | pick n => exact good_handlePick h pid n
    | rotate n => exact good_handleRotate h pid n
    | load index => exact good_handleLoad h pid index
    | store => exact good_handleStore h pid
    | tuple t sz => exact good_handleTuple h pid t sz
    | get index => exact good_handleGet h pid index
    | isType t => exact good_handleIsType h pid _
    | jump t => exact good_handleJump h pid t
    | jumpIf t => exact good_handleJumpIf h pid t
    | call => exact good_handleCall h pid _ _ henv
    | tailCall r => exact good_handleTailCall h pid r _
    | function fi c => exact good_handleFunction h pid fi c
    | reset index => exact good_handleReset h pid index
    | builtin index k => exact good_handleBuiltin h pid index k
    | equal n => exact good_handleEqual h pid n _
    | not => exact good_handleNot h pid
    | spawn => exact good_handleSpawn h pid hpre
    | send => exact good_handleSend h pid hpre.1 hpre.2
    | self sw => exact good_handleSelf h pid sw
    | processRef a b => exact good_handleProcessRef h pid a b
  exact ⟨key.inv, key.stable, key.transit⟩

/-- … including the `Err` arm of the step loop (the running process has no result yet) -/
theorem acct_step_stepInstr (env : Env) (henv : EnvOk env) {s : State} (h : Inv s) (pid : Nat) (i : Instr)
    (hpre : InstrPre s pid i)
    (hrun : ∀ p v, (exec env s pid i).1.getProc pid = some p → p.result ≠ some (.ok v)) :
    Inv (stepInstr env s pid i).1 ∧ Stable s (stepInstr env s pid i).1
      ∧ (stepInstr env s pid i).1.transit = s.transit := by
  have ⟨a, b, c⟩ := acct_step_instr env henv h pid i hpre
  unfold stepInstr
  cases he : exec env s pid i with
  | mk s1 o =>
    rw [he] at a b c hrun
    cases o with
    | fail =>
      have g := good_setError a pid hrun
      exact ⟨g.inv, b.trans g.stable, g.transit.trans c⟩
    | ok => exact ⟨a, b, c⟩
    | act x => exact ⟨a, b, c⟩
    | wait => exact ⟨a, b, c⟩

/-- no instruction handler touches the stored result of any process -/
theorem exec_keeps_results (env : Env) (s : State) (pid : Nat) (i : Instr) (q : Nat) :
    ((exec env s pid i).1.getProc q).map (·.result) = (s.getProc q).map (·.result) :=
  sameRes_exec env s pid i q

/-- `acct_step_stepInstr` with its side condition on the state BEFORE the instruction: the running
process has no stored result (`resume_process` takes it; a fresh process has none) -/
theorem acct_step_stepInstr_pre (env : Env) (henv : EnvOk env) {s : State} (h : Inv s) (pid : Nat) (i : Instr)
    (hpre : InstrPre s pid i) (hrun : ∀ p v, s.getProc pid = some p → p.result ≠ some (.ok v)) :
    Inv (stepInstr env s pid i).1 ∧ Stable s (stepInstr env s pid i).1
      ∧ (stepInstr env s pid i).1.transit = s.transit := by
  refine acct_step_stepInstr env henv h pid i hpre ?_
  intro p v hp
  have hk := exec_keeps_results env s pid i pid
  rw [hp] at hk
  cases hs : s.getProc pid with
  | none => rw [hs] at hk; cases hk
  | some p0 =>
    rw [hs] at hk
    simp only [Option.map_some, Option.some.injEq] at hk
    rw [hk]; exact hrun p0 v hs

/-! ## `acct_step`: the select machinery -/

/-- **acct_step** for `Select` (`handle_select` with everything below it: continuation, initialise,
source scan, filter call, verdict, completion): for every clock, compatibility table, set of failed
targets and builtin behaviour -/
theorem acct_step_select (env : SelEnv) (henv : ∀ id r, env.run id = some r → BuiltinOk r)
    {s : State} (h : Inv s) (pid : Nat) :
    Inv (handleSelect env s pid).1 ∧ Stable s (handleSelect env s pid).1
      ∧ (handleSelect env s pid).1.transit = s.transit := by
  have g := good_handleSelect env henv h pid
  exact ⟨g.inv, g.stable, g.transit⟩

/-- **acct_step** for the `Select` of `notes/C05-fixes/01` (a select with process sources evaluates
nothing until every target has been answered): for either value of the gate -/
theorem acct_step_selectWaiting (env : SelEnv) (henv : ∀ id r, env.run id = some r → BuiltinOk r)
    (pending : Bool) {s : State} (h : Inv s) (pid : Nat) :
    Inv (handleSelectWaiting env pending s pid).1 ∧ Stable s (handleSelectWaiting env pending s pid).1
      ∧ (handleSelectWaiting env pending s pid).1.transit = s.transit := by
  have g := good_handleSelectWaiting env henv pending h pid
  exact ⟨g.inv, g.stable, g.transit⟩

/-- a closed gate parks the select without evaluating: no slot's count, freed flag or bytes change,
and (when no filter verdict was pending) the state is literally unchanged -/
theorem selectWaiting_closed_gate_parks {env : SelEnv} {s : State} {pid : Nat} {p : Proc} {st : SelectState}
    (hp : s.getProc pid = some p) (hst : p.selectState = some st) (hrecv : st.receiving = none)
    (hpos : st.frame = p.frames.length - 1 ∧ st.instruction = topCounter p.frames) :
    handleSelectWaiting env true s pid = (s, .wait) := by
  have hc : handleSelectContinuation s pid = (s, some none) := by
    simp [handleSelectContinuation, hp, hst, hrecv, hpos.1, hpos.2]
  simp [handleSelectWaiting, hc, hasSelectStateB, hp, hst]

/-- with the gate open it is `handle_select` itself -/
theorem selectWaiting_open_gate (env : SelEnv) (s : State) (pid : Nat) :
    handleSelectWaiting env false s pid = handleSelect env s pid := handleSelectWaiting_open env s pid

/-- the repaired `call_receive_function`: the message of an abandoned filter call is released -/
theorem acct_step_callReceiveFunction (env : SelEnv) (henv : ∀ id r, env.run id = some r → BuiltinOk r)
    {s : State} (h : Inv s) (pid receiveIdx msgIdx : Nat) {message source : Val}
    (hm : Live s message) (hsrc : Live s source) (hsel : HasSel s pid) :
    Inv (callReceiveFunction env s pid receiveIdx msgIdx message source).1
      ∧ (callReceiveFunction env s pid receiveIdx msgIdx message source).1.transit = s.transit := by
  have g := good_callReceiveFunction env henv h pid receiveIdx msgIdx hm hsrc hsel.ne
  exact ⟨g.inv, g.transit⟩

theorem acct_step_completeSelect {s : State} (h : Inv s) (pid : Nat) {result : Val} (hr : Live s result) :
    Inv (completeSelect s pid result).1 ∧ (completeSelect s pid result).1.transit = s.transit := by
  have g := good_completeSelect h pid hr
  exact ⟨g.inv, g.transit⟩

/-! ## `acct_step`: notifications, process creation, REPL, end of slice -/

theorem acct_step_spawnProcess {s : State} (h : Inv s) (id : Nat) (fi : Option Nat) (caps : List Val)
    (arg : Val) (hd : List Bytes) (persistent : Bool) (hnew : s.getProc id = none) :
    Inv (spawnProcess s id fi caps arg hd persistent).1 := (good_spawnProcess h id fi caps arg hd persistent hnew).inv

theorem acct_step_notifySpawn {s : State} (h : Inv s) (id a b : Nat) : Inv (notifySpawn s id a b) :=
  (good_notifySpawn h id a b).inv

theorem acct_step_notifyMessage {s : State} (h : Inv s) (id : Nat) (m : Val) (hd : List Bytes) :
    Inv (notifyMessage s id m hd).1 := (good_notifyMessage h id m hd).inv

theorem acct_step_notifyResult {s : State} (h : Inv s) (awaiter awaited : Nat) (r : Val) (hd : List Bytes) :
    Inv (notifyResult s awaiter awaited r hd).1 := (good_notifyResult h awaiter awaited r hd).inv

theorem acct_step_notifyEffectCompletion {s : State} (h : Inv s) (pid : Nat) (r : Option Val) (hd : List Bytes)
    (hrun : ∃ p, s.getProc pid = some p ∧ p.result = none) :
    Inv (notifyEffectCompletion s pid r hd).1 := (good_notifyEffectCompletion h pid r hd hrun).inv

theorem acct_step_resumeProcess {s : State} (h : Inv s) (id fi : Nat) : Inv (resumeProcess s id fi).1 :=
  (good_resumeProcess h id fi).inv

theorem acct_step_compactLocals {s : State} (h : Inv s) (pid : Nat) (keep : List Nat) :
    Inv (compactLocals s pid keep).1 := (good_compactLocals h pid keep).inv

theorem acct_step_popFrame {s : State} (h : Inv s) (pid : Nat) : Inv (popFrame s pid) := (good_popFrame h pid).inv

theorem acct_step_finish {s : State} (h : Inv s) (pid : Nat)
    (hrun : ∀ p v, s.getProc pid = some p → p.result ≠ some (.ok v)) : Inv (finish s pid).1 :=
  (good_finish h pid hrun).inv

theorem acct_step_notifyAwaiters {s : State} (h : Inv s) (pid : Nat) : Inv (notifyAwaiters s pid) :=
  (good_notifyAwaiters h pid).inv

/-- Lead "same-worker awaiter notification with an empty heap list": for a result that mentions a heap
slot the injection fails before anything is allocated or counted — the state is untouched (the
result then travels worker → environment → worker); nothing leaks, nothing is counted twice. -/
theorem notifyResult_empty_heap_noop (s : State) (awaiter awaited : Nat) {v : Val} {j : Nat}
    (h : 0 < v.count j) : (notifyResult s awaiter awaited v []).1 = s := by
  unfold notifyResult
  split
  · rfl
  · split
    · rw [injectHeapData_nil_fails s h]
    · rfl

/-! ### finished processes (finding F17 and its candidate repair) -/

theorem acct_step_releaseDeadRoots {s : State} (h : Inv s) (pid : Nat) :
    Inv (releaseDeadRoots s pid) ∧ Stable s (releaseDeadRoots s pid)
      ∧ (releaseDeadRoots s pid).transit = s.transit := by
  have g := good_releaseDeadRoots h pid
  exact ⟨g.inv, g.stable, g.transit⟩

theorem acct_step_notifyMessageGuarded {s : State} (h : Inv s) (id : Nat) (m : Val) (hd : List Bytes) :
    Inv (notifyMessageGuarded s id m hd).1 := (good_notifyMessageGuarded h id m hd).inv

/-- after `release_dead_roots` a process that cannot be resumed roots nothing but its result -/
theorem dead_process_roots_only_result {s : State} {pid : Nat} {p : Proc} (hp : s.getProc pid = some p)
    (hnp : p.persistent = false) :
    ∃ p', (releaseDeadRoots s pid).getProc pid = some p' ∧ p'.roots = Res.vals p.result := by
  refine ⟨withoutDeadRoots p, ?_, roots_after_releaseDeadRoots p hnp⟩
  unfold releaseDeadRoots
  rw [hp]
  simp only
  rw [getProc_of_sameRoots (sameRoots_releaseList _ _)]
  simp

/-- an undeliverable message leaves the state untouched -/
theorem undeliverable_message_allocates_nothing {s : State} (id : Nat) (m : Val) (hd : List Bytes)
    (hnd : ∀ p, s.getProc id = some p → deliverable p = false) : (notifyMessageGuarded s id m hd).1 = s :=
  notifyMessageGuarded_drop id m hd hnd

/-! ## consequences at slice boundaries (nothing in transit) -/

/-- **positive_iff_reachable** — what `check_refcounts` tests: a slot is counted exactly when
`reachable_heap_indices` contains it -/
theorem positive_iff_reachable {s : State} (h : Inv s) (ht : s.transit = []) (i : Nat) :
    0 < s.rc i ↔ i ∈ s.reachable := by
  rw [mem_reachable_iff, h.acct i]
  simp [State.floating, ht]

/-- **no_use_after_free**: a freed slot is not reachable and no counted handle mentions it -/
theorem no_use_after_free {s : State} (h : Inv s) (i : Nat) (hf : s.isFreed i = true) :
    i ∉ s.reachable ∧ s.floating i = 0 := by
  have hz := h.freedZero i hf
  rw [h.acct i] at hz
  rw [mem_reachable_iff]; omega

/-- the reuse pool is exactly the set of freed slots -/
theorem free_iff_freed {s : State} (h : Inv s) (i : Nat) : i ∈ s.free ↔ s.isFreed i = true :=
  ⟨h.freeFreed i, h.freedFree i⟩

/-- **free_only_unreachable**: `process_pending_free` frees a slot only if it had been queued, is not
reachable, and no counted handle mentions it -/
theorem free_only_unreachable {s : State} (h : Inv s) (i : Nat)
    (hf : (processPendingFree s).isFreed i = true) (hnf : s.isFreed i = false) :
    i ∈ s.pendingFree ∧ i ∉ s.reachable ∧ s.floating i = 0 := by
  have ⟨hz, hq⟩ := freed_by_ppf h i hf hnf
  rw [h.acct i] at hz
  rw [mem_reachable_iff]
  exact ⟨hq, by omega, by omega⟩

/-! ## `bytes_stable` -/

/-- every operation other than reclamation leaves every un-freed slot un-freed and its bytes intact
(`Stable`); in particular allocation reuses freed slots only and `materialize` preserves content -/
theorem bytes_stable_allocate {s : State} (h : Inv s) (d : Data) : Stable s (allocate s d).2 := stable_allocate h d

theorem bytes_stable_materialize (s : State) (index : Nat) :
    Stable s (materialize s index).2 ∧ ∀ i, (materialize s index).2.bytesAt i = s.bytesAt i :=
  ⟨stable_materialize s index, bytesAt_materialize s index⟩

theorem bytes_stable_inject {s : State} (h : Inv s) (v : Val) (hd : List Bytes) :
    Stable s (injectHeapData s v hd).2 := (injectHeapData_spec h v hd).1.stable

/-- reclamation leaves every slot alone that is reachable or mentioned by a counted handle -/
theorem bytes_stable_reclaim {s : State} (h : Inv s) (i : Nat) (hi : i ∈ s.reachable ∨ 0 < s.floating i) :
    (processPendingFree s).isFreed i = false ∧ (processPendingFree s).bytesAt i = s.bytesAt i := by
  have hpos : 0 < s.rc i := by
    rw [h.acct i]
    cases hi with
    | inl hr => have := (mem_reachable_iff s i).mp hr; omega
    | inr hf => omega
  have hnf : s.isFreed i = false := by
    cases hq : s.isFreed i with
    | false => rfl
    | true => have := h.freedZero i hq; omega
  have hnf' : (processPendingFree s).isFreed i = false := by
    cases hq : (processPendingFree s).isFreed i with
    | false => rfl
    | true => have := (freed_by_ppf h i hq hnf).1; omega
  exact ⟨hnf', (ppf_frame h).2.2.2.2.1 i hnf'⟩

/-- an uncounted handle (a value popped earlier in the same handler, a freshly allocated slot) also
survives everything except reclamation — which runs only at the start of `step`, when no such handle
exists -/
theorem bytes_stable_handle {s t : State} {v : Val} (hv : Live s v) (hst : Stable s t) :
    Live t v ∧ ∀ j, 0 < v.count j → t.bytesAt j = s.bytesAt j :=
  ⟨hv.stable hst, fun j hj => (hst.keep j (hv j hj).1 (hv j hj).2).2⟩

/-! ## `transfer_copies` -/

/-- **transfer_copies**: a value extracted on one executor and injected into another reads, against
the receiving heap, exactly as it read against the sending heap (bytes for slot numbers); the
injected handle is live and shares no slot with anything the receiver already held -/
theorem transfer_copies {src dst : State} (hdst : Inv dst) {v v' : Val} {hd : List Bytes}
    (hx : extractHeapData src v = some (v', hd)) {w : Val} (hi : (injectHeapData dst v' hd).1 = some w) :
    erase (injectHeapData dst v' hd).2.bytesAt w = erase src.bytesAt v
      ∧ Live (injectHeapData dst v' hd).2 w
      ∧ ∀ u, Live dst u → ∀ j, 0 < w.count j → u.count j = 0 := by
  have ⟨_, _, c⟩ := injectHeapData_spec hdst v' hd
  have ⟨l, e, f⟩ := c w hi
  exact ⟨e.trans (extractHeapData_erase hx), l, f⟩

/-! ## `reclaimed` -/

/-- **reclaimed**: at a slice boundary (nothing in transit) every slot that is not reachable — and
is not a never-retained allocation — is free after the next `process_pending_free`, i.e. after the
start of the next `step` -/
theorem reclaimed {s : State} (h : Inv s) (ht : s.transit = []) (hfresh : s.fresh = []) (i : Nat)
    (hi : i < s.heap.size) (hu : i ∉ s.reachable) :
    (processPendingFree s).isFreed i = true ∧ i ∈ (processPendingFree s).free
      ∧ (processPendingFree s).pendingFree = [] := by
  have hz : s.rc i = 0 := by
    rw [h.acct i]
    have : ¬ 0 < s.countRefs i := fun hp => hu ((mem_reachable_iff s i).mpr hp)
    simp [State.floating, ht]; omega
  have hfr : (processPendingFree s).isFreed i = true := by
    cases hq : s.isFreed i with
    | true => exact (ppf_frame h).2.2.2.2.2 i hq
    | false =>
      cases h.queued i hi hz hq with
      | inl hp => exact ppf_frees h i hp hz
      | inr hf => rw [hfresh] at hf; cases hf
  exact ⟨hfr, (inv_processPendingFree h).freedFree i hfr, pendingFree_processPendingFree h⟩

/-! ## every state an executor can reach

`Reach` closes the initial state under every operation the executor and its worker perform on the
heap and the roots — in any order, for any process, any program tables, any clock, any message or
result arriving at any time: this is "every program and every scheduling down to one instruction per
slice" on the model side. The premises are the side conditions listed at `InstrPre` / in the notes. -/

inductive Reach : State → Prop where
  | init : Reach State.init
  /-- start of a `step`: reclamation -/
  | reclaim {s} : Reach s → Reach (processPendingFree s)
  /-- one instruction of the time slice of process `pid` (handler + `Err` arm) -/
  | instr {s} (env : Env) (pid : Nat) (i : Instr) : Reach s → EnvOk env → InstrPre s pid i →
      (∀ p v, s.getProc pid = some p → p.result ≠ some (.ok v)) →
      Reach (stepInstr env s pid i).1
  /-- a `Select` instruction (first execution or any re-entry) -/
  | select {s} (env : SelEnv) (pid : Nat) : Reach s → (∀ id r, env.run id = some r → BuiltinOk r) →
      (∀ p v, (handleSelect env s pid).1.getProc pid = some p → p.result ≠ some (.ok v)) →
      Reach (stepSelect env s pid).1
  /-- end of the slice: frame auto-pop, completion, same-executor awaiters -/
  | popFrame {s} (pid : Nat) : Reach s → Reach (popFrame s pid)
  | finish {s} (pid : Nat) : Reach s → (∀ p v, s.getProc pid = some p → p.result ≠ some (.ok v)) →
      Reach (finish s pid).1
  | notifyAwaiters {s} (pid : Nat) : Reach s → Reach (notifyAwaiters s pid)
  /-- commands handled by the worker between slices -/
  | spawnProcess {s} (id : Nat) (fi : Option Nat) (caps : List Val) (arg : Val) (hd : List Bytes) (pers : Bool) :
      Reach s → s.getProc id = none → Reach (spawnProcess s id fi caps arg hd pers).1
  | notifySpawn {s} (id a b : Nat) : Reach s → Reach (notifySpawn s id a b)
  | notifyMessage {s} (id : Nat) (m : Val) (hd : List Bytes) : Reach s → Reach (notifyMessage s id m hd).1
  | notifyResult {s} (a b : Nat) (r : Val) (hd : List Bytes) : Reach s → Reach (notifyResult s a b r hd).1
  | notifyEffect {s} (pid : Nat) (r : Option Val) (hd : List Bytes) : Reach s →
      (∃ p, s.getProc pid = some p ∧ p.result = none) → Reach (notifyEffectCompletion s pid r hd).1
  | resume {s} (id fi : Nat) : Reach s → Reach (resumeProcess s id fi).1
  | compact {s} (pid : Nat) (keep : List Nat) : Reach s → Reach (compactLocals s pid keep).1
  | orphans {s} (pid : Nat) (keep : List Nat) : Reach s → Reach (releaseOrphanLocals s pid keep).2
  /-- a builtin flattens a binary of its argument (a live handle: the slot is not freed) -/
  | materialize {s} (index : Nat) : Reach s → s.isFreed index = false → Reach (materialize s index).2

/-- **the invariant holds, and nothing is in transit, in every reachable state** -/
theorem reach_inv {s : State} (h : Reach s) : Inv s ∧ s.transit = [] := by
  induction h with
  | init => exact ⟨acct_init, rfl⟩
  | reclaim _ ih => exact ⟨inv_processPendingFree ih.1, by rw [(ppf_frame ih.1).2.2.1.transit]; exact ih.2⟩
  | instr env pid i _ he hp hr ih =>
    have ⟨a, _, c⟩ := acct_step_stepInstr_pre env he ih.1 pid i hp hr
    exact ⟨a, c.trans ih.2⟩
  | select env pid _ he hr ih =>
    have g := good_handleSelect env he ih.1 pid
    unfold stepSelect
    cases hc : handleSelect env _ pid with
    | mk s1 o =>
      rw [hc] at g hr
      cases o with
      | fail =>
        have g2 := good_setError g.inv pid hr
        exact ⟨g2.inv, (g2.transit.trans g.transit).trans ih.2⟩
      | ok => exact ⟨g.inv, g.transit.trans ih.2⟩
      | act x => exact ⟨g.inv, g.transit.trans ih.2⟩
      | wait => exact ⟨g.inv, g.transit.trans ih.2⟩
  | popFrame pid _ ih => have g := good_popFrame ih.1 pid; exact ⟨g.inv, g.transit.trans ih.2⟩
  | finish pid _ hr ih => have g := good_finish ih.1 pid hr; exact ⟨g.inv, g.transit.trans ih.2⟩
  | notifyAwaiters pid _ ih => have g := good_notifyAwaiters ih.1 pid; exact ⟨g.inv, g.transit.trans ih.2⟩
  | spawnProcess id fi caps arg hd pers _ hn ih =>
    have g := good_spawnProcess ih.1 id fi caps arg hd pers hn; exact ⟨g.inv, g.transit.trans ih.2⟩
  | notifySpawn id a b _ ih => have g := good_notifySpawn ih.1 id a b; exact ⟨g.inv, g.transit.trans ih.2⟩
  | notifyMessage id m hd _ ih => have g := good_notifyMessage ih.1 id m hd; exact ⟨g.inv, g.transit.trans ih.2⟩
  | notifyResult a b r hd _ ih => have g := good_notifyResult ih.1 a b r hd; exact ⟨g.inv, g.transit.trans ih.2⟩
  | notifyEffect pid r hd _ hp ih =>
    have g := good_notifyEffectCompletion ih.1 pid r hd hp; exact ⟨g.inv, g.transit.trans ih.2⟩
  | resume id fi _ ih => have g := good_resumeProcess ih.1 id fi; exact ⟨g.inv, g.transit.trans ih.2⟩
  | compact pid keep _ ih => have g := good_compactLocals ih.1 pid keep; exact ⟨g.inv, g.transit.trans ih.2⟩
  | orphans pid keep _ ih => have g := goodT_releaseOrphanLocals ih.1 pid keep; exact ⟨g.inv, g.transit.trans ih.2⟩
  | materialize index _ hnf ih =>
    exact ⟨inv_materialize ih.1 index hnf, by rw [(rootsEq_materialize _ index).transit]; exact ih.2⟩

/-- **C06 on the model, for every reachable state**: a slot is counted exactly when it is reachable;
a freed slot is unreachable; the reuse pool is the set of freed slots -/
theorem reachable_states_exact {s : State} (h : Reach s) (i : Nat) :
    (0 < s.rc i ↔ i ∈ s.reachable) ∧ (s.isFreed i = true → i ∉ s.reachable) ∧ (i ∈ s.free ↔ s.isFreed i = true) := by
  have ⟨hi, ht⟩ := reach_inv h
  exact ⟨positive_iff_reachable hi ht i, fun hf => (no_use_after_free hi i hf).1, free_iff_freed hi i⟩

/-- **no assertion can fire**: the ghost flag `uaf` records every situation in which one of the
heap's debug assertions would fail — `retain`, `release`, `get_binary_data` (a builtin reading its
argument) or `materialize` of a freed slot ("use-after-free"), and a `release` underflow. It is
never set in a reachable state. -/
theorem no_assertion_fires {s : State} (h : Reach s) : s.uaf = false := (reach_inv h).1.noUaf

/-! ## the theorems depend on the repairs: the code as it was breaks the property

Each witness is a concrete state evaluated by the kernel (`decide`). -/

section Witnesses

/-- F7 (27c635d). Process 1 is in a select; the lower-priority filter (receive index 1) is running on
message `m0` (slot 0), which `select_state.receiving` holds; `m1` (slot 1) has arrived for the
higher-priority source. -/
def exSelectState : SelectState :=
  { frame := 0, instruction := 3, sources := [Val.func 7 [], Val.func 8 []], cursors := [0, 0], startTime := some 0, receiving := some (1, Val.heapBin 0) }

def exSelectProc : Proc :=
  { frames := [⟨0, 0, 0, 3⟩], mailbox := [Val.heapBin 0, Val.heapBin 1], selectState := some exSelectState }

def exSelect : State :=
  { heap := #[.owned [0x68], .owned [0x01, 0x02]], refcounts := #[2, 1], freed := #[false, false], procs := [(1, exSelectProc)] }

example : ∀ i, i < 2 → exSelect.rc i = exSelect.countRefs i + exSelect.floating i := by decide

/-- the old `call_receive_function` overwrites the slot: slot 0 stays counted twice with one path left -/
theorem unfixed_callReceiveFunction_breaks_acct :
    ¬ Acct (callReceiveFunctionUnfixed {} exSelect 1 0 1 (Val.heapBin 1) (Val.func 7 [])).1 := by
  intro h; exact absurd (h 0) (by decide)

example : (callReceiveFunctionUnfixed {} exSelect 1 0 1 (Val.heapBin 1) (Val.func 7 [])).1.rc 0 = 2 := by decide
example : (callReceiveFunctionUnfixed {} exSelect 1 0 1 (Val.heapBin 1) (Val.func 7 [])).1.countRefs 0 = 1 := by decide

/-- the repaired one releases the abandoned message -/
example : ∀ i, i < 2 →
    (callReceiveFunction {} exSelect 1 0 1 (Val.heapBin 1) (Val.func 7 [])).1.rc i
      = (callReceiveFunction {} exSelect 1 0 1 (Val.heapBin 1) (Val.func 7 [])).1.countRefs i := by decide

/-- F14 (795fca7). Process 1 still holds the first result of process 2 in `awaiting` (slot 0). -/
def exAwait : State :=
  { heap := #[.owned [1]], refcounts := #[1], freed := #[false],
    procs := [(1, { awaiting := [(2, some (Val.heapBin 0))] })] }

example : exAwait.rc 0 = exAwait.countRefs 0 + exAwait.floating 0 := by decide

theorem unfixed_notifyResult_breaks_acct :
    ¬ Acct (notifyResultUnfixed exAwait 1 2 (Val.heapBin 0) [[9]]).1 := by
  intro h; exact absurd (h 0) (by decide)

example : (notifyResult exAwait 1 2 (Val.heapBin 0) [[9]]).1.rc 0 = 0 := by decide
example : (notifyResult exAwait 1 2 (Val.heapBin 0) [[9]]).1.pendingFree = [0] := by decide

/-- F16 (bc74ad3). Process 1 has completed with a value (slot 0); overwriting its result with the
error of a process it once awaited leaves slot 0 counted and unreachable. -/
def exDone : State :=
  { heap := #[.owned [1, 2]], refcounts := #[1], freed := #[false],
    procs := [(1, { result := some (.ok (Val.heapBin 0)), awaiting := [(2, none)] })] }

example : exDone.rc 0 = exDone.countRefs 0 + exDone.floating 0 := by decide

theorem late_error_overwrite_breaks_acct : ¬ Acct (setError exDone 1) := by
  intro h; exact absurd (h 0) (by decide)

/-- F15 (fd2e22f). Two captures holding different binaries (slots 0 and 1 of the parent). -/
def exParent : State :=
  { heap := #[.owned [0x01, 0x02], .owned [0x03, 0x04]], refcounts := #[1, 1], freed := #[false, false],
    procs := [(0, { locals := [Val.heapBin 0, Val.heapBin 1] })] }

/-- the old transfer makes the second capture read the first capture's bytes … -/
theorem unfixed_spawn_transfer_corrupts :
    ((transferAllUnfixed exParent {} [Val.heapBin 0, Val.heapBin 1]).1.map
        (readBins (transferAllUnfixed exParent {} [Val.heapBin 0, Val.heapBin 1]).2))
      = some [[0x01, 0x02], [0x01, 0x02]] := by decide

/-- … and strands the copies it allocated for nothing (4 slots for 2 binaries) -/
example : (transferAllUnfixed exParent {} [Val.heapBin 0, Val.heapBin 1]).2.heap.size = 4 := by decide

/-- the repaired transfer copies each binary once and every capture reads its own bytes (an
instance of `transfer_copies`) -/
example :
    ((transferAll exParent {} [Val.heapBin 0, Val.heapBin 1]).1.map
        (readBins (transferAll exParent {} [Val.heapBin 0, Val.heapBin 1]).2))
      = some [[0x01, 0x02], [0x03, 0x04]] := by decide
example : (transferAll exParent {} [Val.heapBin 0, Val.heapBin 1]).2.heap.size = 2 := by decide

/-- F17 (HEAD). Process 1 finishes; beneath its result (slot 1) the operand stack still holds what a
tail call inside a tuple field abandoned (slot 0), and a message nobody received sits in its mailbox
(slot 2). -/
def exFinishing : State :=
  { heap := #[.owned [1], .owned [2], .owned [3]], refcounts := #[1, 1, 1], freed := #[false, false, false],
    procs := [(1, { stack := [Val.heapBin 1, Val.heapBin 0], mailbox := [Val.heapBin 2] })] }

example : ∀ i, i < 3 → exFinishing.rc i = exFinishing.countRefs i + exFinishing.floating i := by decide

/-- at HEAD the finished process keeps both forever: counted, "reachable", never reclaimed -/
theorem finished_process_keeps_dead_roots :
    (processPendingFree (finish exFinishing 1).1).reachable = [0, 2, 1]
      ∧ (processPendingFree (finish exFinishing 1).1).free = [] := by decide

/-- the same holds for a message that arrives after completion (`notify_message` as it is) -/
example : (processPendingFree (notifyMessage (finish exFinishing 1).1 1 (Val.heapBin 0) [[9]]).1).reachable.length = 4 := by
  decide

/-- with the repair only the result stays; the rest is in the reuse pool after the next step, and a
late message allocates nothing -/
theorem repaired_finish_reclaims_dead_roots :
    (processPendingFree (releaseDeadRoots (finish exFinishing 1).1 1)).reachable = [1]
      ∧ (processPendingFree (releaseDeadRoots (finish exFinishing 1).1 1)).free.length = 2 := by decide
example : (notifyMessageGuarded (releaseDeadRoots (finish exFinishing 1).1 1) 1 (Val.heapBin 0) [[9]]).1.heap.size = 3 := by
  decide

/-- the assertion flag is not vacuous: using a handle to a freed slot, or releasing more often than
retained, sets it -/
def exFreed : State :=
  { heap := #[.owned []], refcounts := #[0], freed := #[true], free := [0] }
example : (retain exFreed (Val.heapBin 0)).uaf = true := by decide
example : (materialize exFreed 0).2.uaf = true := by decide
example : (release exAwait (Val.tuple 0 [Val.heapBin 0, Val.heapBin 0])).uaf = true := by decide
example : (release exAwait (Val.heapBin 0)).uaf = false := by decide

end Witnesses

/-! ## the hypotheses are satisfiable: a non-trivial reachable state -/

section Examples

/-- process 0 spawned, a binary constant pushed, duplicated, stored, a tuple built, a field taken -/
def exRun : State :=
  let s := (spawnProcess State.init 0 (some 0) [] Val.nil [] false).1
  let s := (exec {} s 0 (.constant 0 (some (.bin [1, 2])))).1
  let s := (exec {} s 0 .duplicate).1
  let s := (exec {} s 0 .store).1
  let s := (exec {} s 0 (.constant 1 (some (.bin [3])))).1
  let s := (exec {} s 0 (.tuple 2 (some 2))).1
  let s := (exec {} s 0 .duplicate).1
  (exec {} s 0 (.get 1)).1

theorem exRun_inv : Inv exRun := by
  have e : EnvOk {} := by intro id r hr; cases hr
  have h0 := acct_step_spawnProcess acct_init 0 (some 0) [] Val.nil [] false rfl
  have h1 := (acct_step_instr {} e h0 0 (.constant 0 (some (.bin [1, 2]))) trivial).1
  have h2 := (acct_step_instr {} e h1 0 .duplicate trivial).1
  have h3 := (acct_step_instr {} e h2 0 .store trivial).1
  have h4 := (acct_step_instr {} e h3 0 (.constant 1 (some (.bin [3]))) trivial).1
  have h5 := (acct_step_instr {} e h4 0 (.tuple 2 (some 2)) trivial).1
  have h6 := (acct_step_instr {} e h5 0 .duplicate trivial).1
  exact (acct_step_instr {} e h6 0 (.get 1) trivial).1

/-- it is non-trivial: two slots, shared along several paths -/
example : exRun.rc 0 = 3 ∧ exRun.rc 1 = 3 ∧ exRun.reachable.length = 6 ∧ exRun.transit.length = 0 := by decide +kernel
/-- `positive_iff_reachable` applies to it -/
theorem exRun_transit : exRun.transit = [] := by
  have : exRun.transit.length = 0 := by decide +kernel
  exact List.eq_nil_of_length_eq_zero this
example : 0 < exRun.rc 1 ↔ 1 ∈ exRun.reachable := positive_iff_reachable exRun_inv exRun_transit 1
/-- `reclaimed` in action: the result replaced by the repaired `notify_result` (slot 0) is in the
reuse pool after the next `process_pending_free`, and the next allocation reuses it -/
example : (processPendingFree (notifyResult exAwait 1 2 (Val.heapBin 0) [[9]]).1).free = [0] := by decide
example : (allocate (processPendingFree (notifyResult exAwait 1 2 (Val.heapBin 0) [[9]]).1) (.owned [5])).1 = some 0 := by decide

end Examples

end C06
