import QuiverModel.Lemmas.VM.HeapBridge
/-
C16, heap half — binaries dropped by earlier iterations are reclaimed, so the heap stays bounded:
theorems on M-Heap (C06's model and invariant, imported) combined with M-VM's `tailcall_shape` /
`loop_head_invariant` (C16).
-/
namespace C16
open QM.Heap QM.Heap.State

/-! ### the heap bound at a loop head -/

open Bridge
open QM.VM (Prog Anns AllChecked)

/-- **Full statement** (heap half of C16). Take an executor state `s` (M-Heap, invariant `Inv`,
nothing in transit — i.e. between two handlers) whose process `pid` is, as a VM process, a state
`vp` of a certified program (`QM.VM.Inv`, C07) about to execute a tail call (`^`: `r = true`;
`^f` / `^~`: `r = false`) that succeeds. Then on the heap model the same instruction succeeds and,
in the state `t` after it — the return to the loop head —
  * the process re-enters with the sizes of `loop_head_invariant` (`AtEntry`: frames, locals =
    locals base + captures, stack = entry height — functions of the activation only), so its roots
    are the argument, what lies below the frame, the captures, and the mailbox / result / select /
    awaiting entries, which the tail call does not touch;
  * for every slot, the references from all roots changed exactly by the difference between the
    old and the new roots of this process (the iteration's locals are gone);
  * `Inv t` holds and nothing is in transit, so at the start of the next `step`
    (`process_pending_free`) **every slot still in use is reachable from the roots of `t`** (or is a
    never-retained allocation), the number of slots in use is at most
    `t.reachable.length + t.fresh.length`, and every slot that is not reachable — in particular
    every binary allocated by an earlier iteration and not reachable from the argument — is back in
    the reuse pool, with the deferred-free queue empty.
The bound mentions `t` only: it is the same at the first and at the k-th return to the loop head. -/
def TailLoopHeapBoundStatement : Prop :=
  ∀ (P : Prog) (A : Array Anns) (s0 : Nat), AllChecked P A →
  ∀ (vp vp' : QM.VM.Proc) (act : Option QM.VM.Action) (r : Bool) (f : QM.VM.Frame) (rest : List QM.VM.Frame),
    QM.VM.Inv P A s0 vp → vp.frames = f :: rest → vp.park = .none →
    P.currentInstr vp = some (.tailCall r) → QM.VM.handleTailCall P vp r = .ok (vp', act) →
  ∀ (env : Env), C06.EnvOk env → (∀ i, (P.functions[i]?).isSome = true → env.fnExists i = true) →
  ∀ (s : State) (pid : Nat) (p : Proc), Inv s → s.transit = [] → s.getProc pid = some p → Shadows vp p →
    (exec env s pid (.tailCall r)).2 = .ok ∧
    Inv (exec env s pid (.tailCall r)).1 ∧ (exec env s pid (.tailCall r)).1.transit = [] ∧
    ∃ (p' : Proc) (fi : Nat),
      (exec env s pid (.tailCall r)).1.getProc pid = some p' ∧ Shadows vp' p' ∧
      C16.AtEntry P A s0 rest f.localsBase fi vp' ∧
      p'.frames.length = vp'.frames.length ∧ p'.locals.length = vp'.locals.length ∧
      p'.stack.length = vp'.stack.length ∧
      p'.mailbox = p.mailbox ∧ p'.result = p.result ∧ p'.selectState = p.selectState ∧
      p'.awaiting = p.awaiting ∧
      (∀ i, (exec env s pid (.tailCall r)).1.countRefs i + p.count i = s.countRefs i + p'.count i) ∧
      (∀ i, i < (exec env s pid (.tailCall r)).1.heap.size →
        (processPendingFree (exec env s pid (.tailCall r)).1).isFreed i = false →
        i ∈ (exec env s pid (.tailCall r)).1.reachable ∨ i ∈ (exec env s pid (.tailCall r)).1.fresh) ∧
      slotsInUse (processPendingFree (exec env s pid (.tailCall r)).1)
        ≤ (exec env s pid (.tailCall r)).1.reachable.length + (exec env s pid (.tailCall r)).1.fresh.length ∧
      (∀ i, i < (exec env s pid (.tailCall r)).1.heap.size → i ∉ (exec env s pid (.tailCall r)).1.reachable →
        i ∉ (exec env s pid (.tailCall r)).1.fresh →
        (processPendingFree (exec env s pid (.tailCall r)).1).isFreed i = true ∧
        i ∈ (processPendingFree (exec env s pid (.tailCall r)).1).free) ∧
      (processPendingFree (exec env s pid (.tailCall r)).1).pendingFree = []

/-- **`tail_loop_heap_bound`**: the full statement holds. -/
theorem tail_loop_heap_bound : TailLoopHeapBoundStatement := by
  intro P A s0 hA vp vp' act r f rest hvm hfr hpark hcur hstep env henv hfx s pid p hinv ht hp hsh
  have hexec : exec env s pid (.tailCall r) = handleTailCall s pid r env.fnExists := rfl
  obtain ⟨hI, _, htr⟩ := C06.acct_step_instr env henv hinv pid (.tailCall r) trivial
  have ht' : (exec env s pid (.tailCall r)).1.transit = [] := htr.trans ht
  obtain ⟨hok, p', hgp, hsh', hcnt, hm, hres, hsel, haw⟩ := tailcall_agrees hstep hp hsh env.fnExists hfx
  obtain ⟨fi, hent, _⟩ := C16.tailcall_reenters hA hvm hfr hpark hcur hstep
  rw [hexec] at *
  refine ⟨hok, hI, ht', p', fi, hgp, hsh', hent, ?_, ?_, ?_, hm, hres, hsel, haw, hcnt, ?_, ?_, ?_, ?_⟩
  · simp [hsh'.frames]
  · simp [hsh'.locals]
  · simp [hsh'.stack]
  · intro i hi hf
    exact in_use_after_reclaim hI ht' i hi hf
  · exact slotsInUse_after_reclaim_le hI ht'
  · intro i hi hnr hnf
    have hfreed : (processPendingFree (handleTailCall s pid r env.fnExists).1).isFreed i = true := by
      cases hq : (processPendingFree (handleTailCall s pid r env.fnExists).1).isFreed i with
      | true => rfl
      | false =>
        rcases in_use_after_reclaim hI ht' i hi hq with h1 | h1
        · exact absurd h1 hnr
        · exact absurd h1 hnf
    exact ⟨hfreed, (inv_processPendingFree hI).freedFree i hfreed⟩
  · exact pendingFree_processPendingFree hI

/-- **`dropped_binaries_reclaimed`**: a binary that, before a self tail call, is referenced only
from the iteration's locals (everything above the captures) — not from the argument, the captures,
the rest of the stack, the mailbox, another process or the constant cache — is in the reuse pool
after the tail call and the next `process_pending_free`. -/
theorem dropped_binaries_reclaimed {s : State} {pid : Nat} {p : Proc} {arg : Val} {st : List Val}
    {f : Frame} {rest : List Frame} (env : Env) (henv : C06.EnvOk env)
    (hinv : Inv s) (ht : s.transit = [])
    (hp : s.getProc pid = some p) (hs : p.stack = arg :: st) (hf : p.frames = f :: rest)
    (i : Nat) (hi : i < s.heap.size)
    (honly : s.countRefs i = countList i (p.locals.drop (f.localsBase + f.capturesCount)))
    (hnf : i ∉ s.fresh) :
    (processPendingFree (exec env s pid (.tailCall true)).1).isFreed i = true ∧
    i ∈ (processPendingFree (exec env s pid (.tailCall true)).1).free := by
  have hexec : exec env s pid (.tailCall true) = handleTailCall s pid true env.fnExists := rfl
  obtain ⟨hI, hst, htr⟩ := C06.acct_step_instr env henv hinv pid (.tailCall true) trivial
  rw [hexec] at hI hst htr ⊢
  have ht' := htr.trans ht
  have hc := tailcall_self_countRefs env.fnExists hp hs hf i
  have hz : (handleTailCall s pid true env.fnExists).1.countRefs i = 0 := by omega
  have hnr : i ∉ (handleTailCall s pid true env.fnExists).1.reachable := by
    rw [mem_reachable_iff]; omega
  have hi' : i < (handleTailCall s pid true env.fnExists).1.heap.size := Nat.lt_of_lt_of_le hi hst.size
  -- the tail call allocates nothing: `fresh` can only shrink
  have hfreed : (processPendingFree (handleTailCall s pid true env.fnExists).1).isFreed i = true := by
    cases hq : (processPendingFree (handleTailCall s pid true env.fnExists).1).isFreed i with
    | true => rfl
    | false =>
      rcases in_use_after_reclaim hI ht' i hi' hq with h1 | h1
      · exact absurd h1 hnr
      · exact absurd (fresh_tailcall_self_sub s pid env.fnExists i h1) hnf
  exact ⟨hfreed, (inv_processPendingFree hI).freedFree i hfreed⟩

/-! ### the hypotheses are satisfiable: a concrete loop that drops a binary per iteration -/

section Example
open QM.VM (Instr Function Prog Anns inferAnn)

/-- `Store` (bind the argument — a heap binary — to a local), push the next argument, `^`. -/
def exProg : Prog :=
  { constants := #[.int 0],
    functions := #[{ instructions := #[.store, .constant 0, .tailCall true], captures := 0, typeId := 0 }],
    tuples := #[0, 0], types := 1, builtins := 0 }

def exAnns : Array Anns := #[inferAnn exProg 0]

theorem exProg_checked : AllChecked exProg exAnns := by
  intro f hf
  have : f = 0 := by simp [exProg] at hf; omega
  subst this
  decide +kernel

/-- M-Heap: process 0 spawned with a heap binary as argument (slot 0), the argument stored into a
local, the integer 0 pushed: the state just before the tail call. -/
def exHeap : State :=
  let s := (spawnProcess State.init 0 (some 0) [] (.bin (.heap 0)) [[7]] false).1
  let s := (exec {} s 0 .store).1
  (exec {} s 0 (.constant 0 (some (.int 0)))).1

def exHeapProc : Proc :=
  { stack := [.int 0], locals := [.bin (.heap 0)], frames := [⟨0, 0, 0, 2⟩] }

theorem exHeap_proc : exHeap.getProc 0 = some exHeapProc := by rfl

theorem exHeap_inv : Inv exHeap := by
  have e : C06.EnvOk {} := by intro id r hr; cases hr
  have h0 := C06.acct_step_spawnProcess C06.acct_init 0 (some 0) [] (.bin (.heap 0)) [[7]] false rfl
  have h1 := (C06.acct_step_instr {} e h0 0 .store trivial).1
  exact (C06.acct_step_instr {} e h1 0 (.constant 0 (some (.int 0))) trivial).1

theorem exHeap_transit : exHeap.transit = [] := by
  have : exHeap.transit.length = 0 := by decide +kernel
  exact List.eq_nil_of_length_eq_zero this

/-- the same process in M-VM -/
def exVM : QM.VM.Proc :=
  { stack := [.int 0], locals := [.bin (.heap 0)], frames := [⟨0, 0, 0, 2⟩] }

theorem exVM_shadows : Bridge.Shadows exVM exHeapProc := ⟨rfl, rfl, rfl⟩

theorem exVM_inv : QM.VM.Inv exProg exAnns 0 exVM := by
  refine QM.VM.Inv.intro (f := ⟨0, 0, 0, 2⟩) (rest := []) (sb := 0) rfl ?_ ?_ ?_ ?_ rfl ?_ rfl
  · intro v hv; simp [exVM] at hv; subst hv; rfl
  · intro v hv; simp [exVM] at hv; subst hv; rfl
  · intro st h; cases h
  · intro st h; cases h
  · exact .normal exProg.functions[0] ⟨1, 1, .none⟩ (.tailCall true)
      ⟨rfl, fun _ => rfl, by decide +kernel, rfl⟩ (by decide) rfl rfl (by intro st h; cases h) (by simp)

/-- all hypotheses of `tail_loop_heap_bound` hold for it … -/
example :
    (exec {} exHeap 0 (.tailCall true)).2 = .ok ∧ Inv (exec {} exHeap 0 (.tailCall true)).1 ∧
    slotsInUse (processPendingFree (exec {} exHeap 0 (.tailCall true)).1)
      ≤ (exec {} exHeap 0 (.tailCall true)).1.reachable.length + (exec {} exHeap 0 (.tailCall true)).1.fresh.length := by
  have e : C06.EnvOk {} := by intro id r hr; cases hr
  have hstep : QM.VM.handleTailCall exProg exVM true =
      .ok ({ exVM with locals := [], frames := [QM.VM.Frame.new 0 0 0] }, none) := rfl
  obtain ⟨h1, h2, _, _, _, _, _, _, _, _, _, _, _, _, _, _, _, h3, _⟩ :=
    tail_loop_heap_bound exProg exAnns 0 exProg_checked exVM _ none true ⟨0, 0, 0, 2⟩ [] exVM_inv rfl rfl rfl hstep
      {} e (fun _ _ => rfl) exHeap 0 exHeapProc exHeap_inv exHeap_transit exHeap_proc exVM_shadows
  exact ⟨h1, h2, h3⟩

/-- … and it is not vacuous: the binary bound by the iteration (slot 0) is in use before the tail
call, unreachable after it, and back in the reuse pool after the next `process_pending_free`; the
next iteration's allocation reuses it. -/
example : slotsInUse exHeap = 1 ∧ (exec {} exHeap 0 (.tailCall true)).1.reachable = [] ∧
    slotsInUse (processPendingFree (exec {} exHeap 0 (.tailCall true)).1) = 0 ∧
    (processPendingFree (exec {} exHeap 0 (.tailCall true)).1).free = [0] ∧
    (allocate (processPendingFree (exec {} exHeap 0 (.tailCall true)).1) (.owned [9])).1 = some 0 := by
  decide +kernel

end Example

end C16
