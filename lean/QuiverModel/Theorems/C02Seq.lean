import QuiverModel.Theorems.C02Compile
/-
C02, stretch goal, part 2 — **sequences with the nil short-circuit are compiled correctly**, stated on
C07's M-VM itself (`QM.VM.transition … (.run O)`, i.e. units of `Executor::step` with instruction fetch
from the current function, counters and jumps), for the value-flow fragment.

`compileSq` (Core/RefSem/Compile0.lean) mirrors compile_sequence: the steps' code separated by
`Duplicate, Not, JumpIf(off)`, every jump patched to the end of the sequence.

* `sim_step`      — the abstract (pc, stack) effect `astep` of each instruction the fragment emits is what
                    `stepInstr` does to a process (counter / stack; locals, park state, result untouched);
* `compileSq_aruns` — abstract correctness, by induction on the sequence, with the jump arithmetic
                    (`jumpTarget` = counter + offset + 1 below 2^63, offset ≠ isize::MAX);
* `compileSq_correct` — lifted to `transition`: a process whose current function contains the code at
                    `pc`, flowing value on top of the stack, reaches `pc + length` with exactly `evalSq`'s
                    value in place (nil as soon as a step is nil: the remaining steps' code is jumped
                    over), locals untouched;
* `ref_evalSq`, `compileSq_agrees_with_reference` — that value, name-resolved, is what M-RefSem's
                    `evalSeq` computes: compiled execution = reference semantics on sequences of the
                    fragment.
-/
open QM.VM QM.RefSem.C0

namespace C02S

/-! ### An abstract machine on (pc, stack) for the instructions of the fragment, and its simulation by
M-VM's `stepInstr` -/

/-- effect of one instruction at `pc` on `(pc, stack)` — only the instructions the fragment emits -/
def astep (P : Prog) (i : Instr) (pc : Nat) (s : List Val) : Option (Nat × List Val) :=
  match i with
  | .pop => match s with | _ :: r => some (pc + 1, r) | [] => none
  | .constant k => match P.constants[k]? with | some (.int z) => some (pc + 1, .int z :: s) | _ => none
  | .pick n => match s[n]? with | some v => some (pc + 1, v :: s) | none => none
  | .rotate n => if n = 2 then (match s with | a :: b :: r => some (pc + 1, b :: a :: r) | _ => none) else none
  | .tuple id =>
    match P.tuples[id]? with
    | some size => if s.length < size then none
                   else some (pc + 1, .tup id (ValList.ofList (s.take size).reverse) :: s.drop size)
    | none => none
  | .duplicate => match s with | v :: r => some (pc + 1, v :: v :: r) | [] => none
  | .not => match s with | v :: r => some (pc + 1, (if v.isNil then Val.ok else Val.nil) :: r) | [] => none
  | .jumpIf off =>
    match s with
    | c :: r => if !c.isNil then (if off = isizeMax then none else some (jumpTarget pc off, r)) else some (pc + 1, r)
    | [] => none
  | _ => none

/-- a process whose current frame is at `pc` with stack `s` -/
def AtState (p : Proc) (pc : Nat) (s : List Val) : Prop :=
  p.stack = s ∧ ∃ f r, p.frames = f :: r ∧ f.counter = pc

/-- `q` is `p` with the current counter set to `pc'` and the stack replaced by `s'` -/
def Moved (p q : Proc) (pc' : Nat) (s' : List Val) : Prop :=
  q.stack = s' ∧ q.locals = p.locals ∧ q.park = p.park ∧ q.result = p.result ∧
    ∃ f r, p.frames = f :: r ∧ q.frames = { f with counter := pc' } :: r

theorem sim_step (O : Oracle) (P : Prog) (i : Instr) (p : Proc) (pc : Nat) (s : List Val)
    (pc' : Nat) (s' : List Val) (hat : AtState p pc s) (h : astep P i pc s = some (pc', s')) :
    ∃ q, stepInstr O P p i = .ok (q, none) ∧ Moved p q pc' s' := by
  obtain ⟨hs, f, r, hf, hc⟩ := hat
  subst hc
  have bumpF : ∀ (st : List Val), ({ p with stack := st } : Proc).bump.frames =
      { f with counter := f.counter + 1 } :: r := by
    intro st; simp [Proc.bump, hf]
  have bumpS : ∀ (st : List Val), ({ p with stack := st } : Proc).bump.stack = st := by
    intro st; simp [Proc.bump, hf]
  have bumpL : ∀ (st : List Val), ({ p with stack := st } : Proc).bump.locals = p.locals := by
    intro st; simp [Proc.bump, hf]
  have bumpP : ∀ (st : List Val), ({ p with stack := st } : Proc).bump.park = p.park := by
    intro st; simp [Proc.bump, hf]
  have bumpR : ∀ (st : List Val), ({ p with stack := st } : Proc).bump.result = p.result := by
    intro st; simp [Proc.bump, hf]
  cases i with
  | pop =>
    cases s with
    | nil => simp [astep] at h
    | cons v rest =>
      simp only [astep, Option.some.injEq, Prod.mk.injEq] at h
      obtain ⟨rfl, rfl⟩ := h
      refine ⟨({ p with stack := rest } : Proc).bump, by simp [stepInstr, handlePop, hs, QM.VM.ok], bumpS _, bumpL _, bumpP _, bumpR _, f, r, hf, bumpF _⟩
  | constant k =>
    simp only [astep] at h
    split at h
    · rename_i z hz
      simp only [Option.some.injEq, Prod.mk.injEq] at h
      obtain ⟨rfl, rfl⟩ := h
      refine ⟨(p.push (.int z)).bump, by simp [stepInstr, handleConstant, hz, QM.VM.ok], ?_, ?_, ?_, ?_, f, r, hf, ?_⟩
      · simp [Proc.push, Proc.bump, hf, hs]
      · simp [Proc.push, Proc.bump, hf]
      · simp [Proc.push, Proc.bump, hf]
      · simp [Proc.push, Proc.bump, hf]
      · simp [Proc.push, Proc.bump, hf]
    · simp at h
  | pick n =>
    simp only [astep] at h
    split at h
    · rename_i v hv
      simp only [Option.some.injEq, Prod.mk.injEq] at h
      obtain ⟨rfl, rfl⟩ := h
      refine ⟨(p.push v).bump, by simp [stepInstr, handlePick, hs, hv, QM.VM.ok], ?_, ?_, ?_, ?_, f, r, hf, ?_⟩
      · simp [Proc.push, Proc.bump, hf, hs]
      · simp [Proc.push, Proc.bump, hf]
      · simp [Proc.push, Proc.bump, hf]
      · simp [Proc.push, Proc.bump, hf]
      · simp [Proc.push, Proc.bump, hf]
    · simp at h
  | duplicate =>
    cases s with
    | nil => simp [astep] at h
    | cons v rest =>
      simp only [astep, Option.some.injEq, Prod.mk.injEq] at h
      obtain ⟨rfl, rfl⟩ := h
      refine ⟨({ p with stack := v :: v :: rest } : Proc).bump, by simp [stepInstr, handleDuplicate, hs, QM.VM.ok], bumpS _, bumpL _, bumpP _, bumpR _, f, r, hf, bumpF _⟩
  | not =>
    cases s with
    | nil => simp [astep] at h
    | cons v rest =>
      simp only [astep, Option.some.injEq, Prod.mk.injEq] at h
      obtain ⟨rfl, rfl⟩ := h
      refine ⟨({ p with stack := (if v.isNil then Val.ok else Val.nil) :: rest } : Proc).bump, by simp [stepInstr, handleNot, hs, QM.VM.ok], bumpS _, bumpL _, bumpP _, bumpR _, f, r, hf, bumpF _⟩
  | rotate n =>
    simp only [astep] at h
    split at h
    · rename_i hn
      subst hn
      cases s with
      | nil => simp at h
      | cons a s1 =>
        cases s1 with
        | nil => simp at h
        | cons b rest =>
          simp only [Option.some.injEq, Prod.mk.injEq] at h
          obtain ⟨rfl, rfl⟩ := h
          refine ⟨({ p with stack := b :: a :: rest } : Proc).bump, by simp [stepInstr, handleRotate, hs, QM.VM.ok], bumpS _, bumpL _, bumpP _, bumpR _, f, r, hf, bumpF _⟩
    · simp at h
  | tuple id =>
    simp only [astep] at h
    split at h
    · rename_i size hsz
      split at h
      · simp at h
      · rename_i hlen
        simp only [Option.some.injEq, Prod.mk.injEq] at h
        obtain ⟨rfl, rfl⟩ := h
        refine ⟨({ p with stack := .tup id (ValList.ofList (s.take size).reverse) :: s.drop size } : Proc).bump,
          by simp [stepInstr, handleTuple, hsz, hs, hlen, QM.VM.ok], bumpS _, bumpL _, bumpP _, bumpR _, f, r, hf, bumpF _⟩
    · simp at h
  | jumpIf off =>
    cases s with
    | nil => simp [astep] at h
    | cons c rest =>
      simp only [astep] at h
      by_cases hc : c.isNil = true
      · simp only [hc, Bool.not_true, Bool.false_eq_true, if_false, Option.some.injEq, Prod.mk.injEq] at h
        obtain ⟨rfl, rfl⟩ := h
        refine ⟨({ p with stack := rest } : Proc).bump, by simp [stepInstr, handleJumpIf, hs, hc, QM.VM.ok], bumpS _, bumpL _, bumpP _, bumpR _, f, r, hf, bumpF _⟩
      · have hc' : c.isNil = false := by simpa using hc
        simp only [hc', Bool.not_false, if_true] at h
        split at h
        · simp at h
        · rename_i hoff
          simp only [Option.some.injEq, Prod.mk.injEq] at h
          obtain ⟨rfl, rfl⟩ := h
          refine ⟨({ p with stack := rest } : Proc).setCounter (jumpTarget f.counter off), ?_, ?_, ?_, ?_, ?_, f, r, hf, ?_⟩
          · simp [stepInstr, handleJumpIf, hs, hc', hoff, hf, QM.VM.ok]
          · simp [Proc.setCounter, hf]
          · simp [Proc.setCounter, hf]
          · simp [Proc.setCounter, hf]
          · simp [Proc.setCounter, hf]
          · simp [Proc.setCounter, hf]
  | reset _ => simp [astep] at h
  | load _ => simp [astep] at h
  | store => simp [astep] at h
  | get _ => simp [astep] at h
  | isType _ => simp [astep] at h
  | jump _ => simp [astep] at h
  | call => simp [astep] at h
  | tailCall _ => simp [astep] at h
  | function _ => simp [astep] at h
  | builtin _ => simp [astep] at h
  | equal _ => simp [astep] at h
  | spawn => simp [astep] at h
  | send => simp [astep] at h
  | self_ => simp [astep] at h
  | select => simp [astep] at h
  | process _ _ => simp [astep] at h


/-! ### Abstract runs over a code array -/

/-- the instruction list `is` sits in `code` at position `pc` -/
def Located (code : Array Instr) (pc : Nat) (is : List Instr) : Prop :=
  ∀ k, k < is.length → code[pc + k]? = is[k]?

theorem Located.left {code : Array Instr} {pc : Nat} {a b : List Instr} (h : Located code pc (a ++ b)) :
    Located code pc a := by
  intro k hk
  have := h k (by simp; omega)
  rw [this, List.getElem?_append_left hk]

theorem Located.right {code : Array Instr} {pc : Nat} {a b : List Instr} (h : Located code pc (a ++ b)) :
    Located code (pc + a.length) b := by
  intro k hk
  have := h (a.length + k) (by simp; omega)
  rw [Nat.add_assoc, this, List.getElem?_append_right (by omega)]
  simp

theorem Located.head {code : Array Instr} {pc : Nat} {i : Instr} {r : List Instr}
    (h : Located code pc (i :: r)) : code[pc]? = some i := by
  have := h 0 (by simp)
  simpa using this

inductive ARuns (P : Prog) (code : Array Instr) : Nat × List Val → Nat × List Val → Prop where
  | refl (x : Nat × List Val) : ARuns P code x x
  | step {pc : Nat} {s : List Val} {x y : Nat × List Val} (i : Instr) (hi : code[pc]? = some i)
      (h : astep P i pc s = some x) (r : ARuns P code x y) : ARuns P code (pc, s) y

theorem ARuns.trans {P : Prog} {code : Array Instr} {x y z : Nat × List Val}
    (h₁ : ARuns P code x y) (h₂ : ARuns P code y z) : ARuns P code x z := by
  induction h₁ with
  | refl => exact h₂
  | step i hi h _ ih => exact .step i hi h (ih h₂)

theorem ARuns.one {P : Prog} {code : Array Instr} {pc : Nat} {s : List Val} {x : Nat × List Val}
    (i : Instr) (hi : code[pc]? = some i) (h : astep P i pc s = some x) : ARuns P code (pc, s) x :=
  .step i hi h (.refl _)


theorem getElem?_append_reverse' (acc : List Val) (flow : Val) (rest : List Val) :
    (acc.reverse ++ flow :: rest)[acc.length]? = some flow := by
  have : acc.length = acc.reverse.length := by simp
  rw [this, List.getElem?_append_right (Nat.le_refl _)]
  simp

section AInstr
variable {P : Prog} {code : Array Instr} {pc : Nat}

theorem a_pop {v : Val} {s : List Val} (hi : code[pc]? = some .pop) :
    ARuns P code (pc, v :: s) (pc + 1, s) := .one .pop hi (by simp [astep])

theorem a_const {i : Nat} {z : Int} {s : List Val} (hi : code[pc]? = some (.constant i))
    (hc : P.constants[i]? = some (.int z)) : ARuns P code (pc, s) (pc + 1, .int z :: s) :=
  .one (.constant i) hi (by simp [astep, hc])

theorem a_pick {n : Nat} {v : Val} {s : List Val} (hi : code[pc]? = some (.pick n))
    (hv : s[n]? = some v) : ARuns P code (pc, s) (pc + 1, v :: s) :=
  .one (.pick n) hi (by simp [astep, hv])

theorem a_rot2 {a b : Val} {s : List Val} (hi : code[pc]? = some (.rotate 2)) :
    ARuns P code (pc, a :: b :: s) (pc + 1, b :: a :: s) := .one (.rotate 2) hi (by simp [astep])

theorem a_tuple {id : Nat} {vs rest : List Val} (hi : code[pc]? = some (.tuple id))
    (hid : P.tuples[id]? = some vs.length) :
    ARuns P code (pc, vs.reverse ++ rest) (pc + 1, .tup id (ValList.ofList vs) :: rest) := by
  refine .one (.tuple id) hi ?_
  have hlen : ¬ (vs.reverse ++ rest).length < vs.length := by simp
  have htake : ((vs.reverse ++ rest).take vs.length).reverse = vs := by
    have : vs.length = vs.reverse.length := by simp
    rw [this, List.take_left']
    · simp
    · rfl
  have hdrop : (vs.reverse ++ rest).drop vs.length = rest := by
    have : vs.length = vs.reverse.length := by simp
    rw [this, List.drop_left']
    rfl
  simp only [astep, hid, hlen, if_false, htake, hdrop]

theorem a_dup {v : Val} {s : List Val} (hi : code[pc]? = some .duplicate) :
    ARuns P code (pc, v :: s) (pc + 1, v :: v :: s) := .one .duplicate hi (by simp [astep])

theorem a_not {v : Val} {s : List Val} (hi : code[pc]? = some .not) :
    ARuns P code (pc, v :: s) (pc + 1, (if v.isNil then Val.ok else Val.nil) :: s) :=
  .one .not hi (by simp [astep])

end AInstr

theorem Located.at {code : Array Instr} {pc : Nat} {is : List Instr} (h : Located code pc is)
    (k : Nat) (i : Instr) (hk : is[k]? = some i) : code[pc + k]? = some i := by
  have hlt : k < is.length := by
    rcases Nat.lt_or_ge k is.length with h' | h'
    · exact h'
    · rw [List.getElem?_eq_none h'] at hk; cases hk
  rw [h k hlt, hk]

mutual
  theorem compileT_aruns (P : Prog) (code : Array Instr) :
      (t : T0) → (pc : Nat) → (flow : Val) → (rest : List Val) →
      Located code pc (compileT t) → wfT P t →
      ARuns P code (pc, flow :: rest) (pc + (compileT t).length, evalT flow t :: rest)
    | .int z i, pc, flow, rest, hl, hw => by
      simp only [compileT, evalT] at hl ⊢
      have h0 : code[pc]? = some .pop := by simpa using hl.at 0 .pop rfl
      have h1 : code[pc + 1]? = some (.constant i) := hl.at 1 (.constant i) rfl
      exact (a_pop h0).trans (a_const h1 hw)
    | .ripple, pc, flow, rest, _, _ => by
      simp only [compileT, evalT, List.length_nil, Nat.add_zero]
      exact .refl _
    | .tup id fs, pc, flow, rest, hl, hw => by
      simp only [compileT, evalT] at hl ⊢
      obtain ⟨hid, hwf⟩ := hw
      have hfs := compileFs_aruns P code fs pc flow rest [] hl.left hwf
      simp only [List.length_nil, List.reverse_nil, List.nil_append] at hfs
      refine hfs.trans ?_
      have hr := hl.right
      have h0 : code[pc + (compileFs fs 0).length]? = some (.tuple id) := by
        simpa using hr.at 0 (.tuple id) rfl
      have h1 : code[pc + (compileFs fs 0).length + 1]? = some (.rotate 2) := hr.at 1 (.rotate 2) rfl
      have h2 : code[pc + (compileFs fs 0).length + 1 + 1]? = some .pop := by
        have := hr.at 2 .pop rfl
        simpa [Nat.add_assoc] using this
      have hid' : P.tuples[id]? = some (evalFs flow fs).length := by rw [evalFs_length]; exact hid
      have e : pc + (compileFs fs 0 ++ [Instr.tuple id, Instr.rotate 2, Instr.pop]).length =
          pc + (compileFs fs 0).length + 1 + 1 + 1 := by simp; omega
      rw [e]
      exact ((a_tuple h0 hid').trans (a_rot2 h1)).trans (a_pop h2)
  theorem compileCh_aruns (P : Prog) (code : Array Instr) :
      (c : Ch0) → (pc : Nat) → (flow : Val) → (rest : List Val) →
      Located code pc (compileCh c) → wfCh P c →
      ARuns P code (pc, flow :: rest) (pc + (compileCh c).length, evalCh flow c :: rest)
    | .nil, pc, flow, rest, _, _ => by
      simp only [compileCh, evalCh, List.length_nil, Nat.add_zero]
      exact .refl _
    | .cons t r, pc, flow, rest, hl, hw => by
      simp only [compileCh, evalCh] at hl ⊢
      obtain ⟨hwt, hwr⟩ := hw
      refine (compileT_aruns P code t pc flow rest hl.left hwt).trans ?_
      have := compileCh_aruns P code r (pc + (compileT t).length) (evalT flow t) rest hl.right hwr
      simpa [Nat.add_assoc] using this
  theorem compileFs_aruns (P : Prog) (code : Array Instr) :
      (fs : Fs0) → (pc : Nat) → (flow : Val) → (rest : List Val) → (acc : List Val) →
      Located code pc (compileFs fs acc.length) → wfFs P fs →
      ARuns P code (pc, acc.reverse ++ flow :: rest)
        (pc + (compileFs fs acc.length).length, (acc ++ evalFs flow fs).reverse ++ flow :: rest)
    | .nil, pc, flow, rest, acc, _, _ => by
      simp only [compileFs, evalFs, List.append_nil, List.length_nil, Nat.add_zero]
      exact .refl _
    | .cons c r, pc, flow, rest, acc, hl, hw => by
      simp only [compileFs, evalFs] at hl ⊢
      obtain ⟨hwc, hwr⟩ := hw
      rw [List.append_assoc] at hl
      have h0 : code[pc]? = some (.pick acc.length) := by simpa using hl.at 0 (.pick acc.length) rfl
      have hpick : (acc.reverse ++ flow :: rest)[acc.length]? = some flow := getElem?_append_reverse' acc flow rest
      refine (a_pick h0 hpick).trans ?_
      have hl2 := hl.right
      simp only [List.length_cons, List.length_nil, Nat.zero_add] at hl2
      refine (compileCh_aruns P code c (pc + 1) flow (acc.reverse ++ flow :: rest) hl2.left hwc).trans ?_
      have := compileFs_aruns P code r (pc + 1 + (compileCh c).length) flow rest (acc ++ [evalCh flow c])
        (by simpa using hl2.right) hwr
      have e : pc + ([Instr.pick acc.length] ++ compileCh c ++ compileFs r (acc.length + 1)).length =
          pc + 1 + (compileCh c).length + (compileFs r (acc ++ [evalCh flow c]).length).length := by
        simp; omega
      rw [e]
      simpa using this
end


theorem a_jumpIf_taken {P : Prog} {code : Array Instr} {pc : Nat} {off : Int} {c : Val} {s : List Val}
    (hi : code[pc]? = some (.jumpIf off)) (hc : c.isNil = false) (ho : off ≠ isizeMax) :
    ARuns P code (pc, c :: s) (jumpTarget pc off, s) :=
  .one (.jumpIf off) hi (by simp [astep, hc, ho])

theorem a_jumpIf_fall {P : Prog} {code : Array Instr} {pc : Nat} {off : Int} {c : Val} {s : List Val}
    (hi : code[pc]? = some (.jumpIf off)) (hc : c.isNil = true) :
    ARuns P code (pc, c :: s) (pc + 1, s) :=
  .one (.jumpIf off) hi (by simp [astep, hc])

theorem jumpTarget_small (pc n : Nat) (h : pc + n + 1 < 2 ^ 63) :
    jumpTarget pc (n : Int) = pc + n + 1 := by
  unfold jumpTarget
  have e64 : (2 : Int) ^ 64 = 18446744073709551616 := by decide
  have e63 : (2 : Nat) ^ 63 = 9223372036854775808 := by decide
  rw [e63] at h
  rw [e64]
  have : ((pc : Int) + (n : Int) + 1) % 18446744073709551616 = (pc : Int) + n + 1 := by
    apply Int.emod_eq_of_lt <;> omega
  rw [this]
  omega

theorem compileSq_aruns (P : Prog) (code : Array Instr) :
    (sq : Sq0) → (pc : Nat) → (flow : Val) → (rest : List Val) →
    Located code pc (compileSq sq) → wfSq P sq → pc + (compileSq sq).length < 2 ^ 63 - 1 →
    ARuns P code (pc, flow :: rest) (pc + (compileSq sq).length, evalSq flow sq :: rest)
  | .last c, pc, flow, rest, hl, hw, _ => by
    simp only [compileSq, evalSq] at hl ⊢
    exact compileCh_aruns P code c pc flow rest hl hw
  | .cons c r, pc, flow, rest, hl, hw, hsz => by
    simp only [compileSq, evalSq] at hl hsz ⊢
    obtain ⟨hwc, hwr⟩ := hw
    rw [List.append_assoc] at hl
    refine (compileCh_aruns P code c pc flow rest hl.left hwc).trans ?_
    have hl2 := hl.right
    -- hl2 : Located code (pc + lc) ([dup, not, jumpIf n] ++ compileSq r)
    have hd : code[pc + (compileCh c).length]? = some .duplicate := by
      simpa using hl2.at 0 .duplicate rfl
    have hn : code[pc + (compileCh c).length + 1]? = some .not := hl2.at 1 .not rfl
    have hj : code[pc + (compileCh c).length + 1 + 1]? = some (.jumpIf ((compileSq r).length : Int)) := by
      have := hl2.at 2 (.jumpIf ((compileSq r).length : Int)) rfl
      simpa [Nat.add_assoc] using this
    refine ((a_dup hd).trans (a_not hn)).trans ?_
    simp only [List.length_append, List.length_cons, List.length_nil] at hsz
    have e63 : (2 : Nat) ^ 63 = 9223372036854775808 := by decide
    rw [e63] at hsz
    have etot : pc + (compileCh c ++ [Instr.duplicate, Instr.not, Instr.jumpIf ((compileSq r).length : Int)] ++ compileSq r).length
        = pc + (compileCh c).length + 1 + 1 + (compileSq r).length + 1 := by simp; omega
    rw [etot]
    by_cases hv : (evalCh flow c).isNil = true
    · -- short-circuit: the verdict `Ok` is non-nil, the jump is taken, nil stays on the stack
      simp only [hv, if_true]
      have hok : Val.ok.isNil = false := rfl
      have ho : ((compileSq r).length : Int) ≠ isizeMax := by
        unfold isizeMax
        have e : (2 : Int) ^ 63 = 9223372036854775808 := by decide
        rw [e]
        omega
      have := a_jumpIf_taken (P := P) (s := evalCh flow c :: rest) hj hok ho
      rw [jumpTarget_small _ _ (by rw [e63]; omega)] at this
      exact this
    · -- the step's value is not nil: fall through into the next step, which starts from it
      have hv' : (evalCh flow c).isNil = false := by simpa using hv
      simp only [hv', Bool.false_eq_true, if_false]
      have hnil : Val.nil.isNil = true := rfl
      refine (a_jumpIf_fall (P := P) (s := evalCh flow c :: rest) hj hnil).trans ?_
      have hl3 : Located code (pc + (compileCh c).length + 1 + 1 + 1) (compileSq r) := by
        have := hl2.right
        simpa [Nat.add_assoc] using this
      have := compileSq_aruns P code r (pc + (compileCh c).length + 1 + 1 + 1) (evalCh flow c) rest hl3 hwr (by rw [e63]; omega)
      have e2 : pc + (compileCh c).length + 1 + 1 + 1 + (compileSq r).length =
          pc + (compileCh c).length + 1 + 1 + (compileSq r).length + 1 := by omega
      rw [e2] at this
      exact this


/-! ### Lifting to M-VM: the process itself, stepped by C07's `transition … (.run O)` -/

/-- iterated units of `Executor::step` on one process, none of which yields an action -/
inductive TRuns (O : Oracle) (P : Prog) : Proc → Proc → Prop where
  | refl (p : Proc) : TRuns O P p p
  | step {p q z : Proc} (h : transition P p (.run O) = some (.ok (q, none))) (r : TRuns O P q z) :
      TRuns O P p z

/-- the process runs frame `f` (above the frames `r`) at `pc` with stack `s`, is not parked and has
no result yet -/
def Inv (p : Proc) (f : Frame) (r : List Frame) (pc : Nat) (s : List Val) : Prop :=
  p.stack = s ∧ p.frames = { f with counter := pc } :: r ∧ p.park = .none ∧ p.result = none

theorem lift (O : Oracle) (P : Prog) (fn : Function) (f : Frame) (r : List Frame)
    (hfn : P.functions[f.functionIndex]? = some fn) {x y : Nat × List Val}
    (h : ARuns P fn.instructions x y) :
    ∀ p : Proc, Inv p f r x.1 x.2 → ∃ q, TRuns O P p q ∧ Inv q f r y.1 y.2 ∧ q.locals = p.locals := by
  induction h with
  | refl x => exact fun p hp => ⟨p, .refl p, hp, rfl⟩
  | @step pc s x y i hi hstep _ ih =>
    intro p hp
    obtain ⟨hs, hf, hpark, hres⟩ := hp
    have hat : AtState p pc s := ⟨hs, _, _, hf, rfl⟩
    obtain ⟨q, hq, hqs, hql, hqp, hqr, f', r', hf', hqf⟩ :=
      sim_step O P i p pc s x.1 x.2 hat (by simpa using hstep)
    rw [hf] at hf'
    obtain ⟨rfl, rfl⟩ := List.cons.inj hf'
    have htr : transition P p (.run O) = some (.ok (q, none)) := by
      simp only [transition, hpark, hres, hf]
      simp [hfn, hi, hq]
    have hinv : Inv q f r x.1 x.2 := ⟨hqs, by simpa using hqf, by rw [hqp, hpark], by rw [hqr, hres]⟩
    obtain ⟨z, hz, hzi, hzl⟩ := ih q hinv
    exact ⟨z, .step htr hz, hzi, by rw [hzl, hql]⟩

/-- **Sequences of the fragment are compiled correctly** (with the `Duplicate, Not, JumpIf`
short-circuit): a process of M-VM whose current function contains the code of `c₁, c₂, …` at `pc`,
with the flowing value on top of its stack, reaches the end of that code by `Executor::step` units
alone, with exactly the sequence's value (nil as soon as a step is nil — the later steps' code is
jumped over) in place of the flowing value; no local is touched, nothing else on the stack. -/
theorem compileSq_correct (O : Oracle) (P : Prog) (fn : Function) (f : Frame) (r : List Frame)
    (hfn : P.functions[f.functionIndex]? = some fn) (sq : Sq0) (pc : Nat) (flow : Val) (rest : List Val)
    (hl : Located fn.instructions pc (compileSq sq)) (hw : wfSq P sq)
    (hsz : pc + (compileSq sq).length < 2 ^ 63 - 1) (p : Proc) (hp : Inv p f r pc (flow :: rest)) :
    ∃ q, TRuns O P p q ∧ Inv q f r (pc + (compileSq sq).length) (evalSq flow sq :: rest) ∧
      q.locals = p.locals :=
  lift O P fn f r hfn (compileSq_aruns P fn.instructions sq pc flow rest hl hw hsz) p hp


end C02S

namespace C02S
open C02.Bridge

def toRefSq (nm : Nat → Option String) : Sq0 → List QM.RefSem.Chain
  | .last c => [.mk none (toRefCh nm c)]
  | .cons c r => .mk none (toRefCh nm c) :: toRefSq nm r

/-- a value is nil for the VM (tuple id 0, no fields) exactly when its name-resolved form is nil for
the reference semantics (unnamed, no fields) -/
def NilOk (nm : Nat → Option String) (v : QM.VM.Val) : Prop := (erase nm v).isNil = v.isNil

mutual
  /-- tuple ids are canonical as far as nil is concerned: a field-less tuple literal is unnamed iff
  its id is 0 (`types::NIL`) -/
  def nilT (nm : Nat → Option String) : T0 → Prop
    | .int _ _ => True
    | .ripple => True
    | .tup id fs => (fs = .nil → (nm id = none ↔ id = 0)) ∧ (id = 0 → fs = .nil) ∧ nilFs nm fs
  def nilCh (nm : Nat → Option String) : Ch0 → Prop
    | .nil => True
    | .cons t r => nilT nm t ∧ nilCh nm r
  def nilFs (nm : Nat → Option String) : Fs0 → Prop
    | .nil => True
    | .cons c r => nilCh nm c ∧ nilFs nm r
end

def nilSq (nm : Nat → Option String) : Sq0 → Prop
  | .last c => nilCh nm c
  | .cons c r => nilCh nm c ∧ nilSq nm r

theorem nilOk_evalT (nm : Nat → Option String) (flow : QM.VM.Val) (hf : NilOk nm flow) :
    (t : T0) → nilT nm t → NilOk nm (evalT flow t)
  | .int z i, _ => by simp [NilOk, evalT, erase, QM.RefSem.Val.isNil, QM.VM.Val.isNil]
  | .ripple, _ => by simpa [evalT] using hf
  | .tup id fs, h => by
    obtain ⟨h1, h2, _⟩ := h
    cases fs with
    | nil =>
      have := h1 rfl
      simp only [NilOk, evalT, evalFs, erase, QM.VM.ValList.ofList, eraseL]
      by_cases hid : id = 0
      · subst hid
        have : nm 0 = none := this.mpr rfl
        simp [QM.RefSem.Val.isNil, QM.VM.Val.isNil, this]
      · have hne : nm id ≠ none := fun hn => hid (this.mp hn)
        cases hn : nm id with
        | none => exact absurd hn hne
        | some s =>
          simp only [QM.RefSem.Val.isNil]
          cases id with
          | zero => exact absurd rfl hid
          | succ k => simp [QM.VM.Val.isNil]
    | cons c r =>
      have hid : id ≠ 0 := fun h0 => by have := h2 h0; cases this
      simp only [NilOk, evalT, evalFs, erase, QM.VM.ValList.ofList, eraseL]
      cases id with
      | zero => exact absurd rfl hid
      | succ k =>
        cases hn : nm (k + 1) <;> simp [QM.RefSem.Val.isNil, QM.VM.Val.isNil]

theorem nilOk_evalCh (nm : Nat → Option String) :
    (c : Ch0) → (flow : QM.VM.Val) → NilOk nm flow → nilCh nm c → NilOk nm (evalCh flow c)
  | .nil, flow, hf, _ => by simpa [evalCh] using hf
  | .cons t r, flow, hf, h => by
    simp only [evalCh]
    exact nilOk_evalCh nm r (evalT flow t) (nilOk_evalT nm flow hf t h.1) h.2

/-- the reference evaluator on a sequence of the fragment computes `evalSq` (name-resolved) -/
theorem ref_evalSq (nm : Nat → Option String) (env : QM.RefSem.Env) :
    (sq : Sq0) → (flow : QM.VM.Val) → NilOk nm flow → nilSq nm sq → ∃ N, ∀ fuel, N ≤ fuel →
      QM.RefSem.evalSeq fuel env (erase nm flow) (toRefSq nm sq) = .ok (erase nm (evalSq flow sq), env)
  | .last c, flow, _, _ => by
    obtain ⟨N, hN⟩ := ref_evalCh nm env c flow
    refine ⟨N + 2, fun fuel h => ?_⟩
    obtain ⟨k, rfl⟩ : ∃ k, fuel = k + 2 := ⟨fuel - 2, by omega⟩
    simp only [toRefSq, evalSq, QM.RefSem.evalSeq, QM.RefSem.evalChain]
    rw [hN k (by omega)]
    simp [QM.RefSem.Res.bind]
  | .cons c r, flow, hf, h => by
    obtain ⟨N₁, h₁⟩ := ref_evalCh nm env c flow
    have hv := nilOk_evalCh nm c flow hf h.1
    obtain ⟨N₂, h₂⟩ := ref_evalSq nm env r (evalCh flow c) hv h.2
    refine ⟨max N₁ N₂ + 2, fun fuel hfu => ?_⟩
    obtain ⟨k, rfl⟩ : ∃ k, fuel = k + 2 := ⟨fuel - 2, by omega⟩
    have hne : toRefSq nm r ≠ [] := by cases r <;> simp [toRefSq]
    simp only [toRefSq, evalSq, QM.RefSem.evalSeq, QM.RefSem.evalChain]
    rw [h₁ k (by omega)]
    simp only [QM.RefSem.Res.bind]
    cases hr : toRefSq nm r with
    | nil => exact absurd hr hne
    | cons c' cs' =>
      simp only
      unfold NilOk at hv
      rw [hv]
      by_cases hnil : (evalCh flow c).isNil = true
      · simp only [hnil, if_true]
        -- both sides are nil: the VM value is `tup 0 nil`, its erasure `tup none []`
        have : erase nm (evalCh flow c) = QM.RefSem.Val.nil := by
          have h1 : (erase nm (evalCh flow c)).isNil = true := by rw [hv]; exact hnil
          revert h1
          cases erase nm (evalCh flow c) with
          | tup n fs =>
            cases n with
            | none => cases fs with
              | nil => intro _; rfl
              | cons a b => simp [QM.RefSem.Val.isNil]
            | some s => simp [QM.RefSem.Val.isNil]
          | int z => simp [QM.RefSem.Val.isNil]
          | bin b => simp [QM.RefSem.Val.isNil]
          | clo a b c => simp [QM.RefSem.Val.isNil]
          | builtin n => simp [QM.RefSem.Val.isNil]
        rw [this]
      · have hnil' : (evalCh flow c).isNil = false := by simpa using hnil
        simp only [hnil', Bool.false_eq_true, if_false]
        rw [← hr]
        exact h₂ (k + 1) (by omega)


/-- **Compiled execution = reference semantics on sequences of the fragment.** -/
theorem compileSq_agrees_with_reference (O : Oracle) (P : Prog) (nm : Nat → Option String)
    (env : QM.RefSem.Env) (fn : Function) (f : Frame) (r : List Frame)
    (hfn : P.functions[f.functionIndex]? = some fn) (sq : Sq0) (pc : Nat) (flow : QM.VM.Val)
    (rest : List QM.VM.Val) (hl : Located fn.instructions pc (compileSq sq)) (hw : wfSq P sq)
    (hsz : pc + (compileSq sq).length < 2 ^ 63 - 1) (p : Proc) (hp : Inv p f r pc (flow :: rest))
    (hflow : NilOk nm flow) (hnil : nilSq nm sq) :
    ∃ q v N, TRuns O P p q ∧ Inv q f r (pc + (compileSq sq).length) (v :: rest) ∧ q.locals = p.locals ∧
      ∀ fuel, N ≤ fuel →
        QM.RefSem.evalSeq fuel env (erase nm flow) (toRefSq nm sq) = .ok (erase nm v, env) := by
  obtain ⟨q, hq, hinv, hloc⟩ := compileSq_correct O P fn f r hfn sq pc flow rest hl hw hsz p hp
  obtain ⟨N, hN⟩ := ref_evalSq nm env sq flow hflow hnil
  exact ⟨q, evalSq flow sq, N, hq, hinv, hloc, hN⟩

end C02S
