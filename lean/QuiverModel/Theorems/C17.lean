import QuiverModel.Core.Text.Doc
/-
C17 — Formatting is a fixpoint and preserves the program and its comments.
Property theorems about M-Text (the layout engine of `pretty.rs` and the string re-escaping of
`format.rs` / `parser.rs`). Every theorem is `C17.<name>`.

What these theorems do NOT cover: the parser and the AST→Doc builder of `format.rs`. The four
statements of the property about the whole pipeline are decided by the implementation oracle in
`harness/src/bin/c17` (exploration, not proof) — see `notes/C17.md`.
-/
namespace C17
open QM.Text

/-! ## Totality of the layout engine

`printLoop`, `fitsLoop`, `flattenLoop`, `flatWidthLoop` are defined by well-founded recursion on the
size of the pending work (no fuel): Lean's termination checker has accepted the measure
`Σ size(stack) + Σ (size(suffix) + 1)` for the `print` loop — including the two places where frames
move *back* onto the stack (line-suffix flush before a newline and at end of input). The theorems
below make the bound explicit. -/

theorem printLoop_pieces_le (w col : Nat) (st suf : List Frame) :
    (printLoop w col st suf).length ≤ framesSize st + sufSize suf := by
  fun_induction printLoop w col st suf <;>
    simp_all [framesSize, sufSize, Doc.size, framesSize_append, framesSize_map, sufSize_eq] <;> omega

/-- `print` is total: for every document and every width it yields a string, and the number of
    pieces (`Text` atoms, spaces, newlines) appended to the output is at most the size of the
    document — nothing is emitted twice by the suffix-flush re-push of a line break. -/
theorem print_total (d : Doc) (w : Nat) :
    (∃ out : List Char, print d w = out) ∧ (printPieces d w).length ≤ d.size := by
  refine ⟨⟨_, rfl⟩, ?_⟩
  have := printLoop_pieces_le w 0 [⟨0, .brk, d⟩] []
  simpa [printPieces, framesSize, sufSize] using this

example : print (.mkGroup (.concat [.text ['a'], .line, .lineSuffix (.text ['/', '/']), .text ['b']])) 80
    = ['a', ' ', 'b', '/', '/'] := by
  simp [print, printPieces, Doc.mkGroup, forcesBreak, forcesBreakAny, printLoop, fits, fitsLoop, popFrame,
    mkFrames, toIsize, renderPieces, Piece.render, stripTrailingWhitespace, rustLines, rustLinesAux,
    trimEnd, isWhitespace, joinNl]

/-- The flag computed by `pretty::group` is the one `forces_break` reports for the group. -/
theorem forcesBreak_mkGroup (d : Doc) : forcesBreak (Doc.mkGroup d) = forcesBreak d := by
  simp [Doc.mkGroup, forcesBreak]

end C17
