import QuiverModel.Core.Text.Doc
import QuiverModel.Lemmas.Text.Escape
/-
C17 — Formatting is a fixpoint and preserves the program and its comments.
Property theorems about M-Text (the layout engine of `pretty.rs` and the string re-escaping of
`format.rs` / `parser.rs`). Every theorem is `C17.<name>`.

What these theorems do NOT cover: the parser and the AST→Doc builder of `format.rs`. The four
statements of the property about the whole pipeline are decided by the implementation oracle in
`harness/src/bin/c17` (exploration, not proof) — see `notes/C17.md`.
-/
namespace C17
open QM.Text

/-! ## Totality of the layout engine

`printLoop`, `fitsLoop`, `flattenLoop`, `flatWidthLoop` are defined by well-founded recursion on the
size of the pending work (no fuel): Lean's termination checker has accepted the measure
`Σ size(stack) + Σ (size(suffix) + 1)` for the `print` loop — including the two places where frames
move *back* onto the stack (line-suffix flush before a newline and at end of input). The theorems
below make the bound explicit. -/

theorem printLoop_pieces_le (w col : Nat) (st suf : List Frame) :
    (printLoop w col st suf).length ≤ framesSize st + sufSize suf := by
  fun_induction printLoop w col st suf <;>
    simp_all [framesSize, sufSize, Doc.size, framesSize_append, framesSize_map, sufSize_eq] <;> omega

/-- `print` is total: for every document and every width it yields a string, and the number of
    pieces (`Text` atoms, spaces, newlines) appended to the output is at most the size of the
    document — nothing is emitted twice by the suffix-flush re-push of a line break. -/
theorem print_total (d : Doc) (w : Nat) :
    (∃ out : List Char, print d w = out) ∧ (printPieces d w).length ≤ d.size := by
  refine ⟨⟨_, rfl⟩, ?_⟩
  have := printLoop_pieces_le w 0 [⟨0, .brk, d⟩] []
  simpa [printPieces, framesSize, sufSize] using this

example : print (.mkGroup (.concat [.text ['a'], .line, .lineSuffix (.text ['/', '/']), .text ['b']])) 80
    = ['a', ' ', 'b', '/', '/'] := by
  simp [print, printPieces, Doc.mkGroup, forcesBreak, forcesBreakAny, printLoop, fits, fitsLoop, popFrame,
    mkFrames, toIsize, renderPieces, Piece.render, stripTrailingWhitespace, rustLines, rustLinesAux,
    trimEnd, isWhitespace, joinNl]

/-- The flag computed by `pretty::group` is the one `forces_break` reports for the group. -/
theorem forcesBreak_mkGroup (d : Doc) : forcesBreak (Doc.mkGroup d) = forcesBreak d := by
  simp [Doc.mkGroup, forcesBreak]

/-! ## String re-escaping round trips

`format.rs` re-renders every string literal from its decoded value; these theorems say that the
parser reads the rendering back to exactly that value — for every value, no hypotheses. -/

/-- **escape_single_roundtrip** (term position, `string_segments`): the escaped text followed by the
    closing quote scans as one text segment equal to the value — in particular an escaped `{` never
    opens a hole and an escaped quote never ends the literal. -/
theorem escape_single_roundtrip (s rest : List Char) :
    stringSegments (escapeSingle s ++ '"' :: rest) = .closed s rest := by
  induction s with
  | nil => simp [escapeSingle, stringSegments_cons]
  | cons c s ih =>
    simp only [escapeSingle]
    by_cases h1 : c = '\\'
    · subst h1; simp [stringSegments_cons, singleEscape, ih, SegResult.push]
    by_cases h2 : c = '"'
    · subst h2; simp [stringSegments_cons, singleEscape, ih, SegResult.push]
    by_cases h3 : c = '{'
    · subst h3; simp [stringSegments_cons, singleEscape, ih, SegResult.push]
    by_cases h4 : c = '\n'
    · subst h4; simp [stringSegments_cons, singleEscape, ih, SegResult.push]
    by_cases h5 : c = '\r'
    · subst h5; simp [stringSegments_cons, singleEscape, ih, SegResult.push]
    by_cases h6 : c = '\t'
    · subst h6; simp [stringSegments_cons, singleEscape, ih, SegResult.push]
    simp [h1, h2, h3, h4, h5, h6, stringSegments_cons, ih, SegResult.push]

theorem decodeSingleAux_escape (o : Nat) (s : List Char) :
    decodeSingleAux o (escapeSingle s) = .ok s := by
  induction s generalizing o with
  | nil => simp [escapeSingle, decodeSingleAux]
  | cons c s ih =>
    simp only [escapeSingle]
    by_cases h1 : c = '\\'
    · subst h1; simp [decodeSingleAux_cons, singleEscape, ih, Except.map]
    by_cases h2 : c = '"'
    · subst h2; simp [decodeSingleAux_cons, singleEscape, ih, Except.map]
    by_cases h3 : c = '{'
    · subst h3; simp [decodeSingleAux_cons, singleEscape, ih, Except.map]
    by_cases h4 : c = '\n'
    · subst h4; simp [decodeSingleAux_cons, singleEscape, ih, Except.map]
    by_cases h5 : c = '\r'
    · subst h5; simp [decodeSingleAux_cons, singleEscape, ih, Except.map]
    by_cases h6 : c = '\t'
    · subst h6; simp [decodeSingleAux_cons, singleEscape, ih, Except.map]
    simp [h1, h2, h3, h4, h5, h6, decodeSingleAux_cons, ih, Except.map]

theorem scanCloseSingleAux_escape (idx : Nat) (s rest : List Char) :
    scanCloseSingleAux idx (escapeSingle s ++ '"' :: rest) = some (idx + utf8Len (escapeSingle s)) := by
  induction s generalizing idx with
  | nil => simp [escapeSingle, scanCloseSingleAux_cons, utf8Len]
  | cons c s ih =>
    simp only [escapeSingle]
    by_cases h1 : c = '\\'
    · subst h1; simp [scanCloseSingleAux_cons, ih, utf8Len]; omega
    by_cases h2 : c = '"'
    · subst h2; simp [scanCloseSingleAux_cons, ih, utf8Len]; omega
    by_cases h3 : c = '{'
    · subst h3; simp [scanCloseSingleAux_cons, ih, utf8Len]; omega
    by_cases h4 : c = '\n'
    · subst h4; simp [scanCloseSingleAux_cons, ih, utf8Len]; omega
    by_cases h5 : c = '\r'
    · subst h5; simp [scanCloseSingleAux_cons, ih, utf8Len]; omega
    by_cases h6 : c = '\t'
    · subst h6; simp [scanCloseSingleAux_cons, ih, utf8Len]; omega
    simp [h1, h2, h3, h4, h5, h6, scanCloseSingleAux_cons, ih, utf8Len]; omega

/-- **escape_single_roundtrip** (pattern position, `single_line_string` + `parse_string_content`):
    the scan for the closing quote stops exactly after the escaped text, and decoding it gives the
    value. (String patterns — also `"""` ones — are printed in this form.) -/
theorem escape_single_roundtrip_pattern (s rest : List Char) :
    scanCloseSingle (escapeSingle s ++ '"' :: rest) = some (utf8Len (escapeSingle s)) ∧
    decodeSingle (escapeSingle s) = .ok s := by
  constructor
  · simpa [scanCloseSingle] using scanCloseSingleAux_escape 0 s rest
  · exact decodeSingleAux_escape 0 s

example : escapeSingle ['a', '"', '{', '\n', '\\'] = "a\\\"\\{\\n\\\\".toList := by
  simp [escapeSingle]

/-- **The multi-line round trip** (since fix a7d7642, for EVERY value and every space margin): the
    text the formatter puts between the `"""` delimiters is scanned to its end by the escape-aware
    scan, and de-indenting + decoding it (term position, `process_multiline_segments`) gives back
    exactly the value — including trailing spaces (`\s`), blank-line runs, `"""` inside the value,
    tabs, carriage returns, backslashes and braces. -/
theorem escape_multi_roundtrip (v margin rest : List Char) (hm : ∀ c ∈ margin, c = ' ') :
    processMultilineSegments (renderedRaw margin (multilineLines v)) = .text v ∧
    scanCloseMulti (renderedRaw margin (multilineLines v) ++ '"' :: '"' :: '"' :: rest) =
      some (utf8Len (renderedRaw margin (multilineLines v))) := by
  have hok : ∀ L ∈ multilineLines v, ∃ l ∈ splitNl v, L = protRec (escapeMultiText l) ∧ LineOk l L := by
    intro L hL
    rw [multilineLines_eq] at hL
    simp only [List.mem_map] at hL
    obtain ⟨l, hl, rfl⟩ := hL
    exact ⟨l, hl, rfl, renderedLine_ok l (splitNl_lines_noNl v l hl)⟩
  have hne : multilineLines v ≠ [] := by
    rw [multilineLines_eq]; simpa using splitNl_ne_nil v
  constructor
  · unfold processMultilineSegments
    rw [multilineDedent_rendered margin _ hm hne
      (fun L hL => by obtain ⟨_, _, _, ok⟩ := hok L hL; exact ok.noNl)
      (fun L hL => by obtain ⟨_, _, _, ok⟩ := hok L hL; exact ok.noCr)
      (fun L hL => by obtain ⟨_, _, _, ok⟩ := hok L hL; exact ok.blank)]
    simp only
    rw [multilineLines_eq, processSegments_lines _ (splitNl_ne_nil v) (splitNl_lines_noNl v),
      joinNl_splitNl]
  · have hclean : EscClean (renderedRaw margin (multilineLines v)) := by
      unfold renderedRaw
      refine .char _ _ (by decide) (by decide) (EscClean.append (EscClean.joinNl _ ?_)
        (.char _ _ (by decide) (by decide) (EscClean.spaces margin hm)))
      intro x hx
      simp only [List.mem_map] at hx
      obtain ⟨L, hL, rfl⟩ := hx
      obtain ⟨_, _, _, ok⟩ := hok L hL
      unfold indentLine; split
      · exact .nil
      · exact (EscClean.spaces margin hm).append ok.clean
    have := scanCloseMultiAux_clean _ hclean 0 rest
    simpa [scanCloseMulti] using this

example : renderedRaw [' ', ' '] (multilineLines ['a', ' ', '\n', '\n', '"'])
    = "\n  a\\s\n\n  \\\"\n  ".toList := by
  simp [renderedRaw, multilineLines, splitNl, escapeMultiText, protectTrailingSpaces, trailingSpaces,
    indentLine, joinNl]

/-- The content lines `expand_literals` writes for the placeholder line of literal 0 at a space
    margin are exactly the lines of `renderedRaw`. -/
theorem expandLine_placeholder (margin : List Char) (Ls : List (List Char))
    (hm : ∀ c ∈ margin, c = ' ') :
    expandLine [Ls] (margin ++ literalPlaceholder 0) = some (Ls.map (indentLine margin)) := by
  have key : ∀ m : List Char, (∀ c ∈ m, c = ' ') →
      (m ++ literalPlaceholder 0).takeWhile (· = ' ') = m ∧
      (m ++ literalPlaceholder 0).dropWhile (· = ' ') = literalPlaceholder 0 := by
    intro m
    induction m with
    | nil => intro _; simp [literalPlaceholder]
    | cons c t ih =>
      intro h
      have hc := h c (by simp); subst hc
      have := ih (fun x hx => h x (by simp [hx]))
      simp [this.1, this.2]
  obtain ⟨htw, hdw⟩ := key margin hm
  unfold expandLine
  simp only [htw, hdw]
  simp [literalPlaceholder, natDigits, parseUsize, indentLine]

end C17
