import QuiverModel.Core.Text.Doc
import QuiverModel.Lemmas.Text.Escape
import QuiverModel.Lemmas.Text.Layout
import QuiverModel.Lemmas.Text.FragSeq
/-
C17 — Formatting is a fixpoint and preserves the program and its comments.
Property theorems about M-Text (the layout engine of `pretty.rs` and the string re-escaping of
`format.rs` / `parser.rs`). Every theorem is `C17.<name>`.

What these theorems do NOT cover: the parser and the AST→Doc builder of `format.rs` outside the
FRAGMENT of the last section (nested anonymous tuples of identifiers, one statement, no trivia). The
four statements of the property about the whole pipeline are decided by the implementation oracle in
`harness/src/bin/c17` (exploration, not proof) — see `notes/C17.md`.
-/
namespace C17
open QM.Text

/-! ## Totality of the layout engine

`printLoop`, `fitsLoop`, `flattenLoop`, `flatWidthLoop` are defined by well-founded recursion on the
size of the pending work (no fuel): Lean's termination checker has accepted the measure
`Σ size(stack) + Σ (size(suffix) + 1)` for the `print` loop — including the two places where frames
move *back* onto the stack (line-suffix flush before a newline and at end of input). The theorems
below make the bound explicit. -/

theorem printLoop_pieces_le (w col : Nat) (st suf : List Frame) :
    (printLoop w col st suf).length ≤ framesSize st + sufSize suf := by
  fun_induction printLoop w col st suf <;>
    simp_all [framesSize, sufSize, Doc.size, framesSize_append, framesSize_map, sufSize_eq] <;> omega

/-- `print` is total: for every document and every width it yields a string, and the number of
    pieces (`Text` atoms, spaces, newlines) appended to the output is at most the size of the
    document — nothing is emitted twice by the suffix-flush re-push of a line break. -/
theorem print_total (d : Doc) (w : Nat) :
    (∃ out : List Char, print d w = out) ∧ (printPieces d w).length ≤ d.size := by
  refine ⟨⟨_, rfl⟩, ?_⟩
  have := printLoop_pieces_le w 0 [⟨0, .brk, d⟩] []
  simpa [printPieces, framesSize, sufSize] using this

example : print (.mkGroup (.concat [.text ['a'], .line, .lineSuffix (.text ['/', '/']), .text ['b']])) 80
    = ['a', ' ', 'b', '/', '/'] := by
  simp [print, printPieces, Doc.mkGroup, forcesBreak, forcesBreakAny, printLoop, fits, fitsLoop, popFrame,
    mkFrames, toIsize, renderPieces, Piece.render, stripTrailingWhitespace, rustLines, rustLinesAux,
    trimEnd, isWhitespace, joinNl]

/-- The flag computed by `pretty::group` is the one `forces_break` reports for the group. -/
theorem forcesBreak_mkGroup (d : Doc) : forcesBreak (Doc.mkGroup d) = forcesBreak d := by
  simp [Doc.mkGroup, forcesBreak]

/-! ## Line-breaking decisions never change, drop or reorder text atoms

`atomsOf (printPieces d w)` is the sequence of `Text` atoms `print` appends to its output (spaces and
newlines are separate pieces). `Reads d m as` says: `as` is a reading of the atoms of `d` in document
order in which every `IfBreak` contributes the branch of the mode its enclosing group is laid out in
(forced groups in break mode). Which mode a group gets is the only thing the width can influence. -/

/-- **Nothing lost, nothing duplicated** (all documents): at every width the emitted atoms are a
    permutation of a reading of the document — a permutation only because `LineSuffix` content is
    deferred to the end of its line. -/
theorem print_atoms_perm (d : Doc) (w : Nat) :
    ∃ as, Reads d .brk as ∧ (atomsOf (printPieces d w)).Perm as := by
  obtain ⟨a, b, ha, hb, hp⟩ := printLoop_atoms w 0 [⟨0, .brk, d⟩] []
  rw [hb.nil_inv] at hp
  exact ⟨a, ha.single_inv, by simpa [printPieces] using hp⟩

/-- **Order** (documents without line suffixes): the emitted atoms ARE a reading of the document, in
    document order. -/
theorem print_atoms_order (d : Doc) (w : Nat) (hs : noSuffix d = true) :
    Reads d .brk (atomsOf (printPieces d w)) := by
  have := printLoop_order w 0 [⟨0, .brk, d⟩] [] rfl (NoSuffixStack.single hs)
  exact this.single_inv

/-- **print_tokens_width_independent**: when both branches of every `IfBreak` carry the same atoms
    (e.g. none), the atom sequence does not depend on the width at all: it is `atomsDet d`. -/
theorem print_tokens_width_independent (d : Doc) (w₁ w₂ : Nat) (hs : noSuffix d = true)
    (hn : ifBreakNeutral d = true) :
    atomsOf (printPieces d w₁) = atomsOf (printPieces d w₂) ∧
    atomsOf (printPieces d w₁) = atomsDet d := by
  have h1 := Reads.det d .brk _ hn (print_atoms_order d w₁ hs)
  have h2 := Reads.det d .brk _ hn (print_atoms_order d w₂ hs)
  exact ⟨h1.trans h2.symm, h1⟩

/-- …and with line suffixes, up to the deferral: the same atoms at every width. -/
theorem print_tokens_width_independent_perm (d : Doc) (w₁ w₂ : Nat) (hn : ifBreakNeutral d = true) :
    (atomsOf (printPieces d w₁)).Perm (atomsOf (printPieces d w₂)) := by
  obtain ⟨a1, h1, p1⟩ := print_atoms_perm d w₁
  obtain ⟨a2, h2, p2⟩ := print_atoms_perm d w₂
  rw [Reads.det d .brk a1 hn h1] at p1
  rw [Reads.det d .brk a2 hn h2] at p2
  exact p1.trans p2.symm

/-- The full-strength statement for arbitrary documents is the relational one: `print_atoms_order`
    (+ `print_atoms_perm` when there are line suffixes). For `IfBreak`s whose branches differ
    (`~> `, trailing `,`, leading `| ` in format.rs) the atoms legitimately depend on the layout; what
    the theorems guarantee is that they are chosen consistently with the mode of the enclosing group. -/
def print_tokens_width_independentStatement : Prop :=
  ∀ (d : Doc) (w : Nat), noSuffix d = true → Reads d .brk (atomsOf (printPieces d w))

theorem print_tokens_width_independentStatement_holds : print_tokens_width_independentStatement :=
  fun d w hs => print_atoms_order d w hs

example : noSuffix (.mkGroup (.concat [.text ['a'], .line, .ifBreak (.text ['~']) .nil, .text ['b']])) = true
    ∧ ifBreakNeutral (.concat [.text ['a'], .line, .text ['b']]) = true := by
  simp [Doc.mkGroup, noSuffix, noSuffixList, ifBreakNeutral, ifBreakNeutralList]

/-! ## Line suffixes are flushed before the next newline and at the end of input -/

/-- **lineSuffix_flushed**: for documents whose line suffixes hold plain texts (what format.rs
    builds), from any state with buffered suffix texts `ss` the output continues with pieces of the
    current line (no newline among them), then `ss` in order, then the suffixes buffered meanwhile,
    and only then a newline or the end of the output: a trailing comment is never pushed past a line
    break and never lost at end of input. -/
theorem lineSuffix_flushed (w col : Nat) (st suf : List Frame) (ss : List (List Char))
    (hst : ∀ f ∈ st, textSuffixes f.doc = true) (hsuf : IsTextFrames suf ss) :
    FlushShape (printLoop w col st suf) ss :=
  printLoop_flush w col st suf hst ss hsuf

/-- At the top level: a suffix met first comes out before the first newline (or at the end). -/
theorem lineSuffix_flushed_top (d : Doc) (w : Nat) (s : List Char) (hd : textSuffixes d = true) :
    FlushShape (printPieces (.concat [.lineSuffix (.text s), d]) w) [s] := by
  unfold printPieces
  rw [printLoop_concat w 0 ⟨0, .brk, _⟩ [] [] _ rfl]
  simp only [mkFrames, List.append_nil]
  rw [printLoop_lineSuffix w 0 ⟨0, .brk, _⟩ _ [] _ rfl]
  exact printLoop_flush w 0 _ _ (fun f hf => by simp at hf; subst hf; exact hd) [s]
    (by simp [IsTextFrames])

example : printPieces (.concat [.lineSuffix (.text ['/', '/']), .text ['x'], .hardline, .text ['y']]) 80
    = [.atom ['x'], .atom ['/', '/'], .nl 0, .atom ['y']] := by
  simp [printPieces, printLoop, mkFrames]

/-! ## `flatten` is the wide layout -/

/-- **flatten_eq_print_wide**: for a document that `flatten` may legally be applied to — no hard
    line and no line suffix in its flat reading, no group flagged as forced (`flatOk`) — printing the
    document as a group at any width that holds its flat layout gives exactly `flatten d`. The width
    must be below 2^63: `fits` casts the remaining width to `isize`, so at width ≥ 2^63 every group
    breaks (the differential exercises that edge). -/
theorem flatten_eq_print_wide (d : Doc) (w : Nat) (hok : flatOk d = true)
    (hfit : piecesWidth (flatPieces d) ≤ w) (hw : w < 2 ^ 63) :
    print (.group d false) w = flatten d :=
  print_group_eq_flatten d w hok hfit hw

/-- In terms of `forces_break` (the check format.rs makes before calling `flatten`): for documents
    built with `pretty::group` that have no line suffix in their flat reading, `¬ forces_break d`
    suffices, and `pretty::group d` is that group. -/
theorem flatten_eq_print_wide_of_not_forcesBreak (d : Doc) (w : Nat) (hwf : wfGroups d = true)
    (hns : noSuffixFlat d = true) (hf : forcesBreak d = false)
    (hfit : piecesWidth (flatPieces d) ≤ w) (hw : w < 2 ^ 63) :
    print (Doc.mkGroup d) w = flatten d := by
  have : Doc.mkGroup d = .group d false := by simp [Doc.mkGroup, hf]
  rw [this]
  exact print_group_eq_flatten d w (flatOk_of_not_forcesBreak d hwf hns hf) hfit hw

/-- The hypothesis about line suffixes cannot be dropped: `flatten` inlines a suffix where it stands,
    `print` defers it to the end of the line. -/
example : flatten (.concat [.lineSuffix (.text ['c']), .text ['x']]) = ['c', 'x'] ∧
    print (.group (.concat [.lineSuffix (.text ['c']), .text ['x']]) false) 80 = ['x', 'c'] := by
  constructor
  · simp [flatten, flattenLoop, stripTrailingWhitespace, rustLines, rustLinesAux, trimEnd, isWhitespace, joinNl]
  · simp [print, printPieces, printLoop, fits, fitsLoop, popFrame, mkFrames, toIsize, renderPieces,
      Piece.render, stripTrailingWhitespace, rustLines, rustLinesAux, trimEnd, isWhitespace, joinNl]

/-! ## String re-escaping round trips

`format.rs` re-renders every string literal from its decoded value; these theorems say that the
parser reads the rendering back to exactly that value — for every value, no hypotheses. -/

/-- **escape_single_roundtrip** (term position, `string_segments`): the escaped text followed by the
    closing quote scans as one text segment equal to the value — in particular an escaped `{` never
    opens a hole and an escaped quote never ends the literal. -/
theorem escape_single_roundtrip (s rest : List Char) :
    stringSegments (escapeSingle s ++ '"' :: rest) = .closed s rest := by
  induction s with
  | nil => simp [escapeSingle, stringSegments_cons]
  | cons c s ih =>
    simp only [escapeSingle]
    by_cases h1 : c = '\\'
    · subst h1; simp [stringSegments_cons, singleEscape, ih, SegResult.push]
    by_cases h2 : c = '"'
    · subst h2; simp [stringSegments_cons, singleEscape, ih, SegResult.push]
    by_cases h3 : c = '{'
    · subst h3; simp [stringSegments_cons, singleEscape, ih, SegResult.push]
    by_cases h4 : c = '\n'
    · subst h4; simp [stringSegments_cons, singleEscape, ih, SegResult.push]
    by_cases h5 : c = '\r'
    · subst h5; simp [stringSegments_cons, singleEscape, ih, SegResult.push]
    by_cases h6 : c = '\t'
    · subst h6; simp [stringSegments_cons, singleEscape, ih, SegResult.push]
    simp [h1, h2, h3, h4, h5, h6, stringSegments_cons, ih, SegResult.push]

theorem decodeSingleAux_escape (o : Nat) (s : List Char) :
    decodeSingleAux o (escapeSingle s) = .ok s := by
  induction s generalizing o with
  | nil => simp [escapeSingle, decodeSingleAux]
  | cons c s ih =>
    simp only [escapeSingle]
    by_cases h1 : c = '\\'
    · subst h1; simp [decodeSingleAux_cons, singleEscape, ih, Except.map]
    by_cases h2 : c = '"'
    · subst h2; simp [decodeSingleAux_cons, singleEscape, ih, Except.map]
    by_cases h3 : c = '{'
    · subst h3; simp [decodeSingleAux_cons, singleEscape, ih, Except.map]
    by_cases h4 : c = '\n'
    · subst h4; simp [decodeSingleAux_cons, singleEscape, ih, Except.map]
    by_cases h5 : c = '\r'
    · subst h5; simp [decodeSingleAux_cons, singleEscape, ih, Except.map]
    by_cases h6 : c = '\t'
    · subst h6; simp [decodeSingleAux_cons, singleEscape, ih, Except.map]
    simp [h1, h2, h3, h4, h5, h6, decodeSingleAux_cons, ih, Except.map]

theorem scanCloseSingleAux_escape (idx : Nat) (s rest : List Char) :
    scanCloseSingleAux idx (escapeSingle s ++ '"' :: rest) = some (idx + utf8Len (escapeSingle s)) := by
  induction s generalizing idx with
  | nil => simp [escapeSingle, scanCloseSingleAux_cons, utf8Len]
  | cons c s ih =>
    simp only [escapeSingle]
    by_cases h1 : c = '\\'
    · subst h1; simp [scanCloseSingleAux_cons, ih, utf8Len]; omega
    by_cases h2 : c = '"'
    · subst h2; simp [scanCloseSingleAux_cons, ih, utf8Len]; omega
    by_cases h3 : c = '{'
    · subst h3; simp [scanCloseSingleAux_cons, ih, utf8Len]; omega
    by_cases h4 : c = '\n'
    · subst h4; simp [scanCloseSingleAux_cons, ih, utf8Len]; omega
    by_cases h5 : c = '\r'
    · subst h5; simp [scanCloseSingleAux_cons, ih, utf8Len]; omega
    by_cases h6 : c = '\t'
    · subst h6; simp [scanCloseSingleAux_cons, ih, utf8Len]; omega
    simp [h1, h2, h3, h4, h5, h6, scanCloseSingleAux_cons, ih, utf8Len]; omega

/-- **escape_single_roundtrip** (pattern position, `single_line_string` + `parse_string_content`):
    the scan for the closing quote stops exactly after the escaped text, and decoding it gives the
    value. (String patterns — also `"""` ones — are printed in this form.) -/
theorem escape_single_roundtrip_pattern (s rest : List Char) :
    scanCloseSingle (escapeSingle s ++ '"' :: rest) = some (utf8Len (escapeSingle s)) ∧
    decodeSingle (escapeSingle s) = .ok s := by
  constructor
  · simpa [scanCloseSingle] using scanCloseSingleAux_escape 0 s rest
  · exact decodeSingleAux_escape 0 s

example : escapeSingle ['a', '"', '{', '\n', '\\'] = "a\\\"\\{\\n\\\\".toList := by
  simp [escapeSingle]

/-- **The multi-line round trip** (since fix a7d7642, for EVERY value and every space margin): the
    text the formatter puts between the `"""` delimiters is scanned to its end by the escape-aware
    scan, and de-indenting + decoding it (term position, `process_multiline_segments`) gives back
    exactly the value — including trailing spaces (`\s`), blank-line runs, `"""` inside the value,
    tabs, carriage returns, backslashes and braces. -/
theorem escape_multi_roundtrip (v margin rest : List Char) (hm : ∀ c ∈ margin, c = ' ') :
    processMultilineSegments (renderedRaw margin (multilineLines v)) = .text v ∧
    scanCloseMulti (renderedRaw margin (multilineLines v) ++ '"' :: '"' :: '"' :: rest) =
      some (utf8Len (renderedRaw margin (multilineLines v))) := by
  have hok : ∀ L ∈ multilineLines v, ∃ l ∈ splitNl v, L = protRec (escapeMultiText l) ∧ LineOk l L := by
    intro L hL
    rw [multilineLines_eq] at hL
    simp only [List.mem_map] at hL
    obtain ⟨l, hl, rfl⟩ := hL
    exact ⟨l, hl, rfl, renderedLine_ok l (splitNl_lines_noNl v l hl)⟩
  have hne : multilineLines v ≠ [] := by
    rw [multilineLines_eq]; simpa using splitNl_ne_nil v
  constructor
  · unfold processMultilineSegments
    rw [multilineDedent_rendered margin _ hm hne
      (fun L hL => by obtain ⟨_, _, _, ok⟩ := hok L hL; exact ok.noNl)
      (fun L hL => by obtain ⟨_, _, _, ok⟩ := hok L hL; exact ok.noCr)
      (fun L hL => by obtain ⟨_, _, _, ok⟩ := hok L hL; exact ok.blank)]
    simp only
    rw [multilineLines_eq, processSegments_lines _ (splitNl_ne_nil v) (splitNl_lines_noNl v),
      joinNl_splitNl]
  · have hclean : EscClean (renderedRaw margin (multilineLines v)) := by
      unfold renderedRaw
      refine .char _ _ (by decide) (by decide) (EscClean.append (EscClean.joinNl _ ?_)
        (.char _ _ (by decide) (by decide) (EscClean.spaces margin hm)))
      intro x hx
      simp only [List.mem_map] at hx
      obtain ⟨L, hL, rfl⟩ := hx
      obtain ⟨_, _, _, ok⟩ := hok L hL
      unfold indentLine; split
      · exact .nil
      · exact (EscClean.spaces margin hm).append ok.clean
    have := scanCloseMultiAux_clean _ hclean 0 rest
    simpa [scanCloseMulti] using this

example : renderedRaw [' ', ' '] (multilineLines ['a', ' ', '\n', '\n', '"'])
    = "\n  a\\s\n\n  \\\"\n  ".toList := by
  simp [renderedRaw, multilineLines, splitNl, escapeMultiText, protectTrailingSpaces, trailingSpaces,
    indentLine, joinNl]

/-- The content lines `expand_literals` writes for the placeholder line of literal 0 at a space
    margin are exactly the lines of `renderedRaw`. -/
theorem expandLine_placeholder (margin : List Char) (Ls : List (List Char))
    (hm : ∀ c ∈ margin, c = ' ') :
    expandLine [Ls] (margin ++ literalPlaceholder 0) = some (Ls.map (indentLine margin)) := by
  have key : ∀ m : List Char, (∀ c ∈ m, c = ' ') →
      (m ++ literalPlaceholder 0).takeWhile (· = ' ') = m ∧
      (m ++ literalPlaceholder 0).dropWhile (· = ' ') = literalPlaceholder 0 := by
    intro m
    induction m with
    | nil => intro _; simp [literalPlaceholder]
    | cons c t ih =>
      intro h
      have hc := h c (by simp); subst hc
      have := ih (fun x hx => h x (by simp [hx]))
      simp [this.1, this.2]
  obtain ⟨htw, hdw⟩ := key margin hm
  unfold expandLine
  simp only [htw, hdw]
  simp [literalPlaceholder, natDigits, parseUsize, indentLine]

/-! ## The fragment port: format, then parse, gives the program back

On the fragment of Core/Text/Fragment (nested anonymous tuples of identifiers; one statement; no
trivia) both directions are modelled — the AST→`Doc` builders of `format.rs` (`programDoc`: the docs of
`sequence_doc_with`/`chain_doc`/`field_doc`/`tuple_doc`/`bracketed`, groups, `break_if_wider_than`
and all) and the productions of `parser.rs` the fragment reaches (`programP`, on the nom combinator
layer of Core/Parse/Type) — and both are tied to the implementation by the `frag` differential of
`harness/src/bin/c17`. The theorems hold for EVERY page width, not only `WIDTH` = 100: whichever
groups the engine decides to break, the text is one of the layouts of `t` (`Frag.LayP`), every layout
is free of trailing white space (so `strip_trailing_whitespace` is the identity on it) and the parser
reads every layout back as `t`. -/

open QM.Frag QM.Parse in
/-- The pieces the engine prints for the program `ts` carry the text of a layout of `ts`. (The pieces
    themselves are cut differently in one place: the engine emits a field label `x: ` as one atom,
    the layout language keeps the space apart.) -/
theorem fragment_prints_layout (ts : List T) (h : WFProg ts) (w : Nat) :
    ∃ ps, renderPieces (printPieces (programDoc ts) w) = renderPieces ps ∧ SeqP 0 ts ps := by
  unfold printPieces programDoc
  rw [pl_concat]
  simp only [mkFrames, List.cons_append, List.nil_append]
  obtain ⟨ps', ps, col', hp, hr, hl⟩ := printsAs_sequence h w 0 0 .brk []
  rw [hp, printLoop_nil_nil, List.append_nil]
  exact ⟨ps, hr, hl⟩

open QM.Frag QM.Parse in
/-- `print` of the program's document is the text of that layout: stripping trailing white space
    changes nothing (a layout is blocks of lines that end in a non-blank character, with single empty
    lines — around "tall" steps — between them). -/
theorem fragment_print_eq (ts : List T) (h : WFProg ts) (w : Nat) :
    print (programDoc ts) w = renderPieces (printPieces (programDoc ts) w) := by
  obtain ⟨ps, hr, hl⟩ := fragment_prints_layout ts h w
  obtain ⟨bs, hne, rfl, hall⟩ := seqP_blocks hl
  unfold print
  rw [hr]
  exact (post_passes_blocks hne hall).1

open QM.Frag QM.Parse in
/-- the tail of `program` after the (only) sequence, at the end of the text or before its final
    newline -/
theorem programP_of_sequence {ts : List T} {s : Str} {n : Nat} (hh : HeadOk s) (hn : n = s.length + 1)
    (hseq : sequenceP n s = .ok ts []) : programP s = .ok [ts] [] := by
  unfold programP
  rw [seq_ok (wsc_headOk hh), ← hn]
  refine before_ok (b := ()) (before_ok (b := none) (sepList0_cons hseq (sepTail_of_fails seqSep_fails_nil))
    (opt_of_fails seqSep_fails_nil)) ?_
  simp [QM.Parse.seq, QM.Parse.bind, wsc, skipWsc, peof]

open QM.Frag QM.Parse in
/-- C17 on the fragment: for every program `ts` of the fragment and every page width, parsing the
    formatted text gives the program back — one statement, the sequence `ts`; the whole text is
    consumed. -/
theorem format_fixpoint_fragment (ts : List T) (h : WFProg ts) (w : Nat) :
    programP (print (programDoc ts) w) = .ok [ts] [] := by
  rw [fragment_print_eq ts h w]
  obtain ⟨ps, hr, hl⟩ := fragment_prints_layout ts h w
  rw [hr]
  refine programP_of_sequence (seqP_head hl) rfl ?_
  unfold sequenceP
  have hp := seqP_lay hl ((renderPieces ps).length + 1) [] (by omega) stopC_nil
    (sepTail_of_fails seqSep_fails_nil)
  rw [List.append_nil] at hp
  exact before_ok (b := none) hp (opt_of_fails seqSep_fails_nil)

open QM.Frag QM.Parse in
/-- … hence formatting is a fixpoint there: formatting what the formatted text parses to gives the
    same text again (at any pair of widths the second run sees the same program). -/
theorem format_idempotent_fragment (ts : List T) (h : WFProg ts) (w : Nat) :
    ∃ ts', programP (print (programDoc ts) w) = .ok [ts'] [] ∧
      print (programDoc ts') w = print (programDoc ts) w :=
  ⟨ts, format_fixpoint_fragment ts h w, rfl⟩

open QM.Frag QM.Parse in
/-- The model of `format_program` on the fragment returns the layout's text and a final newline:
    `collapse_blanks` finds no run of blank lines to merge and no trailing blank line to drop (a layout
    has single empty lines only, between blocks of lines that end in a non-blank character), `expand_literals` finds no placeholder line (no line
    starts, after its indentation, with NUL) and nothing panics. -/
theorem fmtFrag_eq (ts : List T) (h : WFProg ts) :
    fmtFrag ts = renderPieces (printPieces (programDoc ts) pageWidth) ++ ['\n'] := by
  obtain ⟨ps, hr, hl⟩ := fragment_prints_layout ts h pageWidth
  obtain ⟨bs, hne, rfl, hall⟩ := seqP_blocks hl
  have hp := (post_passes_blocks hne hall).2
  unfold fmtFrag
  rw [fragment_print_eq ts h pageWidth, hr, hp.1, hp.2]

open QM.Frag QM.Parse in
/-- C17 on the fragment, for the whole of `format_program` (layout at `WIDTH`, `collapse_blanks`,
    `expand_literals`): parsing the formatted program gives the program back. -/
theorem format_program_fixpoint_fragment (ts : List T) (h : WFProg ts) :
    programP (fmtFrag ts) = .ok [ts] [] := by
  rw [fmtFrag_eq ts h]
  obtain ⟨ps, hr, hl⟩ := fragment_prints_layout ts h pageWidth
  rw [hr]
  refine programP_of_sequence ((seqP_head hl).append _) rfl ?_
  unfold sequenceP
  have hfail : Fails (chainP (termP ((renderPieces ps ++ ['\n']).length + 1))) [] :=
    chainP_fails (termP_fails_nil _)
  have hp := seqP_lay hl ((renderPieces ps ++ ['\n']).length + 1) ['\n'] (by simp; omega) stopC_nl
    (sepTail_item_fails seqSep_final (by simp) hfail)
  exact before_ok (b := some ()) hp (opt_ok seqSep_final)

open QM.Frag QM.Parse in
/-- … and formatting that again gives the same text: `format_program` is a fixpoint on the fragment. -/
theorem format_program_idempotent_fragment (ts : List T) (h : WFProg ts) :
    ∃ ts', programP (fmtFrag ts) = .ok [ts'] [] ∧ fmtFrag ts' = fmtFrag ts :=
  ⟨ts, format_program_fixpoint_fragment ts h, rfl⟩

/-! ## The statement for the whole language, and how much of it is covered

`FormatFixpointStatement parse format InLang` is C17's round-trip half for a language given by its
parser and formatter: every program of the language, formatted, parses back to itself, and whatever
the formatted text parses to formats to the same text again (idempotence). For Quiver, `parse` and
`format` are `quiver_compiler::parse` and `format_program` and `InLang` is "is the AST of some source";
the theorem below instantiates it for the two MODELS restricted to the fragment, and the `frag`
differential ties the two models to the two Rust functions on that fragment.

Covered after step 3 (complete): one statement that is a sequence of one or more steps (`,` /
newline separated, "tall" steps set off by blank lines); each step — and each field value — a chain
of one or more terms; a term is a bare identifier, a bare tuple name, an integer or binary literal, a
single-line string without holes, or an anonymous or named tuple of unnamed / named fields; no
trivia. ALL chains of these terms: juxtaposition chains, pipelines with their `~> ` continuation
lines, and chains ending in a tuple whose head `chain_doc` flattens onto one line (`pretty::flatten`
of a term's doc is the text of its flat layout, `flatten_termDoc`). No restriction beyond
well-formed names is left in `WFProg`.
Outside (decided by the implementation oracle only): bindings and
patterns (`x = …`, `(a) = …` — hence the `(`-initial step rules of 0ca76af / 63d9fac), blocks and
branches, functions, spawns, selects, strings with holes and `"""` strings, accessors, imports,
spreads, type aliases, and all comments / blank lines. -/

/-- C17's round-trip statement for a language (`InLang`) with parser `parse` and formatter `format`. -/
def FormatFixpointStatement {Prog : Type} (parse : List Char → Option Prog) (format : Prog → List Char)
    (InLang : Prog → Prop) : Prop :=
  ∀ p, InLang p →
    parse (format p) = some p ∧ ∀ p', parse (format p) = some p' → format p' = format p

open QM.Frag QM.Parse in
/-- what `quiver_compiler::parse` returns, restricted to programs that are one sequence -/
def fragParse (s : List Char) : Option (List T) :=
  match programP s with
  | .ok [ts] [] => some ts
  | _ => none

open QM.Frag QM.Parse in
/-- the statement holds for the fragment (models of `parse` and `format_program`) -/
theorem formatFixpointStatement_fragment : FormatFixpointStatement fragParse fmtFrag WFProg := by
  intro ts h
  have hp : fragParse (fmtFrag ts) = some ts := by
    unfold fragParse; rw [format_program_fixpoint_fragment ts h]
  refine ⟨hp, ?_⟩
  intro p' h'
  rw [hp] at h'
  cases h'
  rfl

open QM.Frag QM.Parse in
/-- The parser rule behind the formatter's "tuple name, then `(`" rule (0ca76af, 63d9fac): a bare tuple
    name followed by white space — a newline included — and `(` is NOT read as that name (it is the
    head of a partial pattern/type), so a newline is not a step separator there. (Steps starting with
    `(` are outside the fragment; on the implementation the rule is pinned by `corpus/C17/f20*`,
    `f23*`.) -/
theorem bare_name_refuses_paren_after_newline :
    tupleP (fieldP (chainP (termP 1))) ['A', '\n', '(', ')'] ≠ .ok (.tup (some ['A']) []) ['\n', '(', ')'] := by
  have h1 : Fails (bracketsP (fieldP (chainP (termP 1)))) ['\n', '(', ')'] := bracketsP_fails rfl
  have hname : tupleName ['A', '\n', '(', ')'] = .ok ['A'] ['\n', '(', ')'] :=
    tupleName_append (n := ['A']) (rest := ['\n', '(', ')']) rfl (by intro c t e; cases e; decide)
  have h3 : Fails (bind tupleName fun n => pmap (peekNot (seq ws0 (pchar '(')))
      (fun _ => T.tup (some n) [])) ['A', '\n', '(', ')'] := by
    refine Fails.bind_ok hname (Fails.pmap ?_)
    exact ⟨['\n', '(', ')'], .not, by simp [peekNot, QM.Parse.seq, QM.Parse.bind, ws0, pchar, isMultispace]⟩
  have hfail : Fails (tupleP (fieldP (chainP (termP 1)))) ['A', '\n', '(', ')'] :=
    Fails.alt (Fails.bind_ok hname (Fails.pmap h1))
      (Fails.alt (Fails.pmap (bracketsP_fails rfl)) h3)
  obtain ⟨e, c, he⟩ := hfail
  rw [he]
  intro h
  cases h

end C17
