import QuiverModel.Core.RefSem.Compile1
import QuiverModel.Theorems.C07
/-
C07, fragment theorem — **for the compiler fragment b-c02 has modelled, "every function the compiler
emits is accepted by the checker" is a theorem, not a sample.**

Imports (READ-ONLY) b-c02's model compiler `Core/RefSem/Compile1.lean` (tied to
compiler.rs by C02's harness: instruction-sequence equality on ~2500 programs per run). Nothing of
C02 is duplicated. **Dependency rule**: this module is an optional extra of C07 — if b-c02's files
change so that it stops building, C07 drops it from `props/C07.json` (the sampled certification and
`checkAnn_sound` do not depend on it) rather than fail.

What is proved (fragment 1 = literals, `~`, tuples, variable reads, `x = e` / `e =p` with binder /
placeholder / integer-literal / flat tuple patterns incl. the backward fail jumps and the nil fill,
`,`-sequences with the nil short-circuit):

  * `F1.compileSq_checkFn` — for EVERY sequence `sq` of the fragment (constants/tuple ids as the
    tables say, every variable read in scope), the function `compileSq Γ sq` passes `checkFn`;
  * `F1.frag1_allChecked`, `F1.frag1_no_structural_failure` — hence (`checkAnn_sound`) no program of
    the fragment fails structurally, from any entry state, under any well-formed events, after any
    number of transitions.

Blocks (fragment 2, `Compile2.lean`) are in `Theorems/C07Frag2.lean`.

What C02 gets from this: at every pc of a compiled sequence the frame has AT LEAST the compile-time
locals (`Γ.length ≤ L.length` along every chain, from `Inv`) — not the equality `L.length = Γ.length`
of C02's alignment invariant: the annotations are lower bounds by design (real compiler output joins
paths with different counts), so equality still needs C02's own argument.

How: a small type system for code SEGMENTS (`Seg`: a list of instructions placed at an absolute
position, annotated instruction by instruction, with a predicate for the states that leave it;
`Blk`: single entry, exit at the end plus listed extra exits) that composes (`Seg.append`,
`Blk.seq`) and ends in the checker (`checkFn_of_blk`). The abstract state at the segment boundaries
is a function of the compile-time context, as the compiler's own bookkeeping has it: **height = the
flowing value's depth, locals = `Γ.length`** (`compileT_blk` … `compileSq_blk`). A sequence leaves
with "at least the locals of its start, and ALL its locals if the value is non-nil"
(`Guard.top`) — the fact a branch consequence compiled under the condition's bindings needs.
-/
namespace QM.C07Frag
open QM.VM

/-! ## Typed code segments -/

/-- `out` may flow into an annotation `b`: same height, no more locals, implied guard (the
checker's `flowsTo`, as a relation between abstract states). -/
def Fits (out b : Ann) : Prop :=
  b.height = out.height ∧ b.locals ≤ out.locals ∧ guardFlows out b = true

theorem guardFlows_refl (a : Ann) : guardFlows a a = true := by
  unfold guardFlows
  cases h : a.guard <;> simp [Ann.eff, h] <;> omega

theorem Fits.refl (a : Ann) : Fits a a := ⟨rfl, Nat.le_refl _, guardFlows_refl a⟩

theorem Fits.trans {x y z : Ann} (h1 : Fits x y) (h2 : Fits y z) : Fits x z := by
  obtain ⟨a1, a2, a3⟩ := h1
  obtain ⟨b1, b2, b3⟩ := h2
  refine ⟨by omega, by omega, ?_⟩
  unfold guardFlows at *
  cases hz : z.guard <;> cases hy : y.guard <;> cases hx : x.guard <;>
    simp_all [Ann.eff] <;> omega

/-- Everything fits an annotation without guard of the same height and fewer locals. -/
theorem Fits.plain {out : Ann} {h l : Nat} (hh : h = out.height) (hl : l ≤ out.locals) :
    Fits out ⟨h, l, .none⟩ := ⟨hh, hl, by simp [guardFlows]⟩

def InR (o len pc : Nat) : Prop := o ≤ pc ∧ pc < o + len

/-- State `out` flowing to `pc`: inside the segment (at `o`, annotated by `A`) it must fit the
annotation there, outside it is up to `ext`. -/
def Flow (o : Nat) (A : List Ann) (ext : Nat → Ann → Prop) (pc : Nat) (out : Ann) : Prop :=
  (InR o A.length pc ∧ ∃ x, A[pc - o]? = some x ∧ Fits out x) ∨ (¬ InR o A.length pc ∧ ext pc out)

/-- `code`, placed at position `o` of a function of `n` instructions with `caps` captures, checks
instruction by instruction against the annotations `A`; states leaving the segment satisfy `ext`. -/
structure Seg (P : Prog) (caps n o : Nat) (code : List Instr) (A : List Ann)
    (ext : Nat → Ann → Prop) : Prop where
  len : A.length = code.length
  step : ∀ j i x, code[j]? = some i → A[j]? = some x →
    ∃ succs, transfer P n caps (o + j) x i = .ok succs ∧ ∀ s ∈ succs, Flow o A ext s.1 s.2

theorem Seg.nil {P : Prog} {caps n o : Nat} {ext : Nat → Ann → Prop} : Seg P caps n o [] [] ext :=
  ⟨rfl, by intro j i x h; simp at h⟩

theorem Flow.mono {o : Nat} {A : List Ann} {ext ext' : Nat → Ann → Prop} {pc : Nat} {out : Ann}
    (h : Flow o A ext pc out) (hext : ¬ InR o A.length pc → ext pc out → ext' pc out) :
    Flow o A ext' pc out := by
  rcases h with h | ⟨h1, h2⟩
  · exact Or.inl h
  · exact Or.inr ⟨h1, hext h1 h2⟩

theorem Seg.mono {P : Prog} {caps n o : Nat} {code : List Instr} {A : List Ann}
    {ext ext' : Nat → Ann → Prop} (h : Seg P caps n o code A ext)
    (hext : ∀ pc out, ¬ InR o A.length pc → ext pc out → ext' pc out) : Seg P caps n o code A ext' := by
  refine ⟨h.len, ?_⟩
  intro j i x hi hx
  obtain ⟨succs, ht, hf⟩ := h.step j i x hi hx
  exact ⟨succs, ht, fun s hs => (hf s hs).mono (hext _ _)⟩

/-- Two adjacent segments: what leaves one of them must flow correctly into the pair. -/
theorem Seg.append {P : Prog} {caps n o : Nat} {c1 c2 : List Instr} {A1 A2 : List Ann}
    {ext1 ext2 ext : Nat → Ann → Prop}
    (h1 : Seg P caps n o c1 A1 ext1) (h2 : Seg P caps n (o + c1.length) c2 A2 ext2)
    (e1 : ∀ pc out, ¬ InR o A1.length pc → ext1 pc out → Flow o (A1 ++ A2) ext pc out)
    (e2 : ∀ pc out, ¬ InR (o + c1.length) A2.length pc → ext2 pc out → Flow o (A1 ++ A2) ext pc out) :
    Seg P caps n o (c1 ++ c2) (A1 ++ A2) ext := by
  have hl1 := h1.len
  have hl2 := h2.len
  refine ⟨by simp [hl1, hl2], ?_⟩
  intro j i x hi hx
  by_cases hj : j < c1.length
  · rw [List.getElem?_append_left hj] at hi
    rw [List.getElem?_append_left (by omega)] at hx
    obtain ⟨succs, ht, hf⟩ := h1.step j i x hi hx
    refine ⟨succs, ht, fun s hs => ?_⟩
    rcases hf s hs with ⟨hin, y, hy, hfit⟩ | ⟨hout, hext⟩
    · refine Or.inl ⟨⟨hin.1, by have := hin.2; simp; omega⟩, y, ?_, hfit⟩
      rw [List.getElem?_append_left (by have := hin.2; have := hin.1; omega)]
      exact hy
    · exact e1 _ _ hout hext
  · have hj' : c1.length ≤ j := by omega
    rw [List.getElem?_append_right hj'] at hi
    rw [List.getElem?_append_right (by omega)] at hx
    rw [hl1] at hx
    obtain ⟨succs, ht, hf⟩ := h2.step (j - c1.length) i x hi hx
    have hpos : o + c1.length + (j - c1.length) = o + j := by omega
    rw [hpos] at ht
    refine ⟨succs, ht, fun s hs => ?_⟩
    rcases hf s hs with ⟨hin, y, hy, hfit⟩ | ⟨hout, hext⟩
    · have h1' := hin.1
      have h2' := hin.2
      refine Or.inl ⟨⟨by omega, by simp; omega⟩, y, ?_, hfit⟩
      rw [List.getElem?_append_right (by omega)]
      have : s.1 - o - A1.length = s.1 - (o + c1.length) := by omega
      rw [this]
      exact hy
    · exact e2 _ _ hout hext

/-- side conditions "this position lies outside that range" -/
macro "outside" : tactic =>
  `(tactic| first
    | (simp [InR]; done)
    | (simp [InR]; omega)
    | (simp only [InR, List.length_append, List.length_cons, List.length_nil]; omega))

/-! ### Straight-line blocks: entered at the start, left at the end (and possibly through the
extra exits `X`) -/

/-- exits: `pc` is one of the listed positions and the state fits the annotation listed for it -/
def Exits (X : List (Nat × Ann)) : Nat → Ann → Prop :=
  fun pc out => ∃ e ∈ X, pc = e.1 ∧ Fits out e.2

/-- A block at `o`: entered in state `a`, it leaves by falling through / jumping to its end in a
state that fits `b`, or through one of the extra exits `X` (all outside the block). -/
structure Blk (P : Prog) (caps n o : Nat) (code : List Instr) (a : Ann) (A : List Ann) (b : Ann)
    (X : List (Nat × Ann)) : Prop where
  seg : Seg P caps n o code A (Exits ((o + code.length, b) :: X))
  entry : Flow o A (Exits ((o + code.length, b) :: X)) o a

theorem Blk.empty {P : Prog} {caps n o : Nat} {a b : Ann} {X : List (Nat × Ann)} (h : Fits a b) :
    Blk P caps n o [] a [] b X :=
  ⟨Seg.nil, Or.inr ⟨by simp [InR], (o, b), by simp, rfl, h⟩⟩

/-- One instruction whose only successor is the next position. -/
theorem Blk.single {P : Prog} {caps n o : Nat} {i : Instr} {a b' b : Ann} {X : List (Nat × Ann)}
    (ht : transfer P n caps o a i = .ok [(o + 1, b')]) (hb : Fits b' b) :
    Blk P caps n o [i] a [a] b X := by
  refine ⟨⟨rfl, ?_⟩, Or.inl ⟨by simp [InR], a, by simp, Fits.refl a⟩⟩
  intro j i' x hi hx
  cases j with
  | zero =>
    simp at hi hx
    subst hi hx
    refine ⟨_, ht, ?_⟩
    intro s hs
    simp at hs
    subst hs
    exact Or.inr ⟨by simp [InR], (o + 1, b), by simp, rfl, hb⟩
  | succ j => simp at hi

theorem Exits.fits {X : List (Nat × Ann)} {pc : Nat} {out out' : Ann} (hf : Fits out' out)
    (h : Exits X pc out) : Exits X pc out' := by
  obtain ⟨e, he, hp, hfit⟩ := h
  exact ⟨e, he, hp, hf.trans hfit⟩

theorem Flow.fits {o : Nat} {A : List Ann} {X : List (Nat × Ann)} {pc : Nat} {out out' : Ann}
    (hf : Fits out' out) (h : Flow o A (Exits X) pc out) : Flow o A (Exits X) pc out' := by
  rcases h with ⟨hin, y, hy, hfit⟩ | ⟨hout, hext⟩
  · exact Or.inl ⟨hin, y, hy, hf.trans hfit⟩
  · exact Or.inr ⟨hout, hext.fits hf⟩

/-- A block may be entered in any state that fits its entry state. -/
theorem Blk.enter {P : Prog} {caps n o : Nat} {code : List Instr} {a a' b : Ann} {A : List Ann}
    {X : List (Nat × Ann)} (h : Blk P caps n o code a A b X) (hf : Fits a' a) :
    Blk P caps n o code a' A b X := ⟨h.seg, h.entry.fits hf⟩

/-- Sequential composition. The extra exits must lie outside the composed block. -/
theorem Blk.seq {P : Prog} {caps n o : Nat} {c1 c2 : List Instr} {a m b : Ann} {A1 A2 : List Ann}
    {X : List (Nat × Ann)}
    (h1 : Blk P caps n o c1 a A1 m X) (h2 : Blk P caps n (o + c1.length) c2 m A2 b X)
    (hX : ∀ e ∈ X, ¬ InR o (c1.length + c2.length) e.1) :
    Blk P caps n o (c1 ++ c2) a (A1 ++ A2) b X := by
  have hl1 := h1.seg.len
  have hl2 := h2.seg.len
  have hlen : o + (c1 ++ c2).length = o + c1.length + c2.length := by
    rw [List.length_append]; omega
  -- an exit of either part, seen from the composed block
  have hexit : ∀ pc out, Exits ((o + c1.length + c2.length, b) :: X) pc out →
      Flow o (A1 ++ A2) (Exits ((o + (c1 ++ c2).length, b) :: X)) pc out := by
    intro pc out h
    obtain ⟨e, he, hp, hfit⟩ := h
    refine Or.inr ⟨?_, e, by rw [hlen]; exact he, hp, hfit⟩
    simp only [List.mem_cons] at he
    rcases he with rfl | he
    · simp [InR, hl1, hl2]; omega
    · have := hX e he
      simp only [InR, List.length_append, hl1, hl2]
      rw [hp]
      exact this
  -- the state in which the first part ends enters the second part
  have hmid : ∀ out, Fits out m → Flow o (A1 ++ A2) (Exits ((o + (c1 ++ c2).length, b) :: X)) (o + c1.length) out := by
    intro out hf
    rcases h2.entry with ⟨hin, y, hy, hfit⟩ | ⟨hout, hext⟩
    · have h1' := hin.2
      refine Or.inl ⟨⟨by omega, by simp [hl1]; omega⟩, y, ?_, hf.trans hfit⟩
      rw [List.getElem?_append_right (by omega)]
      have : o + c1.length - o - A1.length = o + c1.length - (o + c1.length) := by omega
      rw [this]
      exact hy
    · exact hexit _ _ (hext.fits hf)
  refine ⟨Seg.append h1.seg h2.seg ?_ ?_, ?_⟩
  · intro pc out _ h
    obtain ⟨e, he, hp, hfit⟩ := h
    simp only [List.mem_cons] at he
    rcases he with rfl | he
    · rw [hp]; exact hmid out hfit
    · exact hexit pc out ⟨e, List.mem_cons_of_mem _ he, hp, hfit⟩
  · intro pc out _ h
    exact hexit pc out h
  · rcases h1.entry with ⟨hin, y, hy, hfit⟩ | ⟨hout, hext⟩
    · refine Or.inl ⟨⟨hin.1, by have := hin.2; simp; omega⟩, y, ?_, hfit⟩
      rw [List.getElem?_append_left (by have := hin.2; omega)]
      exact hy
    · obtain ⟨e, he, hp, hfit⟩ := hext
      simp only [List.mem_cons] at he
      rcases he with rfl | he
      · have : c1.length = 0 := by
          have hp' : o = o + c1.length := hp
          omega
        have h0 := hmid a hfit
        simp only [this, Nat.add_zero] at h0
        exact h0
      · exact hexit o a ⟨e, List.mem_cons_of_mem _ he, hp, hfit⟩

theorem Blk.cons {P : Prog} {caps n o : Nat} {i : Instr} {rest : List Instr} {a m b' b : Ann}
    {A : List Ann} {X : List (Nat × Ann)}
    (ht : transfer P n caps o a i = .ok [(o + 1, b')]) (hb : Fits b' m)
    (h2 : Blk P caps n (o + 1) rest m A b X)
    (hX : ∀ e ∈ X, ¬ InR o (1 + rest.length) e.1) :
    Blk P caps n o (i :: rest) a (a :: A) b X :=
  Blk.seq (c1 := [i]) (A1 := [a]) (Blk.single ht hb) h2 hX

/-- One instruction, any successors: each must be the next position (fitting `b`) or an extra exit. -/
theorem Blk.instr {P : Prog} {caps n o : Nat} {i : Instr} {a b : Ann} {X : List (Nat × Ann)}
    {succs : List (Nat × Ann)}
    (ht : transfer P n caps o a i = .ok succs)
    (hs : ∀ s ∈ succs, s.1 ≠ o ∧ Exits ((o + 1, b) :: X) s.1 s.2) :
    Blk P caps n o [i] a [a] b X := by
  refine ⟨⟨rfl, ?_⟩, Or.inl ⟨by simp [InR], a, by simp, Fits.refl a⟩⟩
  intro j i' x hi hx
  cases j with
  | zero =>
    simp at hi hx
    subst hi hx
    refine ⟨_, ht, ?_⟩
    intro s hs'
    obtain ⟨h1, h2⟩ := hs s hs'
    exact Or.inr ⟨by simp [InR]; omega, h2⟩
  | succ j => simp at hi

/-- The entry state of the second part, seen from the composed block. -/
theorem Blk.seq_mid {P : Prog} {caps n o : Nat} {c1 c2 : List Instr} {a m b : Ann} {A1 A2 : List Ann}
    {X : List (Nat × Ann)}
    (h1 : Blk P caps n o c1 a A1 m X) (h2 : Blk P caps n (o + c1.length) c2 m A2 b X)
    (hne : c2 ≠ []) :
    ∃ x, (A1 ++ A2)[c1.length]? = some x ∧ Fits m x := by
  have hl1 := h1.seg.len
  have hl2 := h2.seg.len
  have hpos : 0 < c2.length := List.length_pos_iff.mpr hne
  rcases h2.entry with ⟨hin, y, hy, hfit⟩ | ⟨hout, _⟩
  · refine ⟨y, ?_, hfit⟩
    rw [List.getElem?_append_right (by omega), hl1]
    simpa using hy
  · exact absurd ⟨Nat.le_refl _, by omega⟩ hout

/-! ### From a typed block to the checker -/

theorem flowsTo_of_flow {n : Nat} {A : List Ann} {b : Ann} {pc : Nat} {out : Ann} (hA : A.length = n)
    (hb : b.height = 1) (h : Flow 0 A (Exits [(n, b)]) pc out) :
    flowsTo n (A.map some).toArray pc out = true := by
  unfold flowsTo
  rcases h with ⟨hin, x, hx, hfit⟩ | ⟨hout, e, he, hp, hfit⟩
  · have hlt : pc < n := by have := hin.2; omega
    have hne : pc ≠ n := by omega
    simp only [hne, if_false]
    have : (A.map some).toArray[pc]? = some (some x) := by
      simp only [Nat.sub_zero] at hx
      simp [hx]
    rw [this]
    obtain ⟨f1, f2, f3⟩ := hfit
    simp [f1, f2, f3]
  · simp only [List.mem_singleton] at he
    subst he
    simp only at hp hfit
    simp [hp, ← hfit.1, hb]

/-- **A typed block that starts in the entry state and ends with height 1 passes `checkFn`.** -/
theorem checkFn_of_blk {P : Prog} {caps tid : Nat} {code : List Instr} {A : List Ann} {b : Ann}
    (h : Blk P caps code.length 0 code ⟨1, caps, .none⟩ A b []) (hb : b.height = 1)
    (hsmall : code.length < maxCode) :
    checkFn P { instructions := code.toArray, captures := caps, typeId := tid } (A.map some).toArray = true := by
  have hl := h.seg.len
  have hseg := h.seg
  have hent := h.entry
  simp only [Nat.zero_add] at hseg hent
  unfold checkFn
  simp only [Bool.and_eq_true, beq_iff_eq, decide_eq_true_eq, List.all_eq_true, List.mem_range]
  refine ⟨⟨⟨by simp [hl], by simpa using hsmall⟩, ?_⟩, ?_⟩
  · simpa using flowsTo_of_flow hl hb hent
  · intro pc hpc
    simp only [List.size_toArray] at hpc
    unfold checkPc
    have hi : code.toArray[pc]? = some code[pc] := by simp [hpc]
    have hx : (A.map some).toArray[pc]? = some (some A[pc]) := by simp [hl, hpc]
    rw [hx, hi]
    obtain ⟨succs, ht, hf⟩ := hseg.step pc code[pc] A[pc] (by simp [hpc]) (by simp [hl, hpc])
    simp only [Nat.zero_add, List.size_toArray] at ht ⊢
    rw [ht]
    simp only [List.all_eq_true]
    intro s hs
    exact flowsTo_of_flow hl hb (hf s hs)

theorem Blk.at {P : Prog} {caps n o o' : Nat} {code : List Instr} {a b : Ann} {A : List Ann}
    {X : List (Nat × Ann)} (h : Blk P caps n o code a A b X) (ho : o = o') :
    Blk P caps n o' code a A b X := ho ▸ h

/-- More extra exits may be allowed. -/
theorem Blk.weaken {P : Prog} {caps n o : Nat} {code : List Instr} {a b : Ann} {A : List Ann}
    {X X' : List (Nat × Ann)} (h : Blk P caps n o code a A b X) (hsub : ∀ e ∈ X, e ∈ X') :
    Blk P caps n o code a A b X' := by
  have hext : ∀ pc out, Exits ((o + code.length, b) :: X) pc out → Exits ((o + code.length, b) :: X') pc out := by
    intro pc out ⟨e, he, hp, hfit⟩
    simp only [List.mem_cons] at he
    rcases he with rfl | he
    · exact ⟨_, List.mem_cons_self, hp, hfit⟩
    · exact ⟨e, List.mem_cons_of_mem _ (hsub e he), hp, hfit⟩
  exact ⟨h.seg.mono (fun pc out _ => hext pc out), h.entry.mono (fun _ => hext _ _)⟩

theorem Blk.cast {P : Prog} {caps n o : Nat} {code : List Instr} {a a' b b' : Ann} {A : List Ann}
    {X : List (Nat × Ann)} (h : Blk P caps n o code a A b X) (ha : a = a') (hb : b = b') :
    Blk P caps n o code a' A b' X := ha ▸ hb ▸ h

/-- The exit annotation may be weakened. -/
theorem Blk.exit {P : Prog} {caps n o : Nat} {code : List Instr} {a b b' : Ann} {A : List Ann}
    {X : List (Nat × Ann)} (h : Blk P caps n o code a A b X) (hf : Fits b b') :
    Blk P caps n o code a A b' X := by
  have hext : ∀ pc out, Exits ((o + code.length, b) :: X) pc out → Exits ((o + code.length, b') :: X) pc out := by
    intro pc out ⟨e, he, hp, hfit⟩
    simp only [List.mem_cons] at he
    rcases he with rfl | he
    · exact ⟨_, List.mem_cons_self, hp, hfit.trans hf⟩
    · exact ⟨e, List.mem_cons_of_mem _ he, hp, hfit⟩
  exact ⟨h.seg.mono (fun pc out _ => hext pc out), h.entry.mono (fun _ => hext _ _)⟩

/-- An extra exit that is the block's own end is no extra exit. -/
theorem Blk.absorb {P : Prog} {caps n o : Nat} {code : List Instr} {a b : Ann} {A : List Ann}
    {X : List (Nat × Ann)} (h : Blk P caps n o code a A b ((o + code.length, b) :: X)) :
    Blk P caps n o code a A b X := by
  have hext : ∀ pc out, Exits ((o + code.length, b) :: (o + code.length, b) :: X) pc out →
      Exits ((o + code.length, b) :: X) pc out := by
    intro pc out ⟨e, he, hp, hfit⟩
    simp only [List.mem_cons] at he
    rcases he with rfl | rfl | he
    · exact ⟨_, List.mem_cons_self, hp, hfit⟩
    · exact ⟨_, List.mem_cons_self, hp, hfit⟩
    · exact ⟨e, List.mem_cons_of_mem _ he, hp, hfit⟩
  exact ⟨h.seg.mono (fun pc out _ => hext pc out), h.entry.mono (fun _ => hext _ _)⟩

/-! ### Single instructions -/

section Singles
variable {P : Prog} {caps n o : Nat} {X : List (Nat × Ann)} {h l : Nat} {g : Guard}

theorem Blk.pop : Blk P caps n o [.pop] ⟨h + 1, l, g⟩ [⟨h + 1, l, g⟩] ⟨h, l, .none⟩ X :=
  Blk.single (by simp [transfer]) (Fits.refl _)

theorem Blk.constant {i : Nat} (hi : i < P.constants.size) :
    Blk P caps n o [.constant i] ⟨h, l, g⟩ [⟨h, l, g⟩] ⟨h + 1, l, .none⟩ X :=
  Blk.single (by simp [transfer, hi]) (Fits.refl _)

theorem Blk.duplicate : Blk P caps n o [.duplicate] ⟨h + 1, l, .none⟩ [⟨h + 1, l, .none⟩] ⟨h + 2, l, .none⟩ X :=
  Blk.single (b' := ⟨h + 2, l, .dup l⟩) (by simp [transfer]) (Fits.plain rfl (Nat.le_refl _))

theorem Blk.load {i : Nat} (hi : i < l) :
    Blk P caps n o [.load i] ⟨h, l, g⟩ [⟨h, l, g⟩] ⟨h + 1, l, .none⟩ X :=
  Blk.single (by simp [transfer, hi]) (Fits.refl _)

theorem Blk.store : Blk P caps n o [.store] ⟨h + 1, l, g⟩ [⟨h + 1, l, g⟩] ⟨h, l + 1, .none⟩ X :=
  Blk.single (by simp [transfer]) (Fits.refl _)

theorem Blk.get {k : Nat} : Blk P caps n o [.get k] ⟨h + 1, l, g⟩ [⟨h + 1, l, g⟩] ⟨h + 1, l, .none⟩ X :=
  Blk.single (by simp [transfer]) (Fits.refl _)

theorem Blk.tuple {id ar h' : Nat} (har : P.tuples[id]? = some ar) (hle : h = h' + ar) :
    Blk P caps n o [.tuple id] ⟨h, l, g⟩ [⟨h, l, g⟩] ⟨h' + 1, l, .none⟩ X :=
  Blk.single (b' := ⟨h - ar + 1, l, .none⟩) (by simp [transfer, har, hle]) (Fits.plain (by simp; omega) (Nat.le_refl _))

theorem Blk.rotate2 : Blk P caps n o [.rotate 2] ⟨h + 2, l, g⟩ [⟨h + 2, l, g⟩] ⟨h + 2, l, .none⟩ X :=
  Blk.single (by simp [transfer]) (Fits.refl _)

theorem Blk.pick {k : Nat} (hk : k < h) :
    Blk P caps n o [.pick k] ⟨h, l, g⟩ [⟨h, l, g⟩] ⟨h + 1, l, .none⟩ X :=
  Blk.single (by simp [transfer, hk]) (Fits.refl _)

theorem Blk.equal2 : Blk P caps n o [.equal 2] ⟨h + 2, l, g⟩ [⟨h + 2, l, g⟩] ⟨h + 1, l, .none⟩ X :=
  Blk.single (by simp [transfer]) (Fits.refl _)

theorem Blk.not : Blk P caps n o [.not] ⟨h + 1, l, .none⟩ [⟨h + 1, l, .none⟩] ⟨h + 1, l, .none⟩ X :=
  Blk.single (by simp [transfer]) (Fits.refl _)

theorem Blk.reset {k : Nat} (hk : k ≤ l) :
    Blk P caps n o [.reset k] ⟨h, l, g⟩ [⟨h, l, g⟩] ⟨h, k, .none⟩ X :=
  Blk.single (by simp [transfer, hk]) (Fits.refl _)

/-- `Duplicate` keeping what it knows: the two top cells are the same value -/
theorem Blk.duplicateG : Blk P caps n o [.duplicate] ⟨h + 1, l, .none⟩ [⟨h + 1, l, .none⟩] ⟨h + 2, l, .dup l⟩ X :=
  Blk.single (by simp [transfer]) (Fits.refl _)

theorem Blk.notG {k : Nat} : Blk P caps n o [.not] ⟨h + 1, l, .dup k⟩ [⟨h + 1, l, .dup k⟩] ⟨h + 1, l, .neg k⟩ X :=
  Blk.single (by simp [transfer]) (Fits.refl _)

end Singles

/-! ### Jumps -/

theorem ne_isizeMax {off : Int} (h : off < 2 ^ 62) : off ≠ isizeMax := by
  unfold isizeMax; omega

theorem transfer_jump {P : Prog} {n caps pc t : Nat} {off : Int} {a : Ann}
    (ht : (pc : Int) + off + 1 = t) (htn : t ≤ n) (hoff : off < 2 ^ 62) :
    transfer P n caps pc a (.jump off) = .ok [(t, a)] := by
  have h1 : staticTarget pc off = (t : Int) := ht
  have h2 : (0 : Int) ≤ (t : Int) := by omega
  have h3 : (t : Int) ≤ (n : Int) := by omega
  simp [transfer, h1, h3, ne_isizeMax hoff]

theorem transfer_jumpIf {P : Prog} {n caps pc t : Nat} {off : Int} {h l : Nat} {g : Guard}
    (ht : (pc : Int) + off + 1 = t) (htn : t ≤ n) (hoff : off < 2 ^ 62) (hg : ∀ k, g ≠ .neg k) :
    transfer P n caps pc ⟨h + 1, l, g⟩ (.jumpIf off) =
      .ok [(t, ⟨h, l, .none⟩), (pc + 1, ⟨h, l, .none⟩)] := by
  have h1 : staticTarget pc off = (t : Int) := ht
  have h3 : (t : Int) ≤ (n : Int) := by omega
  cases g with
  | neg k => exact absurd rfl (hg k)
  | _ => simp [transfer, h1, h3, ne_isizeMax hoff]

theorem transfer_jumpIf_neg {P : Prog} {n caps pc t : Nat} {off : Int} {h l k : Nat}
    (ht : (pc : Int) + off + 1 = t) (htn : t ≤ n) (hoff : off < 2 ^ 62) :
    transfer P n caps pc ⟨h + 1, l, .neg k⟩ (.jumpIf off) =
      .ok [(t, ⟨h, l, .nilTop⟩), (pc + 1, ⟨h, max k l, .none⟩)] := by
  have h1 : staticTarget pc off = (t : Int) := ht
  have h3 : (t : Int) ≤ (n : Int) := by omega
  simp [transfer, h1, h3, ne_isizeMax hoff]

/-! ## Fragment 1 (`Core/RefSem/Compile1.lean`): locals, bindings, simple match patterns -/

namespace F1
open QM.RefSem.C1

theorem slot_lt : ∀ (Γ : List String) (x : String) (i : Nat), slot Γ x = some i → i < Γ.length
  | [], _, _, h => by simp [slot] at h
  | y :: r, x, i, h => by
    simp only [slot] at h
    split at h
    · rename_i j hj
      cases h
      have := slot_lt r x j hj
      simp; omega
    · split at h
      · cases h; simp
      · cases h

section Pieces
variable {P : Prog} {caps n : Nat} {M h l : Nat}

/-- test of a top-level literal: a failing test jumps back to the fail jump at `M + 1` -/
theorem testTop_blk (s : Sub) (q : Nat) (hq : 2 ≤ q) (hw : wfSub P s)
    (hle : M + q + (testTop s q).length ≤ n) :
    ∃ A, Blk P caps n (M + q) (testTop s q) ⟨h + 1, l, .none⟩ A ⟨h + 1, l, .none⟩
      [(M + 1, ⟨h + 1, l, .none⟩)] := by
  cases s with
  | bind x => exact ⟨[], Blk.empty (Fits.refl _)⟩
  | wild => exact ⟨[], Blk.empty (Fits.refl _)⟩
  | lit z c =>
    have hc : c < P.constants.size := (Array.getElem?_eq_some_iff.mp hw).1
    simp only [testTop, List.length_cons, List.length_nil] at hle
    apply Exists.intro
    simp only [testTop]
    refine Blk.seq (c1 := [.duplicate]) Blk.duplicate
      (Blk.seq (c1 := [.constant c]) (Blk.constant hc)
        (Blk.seq (c1 := [.equal 2]) Blk.equal2
          (Blk.seq (c1 := [.not]) Blk.not
            (Blk.instr (transfer_jumpIf (t := M + 1) ?_ (by omega) (by omega) (by intro k hk; cases hk)) ?_)
            ?_) ?_) ?_) ?_
    · simp only [List.length_cons, List.length_nil]; omega
    · intro s hs
      simp only [List.mem_cons, List.not_mem_nil, or_false] at hs
      rcases hs with rfl | rfl
      · exact ⟨by simp; omega, _, List.mem_cons_of_mem _ List.mem_cons_self, rfl, Fits.refl _⟩
      · exact ⟨by simp, _, List.mem_cons_self, rfl, Fits.refl _⟩
    all_goals (simp [InR]; omega)

/-- tests of the literal sub-patterns of a tuple pattern -/
theorem testsFields_blk : ∀ (subs : List Sub) (k q : Nat), 2 ≤ q → wfSubs P subs →
    M + q + (testsFields subs k q).length ≤ n →
    ∃ A, Blk P caps n (M + q) (testsFields subs k q) ⟨h + 1, l, .none⟩ A ⟨h + 1, l, .none⟩
      [(M + 1, ⟨h + 1, l, .none⟩)]
  | [], _, _, _, _, _ => ⟨[], Blk.empty (Fits.refl _)⟩
  | .bind _ :: r, k, q, hq, hw, hle => by
    simp only [testsFields] at hle ⊢
    exact testsFields_blk r (k + 1) q hq hw.2 hle
  | .wild :: r, k, q, hq, hw, hle => by
    simp only [testsFields] at hle ⊢
    exact testsFields_blk r (k + 1) q hq hw.2 hle
  | .lit z c :: r, k, q, hq, hw, hle => by
    have hc : c < P.constants.size := (Array.getElem?_eq_some_iff.mp hw.1).1
    simp only [testsFields, List.length_append, List.length_cons, List.length_nil] at hle
    obtain ⟨A2, h2⟩ := testsFields_blk r (k + 1) (q + 6) (by omega) hw.2 (by omega)
    apply Exists.intro
    simp only [testsFields]
    refine Blk.seq (c1 := [.duplicate, .get k, .constant c, .equal 2, .not, .jumpIf _])
      (Blk.seq (c1 := [.duplicate]) Blk.duplicate
        (Blk.seq (c1 := [.get k]) Blk.get
          (Blk.seq (c1 := [.constant c]) (Blk.constant hc)
            (Blk.seq (c1 := [.equal 2]) Blk.equal2
              (Blk.seq (c1 := [.not]) Blk.not
                (Blk.instr (transfer_jumpIf (t := M + 1) ?_ (by omega) (by omega) (by intro k hk; cases hk)) ?_)
                ?_) ?_) ?_) ?_) ?_) (h2.at (by simp only [List.length_cons, List.length_nil]; omega)) ?_
    · simp only [List.length_cons, List.length_nil]; omega
    · intro s hs
      simp only [List.mem_cons, List.not_mem_nil, or_false] at hs
      rcases hs with rfl | rfl
      · exact ⟨by simp; omega, _, List.mem_cons_of_mem _ List.mem_cons_self, rfl, Fits.refl _⟩
      · exact ⟨by simp, _, List.mem_cons_self, rfl, Fits.refl _⟩
    all_goals (simp [InR]; omega)

theorem bindTop_blk {o : Nat} (s : Sub) :
    ∃ A, Blk P caps n o (bindTop s) ⟨h + 1, l, .none⟩ A ⟨h + 1, l + (subBinds s).length, .none⟩ [] := by
  cases s with
  | bind x => exact ⟨_, Blk.seq (c1 := [.duplicate]) Blk.duplicate Blk.store (by simp)⟩
  | wild => exact ⟨[], Blk.empty (Fits.refl _)⟩
  | lit z c => exact ⟨[], Blk.empty (Fits.refl _)⟩

theorem bindsCode_blk : ∀ (bs : List (String × Nat)) (o l : Nat),
    ∃ A, Blk P caps n o (bindsCode bs) ⟨h + 1, l, .none⟩ A ⟨h + 1, l + bs.length, .none⟩ []
  | [], _, _ => ⟨[], Blk.empty (Fits.refl _)⟩
  | (_, k) :: r, o, l => by
    obtain ⟨A2, h2⟩ := bindsCode_blk r (o + 3) (l + 1)
    have e : l + 1 + r.length = l + ((r.length) + 1) := by omega
    rw [e] at h2
    apply Exists.intro
    simp only [bindsCode, List.length_cons]
    exact Blk.seq (c1 := [.duplicate, .get k, .store])
      (Blk.seq (c1 := [.duplicate]) Blk.duplicate
        (Blk.seq (c1 := [.get k]) Blk.get Blk.store (by simp)) (by simp)) h2 (by simp)

theorem nilFill_length : ∀ nb, (nilFill nb).length = 2 * nb
  | 0 => rfl
  | nb + 1 => by simp [nilFill, nilFill_length nb]; omega

theorem nilFill_blk (h0 : P.tuples[0]? = some 0) : ∀ (nb o l : Nat),
    ∃ A, Blk P caps n o (nilFill nb) ⟨h + 1, l, .none⟩ A ⟨h + 1, l + nb, .none⟩ []
  | 0, _, _ => ⟨[], Blk.empty (Fits.refl _)⟩
  | nb + 1, o, l => by
    obtain ⟨A2, h2⟩ := nilFill_blk h0 nb (o + 2) (l + 1)
    have e : l + 1 + nb = l + (nb + 1) := by omega
    rw [e] at h2
    apply Exists.intro
    simp only [nilFill]
    exact Blk.seq (c1 := [.tuple 0, .store])
      (Blk.seq (c1 := [.tuple 0]) (Blk.tuple (h' := h + 1) h0 rfl) Blk.store (by simp)) h2 (by simp)

theorem matchCode_eq (tests binds : List Instr) (nb : Nat) :
    matchCode tests binds nb =
      [.jump 1, .jump ((tests.length + binds.length + 3 : Nat) : Int)] ++
        (((tests ++ binds) ++ [.pop, .tuple 1, .jump ((2 * nb + 2 : Nat) : Int)]) ++
          (nilFill nb ++ [.pop, .tuple 0])) := by
  simp [matchCode, List.append_assoc]

/-- compile_match's template: the fail jump at `M + 1` (target of every failing test) leads to the
nil fill, which stores as many nils as the success path stores bindings — both paths reach the end
with the same locals. -/
theorem matchCode_blk (hn : n < maxCode) (hP : wfProg P) {tests binds : List Instr} {nb : Nat}
    {At Ab : List Ann}
    (ht : Blk P caps n (M + 2) tests ⟨h + 1, l, .none⟩ At ⟨h + 1, l, .none⟩ [(M + 1, ⟨h + 1, l, .none⟩)])
    (hb : Blk P caps n (M + 2 + tests.length) binds ⟨h + 1, l, .none⟩ Ab ⟨h + 1, l + nb, .none⟩ [])
    (hle : M + (matchCode tests binds nb).length ≤ n) :
    ∃ A, Blk P caps n M (matchCode tests binds nb) ⟨h + 1, l, .none⟩ A ⟨h + 1, l + nb, .none⟩ [] := by
  unfold maxCode at hn
  have hlen : (matchCode tests binds nb).length = tests.length + binds.length + 2 * nb + 7 := by
    simp [matchCode, nilFill_length]; omega
  rw [hlen] at hle
  -- names
  generalize hE : M + tests.length + binds.length + 2 * nb + 7 = E
  let a0 : Ann := ⟨h + 1, l, .none⟩
  let b : Ann := ⟨h + 1, l + nb, .none⟩
  let X : List (Nat × Ann) := [(M + 1, a0), (E, b)]
  -- tests ++ binds
  have h_tb : Blk P caps n (M + 2) (tests ++ binds) a0 (At ++ Ab) b X :=
    Blk.seq (ht.weaken (by intro e he; simp only [List.mem_singleton] at he; subst he; exact List.mem_cons_self))
      (hb.weaken (by intro e he; cases he))
      (by intro e he
          simp only [X, List.mem_cons, List.not_mem_nil, or_false] at he
          rcases he with rfl | rfl <;> outside)
  -- Pop, Tuple(OK), Jump(over the failure path): no fall-through
  have h_mid : Blk P caps n (M + 2 + (tests ++ binds).length)
      [.pop, .tuple 1, .jump ((2 * nb + 2 : Nat) : Int)] b [b, ⟨h, l + nb, .none⟩, b] a0 X := by
    refine Blk.seq (c1 := [.pop]) Blk.pop
      (Blk.seq (c1 := [.tuple 1]) (Blk.tuple (h' := h) hP.2 rfl)
        (Blk.instr (transfer_jump (t := E) ?_ (by omega) (by omega)) ?_) ?_) ?_
    · simp only [List.length_append, List.length_cons, List.length_nil]; omega
    · intro s hs
      simp only [List.mem_singleton] at hs
      subst hs
      refine ⟨?_, (E, b), by simp [X], rfl, Fits.refl _⟩
      simp only [List.length_append, List.length_cons, List.length_nil]; omega
    all_goals
      (intro e he
       simp only [X, List.mem_cons, List.not_mem_nil, or_false] at he
       rcases he with rfl | rfl <;> outside)
  -- the failure path
  obtain ⟨Af, hf⟩ := nilFill_blk (caps := caps) (n := n) (h := h) hP.1 nb
    (M + 2 + (tests ++ binds ++ [Instr.pop, .tuple 1, .jump ((2 * nb + 2 : Nat) : Int)]).length) l
  have h_fill : Blk P caps n (M + 2 + (tests ++ binds ++ [Instr.pop, .tuple 1, .jump ((2 * nb + 2 : Nat) : Int)]).length)
      (nilFill nb ++ [.pop, .tuple 0]) a0 (Af ++ [b, ⟨h, l + nb, .none⟩]) b X :=
    (Blk.seq hf (Blk.seq (c1 := [.pop]) Blk.pop (Blk.tuple (h' := h) hP.1 rfl) (by simp)) (by simp)).weaken
      (by intro e he; cases he)
  have hX : ∀ e ∈ X, ¬ InR (M + 2) ((tests ++ binds ++ [Instr.pop, .tuple 1, .jump ((2 * nb + 2 : Nat) : Int)]).length +
      (nilFill nb ++ [Instr.pop, .tuple 0]).length) e.1 := by
    intro e he
    simp only [X, List.mem_cons, List.not_mem_nil, or_false] at he
    rcases he with rfl | rfl <;>
      first | (simp [InR, nilFill_length]; done) | (simp [InR, nilFill_length]; omega)
  have h_main := Blk.seq h_tb h_mid (by
    intro e he
    simp only [X, List.mem_cons, List.not_mem_nil, or_false] at he
    rcases he with rfl | rfl <;> outside)
  have h_rest := Blk.seq h_main h_fill hX
  obtain ⟨xf, hxf, hfitf⟩ := Blk.seq_mid h_main h_fill (by simp)
  -- the first annotation of the rest
  have hrest0 : ∃ x, ((At ++ Ab ++ [b, ⟨h, l + nb, .none⟩, b]) ++ (Af ++ [b, ⟨h, l + nb, .none⟩]))[0]? = some x ∧ Fits a0 x := by
    rcases h_rest.entry with ⟨_, y, hy, hfit⟩ | ⟨hout, _⟩
    · exact ⟨y, by simpa using hy, hfit⟩
    · exact absurd ⟨Nat.le_refl _, by simp; omega⟩ hout
  obtain ⟨x0, hx0, hfit0⟩ := hrest0
  have hrl := h_rest.seg.len
  rw [matchCode_eq]
  refine ⟨[a0, a0] ++ ((At ++ Ab ++ [b, ⟨h, l + nb, .none⟩, b]) ++ (Af ++ [b, ⟨h, l + nb, .none⟩])), ?_, ?_⟩
  · -- the two jumps at the head
    have h_head : Seg P caps n M [.jump 1, .jump ((tests.length + binds.length + 3 : Nat) : Int)] [a0, a0]
        (Exits [(M + 2, a0), (M + tests.length + binds.length + 5, a0)]) := by
      refine ⟨rfl, ?_⟩
      intro j i x hi hx
      match j with
      | 0 =>
        simp at hi hx; subst hi hx
        refine ⟨_, transfer_jump (t := M + 2) (by omega) (by omega) (by omega), ?_⟩
        intro s hs
        simp only [List.mem_singleton] at hs
        subst hs
        exact Or.inr ⟨by simp [InR], _, List.mem_cons_self, rfl, Fits.refl _⟩
      | 1 =>
        simp at hi hx; subst hi hx
        refine ⟨_, transfer_jump (t := M + tests.length + binds.length + 5) (by omega) (by omega) (by omega), ?_⟩
        intro s hs
        simp only [List.mem_singleton] at hs
        subst hs
        exact Or.inr ⟨by outside, _, List.mem_cons_of_mem _ List.mem_cons_self, rfl, Fits.refl _⟩
      | j + 2 => simp at hi
    refine Seg.append h_head h_rest.seg ?_ ?_
    · -- the exits of the head land inside the rest
      intro pc out _ hext
      obtain ⟨e, he, hp, hfit⟩ := hext
      simp only [List.mem_cons, List.not_mem_nil, or_false] at he
      rcases he with rfl | rfl
      · refine Or.inl ⟨⟨by omega, ?_⟩, x0, ?_, hfit.trans hfit0⟩
        · simp only [List.length_append, List.length_cons, List.length_nil] at hrl ⊢; omega
        · rw [hp, List.getElem?_append_right (by simp)]
          simpa using hx0
      · refine Or.inl ⟨⟨by omega, ?_⟩, xf, ?_, hfit.trans hfitf⟩
        · simp only [List.length_append, List.length_cons, List.length_nil] at hrl ⊢; omega
        · rw [hp, List.getElem?_append_right (by simp; omega)]
          have : M + tests.length + binds.length + 5 - M - [a0, a0].length =
              (tests ++ binds ++ [Instr.pop, .tuple 1, .jump ((2 * nb + 2 : Nat) : Int)]).length := by
            simp; omega
          rw [this]
          exact hxf
    · -- the exits of the rest: the end, or the fail jump
      intro pc out _ hext
      obtain ⟨e, he, hp, hfit⟩ := hext
      simp only [X, List.mem_cons, List.not_mem_nil, or_false] at he
      have hend : M + 2 + ((tests ++ binds ++ [Instr.pop, .tuple 1, .jump ((2 * nb + 2 : Nat) : Int)]) ++
          (nilFill nb ++ [Instr.pop, .tuple 0])).length = E := by
        simp [nilFill_length]; omega
      have hEx : ∀ out, Fits out b → Flow M ([a0, a0] ++ ((At ++ Ab ++ [b, ⟨h, l + nb, .none⟩, b]) ++ (Af ++ [b, ⟨h, l + nb, .none⟩])))
          (Exits ((M + ([Instr.jump 1, .jump ((tests.length + binds.length + 3 : Nat) : Int)] ++
            ((tests ++ binds ++ [Instr.pop, .tuple 1, .jump ((2 * nb + 2 : Nat) : Int)]) ++
              (nilFill nb ++ [Instr.pop, .tuple 0]))).length, b) :: [])) E out := by
        intro out hf
        refine Or.inr ⟨?_, _, List.mem_cons_self, ?_, hf⟩
        · simp only [List.length_append, List.length_cons, List.length_nil, nilFill_length] at hrl ⊢
          simp only [InR]; omega
        · simp [nilFill_length]; omega
      rcases he with rfl | rfl | rfl
      · rw [hp, hend]; exact hEx out hfit
      · rw [hp]
        refine Or.inl ⟨⟨by simp, by simp⟩, a0, ?_, hfit⟩
        simp
      · rw [hp]; exact hEx out hfit
  · exact Or.inl ⟨⟨Nat.le_refl _, by simp⟩, a0, by simp, Fits.refl _⟩

theorem compilePat_blk (hn : n < maxCode) (hP : wfProg P) (p : Pat1) (hw : wfPat P p)
    (hle : M + (compilePat p).length ≤ n) :
    ∃ A, Blk P caps n M (compilePat p) ⟨h + 1, l, .none⟩ A ⟨h + 1, l + (patBinds p).length, .none⟩ [] := by
  cases p with
  | top s =>
    simp only [compilePat] at hle ⊢
    have hlen : (matchCode (testTop s 2) (bindTop s) (subBinds s).length).length =
        (testTop s 2).length + (bindTop s).length + 2 * (subBinds s).length + 7 := by
      simp [matchCode, nilFill_length]; omega
    obtain ⟨At, ht⟩ := testTop_blk (caps := caps) (n := n) (M := M) (h := h) (l := l) s 2 (Nat.le_refl _) hw (by omega)
    obtain ⟨Ab, hb⟩ := bindTop_blk (P := P) (caps := caps) (n := n) (h := h) (l := l)
      (o := M + 2 + (testTop s 2).length) s
    exact matchCode_blk hn hP ht hb hle
  | tup subs =>
    simp only [compilePat] at hle ⊢
    have hlen : (matchCode (testsFields subs 0 2) (bindsCode (sortB (binders subs 0))) (subsBinds subs).length).length =
        (testsFields subs 0 2).length + (bindsCode (sortB (binders subs 0))).length + 2 * (subsBinds subs).length + 7 := by
      simp [matchCode, nilFill_length]; omega
    obtain ⟨At, ht⟩ := testsFields_blk (caps := caps) (n := n) (M := M) (h := h) (l := l) subs 0 2 (Nat.le_refl _) hw (by omega)
    obtain ⟨Ab, hb⟩ := bindsCode_blk (P := P) (caps := caps) (n := n) (h := h) (sortB (binders subs 0))
      (M + 2 + (testsFields subs 0 2).length) l
    have e : (sortB (binders subs 0)).length = (patBinds (.tup subs)).length := by simp [patBinds, subsBinds]
    rw [e] at hb
    exact matchCode_blk hn hP ht hb hle

end Pieces

/-! ### Scoping: every variable read has a slot -/

mutual
  def scT (Γ : List String) : T1 → Prop
    | .var x => ∃ i, slot Γ x = some i
    | .tup _ fs => scFs Γ fs
    | _ => True
  def scCh (Γ : List String) : Ch1 → Prop
    | .nil => True
    | .cons t r => scT Γ t ∧ scCh (compileT Γ t).2 r
  def scFs (Γ : List String) : Fs1 → Prop
    | .nil => True
    | .cons c r => scCh Γ c ∧ scFs (compileCh Γ c).2 r
end

def scSq (Γ : List String) : Sq1 → Prop
  | .last c => scCh Γ c
  | .cons c r => scCh Γ c ∧ scSq (compileCh Γ c).2 r

/-! ### The compile-time locals only grow -/

mutual
theorem compileT_len : (t : T1) → (Γ : List String) → Γ.length ≤ (compileT Γ t).2.length
  | .int _ _, Γ => by simp [compileT]
  | .ripple, Γ => by simp [compileT]
  | .tup _ fs, Γ => by simp only [compileT]; exact compileFs_len fs Γ 0
  | .var _, Γ => by simp [compileT]
  | .mtch p, Γ => by simp [compileT]
theorem compileCh_len : (c : Ch1) → (Γ : List String) → Γ.length ≤ (compileCh Γ c).2.length
  | .nil, Γ => by simp [compileCh]
  | .cons t r, Γ => by
    simp only [compileCh]
    exact Nat.le_trans (compileT_len t Γ) (compileCh_len r _)
theorem compileFs_len : (fs : Fs1) → (Γ : List String) → (k : Nat) → Γ.length ≤ (compileFs Γ fs k).2.length
  | .nil, Γ, _ => by simp [compileFs]
  | .cons c r, Γ, k => by
    simp only [compileFs]
    exact Nat.le_trans (compileCh_len c Γ) (compileFs_len r _ (k + 1))
end

theorem compileSq_len : (sq : Sq1) → (Γ : List String) → Γ.length ≤ (compileSq Γ sq).2.length
  | .last c, Γ => by simp only [compileSq]; exact compileCh_len c Γ
  | .cons c r, Γ => by
    simp only [compileSq]
    exact Nat.le_trans (compileCh_len c Γ) (compileSq_len r _)

/-! ### Terms, chains, fields, sequences -/

section Compile
variable {P : Prog} {caps n : Nat} (hn : n < maxCode) (hP : wfProg P)
include hn hP
set_option linter.unusedSectionVars false

mutual
/-- A term: the flowing value is on top (height `h + 1`), the frame has exactly the compile-time
locals on entry and on exit. -/
theorem compileT_blk : (t : T1) → (Γ : List String) → (o h : Nat) → wfT P t → scT Γ t →
    o + (compileT Γ t).1.length ≤ n →
    ∃ A, Blk P caps n o (compileT Γ t).1 ⟨h + 1, Γ.length, .none⟩ A
      ⟨h + 1, (compileT Γ t).2.length, .none⟩ []
  | .int z i, Γ, o, h, hw, _, _ => by
    have hi : i < P.constants.size := (Array.getElem?_eq_some_iff.mp hw).1
    exact ⟨_, Blk.seq (c1 := [.pop]) Blk.pop (Blk.constant hi) (by simp)⟩
  | .ripple, Γ, o, h, _, _, _ => ⟨[], Blk.empty (Fits.refl _)⟩
  | .tup id fs, Γ, o, h, hw, hs, hle => by
    simp only [compileT, List.length_append, List.length_cons, List.length_nil] at hle ⊢
    obtain ⟨A1, h1⟩ := compileFs_blk fs Γ 0 o h hw.2 hs (by omega)
    refine ⟨_, Blk.seq h1
      (Blk.seq (c1 := [.tuple id]) (Blk.tuple (h' := h + 1) hw.1 (by omega))
        (Blk.seq (c1 := [.rotate 2]) Blk.rotate2 Blk.pop (by simp)) (by simp)) (by simp)⟩
  | .var x, Γ, o, h, _, hs, _ => by
    obtain ⟨i, hi⟩ := hs
    simp only [compileT, hi, Option.getD_some]
    exact ⟨_, Blk.seq (c1 := [.pop]) Blk.pop (Blk.load (slot_lt Γ x i hi)) (by simp)⟩
  | .mtch p, Γ, o, h, hw, _, hle => by
    simp only [compileT, List.length_append] at hle ⊢
    exact compilePat_blk hn hP p hw hle
theorem compileCh_blk : (c : Ch1) → (Γ : List String) → (o h : Nat) → wfCh P c → scCh Γ c →
    o + (compileCh Γ c).1.length ≤ n →
    ∃ A, Blk P caps n o (compileCh Γ c).1 ⟨h + 1, Γ.length, .none⟩ A
      ⟨h + 1, (compileCh Γ c).2.length, .none⟩ []
  | .nil, Γ, o, h, _, _, _ => ⟨[], Blk.empty (Fits.refl _)⟩
  | .cons t r, Γ, o, h, hw, hs, hle => by
    simp only [compileCh, List.length_append] at hle ⊢
    obtain ⟨A1, h1⟩ := compileT_blk t Γ o h hw.1 hs.1 (by omega)
    obtain ⟨A2, h2⟩ := compileCh_blk r (compileT Γ t).2 (o + (compileT Γ t).1.length) h hw.2 hs.2 (by omega)
    exact ⟨_, Blk.seq h1 h2 (by simp)⟩
/-- The fields of a tuple literal: `k` field values lie above the flowing value already. -/
theorem compileFs_blk : (fs : Fs1) → (Γ : List String) → (k o h : Nat) → wfFs P fs → scFs Γ fs →
    o + (compileFs Γ fs k).1.length ≤ n →
    ∃ A, Blk P caps n o (compileFs Γ fs k).1 ⟨h + 1 + k, Γ.length, .none⟩ A
      ⟨h + 1 + k + fs.length, (compileFs Γ fs k).2.length, .none⟩ []
  | .nil, Γ, k, o, h, _, _, _ => ⟨[], Blk.empty (Fits.refl _)⟩
  | .cons c r, Γ, k, o, h, hw, hs, hle => by
    simp only [compileFs, List.length_append, List.length_cons, List.length_nil] at hle ⊢
    obtain ⟨A1, h1⟩ := compileCh_blk c Γ (o + 1) (h + 1 + k) hw.1 hs.1 (by omega)
    obtain ⟨A2, h2⟩ := compileFs_blk r (compileCh Γ c).2 (k + 1) (o + 1 + (compileCh Γ c).1.length) h hw.2 hs.2 (by omega)
    have e1 : (⟨h + 1 + (k + 1), (compileCh Γ c).2.length, .none⟩ : Ann) = ⟨h + 1 + k + 1, (compileCh Γ c).2.length, .none⟩ := rfl
    have e2 : (⟨h + 1 + (k + 1) + r.length, (compileFs (compileCh Γ c).2 r (k + 1)).2.length, .none⟩ : Ann) =
        ⟨h + 1 + k + (Fs1.cons c r).length, (compileFs (compileCh Γ c).2 r (k + 1)).2.length, .none⟩ := by
      simp only [Fs1.length]
      congr 1
      omega
    exact ⟨_, Blk.seq (Blk.seq (c1 := [.pick k]) (Blk.pick (by omega)) h1 (by simp))
      ((h2.cast e1 e2).at (by simp only [List.length_append, List.length_cons, List.length_nil]; omega)) (by simp)⟩
end

/-- A sequence `c₁, c₂, …`: every step but the last is followed by `Duplicate, Not, JumpIf(→ end)`.
The short-circuit leaves with the value — known to be nil — on top and only the locals of the
steps that ran; the full path leaves with all the sequence's locals. Hence the exit annotation:
at least `l0` locals (any `l0` up to the locals at the start), and **if the value is non-nil, all
of them** — which is what a branch consequence compiled under the condition's bindings needs. -/
theorem compileSq_blk : (sq : Sq1) → (Γ : List String) → (o h l0 : Nat) → wfSq P sq → scSq Γ sq →
    l0 ≤ Γ.length → o + (compileSq Γ sq).1.length ≤ n →
    ∃ A, Blk P caps n o (compileSq Γ sq).1 ⟨h + 1, Γ.length, .none⟩ A
      ⟨h + 1, l0, .top (compileSq Γ sq).2.length⟩ []
  | .last c, Γ, o, h, l0, hw, hs, hl0, hle => by
    simp only [compileSq] at hle ⊢
    obtain ⟨A, hA⟩ := compileCh_blk hn hP c Γ o h hw hs hle
    refine ⟨A, hA.exit ⟨rfl, Nat.le_trans hl0 (compileCh_len c Γ), ?_⟩⟩
    simp [guardFlows, Ann.eff]
  | .cons c r, Γ, o, h, l0, hw, hs, hl0, hle => by
    simp only [compileSq, List.length_append, List.length_cons, List.length_nil] at hle ⊢
    have hmono := compileCh_len c Γ
    obtain ⟨A1, h1⟩ := compileCh_blk (caps := caps) hn hP c Γ o h hw.1 hs.1 (by omega)
    obtain ⟨A2, h2⟩ := compileSq_blk r (compileCh Γ c).2
      (o + ((compileCh Γ c).1 ++ [Instr.duplicate, .not, .jumpIf ((compileSq (compileCh Γ c).2 r).1.length : Int)]).length)
      h l0 hw.2 hs.2 (by omega) (by simp only [List.length_append, List.length_cons, List.length_nil]; omega)
    generalize hE : o + (compileCh Γ c).1.length + 3 + (compileSq (compileCh Γ c).2 r).1.length = E at *
    let bE : Ann := ⟨h + 1, l0, .top (compileSq (compileCh Γ c).2 r).2.length⟩
    -- Duplicate, Not, JumpIf(→ end): the taken side knows the value is nil
    have hj : Blk P caps n (o + (compileCh Γ c).1.length)
        [.duplicate, .not, .jumpIf ((compileSq (compileCh Γ c).2 r).1.length : Int)]
        ⟨h + 1, (compileCh Γ c).2.length, .none⟩
        [⟨h + 1, (compileCh Γ c).2.length, .none⟩, ⟨h + 2, (compileCh Γ c).2.length, .dup (compileCh Γ c).2.length⟩,
          ⟨h + 2, (compileCh Γ c).2.length, .neg (compileCh Γ c).2.length⟩]
        ⟨h + 1, (compileCh Γ c).2.length, .none⟩ [(E, bE)] := by
      unfold maxCode at hn
      refine Blk.seq (c1 := [.duplicate]) Blk.duplicateG
        (Blk.seq (c1 := [.not]) Blk.notG
          (Blk.instr (transfer_jumpIf_neg (t := E) ?_ (by omega) (by omega)) ?_) ?_) ?_
      · simp only [List.length_cons, List.length_nil]; omega
      · intro s hs'
        simp only [List.mem_cons, List.not_mem_nil, or_false] at hs'
        rcases hs' with rfl | rfl
        · refine ⟨by simp only [List.length_cons, List.length_nil]; omega, (E, bE),
            List.mem_cons_of_mem _ List.mem_cons_self, rfl, rfl, Nat.le_trans hl0 hmono, ?_⟩
          simp [guardFlows, bE]
        · refine ⟨by simp, _, List.mem_cons_self, rfl, Fits.plain rfl ?_⟩
          simp
      all_goals
        (intro e he
         simp only [List.mem_singleton] at he
         subst he
         outside)
    have h12 := Blk.seq (h1.weaken (X' := [(E, bE)]) (by intro e he; cases he)) hj (by
      intro e he
      simp only [List.mem_singleton] at he
      subst he
      outside)
    have h123 := Blk.seq h12 (h2.weaken (X' := [(E, bE)]) (by intro e he; cases he)) (by
      intro e he
      simp only [List.mem_singleton] at he
      subst he
      outside)
    have hEnd : o + ((compileCh Γ c).1 ++ [Instr.duplicate, .not, .jumpIf ((compileSq (compileCh Γ c).2 r).1.length : Int)] ++
        (compileSq (compileCh Γ c).2 r).1).length = E := by
      simp only [List.length_append, List.length_cons, List.length_nil]; omega
    rw [← hEnd] at h123
    exact ⟨_, h123.absorb⟩

end Compile

/-! ### Fragment 1: the compiled function passes the checker -/

/-- **Every function the fragment-1 compiler emits is accepted by the verified checker**: for every
sequence `sq` of the fragment (well-formed against the program's tables, every variable read in
scope of the `Γ.length` captures or of an earlier binding), the function whose code is
`compileSq Γ sq` passes `checkFn` with some annotation. -/
theorem compileSq_checkFn {P : Prog} (hP : wfProg P) (Γ : List String) (sq : Sq1) (tid : Nat)
    (hw : wfSq P sq) (hs : scSq Γ sq) (hsmall : (compileSq Γ sq).1.length < maxCode) :
    ∃ anns, checkFn P { instructions := (compileSq Γ sq).1.toArray, captures := Γ.length, typeId := tid } anns = true := by
  obtain ⟨A, hA⟩ := compileSq_blk (caps := Γ.length) hsmall hP sq Γ 0 0 Γ.length hw hs (Nat.le_refl _) (by simp)
  exact ⟨_, checkFn_of_blk hA rfl hsmall⟩

/-- A program all of whose functions are compiled fragment-1 sequences. -/
def Frag1Prog (P : Prog) : Prop :=
  wfProg P ∧ ∀ (f : Nat) (fn : Function), P.functions[f]? = some fn →
    ∃ (Γ : List String) (sq : Sq1), fn.instructions = (compileSq Γ sq).1.toArray ∧ fn.captures = Γ.length ∧
      wfSq P sq ∧ scSq Γ sq ∧ (compileSq Γ sq).1.length < maxCode

/-- … is certified: there are annotations with which every function passes `checkAnn`. -/
theorem frag1_allChecked {P : Prog} (h : Frag1Prog P) : ∃ A, AllChecked P A := by
  obtain ⟨hP, hfn⟩ := h
  have hex : ∀ f : Nat, ∃ anns : Anns, f < P.functions.size → checkAnn P f anns = true := by
    intro f
    by_cases hf : f < P.functions.size
    · have hget : P.functions[f]? = some P.functions[f] := by simp [hf]
      obtain ⟨Γ, sq, hi, hc, hw, hs, hsmall⟩ := hfn f _ hget
      obtain ⟨anns, hck⟩ := compileSq_checkFn hP Γ sq P.functions[f].typeId hw hs hsmall
      refine ⟨anns, fun _ => ?_⟩
      unfold checkAnn
      rw [hget]
      have : P.functions[f] = Function.mk (compileSq Γ sq).1.toArray Γ.length P.functions[f].typeId := by
        cases hfv : P.functions[f] with
        | mk ins cap ty =>
          rw [hfv] at hi hc
          simp only at hi hc
          simp [hi, hc]
      rw [this]
      exact hck
    · exact ⟨#[], fun h => absurd h hf⟩
  obtain ⟨g, hg⟩ := Classical.axiomOfChoice hex
  refine ⟨Array.ofFn (n := P.functions.size) (fun i => g i), ?_⟩
  intro f hf
  have : annsOf (Array.ofFn (n := P.functions.size) (fun i => g i)) f = g f := by
    simp [annsOf, Array.getD, hf]
  rw [this]
  exact hg f hf

/-- **No program of fragment 1 ever fails structurally**, from any entry state, under any
well-formed events, after any number of transitions — by `checkAnn_sound`. -/
theorem frag1_no_structural_failure {P : Prog} (h : Frag1Prog P) (s0 : Nat) (p0 p : Proc)
    (h0 : EntryWF P s0 p0) (hr : ReachWF P p0 p) :
    (∃ A, Inv P A s0 p) ∧
    ∀ ev, EventWF P ev → ∀ e, transition P p ev = some (.error e) → e.isStructural = false := by
  obtain ⟨A, hA⟩ := frag1_allChecked h
  obtain ⟨hinv, herr⟩ := C07.checkAnn_sound P A s0 hA p0 p h0 hr
  exact ⟨⟨A, hinv⟩, herr⟩

/-! ### Example: the hypotheses are satisfiable -/

/-- `[~, 5] =[x, 5], x` -/
def exSq : Sq1 :=
  .cons (.cons (.tup 2 (.cons (.cons .ripple .nil) (.cons (.cons (.int 5 0) .nil) .nil)))
          (.cons (.mtch (.tup [.bind "x", .lit 5 0])) .nil))
    (.last (.cons (.var "x") .nil))

def exP : Prog :=
  { constants := #[.int 5], functions := #[⟨(compileSq [] exSq).1.toArray, 0, 0⟩], tuples := #[0, 0, 2],
    types := 0, builtins := 0 }

example : (compileSq [] exSq).1 =
    [.pick 0, .pick 1, .pop, .constant 0, .tuple 2, .rotate 2, .pop,
     .jump 1, .jump 12, .duplicate, .get 1, .constant 0, .equal 2, .not, .jumpIf (-7),
     .duplicate, .get 0, .store, .pop, .tuple 1, .jump 4, .tuple 0, .store, .pop, .tuple 0,
     .duplicate, .not, .jumpIf 2, .pop, .load 0] := by decide +kernel

example : Frag1Prog exP := by
  refine ⟨⟨rfl, rfl⟩, ?_⟩
  intro f fn hf
  have hf0 : f = 0 := by
    have := (Array.getElem?_eq_some_iff.mp hf).1
    simp [exP] at this; omega
  subst hf0
  have hfn : fn = ⟨(compileSq [] exSq).1.toArray, 0, 0⟩ := by simpa [exP] using hf.symm
  subst hfn
  refine ⟨[], exSq, rfl, rfl, ?_, ?_, by decide +kernel⟩
  · simp [exSq, wfSq, wfCh, wfT, wfFs, wfPat, wfSubs, wfSub, Fs1.length, exP]
  · simp only [exSq, scSq, scCh, scT, scFs, and_true, true_and]
    exact ⟨0, by decide +kernel⟩

/-- The annotations the harness infers for it pass as well. -/
example : checkAnn exP 0 (inferAnn exP 0) = true := by decide +kernel

end F1

end QM.C07Frag
