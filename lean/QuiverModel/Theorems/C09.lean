import QuiverModel.Lemmas.Types.RecSound
import QuiverModel.Lemmas.Types.SubTrans
import QuiverModel.Core.Types.Basic
import QuiverModel.Core.Types.Inh
import QuiverModel.Core.Types.Narrow
import QuiverModel.Core.Types.Shape
import QuiverModel.Lemmas.Types.SoundMain
import QuiverModel.Lemmas.Types.Rank
import QuiverModel.Lemmas.Types.Overlap
import QuiverModel.Lemmas.Types.Extend
import QuiverModel.Lemmas.Types.Meet
import QuiverModel.Lemmas.Types.Diff
/-
C09 — Assignability implies containment; overlap detection is complete; narrowing never drops a
value that can occur.

Model: `QM.Types.checkRel` (= `check_type_relation` of /repo/quiver-core/src/types.rs as it is now),
`isCompatible` (mode ALL), `typesOverlap` (mode ANY), `intersect` / `complement` / `unionIds`
(narrowing.rs / typing.rs); meaning of types: `QM.Types.inh` (Core/Types/Inh.lean).

Part 1 (this section): reflexivity, and kernel-checked regression witnesses — for every repaired
defect of the relation, (a) the historical variant of the model accepts/rejects the pair the way the
old code did, (b) a concrete value shows that this verdict was wrong, (c) the current model gives
the right verdict. The same tables are in /verif/corpus/C09 and are replayed on the real
`quiver_core::types::{is_compatible, types_overlap}` by every run of the harness.
-/
namespace C09
open QM.Types

/-! ### Reflexivity -/

/-- `is_compatible(a, a)` is `true` for every table and every id (fast path), with any fuel ≥ 1. -/
theorem compat_refl (T : Table) (a fuel : Nat) : isCompatible T (fuel + 1) a a = some true := by
  simp [isCompatible, checkRel, checkRelV, sameContext]

/-- likewise every id overlaps itself — including `never`, which is what the code does
(`self_id == pattern_id` is tested before the empty-union arm). -/
theorem overlap_refl (T : Table) (a fuel : Nat) : typesOverlap T (fuel + 1) a a = some true := by
  simp [typesOverlap, checkRel, checkRelV, sameContext]

example : isCompatible ⟨[.integer], []⟩ 1 0 0 = some true := compat_refl _ _ _

/-! ### Regression witnesses (names: 1 = Ok, others as commented) -/

/-- verdict of a historical variant in mode ALL -/
def compatV (vr : Variant) (T : Table) (fuel a b : Nat) : Option Bool :=
  (checkRelV vr T .all fuel [] {} a b).map (·.1)

/-- verdict of a historical variant in mode ANY -/
def overlapV (vr : Variant) (T : Table) (fuel a b : Nat) : Option Bool :=
  (checkRelV vr T .any fuel [] {} a b).map (·.1)

/-- F9: 0 = int, 1 = `(x: int)`, 2 = `P(x: int)`   (x = 2, P = 3, Q = 9) -/
def tF9 : Table :=
  ⟨[.integer, .part none [(2, 0)], .part (some 3) [(2, 0)]], [⟨none, []⟩, ⟨some 1, []⟩]⟩

/-- `Q[x: 1]` -/
def vF9 : V := .tup (some 9) (.cons (some 2) (.int 1) .nil)

theorem F9_old_rule_accepts : compatV { nameRuleBothOnly := true } tF9 8 1 2 = some true := by decide
theorem F9_value_only_left : inhB tF9 8 [] 1 vF9 = true ∧ inhB tF9 8 [] 2 vF9 = false := by decide
theorem F9_repaired : isCompatible tF9 8 1 2 = some false := by decide
theorem F9_converse_kept : isCompatible tF9 8 2 1 = some true := by decide

/-- F12: 0 int, 1 bin, 2 `int|bin`, 3 `T2[int|bin, bin]`, 4 `T2[int,int]`, 5 `T2[int,bin]`,
6 `T2[int,int] | T2[int,bin]`, 7 the same union in the other order   (T2 = 2) -/
def tF12 : Table :=
  ⟨[.integer, .binary, .union [0, 1], .tuple 2, .tuple 3, .tuple 4, .union [4, 5], .union [5, 4]],
   [⟨none, []⟩, ⟨some 1, []⟩, ⟨some 2, [(none, 2), (none, 1)]⟩, ⟨some 2, [(none, 0), (none, 0)]⟩,
    ⟨some 2, [(none, 0), (none, 1)]⟩]⟩

/-- `T2[0x00, 0x00]` -/
def vF12 : V := .tup (some 2) (.cons none (.bin [0]) (.cons none (.bin [0]) .nil))

theorem F12_old_rule_accepts :
    compatV { keepFailedAssumptions := true } tF12 12 3 6 = some true := by decide
/-- …and the old verdict depended on the order of the variants -/
theorem F12_old_rule_order_dependent :
    compatV { keepFailedAssumptions := true } tF12 12 3 7 = some false := by decide
theorem F12_value_only_left : inhB tF12 12 [] 3 vF12 = true ∧ inhB tF12 12 [] 6 vF12 = false := by
  decide
theorem F12_repaired : isCompatible tF12 12 3 6 = some false ∧ isCompatible tF12 12 3 7 = some false := by
  decide

/-- f506776: 0 int, 1 `(x: int)`, 2 `B(x: int)`, 3 `Ok(x: int)`   (x = 2, B = 3) -/
def tF14 : Table :=
  ⟨[.integer, .part none [(2, 0)], .part (some 3) [(2, 0)], .part (some 1) [(2, 0)]],
   [⟨none, []⟩, ⟨some 1, []⟩]⟩

/-- `B[x: 1]` -/
def vF14 : V := .tup (some 3) (.cons (some 2) (.int 1) .nil)

theorem F14_old_rule_rejects : overlapV { nameRuleAllInAny := true } tF14 8 1 2 = some false := by decide
theorem F14_common_value : inhB tF14 8 [] 1 vF14 = true ∧ inhB tF14 8 [] 2 vF14 = true := by decide
theorem F14_repaired : typesOverlap tF14 8 1 2 = some true ∧ typesOverlap tF14 8 2 1 = some true := by
  decide
theorem F14_two_names_still_disjoint : typesOverlap tF14 8 2 3 = some false := by decide

/-- 5646380: 0 int, 1 bin, 2 `(x: int)`, 3 `(y: int)`, 4 `(x: bin)`   (x = 2, y = 3) -/
def tF15 : Table :=
  ⟨[.integer, .binary, .part none [(2, 0)], .part none [(3, 0)], .part none [(2, 1)]],
   [⟨none, []⟩, ⟨some 1, []⟩]⟩

/-- `[x: 1, y: 2]` -/
def vF15 : V := .tup none (.cons (some 2) (.int 1) (.cons (some 3) (.int 2) .nil))

theorem F15_old_rule_rejects : overlapV { partFieldsAnyStrict := true } tF15 8 2 3 = some false := by
  decide
theorem F15_common_value : inhB tF15 8 [] 2 vF15 = true ∧ inhB tF15 8 [] 3 vF15 = true := by decide
theorem F15_repaired : typesOverlap tF15 8 2 3 = some true ∧ typesOverlap tF15 8 3 2 = some true := by
  decide
theorem F15_same_field_disjoint_types : typesOverlap tF15 8 2 4 = some false := by decide
/-- the intersection `(x: int) & (y: int)` of the spec's `'rw` example is no longer `never`: with
5646380 it was the left operand (the fallback of `intersect_pair`), since 02d463a it is `(x: int, y: int)` -/
theorem F15_intersection_not_never :
    (intersect { partialIntersectKeepsLeft := true } 16 8 tF15 2 3).map (·.2) = some 2 ∧
      ∃ T' r, intersect Variant.current 16 8 tF15 2 3 = some (T', r) ∧
        T'.types[r]? = some (.part none [(2, 0), (3, 0)]) := by
  refine ⟨by decide, _, _, rfl, ?_⟩
  decide

/-- f3628e7: 0 int, 1 bin, 2 `A(x: int)`, 3 `A[x: int]`, 4 `B[x: int]`, 5 `A[x: bin]`
(A = 2, x = 3, B = 4) -/
def tF16 : Table :=
  ⟨[.integer, .binary, .part (some 2) [(3, 0)], .tuple 2, .tuple 3, .tuple 4],
   [⟨none, []⟩, ⟨some 1, []⟩, ⟨some 2, [(some 3, 0)]⟩, ⟨some 4, [(some 3, 0)]⟩, ⟨some 2, [(some 3, 1)]⟩]⟩

/-- `A[x: 1]` -/
def vF16 : V := .tup (some 2) (.cons (some 3) (.int 1) .nil)

theorem F16_old_rule_rejects : overlapV { noPartTupleArm := true } tF16 8 2 3 = some false := by decide
theorem F16_common_value : inhB tF16 8 [] 2 vF16 = true ∧ inhB tF16 8 [] 3 vF16 = true := by decide
theorem F16_repaired : typesOverlap tF16 8 2 3 = some true := by decide
theorem F16_wrong_name_or_type_still_disjoint :
    typesOverlap tF16 8 2 4 = some false ∧ typesOverlap tF16 8 2 5 = some false := by decide
theorem F16_partial_never_assignable_to_tuple : isCompatible tF16 8 2 3 = some false := by decide

/-! ### Part 2: assignability implies containment (first-order cycle-free types)

Hypothesis, decidable and checked by the harness on every generated table: `FO T t` — only int / bin /
ref / resource / tuple / partial / union nodes are reachable from `t` in finitely many steps (no
`Cycle`, `Variable`, callable, process). No hypothesis on the table (no ordering needed: the proof
measures a pair by the first-order ranks of its ids), no bound on its size, on the depth of the
types or on the fuel. -/

/-- fuel never matters for a verdict that was given -/
theorem compat_fuel_irrelevant (T : Table) {n m : Nat} (hnm : n ≤ m) (a b : Nat) {r : Bool}
    (h : isCompatible T n a b = some r) : isCompatible T m a b = some r :=
  isCompatible_mono T hnm a b h

theorem overlap_fuel_irrelevant (T : Table) {n m : Nat} (hnm : n ≤ m) (a b : Nat) {r : Bool}
    (h : typesOverlap T n a b = some r) : typesOverlap T m a b = some r :=
  typesOverlap_mono T hnm a b h

/-- inhabitation is monotone in its fuel (so `inh` = "`inhB` says yes with enough fuel") -/
theorem inhB_fuel_mono (T : Table) {n m : Nat} (hnm : n ≤ m) (st : List Nat) (t : Nat) (v : V)
    (h : inhB T n st t v = true) : inhB T m st t v = true :=
  inhB_mono T hnm st t v h

/-- **Soundness of assignability.** If `is_compatible(a, b)` answers `true` (with any fuel) for
first-order cycle-free types — of ANY table, ordered or not: the measure of the proof is the
first-order rank (`rk`) — every value of `a` is a value of `b`. -/
theorem compat_sound_fo (T : Table) (a b fuel : Nat) (ha : FO T a) (hb : FO T b)
    (h : isCompatible T fuel a b = some true) : ∀ v, inh T [] a v → inh T [] b v := by
  unfold isCompatible at h
  cases hc : checkRel T .all fuel [] {} a b with
  | none => simp [hc] at h
  | some p =>
    obtain ⟨r, asm'⟩ := p
    rw [hc] at h
    simp only [Option.map_some, Option.some.injEq] at h
    subst h
    have := checkRel_good_any T fuel (rk T a + rk T b + 1) [] {} a b ha hb (by omega)
      (fun p hp => by simp at hp) true asm' hc
    exact fun v hv => this.2 rfl [] [] v hv

/-- the same from an arbitrary set of already-valid assumptions and any stack (the form in which
the relation is used below a union during narrowing) -/
theorem checkRel_sound_fo (T : Table) (fuel : Nat) (asm : Asm) (st : Stk)
    (a b : Nat) (ha : FO T a) (hb : FO T b) (hasm : ∀ p ∈ asm, Valid T p.1 p.2.1) (asm' : Asm)
    (h : checkRel T .all fuel asm st a b = some (true, asm')) :
    (∀ v, inh T [] a v → inh T [] b v) ∧ ∀ p ∈ asm', Valid T p.1 p.2.1 := by
  have := checkRel_good_any T fuel (rk T a + rk T b + 1) asm st a b ha hb (by omega)
    (fun p hp => Or.inl (hasm p hp)) true asm' h
  exact ⟨fun v hv => this.2 rfl [] [] v hv, fun p hp => (this.1 p hp).elim (hasm p) id⟩

/-- the hypotheses are satisfiable by a non-trivial pair: `T2[int, bin] ≤ T2[int,int] | T2[int,bin]` -/
example : FO tF12 5 ∧ FO tF12 6 ∧ isCompatible tF12 12 5 6 = some true := by
  refine ⟨⟨4, by decide⟩, ⟨4, by decide⟩, by decide⟩

/-- …and the theorem then gives containment for every value, e.g. `T2[7, 0x00]` -/
example : inh tF12 [] 6 (.tup (some 2) (.cons none (.int 7) (.cons none (.bin [0]) .nil))) :=
  compat_sound_fo tF12 5 6 12 ⟨4, by decide⟩ ⟨4, by decide⟩ (by decide) _ ⟨8, by decide⟩

/-- chains of accepted assignments are sound (semantic transitivity of what the checker accepts) -/
theorem compat_chain_sound_fo (T : Table) (a b c f1 f2 : Nat) (ha : FO T a)
    (hb : FO T b) (hc : FO T c) (h1 : isCompatible T f1 a b = some true)
    (h2 : isCompatible T f2 b c = some true) : ∀ v, inh T [] a v → inh T [] c v :=
  fun v hv => compat_sound_fo T b c f2 hb hc h2 v (compat_sound_fo T a b f1 ha hb h1 v hv)

/-! ### Part 3: overlap detection is complete (first-order cycle-free types)

Values are well-labelled (`V.wf`: no tuple carries a label twice — the only values the language can
build). No ordering hypothesis is needed here, and nothing about the assumption set: looking an
assumption up can only answer `true`. -/

/-- **Completeness of overlap.** If two first-order cycle-free types share a well-labelled value,
`types_overlap` does not answer `false` (so a reachable branch is never pruned as dead). -/
theorem overlap_complete_fo (T : Table) (a b fuel : Nat) (ha : FO T a) (hb : FO T b)
    (hv : ∃ v, v.wf = true ∧ inh T [] a v ∧ inh T [] b v) : typesOverlap T fuel a b ≠ some false := by
  intro h
  unfold typesOverlap at h
  cases hc : checkRel T .any fuel [] {} a b with
  | none => simp [hc] at h
  | some p =>
    obtain ⟨r, asm'⟩ := p
    rw [hc] at h
    simp only [Option.map_some, Option.some.injEq] at h
    subst h
    obtain ⟨v, hwf, hav, hbv⟩ := hv
    exact checkRel_any_bad fuel [] {} a b asm' hc ha hb [] [] v hwf ⟨hav, hbv⟩

/-- with enough fuel to get an answer at all, the answer is `true` -/
theorem overlap_complete_fo' (T : Table) (a b fuel : Nat) (ha : FO T a) (hb : FO T b)
    (hv : ∃ v, v.wf = true ∧ inh T [] a v ∧ inh T [] b v) (r : Bool)
    (h : typesOverlap T fuel a b = some r) : r = true := by
  cases r with
  | true => rfl
  | false => exact absurd h (overlap_complete_fo T a b fuel ha hb hv)

/-- hypotheses satisfiable by a non-trivial pair: `(x: int)` and `(y: int)` share `[x: 1, y: 2]` -/
example : FO tF15 2 ∧ FO tF15 3 ∧ vF15.wf = true ∧ inh tF15 [] 2 vF15 ∧ inh tF15 [] 3 vF15 :=
  ⟨⟨3, by decide⟩, ⟨3, by decide⟩, by decide, ⟨4, by decide⟩, ⟨4, by decide⟩⟩

/-- the well-labelled hypothesis is needed: `(x: int)` and `(x: bin)` are judged disjoint, and only
the ill-labelled `[x: 1, x: 0x00]` (which the language cannot build) is in both -/
theorem overlap_needs_well_labelled :
    typesOverlap tF15 8 2 4 = some false ∧
      inhB tF15 8 [] 2 (.tup none (.cons (some 2) (.int 1) (.cons (some 2) (.bin [0]) .nil))) = true ∧
      inhB tF15 8 [] 4 (.tup none (.cons (some 2) (.int 1) (.cons (some 2) (.bin [0]) .nil))) = true ∧
      (V.tup none (.cons (some 2) (.int 1) (.cons (some 2) (.bin [0]) .nil))).wf = false := by
  decide

/-! ### Full statements (all closed contractive types) — kept visible; see Part 4 for their status -/

/-- the full soundness statement of C09 over closed contractive types -/
def CompatSoundStatement : Prop :=
  ∀ (T : Table) (a b fuel : Nat), Ordered T → Closed T a → Closed T b →
    isCompatible T fuel a b = some true → ∀ v, inh T [] a v → inh T [] b v

/-- assignability is transitive (as a statement about the checker's verdicts) -/
def CompatTransStatement : Prop :=
  ∀ (T : Table) (a b c fuel : Nat), Ordered T → Closed T a → Closed T b → Closed T c →
    isCompatible T fuel a b = some true → isCompatible T fuel b c = some true →
    ∃ fuel', isCompatible T fuel' a c = some true

/-- **Soundness of assignability on RECURSIVE first-order types.** In an ordered table (no forward
references: what `register_*` builds), for types in which only int / bin / ref / resource / tuple /
partial / union / `Cycle` nodes are reachable (`RFO`) and a right-hand type that is closed and
contractive (`Closed`): if `is_compatible(a, b)` answers `true` — with any fuel — every value of `a` is a
value of `b`. (Nothing is asked of the left type beyond `RFO`: a dangling back-reference on the left
denotes the empty type.) This is `CompatSoundStatement` for every type without function / process
components; it holds of the code since fd75268, 4bee69d, ecfc5db and dc4f190 (each of the four old rules
has a kernel-checked counter-example above: R1, R1b, R6, and R7 for function types).

Proof (`Lemmas/Types/RecDer*.lean`, `RecInv.lean`, `RecSound.lean`): (1) a successful run returns a set
of assumptions that is SUPPORTED — each is justified by one union step whose premises are derivable from
the set again (`run_supported`); (2) a supported set is sound, by induction on the fuel with which the
value inhabits the left type; the steps that only unfold the right type are handled by an inner
induction on the number of guard flags that are set, then the id (`phi_step`). Since ecfc5db the two
stacks of the checker are the stacks of `inhB` (sorted on an ordered table: `pushStack` = cons); since
dc4f190 an assumption is about the two types below the stacks it was made under, which is what makes
"supported" a property of the set alone. -/
theorem compat_sound_rec_fo (T : Table) (hT : Ordered T) (a b fuel : Nat) (ha : RFO T a) (hb : RFO T b)
    (hcb : Closed T b) (h : isCompatible T fuel a b = some true) :
    ∀ v, inh T [] a v → inh T [] b v := by
  unfold isCompatible at h
  cases hc : checkRel T .all fuel [] {} a b with
  | none => simp [hc] at h
  | some p =>
    obtain ⟨r, asm'⟩ := p
    rw [hc] at h
    simp only [Option.map_some, Option.some.injEq] at h
    subst h
    obtain ⟨hsupp, hder⟩ := run_supported T fuel a b ha hb asm' hc
    rintro v ⟨n, hn⟩
    exact phi_all hT (A := (· ∈ asm')) hsupp n a b {} [] [] trivial
      ⟨rfl, trivial, hcb, trivial⟩ hder v hn

/-- **On first-order types the verdict does not depend on the state of the checker**: whatever
assumptions (sound ones) and stacks a check starts from, `true` means the stateless syntactic relation
`Sub` (`Lemmas/Types/Sub.lean`: the arms of the checker without assumption set, stacks and equal-id
shortcuts), and on a `Sub` pair every check with fuel above the rank sum answers `true`. Partial types
must not name a field twice (`PartsDistinct`; with a repeated name such a type is not even assignable
to itself below different enclosing types, because the partial-vs-partial arm looks at the first field
of a name only). -/
theorem compat_stateless_fo (T : Table) (hd : PartsDistinct T) (a b : Nat) (ha : FO T a) (hb : FO T b) :
    (∀ fuel asm st asm', (∀ p ∈ asm, Sub T p.1 p.2.1) →
        checkRel T .all fuel asm st a b = some (true, asm') → Sub T a b) ∧
    (Sub T a b → ∀ fuel asm st, rk T a + rk T b < fuel →
        ∃ asm', checkRel T .all fuel asm st a b = some (true, asm')) :=
  ⟨fun fuel asm st asm' hasm h => checkRel_sub hd fuel asm st a b ha hb hasm asm' h,
   fun hsub fuel asm st hlt => (checkRel_comp T fuel asm st a b ha hb hlt).2 hsub⟩

/-- with fuel above the rank sum `is_compatible` always answers on first-order types -/
theorem compat_total_fo (T : Table) (a b fuel : Nat) (ha : FO T a) (hb : FO T b)
    (hlt : rk T a + rk T b < fuel) : ∃ r, isCompatible T fuel a b = some r := by
  obtain ⟨r, asm', h⟩ := (checkRel_comp T fuel [] {} a b ha hb hlt).1
  exact ⟨r, by simp [isCompatible, h]⟩

theorem sub_of_compat_fo (T : Table) (hd : PartsDistinct T) (a b fuel : Nat) (ha : FO T a) (hb : FO T b)
    (h : isCompatible T fuel a b = some true) : Sub T a b := by
  unfold isCompatible at h
  cases hc : checkRel T .all fuel [] {} a b with
  | none => simp [hc] at h
  | some p =>
    obtain ⟨r, asm'⟩ := p
    rw [hc] at h
    simp only [Option.map_some, Option.some.injEq] at h
    subst h
    exact checkRel_sub hd fuel [] {} a b ha hb (fun p hp => by simp at hp) asm' hc

theorem compat_of_sub_fo (T : Table) (a b fuel : Nat) (ha : FO T a) (hb : FO T b)
    (hlt : rk T a + rk T b < fuel) (h : Sub T a b) : isCompatible T fuel a b = some true := by
  obtain ⟨asm', h'⟩ := (checkRel_comp T fuel [] {} a b ha hb hlt).2 h
  simp [isCompatible, h']

/-- **Assignability is transitive** on first-order types (any table whose partial types do not repeat
a field name; any fuels): from `a ≤ b` and `b ≤ c` every check of `a ≤ c` with fuel above the rank sum
answers `true`. This is `CompatTransStatement` for the first-order fragment (with an explicit fuel). -/
theorem compat_trans_fo (T : Table) (hd : PartsDistinct T) (a b c f1 f2 fuel : Nat)
    (ha : FO T a) (hb : FO T b) (hc : FO T c)
    (hab : isCompatible T f1 a b = some true) (hbc : isCompatible T f2 b c = some true)
    (hlt : rk T a + rk T c < fuel) : isCompatible T fuel a c = some true :=
  compat_of_sub_fo T a c fuel ha hc hlt
    ((sub_of_compat_fo T hd a b f1 ha hb hab).trans (sub_of_compat_fo T hd b c f2 hb hc hbc))

/-- the statement in the form of `CompatTransStatement` -/
theorem compat_trans_fo' (T : Table) (hd : PartsDistinct T) (a b c fuel : Nat)
    (ha : FO T a) (hb : FO T b) (hc : FO T c)
    (hab : isCompatible T fuel a b = some true) (hbc : isCompatible T fuel b c = some true) :
    ∃ fuel', isCompatible T fuel' a c = some true :=
  ⟨_, compat_trans_fo T hd a b c fuel fuel (rk T a + rk T c + 1) ha hb hc hab hbc (by omega)⟩

/-- a verdict about a union is a verdict about each of its variants (first-order) -/
theorem compat_variant_fo (T : Table) (hd : PartsDistinct T) (s p v f fuel : Nat) (vs : List Nat)
    (hs : FO T s) (hp : FO T p) (hty : T.types[s]? = some (.union vs)) (hv : v ∈ vs)
    (h : isCompatible T f s p = some true) (hlt : rk T v + rk T p < fuel) :
    isCompatible T fuel v p = some true := by
  obtain ⟨tp, htp, _⟩ := hp.unfold
  have hsub := (Sub.union_left_iff hty htp).mp (sub_of_compat_fo T hd s p f hs hp h) v hv
  exact compat_of_sub_fo T v p fuel (hs.union hty v hv) hp hlt hsub

/-- **Intersection never drops a value** (`intersect_types`, first-order operands; any table, any
fuels): a well-labelled value of both operands is a value of the result, read in the table the
function returns; that table only extends the old one and the result is first-order again. The
fallback `types_overlap(a, b) ? a : never` is justified by `overlap_complete_fo`. -/
theorem intersect_keeps (vr : Variant) (T T' : Table) (rf fuel a b r : Nat) (ha : FO T a) (hb : FO T b)
    (h : intersect vr rf fuel T a b = some (T', r)) :
    ∀ v, v.wf = true → inh T [] a v → inh T [] b v → inh T' [] r v :=
  (intersect_ok vr rf fuel T a b ha hb T' r h).2.2

theorem intersect_extends (vr : Variant) (T T' : Table) (rf fuel a b r : Nat) (ha : FO T a) (hb : FO T b)
    (h : intersect vr rf fuel T a b = some (T', r)) : Table.Sub T T' ∧ FO T' r :=
  ⟨(intersect_ok vr rf fuel T a b ha hb T' r h).1, (intersect_ok vr rf fuel T a b ha hb T' r h).2.1⟩

/-- non-trivial instance: `(x: int) & (y: int)` (the spec's `'rw`) keeps `[x: 1, y: 2]` -/
example : ∃ T' r, intersect Variant.current 16 8 tF15 2 3 = some (T', r) ∧ inh T' [] r vF15 := by
  cases h : intersect Variant.current 16 8 tF15 2 3 with
  | none => exact absurd h (by decide)
  | some p =>
    exact ⟨p.1, p.2, rfl, intersect_keeps Variant.current tF15 p.1 16 8 2 3 p.2 ⟨3, by decide⟩ ⟨3, by decide⟩ h vF15
      (by decide) ⟨4, by decide⟩ ⟨4, by decide⟩⟩

/-- **Subtraction never drops a value** (`compute_complement`, first-order operands; any table, any
fuels; the code as it is now, which compares field labels — fix e0ad7de): a well-labelled value of
the original type that is NOT a value of the narrowed type is a value of the result, read in the
table the function returns. The `is_compatible(a, b) ⇒ []` shortcut is justified by the soundness
theorem, `contains_cycle` finds nothing in a first-order type (`cyclicPair_fo`), and the structural
tuple difference `[A] ∖ [b] = ⋃ᵢ [A₀, …, Aᵢ∖bᵢ, …]` by `subtractFields_ok`. -/
theorem complement_keeps (T T' : Table) (rf fuel a b r : Nat) (ha : FO T a) (hb : FO T b)
    (h : complement Variant.current rf fuel T a b = some (T', r)) :
    ∀ v, v.wf = true → inh T [] a v → ¬ inh T [] b v → inh T' [] r v :=
  (complement_ok Variant.current rfl rf fuel T a b ha hb T' r h).2.2

theorem complement_extends (T T' : Table) (rf fuel a b r : Nat) (ha : FO T a) (hb : FO T b)
    (h : complement Variant.current rf fuel T a b = some (T', r)) : Table.Sub T T' ∧ FO T' r :=
  ⟨(complement_ok Variant.current rfl rf fuel T a b ha hb T' r h).1,
   (complement_ok Variant.current rfl rf fuel T a b ha hb T' r h).2.1⟩

/-- `T2[0x00, 0x00]` is not in `T2[int,int] | T2[int,bin]`, whatever the fuel -/
theorem F12_value_not_right : ¬ inh tF12 [] 6 vF12 := by
  intro hv
  obtain ⟨i, hi, hiv⟩ := (inh_union (T := tF12) (t := 6) (ids := [4, 5]) rfl).mp hv
  simp only [List.mem_cons, List.not_mem_nil, or_false] at hi
  rcases hi with rfl | rfl
  · obtain ⟨_, fs, hv', _, hf⟩ := (inh_tuple (T := tF12) (t := 4) (id := 3)
      (info := ⟨some 2, [(none, 0), (none, 0)]⟩) rfl rfl).mp hiv
    simp only [vF12, V.tup.injEq] at hv'
    obtain ⟨_, rfl⟩ := hv'
    cases hf with
    | cons _ h2 _ =>
      obtain ⟨z, hz⟩ := (inh_integer (T := tF12) (t := 0) rfl).mp h2
      cases hz
  · obtain ⟨_, fs, hv', _, hf⟩ := (inh_tuple (T := tF12) (t := 5) (id := 4)
      (info := ⟨some 2, [(none, 0), (none, 1)]⟩) rfl rfl).mp hiv
    simp only [vF12, V.tup.injEq] at hv'
    obtain ⟨_, rfl⟩ := hv'
    cases hf with
    | cons _ h2 _ =>
      obtain ⟨z, hz⟩ := (inh_integer (T := tF12) (t := 0) rfl).mp h2
      cases hz

/-- non-trivial instance: `T2[int|bin, bin] ∖ (T2[int,int] | T2[int,bin])` keeps `T2[0x00, 0x00]` -/
example : ∃ T' r, complement Variant.current 16 8 tF12 3 6 = some (T', r) ∧ inh T' [] r vF12 := by
  cases h : complement Variant.current 16 8 tF12 3 6 with
  | none => exact absurd h (by decide)
  | some p =>
    exact ⟨p.1, p.2, rfl, complement_keeps tF12 p.1 16 8 3 6 p.2 ⟨4, by decide⟩ ⟨4, by decide⟩ h vF12
      (by decide) ⟨12, by decide⟩ F12_value_not_right⟩

/-- **`union_type_ids` is sound and complete** (first-order arguments): the id it returns, read in
the table it returns, has exactly the values of the arguments — flattening one level of unions,
de-duplicating, collapsing a single id and registering `never` for none change nothing. Registration
only appends, and a first-order type means the same in the larger table (`FO.inh_sub`). -/
theorem union_flatten_sound (T : Table) (ids : List Nat) (hfo : ∀ i ∈ ids, FO T i) (v : V) :
    inh (unionIds T ids).1 [] (unionIds T ids).2 v ↔ ∃ i ∈ ids, inh T [] i v :=
  unionIds_sem T ids hfo v

example : (unionIds tF12 [2, 0, 1]).2 = 2 ∧ ∀ i ∈ [2, 0, 1], FO tF12 i :=
  ⟨by decide, by intro i hi; simp at hi; rcases hi with rfl | rfl | rfl <;> exact ⟨3, by decide⟩⟩

/-- overlap detection is complete (full statement) -/
def OverlapCompleteStatement : Prop :=
  ∀ (T : Table) (a b fuel : Nat), Ordered T → Closed T a → Closed T b →
    (∃ v, v.wf = true ∧ inh T [] a v ∧ inh T [] b v) → typesOverlap T fuel a b ≠ some false

/-! ### Part 4: the full statements are FALSE of the code as it is (recursive / higher-order types)

Kernel-checked counter-examples; the same tables are found by the harness on the real
`quiver_core::types` (KNOWN-FINDING R1, R2 in notes/C09.md). -/

/-- R1: 0 `Nil`, 1 `^1`, 2 `A[y: ^1]`, 3 `A[y: Nil]`, 4 `A[y: ^] | A[y: Nil]`, 5 `A(y: Nil)`
(A = 2, y = 3, Nil = 4) -/
def tR1 : Table :=
  ⟨[.tuple 2, .cycle 1, .tuple 3, .tuple 4, .union [2, 3], .part (some 2) [(3, 0)]],
   [⟨none, []⟩, ⟨some 1, []⟩, ⟨some 4, []⟩, ⟨some 2, [(some 3, 1)]⟩, ⟨some 2, [(some 3, 0)]⟩]⟩

/-- `A[y: A[y: Nil]]` -/
def vR1 : V :=
  .tup (some 2) (.cons (some 3) (.tup (some 2) (.cons (some 3) (.tup (some 4) .nil) .nil)) .nil)

/-- before fd75268 the left-hand `^1` met an empty right-hand stack and was accepted -/
theorem R1_accepted : compatV { leftCycleOnRightStack := true } tR1 16 4 5 = some true := by decide
/-- with a stack of its own for the left type the pair is rejected -/
theorem R1_repaired : isCompatible tR1 16 4 5 = some false := by decide
theorem R1_closed : Ordered tR1 ∧ Closed tR1 4 ∧ Closed tR1 5 :=
  ⟨by decide, ⟨8, by decide⟩, ⟨8, by decide⟩⟩
theorem R1_value_left : inh tR1 [] 4 vR1 := ⟨8, by decide⟩

theorem R1_value_not_right : ¬ inh tR1 [] 5 vR1 := by
  intro h
  obtain ⟨name, fs, hv, _, hf⟩ := (inh_part (T := tR1) (t := 5) (pn := some 2) (pfs := [(3, 0)]) rfl).mp h
  obtain ⟨q, hq, _, hqv⟩ := hf (3, 0) (by simp)
  simp only [vR1, V.tup.injEq] at hv
  obtain ⟨_, rfl⟩ := hv
  simp only [VFields.toList, List.mem_cons, List.not_mem_nil, or_false] at hq
  subst hq
  obtain ⟨name', fs', hv', hn', _⟩ :=
    (inh_tuple (T := tR1) (t := 0) (id := 2) (info := ⟨some 4, []⟩) rfl rfl).mp hqv
  simp only [V.tup.injEq] at hv'
  obtain ⟨rfl, _⟩ := hv'
  simp at hn'

/-- the soundness statement for a historical variant of the relation -/
def CompatSoundStatementV (vr : Variant) : Prop :=
  ∀ (T : Table) (a b fuel : Nat), Ordered T → Closed T a → Closed T b →
    compatV vr T fuel a b = some true → ∀ v, inh T [] a v → inh T [] b v

/-- **before fd75268 the full soundness statement did not hold for recursive types** -/
theorem compat_sound_failed_on_recursive_types_before_R1 :
    ¬ CompatSoundStatementV { leftCycleOnRightStack := true } := fun h =>
  R1_value_not_right (h tR1 4 5 16 R1_closed.1 R1_closed.2.1 R1_closed.2.2 R1_accepted vR1 R1_value_left)

/-- R1, second part (fixed by fd75268): 0 int, 1 `^1`, 2 bin, 3 `[y: ^1, bin]`, 4 `B(x: ^1)`, 5 `[x: ^1]`,
6 `U1 = [y: ^, bin] | B(x: ^) | [x: ^] | int`, 7 `int | U1`, 8 `U2 = … | bin` (same first three variants),
9 `U2 | int`. Two `Cycle`s of equal depth were taken for the same type without resolving them, so the
shared variant `[y: ^1, bin]` was accepted although its `^1` is `U1` on the left and `U2` on the right.
(B = 2, x = 3, y = 4) -/
def tR1b : Table :=
  ⟨[.integer, .cycle 1, .binary, .tuple 2, .part (some 2) [(3, 1)], .tuple 3, .union [3, 4, 5, 0],
    .union [0, 6], .union [3, 4, 5, 2], .union [8, 0]],
   [⟨none, []⟩, ⟨some 1, []⟩, ⟨none, [(some 4, 1), (none, 2)]⟩, ⟨none, [(some 3, 1)]⟩]⟩

/-- `[y: [y: 0, 0x], 0x]` -/
def vR1b : V :=
  .tup none (.cons (some 4) (.tup none (.cons (some 4) (.int 0) (.cons none (.bin []) .nil)))
    (.cons none (.bin []) .nil))

theorem R1b_old_rule_accepts : compatV { cycleSameDepthShortcut := true } tR1b 32 7 9 = some true := by
  decide
theorem R1b_value : inhB tR1b 16 [] 7 vR1b = true ∧ inhB tR1b 16 [] 9 vR1b = false := by decide
theorem R1b_closed : Ordered tR1b ∧ Closed tR1b 7 ∧ Closed tR1b 9 :=
  ⟨by decide, ⟨8, by decide⟩, ⟨8, by decide⟩⟩
theorem R1b_repaired : isCompatible tR1b 32 7 9 = some false := by decide

/-- the hypotheses of `compat_sound_rec_fo` are satisfiable by a non-trivial recursive pair: in R1b's
table `U1 = [y: ^, bin] | B(x: ^) | [x: ^] | int` is assignable to `int | U1` (6 ≤ 7) -/
example : Ordered tR1b ∧ RFO tR1b 6 ∧ RFO tR1b 7 ∧ Closed tR1b 7 ∧ isCompatible tR1b 32 6 7 = some true :=
  ⟨by decide, ⟨8, by decide⟩, ⟨8, by decide⟩, ⟨8, by decide⟩, by decide⟩

/-- …and the theorem then gives containment of every value, e.g. `[y: 0, 0x]` -/
example : inh tR1b [] 7 (.tup none (.cons (some 4) (.int 0) (.cons none (.bin []) .nil))) :=
  compat_sound_rec_fo tR1b (by decide) 6 7 32 ⟨8, by decide⟩ ⟨8, by decide⟩ ⟨8, by decide⟩ (by decide) _
    ⟨8, by decide⟩


/-- R5 (fixed by 4bee69d): 0 int, 1 bin, 2 `int | bin`, 3 `^1`, 4 `^2`, 5 resource, 6 `^2 | res`,
7 `@(int / ^1)`, 8 never, 9 `#((^2 | res) -> 7)`, 10 `res | ^2`, 11 `A = #((res | ^) -> 7 ! never)`,
12 `d = #((res | ^) -> 7 ! int | bin)`. The parameter union 10 is ONE id, but its `^` is `A` in 11 and `d`
in 12: `d ≤ A` needs `A ≤ d`, which fails on the receive types — the equal-id fast path hid that. -/
def tR5 : Table :=
  ⟨[.integer, .binary, .union [0, 1], .cycle 1, .cycle 2, .resource 2, .union [4, 5],
    .process (some 0) (some 3), .union [], .callable 6 7 8, .union [5, 4], .callable 10 7 8,
    .callable 10 7 2], [⟨none, []⟩, ⟨some 1, []⟩]⟩

theorem R5_old_rule_accepts : compatV { equalIdsIgnoreContext := true } tR5 48 12 11 = some true := by
  decide
/-- …although the premise it needs is refuted by every variant -/
theorem R5_premise_fails : compatV { equalIdsIgnoreContext := true } tR5 48 11 12 = some false ∧
    isCompatible tR5 48 11 12 = some false := by decide
theorem R5_repaired : isCompatible tR5 48 12 11 = some false := by decide

/-- R6 (fixed by ecfc5db — what was left of R1): 0 int, 1 `^2`, 2 `^2 | int`, 3 `[x: (^ | int)]`, 4 `A[[x: (^ | int)]]`,
5 `Nil`, 6 bin, 7 `^1`, 8 `B[x: bin, y: ^1]`, 9 `'p = Nil | A[[x: (^ | int)]] | B[x: bin, y: ^]`, 10 ref,
11 `^2 | ref`, 12 `B[x: (^ | ref), y: ^1]`, 13 `'q = Nil | A[[x: (^ | int)]] | B[x: (^ | ref), y: ^]`.
A resolved `Cycle` went on with the whole stack: inside `A[[x: (^ | int)]]` the `^` was resolved to `'p` while
`(^ | int)` was still on the stack, `'p` was "already there" and not pushed again, and the `^`s of its variants
were then counted from `(^ | int)`: `bin ≤ (^ | ref)` was accepted by an assumption that closes on itself.
(Nil = 2, A = 3, B = 4, x = 5, y = 6) -/
def tR6 : Table :=
  ⟨[.integer, .cycle 2, .union [1, 0], .tuple 2, .tuple 3, .tuple 4, .binary, .cycle 1, .tuple 5,
    .union [5, 4, 8], .reference, .union [1, 10], .tuple 6, .union [5, 4, 12]],
   [⟨none, []⟩, ⟨some 1, []⟩, ⟨none, [(some 5, 2)]⟩, ⟨some 3, [(none, 3)]⟩, ⟨some 2, []⟩,
    ⟨some 4, [(some 5, 6), (some 6, 7)]⟩, ⟨some 4, [(some 5, 11), (some 6, 7)]⟩]⟩

/-- `B[x: 0x, y: Nil]` -/
def vR6 : V := .tup (some 4) (.cons (some 5) (.bin []) (.cons (some 6) (.tup (some 2) .nil) .nil))

/-- the rules of the code before ecfc5db (assumptions were still keyed by ids alone then: the
acceptance needs an assumption that closes on itself across the polluted stacks) -/
def vrBeforeR6 : Variant where
  cycleKeepsInnerStack := true
  asmKeyedByIdsOnly := true

theorem R6_accepted : compatV vrBeforeR6 tR6 64 9 13 = some true := by decide
/-- with the entries above the target set aside the pair is rejected -/
theorem R6_repaired : isCompatible tR6 64 9 13 = some false := by decide
theorem R6_closed : Ordered tR6 ∧ Closed tR6 9 ∧ Closed tR6 13 :=
  ⟨by decide, ⟨8, by decide⟩, ⟨8, by decide⟩⟩
theorem R6_value_left : inh tR6 [] 9 vR6 := ⟨8, by decide⟩

/-- no variant of `'q` is a type of binaries -/
theorem R6_bin_not_q (bs : List UInt8) : ¬ inh tR6 [] 13 (.bin bs) := by
  intro h
  obtain ⟨i, hi, hv⟩ := (inh_union (T := tR6) (t := 13) (ids := [5, 4, 12]) rfl).mp h
  simp only [List.mem_cons, List.not_mem_nil, or_false] at hi
  rcases hi with rfl | rfl | rfl
  · obtain ⟨_, _, hv', _⟩ := (inh_tuple (T := tR6) (t := 5) (id := 4) (info := ⟨some 2, []⟩) rfl rfl).mp hv
    cases hv'
  · obtain ⟨_, _, hv', _⟩ :=
      (inh_tuple (T := tR6) (t := 4) (id := 3) (info := ⟨some 3, [(none, 3)]⟩) rfl rfl).mp hv
    cases hv'
  · obtain ⟨_, _, hv', _⟩ :=
      (inh_tuple (T := tR6) (t := 12) (id := 6) (info := ⟨some 4, [(some 5, 11), (some 6, 7)]⟩) rfl rfl).mp hv
    cases hv'

theorem R6_value_not_right : ¬ inh tR6 [] 13 vR6 := by
  intro h
  obtain ⟨i, hi, hv⟩ := (inh_union (T := tR6) (t := 13) (ids := [5, 4, 12]) rfl).mp h
  simp only [List.mem_cons, List.not_mem_nil, or_false] at hi
  rcases hi with rfl | rfl | rfl
  · obtain ⟨_, _, hv', hn, _⟩ :=
      (inh_tuple (T := tR6) (t := 5) (id := 4) (info := ⟨some 2, []⟩) rfl rfl).mp hv
    simp only [vR6, V.tup.injEq] at hv'
    obtain ⟨rfl, _⟩ := hv'
    simp at hn
  · obtain ⟨_, _, hv', hn, _⟩ :=
      (inh_tuple (T := tR6) (t := 4) (id := 3) (info := ⟨some 3, [(none, 3)]⟩) rfl rfl).mp hv
    simp only [vR6, V.tup.injEq] at hv'
    obtain ⟨rfl, _⟩ := hv'
    simp at hn
  · obtain ⟨_, _, hv', _, hf⟩ :=
      (inh_tuple (T := tR6) (t := 12) (id := 6) (info := ⟨some 4, [(some 5, 11), (some 6, 7)]⟩) rfl rfl).mp hv
    simp only [vR6, V.tup.injEq] at hv'
    obtain ⟨_, rfl⟩ := hv'
    simp only [VFields.toList] at hf
    cases hf with
    | cons _ hx _ =>
      -- the field `x`: a binary in `^2 | ref` below `'q`
      obtain ⟨j, hj, hxv⟩ := (inh_union (T := tR6) (t := 11) (ids := [1, 10]) rfl).mp hx
      simp only [List.mem_cons, List.not_mem_nil, or_false] at hj
      rcases hj with rfl | rfl
      · obtain ⟨id, hr, hid⟩ := (inh_cycle (T := tR6) (t := 1) (d := 2) rfl).mp hxv
        simp only [resolveCycle] at hr
        simp at hr
        subst hr
        exact R6_bin_not_q [] hid
      · obtain ⟨_, hr⟩ := (inh_reference (T := tR6) (t := 10) rfl).mp hxv
        cases hr

/-- **before ecfc5db the full soundness statement did not hold** (recursive first-order types with a
back-reference below a nested union) -/
theorem compat_sound_failed_on_recursive_types_before_R6 :
    ¬ CompatSoundStatementV vrBeforeR6 := fun h =>
  R6_value_not_right (h tR6 9 13 64 R6_closed.1 R6_closed.2.1 R6_closed.2.2 R6_accepted vR6 R6_value_left)

/-- R7 (fixed by dc4f190): 0 `^1`, 1 `^2`, 2 never, 3 `#^1 -> ^2` (a function from itself to the enclosing union),
4 `F[#^1 -> ^2]`, 5 `Ok`, 6 `'p = Ok | F[#^1 -> ^]`, 7 `Z`, 8 `'q = Ok | F[#^1 -> ^] | Z`. The function type 3 is
ONE id; below `'p` it is `μf. #f -> 'p`, below `'q` it is `μg. #g -> 'q`. `f ≤ g` asks `g ≤ f` for the parameter;
that question is the same pair of ids `(3, 3)`, the assumption just made answered it, and `'p ≤ 'q` was accepted
although `g ≤ f` needs `'q ≤ 'p`, which fails on `Z`. (F = 2, Z = 3) -/
def tR7 : Table :=
  ⟨[.cycle 1, .cycle 2, .union [], .callable 0 1 2, .tuple 2, .tuple 1, .union [5, 4], .tuple 3,
    .union [5, 4, 7]],
   [⟨none, []⟩, ⟨some 1, []⟩, ⟨some 2, [(none, 3)]⟩, ⟨some 3, []⟩]⟩

/-- the same two types with an id of its own for every occurrence (6 = `'p`, 14 = `'q`) -/
def tR7u : Table :=
  ⟨[.tuple 2, .cycle 1, .cycle 2, .union [], .callable 1 2 3, .tuple 3, .union [0, 5], .tuple 4, .cycle 1,
    .cycle 2, .union [], .callable 8 9 10, .tuple 5, .tuple 6, .union [7, 12, 13]],
   [⟨none, []⟩, ⟨some 1, []⟩, ⟨some 1, []⟩, ⟨some 2, [(none, 4)]⟩, ⟨some 1, []⟩, ⟨some 2, [(none, 11)]⟩,
    ⟨some 3, []⟩]⟩

theorem R7_accepted : compatV { asmKeyedByIdsOnly := true } tR7 64 6 8 = some true := by decide
/-- …and refused as soon as the two occurrences of the function type do not share their id, by the old
rule as by the code as it is -/
theorem R7_refused_unfolded : compatV { asmKeyedByIdsOnly := true } tR7u 64 6 14 = some false ∧
    isCompatible tR7u 64 6 14 = some false := by decide
/-- an assumption that carries its stacks does not answer the converse question -/
theorem R7_repaired : isCompatible tR7 64 6 8 = some false := by decide
/-- the converse, which the parameter position needs, is refused in both tables -/
theorem R7_converse_refused : isCompatible tR7 64 8 6 = some false ∧ isCompatible tR7u 64 14 6 = some false := by
  decide

/-- A WRITTEN intersection of partial types (C02's finding, fixed by 02d463a): 0 int, 1 bin,
2 `'r = (read: int)`, 3 `'w = (write: bin)` (read = 2, write = 3). `intersect_pair` had no arm for two
partial types: the fallback kept the LEFT operand when the two overlap, so `'r & 'w` resolved to `'r`,
which `[read: 1]` inhabits (`Variant.partialIntersectKeepsLeft`). The arm builds
`(read: int, write: bin)`. (`intersect_keeps` holds for both: keeping the left operand is a superset.) -/
def tRW : Table :=
  ⟨[.integer, .binary, .part none [(2, 0)], .part none [(3, 1)]], [⟨none, []⟩, ⟨some 1, []⟩]⟩

/-- `[read: 1]` and `[read: 1, write: 0x02]` -/
def vR : V := .tup none (.cons (some 2) (.int 1) .nil)
def vRW : V := .tup none (.cons (some 2) (.int 1) (.cons (some 3) (.bin [2]) .nil))

theorem RW_left_operand_kept :
    (intersect { partialIntersectKeepsLeft := true } 16 8 tRW 2 3).map (·.2) = some 2 ∧
      inhB tRW 8 [] 2 vR = true ∧
      inhB tRW 8 [] 3 vR = false := by decide

theorem RW_exact :
    ∃ T' r, intersect Variant.current 16 8 tRW 2 3 = some (T', r) ∧
      T'.types[r]? = some (.part none [(2, 0), (3, 1)]) ∧ inhB T' 8 [] r vR = false ∧
      inhB T' 8 [] r vRW = true := by
  refine ⟨_, _, rfl, ?_⟩
  decide

/-- R8 (fixed by 7120dc6; a consequence of 02d463a on RECURSIVE types): 0 never, 1 int, 2 `never | int`,
3 `(x: never | int)`, 4 `Nil`, 5 `^1`, 6 `(x: int, y: ^1)`, 7 `Nil | (x: int, y: ^1)` (x = 2, y = 3, Nil = 4).
`intersect_types` takes the variants of 7 one by one; the partial-vs-partial arm copied the field `y: ^1`,
which only the variant 6 has, into the result `(x: int, y: ^1)` — read outside the union its `^1` has no
boundary left, and `[x: 0, y: Nil]`, a value of both operands, was refused (`Variant.partialIntersectUnguarded`).
Since 7120dc6 the arm keeps the left operand when either operand contains a `Cycle`. `intersect_keeps` is a theorem
about FIRST-ORDER operands (`FO`: no `Cycle`) and is not contradicted: 7 is recursive. -/
def tR8 : Table :=
  ⟨[.union [], .integer, .union [0, 1], .part none [(2, 2)], .tuple 2, .cycle 1,
    .part none [(2, 1), (3, 5)], .union [4, 6]], [⟨none, []⟩, ⟨some 1, []⟩, ⟨some 4, []⟩]⟩

/-- `[x: 0, y: Nil]` -/
def vR8 : V := .tup none (.cons (some 2) (.int 0) (.cons (some 3) (.tup (some 4) .nil) .nil))

theorem R8_value_of_both : vR8.wf = true ∧ inhB tR8 8 [] 3 vR8 = true ∧ inhB tR8 8 [] 7 vR8 = true := by
  decide
/-- the result is the variant's partial type, and it refuses the value -/
theorem R8_dropped :
    ∃ T' r, intersect { partialIntersectUnguarded := true } 16 8 tR8 3 7 = some (T', r) ∧
      T'.types[r]? = some (.part none [(2, 1), (3, 5)]) ∧ inhB T' 16 [] r vR8 = false := by
  refine ⟨_, _, rfl, ?_⟩
  decide
/-- with the guard the left operand is kept, and it has the value -/
theorem R8_repaired : (intersect Variant.current 16 8 tR8 3 7).map (·.2) = some 3 := by decide
/-- the old rule kept the left operand, which has the value -/
theorem R8_old_rule_kept_left :
    (intersect { partialIntersectKeepsLeft := true } 16 8 tR8 3 7).map (·.2) = some 3 := by decide
/-- the right operand is recursive (closed, `RFO`), not first-order: `intersect_keeps` does not apply -/
theorem R8_not_first_order : foB tR8 16 7 = false ∧ rfoB tR8 16 7 = true ∧ closedB tR8 16 [] 7 = true := by
  decide

/-- R2: 0 int, 1 never, 2 `@(never / int)`, 3 `@(int / int)` — the first is assignable to the
second, a process declared with type 2 inhabits both, yet they "do not overlap" -/
def tR2 : Table :=
  ⟨[.integer, .union [], .process (some 1) (some 0), .process (some 0) (some 0)],
   [⟨none, []⟩, ⟨some 1, []⟩]⟩

theorem R2_assignable : isCompatible tR2 8 2 3 = some true := by decide
theorem R2_no_overlap : typesOverlap tR2 8 2 3 = some false ∧ typesOverlap tR2 8 3 2 = some false := by
  decide
theorem R2_common_value : inh tR2 [] 2 (.proc 2) ∧ inh tR2 [] 3 (.proc 2) :=
  ⟨⟨4, by decide⟩, ⟨4, by decide⟩⟩

/-- **the full overlap-completeness statement does not hold for process / callable types** -/
theorem overlap_complete_fails_on_process_types : ¬ OverlapCompleteStatement := fun h =>
  h tR2 2 3 8 (by decide) ⟨4, by decide⟩ ⟨4, by decide⟩ ⟨.proc 2, by decide, R2_common_value⟩ R2_no_overlap.1

/-- R4 (fixed by 30aca33): 0 int, 1 `^1`, 2 never, 3 `'f = #(^1 -> int)`, 4 `'g = #('f -> int)`. Without
an assumption in the callable arm the check made no progress on this pair (the model, like the code,
ran out of every fuel; the compiler overflowed its stack); with it the pair is accepted — `'g` is one
unfolding of `'f`. -/
def tR4 : Table :=
  ⟨[.integer, .cycle 1, .union [], .callable 1 0 2, .callable 3 0 2], [⟨none, []⟩, ⟨some 1, []⟩]⟩

/-- the relation before the four repairs of the recursive arms -/
def vrBeforeRecursiveFixes : Variant where
  callableNoAssumption := true
  leftCycleOnRightStack := true
  cycleSameDepthShortcut := true
  equalIdsIgnoreContext := true
  cycleKeepsInnerStack := true
  asmKeyedByIdsOnly := true

theorem R4_old_rule_no_answer : compatV vrBeforeRecursiveFixes tR4 64 3 4 = none := by decide
theorem R4_repaired : isCompatible tR4 16 3 4 = some true ∧ isCompatible tR4 16 4 3 = some true := by
  decide

/-- R3(i) (fixed by e0ad7de): 0 int, 1 `^1`, 2 `Nil`, 3 `Cons[int, ^]`, 4 `'l = Nil | Cons[int, ^]`,
5 `None`, 6 `Cons[x: int, y: ^]`, 7 `'m = None | Cons[x: int, y: ^]`
(Nil = 2, Cons = 3, None = 4, x = 5, y = 6) -/
def tR3 : Table :=
  ⟨[.integer, .cycle 1, .tuple 2, .tuple 3, .union [2, 3], .tuple 4, .tuple 5, .union [5, 6]],
   [⟨none, []⟩, ⟨some 1, []⟩, ⟨some 2, []⟩, ⟨some 3, [(none, 0), (none, 1)]⟩, ⟨some 4, []⟩,
    ⟨some 3, [(some 5, 0), (some 6, 1)]⟩]⟩

/-- `Cons[5, Nil]` -/
def vR3 : V := .tup (some 3) (.cons none (.int 5) (.cons none (.tup (some 2) .nil) .nil))

theorem R3_value : inhB tR3 12 [] 4 vR3 = true ∧ inhB tR3 12 [] 7 vR3 = false := by decide
/-- the old intersection `'l ∩ 'm` was `Cons[int, ^]` (labels ignored) … -/
theorem R3_old_intersection :
    (intersect { narrowIgnoresLabels := true } 32 8 tR3 4 7).map (·.2) = some 3 := by decide
/-- … so the old complement of `'l` by that narrowed type, and by `'m` itself, lost the Cons values -/
theorem R3_old_complement :
    (complement { narrowIgnoresLabels := true } 32 8 tR3 4 7).map (·.2) = some 2 := by decide
/-- now the intersection is `never` and the complement is `'l` itself -/
theorem R3_repaired :
    (intersect Variant.current 32 8 tR3 4 7).map (fun p => p.1.types[p.2]?) = some (some (.union [])) ∧
      (complement Variant.current 32 8 tR3 4 7).map (·.2) = some 4 := by decide

/-- R3(iii) (fixed by 9604765): 0 bin, 1 int, 2 `^1`, 3 `Ok[x: int, y: ^1]`, 4 `Ok[Ok[…]]`, 5 `^2`,
6 `^2 | bin | int`, 7 `^2 | ^2`, 8 `@(6 / 7)`, 9 `'t = Ok[Ok[x: int, y: ^]] | @((^ | bin | int) / (^ | ^))`,
10 `int | bin`, 11 `@(int / int | bin)`   (x = 2, y = 3) -/
def tR3b : Table :=
  ⟨[.binary, .integer, .cycle 1, .tuple 2, .tuple 3, .cycle 2, .union [5, 0, 1], .union [5, 5],
    .process (some 6) (some 7), .union [4, 8], .union [1, 0], .process (some 1) (some 10)],
   [⟨none, []⟩, ⟨some 1, []⟩, ⟨some 1, [(some 2, 1), (some 3, 2)]⟩, ⟨some 1, [(none, 3)]⟩]⟩

theorem R3b_not_assignable : isCompatible tR3b 32 11 9 = some false := by decide
/-- the old `contains_cycle` saw no cycle in the process variant, asked `is_compatible` about it with
its cycles dangling, and the complement came out as `never` -/
theorem R3b_old_complement :
    (complement { cycleCheckSkipsCallable := true } 32 8 tR3b 11 9).map (fun p => p.1.types[p.2]?) =
      some (some (.union [])) := by decide
theorem R3b_repaired : (complement Variant.current 32 8 tR3b 11 9).map (·.2) = some 11 := by decide

end C09
