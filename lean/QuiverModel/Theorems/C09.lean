import QuiverModel.Core.Types.Basic
import QuiverModel.Core.Types.Inh
import QuiverModel.Core.Types.Narrow
import QuiverModel.Core.Types.Shape
/-
C09 — Assignability implies containment; overlap detection is complete; narrowing never drops a
value that can occur.

Model: `QM.Types.checkRel` (= `check_type_relation` of /repo/quiver-core/src/types.rs as it is now),
`isCompatible` (mode ALL), `typesOverlap` (mode ANY), `intersect` / `complement` / `unionIds`
(narrowing.rs / typing.rs); meaning of types: `QM.Types.inh` (Core/Types/Inh.lean).

Part 1 (this section): reflexivity, and kernel-checked regression witnesses — for every repaired
defect of the relation, (a) the historical variant of the model accepts/rejects the pair the way the
old code did, (b) a concrete value shows that this verdict was wrong, (c) the current model gives
the right verdict. The same tables are in /verif/corpus/C09 and are replayed on the real
`quiver_core::types::{is_compatible, types_overlap}` by every run of the harness.
-/
namespace C09
open QM.Types

/-! ### Reflexivity -/

/-- `is_compatible(a, a)` is `true` for every table and every id (fast path), with any fuel ≥ 1. -/
theorem compat_refl (T : Table) (a fuel : Nat) : isCompatible T (fuel + 1) a a = some true := by
  simp [isCompatible, checkRel, checkRelV]

/-- likewise every id overlaps itself — including `never`, which is what the code does
(`self_id == pattern_id` is tested before the empty-union arm). -/
theorem overlap_refl (T : Table) (a fuel : Nat) : typesOverlap T (fuel + 1) a a = some true := by
  simp [typesOverlap, checkRel, checkRelV]

example : isCompatible ⟨[.integer], []⟩ 1 0 0 = some true := compat_refl _ _ _

/-! ### Regression witnesses (names: 1 = Ok, others as commented) -/

/-- verdict of a historical variant in mode ALL -/
def compatV (vr : Variant) (T : Table) (fuel a b : Nat) : Option Bool :=
  (checkRelV vr T .all fuel [] [] a b).map (·.1)

/-- verdict of a historical variant in mode ANY -/
def overlapV (vr : Variant) (T : Table) (fuel a b : Nat) : Option Bool :=
  (checkRelV vr T .any fuel [] [] a b).map (·.1)

/-- F9: 0 = int, 1 = `(x: int)`, 2 = `P(x: int)`   (x = 2, P = 3, Q = 9) -/
def tF9 : Table :=
  ⟨[.integer, .part none [(2, 0)], .part (some 3) [(2, 0)]], [⟨none, []⟩, ⟨some 1, []⟩]⟩

/-- `Q[x: 1]` -/
def vF9 : V := .tup (some 9) (.cons (some 2) (.int 1) .nil)

theorem F9_old_rule_accepts : compatV { nameRuleBothOnly := true } tF9 8 1 2 = some true := by decide
theorem F9_value_only_left : inhB tF9 8 [] 1 vF9 = true ∧ inhB tF9 8 [] 2 vF9 = false := by decide
theorem F9_repaired : isCompatible tF9 8 1 2 = some false := by decide
theorem F9_converse_kept : isCompatible tF9 8 2 1 = some true := by decide

/-- F12: 0 int, 1 bin, 2 `int|bin`, 3 `T2[int|bin, bin]`, 4 `T2[int,int]`, 5 `T2[int,bin]`,
6 `T2[int,int] | T2[int,bin]`, 7 the same union in the other order   (T2 = 2) -/
def tF12 : Table :=
  ⟨[.integer, .binary, .union [0, 1], .tuple 2, .tuple 3, .tuple 4, .union [4, 5], .union [5, 4]],
   [⟨none, []⟩, ⟨some 1, []⟩, ⟨some 2, [(none, 2), (none, 1)]⟩, ⟨some 2, [(none, 0), (none, 0)]⟩,
    ⟨some 2, [(none, 0), (none, 1)]⟩]⟩

/-- `T2[0x00, 0x00]` -/
def vF12 : V := .tup (some 2) (.cons none (.bin [0]) (.cons none (.bin [0]) .nil))

theorem F12_old_rule_accepts :
    compatV { keepFailedAssumptions := true } tF12 12 3 6 = some true := by decide
/-- …and the old verdict depended on the order of the variants -/
theorem F12_old_rule_order_dependent :
    compatV { keepFailedAssumptions := true } tF12 12 3 7 = some false := by decide
theorem F12_value_only_left : inhB tF12 12 [] 3 vF12 = true ∧ inhB tF12 12 [] 6 vF12 = false := by
  decide
theorem F12_repaired : isCompatible tF12 12 3 6 = some false ∧ isCompatible tF12 12 3 7 = some false := by
  decide

/-- f506776: 0 int, 1 `(x: int)`, 2 `B(x: int)`, 3 `Ok(x: int)`   (x = 2, B = 3) -/
def tF14 : Table :=
  ⟨[.integer, .part none [(2, 0)], .part (some 3) [(2, 0)], .part (some 1) [(2, 0)]],
   [⟨none, []⟩, ⟨some 1, []⟩]⟩

/-- `B[x: 1]` -/
def vF14 : V := .tup (some 3) (.cons (some 2) (.int 1) .nil)

theorem F14_old_rule_rejects : overlapV { nameRuleAllInAny := true } tF14 8 1 2 = some false := by decide
theorem F14_common_value : inhB tF14 8 [] 1 vF14 = true ∧ inhB tF14 8 [] 2 vF14 = true := by decide
theorem F14_repaired : typesOverlap tF14 8 1 2 = some true ∧ typesOverlap tF14 8 2 1 = some true := by
  decide
theorem F14_two_names_still_disjoint : typesOverlap tF14 8 2 3 = some false := by decide

/-- 5646380: 0 int, 1 bin, 2 `(x: int)`, 3 `(y: int)`, 4 `(x: bin)`   (x = 2, y = 3) -/
def tF15 : Table :=
  ⟨[.integer, .binary, .part none [(2, 0)], .part none [(3, 0)], .part none [(2, 1)]],
   [⟨none, []⟩, ⟨some 1, []⟩]⟩

/-- `[x: 1, y: 2]` -/
def vF15 : V := .tup none (.cons (some 2) (.int 1) (.cons (some 3) (.int 2) .nil))

theorem F15_old_rule_rejects : overlapV { partFieldsAnyStrict := true } tF15 8 2 3 = some false := by
  decide
theorem F15_common_value : inhB tF15 8 [] 2 vF15 = true ∧ inhB tF15 8 [] 3 vF15 = true := by decide
theorem F15_repaired : typesOverlap tF15 8 2 3 = some true ∧ typesOverlap tF15 8 3 2 = some true := by
  decide
theorem F15_same_field_disjoint_types : typesOverlap tF15 8 2 4 = some false := by decide
/-- the intersection `(x: int) & (y: int)` of the spec's `'rw` example is no longer `never` -/
theorem F15_intersection_not_never :
    (intersect 16 8 tF15 2 3).map (·.2) = some 2 := by decide

/-- f3628e7: 0 int, 1 bin, 2 `A(x: int)`, 3 `A[x: int]`, 4 `B[x: int]`, 5 `A[x: bin]`
(A = 2, x = 3, B = 4) -/
def tF16 : Table :=
  ⟨[.integer, .binary, .part (some 2) [(3, 0)], .tuple 2, .tuple 3, .tuple 4],
   [⟨none, []⟩, ⟨some 1, []⟩, ⟨some 2, [(some 3, 0)]⟩, ⟨some 4, [(some 3, 0)]⟩, ⟨some 2, [(some 3, 1)]⟩]⟩

/-- `A[x: 1]` -/
def vF16 : V := .tup (some 2) (.cons (some 3) (.int 1) .nil)

theorem F16_old_rule_rejects : overlapV { noPartTupleArm := true } tF16 8 2 3 = some false := by decide
theorem F16_common_value : inhB tF16 8 [] 2 vF16 = true ∧ inhB tF16 8 [] 3 vF16 = true := by decide
theorem F16_repaired : typesOverlap tF16 8 2 3 = some true := by decide
theorem F16_wrong_name_or_type_still_disjoint :
    typesOverlap tF16 8 2 4 = some false ∧ typesOverlap tF16 8 2 5 = some false := by decide
theorem F16_partial_never_assignable_to_tuple : isCompatible tF16 8 2 3 = some false := by decide

end C09
