import QuiverModel.Lemmas.Equal.Canon
import QuiverModel.Lemmas.Equal.Values
import QuiverModel.Lemmas.Equal.Refs
/-
C13 — Equality is structural, construction-independent, and refs are unique.

Model: `QuiverModel/Core/Equal/Basic.lean` (`canonicalTuples`, `valuesEqual`, `equalN`,
`matchVerdict`, `erase`, `mintRef`, `MintState`).  All statements are for every context, value,
table, schedule — no bound on sizes or depths.

Hypotheses and history (see notes/C13.md "Findings"; all three defects were found through this
property and are repaired in /repo):
  * `WF … pf` contains `f = pf pid` for every process handle `proc pid f` — an invariant of the
    system since `fix: the self handle of a process changed after a named tail call` (C13-B);
    `valuesEqual_proc_fidx` shows what happens without it;
  * resources: `values_equal` got its `Resource` arm with `fix: a resource handle never compared
    equal to itself` (C13-C); no hypothesis about resources is needed any more;
  * (repaired in /repo by `fix: pin and repeated-binder equality failed on equal nil values`,
    found independently here as C13-A) `Equal` used to answer with its first operand, so NIL was
    never equal to NIL: `matchVerdictLegacy_nil`.
-/
namespace C13
open QM QM.VM QM.Equal

/-! ## Canonical tuple shapes -/

/-- `canon ts i = canon ts j ↔ same name ∧ same labels`, for ids in range. Field types do not
occur: the code drops them (`info.fields.iter().map(|(label, _)| label.clone())`). -/
theorem canon_spec (ts : List TupleInfo) (i j : Nat) (hi : i < ts.length) (hj : j < ts.length) :
    (canonicalTuples ts)[i]'(by simpa [canonicalTuples_length] using hi)
      = (canonicalTuples ts)[j]'(by simpa [canonicalTuples_length] using hj)
    ↔ (ts[i]).name = (ts[j]).name ∧ (ts[i]).labels = (ts[j]).labels :=
  QM.Equal.canon_spec ts i j hi hj

/-- The canonical id is the lowest id with the same name and labels. -/
theorem canon_least (ts : List TupleInfo) (i : Nat) (hi : i < ts.length) :
    let k := (canonicalTuples ts)[i]'(by simpa [canonicalTuples_length] using hi)
    ∃ hk : k < ts.length, k ≤ i ∧ (ts[k]).shape = (ts[i]).shape ∧
      ∀ m (hm : m < k), (ts[m]'(by omega)).shape ≠ (ts[i]).shape :=
  QM.Equal.canon_least ts i hi

/-- The table has one entry per tuple id. -/
theorem canon_length (ts : List TupleInfo) : (canonicalTuples ts).length = ts.length :=
  canonicalTuples_length ts

/-- Appending tuples (a REPL evaluation, a module import) never changes the canonical id of an
existing tuple id, although the table is recomputed from scratch at every program update. -/
theorem canon_append_stable (ts more : List TupleInfo) (i : Nat) (hi : i < ts.length) :
    (canonicalTuples (ts ++ more))[i]'(by simp [canonicalTuples_length]; omega)
      = (canonicalTuples ts)[i]'(by simpa [canonicalTuples_length] using hi) :=
  QM.Equal.canon_append_stable ts more i hi

/-! ## Equality is equality of erasures -/

/-- **Headline.** In a coherent executor context, for well-formed values, `values_equal` answers
`true` exactly when the two values erase to the same structural value (ids → name + labels,
binary handles → bytes, process handles → process id). -/
theorem valuesEqual_iff_erase (X : Ctx) (hX : X.Coherent) (pf : Nat → Nat) (a b : Val)
    (ha : WF X pf a) (hb : WF X pf b) :
    valuesEqual X a b = true ↔ erase X a = erase X b :=
  valuesEqual_iff_erase_aux X hX pf a b ha hb

/-- The same statement with the hypotheses in the form the correspondence check evaluates them:
`wfB` (driver request `(wf v)`) and coherence of the process handles occurring in the two values
(computed by the harness; an invariant of the handle producers, see `handles_WF`). -/
theorem valuesEqual_iff_erase_checked (X : Ctx) (hX : X.Coherent) (pf : Nat → Nat) (a b : Val)
    (ha : wfB X a = true) (hb : wfB X b = true) (pa : ProcOK pf a) (pb : ProcOK pf b) :
    valuesEqual X a b = true ↔ erase X a = erase X b :=
  valuesEqual_iff_erase X hX pf a b ((WF_iff_wfB X pf a).2 ⟨ha, pa⟩) ((WF_iff_wfB X pf b).2 ⟨hb, pb⟩)

theorem valuesEqual_refl (X : Ctx) (hX : X.Coherent) (pf : Nat → Nat) (a : Val) (ha : WF X pf a) :
    valuesEqual X a a = true :=
  (valuesEqual_iff_erase X hX pf a a ha ha).2 rfl

theorem valuesEqual_symm (X : Ctx) (hX : X.Coherent) (pf : Nat → Nat) (a b : Val)
    (ha : WF X pf a) (hb : WF X pf b) (h : valuesEqual X a b = true) : valuesEqual X b a = true :=
  (valuesEqual_iff_erase X hX pf b a hb ha).2 ((valuesEqual_iff_erase X hX pf a b ha hb).1 h).symm

theorem valuesEqual_trans (X : Ctx) (hX : X.Coherent) (pf : Nat → Nat) (a b c : Val)
    (ha : WF X pf a) (hb : WF X pf b) (hc : WF X pf c)
    (h₁ : valuesEqual X a b = true) (h₂ : valuesEqual X b c = true) : valuesEqual X a c = true :=
  (valuesEqual_iff_erase X hX pf a c ha hc).2
    (((valuesEqual_iff_erase X hX pf a b ha hb).1 h₁).trans ((valuesEqual_iff_erase X hX pf b c hb hc).1 h₂))

/-- **Construction independence**: the verdict depends on the two values only through their
erasures — replacing either by *any* other representation of the same structural value (other
tuple id with the same name and labels, constant instead of heap binary, …) keeps the verdict. -/
theorem valuesEqual_construction_independent (X : Ctx) (hX : X.Coherent) (pf : Nat → Nat)
    (a a' b b' : Val) (ha : WF X pf a) (ha' : WF X pf a') (hb : WF X pf b) (hb' : WF X pf b')
    (ea : erase X a = erase X a') (eb : erase X b = erase X b') :
    valuesEqual X a b = valuesEqual X a' b' := by
  rw [Bool.eq_iff_iff, valuesEqual_iff_erase X hX pf a b ha hb,
    valuesEqual_iff_erase X hX pf a' b' ha' hb', ea, eb]

/-- The hypotheses are satisfiable by a non-trivial state: two `P[x: _]` tuples with different ids
(2 and 3: same name and labels, declared at sites with different field types), one holding a
constant binary and the other a heap rope (concat of an owned byte and a slice) with the same
bytes, nested in an unnamed pair. -/
def exCtx : Ctx := Ctx.ofProgram
  [⟨none, []⟩, ⟨some "Ok", []⟩, ⟨some "P", [some "x"]⟩, ⟨some "P", [some "x"]⟩, ⟨none, [none, none]⟩]
  [.int 7, .bin [1, 2, 3]] [.owned [9], .tiled (.owned [1, 2, 3]) 1, .concat (.owned [1]) (.slice (.owned [0, 2, 3, 4]) 1 2) 3]
def exA : Val := .tup 4 (.cons (.tup 2 (.cons (.bin (.const 1)) .nil)) (.cons (.proc 5 8) .nil))
def exB : Val := .tup 4 (.cons (.tup 3 (.cons (.bin (.heap 2)) .nil)) (.cons (.proc 5 8) .nil))
example : exCtx.Coherent := Ctx.ofProgram_coherent _ _ _
  (fun r hr => (Rope.lenOKB_iff r).1 (List.all_eq_true.1 (by decide : List.all _ Rope.lenOKB = true) r hr))
example : wfB exCtx exA = true ∧ wfB exCtx exB = true := by decide
example : valuesEqual exCtx exA exB = true ∧ exA ≠ exB ∧ erase exCtx exA = erase exCtx exB := by decide

/-- **Binary equality is independent of the rope shape** (Owned / Zeroed / Slice / Concat / Tiled,
under any factorisation): two heap binaries compare equal iff their flattened bytes agree. -/
theorem binEqual_shape_independent (X : Ctx) (hX : X.Coherent) (i j : Nat) (ra rb : Rope)
    (hi : X.heap[i]? = some ra) (hj : X.heap[j]? = some rb) :
    valuesEqual X (.bin (.heap i)) (.bin (.heap j)) = true ↔ ra.toVec = rb.toVec := by
  simp [valuesEqual, binEqual_eq X hX.2, Ctx.bytesOf, Ctx.heapBytes, hi, hj]

/-- The heap clause of `Ctx.Coherent` is an invariant of the allocation API: the smart constructors
behind `binary_concat` / `binary_slice` / `binary_repeat` (and `Owned` / `Zeroed` trivially) return
ropes that store their true length and flatten to the expected bytes. -/
theorem constructors_preserve_LenOK (l r : Rope) (hl : l.LenOK) (hr : r.LenOK) :
    (Rope.mkConcat l r).LenOK ∧
    (∀ off n s, Rope.mkSlice l off n = some s → s.LenOK ∧ s.toVec = (l.toVec.drop off).take n) ∧
    (∀ c, (Rope.mkTiled l c).len ≤ maxBinarySize →
      (Rope.mkTiled l c).LenOK ∧ (Rope.mkTiled l c).toVec = (List.replicate c l.toVec).flatten) :=
  ⟨(Rope.mkConcat_ok l r hl hr).1, fun off n s h => Rope.mkSlice_ok l off n hl s h,
   fun c h => Rope.mkTiled_ok l c hl h⟩

/-- The same bytes tiled under three factorisations, zero-filled vs tiled zero, a slice of a concat:
all equal (the situation a shape-based fast path gets wrong). -/
example :
    let X := Ctx.ofProgram [] []
      [.tiled (.owned [0xab]) 8, .tiled (.owned [0xab, 0xab]) 4, .tiled (.tiled (.owned [0xab]) 4) 2,
       .owned [0xab, 0xab, 0xab, 0xab, 0xab, 0xab, 0xab, 0xab],
       .zeroed 4, .tiled (.owned [0]) 4, .slice (.concat (.owned [9, 0, 0]) (.zeroed 5) 8) 1 4]
    valuesEqual X (.bin (.heap 0)) (.bin (.heap 1)) = true ∧
    valuesEqual X (.bin (.heap 1)) (.bin (.heap 2)) = true ∧
    valuesEqual X (.bin (.heap 0)) (.bin (.heap 3)) = true ∧
    valuesEqual X (.bin (.heap 4)) (.bin (.heap 5)) = true ∧
    valuesEqual X (.bin (.heap 5)) (.bin (.heap 6)) = true ∧
    valuesEqual X (.bin (.heap 3)) (.bin (.heap 6)) = false := by decide

/-! ## Where the hypotheses bite (mirrors of the three findings) -/

/-- Resources compare by resource id only (the type id of the handle plays no role). -/
theorem valuesEqual_resource (X : Ctx) (r t r' t' : Nat) :
    valuesEqual X (.res r t) (.res r' t') = (r == r') := by
  simp [valuesEqual]

/-- Why `WF` demands coherent process handles: two handles to the same process with different
function indices (what `handle_self` yielded after a named tail call, before the repair, vs. what
`notify_spawn` delivered to the parent) compare unequal although they erase to the same value. -/
theorem valuesEqual_proc_fidx (X : Ctx) (p f g : Nat) (h : f ≠ g) :
    valuesEqual X (.proc p f) (.proc p g) = false ∧ erase X (.proc p f) = erase X (.proc p g) := by
  simp [valuesEqual, h]

/-- **The process-handle clause of `WF` is an invariant of the handle producers**: whatever a
named tail call has put into the first frame, the handle `&.` yields is the value the spawner got
from `notify_spawn`, and it satisfies `WF` for `pf` = "function the process was started with". -/
theorem selfHandle_eq_spawnHandle (started : Nat → Option Nat) (pid f anyFrameFn : Nat)
    (h : started pid = some f) : selfHandle started anyFrameFn pid = spawnHandle pid f := by
  simp [selfHandle, spawnHandle, h]

theorem handles_WF (X : Ctx) (started : Nat → Option Nat) (pid f anyFrameFn : Nat)
    (h : started pid = some f) :
    WF X (fun p => (started p).getD 0) (selfHandle started anyFrameFn pid) ∧
    WF X (fun p => (started p).getD 0) (spawnHandle pid f) := by
  simp [selfHandle, spawnHandle, WF, h]

/-- Witness of the repaired defect C13-B: with the old `handle_self`, after a named tail call to a
function `g ≠ f` the self handle differs from the spawner's handle, and `values_equal` says so. -/
theorem selfHandleLegacy_differs (X : Ctx) (pid f g : Nat) (h : g ≠ f) :
    valuesEqual X (selfHandleLegacy g pid) (spawnHandle pid f) = false := by
  simp [selfHandleLegacy, spawnHandle, valuesEqual, h]

/-! ## `Equal(n)` -/

/-- `Equal(count)`: underflow check first; `count = 0` panics; otherwise the `count` topmost values
are replaced by `Ok` if every one of them erases to the same structural value as the deepest one,
and by NIL otherwise. -/
theorem equalN_spec (X : Ctx) (hX : X.Coherent) (pf : Nat → Nat) (count : Nat) (stack : List Val)
    (hwf : ∀ v ∈ stack.take count, WF X pf v) :
    equalN X count stack =
      if count > stack.length then .err .stackUnderflow
      else match (stack.take count).reverse with
        | [] => .panic
        | first :: rest =>
          .ok ((if ∀ v ∈ first :: rest, erase X first = erase X v then Val.ok else Val.nil)
            :: stack.drop count) := by
  unfold equalN
  have hmem' : ∀ v ∈ (stack.take count).reverse, WF X pf v := fun v hv => hwf v (List.mem_reverse.1 hv)
  split
  · rfl
  · generalize (stack.take count).reverse = l at hmem'
    cases l with
    | nil => rfl
    | cons first rest =>
      have hfirst := hmem' first (by simp)
      have key : ((first :: rest).all fun v => valuesEqual X first v) = true ↔
          ∀ v ∈ first :: rest, erase X first = erase X v := by
        rw [List.all_eq_true]
        constructor
        · intro h v hv; exact (valuesEqual_iff_erase X hX pf first v hfirst (hmem' v hv)).1 (h v hv)
        · intro h v hv; exact (valuesEqual_iff_erase X hX pf first v hfirst (hmem' v hv)).2 (h v hv)
      by_cases hall : ∀ v ∈ first :: rest, erase X first = erase X v
      · simp only [key.2 hall, if_true, if_pos hall]
      · have hf : ((first :: rest).all fun v => valuesEqual X first v) = false := by
          rw [Bool.eq_false_iff]; exact fun h => hall (key.1 h)
        simp only [hf, if_neg hall]
        rfl

/-- All `count` values pairwise equal ⇔ all equal to the first (by transitivity and symmetry):
the result of `Equal(n)` does not depend on which operand is deepest. -/
theorem equalN_all_pairs (X : Ctx) (l : List Val) (first : Val) :
    (∀ v ∈ first :: l, erase X first = erase X v) ↔
    (∀ u ∈ first :: l, ∀ v ∈ first :: l, erase X u = erase X v) := by
  constructor
  · intro h u hu v hv; rw [← h u hu, ← h v hv]
  · intro h v hv; exact h first (by simp) v hv

/-- `Equal(0)` is a Rust panic (`values[0]` on an empty vector); the compiler only emits `Equal(2)`. -/
theorem equalN_zero (X : Ctx) (stack : List Val) : equalN X 0 stack = .panic := by
  simp [equalN]

/-- **The verdict of a compiled pin / literal / repeated-binder requirement** `a =&b`
(`Equal(2); Not; JumpIf fail`): it holds exactly when the operands are the same structural value. -/
theorem matchVerdict_spec (X : Ctx) (hX : X.Coherent) (pf : Nat → Nat) (a b : Val)
    (ha : WF X pf a) (hb : WF X pf b) :
    matchVerdict X a b = .ok (decide (erase X a = erase X b)) := by
  have hrefl := valuesEqual_refl X hX pf a ha
  have hab := valuesEqual_iff_erase X hX pf a b ha hb
  by_cases h : erase X a = erase X b
  · have := hab.2 h
    simp [matchVerdict, verdictOf, equalN, hrefl, this, h, Val.ok, Val.isNil]
  · have : valuesEqual X a b = false := by
      rw [Bool.eq_false_iff]; exact fun e => h (hab.1 e)
    simp [matchVerdict, verdictOf, equalN, hrefl, this, h, Val.nil, Val.isNil]

theorem matchVerdict_iff (X : Ctx) (hX : X.Coherent) (pf : Nat → Nat) (a b : Val)
    (ha : WF X pf a) (hb : WF X pf b) :
    matchVerdict X a b = .ok true ↔ erase X a = erase X b := by
  rw [matchVerdict_spec X hX pf a b ha hb]
  simp

/-- The verdict is symmetric: `a =&b` and `b =&a` agree. -/
theorem matchVerdict_symm (X : Ctx) (hX : X.Coherent) (pf : Nat → Nat) (a b : Val)
    (ha : WF X pf a) (hb : WF X pf b) : matchVerdict X a b = matchVerdict X b a := by
  rw [matchVerdict_spec X hX pf a b ha hb, matchVerdict_spec X hX pf b a hb ha]
  congr 1
  simp only [decide_eq_decide]
  exact eq_comm

/-- The repaired defect (C13-A) in the model: with the old `handle_equal`, NIL matched against a
pinned NIL *failed* — the "equal" answer was the first operand, here the "not equal" answer. -/
theorem matchVerdictLegacy_nil (X : Ctx) (b : Val) : matchVerdictLegacy X Val.nil b = .ok false := by
  simp only [matchVerdictLegacy, verdictOf, equalNLegacy]
  simp only [List.length_cons, List.length_nil]
  simp [Val.nil, Val.isNil]

/-- … while the current code answers `Ok`. -/
theorem matchVerdict_nil (X : Ctx) : matchVerdict X Val.nil Val.nil = .ok true := by
  simp [matchVerdict, verdictOf, equalN, valuesEqual, zipAllEqual, Val.nil, Val.ok, Val.isNil, ValList.length]

/-! ## Refs -/

/-- `create_ref` on machine words: within the guard the ref is `worker · 2^48 + counter`. -/
theorem mintRef_toNat (w : UInt16) (c : UInt64) (hc : c.toNat < 2 ^ 48) :
    (mintRef w c).toNat = w.toNat * 2 ^ 48 + c.toNat :=
  QM.Equal.mintRef_toNat w c hc

/-- **Injectivity with the explicit guard**: counters below `2^48` (worker ids are `u16` by type). -/
theorem mintRef_injective (w₁ w₂ : UInt16) (c₁ c₂ : UInt64)
    (h₁ : c₁.toNat < 2 ^ 48) (h₂ : c₂.toNat < 2 ^ 48) (h : mintRef w₁ c₁ = mintRef w₂ c₂) :
    w₁ = w₂ ∧ c₁ = c₂ :=
  QM.Equal.mintRef_injective w₁ w₂ c₁ c₂ h₁ h₂ h

/-- The guard is necessary: after `2^48` mints on worker 0 its next ref collides with worker 1's
first. (Unreachable in practice: 2^48 mints.) -/
theorem mintRef_guard_necessary : mintRef 0 (2 ^ 48) = mintRef 1 0 ∧ (0 : UInt16) ≠ 1 :=
  ⟨mintRef_collision_beyond_guard, by decide⟩

/-- **`refs_fresh`**: in a system of `n ≤ 2^16` workers with their own counters, under *every*
schedule of at most `2^48` mint events in total, all minted refs are pairwise distinct — across all
processes and workers (a process is placed on one worker; which process mints is irrelevant since
`create_ref` only touches the worker's counter). -/
theorem refs_fresh (n : Nat) (hn : n ≤ 65536) (ws : List Nat) (s : MintState)
    (hrun : (MintState.init n).run ws = some s) (hlen : ws.length ≤ 2 ^ 48) :
    (s.minted.map Prod.snd).Nodup :=
  (MintInv.run n hn ws (MintState.init n) s (MintInv.init n) (by simpa [MintState.init] using hlen) hrun).nodup

/-- Every schedule over existing workers runs (no mint fails) within the guard. -/
theorem mint_total (n : Nat) (s : MintState) (w : Nat) (inv : MintInv n s)
    (hw : w < n) (hroom : s.minted.length < 2 ^ 48) : ∃ s', s.mint w = some s' := by
  have hlt : w < s.counters.length := by rw [inv.len]; exact hw
  have hc : s.counters[w]? = some s.counters[w] := List.getElem?_eq_getElem hlt
  have hb := inv.bound w _ hc
  have hne : s.counters[w] ≠ 0xFFFFFFFFFFFFFFFF := by
    intro e; rw [e] at hb
    have : (0xFFFFFFFFFFFFFFFF : UInt64).toNat = 2 ^ 64 - 1 := by decide
    omega
  refine ⟨⟨s.counters.set w (s.counters[w] + 1), (w, mintRef (UInt16.ofNat w) s.counters[w]) :: s.minted⟩, ?_⟩
  simp [MintState.mint, hc, createRef, hne]

example : ((MintState.init 3).run [0, 1, 0, 2, 2, 1, 0]).map (fun s => s.minted.map (fun p => p.2.toNat))
    = some [2, 281474976710657, 562949953421313, 562949953421312, 1, 281474976710656, 0] := by decide

end C13
