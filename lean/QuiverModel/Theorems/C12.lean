import QuiverModel.Core.Builtins.Integer
/-
C12 — Builtins are total and agree with simple reference models. Property theorems only.
Naming: every theorem is `C12.<name>`; the audit lists them by scanning this file.
-/
namespace C12
open QM QM.Builtins

/-! ## Arbitrary-precision arithmetic: total, exact, clean errors exactly at the documented domain -/

theorem integer_add_exact (a b : Int) : integerAdd a b = .ok (a + b) := rfl
theorem integer_subtract_exact (a b : Int) : integerSubtract a b = .ok (a - b) := rfl
theorem integer_multiply_exact (a b : Int) : integerMultiply a b = .ok (a * b) := rfl

/-- Division truncates toward zero and is consistent with the remainder; the only error is
    division by zero, and it is the clean `InvalidArgument`. -/
theorem integer_divide_spec (a b : Int) :
    (b = 0 → integerDivide a b = .err .invalidArgument) ∧
    (b ≠ 0 → ∃ q r, integerDivide a b = .ok q ∧ integerModulo a b = .ok r ∧
        a = b * q + r ∧ r.natAbs < b.natAbs) := by
  constructor
  · intro h; simp [integerDivide, h]
  · intro h
    refine ⟨a.tdiv b, a.tmod b, by simp [integerDivide, h], by simp [integerModulo, h], ?_, ?_⟩
    · exact (Int.mul_tdiv_add_tmod a b).symm
    · have h1 := Int.tmod_lt_of_pos a (b := (b.natAbs : Int)) (by omega)
      have h2 : a.tmod (b.natAbs : Int) = a.tmod b := by
        rcases Int.natAbs_eq b with hb | hb
        · rw [← hb]
        · have : (b.natAbs : Int) = -b := by omega
          rw [this, Int.tmod_neg]
      rw [h2] at h1
      have h4 : -(b.natAbs : Int) < a.tmod b := by
        have h5 := Int.tmod_lt_of_pos (-a) (b := (b.natAbs : Int)) (by omega)
        rw [Int.neg_tmod, h2] at h5; omega
      omega

theorem integer_modulo_zero (a : Int) : integerModulo a 0 = .err .invalidArgument := by
  simp [integerModulo]

theorem integer_abs_spec (n : Int) : ∃ r, integerAbs n = .ok r ∧ 0 ≤ r ∧ (r = n ∨ r = -n) := by
  refine ⟨Int.ofNat n.natAbs, rfl, Int.natCast_nonneg _, ?_⟩
  simp only [Int.ofNat_eq_natCast]; omega

/-- Floor square root on the non-negative integers; a negative argument is a clean error. -/
theorem integer_sqrt_spec (n : Int) :
    (n < 0 → integerSqrt n = .err .invalidArgument) ∧
    (0 ≤ n → ∃ r, integerSqrt n = .ok r ∧ 0 ≤ r ∧ r * r ≤ n ∧ n < (r + 1) * (r + 1)) := by
  constructor
  · intro h; simp [integerSqrt, h]
  · intro h
    refine ⟨Int.ofNat (Nat.sqrt n.toNat), ?_, Int.natCast_nonneg _, ?_, ?_⟩
    · have : ¬ n < 0 := by omega
      simp [integerSqrt, this]
    · have h1 := Nat.sqrt_le n.toNat
      have : ((Nat.sqrt n.toNat * Nat.sqrt n.toNat : Nat) : Int) ≤ (n.toNat : Int) := by
        exact_mod_cast h1
      simp only [Int.ofNat_eq_natCast]
      rw [Int.toNat_of_nonneg h] at this
      simpa [Int.natCast_mul] using this
    · have h1 := Nat.lt_succ_sqrt n.toNat
      have : ((n.toNat : Nat) : Int) < ((Nat.succ (Nat.sqrt n.toNat) * Nat.succ (Nat.sqrt n.toNat) : Nat) : Int) := by
        exact_mod_cast h1
      simp only [Int.ofNat_eq_natCast]
      rw [Int.toNat_of_nonneg h] at this
      simpa [Int.natCast_mul, Int.natCast_succ] using this

theorem integer_gcd_spec (a b : Int) :
    ∃ g : Nat, integerGcd a b = .ok (Int.ofNat g) ∧ (g : Int) ∣ a ∧ (g : Int) ∣ b ∧
      ∀ d : Int, d ∣ a → d ∣ b → d ∣ (g : Int) :=
  ⟨Int.gcd a b, rfl, Int.gcd_dvd_left _ _, Int.gcd_dvd_right _ _, fun _ ha hb => Int.dvd_coe_gcd ha hb⟩

theorem integer_compare_spec (a b : Int) :
    ∃ r, integerCompare a b = .ok r ∧ (r = -1 ↔ a < b) ∧ (r = 0 ↔ a = b) ∧ (r = 1 ↔ a > b) := by
  unfold integerCompare
  by_cases h1 : a < b
  · refine ⟨-1, by simp [h1], ?_, ?_, ?_⟩ <;> omega
  · by_cases h2 : a > b
    · refine ⟨1, by simp [h1, h2], ?_, ?_, ?_⟩ <;> omega
    · refine ⟨0, by simp [h1, h2], ?_, ?_, ?_⟩ <;> omega

/-! ## 64-bit bitwise family: clean error exactly outside the i64 range; otherwise the
    two's-complement word operation, and the result is again an i64. -/

theorem toI64_ok {z : Int} (h : FitsI64 z) : toI64 z = .ok (BitVec.ofInt 64 z) := if_pos h
theorem toI64_err {z : Int} (h : ¬ FitsI64 z) : toI64 z = .err .invalidArgument := if_neg h

theorem toI64_spec (z : Int) :
    (FitsI64 z → ∃ x, toI64 z = .ok x ∧ x.toInt = z) ∧
    (¬ FitsI64 z → toI64 z = .err .invalidArgument) := by
  constructor
  · intro h
    refine ⟨BitVec.ofInt 64 z, toI64_ok h, ?_⟩
    rw [BitVec.toInt_ofInt]
    obtain ⟨h1, h2⟩ := h
    apply Int.bmod_eq_of_le_mul_two <;> omega
  · exact toI64_err

theorem toInt_fits (x : BitVec 64) : FitsI64 x.toInt := by
  have h1 := BitVec.le_toInt x
  have h2 := BitVec.toInt_lt (x := x)
  constructor <;> omega

/-- `integer_and` etc. on i64 operands: the result is the bitwise operation on the
    two's-complement words, and is again in i64 range. -/
theorem integer_bitwise_spec (a b : Int) (ha : FitsI64 a) (hb : FitsI64 b) :
    (∃ r, integerAnd a b = .ok r ∧ FitsI64 r ∧
        BitVec.ofInt 64 r = BitVec.ofInt 64 a &&& BitVec.ofInt 64 b) ∧
    (∃ r, integerOr a b = .ok r ∧ FitsI64 r ∧
        BitVec.ofInt 64 r = BitVec.ofInt 64 a ||| BitVec.ofInt 64 b) ∧
    (∃ r, integerXor a b = .ok r ∧ FitsI64 r ∧
        BitVec.ofInt 64 r = BitVec.ofInt 64 a ^^^ BitVec.ofInt 64 b) ∧
    (∃ r, integerNot a = .ok r ∧ FitsI64 r ∧ BitVec.ofInt 64 r = ~~~ BitVec.ofInt 64 a) := by
  refine ⟨⟨_, ?_, toInt_fits _, BitVec.ofInt_toInt⟩, ⟨_, ?_, toInt_fits _, BitVec.ofInt_toInt⟩,
    ⟨_, ?_, toInt_fits _, BitVec.ofInt_toInt⟩, ⟨_, ?_, toInt_fits _, BitVec.ofInt_toInt⟩⟩ <;>
  simp only [integerAnd, integerOr, integerXor, integerNot, two64, toI64_ok ha, toI64_ok hb,
    Outcome.map, Outcome.bind]

/-- Outside the i64 range the bitwise family reports the clean `InvalidArgument`. -/
theorem integer_bitwise_clean_error (a b : Int) (h : ¬ FitsI64 a ∨ ¬ FitsI64 b) :
    integerAnd a b = .err .invalidArgument ∧ integerOr a b = .err .invalidArgument ∧
    integerXor a b = .err .invalidArgument ∧ integerShift a b = .err .invalidArgument := by
  rcases h with h | h
  · simp only [integerAnd, integerOr, integerXor, integerShift, two64, toI64_err h, Outcome.map,
      Outcome.bind, and_self]
  · by_cases ha : FitsI64 a
    · simp only [integerAnd, integerOr, integerXor, integerShift, two64, toI64_err h, toI64_ok ha,
        Outcome.map, Outcome.bind, and_self]
    · simp only [integerAnd, integerOr, integerXor, integerShift, two64, toI64_err ha, Outcome.map,
        Outcome.bind, and_self]

end C12
