import QuiverModel.Core.Builtins.Dispatch
import QuiverModel.Lemmas.Bytes.Basic
import QuiverModel.Lemmas.Bytes.Cons
import QuiverModel.Lemmas.Bytes.Find
import QuiverModel.Lemmas.Builtins.Refine
import QuiverModel.Lemmas.Builtins.Window
import QuiverModel.Lemmas.Builtins.SetField
import QuiverModel.Lemmas.Builtins.Shift
import QuiverModel.Lemmas.Builtins.VectorRefine
import QuiverModel.Lemmas.Builtins.IntegerBits
import QuiverModel.Lemmas.Builtins.DispatchTotal
import QuiverModel.Lemmas.Builtins.DispatchShape
/-
C12 — Builtins are total and agree with simple reference models. Property theorems only
(helper lemmas live in `Lemmas/Bytes/*`, `Lemmas/Builtins/*`).
Naming: every theorem is `C12.<name>`; the audit lists them by scanning this file.

Reading guide
  * `Rope.Stored r`  — `r` is a rope as the executor heap stores them: well-formed (`WF`: cached
    lengths right, windows inside parents, nothing exceeds `usize`) and `len ≤ MAX_BINARY_SIZE`.
    `stored_*` theorems: every constructor builtin produces stored ropes from stored ropes.
  * `r.bytes`        — the flat content (reference semantics of a rope).
  * `RefinesBin o s` — model outcome `o` (rope, may `panic`) refines the flat reference outcome `s`:
    same error class, or a *stored* rope with exactly the specified content; `panic` refines nothing.
  * `Spec.*`         — plain reference models: flat bytes, unbounded integers, documented domain
    as an explicit condition, `InvalidArgument` outside.
  For every builtin `b`: `b_refines` (agreement with the reference on every argument),
  `builtins_total` (never `panic`, all arguments, all names), `b_shape_independent`.
-/
namespace C12
open QM QM.Builtins QM.Bytes QM.Bytes.Rope

/-! ## Arbitrary-precision arithmetic: total, exact, clean errors exactly at the documented domain -/

theorem integer_add_exact (a b : Int) : integerAdd a b = .ok (a + b) := rfl
theorem integer_subtract_exact (a b : Int) : integerSubtract a b = .ok (a - b) := rfl
theorem integer_multiply_exact (a b : Int) : integerMultiply a b = .ok (a * b) := rfl

/-- Division truncates toward zero and is consistent with the remainder; the only error is
    division by zero, and it is the clean `InvalidArgument`. -/
theorem integer_divide_spec (a b : Int) :
    (b = 0 → integerDivide a b = .err .invalidArgument) ∧
    (b ≠ 0 → ∃ q r, integerDivide a b = .ok q ∧ integerModulo a b = .ok r ∧
        a = b * q + r ∧ r.natAbs < b.natAbs) := by
  constructor
  · intro h; simp [integerDivide, h]
  · intro h
    refine ⟨a.tdiv b, a.tmod b, by simp [integerDivide, h], by simp [integerModulo, h], ?_, ?_⟩
    · exact (Int.mul_tdiv_add_tmod a b).symm
    · have h1 := Int.tmod_lt_of_pos a (b := (b.natAbs : Int)) (by omega)
      have h2 : a.tmod (b.natAbs : Int) = a.tmod b := by
        rcases Int.natAbs_eq b with hb | hb
        · rw [← hb]
        · have : (b.natAbs : Int) = -b := by omega
          rw [this, Int.tmod_neg]
      rw [h2] at h1
      have h4 : -(b.natAbs : Int) < a.tmod b := by
        have h5 := Int.tmod_lt_of_pos (-a) (b := (b.natAbs : Int)) (by omega)
        rw [Int.neg_tmod, h2] at h5; omega
      omega

theorem integer_modulo_zero (a : Int) : integerModulo a 0 = .err .invalidArgument := by
  simp [integerModulo]

theorem integer_abs_spec (n : Int) : ∃ r, integerAbs n = .ok r ∧ 0 ≤ r ∧ (r = n ∨ r = -n) := by
  refine ⟨Int.ofNat n.natAbs, rfl, Int.natCast_nonneg _, ?_⟩
  simp only [Int.ofNat_eq_natCast]; omega

/-- Floor square root on the non-negative integers; a negative argument is a clean error. -/
theorem integer_sqrt_spec (n : Int) :
    (n < 0 → integerSqrt n = .err .invalidArgument) ∧
    (0 ≤ n → ∃ r, integerSqrt n = .ok r ∧ 0 ≤ r ∧ r * r ≤ n ∧ n < (r + 1) * (r + 1)) := by
  constructor
  · intro h; simp [integerSqrt, h]
  · intro h
    refine ⟨Int.ofNat (Nat.sqrt n.toNat), ?_, Int.natCast_nonneg _, ?_, ?_⟩
    · have : ¬ n < 0 := by omega
      simp [integerSqrt, this]
    · have h1 := Nat.sqrt_le n.toNat
      have : ((Nat.sqrt n.toNat * Nat.sqrt n.toNat : Nat) : Int) ≤ (n.toNat : Int) := by
        exact_mod_cast h1
      simp only [Int.ofNat_eq_natCast]
      rw [Int.toNat_of_nonneg h] at this
      simpa [Int.natCast_mul] using this
    · have h1 := Nat.lt_succ_sqrt n.toNat
      have : ((n.toNat : Nat) : Int) < ((Nat.succ (Nat.sqrt n.toNat) * Nat.succ (Nat.sqrt n.toNat) : Nat) : Int) := by
        exact_mod_cast h1
      simp only [Int.ofNat_eq_natCast]
      rw [Int.toNat_of_nonneg h] at this
      simpa [Int.natCast_mul, Int.natCast_succ] using this

theorem integer_gcd_spec (a b : Int) :
    ∃ g : Nat, integerGcd a b = .ok (Int.ofNat g) ∧ (g : Int) ∣ a ∧ (g : Int) ∣ b ∧
      ∀ d : Int, d ∣ a → d ∣ b → d ∣ (g : Int) :=
  ⟨Int.gcd a b, rfl, Int.gcd_dvd_left _ _, Int.gcd_dvd_right _ _, fun _ ha hb => Int.dvd_coe_gcd ha hb⟩

theorem integer_compare_spec (a b : Int) :
    ∃ r, integerCompare a b = .ok r ∧ (r = -1 ↔ a < b) ∧ (r = 0 ↔ a = b) ∧ (r = 1 ↔ a > b) := by
  unfold integerCompare
  by_cases h1 : a < b
  · refine ⟨-1, by simp [h1], ?_, ?_, ?_⟩ <;> omega
  · by_cases h2 : a > b
    · refine ⟨1, by simp [h1, h2], ?_, ?_, ?_⟩ <;> omega
    · refine ⟨0, by simp [h1, h2], ?_, ?_, ?_⟩ <;> omega

/-! ## 64-bit bitwise family: clean error exactly outside the i64 range; otherwise the
    two's-complement word operation, and the result is again an i64. -/

theorem toI64_ok {z : Int} (h : FitsI64 z) : toI64 z = .ok (BitVec.ofInt 64 z) := if_pos h
theorem toI64_err {z : Int} (h : ¬ FitsI64 z) : toI64 z = .err .invalidArgument := if_neg h

theorem toI64_spec (z : Int) :
    (FitsI64 z → ∃ x, toI64 z = .ok x ∧ x.toInt = z) ∧
    (¬ FitsI64 z → toI64 z = .err .invalidArgument) := by
  constructor
  · intro h
    refine ⟨BitVec.ofInt 64 z, toI64_ok h, ?_⟩
    rw [BitVec.toInt_ofInt]
    obtain ⟨h1, h2⟩ := h
    apply Int.bmod_eq_of_le_mul_two <;> omega
  · exact toI64_err

theorem toInt_fits (x : BitVec 64) : FitsI64 x.toInt := by
  have h1 := BitVec.le_toInt x
  have h2 := BitVec.toInt_lt (x := x)
  constructor <;> omega

/-- `integer_and` etc. on i64 operands: the result is the bitwise operation on the
    two's-complement words, and is again in i64 range. -/
theorem integer_bitwise_spec (a b : Int) (ha : FitsI64 a) (hb : FitsI64 b) :
    (∃ r, integerAnd a b = .ok r ∧ FitsI64 r ∧
        BitVec.ofInt 64 r = BitVec.ofInt 64 a &&& BitVec.ofInt 64 b) ∧
    (∃ r, integerOr a b = .ok r ∧ FitsI64 r ∧
        BitVec.ofInt 64 r = BitVec.ofInt 64 a ||| BitVec.ofInt 64 b) ∧
    (∃ r, integerXor a b = .ok r ∧ FitsI64 r ∧
        BitVec.ofInt 64 r = BitVec.ofInt 64 a ^^^ BitVec.ofInt 64 b) ∧
    (∃ r, integerNot a = .ok r ∧ FitsI64 r ∧ BitVec.ofInt 64 r = ~~~ BitVec.ofInt 64 a) := by
  refine ⟨⟨_, ?_, toInt_fits _, BitVec.ofInt_toInt⟩, ⟨_, ?_, toInt_fits _, BitVec.ofInt_toInt⟩,
    ⟨_, ?_, toInt_fits _, BitVec.ofInt_toInt⟩, ⟨_, ?_, toInt_fits _, BitVec.ofInt_toInt⟩⟩ <;>
  simp only [integerAnd, integerOr, integerXor, integerNot, two64, toI64_ok ha, toI64_ok hb,
    Outcome.map, Outcome.bind]

/-- Outside the i64 range the bitwise family reports the clean `InvalidArgument`. -/
theorem integer_bitwise_clean_error (a b : Int) (h : ¬ FitsI64 a ∨ ¬ FitsI64 b) :
    integerAnd a b = .err .invalidArgument ∧ integerOr a b = .err .invalidArgument ∧
    integerXor a b = .err .invalidArgument ∧ integerShift a b = .err .invalidArgument := by
  rcases h with h | h
  · simp only [integerAnd, integerOr, integerXor, integerShift, two64, toI64_err h, Outcome.map,
      Outcome.bind, and_self]
  · by_cases ha : FitsI64 a
    · simp only [integerAnd, integerOr, integerXor, integerShift, two64, toI64_err h, toI64_ok ha,
        Outcome.map, Outcome.bind, and_self]
    · simp only [integerAnd, integerOr, integerXor, integerShift, two64, toI64_err ha, Outcome.map,
        Outcome.bind, and_self]


/-- `integer_shift` on i64 operands: positive amounts multiply by `2^amount` and wrap to an i64,
    negative amounts are floor division by `2^|amount|` (arithmetic shift) — for every amount,
    including |amount| ≥ 64. -/
theorem integer_shift_spec (v a : Int) (hv : FitsI64 v) (ha : FitsI64 a) :
    integerShift v a = .ok (if a ≥ 0 then Int.bmod (v * 2 ^ a.toNat) (2 ^ 64) else v / 2 ^ (-a).toNat) :=
  integerShift_eq v a hv ha

example : FitsI64 (-3) ∧ FitsI64 (-70) ∧ integerShift (-3) (-70) = .ok (-1) := by decide

/-- `integer_popcount` counts the one bits of the 64-bit two's-complement word. -/
theorem integer_popcount_spec (a : Int) (h : FitsI64 a) :
    integerPopcount a = .ok (Int.ofNat
      (((List.range 64).map fun i => ((BitVec.ofInt 64 a).getLsbD i).toNat).sum)) :=
  integerPopcount_eq a h

theorem integer_popcount_clean_error (a : Int) (h : ¬ FitsI64 a) :
    integerPopcount a = .err .invalidArgument ∧ integerNot a = .err .invalidArgument := by
  simp only [integerPopcount, integerNot, toI64_err h, Outcome.map, Outcome.bind, and_self]

/-- **The integer family is total**: for every registry name of the family and every argument
    whatsoever (any magnitude, ill-typed ones included) the outcome is a value or a clean error. -/
theorem integer_family_total (name : String) (arg : BArg) (o : Outcome BArg)
    (h : callInteger name arg = some o) : o ≠ .panic :=
  callInteger_total name arg o h

/-! ## M-Bytes: the rope is its flat content

The functions of `binary.rs` on well-formed ropes never panic and are the list operations on
`r.bytes`; the smart constructors preserve well-formedness. -/

/-- `len_toVec`: `to_vec` succeeds, yields the content, and `len` is its length. -/
theorem len_toVec (r : Rope) (h : r.WF) : r.toVec = .ok r.bytes ∧ r.len = r.bytes.length :=
  ⟨h.toVec_eq, h.len_eq⟩

/-- `byteAt_toVec`: `byte_at` is indexing into the content (`none` exactly past the end). -/
theorem byteAt_toVec (r : Rope) (h : r.WF) (i : Nat) : r.byteAt i = .ok r.bytes[i]? := h.byteAt_eq i

/-- the byte iterator yields exactly the content -/
theorem iter_toVec (r : Rope) (h : r.WF) : r.iter = .ok r.bytes := h.iter_eq

/-- `findByte_spec`: `find_byte` returns the first occurrence at or after the offset — on every
    rope shape, including the partial-first-unit logic of `Tiled`. -/
theorem findByte_spec (r : Rope) (h : r.WF) (b : UInt8) (off : Nat) :
    ∃ res, r.findByte b off = .ok res ∧ res = Rope.findFrom r.bytes b off ∧
      (∀ i, res = some i → off ≤ i ∧ r.bytes[i]? = some b ∧ ∀ j, off ≤ j → j < i → r.bytes[j]? ≠ some b) ∧
      (res = none → ∀ j, off ≤ j → r.bytes[j]? ≠ some b) := by
  refine ⟨_, h.findByte_eq b off, rfl, ?_, ?_⟩
  · intro i hi
    have := findFrom_isFirst r.bytes b off
    rw [hi] at this; exact this
  · intro hn
    have := findFrom_isFirst r.bytes b off
    rw [hn] at this; exact this

/-- `slice_toVec`: `BinaryData::slice` succeeds exactly on in-range windows (no overflow for any
    offset/length), and the result is a well-formed rope denoting the window. -/
theorem slice_toVec (p : Rope) (hp : p.WF) (off l : Nat) :
    (off + l ≤ p.len → ∃ r, Rope.mkSlice p off l = some r ∧ r.WF ∧ r.len = l ∧
        r.toVec = .ok ((p.bytes.drop off).take l)) ∧
    (¬ off + l ≤ p.len → Rope.mkSlice p off l = none) := by
  constructor
  · intro h
    obtain ⟨r, hr, hw, hb, hl⟩ := mkSlice_some hp h
    exact ⟨r, hr, hw, hl, by rw [hw.toVec_eq, hb]⟩
  · exact mkSlice_none

/-- `BinaryData::concat`: panics (debug) exactly when the total length overflows `usize`;
    otherwise a well-formed rope denoting the concatenation. -/
theorem concat_toVec (l r : Rope) (hl : l.WF) (hr : r.WF) :
    (l.len + r.len < 18446744073709551616 → ∃ c, Rope.mkConcat l r = .ok c ∧ c.WF ∧
        c.toVec = .ok (l.bytes ++ r.bytes)) ∧
    (¬ l.len + r.len < 18446744073709551616 → Rope.mkConcat l r = .panic) := by
  constructor
  · intro h
    obtain ⟨c, hc, hw, hb, _⟩ := mkConcat_ok hl hr h
    exact ⟨c, hc, hw, by rw [hw.toVec_eq, hb]⟩
  · exact mkConcat_panic

/-- `tiled_toVec`: `BinaryData::tiled` never overflows: its cached length is the *saturating*
    product (the F4 repair), and when the product fits it is a well-formed rope denoting `count`
    copies of the unit. -/
theorem tiled_toVec (u : Rope) (hu : u.WF) (c : Nat) :
    (Rope.mkTiled u c).len = satMul u.len c ∧
    (u.len * c < 18446744073709551616 → (Rope.mkTiled u c).WF ∧
        (Rope.mkTiled u c).toVec = .ok (Rope.tile u.bytes c)) := by
  refine ⟨mkTiled_len hu c, fun h => ?_⟩
  obtain ⟨hw, hb⟩ := mkTiled_spec hu h
  exact ⟨hw, by rw [hw.toVec_eq, hb]⟩

/-- a concrete non-trivial stored rope: `concat(slice(owned), tiled(owned))` -/
example : (Rope.concat (.slice (.owned [9, 1, 2, 9]) 1 2) (.tiled (.owned [3, 4]) 3) 8).Stored ∧
    (Rope.concat (.slice (.owned [9, 1, 2, 9]) 1 2) (.tiled (.owned [3, 4]) 3) 8).bytes
      = [1, 2, 3, 4, 3, 4, 3, 4] := by decide

/-- `materialize` (in-place flattening on read) is content preserving and leaves a stored rope. -/
theorem materialize_spec (r : Rope) (h : r.Stored) :
    materialize r = .ok (r.bytes, .owned r.bytes) ∧ (Rope.owned r.bytes).Stored ∧
      (Rope.owned r.bytes).bytes = r.bytes := by
  refine ⟨materialize_eq h.1, ⟨?_, ?_⟩, rfl⟩
  · have := h.length_le; simp only [Rope.WF]; omega
  · simpa [Rope.len] using h.length_le

/-! ## Binary family: agreement with the reference model on **every** argument

Each theorem covers the whole argument space: inside the documented domain the result is the
reference value (and a stored rope), outside it is the clean `InvalidArgument`. -/

theorem binary_new_refines (size : Int) : RefinesBin (binaryNew size) (Spec.binaryNew size) :=
  binaryNew_refines size

theorem binary_length_spec (r : Rope) (h : r.WF) : binaryLength r = .ok (Int.ofNat r.bytes.length) :=
  binaryLength_eq h

theorem binary_concat_refines (a b : Rope) (ha : a.Stored) (hb : b.Stored) :
    RefinesBin (binaryConcat a b) (Spec.binaryConcat a.bytes b.bytes) := binaryConcat_refines ha hb

/-- `binary_repeat` for **every** count: the reference repeats when `0 ≤ count < 2^64` and the
    product is within the size limit; any other count — `2^63`, `2^64 - 1`, beyond — is the clean
    `InvalidArgument` (no overflow: defect F4, commit 258da96). -/
theorem binary_repeat_refines (r : Rope) (hr : r.Stored) (count : Int) :
    RefinesBin (binaryRepeat r count) (Spec.binaryRepeat r.bytes count) := binaryRepeat_refines hr count

example : (Rope.owned [0xaa, 0xbb]).Stored ∧
    binaryRepeat (.owned [0xaa, 0xbb]) 9223372036854775808 = .err .invalidArgument := by decide

theorem binary_and_refines (a b : Rope) (ha : a.Stored) (hb : b.Stored) :
    RefinesBin (binaryAnd a b) (.ok (List.zipWith (· &&& ·) a.bytes b.bytes)) := binaryAnd_refines ha hb

theorem binary_or_refines (a b : Rope) (ha : a.Stored) (hb : b.Stored) :
    RefinesBin (binaryOr a b) (.ok (Spec.padZip (· ||| ·) a.bytes b.bytes)) := padZip_refines _ ha hb

theorem binary_xor_refines (a b : Rope) (ha : a.Stored) (hb : b.Stored) :
    RefinesBin (binaryXor a b) (.ok (Spec.padZip (· ^^^ ·) a.bytes b.bytes)) := padZip_refines _ ha hb

theorem binary_not_refines (r : Rope) (hr : r.Stored) :
    RefinesBin (binaryNot r) (.ok (r.bytes.map (~~~ ·))) := binaryNot_refines hr

/-- `binary_index`: on `0 ≤ byte ≤ 255`, `0 ≤ offset < 2^64` the first occurrence (or nil) in the
    content — see `findByte_spec` for the characterisation of `findFrom`; clean error otherwise. -/
theorem binary_index_spec (r : Rope) (hr : r.WF) (byte off : Int) :
    binaryIndex r byte off = Spec.binaryIndex r.bytes byte off := binaryIndex_eq hr byte off

theorem binary_slice_refines (r : Rope) (hr : r.Stored) (start stop : Int) :
    RefinesBin (binarySlice r start stop) (Spec.binarySlice r.bytes start stop) :=
  binarySlice_refines hr start stop

theorem binary_popcount_spec (r : Rope) (hr : r.Stored) :
    binaryPopcount r = .ok (Int.ofNat (Spec.popcount r.bytes)) := binaryPopcount_eq hr

/-- `binary_hash32` is FNV-1a (32 bit) of the content, with the constants of the source. -/
theorem binary_hash32_spec (r : Rope) (hr : r.WF) :
    binaryHash32 r = .ok (Int.ofNat (fnv1a32 fnv32Offset fnv32Prime r.bytes)) := binaryHash32_eq hr

/-- `binary_hash64` is FNV-1a (64 bit) of the content reinterpreted as a signed word. -/
theorem binary_hash64_spec (r : Rope) (hr : r.WF) :
    binaryHash64 r = .ok (let h := fnv1a64 fnv64Offset fnv64Prime r.bytes
      if h ≥ 9223372036854775808 then (h : Int) - 18446744073709551616 else (h : Int)) :=
  binaryHash64_eq hr

/-- `binary_append` on its documented domain appends `nb` bytes … -/
theorem binary_append_refines (r : Rope) (hr : r.Stored) (value nb : Int) :
    RefinesBin (binaryAppend r value nb) (Spec.binaryAppend r.bytes value nb) :=
  binaryAppend_refines hr value nb

/-- … which are the big-endian representation of the value. -/
theorem binary_append_bytes (n x : Nat) (h : x < 256 ^ n) :
    (beBytes n x).length = n ∧ Spec.beNat (beBytes n x) = x := ⟨length_beBytes n x, beNat_beBytes_of_lt h⟩

/-- **`binary_get`** for every argument: inside the window condition the `nb`-bit big-endian field
    of the whole content read as one number — also for 64-bit fields at bit offsets 1..7, which
    span nine bytes (defect F2, commit 3563f23) — and the clean `InvalidArgument` otherwise, also
    when `byte_offset * 8` exceeds a `usize` (defect F4). -/
theorem binary_get_spec (r : Rope) (hr : r.Stored) (bo bi nb : Int) :
    binaryGet r bo bi nb = Spec.binaryGet r.bytes bo bi nb := binaryGet_eq hr bo bi nb

/-- the F2 reproducer, on the model and on the reference -/
example : binaryGet (.owned [1, 2, 3, 4, 5, 6, 7, 8, 9, 10]) 0 4 64 = .ok 0x1020304050607080 ∧
    Spec.InWindow 10 0 4 64 := by decide

/-- **`binary_shift`** refines the flat algorithm for every amount … -/
theorem binary_shift_refines (r : Rope) (hr : r.Stored) (amt : Int) :
    RefinesBin (binaryShift r amt) (Spec.binaryShift r.bytes amt) := binaryShift_refines hr amt

/-- … whose meaning is the logical shift of the content read as one big-endian number of
    `8 * length` bits: multiplication by `2^amt` modulo `2^(8 * length)` to the left, division by
    `2^|amt|` to the right — for **every** amount (a shift by `2^32` gives zeros: defect F1,
    commit 90ea795), and the length is preserved. -/
theorem binary_shift_value (v : List UInt8) (amt : Int) :
    (Spec.shiftBytes v amt).length = v.length ∧
    Spec.beNat (Spec.shiftBytes v amt) = Spec.shiftValue v amt :=
  ⟨length_shiftBytes v amt, beNat_shiftBytes v amt⟩

example : binaryShift (.owned [0xff, 0x00]) 4294967296 = .ok (.owned [0, 0]) ∧
    Spec.shiftBytes [0xff, 0x00] 4294967296 = [0, 0] := by decide

/-- **`binary_set`** refines the flat algorithm on every argument (domain: a window inside the
    content and a value of at most `nb` bits that is an `i64`). -/
theorem binary_set_refines (r : Rope) (hr : r.Stored) (bo bi value nb : Int) :
    RefinesBin (binarySet r bo bi value nb) (Spec.binarySet r.bytes bo bi value nb) :=
  binarySet_refines hr bo bi value nb

/-- … whose meaning is: same length, and the content read as one big-endian number is the old
    number with the `nb`-bit field at bit `8*bo + bi` replaced by the value — also for 64-bit fields
    at bit offsets 1..7 (nine bytes touched: defect F2). -/
theorem binary_set_value (v : List UInt8) (bo bi value nb : Int)
    (h : Spec.SetDomain v.length bo bi value nb) :
    (Spec.setBytes v bo.toNat bi.toNat value.toNat nb.toNat).length = v.length ∧
    Spec.beNat (Spec.setBytes v bo.toNat bi.toNat value.toNat nb.toNat)
      = Spec.setValue v bo bi value nb := by
  obtain ⟨⟨h0, h1, h2, h3, h4, h5⟩, hv0, hv1, _⟩ := h
  have hwin : 8 * bo.toNat + bi.toNat + nb.toNat ≤ 8 * v.length := by omega
  constructor
  · unfold Spec.setBytes
    simp only [List.length_append, List.length_take, List.length_drop, length_beBytes]
    omega
  · rw [beNat_setBytes v bo.toNat bi.toNat value.toNat nb.toNat hwin (by omega) (by omega) (by omega) hv1]
    unfold Spec.setValue Spec.bitsRight
    simp only
    rw [show (8 * bo + bi + nb).toNat = 8 * bo.toNat + bi.toNat + nb.toNat by omega]

/-- a concrete member of the domain: a 64-bit field at bit offset 4 of a 9-byte binary -/
example : Spec.SetDomain 9 0 4 9223372036854775807 64 ∧
    Spec.setBytes [0, 0, 0, 0, 0, 0, 0, 0, 0] 0 4 9223372036854775807 64
      = [0x07, 0xff, 0xff, 0xff, 0xff, 0xff, 0xff, 0xff, 0xf0] := by decide

/-! ## Vector family -/

/-- `vector_add/subtract/multiply`: the exact lane-wise result when every lane fits the width,
    nil when one does not or the buffers are ragged / of different length, clean error for a width
    other than 4 or 8. -/
theorem vector_add_refines (a b : Rope) (ha : a.Stored) (hb : b.Stored) (w : Int) :
    RefinesOptBin (vectorAdd a b w) (Spec.elementwise (· + ·) a.bytes b.bytes w) :=
  elementwise_refines _ ha hb w
theorem vector_subtract_refines (a b : Rope) (ha : a.Stored) (hb : b.Stored) (w : Int) :
    RefinesOptBin (vectorSubtract a b w) (Spec.elementwise (· - ·) a.bytes b.bytes w) :=
  elementwise_refines _ ha hb w
theorem vector_multiply_refines (a b : Rope) (ha : a.Stored) (hb : b.Stored) (w : Int) :
    RefinesOptBin (vectorMultiply a b w) (Spec.elementwise (· * ·) a.bytes b.bytes w) :=
  elementwise_refines _ ha hb w

/-- the encoding used by the elementwise kernels is faithful: decoding the encoded lanes gives the
    lane values back whenever they fit the width (so `Spec.elementwise` really says "the lanes of the
    result are the exact lane-wise results") -/
theorem vector_encode_decode (w : Nat) (hw : w = 4 ∨ w = 8) (zs : List Int)
    (h : ∀ z ∈ zs, Spec.LaneOK w z) : Spec.lanes w (Spec.encode w zs) = zs := lanes_encode hw zs h

example : Spec.lanes 4 (Spec.encode 4 [-1, 2147483647, -2147483648]) = [-1, 2147483647, -2147483648] := by
  decide

theorem vector_less_than_refines (a b : Rope) (ha : a.Stored) (hb : b.Stored) (w : Int) :
    RefinesOptBin (vectorLessThan a b w) (Spec.compare (fun x y => decide (x < y)) a.bytes b.bytes w) :=
  compare_refines _ ha hb w
theorem vector_equal_refines (a b : Rope) (ha : a.Stored) (hb : b.Stored) (w : Int) :
    RefinesOptBin (vectorEqual a b w) (Spec.compare (fun x y => decide (x = y)) a.bytes b.bytes w) :=
  compare_refines _ ha hb w
theorem vector_greater_than_refines (a b : Rope) (ha : a.Stored) (hb : b.Stored) (w : Int) :
    RefinesOptBin (vectorGreaterThan a b w) (Spec.compare (fun x y => decide (x > y)) a.bytes b.bytes w) :=
  compare_refines _ ha hb w

theorem vector_take_refines (d m : Rope) (hd : d.Stored) (hm : m.Stored) (w : Int) :
    RefinesOptBin (vectorTake d w m) (Spec.vectorTake d.bytes w m.bytes) := vectorTake_refines hd hm w

/-- **`vector_get`** for every index: the lane when `0 ≤ index < lanes` on a non-ragged buffer, nil
    otherwise — including index `2^64 - 1`, where `index + 1` used to overflow (defect F3,
    commit acc840c) — clean error for a bad width. -/
theorem vector_get_spec (r : Rope) (hr : r.Stored) (w i : Int) :
    vectorGet r w i = Spec.vectorGet r.bytes w i := vectorGet_eq hr w i

example : vectorGet (.owned [0, 0, 0, 0, 0, 0, 0, 0]) 4 18446744073709551615 = .ok none := by decide

theorem vector_push_refines (r : Rope) (hr : r.Stored) (w v : Int) :
    RefinesOptBin (vectorPush r w v) (Spec.vectorPush r.bytes w v) := vectorPush_refines hr w v

theorem vector_sum_spec (r : Rope) (hr : r.Stored) (w : Int) :
    vectorSum r w = Spec.vectorSum r.bytes w := vectorSum_eq hr w

theorem vector_dot_spec (a b : Rope) (ha : a.Stored) (hb : b.Stored) (w : Int) :
    vectorDot a b w = Spec.vectorDot a.bytes b.bytes w := vectorDot_eq ha hb w

/-! ## Totality: no builtin ever panics -/

/-- **Every modelled pure builtin is total**: whatever the registry name and whatever the argument
    — any integer magnitudes, ill-typed or wrong-arity arguments included — the outcome of the
    dispatcher is a value or a clean error, never `panic`, provided the binaries inside the
    argument are ropes as the heap stores them (every rope shape). -/
theorem builtins_total (name : String) (arg : BArg) (h : arg.Stored) (o : Outcome BArg)
    (ho : callBuiltin name arg = some o) : o ≠ .panic := by
  unfold callBuiltin at ho
  cases hi : callInteger name arg with
  | some oi => rw [hi] at ho; cases ho; exact callInteger_total name arg _ hi
  | none =>
    rw [hi] at ho; simp only at ho
    cases hb : callBinary name arg with
    | some ob => rw [hb] at ho; cases ho; exact callBinary_total name arg h _ hb
    | none => rw [hb] at ho; exact callVector_total name arg h _ ho

/-- the hypothesis is satisfiable by a non-trivial argument (a rope with all five node kinds) -/
example : (BArg.tup [.bin (.concat (.slice (.owned [9, 1, 2, 9]) 1 2) (.tiled (.zeroed 2) 3) 8), .int (2 ^ 64)]).Stored := by
  intro f hf
  simp only [List.mem_cons, List.not_mem_nil, or_false] at hf
  rcases hf with rfl | rfl
  · show Rope.Stored _; decide
  · trivial

/-- the dispatcher answers for exactly the listed names -/
theorem modelled_names_complete :
    ∀ n ∈ modelledNames, (callBuiltin n (.int 0)).isSome = true := by decide

/-! ## Results are stored ropes again (the heap invariant is preserved) -/

theorem stored_result {o : Outcome Rope} {s : Outcome (List UInt8)} (h : RefinesBin o s)
    (r : Rope) (hr : o = .ok r) : r.Stored := by
  subst hr; cases s <;> first | exact h.1 | exact h.elim

theorem stored_result_opt {o : Outcome (Option Rope)} {s : Outcome (Option (List UInt8))}
    (h : RefinesOptBin o s) (r : Rope) (hr : o = .ok (some r)) : r.Stored := by
  subst hr
  cases s with
  | ok v => cases v with
    | some v => exact h.1
    | none => exact h.elim
  | err _ => exact h.elim
  | panic => exact h.elim

/-! ## Shape independence: results depend on the content of a binary only

Two stored ropes of equal content give the same outcome (same integer / nil / error class, and
result ropes of equal content) — for every builtin taking a binary. -/

/-- **Results do not depend on how an argument binary was built** — one statement for all builtins:
    if two arguments have the same structure and integers and their binaries have equal content
    (`BArg.same`: any two rope shapes — literal, concatenation, slice, repeat, zero-fill, nested),
    then for every registry name the two outcomes are observably the same (`outSame`: same integer,
    nil, or error class; result binaries of equal content; neither is a panic). -/
theorem builtins_shape_independent (name : String) (a₁ a₂ : BArg) (h₁ : a₁.Stored) (h₂ : a₂.Stored)
    (hs : a₁.same a₂) (o₁ : Outcome BArg) (h : callBuiltin name a₁ = some o₁) :
    ∃ o₂, callBuiltin name a₂ = some o₂ ∧ outSame o₁ o₂ :=
  callBuiltin_same h₁ h₂ hs name o₁ h

/-- two differently built arguments of equal content: `[tiled(0a 61) × 2 ‖ slice, 7]` vs the flat literal -/
example : (BArg.tup [.bin (.concat (.tiled (.owned [0x0a, 0x61]) 2) (.slice (.owned [9, 0x62, 9]) 1 1) 5), .int 7]).same
    (BArg.tup [.bin (.owned [0x0a, 0x61, 0x0a, 0x61, 0x62]), .int 7]) := by
  refine ⟨?_, rfl, trivial⟩
  show Rope.bytes _ = Rope.bytes _
  decide

theorem shape_independent_bin {f : Rope → Outcome Rope} {s : List UInt8 → Outcome (List UInt8)}
    (h : ∀ r, r.Stored → RefinesBin (f r) (s r.bytes))
    (r₁ r₂ : Rope) (h₁ : r₁.Stored) (h₂ : r₂.Stored) (he : r₁.bytes = r₂.bytes) :
    (f r₁).map Rope.bytes = (f r₂).map Rope.bytes :=
  RefinesBin.same (h r₁ h₁) (he ▸ h r₂ h₂)

theorem shape_independent_bin2 {f : Rope → Rope → Outcome Rope}
    {s : List UInt8 → List UInt8 → Outcome (List UInt8)}
    (h : ∀ a b, a.Stored → b.Stored → RefinesBin (f a b) (s a.bytes b.bytes))
    (a₁ a₂ b₁ b₂ : Rope) (ha₁ : a₁.Stored) (ha₂ : a₂.Stored) (hb₁ : b₁.Stored) (hb₂ : b₂.Stored)
    (hea : a₁.bytes = a₂.bytes) (heb : b₁.bytes = b₂.bytes) :
    (f a₁ b₁).map Rope.bytes = (f a₂ b₂).map Rope.bytes :=
  RefinesBin.same (h a₁ b₁ ha₁ hb₁) (hea ▸ heb ▸ h a₂ b₂ ha₂ hb₂)

theorem shape_independent_opt2 {f : Rope → Rope → Outcome (Option Rope)}
    {s : List UInt8 → List UInt8 → Outcome (Option (List UInt8))}
    (h : ∀ a b, a.Stored → b.Stored → RefinesOptBin (f a b) (s a.bytes b.bytes))
    (a₁ a₂ b₁ b₂ : Rope) (ha₁ : a₁.Stored) (ha₂ : a₂.Stored) (hb₁ : b₁.Stored) (hb₂ : b₂.Stored)
    (hea : a₁.bytes = a₂.bytes) (heb : b₁.bytes = b₂.bytes) :
    (f a₁ b₁).map (Option.map Rope.bytes) = (f a₂ b₂).map (Option.map Rope.bytes) :=
  RefinesOptBin.same (h a₁ b₁ ha₁ hb₁) (hea ▸ heb ▸ h a₂ b₂ ha₂ hb₂)

section shape
variable (r₁ r₂ a₁ a₂ b₁ b₂ : Rope)
  (h₁ : r₁.Stored) (h₂ : r₂.Stored) (he : r₁.bytes = r₂.bytes)
  (ha₁ : a₁.Stored) (ha₂ : a₂.Stored) (hb₁ : b₁.Stored) (hb₂ : b₂.Stored)
  (hea : a₁.bytes = a₂.bytes) (heb : b₁.bytes = b₂.bytes)
include h₁ h₂ he

theorem binary_length_shape_independent : binaryLength r₁ = binaryLength r₂ := by
  rw [binaryLength_eq h₁.1, binaryLength_eq h₂.1, he]
theorem binary_repeat_shape_independent (c : Int) :
    (binaryRepeat r₁ c).map Rope.bytes = (binaryRepeat r₂ c).map Rope.bytes :=
  shape_independent_bin (f := fun r => binaryRepeat r c) (s := fun v => Spec.binaryRepeat v c)
    (fun _ hr => binaryRepeat_refines hr c) r₁ r₂ h₁ h₂ he
theorem binary_not_shape_independent : (binaryNot r₁).map Rope.bytes = (binaryNot r₂).map Rope.bytes :=
  shape_independent_bin (f := binaryNot) (s := fun v => .ok (v.map (~~~ ·))) (fun _ hr => binaryNot_refines hr) r₁ r₂ h₁ h₂ he
theorem binary_shift_shape_independent (amt : Int) :
    (binaryShift r₁ amt).map Rope.bytes = (binaryShift r₂ amt).map Rope.bytes :=
  shape_independent_bin (f := fun r => binaryShift r amt) (s := fun v => Spec.binaryShift v amt)
    (fun _ hr => binaryShift_refines hr amt) r₁ r₂ h₁ h₂ he
theorem binary_set_shape_independent (bo bi v nb : Int) :
    (binarySet r₁ bo bi v nb).map Rope.bytes = (binarySet r₂ bo bi v nb).map Rope.bytes :=
  shape_independent_bin (f := fun r => binarySet r bo bi v nb) (s := fun x => Spec.binarySet x bo bi v nb)
    (fun _ hr => binarySet_refines hr bo bi v nb) r₁ r₂ h₁ h₂ he
theorem binary_slice_shape_independent (s e : Int) :
    (binarySlice r₁ s e).map Rope.bytes = (binarySlice r₂ s e).map Rope.bytes :=
  shape_independent_bin (f := fun r => binarySlice r s e) (s := fun v => Spec.binarySlice v s e)
    (fun _ hr => binarySlice_refines hr s e) r₁ r₂ h₁ h₂ he
theorem binary_append_shape_independent (v nb : Int) :
    (binaryAppend r₁ v nb).map Rope.bytes = (binaryAppend r₂ v nb).map Rope.bytes :=
  shape_independent_bin (f := fun r => binaryAppend r v nb) (s := fun x => Spec.binaryAppend x v nb)
    (fun _ hr => binaryAppend_refines hr v nb) r₁ r₂ h₁ h₂ he
theorem binary_get_shape_independent (bo bi nb : Int) : binaryGet r₁ bo bi nb = binaryGet r₂ bo bi nb := by
  rw [binaryGet_eq h₁, binaryGet_eq h₂, he]
theorem binary_index_shape_independent (b o : Int) : binaryIndex r₁ b o = binaryIndex r₂ b o := by
  rw [binaryIndex_eq h₁.1, binaryIndex_eq h₂.1, he]
theorem binary_popcount_shape_independent : binaryPopcount r₁ = binaryPopcount r₂ := by
  rw [binaryPopcount_eq h₁, binaryPopcount_eq h₂, he]
theorem binary_hash_shape_independent :
    binaryHash32 r₁ = binaryHash32 r₂ ∧ binaryHash64 r₁ = binaryHash64 r₂ := by
  rw [binaryHash32_eq h₁.1, binaryHash32_eq h₂.1, binaryHash64_eq h₁.1, binaryHash64_eq h₂.1, he]
  exact ⟨rfl, rfl⟩
theorem vector_get_shape_independent (w i : Int) : vectorGet r₁ w i = vectorGet r₂ w i := by
  rw [vectorGet_eq h₁, vectorGet_eq h₂, he]
theorem vector_sum_shape_independent (w : Int) : vectorSum r₁ w = vectorSum r₂ w := by
  rw [vectorSum_eq h₁, vectorSum_eq h₂, he]
theorem vector_push_shape_independent (w v : Int) :
    (vectorPush r₁ w v).map (Option.map Rope.bytes) = (vectorPush r₂ w v).map (Option.map Rope.bytes) :=
  RefinesOptBin.same (vectorPush_refines h₁ w v) (he ▸ vectorPush_refines h₂ w v)
end shape

section shape2
variable (a₁ a₂ b₁ b₂ : Rope)
  (ha₁ : a₁.Stored) (ha₂ : a₂.Stored) (hb₁ : b₁.Stored) (hb₂ : b₂.Stored)
  (hea : a₁.bytes = a₂.bytes) (heb : b₁.bytes = b₂.bytes)
include ha₁ ha₂ hb₁ hb₂ hea heb

theorem binary_concat_shape_independent :
    (binaryConcat a₁ b₁).map Rope.bytes = (binaryConcat a₂ b₂).map Rope.bytes :=
  shape_independent_bin2 (f := binaryConcat) (s := Spec.binaryConcat)
    (fun _ _ ha hb => binaryConcat_refines ha hb) a₁ a₂ b₁ b₂ ha₁ ha₂ hb₁ hb₂ hea heb
theorem binary_and_shape_independent :
    (binaryAnd a₁ b₁).map Rope.bytes = (binaryAnd a₂ b₂).map Rope.bytes :=
  shape_independent_bin2 (f := binaryAnd) (s := fun x y => .ok (Spec.binaryAnd x y))
    (fun _ _ ha hb => binaryAnd_refines ha hb) a₁ a₂ b₁ b₂ ha₁ ha₂ hb₁ hb₂ hea heb
theorem binary_or_shape_independent :
    (binaryOr a₁ b₁).map Rope.bytes = (binaryOr a₂ b₂).map Rope.bytes :=
  shape_independent_bin2 (f := binaryOr) (s := fun x y => .ok (Spec.padZip (· ||| ·) x y))
    (fun _ _ ha hb => padZip_refines _ ha hb) a₁ a₂ b₁ b₂ ha₁ ha₂ hb₁ hb₂ hea heb
theorem binary_xor_shape_independent :
    (binaryXor a₁ b₁).map Rope.bytes = (binaryXor a₂ b₂).map Rope.bytes :=
  shape_independent_bin2 (f := binaryXor) (s := fun x y => .ok (Spec.padZip (· ^^^ ·) x y))
    (fun _ _ ha hb => padZip_refines _ ha hb) a₁ a₂ b₁ b₂ ha₁ ha₂ hb₁ hb₂ hea heb
theorem vector_elementwise_shape_independent (f : Int → Int → Int) (w : Int) :
    (elementwise (checked f) a₁ b₁ w).map (Option.map Rope.bytes)
      = (elementwise (checked f) a₂ b₂ w).map (Option.map Rope.bytes) :=
  shape_independent_opt2 (f := fun a b => elementwise (checked f) a b w)
    (s := fun x y => Spec.elementwise f x y w) (fun _ _ ha hb => elementwise_refines f ha hb w) a₁ a₂ b₁ b₂ ha₁ ha₂ hb₁ hb₂ hea heb
theorem vector_compare_shape_independent (p : Int → Int → Bool) (w : Int) :
    (compare p a₁ b₁ w).map (Option.map Rope.bytes) = (compare p a₂ b₂ w).map (Option.map Rope.bytes) :=
  shape_independent_opt2 (f := fun a b => compare p a b w) (s := fun x y => Spec.compare p x y w)
    (fun _ _ ha hb => compare_refines p ha hb w) a₁ a₂ b₁ b₂ ha₁ ha₂ hb₁ hb₂ hea heb
theorem vector_take_shape_independent (w : Int) :
    (vectorTake a₁ w b₁).map (Option.map Rope.bytes) = (vectorTake a₂ w b₂).map (Option.map Rope.bytes) :=
  shape_independent_opt2 (f := fun d m => vectorTake d w m) (s := fun d m => Spec.vectorTake d w m)
    (fun _ _ ha hb => vectorTake_refines ha hb w) a₁ a₂ b₁ b₂ ha₁ ha₂ hb₁ hb₂ hea heb
theorem vector_dot_shape_independent (w : Int) : vectorDot a₁ b₁ w = vectorDot a₂ b₂ w := by
  rw [vectorDot_eq ha₁ hb₁, vectorDot_eq ha₂ hb₂, hea, heb]
end shape2

/-! ## Clean errors: outside the documented domain the answer is `InvalidArgument` -/

theorem binary_get_clean_error (r : Rope) (hr : r.Stored) (bo bi nb : Int)
    (h : ¬ Spec.InWindow r.bytes.length bo bi nb) : binaryGet r bo bi nb = .err .invalidArgument := by
  rw [binaryGet_eq hr]; unfold Spec.binaryGet; rw [if_neg h]

theorem binary_set_clean_error (r : Rope) (hr : r.Stored) (bo bi v nb : Int)
    (h : ¬ Spec.SetDomain r.bytes.length bo bi v nb) : binarySet r bo bi v nb = .err .invalidArgument := by
  have := binarySet_refines hr bo bi v nb
  unfold Spec.binarySet at this; rw [if_neg h] at this
  cases hb : binarySet r bo bi v nb <;> rw [hb] at this
  · exact this.elim
  · exact congrArg _ this
  · exact this.elim

theorem binary_shift_clean_error (r : Rope) (hr : r.Stored) (amt : Int) (h : ¬ FitsI64 amt) :
    binaryShift r amt = .err .invalidArgument := by
  have := binaryShift_refines hr amt
  unfold Spec.binaryShift at this; rw [if_neg h] at this
  cases hb : binaryShift r amt <;> rw [hb] at this
  · exact this.elim
  · exact congrArg _ this
  · exact this.elim

theorem vector_width_clean_error (r : Rope) (hr : r.Stored) (w i : Int) (h : ¬ Spec.WidthOK w) :
    vectorGet r w i = .err .invalidArgument ∧ vectorSum r w = .err .invalidArgument := by
  rw [vectorGet_eq hr, vectorSum_eq hr]; unfold Spec.vectorGet Spec.vectorSum
  rw [if_neg h, if_neg h]; exact ⟨rfl, rfl⟩

end C12
