import QuiverModel.Lemmas.VM.Sound
import QuiverModel.Lemmas.VM.Rename
import QuiverModel.Lemmas.VM.Repl
/-
C07 — every function the compiler emits is well-formed bytecode.

The property theorems: soundness of the verified checker `checkAnn` (M-Check) with respect to the
VM model (M-VM, `Core/VM/Step.lean`). The harness (`harness/src/bin/c07`) runs `checkAnn` — this
very definition, through `qm_c07` — on every function of every program.
-/
namespace C07Dummy
open QM.VM
/-- An oracle for the examples. -/
def oracle : Oracle :=
  { isType := fun _ _ => false, valuesEqual := fun a b => a == b, builtin := fun _ _ => .unrecognised, select := .park }
end C07Dummy

namespace C07
open QM.VM

/-- Reachability of process states through `transition` (any event, any oracle at each step). -/
inductive Reach (P : Prog) : Proc → Proc → Prop
  | refl (p : Proc) : Reach P p p
  | step {p0 p p' : Proc} {ev : Event} {act : Option Action} :
      Reach P p0 p → transition P p ev = some (.ok (p', act)) → Reach P p0 p'

/-- Entry state of function `f`: one frame at counter 0, the argument on top of an arbitrary stack
`below`, at least `captures` locals above the frame's base, not parked, no result yet. -/
structure Entry (P : Prog) (f : Nat) (fn : Function) (sb lb : Nat) (p : Proc) : Prop where
  hfn : P.functions[f]? = some fn
  frames : ∃ cc, p.frames = [⟨f, lb, cc, 0⟩]
  stack : p.stack.length = sb + 1
  locals : lb + fn.captures ≤ p.locals.length
  park : p.park = .none
  result : p.result = none
  sel : p.selectState = none

/-- Shape of a single-frame process running function `f` (code size `n`, annotations `anns`):
running at an admissible pc, or returned (result still on the stack), or finished. -/
inductive Shape1 (f n : Nat) (anns : Anns) (sb lb : Nat) (p : Proc) : Prop
  | running (fr : Frame) (hfr : p.frames = [fr]) (hf : fr.functionIndex = f) (hlb : fr.localsBase = lb)
      (hat : AtPc n anns fr.counter p.stack p.locals.length sb lb)
      (hres : p.result = none)
  | returned (hfr : p.frames = []) (hres : p.result = none) (hs : p.stack.length = sb + 1)
  | finished (hfr : p.frames = []) (v : Val) (hres : p.result = some (.ok v)) (hs : p.stack.length = sb)

/-- **First claim: soundness of the checker on call-free code (single frame).** If function `f`
passes `checkAnn` with `anns` and contains no `Call`/`TailCall`/`Spawn`/`Select`, then every state
reachable from an entry state of `f` has the annotated shape — the pc is annotated or the frame is
exactly exhausted, the relative stack height is `anns[pc].height`, there are at least
`anns[pc].locals` relative locals, at exit exactly one value has replaced the argument — and no
transition from it fails structurally (no `StackUnderflow`, `VariableUndefined`,
`ConstantUndefined`, `FunctionUndefined`, `BuiltinUndefined`, `FrameUnderflow`, unknown tuple id,
panic). -/
theorem checkAnn_sound_callfree {P : Prog} {f : Nat} {fn : Function} {anns : Anns} {sb lb : Nat}
    (hck : checkAnn P f anns = true)
    (hcf : ∀ i ∈ fn.instructions.toList, i.simple = true)
    {p0 p : Proc} (h0 : Entry P f fn sb lb p0) (hr : Reach P p0 p) :
    (Shape1 f fn.instructions.size anns sb lb p ∧ p.park = .none ∧ p.selectState = none) ∧
    (∀ ev e, transition P p ev = some (.error e) → e.isStructural = false) := by
  have hfn := h0.hfn
  have hC : Checked P fn anns := by
    unfold checkAnn at hck
    rw [hfn] at hck
    exact checkFn_spec hck
  -- the invariant
  have inv : Shape1 f fn.instructions.size anns sb lb p ∧ p.park = .none ∧ p.selectState = none := by
    induction hr with
    | refl =>
      obtain ⟨cc, hfr⟩ := h0.frames
      refine ⟨.running _ hfr rfl rfl ?_ h0.result, h0.park, h0.sel⟩
      exact flowsTo_atPc hC.entry (by simp [h0.stack]) (by simpa using h0.locals) (by simp)
    | @step p p' ev act _ htr ih =>
      obtain ⟨hsh, hpark, hsel⟩ := ih
      cases ev with
      | run O =>
        simp only [transition, hpark, ne_eq, not_true_eq_false, false_or] at htr
        cases hsh with
        | running fr hfr hf hlb hat hres =>
          simp only [hres, Option.isSome_none, Bool.false_eq_true, if_false, hfr, hf, hfn] at htr
          cases hi : fn.instructions[fr.counter]? with
          | none =>
            rw [hi] at htr
            simp only [Option.some.injEq, ok, Except.ok.injEq, Prod.mk.injEq] at htr
            obtain ⟨rfl, _⟩ := htr
            have hge : fn.instructions.size ≤ fr.counter := by
              simpa using hi
            have hs : p.stack.length = sb + 1 := by
              rcases hat with ⟨_, h⟩ | ⟨a, ha, _, _, _⟩
              · exact h
              · have : fr.counter < anns.size := (Array.getElem?_eq_some_iff.mp ha).1
                rw [hC.size] at this
                omega
            refine ⟨.returned ?_ ?_ ?_, ?_, ?_⟩ <;> simp [popFrame, hfr, hsel, hres, hs, hpark]
          | some i =>
            rw [hi] at htr
            simp only [Option.some.injEq] at htr
            have hpc : fr.counter < fn.instructions.size := (Array.getElem?_eq_some_iff.mp hi).1
            rcases hat with ⟨h, _⟩ | ⟨a, ha, hs, hl, hg⟩
            · omega
            · obtain ⟨succs, htrf, hflow⟩ := hC.local_ _ a i ha hi
              have hsimple := hcf i (by
                have := (Array.getElem?_eq_some_iff.mp hi)
                obtain ⟨h, rfl⟩ := this
                simp)
              have := simple_step_sound (O := O) hfr htrf hs (by rw [hlb]; exact hl) (by rw [hlb]; exact hg) hsimple hC.small hpc
              rw [htr] at this
              obtain ⟨s, hsm, hst⟩ := this
              refine ⟨.running _ hst.frames hf hlb ?_ (by rw [hst.result, hres]), by rw [hst.park, hpark], by rw [hst.sel, hsel]⟩
              exact flowsTo_atPc (hflow s hsm) hst.stack (by rw [← hlb]; exact hst.locals) (by rw [← hlb]; exact hst.guard)
        | returned hfr hres hs =>
          simp only [hres, Option.isSome_none, Bool.false_eq_true, if_false, hfr, Option.some.injEq, ok,
            Except.ok.injEq, Prod.mk.injEq] at htr
          obtain ⟨rfl, _⟩ := htr
          cases hst : p.stack with
          | nil => simp [hst] at hs
          | cons v s =>
            refine ⟨.finished ?_ v ?_ ?_, ?_, ?_⟩ <;> simp_all [finish]
        | finished hfr v hres hs =>
          simp [hres] at htr
      | spawned v => simp [transition, hpark] at htr
      | effectDone r => simp [transition, hpark] at htr
      | wake => simp [transition, hpark] at htr
      | deliver m =>
        simp only [transition, hpark, Option.some.injEq, ok, Except.ok.injEq, Prod.mk.injEq] at htr
        obtain ⟨rfl, _⟩ := htr
        refine ⟨?_, by simp, hsel⟩
        cases hsh with
        | running fr hfr hf hlb hat hres => exact .running fr hfr hf hlb hat hres
        | returned hfr hres hs => exact .returned hfr hres hs
        | finished hfr v hres hs => exact .finished hfr v hres hs
  refine ⟨inv, ?_⟩
  obtain ⟨hsh, hpark, hsel⟩ := inv
  intro ev e htr
  cases ev with
  | run O =>
    simp only [transition, hpark, ne_eq, not_true_eq_false, false_or] at htr
    cases hsh with
    | running fr hfr hf hlb hat hres =>
      simp only [hres, Option.isSome_none, Bool.false_eq_true, if_false, hfr, hf, hfn] at htr
      cases hi : fn.instructions[fr.counter]? with
      | none => rw [hi] at htr; simp [ok] at htr
      | some i =>
        rw [hi] at htr
        simp only [Option.some.injEq] at htr
        have hpc : fr.counter < fn.instructions.size := (Array.getElem?_eq_some_iff.mp hi).1
        rcases hat with ⟨h, _⟩ | ⟨a, ha, hs, hl, hg⟩
        · omega
        · obtain ⟨succs, htrf, hflow⟩ := hC.local_ _ a i ha hi
          have hsimple := hcf i (by
            have := (Array.getElem?_eq_some_iff.mp hi)
            obtain ⟨h, rfl⟩ := this
            simp)
          have := simple_step_sound (O := O) hfr htrf hs (by rw [hlb]; exact hl) (by rw [hlb]; exact hg) hsimple hC.small hpc
          rw [htr] at this
          exact this
    | returned hfr hres hs => simp [hres, hfr, ok] at htr
    | finished hfr v hres hs => simp [hres] at htr
  | spawned v => simp [transition, hpark] at htr
  | effectDone r => simp [transition, hpark] at htr
  | wake => simp [transition, hpark] at htr
  | deliver m => simp [transition, ok] at htr

/-- **Full statement** (all instructions, calls, tail calls, frame pops, parking, select): if every
function of `P` passes `checkAnn` with its annotations, then every state reachable from an entry
state under well-formed events satisfies the whole-frame-stack invariant `Inv` (current frame at an
annotated pc or exactly exhausted, relative stack height = `ann.height`, relative locals ≥
`ann.locals`, every suspended caller expecting exactly one value, well-formed closures, exactly
one value over the `s0` cells that were below the argument when the last frame returns), and no transition from it fails structurally. The step may still
fail with `TypeMismatch` / `FieldAccessInvalid` / `CallInvalid` / `InvalidArgument` — that is C01.
(`indicesOk P` is not needed as a hypothesis: `checkAnn` checks the static indices of every
reachable instruction.) -/
def CheckAnnSoundStatement : Prop :=
  ∀ (P : Prog) (A : Array Anns) (s0 : Nat), AllChecked P A →
    ∀ (p0 p : Proc), EntryWF P s0 p0 → ReachWF P p0 p →
      Inv P A s0 p ∧
      ∀ ev, EventWF P ev → ∀ e, transition P p ev = some (.error e) → e.isStructural = false

/-- **C07 headline theorem: `checkAnn` is sound for M-VM** (the full statement above). -/
theorem checkAnn_sound : CheckAnnSoundStatement :=
  fun _ _ _ hA _ _ h0 hr => checkAnn_sound_full hA h0 hr

/-- `Executor::spawn_process` produces an entry state: an existing function, as many well-formed
captures as it declares, a well-formed argument. -/
theorem entryWF_spawn {P : Prog} {fi : Nat} {fn : Function} {caps : List Val} {arg : Val} {pid : Nat}
    {persistent : Bool}
    (hfn : P.functions[fi]? = some fn) (hlen : caps.length = fn.captures)
    (hcaps : AllWF P caps) (harg : arg.wf P = true) :
    EntryWF P 0 (Proc.spawn pid fi caps arg persistent) where
  frame := ⟨_, fn, rfl, rfl, hfn, fun _ => hlen, by simp [Proc.spawn, Frame.new, hlen]⟩
  stack := by simp [Proc.spawn]
  stackWF := by simpa [Proc.spawn] using ⟨harg, AllWF.nil⟩
  localsWF := hcaps
  park := rfl
  result := rfl
  sel := rfl

/-- Consequence in plain terms: while a process of a certified program runs (not parked, no
`Select` in progress), its current frame is at an annotated pc with exactly the annotated stack
height over the frame's base and at least the annotated locals, or is exactly exhausted with one
value (the result) over the base. -/
theorem running_shape {P : Prog} {A : Array Anns} {s0 : Nat} (hA : AllChecked P A) {p0 p : Proc}
    (h0 : EntryWF P s0 p0) (hr : ReachWF P p0 p) {f : Frame} {rest : List Frame}
    (hfr : p.frames = f :: rest) (hpark : p.park = .none) (hsel : p.selectState = none) :
    ∃ fn sb, P.functions[f.functionIndex]? = some fn ∧
      ((f.counter = fn.instructions.size ∧ p.stack.length = sb + 1 ∧ f.localsBase ≤ p.locals.length) ∨
       (∃ a, (annsOf A f.functionIndex)[f.counter]? = some (some a) ∧ f.counter < fn.instructions.size ∧
          p.stack.length = sb + a.height ∧ f.localsBase + a.locals ≤ p.locals.length)) := by
  obtain ⟨hinv, _⟩ := checkAnn_sound P A s0 hA p0 p h0 hr
  obtain ⟨_, sb, htop, _⟩ := hinv.unpack hfr
  cases htop with
  | exhausted fn hfn hpc hs hl _ _ => exact ⟨fn, sb, hfn, Or.inl ⟨hpc, hs, hl⟩⟩
  | normal fn a i hat hl hs _ _ => exact ⟨fn, sb, hat.hfn, Or.inr ⟨a, hat.hann, hat.lt_size.2, hs, hl⟩⟩
  | spawning _ _ _ _ _ hp => rw [hp] at hpark; cases hpark
  | effecting _ _ _ _ _ hp => rw [hp] at hpark; cases hpark
  | selecting _ _ _ _ st hst => rw [hsel] at hst; cases hst

/-- … and when its last frame has returned, exactly one value — the result — is there to take:
`finish` never records `StackUnderflow`. -/
theorem result_present {P : Prog} {A : Array Anns} {s0 : Nat} (hA : AllChecked P A) {p0 p : Proc}
    (h0 : EntryWF P s0 p0) (hr : ReachWF P p0 p) (hfr : p.frames = []) (hres : p.result = none) :
    ∃ v, (finish p).result = some (.ok v) := by
  obtain ⟨hinv, _⟩ := checkAnn_sound P A s0 hA p0 p h0 hr
  have := hinv.shape
  rw [hfr] at this
  cases hst : p.stack with
  | nil => have := this.2 hres; simp [hst] at this
  | cons v s => exact ⟨v, by simp [finish, hres, hst]⟩

/-- **`renaming_preserves_check`**: certification is invariant under consistent index renaming —
a function that passes `checkAnn` in `P` passes, with the *same* annotations, at its new index in
any program that contains `P` under the renaming (the tree-shaken and the merged packagings, when
their remap tables are consistent). -/
theorem renaming_preserves_check {ρ : Renaming} {P P' : Prog} (h : Renames ρ P P') {f : Nat} {anns : Anns}
    (hc : checkAnn P f anns = true) : checkAnn P' (ρ.func f) anns = true := by
  unfold checkAnn at hc ⊢
  split at hc
  · cases hc
  · rename_i fn hfn
    obtain ⟨fn', hfn', hcap, hins⟩ := h.func f fn hfn
    rw [hfn']
    have hC := checkFn_spec hc
    have hsize : fn'.instructions.size = fn.instructions.size := by rw [hins]; simp
    unfold checkFn
    simp only [Bool.and_eq_true, beq_iff_eq, decide_eq_true_eq, List.all_eq_true, List.mem_range]
    refine ⟨⟨⟨by rw [hsize]; exact hC.size, by rw [hsize]; exact hC.small⟩,
      by rw [hsize, hcap]; exact hC.entry⟩, ?_⟩
    intro pc hpc
    rw [hsize] at hpc
    unfold checkPc
    cases ha : anns[pc]? with
    | none => rfl
    | some oa =>
      cases oa with
      | none => simp
      | some a =>
        have hi : fn.instructions[pc]? = some fn.instructions[pc] := by simp [hpc]
        have hi' : fn'.instructions[pc]? = some (ρ.instr fn.instructions[pc]) := by
          rw [hins]; simp [hpc]
        obtain ⟨succs, htr, hflow⟩ := hC.local_ pc a _ ha hi
        rw [hi']
        simp only
        rw [hsize, hcap, transfer_rename h htr]
        simp only [List.all_eq_true]
        exact hflow


/-- Example of `Renames`: the example program embedded at shifted indices (one constant, one
tuple, one function prepended — what merging behind another program does). -/
example : Renames ⟨(· + 1), (· + 1), (· + 1), (· + 1), (· + 1)⟩
    { constants := #[.int 0], functions := #[{ instructions := #[.constant 0, .tuple 1, .pop], captures := 0, typeId := 0 }],
      tuples := #[0, 1], types := 1, builtins := 0 }
    { constants := #[.int 9, .int 0],
      functions := #[{ instructions := #[], captures := 0, typeId := 0 },
                     { instructions := #[.constant 1, .tuple 2, .pop], captures := 0, typeId := 0 }],
      tuples := #[5, 0, 1], types := 2, builtins := 1 } where
  const := by intro i hi; simp at hi ⊢; omega
  tuple := by
    intro id a h
    have : id = 0 ∨ id = 1 := by
      have := (Array.getElem?_eq_some_iff.mp h).1
      simp at this; omega
    rcases this with rfl | rfl <;> (simp at h; subst h; rfl)
  type := by intro id hi; simp at hi ⊢; omega
  func := by
    intro i fn h
    have : i = 0 := by
      have := (Array.getElem?_eq_some_iff.mp h).1
      simp at this; omega
    subst this
    simp at h
    subst h
    exact ⟨_, rfl, rfl, by simp [Renaming.instr]⟩
  builtin := by intro i hi; simp at hi


/-- **Soundness for REPL continuation lines.** The executor runs `P`, in which the line's function
`f0` has `captures = 0` although it starts with the session's `n` variables as locals. If `P`
*viewed with `captures(f0) := n`* is certified (`AllChecked (P.withCaptures f0 n) A` — this is what
the harness certifies for a continuation line) and no instruction builds a closure of `f0`
(`Function(f0)` occurs nowhere: a REPL line function is never referenced), then every state
reachable **in `P`** from a REPL entry state satisfies the invariant (for the view) and no
transition **of `P`** fails structurally. -/
theorem checkAnn_sound_repl {P : Prog} {A : Array Anns} {f0 n s0 : Nat}
    (hA : AllChecked (P.withCaptures f0 n) A)
    (hno : ∀ (f : Nat) (fn : Function), P.functions[f]? = some fn → Instr.function f0 ∉ fn.instructions.toList)
    {p0 p : Proc} (h0 : ReplEntry P f0 n s0 p0) (hr : ReplReach P f0 n p0 p) :
    Inv (P.withCaptures f0 n) A s0 p ∧
    ∀ ev, EventWF (P.withCaptures f0 n) ev → ∀ e, transition P p ev = some (.error e) →
      e.isStructural = false := by
  have hreach : ReachWF (P.withCaptures f0 n) p0 p := by
    induction hr with
    | refl => exact .refl _
    | step _ hev htr ih =>
      exact .step ih hev (by rw [transition_withCaptures P f0 n hno]; exact htr)
  obtain ⟨hinv, herr⟩ := checkAnn_sound_full hA (replEntry_entryWF h0) hreach
  refine ⟨hinv, ?_⟩
  intro ev hev e htr
  exact herr ev hev e (by rw [transition_withCaptures P f0 n hno]; exact htr)

/-- A REPL continuation line that reads the session's first variable: drop the previous result,
load local 0. As a function of `P` (captures 0) it is *not* certifiable … -/
def exRepl : Prog :=
  { constants := #[], functions := #[{ instructions := #[.pop, .load 0], captures := 0, typeId := 0 }],
    tuples := #[0, 0], types := 1, builtins := 0 }

example : checkAnn exRepl 0 (inferAnn exRepl 0) = false := by decide +kernel

/-- … but it is under the view with its one entry local as captures, no instruction references it,
and the resumed REPL process is a `ReplEntry` state (hypotheses of `checkAnn_sound_repl`). -/
example : AllChecked (exRepl.withCaptures 0 1) #[inferAnn (exRepl.withCaptures 0 1) 0] := by
  intro f hf
  have : f = 0 := by simp [exRepl, Prog.withCaptures] at hf; omega
  subst this
  decide +kernel

example : ∀ (f : Nat) (fn : Function), exRepl.functions[f]? = some fn → Instr.function 0 ∉ fn.instructions.toList := by
  intro f fn h
  have hf : f = 0 := by
    have := (Array.getElem?_eq_some_iff.mp h).1
    simp [exRepl] at this; omega
  subst hf
  simp [exRepl] at h
  subst h
  decide

example : ReplEntry exRepl 0 1 0
    { stack := [.int 7], locals := [.int 5], frames := [⟨0, 0, 0, 0⟩], persistent := true } :=
  ⟨⟨_, _, rfl, rfl, rfl, rfl, by decide, by decide⟩, rfl,
   by intro v hv; simp at hv; subst hv; rfl, by intro v hv; simp at hv; subst hv; rfl, rfl, rfl, rfl⟩

/-! ### Examples: the hypotheses are satisfiable by concrete, non-trivial objects -/

/-- `#'int { | =0 => 10 | 20 }`-like code: compare the argument with a constant and branch. -/
def exFn : Function :=
  { instructions := #[.duplicate, .constant 0, .equal 2, .not, .jumpIf 3, .pop, .constant 1, .jump 2,
                      .pop, .constant 2],
    captures := 0, typeId := 0 }

def exProg : Prog :=
  { constants := #[.int 0, .int 10, .int 20], functions := #[exFn], tuples := #[0, 0], types := 1, builtins := 0 }

/-- The inferred annotations of the example (two paths join at the end with height 1). -/
example : inferAnn exProg 0 =
    #[some ⟨1, 0, .none⟩, some ⟨2, 0, .dup 0⟩, some ⟨3, 0, .none⟩, some ⟨2, 0, .none⟩, some ⟨2, 0, .none⟩,
      some ⟨1, 0, .none⟩, some ⟨0, 0, .none⟩, some ⟨1, 0, .none⟩, some ⟨1, 0, .none⟩, some ⟨0, 0, .none⟩] := by
  decide +kernel

/-- The example passes the checker with them. -/
example : checkAnn exProg 0 (inferAnn exProg 0) = true := by decide +kernel

/-- It is call-free. -/
example : ∀ i ∈ exFn.instructions.toList, i.simple = true := by decide

/-- `Proc.spawn` produces an entry state (hypothesis `Entry` of `checkAnn_sound_callfree`). -/
example : Entry exProg 0 exFn 0 0 (Proc.spawn 7 0 [] (.int 0)) :=
  ⟨rfl, ⟨0, rfl⟩, rfl, by decide, rfl, rfl, rfl⟩

/-- … and it takes a real step: after `Duplicate` the stack has two cells. -/
example : ∃ p' act, transition exProg (Proc.spawn 7 0 [] (.int 0)) (.run C07Dummy.oracle) = some (.ok (p', act)) ∧
    p'.stack.length = 2 := ⟨_, _, rfl, rfl⟩

/-- The example program is certified as a whole, and `Proc.spawn` is an entry state for it
(hypotheses `AllChecked` / `EntryWF` of `checkAnn_sound`). -/
example : AllChecked exProg #[inferAnn exProg 0] := by
  intro f hf
  have : f = 0 := by simp [exProg] at hf; omega
  subst this
  decide +kernel

example : EntryWF exProg 0 (Proc.spawn 7 0 [] (.int 0)) :=
  entryWF_spawn (fn := exFn) rfl rfl (by simp [AllWF]) rfl

/-- A program with a call: `f1` calls `f0` on its argument (`Function:0`, `Call`); both pass. -/
def exCallProg : Prog :=
  { exProg with functions := #[exFn, { instructions := #[.function 0, .call], captures := 0, typeId := 0 }] }

example : AllChecked exCallProg #[inferAnn exCallProg 0, inferAnn exCallProg 1] := by
  intro f hf
  have : f = 0 ∨ f = 1 := by simp [exCallProg] at hf; omega
  rcases this with rfl | rfl <;> decide +kernel

/-- A function the checker rejects: the two branches join with different heights. -/
example : checkAnn { exProg with functions := #[{ exFn with instructions := #[.duplicate, .jumpIf 1, .duplicate, .pop] }] } 0
    (inferAnn { exProg with functions := #[{ exFn with instructions := #[.duplicate, .jumpIf 1, .duplicate, .pop] }] } 0) = false := by
  decide +kernel

/-! ### The nil guard: a branch condition that binds after a step that may be nil -/

/-- `{ c₁, c₂ =x => x }`-like code: the first step's nil short-circuits to the end of the condition
(pc 5) *before* the `Store` of the second step; the consequence (`Pop, Load 0`) is reached only when
the condition's value is non-nil — i.e. only on the path that stored. -/
def guardFn : Function :=
  { instructions := #[.duplicate, .not, .jumpIf 2, .duplicate, .store,
                      .duplicate, .not, .jumpIf 2, .pop, .load 0],
    captures := 0, typeId := 0 }

def guardProg : Prog := { exProg with functions := #[guardFn] }

/-- At the join (pc 5) the annotation has the MIN locals (0) and the guard "non-nil top ⇒ 1 local";
`Duplicate`/`Not` carry it to the `JumpIf`, whose fall-through side gets the local. -/
example : inferAnn guardProg 0 =
    #[some ⟨1, 0, .none⟩, some ⟨2, 0, .dup 0⟩, some ⟨2, 0, .neg 0⟩, some ⟨1, 0, .none⟩, some ⟨2, 0, .dup 0⟩,
      some ⟨1, 0, .top 1⟩, some ⟨2, 0, .dup 1⟩, some ⟨2, 0, .neg 1⟩, some ⟨1, 1, .none⟩, some ⟨0, 1, .none⟩] := by
  decide +kernel

example : checkAnn guardProg 0 (inferAnn guardProg 0) = true := by decide +kernel

/-- Without the second `Not` the correlation is the wrong way round — the `Load` is reached exactly
when the value IS nil, i.e. on the path that did not store — and the checker rejects … -/
def badGuardFn : Function :=
  { guardFn with instructions := #[.duplicate, .not, .jumpIf 2, .duplicate, .store,
                                   .duplicate, .jumpIf 2, .pop, .load 0] }

example : checkAnn { exProg with functions := #[badGuardFn] } 0
    (inferAnn { exProg with functions := #[badGuardFn] } 0) = false := by decide +kernel

/-- … rightly: on a nil argument M-VM fails structurally (`VariableUndefined`) at that `Load`. -/
example :
    (do
      let p0 := Proc.spawn 7 0 [] Val.nil
      let step := fun (p : Proc) => match transition { exProg with functions := #[badGuardFn] } p (.run C07Dummy.oracle) with
        | some (.ok (p', _)) => some p'
        | _ => none
      let p1 ← step p0; let p2 ← step p1; let p3 ← step p2; let p4 ← step p3; let p5 ← step p4
      let p6 ← step p5
      match transition { exProg with functions := #[badGuardFn] } p6 (.run C07Dummy.oracle) with
      | some (.error e) => some e.isStructural
      | _ => none) = some true := by decide +kernel

end C07
