import QuiverModel.Core.RefSem.Compile4
import QuiverModel.Theorems.C07Frag3
import QuiverModel.Theorems.C16
/-
C07, fragment theorem, part 4 — **self tail calls and builtin calls**: every function b-c02's model
compiler `Compile4.lean` (fragment 3 + `^` = `TailCall(true)` from any depth of nested blocks, with the
dead code the compiler emits after it, + `Builtin(i), Call`) emits is accepted by the verified
checker; with that, TAIL RECURSION is under "no program of the fragment fails structurally", and the
C16 theorems apply to every loop of the fragment (`frag4_tail_loops_constant_space`).

Imports `Core/RefSem/Compile4.lean` READ-ONLY; optional extra of C07 / C16 under the same dependency
rule as parts 1–3 (dropped from `props/C07.json`, `props/C16.json` if it stops building).

The one new side condition: a `^` stands where nothing but the flowing value is on the frame's operand
stack — not inside a tuple literal's field (`scT … .tailSelf = (h = 0 ∧ caps ≤ Γ.length)`); the model's
meaning functions give such a `^` no meaning either (`evalFs`), and the real compiler rejects it since
9828b30. The code after a `^` is dead but still annotated and checked (as the checker would).
-/
namespace QM.C07Frag
open QM.VM

theorem Blk.builtin {P : Prog} {caps n o : Nat} {X : List (Nat × Ann)} {h l bi : Nat} {g : Guard}
    (hb : bi < P.builtins) :
    Blk P caps n o [.builtin bi] ⟨h, l, g⟩ [⟨h, l, g⟩] ⟨h + 1, l, .none⟩ X :=
  Blk.single (by simp [transfer, hb]) (Fits.refl _)

namespace F4
open QM.RefSem.C1 (Sub Pat1 slot compilePat patBinds wfPat wfProg)
open QM.RefSem.C2 (resetIf)
open QM.RefSem.C4
open F2 (BrExt brEntry brPre_blk branch_none_blk branch_some_blk brs_step block_blk)

/-- `Load` of every captured variable -/
theorem loadsOf_blk {P : Prog} {caps n : Nat} (Γ : List String) : ∀ (cs : List String),
    (∀ c ∈ cs, ∃ i, slot Γ c = some i) → ∀ (o h : Nat),
    ∃ A, Blk P caps n o (loadsOf Γ cs) ⟨h, Γ.length, .none⟩ A ⟨h + cs.length, Γ.length, .none⟩ []
  | [], _, _, _ => ⟨[], Blk.empty (Fits.refl _)⟩
  | c :: r, hs, o, h => by
    obtain ⟨i, hi⟩ := hs c List.mem_cons_self
    obtain ⟨A2, h2⟩ := loadsOf_blk Γ r (fun c' hc' => hs c' (List.mem_cons_of_mem _ hc')) (o + 1) (h + 1)
    have e : (⟨h + 1 + r.length, Γ.length, .none⟩ : Ann) = ⟨h + (c :: r).length, Γ.length, .none⟩ := by
      simp only [List.length_cons]; congr 1; omega
    simp only [loadsOf, hi, Option.getD_some]
    exact ⟨_, Blk.seq (c1 := [.load i]) (Blk.load (F1.slot_lt Γ c i hi)) (h2.cast rfl e) (by simp)⟩

/-! ### Scoping and monotonicity of the compile-time locals -/

mutual
  /-- scoping, and: a `^` only where nothing but the flowing value is on the frame's operand stack
  (`h = 0`: not inside a tuple literal's field — the real compiler rejects it there since 9828b30)
  and the frame still has its captures (`caps ≤ Γ.length`: `TailCall(true)` cuts the locals back to
  them) -/
  def scT (caps h : Nat) (Γ : List String) : T4 → Prop
    | .var x => ∃ i, slot Γ x = some i
    | .tup _ fs => scFs caps h Γ fs 0
    | .block bs => scBrs caps h (Γ ++ [""]) bs
    | .fnlit _ cs => ∀ c ∈ cs, ∃ i, slot Γ c = some i
    | .call x => ∃ i, slot Γ x = some i
    | .callNil x => ∃ i, slot Γ x = some i
    | .tailSelf => h = 0 ∧ caps ≤ Γ.length
    | _ => True
  def scCh (caps h : Nat) (Γ : List String) : Ch4 → Prop
    | .nil => True
    | .cons t r => scT caps h Γ t ∧ scCh caps h (compileT Γ t).2 r
  /-- field `k` is evaluated with the flowing value and `k` earlier fields beneath it -/
  def scFs (caps h : Nat) (Γ : List String) : Fs4 → Nat → Prop
    | .nil, _ => True
    | .cons c r, k => scCh caps (h + 1 + k) Γ c ∧ scFs caps h (compileCh Γ c).2 r (k + 1)
  def scSq (caps h : Nat) (Γ : List String) : Sq4 → Prop
    | .last c => scCh caps h Γ c
    | .cons c r => scCh caps h Γ c ∧ scSq caps h (compileCh Γ c).2 r
  def scBrs (caps h : Nat) (Γp : List String) : Brs4 → Prop
    | .nil => True
    | .cons cond .none rest => scSq caps h Γp cond ∧ scBrs caps h Γp rest
    | .cons cond (.some cons) rest =>
      scSq caps h Γp cond ∧ scSq caps h (compileSq Γp cond).2 cons ∧ scBrs caps h Γp rest
end

mutual
theorem compileT_len : (t : T4) → (Γ : List String) → Γ.length ≤ (compileT Γ t).2.length
  | .int _ _, Γ => by simp [compileT]
  | .ripple, Γ => by simp [compileT]
  | .tup _ fs, Γ => by simp only [compileT]; exact compileFs_len fs Γ 0
  | .var _, Γ => by simp [compileT]
  | .mtch p, Γ => by simp [compileT]
  | .block _, Γ => by simp [compileT]
  | .fnlit _ _, Γ => by simp [compileT]
  | .call _, Γ => by simp [compileT]
  | .callNil _, Γ => by simp [compileT]
  | .tailSelf, Γ => by simp [compileT]
  | .bcall _, Γ => by simp [compileT]
theorem compileCh_len : (c : Ch4) → (Γ : List String) → Γ.length ≤ (compileCh Γ c).2.length
  | .nil, Γ => by simp [compileCh]
  | .cons t r, Γ => by
    simp only [compileCh]
    exact Nat.le_trans (compileT_len t Γ) (compileCh_len r _)
theorem compileFs_len : (fs : Fs4) → (Γ : List String) → (k : Nat) → Γ.length ≤ (compileFs Γ fs k).2.length
  | .nil, Γ, _ => by simp [compileFs]
  | .cons c r, Γ, k => by
    simp only [compileFs]
    exact Nat.le_trans (compileCh_len c Γ) (compileFs_len r _ (k + 1))
theorem compileSq_len : (sq : Sq4) → (Γ : List String) → Γ.length ≤ (compileSq Γ sq).2.length
  | .last c, Γ => by simp only [compileSq]; exact compileCh_len c Γ
  | .cons c r, Γ => by
    simp only [compileSq]
    exact Nat.le_trans (compileCh_len c Γ) (compileSq_len r _)
end

/-! ### `compileBrs`, one branch unfolded (main code = this branch's code ++ the later branches') -/

theorem compileBrs_none_eq (Γp : List String) (nn k : Nat) (first : Bool) (cond : Sq4) (rest : Brs4) :
    compileBrs Γp nn (.cons cond .none rest) k first =
      (((if first then [] else [Instr.pop]) ++ ([Instr.load nn] ++ ((compileSq Γp cond).1 ++
          (resetIf (compileSq Γp cond).2.length nn ++
            (if rest.isNil then [] else [Instr.duplicate, .jumpIf ((compileBrs Γp nn rest k false).1.length : Int)]))))) ++
        (compileBrs Γp nn rest k false).1,
       (compileBrs Γp nn rest k false).2) := by
  simp [compileBrs, List.append_assoc]

theorem compileBrs_some_eq (Γp : List String) (nn k : Nat) (first : Bool) (cond cons : Sq4) (rest : Brs4) :
    compileBrs Γp nn (.cons cond (.some cons) rest) k first =
      let needs : Bool := decide ((compileSq Γp cond).2.length > nn + 1)
      let r := compileBrs Γp nn rest (if needs then k + 1 else k) false
      let cc := compileSq (compileSq Γp cond).2 cons
      let ej : List Instr := if rest.isNil then [] else [Instr.jump (r.1.length : Int)]
      let tailLen : Nat := 2 + cc.1.length + (resetIf cc.2.length nn).length + ej.length
      let off : Nat := if needs then tailLen + r.1.length + 2 + 2 * k else tailLen
      (((if first then [] else [Instr.pop]) ++ ([Instr.load nn] ++ ((compileSq Γp cond).1 ++
          ([Instr.duplicate, .not, .jumpIf (off : Int)] ++
            ([Instr.pop, .load nn] ++ (cc.1 ++ (resetIf cc.2.length nn ++ ej))))))) ++ r.1,
       (if needs then [Instr.reset (nn + 1), .jump (-((r.1.length + 2 * k + 4 : Nat) : Int))] else []) ++ r.2) := by
  simp [compileBrs, List.append_assoc]

/-! ### Terms, chains, fields, sequences, branches -/

section Compile
variable {P : Prog} {caps n : Nat}

mutual
theorem compileT_blk (hn : n < maxCode) (hP : wfProg P) : (t : T4) → (Γ : List String) → (o h : Nat) →
    wfT P t → scT caps h Γ t → o + (compileT Γ t).1.length ≤ n →
    ∃ A, Blk P caps n o (compileT Γ t).1 ⟨h + 1, Γ.length, .none⟩ A
      ⟨h + 1, (compileT Γ t).2.length, .none⟩ []
  | .int z i, Γ, o, h, hw, _, _ => by
    have hi : i < P.constants.size := (Array.getElem?_eq_some_iff.mp hw).1
    exact ⟨_, Blk.seq (c1 := [.pop]) Blk.pop (Blk.constant hi) (by simp)⟩
  | .ripple, Γ, o, h, _, _, _ => ⟨[], Blk.empty (Fits.refl _)⟩
  | .tup id fs, Γ, o, h, hw, hs, hle => by
    simp only [compileT, List.length_append, List.length_cons, List.length_nil] at hle ⊢
    obtain ⟨A1, h1⟩ := compileFs_blk hn hP fs Γ 0 o h hw.2 hs (by omega)
    refine ⟨_, Blk.seq h1
      (Blk.seq (c1 := [.tuple id]) (Blk.tuple (h' := h + 1) hw.1 (by omega))
        (Blk.seq (c1 := [.rotate 2]) Blk.rotate2 Blk.pop (by simp)) (by simp)) (by simp)⟩
  | .var x, Γ, o, h, _, hs, _ => by
    obtain ⟨i, hi⟩ := hs
    simp only [compileT, hi, Option.getD_some]
    exact ⟨_, Blk.seq (c1 := [.pop]) Blk.pop (Blk.load (F1.slot_lt Γ x i hi)) (by simp)⟩
  | .mtch p, Γ, o, h, hw, _, hle => by
    simp only [compileT, List.length_append] at hle ⊢
    exact F1.compilePat_blk hn hP p hw hle
  | .block bs, Γ, o, h, hw, hs, hle => by
    rcases hr : compileBrs (Γ ++ [""]) Γ.length bs 0 true with ⟨main, cleanup⟩
    simp only [compileT, hr] at hle ⊢
    have hle' := hle
    simp only [List.length_append, List.length_cons, List.length_nil] at hle'
    have hjl : (if cleanup = [] then [] else [Instr.jump ((cleanup.length : Nat) : Int)]).length ≤ 1 := by
      split <;> simp
    have hjl' : cleanup ≠ [] → (if cleanup = [] then [] else [Instr.jump ((cleanup.length : Nat) : Int)]).length = 1 := by
      intro hne; simp [hne]
    have hcl0 : cleanup = [] → cleanup.length = 0 := by intro hc; simp [hc]
    obtain ⟨Am, hM, hE, hC⟩ := compileBrs_typed hn hP bs (Γ ++ [""]) Γ.length 0 true (o + 1) h main cleanup
      hw.2 hs (by simp) (fun _ => hw.1) hr (by omega) (by intro hc; have := hjl' hc; omega)
    simp only [brEntry, if_true] at hE
    exact block_blk hn (PC := o + 1 + main.length) rfl hM hE hC hle
  | .fnlit fi cs, Γ, o, h, hw, hs, _ => by
    obtain ⟨fn, hfn, hcap⟩ := hw
    obtain ⟨Al, hl⟩ := loadsOf_blk (P := P) (caps := caps) (n := n) Γ cs hs (o + 1) h
    simp only [compileT]
    exact ⟨_, Blk.seq (c1 := [.pop]) Blk.pop
      (Blk.seq hl (Blk.function hfn hcap) (by simp)) (by simp)⟩
  | .call x, Γ, o, h, _, hs, _ => by
    obtain ⟨i, hi⟩ := hs
    simp only [compileT, hi, Option.getD_some]
    exact ⟨_, Blk.seq (c1 := [.load i]) (Blk.load (F1.slot_lt Γ x i hi)) Blk.call (by simp)⟩
  | .callNil x, Γ, o, h, _, hs, _ => by
    obtain ⟨i, hi⟩ := hs
    simp only [compileT, hi, Option.getD_some]
    exact ⟨_, Blk.seq (c1 := [.load i]) (Blk.load (F1.slot_lt Γ x i hi))
      (Blk.seq (c1 := [.rotate 2]) Blk.rotate2
        (Blk.seq (c1 := [.pop]) Blk.pop
          (Blk.seq (c1 := [.tuple 0]) (Blk.tuple (h' := h + 1) hP.1 rfl)
            (Blk.seq (c1 := [.rotate 2]) Blk.rotate2 Blk.call (by simp)) (by simp)) (by simp)) (by simp)) (by simp)⟩
  | .tailSelf, Γ, o, h, _, hs, _ => by
    obtain ⟨rfl, hcap⟩ := hs
    simp only [compileT]
    exact ⟨_, Blk.instr (succs := []) (by simp [transfer, hcap]) (by intro s hs'; cases hs')⟩
  | .bcall bi, Γ, o, h, hw, _, _ => by
    have hb : bi < P.builtins := hw
    simp only [compileT]
    exact ⟨_, Blk.seq (c1 := [.builtin bi]) (Blk.builtin hb) Blk.call (by simp)⟩
theorem compileCh_blk (hn : n < maxCode) (hP : wfProg P) : (c : Ch4) → (Γ : List String) → (o h : Nat) →
    wfCh P c → scCh caps h Γ c → o + (compileCh Γ c).1.length ≤ n →
    ∃ A, Blk P caps n o (compileCh Γ c).1 ⟨h + 1, Γ.length, .none⟩ A
      ⟨h + 1, (compileCh Γ c).2.length, .none⟩ []
  | .nil, Γ, o, h, _, _, _ => ⟨[], Blk.empty (Fits.refl _)⟩
  | .cons t r, Γ, o, h, hw, hs, hle => by
    simp only [compileCh, List.length_append] at hle ⊢
    obtain ⟨A1, h1⟩ := compileT_blk hn hP t Γ o h hw.1 hs.1 (by omega)
    obtain ⟨A2, h2⟩ := compileCh_blk hn hP r (compileT Γ t).2 (o + (compileT Γ t).1.length) h hw.2 hs.2 (by omega)
    exact ⟨_, Blk.seq h1 h2 (by simp)⟩
theorem compileFs_blk (hn : n < maxCode) (hP : wfProg P) : (fs : Fs4) → (Γ : List String) → (k o h : Nat) →
    wfFs P fs → scFs caps h Γ fs k → o + (compileFs Γ fs k).1.length ≤ n →
    ∃ A, Blk P caps n o (compileFs Γ fs k).1 ⟨h + 1 + k, Γ.length, .none⟩ A
      ⟨h + 1 + k + fs.length, (compileFs Γ fs k).2.length, .none⟩ []
  | .nil, Γ, k, o, h, _, _, _ => ⟨[], Blk.empty (Fits.refl _)⟩
  | .cons c r, Γ, k, o, h, hw, hs, hle => by
    simp only [compileFs, List.length_append, List.length_cons, List.length_nil] at hle ⊢
    obtain ⟨A1, h1⟩ := compileCh_blk hn hP c Γ (o + 1) (h + 1 + k) hw.1 hs.1 (by omega)
    obtain ⟨A2, h2⟩ := compileFs_blk hn hP r (compileCh Γ c).2 (k + 1) (o + 1 + (compileCh Γ c).1.length) h hw.2 hs.2 (by omega)
    have e1 : (⟨h + 1 + (k + 1), (compileCh Γ c).2.length, .none⟩ : Ann) = ⟨h + 1 + k + 1, (compileCh Γ c).2.length, .none⟩ := rfl
    have e2 : (⟨h + 1 + (k + 1) + r.length, (compileFs (compileCh Γ c).2 r (k + 1)).2.length, .none⟩ : Ann) =
        ⟨h + 1 + k + (Fs4.cons c r).length, (compileFs (compileCh Γ c).2 r (k + 1)).2.length, .none⟩ := by
      simp only [Fs4.length]
      congr 1
      omega
    exact ⟨_, Blk.seq (Blk.seq (c1 := [.pick k]) (Blk.pick (by omega)) h1 (by simp))
      ((h2.cast e1 e2).at (by simp only [List.length_append, List.length_cons, List.length_nil]; omega)) (by simp)⟩
theorem compileSq_blk (hn : n < maxCode) (hP : wfProg P) : (sq : Sq4) → (Γ : List String) → (o h l0 : Nat) →
    wfSq P sq → scSq caps h Γ sq → l0 ≤ Γ.length → o + (compileSq Γ sq).1.length ≤ n →
    ∃ A, Blk P caps n o (compileSq Γ sq).1 ⟨h + 1, Γ.length, .none⟩ A
      ⟨h + 1, l0, .top (compileSq Γ sq).2.length⟩ []
  | .last c, Γ, o, h, l0, hw, hs, hl0, hle => by
    simp only [compileSq] at hle ⊢
    obtain ⟨A, hA⟩ := compileCh_blk hn hP c Γ o h hw hs hle
    refine ⟨A, hA.exit ⟨rfl, Nat.le_trans hl0 (compileCh_len c Γ), ?_⟩⟩
    simp [guardFlows, Ann.eff]
  | .cons c r, Γ, o, h, l0, hw, hs, hl0, hle => by
    simp only [compileSq, List.length_append, List.length_cons, List.length_nil] at hle ⊢
    have hmono := compileCh_len c Γ
    obtain ⟨A1, h1⟩ := compileCh_blk hn hP c Γ o h hw.1 hs.1 (by omega)
    obtain ⟨A2, h2⟩ := compileSq_blk hn hP r (compileCh Γ c).2
      (o + (compileCh Γ c).1.length + [Instr.duplicate, .not, .jumpIf ((compileSq (compileCh Γ c).2 r).1.length : Int)].length)
      h l0 hw.2 hs.2 (by omega) (by simp only [List.length_cons, List.length_nil]; omega)
    generalize hE : o + (compileCh Γ c).1.length + 3 + (compileSq (compileCh Γ c).2 r).1.length = E at *
    let bE : Ann := ⟨h + 1, l0, .top (compileSq (compileCh Γ c).2 r).2.length⟩
    have hj : Blk P caps n (o + (compileCh Γ c).1.length)
        [.duplicate, .not, .jumpIf ((compileSq (compileCh Γ c).2 r).1.length : Int)]
        ⟨h + 1, (compileCh Γ c).2.length, .none⟩
        [⟨h + 1, (compileCh Γ c).2.length, .none⟩, ⟨h + 2, (compileCh Γ c).2.length, .dup (compileCh Γ c).2.length⟩,
          ⟨h + 2, (compileCh Γ c).2.length, .neg (compileCh Γ c).2.length⟩]
        ⟨h + 1, (compileCh Γ c).2.length, .none⟩ [(E, bE)] := by
      unfold maxCode at hn
      refine Blk.seq (c1 := [.duplicate]) Blk.duplicateG
        (Blk.seq (c1 := [.not]) Blk.notG
          (Blk.instr (transfer_jumpIf_neg (t := E) ?_ (by omega) (by omega)) ?_) ?_) ?_
      · simp only [List.length_cons, List.length_nil]; omega
      · intro s hs'
        simp only [List.mem_cons, List.not_mem_nil, or_false] at hs'
        rcases hs' with rfl | rfl
        · refine ⟨by simp only [List.length_cons, List.length_nil]; omega, (E, bE),
            List.mem_cons_of_mem _ List.mem_cons_self, rfl, rfl, Nat.le_trans hl0 hmono, ?_⟩
          simp [guardFlows, bE]
        · refine ⟨by simp, _, List.mem_cons_self, rfl, Fits.plain rfl ?_⟩
          simp
      all_goals
        (intro e he
         simp only [List.mem_singleton] at he
         subst he
         outside)
    have h12 := Blk.seq (h1.weaken (X' := [(E, bE)]) (by intro e he; cases he)) hj (by
      intro e he
      simp only [List.mem_singleton] at he
      subst he
      outside)
    have h123 := Blk.seq h12 ((h2.weaken (X' := [(E, bE)]) (by intro e he; cases he)).at
        (by simp only [List.length_append, List.length_cons, List.length_nil]; omega)) (by
      intro e he
      simp only [List.mem_singleton] at he
      subst he
      outside)
    have hEnd : o + ((compileCh Γ c).1 ++ [Instr.duplicate, .not, .jumpIf ((compileSq (compileCh Γ c).2 r).1.length : Int)] ++
        (compileSq (compileCh Γ c).2 r).1).length = E := by
      simp only [List.length_append, List.length_cons, List.length_nil]; omega
    rw [← hEnd] at h123
    have hassoc : (compileCh Γ c).1 ++ ([Instr.duplicate, .not, .jumpIf ((compileSq (compileCh Γ c).2 r).1.length : Int)] ++
        (compileSq (compileCh Γ c).2 r).1) = (compileCh Γ c).1 ++ [Instr.duplicate, .not, .jumpIf ((compileSq (compileCh Γ c).2 r).1.length : Int)] ++
        (compileSq (compileCh Γ c).2 r).1 := by simp
    rw [hassoc]
    exact ⟨_, h123.absorb⟩
/-- The branches: main code at `o` (it ends exactly at the parameter clear `PC`), cleanup blocks at
`PC + 2 + 2k`; each cleanup block jumps back INTO the main code (the next branch), so its exits are
typed against the main code's annotations. -/
theorem compileBrs_typed (hn : n < maxCode) (hP : wfProg P) : (bs : Brs4) → (Γp : List String) → (nn k : Nat) →
    (first : Bool) → (o h : Nat) → (main cleanup : List Instr) →
    wfBrs P bs → scBrs caps h Γp bs → Γp.length = nn + 1 → (first = true → bs.isNil = false) →
    compileBrs Γp nn bs k first = (main, cleanup) →
    o + main.length ≤ n → (cleanup ≠ [] → o + main.length + 2 + 2 * k + cleanup.length ≤ n) →
    ∃ Am, Seg P caps n o main Am
        (BrExt (o + main.length) (o + main.length + 2 + 2 * k) (o + main.length + 2 + 2 * k + cleanup.length)
          ⟨h + 1, nn + 1, .none⟩) ∧
      Flow o Am (BrExt (o + main.length) (o + main.length + 2 + 2 * k) (o + main.length + 2 + 2 * k + cleanup.length)
          ⟨h + 1, nn + 1, .none⟩) o (brEntry first h nn) ∧
      Seg P caps n (o + main.length + 2 + 2 * k) cleanup (List.replicate cleanup.length ⟨h + 1, nn + 1, .none⟩)
        (fun pc out => Flow o Am (BrExt (o + main.length) (o + main.length + 2 + 2 * k)
          (o + main.length + 2 + 2 * k + cleanup.length) ⟨h + 1, nn + 1, .none⟩) pc out)
  | .nil, Γp, nn, k, first, o, h, main, cleanup, _, _, _, hne, heq, _, _ => by
    simp only [compileBrs, Prod.mk.injEq] at heq
    obtain ⟨rfl, rfl⟩ := heq
    have hf : first = false := by
      cases first with
      | false => rfl
      | true => simpa [Brs4.isNil] using hne rfl
    subst hf
    refine ⟨[], Seg.nil, Or.inr ⟨by simp [InR], Or.inl (by simp), ?_⟩, Seg.nil⟩
    simp only [brEntry]
    exact Fits.refl _
  | .cons cond .none rest, Γp, nn, k, first, o, h, main, cleanup, hw, hs, hΓ, _, heq, hle1, hle2 => by
    rcases hr : compileBrs Γp nn rest k false with ⟨rm, rc⟩
    rw [compileBrs_none_eq, hr] at heq
    simp only [Prod.mk.injEq] at heq
    obtain ⟨rfl, rfl⟩ := heq
    generalize hbr : (if first then [] else [Instr.pop]) ++ ([Instr.load nn] ++ ((compileSq Γp cond).1 ++
          (resetIf (compileSq Γp cond).2.length nn ++
            (if rest.isNil then [] else [Instr.duplicate, .jumpIf (rm.length : Int)])))) = br at *
    simp only [List.length_append] at hle1 hle2
    have hbrlen : br.length = (if first then [] else [Instr.pop]).length + (1 + ((compileSq Γp cond).1.length +
        ((resetIf (compileSq Γp cond).2.length nn).length +
          (if rest.isNil then [] else [Instr.duplicate, Instr.jumpIf (rm.length : Int)]).length))) := by
      rw [← hbr]; simp only [List.length_append, List.length_cons, List.length_nil]
    obtain ⟨Amr, hR, hE, hC⟩ := compileBrs_typed hn hP rest Γp nn k false (o + br.length) h rm rc hw.2 hs.2 hΓ
      (by simp) hr (by omega) (by intro hne; have := hle2 hne; omega)
    obtain ⟨Apre, hpre⟩ := brPre_blk (P := P) (caps := caps) (n := n) (o := o) (X := []) first h nn
    obtain ⟨Ac, hc⟩ := compileSq_blk hn hP cond Γp (o + (if first then [] else [Instr.pop]).length + 1) h (nn + 1)
      hw.1 hs.1 (by omega) (by omega)
    rw [hΓ] at hc
    obtain ⟨Ab, hb⟩ := branch_none_blk hn (rl := rm.length) rest.isNil hpre hc (by rw [hbr]; omega)
    rw [hbr] at hb
    have hb' := hb.weaken (X' := [(o + br.length + rm.length, ⟨h + 1, nn + 1, .none⟩),
        (o + br.length + rm.length + 0, ⟨h + 1, nn + 1, .none⟩)]) (by
      intro e he; simp only [List.mem_singleton] at he; subst he; exact List.mem_cons_self)
    have hbrne : br ≠ [] := by
      intro hh
      rw [hh] at hbrlen
      simp only [List.length_nil] at hbrlen
      omega
    have hpos : o + (br ++ rm).length = o + br.length + rm.length := by rw [List.length_append]; omega
    rw [hpos]
    have := brs_step (P := P) (caps := caps) (n := n) hn (k := k) (k' := k) (d := 0) (PC := o + br.length + rm.length)
      false rfl rfl rfl hbrne hb' hR hE hC (by omega)
    simpa only [Bool.false_eq_true, if_false, List.nil_append] using this
  | .cons cond (.some cons) rest, Γp, nn, k, first, o, h, main, cleanup, hw, hs, hΓ, _, heq, hle1, hle2 => by
    rw [compileBrs_some_eq] at heq
    simp only at heq
    generalize hneeds : decide ((compileSq Γp cond).2.length > nn + 1) = needs at heq
    rcases hr : compileBrs Γp nn rest (if needs then k + 1 else k) false with ⟨rm, rc⟩
    rw [hr] at heq
    simp only [Prod.mk.injEq] at heq
    obtain ⟨rfl, rfl⟩ := heq
    have hg := compileSq_len cond Γp
    rw [hΓ] at hg
    generalize hoff : (if needs then 2 + (compileSq (compileSq Γp cond).2 cons).1.length +
        (resetIf (compileSq (compileSq Γp cond).2 cons).2.length nn).length +
        (if rest.isNil then [] else [Instr.jump (rm.length : Int)]).length + rm.length + 2 + 2 * k
      else 2 + (compileSq (compileSq Γp cond).2 cons).1.length +
        (resetIf (compileSq (compileSq Γp cond).2 cons).2.length nn).length +
        (if rest.isNil then [] else [Instr.jump (rm.length : Int)]).length) = off at *
    generalize hbr : (if first then [] else [Instr.pop]) ++ ([Instr.load nn] ++ ((compileSq Γp cond).1 ++
          ([Instr.duplicate, .not, .jumpIf (off : Int)] ++
            ([Instr.pop, .load nn] ++ ((compileSq (compileSq Γp cond).2 cons).1 ++
              (resetIf (compileSq (compileSq Γp cond).2 cons).2.length nn ++
                (if rest.isNil then [] else [Instr.jump (rm.length : Int)]))))))) = br at *
    have hbrlen : br.length = (if first then [] else [Instr.pop]).length + (1 + ((compileSq Γp cond).1.length +
        (3 + (2 + ((compileSq (compileSq Γp cond).2 cons).1.length +
          ((resetIf (compileSq (compileSq Γp cond).2 cons).2.length nn).length +
            (if rest.isNil then [] else [Instr.jump (rm.length : Int)]).length)))))) := by
      rw [← hbr]; simp only [List.length_append, List.length_cons, List.length_nil]
    have hcllen : (if needs then [Instr.reset (nn + 1), .jump (-((rm.length + 2 * k + 4 : Nat) : Int))] else []).length =
        if needs then 2 else 0 := by cases needs <;> rfl
    simp only [List.length_append, hcllen] at hle1 hle2
    have hle2' : needs = true → o + br.length + rm.length + 2 + 2 * k + 2 + rc.length ≤ n := by
      intro hh
      subst hh
      have := hle2 (by simp)
      simp only [if_true] at this
      omega
    obtain ⟨Amr, hR, hE, hC⟩ := compileBrs_typed hn hP rest Γp nn (if needs then k + 1 else k) false (o + br.length) h rm rc
      hw.2.2 hs.2.2 hΓ (by simp) hr (by omega) (by
        intro hne
        have := hle2 (by simp [hne])
        cases needs <;> simp only [if_true, Bool.false_eq_true, if_false] at this ⊢ <;> omega)
    obtain ⟨Apre, hpre⟩ := brPre_blk (P := P) (caps := caps) (n := n) (o := o) (X := []) first h nn
    obtain ⟨Ac, hc⟩ := compileSq_blk hn hP cond Γp (o + (if first then [] else [Instr.pop]).length + 1) h (nn + 1)
      hw.1 hs.1 (by omega) (by omega)
    rw [hΓ] at hc
    obtain ⟨Acc, hcc⟩ := compileSq_blk hn hP cons (compileSq Γp cond).2
      (o + (if first then [] else [Instr.pop]).length + 1 + (compileSq Γp cond).1.length + 3 + 2) h (nn + 1)
      hw.2.1 hs.2.1 hg (by omega)
    have hnp : (needs = true) ↔ (compileSq Γp cond).2.length > nn + 1 := by
      rw [← hneeds]; simp
    have hcase : (needs = true ∧ (compileSq Γp cond).2.length > nn + 1) ∨
        (needs = false ∧ ¬ (compileSq Γp cond).2.length > nn + 1) := by
      cases hnd : needs with
      | true => exact Or.inl ⟨rfl, hnp.mp hnd⟩
      | false => exact Or.inr ⟨rfl, fun hh => by have := hnp.mpr hh; rw [hnd] at this; cases this⟩
    obtain ⟨Ab, hb⟩ := branch_some_blk hn (rl := rm.length) (k := k) (off := off) rest.isNil hg hpre hc hcc (by
        rw [← hoff]
        rcases hcase with ⟨h1, h2⟩ | ⟨h1, h2⟩
        · simp only [h1, h2, if_true]
        · simp only [h1, h2, Bool.false_eq_true, if_false]) (by
        rw [hbr]
        rcases hcase with ⟨h1, h2⟩ | ⟨h1, h2⟩
        · simp only [h2, if_true]; have := hle2' h1; omega
        · simp only [h2, if_false]; omega)
    rw [hbr] at hb
    have hdd : (if (compileSq Γp cond).2.length > nn + 1 then 2 + 2 * k else 0) = if needs then 2 + 2 * k else 0 := by
      rcases hcase with ⟨h1, h2⟩ | ⟨h1, h2⟩
      · simp only [h1, h2, if_true]
      · simp only [h1, h2, Bool.false_eq_true, if_false]
    rw [hdd] at hb
    have hbrne : br ≠ [] := by
      intro hh
      rw [hh] at hbrlen
      simp only [List.length_nil] at hbrlen
      omega
    have hpos : o + (br ++ rm).length = o + br.length + rm.length := by rw [List.length_append]; omega
    rw [hpos]
    exact brs_step (P := P) (caps := caps) (n := n) hn (k := k) (k' := if needs then k + 1 else k)
      (d := if needs then 2 + 2 * k else 0) (PC := o + br.length + rm.length)
      needs rfl rfl rfl hbrne hb hR hE hC (by omega)
end

end Compile

/-! ### Fragment 4: the compiled function passes the checker -/

/-- **Every function the fragment-4 compiler (blocks with branches and `=>`) emits is accepted by
the verified checker.** -/
theorem compileSq_checkFn {P : Prog} (hP : wfProg P) (Γ : List String) (sq : Sq4) (tid : Nat)
    (hw : wfSq P sq) (hs : scSq Γ.length 0 Γ sq) (hsmall : (compileSq Γ sq).1.length < maxCode) :
    ∃ anns, checkFn P { instructions := (compileSq Γ sq).1.toArray, captures := Γ.length, typeId := tid } anns = true := by
  obtain ⟨A, hA⟩ := compileSq_blk (caps := Γ.length) hsmall hP sq Γ 0 0 Γ.length hw hs (Nat.le_refl _) (by simp)
  exact ⟨_, checkFn_of_blk hA rfl hsmall⟩

/-- **Every function body** (`fnCode`: the body compiled as a block over the captures) passes the
checker as a function with `#captures` captures. -/
theorem fnCode_checkFn {P : Prog} (hP : wfProg P) (d : FnDef) (tid : Nat)
    (hne : d.body.isNil = false) (hw : wfBrs P d.body) (hs : scBrs d.caps.length 0 (d.caps ++ [""]) d.body)
    (hsmall : (fnCode d).length < maxCode) :
    ∃ anns, checkFn P { instructions := (fnCode d).toArray, captures := d.caps.length, typeId := tid } anns = true := by
  obtain ⟨A, hA⟩ := compileT_blk (caps := d.caps.length) hsmall hP (.block d.body) d.caps 0 0 ⟨hne, hw⟩ hs
    (by simp [fnCode])
  have e : (compileT d.caps (.block d.body)).2.length = d.caps.length := by simp [compileT]
  rw [e] at hA
  exact ⟨_, checkFn_of_blk hA rfl hsmall⟩

/-- A program of fragment 4: every function is a compiled sequence (an entry / top level) or the
code of a function literal (`fnCode`). -/
def Frag4Prog (P : Prog) : Prop :=
  wfProg P ∧ ∀ (f : Nat) (fn : Function), P.functions[f]? = some fn →
    (∃ (Γ : List String) (sq : Sq4), fn.instructions = (compileSq Γ sq).1.toArray ∧ fn.captures = Γ.length ∧
      wfSq P sq ∧ scSq Γ.length 0 Γ sq ∧ (compileSq Γ sq).1.length < maxCode) ∨
    (∃ d : FnDef, fn.instructions = (fnCode d).toArray ∧ fn.captures = d.caps.length ∧
      d.body.isNil = false ∧ wfBrs P d.body ∧ scBrs d.caps.length 0 (d.caps ++ [""]) d.body ∧ (fnCode d).length < maxCode)

theorem frag4_allChecked {P : Prog} (h : Frag4Prog P) : ∃ A, AllChecked P A := by
  obtain ⟨hP, hfn⟩ := h
  have hex : ∀ f : Nat, ∃ anns : Anns, f < P.functions.size → checkAnn P f anns = true := by
    intro f
    by_cases hf : f < P.functions.size
    · have hget : P.functions[f]? = some P.functions[f] := by simp [hf]
      have key : ∀ (code : List Instr) (nc : Nat), P.functions[f].instructions = code.toArray →
          P.functions[f].captures = nc →
          (∃ anns, checkFn P { instructions := code.toArray, captures := nc, typeId := P.functions[f].typeId } anns = true) →
          ∃ anns : Anns, f < P.functions.size → checkAnn P f anns = true := by
        intro code nc hi hc ⟨anns, hck⟩
        refine ⟨anns, fun _ => ?_⟩
        unfold checkAnn
        rw [hget]
        have : P.functions[f] = Function.mk code.toArray nc P.functions[f].typeId := by
          cases hfv : P.functions[f] with
          | mk ins cap ty =>
            rw [hfv] at hi hc
            simp only at hi hc
            simp [hi, hc]
        rw [this]
        exact hck
      rcases hfn f _ hget with ⟨Γ, sq, hi, hc, hw, hs, hsmall⟩ | ⟨d, hi, hc, hne, hw, hs, hsmall⟩
      · exact key _ _ hi hc (compileSq_checkFn hP Γ sq _ hw hs hsmall)
      · exact key _ _ hi hc (fnCode_checkFn hP d _ hne hw hs hsmall)
    · exact ⟨#[], fun h => absurd h hf⟩
  obtain ⟨g, hg⟩ := Classical.axiomOfChoice hex
  refine ⟨Array.ofFn (n := P.functions.size) (fun i => g i), ?_⟩
  intro f hf
  have : annsOf (Array.ofFn (n := P.functions.size) (fun i => g i)) f = g f := by
    simp [annsOf, Array.getD, hf]
  rw [this]
  exact hg f hf

/-- **No program of fragment 4 — function literals with captures, calls and returns included — ever
fails structurally** (`checkAnn_sound`; a call may still fail with CallInvalid / TypeMismatch when the
callee is not a function: that is C01). -/
theorem frag4_no_structural_failure {P : Prog} (h : Frag4Prog P) (s0 : Nat) (p0 p : Proc)
    (h0 : EntryWF P s0 p0) (hr : ReachWF P p0 p) :
    (∃ A, Inv P A s0 p) ∧
    ∀ ev, EventWF P ev → ∀ e, transition P p ev = some (.error e) → e.isStructural = false := by
  obtain ⟨A, hA⟩ := frag4_allChecked h
  obtain ⟨hinv, herr⟩ := C07.checkAnn_sound P A s0 hA p0 p h0 hr
  exact ⟨⟨A, hinv⟩, herr⟩

/-! ### The C16 corollary: tail loops of the fragment run in constant space -/

/-- **C16's text as a theorem for every program of fragment 4.** Take any activation `(rest, lb)` of a
process running a fragment-4 program: `q0` has just entered a function on it (through a `Call` or a
tail call). After ANY number of transitions that stay inside the activation, whenever the process is
back at the activation's depth and takes a self tail call `^`, the state it re-enters in has
  * exactly the frames of the first entry,
  * exactly the operand stack length of the first entry,
  * `lb + captures` locals for the function it re-enters — exactly the locals of the first entry when
    that is the function entered first (the self-recursive loop),
whatever the number of iterations so far; and nothing on the way fails structurally
(`frag4_no_structural_failure`). (`loop_head_invariant` of Theorems/C16.lean, whose hypothesis
`AllChecked` is discharged by `frag4_allChecked`.) -/
theorem frag4_tail_loops_constant_space {P : Prog} (h : Frag4Prog P) :
    ∃ A, AllChecked P A ∧
      ∀ (s0 : Nat) (q0 q q' : Proc) (rest : List Frame) (lb fi0 : Nat) (act : Option Action),
        Inv P A s0 q0 → C16.AtEntry P A s0 rest lb fi0 q0 →
        C16.ReachAbove P (rest.length + 1) q0 q →
        q.frames.length = rest.length + 1 → q.park = .none →
        P.currentInstr q = some (.tailCall true) →
        handleTailCall P q true = .ok (q', act) →
        q'.frames.length = q0.frames.length ∧ q'.stack.length = q0.stack.length ∧
        ∃ fi fn, P.functions[fi]? = some fn ∧ C16.AtEntry P A s0 rest lb fi q' ∧
          q'.locals.length = lb + fn.captures ∧
          (fi = fi0 → q'.locals.length = q0.locals.length) := by
  obtain ⟨A, hA⟩ := frag4_allChecked h
  refine ⟨A, hA, ?_⟩
  intro s0 q0 q q' rest lb fi0 act hinv0 h0 hreach hdepth hpark hcur hstep
  obtain ⟨fi, hent, himp⟩ := C16.loop_head_invariant hA hinv0 h0 hreach hdepth hpark hcur hstep
  obtain ⟨f, fn, hf, _, _, _, hfn, hl, hs⟩ := hent.shape
  obtain ⟨f0, fn0, hf0, _, _, _, _, _, hs0⟩ := h0.shape
  refine ⟨by rw [hf, hf0]; rfl, by rw [hs, hs0], fi, fn, hfn, hent, hl, fun hfi => (himp hfi).2.1⟩

/-! ### Example: a counting loop -/

/-- the loop's body: `{ | =0 => 9 | [~, 1] __sub__ ^ }` (`__sub__` = builtin 0) -/
def exBody : Brs4 :=
  .cons (.last (.cons (.mtch (.top (.lit 0 0))) .nil)) (.some (.last (.cons (.int 9 1) .nil)))
    (.cons (.last (.cons (.tup 2 (.cons (.cons .ripple .nil) (.cons (.cons (.int 1 2) .nil) .nil)))
      (.cons (.bcall 0) (.cons .tailSelf .nil)))) .none .nil)

/-- `#{ … } =f, 7 f` -/
def exSq : Sq4 :=
  .cons (.cons (.fnlit 1 []) (.cons (.mtch (.top (.bind "f"))) .nil))
    (.last (.cons (.int 7 3) (.cons (.call "f") .nil)))

def exP : Prog :=
  { constants := #[.int 0, .int 9, .int 1, .int 7],
    functions := #[⟨(compileSq [] exSq).1.toArray, 0, 0⟩, ⟨(fnCode ⟨[], exBody⟩).toArray, 0, 0⟩],
    tuples := #[0, 0, 2], types := 0, builtins := 1 }

/-- the loop function ends its second branch in `Builtin 0, Call, TailCall(true)` followed by dead code -/
example : (fnCode ⟨[], exBody⟩).contains (.tailCall true) = true := by decide +kernel

example : Frag4Prog exP := by
  refine ⟨⟨rfl, rfl⟩, ?_⟩
  intro f fn hf
  have hf01 : f = 0 ∨ f = 1 := by
    have := (Array.getElem?_eq_some_iff.mp hf).1
    simp [exP] at this; omega
  rcases hf01 with rfl | rfl
  · have hfn : fn = ⟨(compileSq [] exSq).1.toArray, 0, 0⟩ := by simpa [exP] using hf.symm
    subst hfn
    refine Or.inl ⟨[], exSq, rfl, rfl, ?_, ?_, by decide +kernel⟩
    · simp only [exSq, wfSq, wfCh, wfT, wfPat, QM.RefSem.C1.wfSub, and_true]
      exact ⟨⟨_, rfl, rfl⟩, rfl⟩
    · simp only [exSq, scSq, scCh, scT, and_true, true_and]
      refine ⟨?_, ⟨0, by decide +kernel⟩⟩
      intro c hc
      cases hc
  · have hfn : fn = ⟨(fnCode ⟨[], exBody⟩).toArray, 0, 0⟩ := by simpa [exP] using hf.symm
    subst hfn
    refine Or.inr ⟨⟨[], exBody⟩, rfl, rfl, rfl, ?_, ?_, by decide +kernel⟩
    · simp only [exBody, wfBrs, wfSq, wfCh, wfT, wfFs, wfPat, QM.RefSem.C1.wfSub, Fs4.length, and_true, true_and]
      refine ⟨rfl, rfl, ⟨rfl, rfl⟩, ?_⟩
      decide
    · simp only [exBody, scBrs, scSq, scCh, scT, scFs, and_true, true_and]
      simp

/-- The inferred annotations pass for both functions. -/
example : checkAnn exP 0 (inferAnn exP 0) = true ∧ checkAnn exP 1 (inferAnn exP 1) = true := by
  decide +kernel

end F4
end QM.C07Frag
