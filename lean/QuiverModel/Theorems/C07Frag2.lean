import QuiverModel.Core.RefSem.Compile2
import QuiverModel.Theorems.C07Frag
/-
C07, fragment theorem, part 2 — **blocks**: every function b-c02's model compiler `Compile2.lean`
(fragment 1 + blocks with branches and `=>`: parameter slot, per-branch `Reset`, parameter clear,
cleanup blocks with backward jumps into the next branch) emits is accepted by the verified checker.

Imports `Core/RefSem/Compile2.lean` READ-ONLY. **Dependency rule** (as for `C07Frag.lean`): optional
extra of C07; if Compile2.lean changes so that this module stops building, C07 drops it from
`props/C07.json` rather than fail (part 1 depends on Compile1.lean only and stays).

  * `F2.compileSq_checkFn`, `F2.frag2_allChecked`, `F2.frag2_no_structural_failure` — the three
    statements of part 1 for every sequence of fragment 2.
  * The consequence of a branch is compiled under the condition's bindings and reached only through
    the not-taken side of `Duplicate, Not, JumpIf`; `F2.branch_some_blk` is where the nil guard
    (`Guard.top g`, left by the condition's sequence: `F2.compileSq_blk`) turns into the `g` locals
    the consequence's `Load`s need. Without the guard in the annotation domain the statement is
    FALSE (`[1, 2] { =[x, y], [x, y] =z => z | 0 }`, the example at the end, was rejected).
  * `F2.compileBrs_typed` types the branches' main code and the cleanup blocks against each other
    (the cleanup blocks jump back INTO the main code), `F2.brs_step` adds one branch in front,
    `F2.block_blk` closes the block (`Store` … parameter clear, jump over the cleanup blocks).
-/
namespace QM.C07Frag
open QM.VM

/-! ### Resolving flows into composed annotations -/

/-- `out` arrives at `pc` inside the segment and fits the annotation there. -/
def Hit (o : Nat) (A : List Ann) (pc : Nat) (out : Ann) : Prop :=
  InR o A.length pc ∧ ∃ x, A[pc - o]? = some x ∧ Fits out x

theorem Hit.flow {o : Nat} {A : List Ann} {ext : Nat → Ann → Prop} {pc : Nat} {out : Ann}
    (h : Hit o A pc out) : Flow o A ext pc out := Or.inl h

theorem Hit.left {o : Nat} {A1 A2 : List Ann} {pc : Nat} {out : Ann} (h : Hit o A1 pc out) :
    Hit o (A1 ++ A2) pc out := by
  obtain ⟨hin, x, hx, hf⟩ := h
  refine ⟨⟨hin.1, by have := hin.2; simp; omega⟩, x, ?_, hf⟩
  rw [List.getElem?_append_left (by have := hin.1; have := hin.2; omega)]
  exact hx

theorem Hit.right {o : Nat} {A1 A2 : List Ann} {pc : Nat} {out : Ann}
    (h : Hit (o + A1.length) A2 pc out) : Hit o (A1 ++ A2) pc out := by
  obtain ⟨hin, x, hx, hf⟩ := h
  have h1 := hin.1
  have h2 := hin.2
  refine ⟨⟨by omega, by simp; omega⟩, x, ?_, hf⟩
  rw [List.getElem?_append_right (by omega)]
  have : pc - o - A1.length = pc - (o + A1.length) := by omega
  rw [this]
  exact hx

theorem Hit.head {o : Nat} {x : Ann} {A : List Ann} {out : Ann} (hf : Fits out x) : Hit o (x :: A) o out :=
  ⟨⟨Nat.le_refl _, by simp⟩, x, by simp, hf⟩

theorem Hit.replicate {o k pc : Nat} {a out : Ann} (hin : InR o k pc) (hf : Fits out a) :
    Hit o (List.replicate k a) pc out := by
  refine ⟨by simpa using hin, a, ?_, hf⟩
  have := hin.1
  have := hin.2
  simp [List.getElem?_replicate]
  omega

theorem Hit.at {o o' : Nat} {A : List Ann} {pc : Nat} {out : Ann} (h : Hit o A pc out) (ho : o = o') :
    Hit o' A pc out := ho ▸ h

/-- a flow into the second of two adjacent segments, seen from the pair -/
theorem Flow.lift_right {o : Nat} {A1 A2 : List Ann} {ext2 ext : Nat → Ann → Prop} {pc : Nat} {out : Ann}
    (h : Flow (o + A1.length) A2 ext2 pc out) (hge : o + A1.length ≤ pc)
    (hext : ext2 pc out → ext pc out) : Flow o (A1 ++ A2) ext pc out := by
  rcases h with hh | ⟨hout, he⟩
  · exact Or.inl (Hit.right hh)
  · refine Or.inr ⟨?_, hext he⟩
    intro hin
    apply hout
    have := hin.2
    simp at this
    exact ⟨hge, by omega⟩

/-- a flow into the first of two adjacent segments, seen from the pair -/
theorem Flow.lift_left {o : Nat} {A1 A2 : List Ann} {ext1 ext : Nat → Ann → Prop} {pc : Nat} {out : Ann}
    (h : Flow o A1 ext1 pc out) (hext : ¬ InR o A1.length pc → ext1 pc out → Flow o (A1 ++ A2) ext pc out) :
    Flow o (A1 ++ A2) ext pc out := by
  rcases h with hh | ⟨hout, he⟩
  · exact Or.inl (Hit.left hh)
  · exact hext hout he

/-- One instruction with an arbitrary exit predicate. -/
theorem Seg.one {P : Prog} {caps n o : Nat} {i : Instr} {a : Ann} {ext : Nat → Ann → Prop}
    {succs : List (Nat × Ann)}
    (ht : transfer P n caps o a i = .ok succs) (hs : ∀ s ∈ succs, s.1 ≠ o ∧ ext s.1 s.2) :
    Seg P caps n o [i] [a] ext := by
  refine ⟨rfl, ?_⟩
  intro j i' x hi hx
  cases j with
  | zero =>
    simp at hi hx
    subst hi hx
    refine ⟨_, ht, ?_⟩
    intro s hs'
    obtain ⟨h1, h2⟩ := hs s hs'
    exact Or.inr ⟨by simp [InR]; omega, h2⟩
  | succ j => simp at hi

namespace F2
open QM.RefSem.C1 (Sub Pat1 slot compilePat patBinds wfPat wfProg)
open QM.RefSem.C2

section Singles2
variable {P : Prog} {caps n o : Nat} {X : List (Nat × Ann)} {h l : Nat}

/-- `Duplicate` of a guarded value -/
theorem Blk.duplicateTop {g : Nat} :
    Blk P caps n o [.duplicate] ⟨h + 1, l, .top g⟩ [⟨h + 1, l, .top g⟩] ⟨h + 2, l, .dup (max g l)⟩ X :=
  Blk.single (by simp [transfer]) (Fits.refl _)

/-- `Reset(nn + 1)` where the branch has bindings, nothing otherwise: back to the block's locals
plus the parameter -/
theorem resetIf_blk {len nn : Nat} {g : Guard} (hl : nn + 1 ≤ l) :
    ∃ A, Blk P caps n o (resetIf len nn) ⟨h + 1, l, g⟩ A ⟨h + 1, nn + 1, .none⟩ X := by
  unfold resetIf
  split
  · exact ⟨_, Blk.reset hl⟩
  · exact ⟨[], Blk.empty (Fits.plain rfl hl)⟩

end Singles2

/-- entry state of a branch: the first one starts right after the `Store` of the parameter, a later
one with the failed condition's nil still on the stack -/
def brEntry (first : Bool) (h nn : Nat) : Ann := if first then ⟨h, nn + 1, .none⟩ else ⟨h + 1, nn + 1, .none⟩

theorem brPre_blk {P : Prog} {caps n o : Nat} {X : List (Nat × Ann)} (first : Bool) (h nn : Nat) :
    ∃ A, Blk P caps n o (if first then [] else [Instr.pop]) (brEntry first h nn) A ⟨h, nn + 1, .none⟩ X := by
  cases first with
  | true => exact ⟨[], Blk.empty (Fits.refl _)⟩
  | false => exact ⟨_, Blk.pop⟩

section Branches
variable {P : Prog} {caps n o h nn : Nat}

/-- side conditions "this exit lies outside that range", for the one- and two-exit lists used here -/
macro "outsideX" : tactic =>
  `(tactic| (intro e he
             simp only [List.mem_cons, List.not_mem_nil, or_false] at he
             rcases he with rfl | rfl <;>
               (simp only [InR, List.length_append, List.length_cons, List.length_nil] at *; omega)))

macro "outside1" : tactic =>
  `(tactic| (intro e he
             simp only [List.mem_cons, List.not_mem_nil, or_false] at he
             subst he
             (simp only [InR, List.length_append, List.length_cons, List.length_nil] at *; omega)))

/-- A bodiless branch: `[Pop] Load(n) cond [Reset(n+1)] [Duplicate JumpIf(→PC)]`. -/
theorem branch_none_blk (hn : n < maxCode) {pre c1 : List Instr} {e : Ann} {Apre Ac : List Ann} {g rl : Nat}
    (restNil : Bool)
    (hpre : Blk P caps n o pre e Apre ⟨h, nn + 1, .none⟩ [])
    (hc : Blk P caps n (o + pre.length + 1) c1 ⟨h + 1, nn + 1, .none⟩ Ac ⟨h + 1, nn + 1, .top g⟩ [])
    (hb : o + (pre ++ ([Instr.load nn] ++ (c1 ++ (resetIf g nn ++
      (if restNil then [] else [Instr.duplicate, .jumpIf (rl : Int)]))))).length + rl ≤ n) :
    ∃ A, Blk P caps n o (pre ++ ([Instr.load nn] ++ (c1 ++ (resetIf g nn ++
        (if restNil then [] else [Instr.duplicate, .jumpIf (rl : Int)]))))) e A ⟨h + 1, nn + 1, .none⟩
      [(o + (pre ++ ([Instr.load nn] ++ (c1 ++ (resetIf g nn ++
        (if restNil then [] else [Instr.duplicate, .jumpIf (rl : Int)]))))).length + rl, ⟨h + 1, nn + 1, .none⟩)] := by
  unfold maxCode at hn
  generalize hPC : o + (pre ++ ([Instr.load nn] ++ (c1 ++ (resetIf g nn ++
      (if restNil then [] else [Instr.duplicate, .jumpIf (rl : Int)]))))).length + rl = PC at *
  simp only [List.length_append, List.length_cons, List.length_nil] at hPC
  let a1 : Ann := ⟨h + 1, nn + 1, .none⟩
  obtain ⟨Ar, hr⟩ := resetIf_blk (P := P) (caps := caps) (n := n) (o := o + pre.length + 1 + c1.length)
    (X := [(PC, a1)]) (h := h) (l := nn + 1) (len := g) (nn := nn) (g := .top g) (Nat.le_refl _)
  have htail : ∃ A, Blk P caps n (o + pre.length + 1 + c1.length + (resetIf g nn).length)
      (if restNil then [] else [Instr.duplicate, .jumpIf (rl : Int)]) a1 A a1 [(PC, a1)] := by
    cases restNil with
    | true => exact ⟨[], Blk.empty (Fits.refl _)⟩
    | false =>
      simp only [Bool.false_eq_true, if_false, List.length_cons, List.length_nil] at hPC ⊢
      refine ⟨_, Blk.seq (c1 := [.duplicate]) Blk.duplicate
        (Blk.instr (transfer_jumpIf (t := PC) ?_ (by omega) (by omega) (by intro k hk; cases hk)) ?_) ?_⟩
      · simp only [List.length_cons, List.length_nil]; omega
      · intro s hs
        simp only [List.mem_cons, List.not_mem_nil, or_false] at hs
        rcases hs with rfl | rfl
        · exact ⟨by simp only [List.length_cons, List.length_nil]; omega, _,
            List.mem_cons_of_mem _ List.mem_cons_self, rfl, Fits.refl _⟩
        · exact ⟨by simp, _, List.mem_cons_self, rfl, Fits.refl _⟩
      · outside1
  obtain ⟨At, ht⟩ := htail
  refine ⟨_, Blk.seq (hpre.weaken (X' := [(PC, a1)]) (by intro e he; cases he))
    (Blk.seq (c1 := [Instr.load nn]) (Blk.load (by omega))
      (Blk.seq (hc.weaken (X' := [(PC, a1)]) (by intro e he; cases he))
        (Blk.seq hr (ht.at (by simp only [List.length_cons, List.length_nil])) ?_) ?_) ?_) ?_⟩
  all_goals outside1

/-- A branch with a consequence:
`[Pop] Load(n) cond Duplicate Not JumpIf(→T) Pop Load(n) cons [Reset(n+1)] [Jump(→PC)]`.
The `JumpIf` is taken when the condition's value is nil (→ the branch's cleanup block if the
condition has bindings, the next branch otherwise); it falls through only when the value is
non-nil, and then — by the guard the condition's sequence leaves — ALL `g` locals of the condition
are there, which the consequence (compiled under them) relies on. -/
theorem branch_some_blk (hn : n < maxCode) {pre c1 cc1 : List Instr} {e : Ann} {Apre Ac Acc : List Ann}
    {g g2 rl k off : Nat} (restNil : Bool) (hg : nn + 1 ≤ g)
    (hpre : Blk P caps n o pre e Apre ⟨h, nn + 1, .none⟩ [])
    (hc : Blk P caps n (o + pre.length + 1) c1 ⟨h + 1, nn + 1, .none⟩ Ac ⟨h + 1, nn + 1, .top g⟩ [])
    (hcc : Blk P caps n (o + pre.length + 1 + c1.length + 3 + 2) cc1 ⟨h + 1, g, .none⟩ Acc
      ⟨h + 1, nn + 1, .top g2⟩ [])
    (hoff : off = if g > nn + 1
      then 2 + cc1.length + (resetIf g2 nn).length + (if restNil then [] else [Instr.jump (rl : Int)]).length + rl + 2 + 2 * k
      else 2 + cc1.length + (resetIf g2 nn).length + (if restNil then [] else [Instr.jump (rl : Int)]).length)
    (hb : o + (pre ++ ([Instr.load nn] ++ (c1 ++ ([Instr.duplicate, .not, .jumpIf (off : Int)] ++
      ([Instr.pop, .load nn] ++ (cc1 ++ (resetIf g2 nn ++
        (if restNil then [] else [Instr.jump (rl : Int)])))))))).length + rl +
        (if g > nn + 1 then 2 + 2 * k else 0) ≤ n) :
    ∃ A, Blk P caps n o (pre ++ ([Instr.load nn] ++ (c1 ++ ([Instr.duplicate, .not, .jumpIf (off : Int)] ++
      ([Instr.pop, .load nn] ++ (cc1 ++ (resetIf g2 nn ++
        (if restNil then [] else [Instr.jump (rl : Int)])))))))) e A ⟨h + 1, nn + 1, .none⟩
      [(o + (pre ++ ([Instr.load nn] ++ (c1 ++ ([Instr.duplicate, .not, .jumpIf (off : Int)] ++
        ([Instr.pop, .load nn] ++ (cc1 ++ (resetIf g2 nn ++
          (if restNil then [] else [Instr.jump (rl : Int)])))))))).length + rl, ⟨h + 1, nn + 1, .none⟩),
       (o + (pre ++ ([Instr.load nn] ++ (c1 ++ ([Instr.duplicate, .not, .jumpIf (off : Int)] ++
        ([Instr.pop, .load nn] ++ (cc1 ++ (resetIf g2 nn ++
          (if restNil then [] else [Instr.jump (rl : Int)])))))))).length + rl + (if g > nn + 1 then 2 + 2 * k else 0),
        ⟨h + 1, nn + 1, .none⟩)] := by
  unfold maxCode at hn
  generalize hEND : o + (pre ++ ([Instr.load nn] ++ (c1 ++ ([Instr.duplicate, .not, .jumpIf (off : Int)] ++
      ([Instr.pop, .load nn] ++ (cc1 ++ (resetIf g2 nn ++
        (if restNil then [] else [Instr.jump (rl : Int)])))))))).length = END at *
  have hEND' := hEND
  simp only [List.length_append, List.length_cons, List.length_nil] at hEND'
  let a1 : Ann := ⟨h + 1, nn + 1, .none⟩
  generalize hd : (if g > nn + 1 then 2 + 2 * k else 0) = d at hb ⊢
  have hdle : d ≤ 2 + 2 * k := by rw [← hd]; split <;> omega
  let X : List (Nat × Ann) := [(END, a1), (END + rl, a1), (END + rl + d, a1)]
  -- target of the JumpIf
  generalize hT : (if g > nn + 1 then END + rl + 2 + 2 * k else END) = T
  have hTX : (T, a1) ∈ X := by
    by_cases hneeds : g > nn + 1
    · simp only [hneeds, if_true] at hT hd
      have : T = END + rl + d := by omega
      simp [X, this]
    · simp only [hneeds, if_false] at hT
      simp [X, ← hT]
  have hTle : T ≤ n := by
    by_cases hneeds : g > nn + 1
    · simp only [hneeds, if_true] at hT hd; omega
    · simp only [hneeds, if_false] at hT hd; omega
  have hTge : END ≤ T := by rw [← hT]; split <;> omega
  have hjump : ((o + pre.length + 1 + c1.length + 1 + 1 : Nat) : Int) + (off : Int) + 1 = (T : Int) := by
    rw [← hT, hoff]
    split <;> (push_cast; omega)
  have hofflt : (off : Int) < 2 ^ 62 := by
    rw [hoff]
    by_cases hneeds : g > nn + 1
    · simp only [hneeds, if_true] at hd ⊢; omega
    · simp only [hneeds, if_false] at hd ⊢; omega
  -- Duplicate, Not, JumpIf
  have hj : Blk P caps n (o + pre.length + 1 + c1.length) [Instr.duplicate, .not, .jumpIf (off : Int)]
      ⟨h + 1, nn + 1, .top g⟩
      [⟨h + 1, nn + 1, .top g⟩, ⟨h + 2, nn + 1, .dup (max g (nn + 1))⟩, ⟨h + 2, nn + 1, .neg (max g (nn + 1))⟩]
      ⟨h + 1, g, .none⟩ X := by
    refine Blk.seq (c1 := [.duplicate]) Blk.duplicateTop
      (Blk.seq (c1 := [.not]) Blk.notG
        (Blk.instr (transfer_jumpIf_neg (t := T) ?_ hTle hofflt) ?_) ?_) ?_
    · simpa only [List.length_cons, List.length_nil] using hjump
    · intro s hs
      simp only [List.mem_cons, List.not_mem_nil, or_false] at hs
      rcases hs with rfl | rfl
      · exact ⟨by simp only [List.length_cons, List.length_nil]; omega, (T, a1),
          List.mem_cons_of_mem _ hTX, rfl, Fits.plain rfl (Nat.le_refl _)⟩
      · refine ⟨by simp, _, List.mem_cons_self, rfl, Fits.plain rfl ?_⟩
        simp only; omega
    all_goals
      (intro e he
       simp only [X, List.mem_cons, List.not_mem_nil, or_false] at he
       rcases he with rfl | rfl | rfl <;>
         (simp only [InR, List.length_append, List.length_cons, List.length_nil] at *; omega))
  obtain ⟨Ar, hr⟩ := resetIf_blk (P := P) (caps := caps) (n := n)
    (o := o + pre.length + 1 + c1.length + 3 + 2 + cc1.length)
    (X := X) (h := h) (l := nn + 1) (len := g2) (nn := nn) (g := .top g2) (Nat.le_refl _)
  have hej : ∃ A, Blk P caps n (o + pre.length + 1 + c1.length + 3 + 2 + cc1.length + (resetIf g2 nn).length)
      (if restNil then [] else [Instr.jump (rl : Int)]) a1 A a1 X := by
    cases restNil with
    | true => exact ⟨[], Blk.empty (Fits.refl _)⟩
    | false =>
      simp only [Bool.false_eq_true, if_false, List.length_cons, List.length_nil] at hEND' ⊢
      refine ⟨_, Blk.instr (transfer_jump (t := END + rl) (by omega) (by omega) (by omega)) ?_⟩
      intro s hs
      simp only [List.mem_singleton] at hs
      subst hs
      exact ⟨by simp only; omega, (END + rl, a1), by simp [X], rfl, Fits.refl _⟩
  obtain ⟨Aej, hej⟩ := hej
  have hXout : ∀ (lo len : Nat), o ≤ lo → lo + len ≤ END → ∀ e ∈ X, ¬ InR lo len e.1 := by
    intro lo len h1 h2 e he
    simp only [X, List.mem_cons, List.not_mem_nil, or_false] at he
    rcases he with rfl | rfl | rfl <;> (simp only [InR]; omega)
  have hw : ∀ {o' : Nat} {code : List Instr} {a b : Ann} {A : List Ann},
      Blk P caps n o' code a A b [] → Blk P caps n o' code a A b X :=
    fun hh => hh.weaken (by intro e he; cases he)
  have hall := Blk.seq (hw hpre)
    (Blk.seq (c1 := [Instr.load nn]) (Blk.load (by omega))
      (Blk.seq (hw hc)
        (Blk.seq hj
          (Blk.seq (c1 := [Instr.pop, .load nn])
            (Blk.seq (c1 := [Instr.pop]) Blk.pop (Blk.load (by omega)) (hXout _ _ (by omega) (by simp only [List.length_cons, List.length_nil]; omega)))
            (Blk.seq ((hw hcc).at (by simp only [List.length_cons, List.length_nil]))
              (Blk.seq (hr.at (by simp only [List.length_cons, List.length_nil])) (hej.at (by simp only [List.length_cons, List.length_nil]))
                (hXout _ _ (by simp only [List.length_cons, List.length_nil]; omega) (by simp only [List.length_cons, List.length_nil]; omega)))
              (hXout _ _ (by simp only [List.length_cons, List.length_nil]; omega) (by simp only [List.length_append, List.length_cons, List.length_nil]; omega)))
            (hXout _ _ (by omega) (by simp only [List.length_append, List.length_cons, List.length_nil]; omega)))
          (hXout _ _ (by omega) (by simp only [List.length_append, List.length_cons, List.length_nil]; omega)))
        (hXout _ _ (by omega) (by simp only [List.length_append, List.length_cons, List.length_nil]; omega)))
      (hXout _ _ (by omega) (by simp only [List.length_append, List.length_cons, List.length_nil]; omega)))
    (hXout _ _ (by omega) (by simp only [List.length_append, List.length_cons, List.length_nil]; omega))
  apply Exists.intro
  apply Blk.absorb
  rw [hEND]
  exact hall

end Branches

/-! ### Scoping and monotonicity of the compile-time locals -/

mutual
  def scT (Γ : List String) : T2 → Prop
    | .var x => ∃ i, slot Γ x = some i
    | .tup _ fs => scFs Γ fs
    | .block bs => scBrs (Γ ++ [""]) bs
    | _ => True
  def scCh (Γ : List String) : Ch2 → Prop
    | .nil => True
    | .cons t r => scT Γ t ∧ scCh (compileT Γ t).2 r
  def scFs (Γ : List String) : Fs2 → Prop
    | .nil => True
    | .cons c r => scCh Γ c ∧ scFs (compileCh Γ c).2 r
  def scSq (Γ : List String) : Sq2 → Prop
    | .last c => scCh Γ c
    | .cons c r => scCh Γ c ∧ scSq (compileCh Γ c).2 r
  def scBrs (Γp : List String) : Brs2 → Prop
    | .nil => True
    | .cons cond .none rest => scSq Γp cond ∧ scBrs Γp rest
    | .cons cond (.some cons) rest => scSq Γp cond ∧ scSq (compileSq Γp cond).2 cons ∧ scBrs Γp rest
end

mutual
theorem compileT_len : (t : T2) → (Γ : List String) → Γ.length ≤ (compileT Γ t).2.length
  | .int _ _, Γ => by simp [compileT]
  | .ripple, Γ => by simp [compileT]
  | .tup _ fs, Γ => by simp only [compileT]; exact compileFs_len fs Γ 0
  | .var _, Γ => by simp [compileT]
  | .mtch p, Γ => by simp [compileT]
  | .block _, Γ => by simp [compileT]
theorem compileCh_len : (c : Ch2) → (Γ : List String) → Γ.length ≤ (compileCh Γ c).2.length
  | .nil, Γ => by simp [compileCh]
  | .cons t r, Γ => by
    simp only [compileCh]
    exact Nat.le_trans (compileT_len t Γ) (compileCh_len r _)
theorem compileFs_len : (fs : Fs2) → (Γ : List String) → (k : Nat) → Γ.length ≤ (compileFs Γ fs k).2.length
  | .nil, Γ, _ => by simp [compileFs]
  | .cons c r, Γ, k => by
    simp only [compileFs]
    exact Nat.le_trans (compileCh_len c Γ) (compileFs_len r _ (k + 1))
theorem compileSq_len : (sq : Sq2) → (Γ : List String) → Γ.length ≤ (compileSq Γ sq).2.length
  | .last c, Γ => by simp only [compileSq]; exact compileCh_len c Γ
  | .cons c r, Γ => by
    simp only [compileSq]
    exact Nat.le_trans (compileCh_len c Γ) (compileSq_len r _)
end

/-- exits of the branches' main code: the parameter clear at `PC`, or a cleanup block (`lo ≤ pc < hi`),
always with the value on the stack and the block's locals plus the parameter -/
def BrExt (PC lo hi : Nat) (a1 : Ann) : Nat → Ann → Prop :=
  fun pc out => (pc = PC ∨ (lo ≤ pc ∧ pc < hi)) ∧ Fits out a1

theorem BrExt.fits {PC lo hi : Nat} {a1 : Ann} {pc : Nat} {out out' : Ann} (hf : Fits out' out)
    (h : BrExt PC lo hi a1 pc out) : BrExt PC lo hi a1 pc out' := ⟨h.1, hf.trans h.2⟩

theorem Flow.fitsBr {o : Nat} {A : List Ann} {PC lo hi : Nat} {a1 : Ann} {pc : Nat} {out out' : Ann}
    (hf : Fits out' out) (h : Flow o A (BrExt PC lo hi a1) pc out) : Flow o A (BrExt PC lo hi a1) pc out' := by
  rcases h with ⟨hin, y, hy, hfit⟩ | ⟨hout, hext⟩
  · exact Or.inl ⟨hin, y, hy, hf.trans hfit⟩
  · exact Or.inr ⟨hout, hext.fits hf⟩

section BrsStep
variable {P : Prog} {caps n o h nn : Nat}

/-- One more branch in front of the branches already typed: its code `br` goes in front of the main
code, its cleanup block (if it needs one) in front of the cleanup blocks. -/
theorem brs_step (hn : n < maxCode) {br rm rc : List Instr} {e : Ann} {Ab Amr : List Ann} {k k' d PC : Nat}
    (needs : Bool) (hk' : k' = if needs then k + 1 else k) (hd : d = if needs then 2 + 2 * k else 0)
    (hPC : PC = o + br.length + rm.length) (hbrne : br ≠ [])
    (hbr : Blk P caps n o br e Ab ⟨h + 1, nn + 1, .none⟩
      [(PC, ⟨h + 1, nn + 1, .none⟩), (PC + d, ⟨h + 1, nn + 1, .none⟩)])
    (hR : Seg P caps n (o + br.length) rm Amr
      (BrExt PC (PC + 2 + 2 * k') (PC + 2 + 2 * k' + rc.length) ⟨h + 1, nn + 1, .none⟩))
    (hE : Flow (o + br.length) Amr
      (BrExt PC (PC + 2 + 2 * k') (PC + 2 + 2 * k' + rc.length) ⟨h + 1, nn + 1, .none⟩) (o + br.length)
      ⟨h + 1, nn + 1, .none⟩)
    (hC : Seg P caps n (PC + 2 + 2 * k') rc (List.replicate rc.length ⟨h + 1, nn + 1, .none⟩)
      (fun pc out => Flow (o + br.length) Amr
        (BrExt PC (PC + 2 + 2 * k') (PC + 2 + 2 * k' + rc.length) ⟨h + 1, nn + 1, .none⟩) pc out))
    (hle : PC ≤ n) :
    ∃ Am, Seg P caps n o (br ++ rm) Am
        (BrExt PC (PC + 2 + 2 * k) (PC + 2 + 2 * k +
          ((if needs then [Instr.reset (nn + 1), .jump (-((rm.length + 2 * k + 4 : Nat) : Int))] else []) ++ rc).length)
          ⟨h + 1, nn + 1, .none⟩) ∧
      Flow o Am (BrExt PC (PC + 2 + 2 * k) (PC + 2 + 2 * k +
          ((if needs then [Instr.reset (nn + 1), .jump (-((rm.length + 2 * k + 4 : Nat) : Int))] else []) ++ rc).length)
          ⟨h + 1, nn + 1, .none⟩) o e ∧
      Seg P caps n (PC + 2 + 2 * k)
        ((if needs then [Instr.reset (nn + 1), .jump (-((rm.length + 2 * k + 4 : Nat) : Int))] else []) ++ rc)
        (List.replicate ((if needs then [Instr.reset (nn + 1), .jump (-((rm.length + 2 * k + 4 : Nat) : Int))] else []) ++ rc).length
          ⟨h + 1, nn + 1, .none⟩)
        (fun pc out => Flow o Am (BrExt PC (PC + 2 + 2 * k) (PC + 2 + 2 * k +
          ((if needs then [Instr.reset (nn + 1), .jump (-((rm.length + 2 * k + 4 : Nat) : Int))] else []) ++ rc).length)
          ⟨h + 1, nn + 1, .none⟩) pc out) := by
  unfold maxCode at hn
  have hlb := hbr.seg.len
  have hlr := hR.len
  have hbrpos : 0 < br.length := List.length_pos_iff.mpr hbrne
  generalize hcl : (if needs then [Instr.reset (nn + 1), .jump (-((rm.length + 2 * k + 4 : Nat) : Int))] else []) = cl at *
  have hcllen : cl.length = if needs then 2 else 0 := by
    rw [← hcl]; cases needs <;> rfl
  -- the two exit predicates
  have hhi : PC + 2 + 2 * k' + rc.length = PC + 2 + 2 * k + (cl ++ rc).length := by
    rw [List.length_append, hcllen, hk']; cases needs <;> simp <;> omega
  have hlo : PC + 2 + 2 * k ≤ PC + 2 + 2 * k' := by rw [hk']; cases needs <;> simp <;> omega
  rw [hhi] at hR hE hC
  generalize hHI : PC + 2 + 2 * k + (cl ++ rc).length = HI at *
  let a1 : Ann := ⟨h + 1, nn + 1, .none⟩
  have hsub : ∀ pc out, BrExt PC (PC + 2 + 2 * k') HI a1 pc out → BrExt PC (PC + 2 + 2 * k) HI a1 pc out := by
    intro pc out ⟨h1, h2⟩
    refine ⟨?_, h2⟩
    rcases h1 with h1 | h1
    · exact Or.inl h1
    · exact Or.inr ⟨by omega, h1.2⟩
  -- anything the rest's exit predicate accepts lies at or after PC
  have hnotin : ∀ pc out, BrExt PC (PC + 2 + 2 * k) HI a1 pc out → ¬ InR o (Ab ++ Amr).length pc := by
    intro pc out ⟨h1, _⟩ hin
    have := hin.2
    simp only [List.length_append, hlb, hlr] at this
    rcases h1 with h1 | h1 <;> omega
  -- a flow into the rest, seen from here
  have liftG : ∀ pc out, Flow (o + br.length) Amr (BrExt PC (PC + 2 + 2 * k') HI a1) pc out →
      Flow o (Ab ++ Amr) (BrExt PC (PC + 2 + 2 * k) HI a1) pc out := by
    intro pc out hf
    rcases hf with hh | ⟨_, he⟩
    · exact Or.inl (Hit.right (Hit.at hh (by rw [hlb])))
    · exact Or.inr ⟨hnotin _ _ (hsub _ _ he), hsub _ _ he⟩
  have hmid : ∀ out, Fits out a1 → Flow o (Ab ++ Amr) (BrExt PC (PC + 2 + 2 * k) HI a1) (o + br.length) out :=
    fun out hf => liftG _ _ (Flow.fitsBr hf hE)
  refine ⟨Ab ++ Amr, ?_, ?_, ?_⟩
  · -- main code
    refine Seg.append hbr.seg hR ?_ ?_
    · intro pc out _ hext
      obtain ⟨x, hx, hp, hfit⟩ := hext
      simp only [List.mem_cons, List.not_mem_nil, or_false] at hx
      rcases hx with rfl | rfl | rfl
      · rw [hp]; exact hmid out hfit
      · have hb' : BrExt PC (PC + 2 + 2 * k) HI a1 pc out := ⟨Or.inl hp, hfit⟩
        exact Or.inr ⟨hnotin _ _ hb', hb'⟩
      · have hb' : BrExt PC (PC + 2 + 2 * k) HI a1 pc out := by
          refine ⟨?_, hfit⟩
          simp only at hp
          cases needs with
          | true =>
            simp only [if_true] at hd hcllen
            right
            rw [List.length_append, hcllen] at hHI
            omega
          | false =>
            simp only [Bool.false_eq_true, if_false] at hd
            left; omega
        exact Or.inr ⟨hnotin _ _ hb', hb'⟩
    · intro pc out _ hext
      exact Or.inr ⟨hnotin _ _ (hsub _ _ hext), hsub _ _ hext⟩
  · -- entry
    refine hbr.entry.lift_left ?_
    intro hout _
    exact absurd ⟨Nat.le_refl _, by omega⟩ hout
  · -- cleanup blocks
    cases needs with
    | false =>
      simp only [Bool.false_eq_true, if_false] at hcl hk'
      subst hcl hk'
      simp only [List.nil_append]
      exact hC.mono (fun pc out _ hf => liftG pc out hf)
    | true =>
      simp only [if_true] at hcl hk' hd
      subst hcl hk'
      simp only [List.length_append, List.length_cons, List.length_nil] at hHI
      have hrep : List.replicate ([Instr.reset (nn + 1), .jump (-((rm.length + 2 * k + 4 : Nat) : Int))] ++ rc).length a1 =
          [a1] ++ ([a1] ++ List.replicate rc.length a1) := by
        simp [List.replicate_succ]
      rw [hrep]
      -- the flows out of the rest's cleanup blocks, seen from this one's
      have hGG : ∀ (lo' : Nat) (A : List Ann) pc out, ¬ InR lo' A.length pc →
          Flow o (Ab ++ Amr) (BrExt PC (PC + 2 + 2 * k) HI a1) pc out →
          Flow lo' A (fun pc out => Flow o (Ab ++ Amr) (BrExt PC (PC + 2 + 2 * k) HI a1) pc out) pc out :=
        fun lo' A pc out hni hf => Or.inr ⟨hni, hf⟩
      have S1 : Seg P caps n (PC + 2 + 2 * k) [Instr.reset (nn + 1)] [a1]
          (fun pc out => pc = PC + 2 + 2 * k + 1 ∧ Fits out a1) :=
        Seg.one (succs := [(PC + 2 + 2 * k + 1, ⟨h + 1, nn + 1, .none⟩)]) (by simp [transfer, a1]) (by
          intro s hs
          simp only [List.mem_singleton] at hs
          subst hs
          exact ⟨by simp only; omega, rfl, Fits.refl _⟩)
      have S2 : Seg P caps n (PC + 2 + 2 * k + 1) [Instr.jump (-((rm.length + 2 * k + 4 : Nat) : Int))] [a1]
          (fun pc out => pc = o + br.length ∧ Fits out a1) :=
        Seg.one (transfer_jump (t := o + br.length) (by push_cast; omega) (by omega) (by omega)) (by
          intro s hs
          simp only [List.mem_singleton] at hs
          subst hs
          exact ⟨by simp only; omega, rfl, Fits.refl _⟩)
      have hC' : Seg P caps n (PC + 2 + 2 * k + 1 + [Instr.jump (-((rm.length + 2 * k + 4 : Nat) : Int))].length) rc
          (List.replicate rc.length a1)
          (fun pc out => Flow (o + br.length) Amr (BrExt PC (PC + 2 + 2 * (k + 1)) HI a1) pc out) := by
        have : PC + 2 + 2 * k + 1 + [Instr.jump (-((rm.length + 2 * k + 4 : Nat) : Int))].length = PC + 2 + 2 * (k + 1) := by
          simp only [List.length_cons, List.length_nil]; omega
        rw [this]; exact hC
      have S23 : Seg P caps n (PC + 2 + 2 * k + 1) ([Instr.jump (-((rm.length + 2 * k + 4 : Nat) : Int))] ++ rc)
          ([a1] ++ List.replicate rc.length a1)
          (fun pc out => Flow o (Ab ++ Amr) (BrExt PC (PC + 2 + 2 * k) HI a1) pc out) := by
        refine Seg.append S2 hC' ?_ ?_
        · intro pc out _ ⟨hp, hfit⟩
          refine hGG _ _ _ _ ?_ (hp ▸ hmid out hfit)
          rw [hp]; simp only [InR]; omega
        · intro pc out hni hf
          have hni' : ¬ InR (PC + 2 + 2 * k + 1) ([a1] ++ List.replicate rc.length a1).length pc := by
            intro hin
            simp only [List.length_append, List.length_cons, List.length_nil, List.length_replicate] at hin hni
            rcases hf with hh | ⟨_, ⟨h1, _⟩⟩
            · have := hh.1.2
              have := hin.1
              omega
            · apply hni
              have := hin.1
              have := hin.2
              rcases h1 with h1 | h1
              · omega
              · exact ⟨by omega, by omega⟩
          exact hGG _ _ _ _ hni' (liftG _ _ hf)
      have hS1' : Seg P caps n (PC + 2 + 2 * k + [Instr.reset (nn + 1)].length)
          ([Instr.jump (-((rm.length + 2 * k + 4 : Nat) : Int))] ++ rc) ([a1] ++ List.replicate rc.length a1)
          (fun pc out => Flow o (Ab ++ Amr) (BrExt PC (PC + 2 + 2 * k) HI a1) pc out) := S23
      show Seg P caps n _ ([Instr.reset (nn + 1)] ++ ([Instr.jump (-((rm.length + 2 * k + 4 : Nat) : Int))] ++ rc)) _ _
      refine Seg.append S1 hS1' ?_ ?_
      · intro pc out _ ⟨hp, hfit⟩
        rw [hp]
        exact Or.inl (Hit.right (Hit.head hfit))
      · intro pc out hni hf
        by_cases hpc : pc = PC + 2 + 2 * k
        · -- the start of this cleanup block: inside the exit range of the main code
          have hfit : Fits out a1 := by
            rcases hf with hh | ⟨_, hb'⟩
            · have := hh.1.2
              simp only [List.length_append, hlb, hlr] at this
              omega
            · exact hb'.2
          rw [hpc]
          exact Or.inl (Hit.head hfit)
        · refine hGG _ _ _ _ ?_ hf
          intro hin
          apply hni
          simp only [List.length_append, List.length_cons, List.length_nil, List.length_replicate] at hin ⊢
          have := hin.1
          have := hin.2
          exact ⟨by omega, by omega⟩

/-- compile_scoped_expression: `Store`, the branches, the parameter clear `Reset(n)`, the jump over
the cleanup blocks, the cleanup blocks. The block leaves the locals as it found them. -/
theorem block_blk (hn : n < maxCode) {main cleanup : List Instr} {Am : List Ann} {PC : Nat}
    (hPC : PC = o + 1 + main.length)
    (hM : Seg P caps n (o + 1) main Am (BrExt PC (PC + 2 + 2 * 0) (PC + 2 + 2 * 0 + cleanup.length) ⟨h + 1, nn + 1, .none⟩))
    (hE : Flow (o + 1) Am (BrExt PC (PC + 2 + 2 * 0) (PC + 2 + 2 * 0 + cleanup.length) ⟨h + 1, nn + 1, .none⟩) (o + 1)
      ⟨h, nn + 1, .none⟩)
    (hC : Seg P caps n (PC + 2 + 2 * 0) cleanup (List.replicate cleanup.length ⟨h + 1, nn + 1, .none⟩)
      (fun pc out => Flow (o + 1) Am (BrExt PC (PC + 2 + 2 * 0) (PC + 2 + 2 * 0 + cleanup.length) ⟨h + 1, nn + 1, .none⟩) pc out))
    (hle : o + ([Instr.store] ++ (main ++ ([Instr.reset nn] ++
      ((if cleanup = [] then [] else [Instr.jump ((cleanup.length : Nat) : Int)]) ++ cleanup)))).length ≤ n) :
    ∃ A, Blk P caps n o ([Instr.store] ++ (main ++ ([Instr.reset nn] ++
      ((if cleanup = [] then [] else [Instr.jump ((cleanup.length : Nat) : Int)]) ++ cleanup))))
      ⟨h + 1, nn, .none⟩ A ⟨h + 1, nn, .none⟩ [] := by
  unfold maxCode at hn
  simp only [Nat.mul_zero, Nat.add_zero] at hM hE hC
  have hlm := hM.len
  let a1 : Ann := ⟨h + 1, nn + 1, .none⟩
  let aS : Ann := ⟨h + 1, nn, .none⟩
  let bOut : Ann := ⟨h + 1, nn, .none⟩
  -- the `Store` of the parameter, in front of anything whose first annotation accepts the entry state
  have hstore : ∀ (rest : List Instr) (Ar : List Ann) (END : Nat),
      Seg P caps n (o + 1) rest Ar (Exits [(END, bOut)]) → END = o + 1 + rest.length →
      (∀ out, Fits out ⟨h, nn + 1, .none⟩ → Hit (o + 1) Ar (o + 1) out) →
      Blk P caps n o ([Instr.store] ++ rest) aS ([aS] ++ Ar) bOut [] := by
    intro rest Ar END hrest hEND hent
    have hlr := hrest.len
    have S0 : Seg P caps n o [Instr.store] [aS] (fun pc out => pc = o + 1 ∧ Fits out ⟨h, nn + 1, .none⟩) :=
      Seg.one (succs := [(o + 1, ⟨h, nn + 1, .none⟩)]) (by simp [transfer, aS]) (by
        intro s hs
        simp only [List.mem_singleton] at hs
        subst hs
        exact ⟨by simp, rfl, Fits.refl _⟩)
    have hend : o + ([Instr.store] ++ rest).length = END := by
      simp only [List.length_append, List.length_cons, List.length_nil]; omega
    refine ⟨Seg.append S0 hrest ?_ ?_, Or.inl (Hit.head (Fits.refl _))⟩
    · intro pc out _ ⟨hp, hfit⟩
      rw [hp]
      exact Or.inl (Hit.right (hent out hfit))
    · intro pc out hni ⟨x, hx, hp, hfit⟩
      simp only [List.mem_singleton] at hx
      subst hx
      refine Or.inr ⟨?_, (END, bOut), by rw [hend]; exact List.mem_cons_self, hp, hfit⟩
      simp only [InR, List.length_append, List.length_cons, List.length_nil, hlr]
      simp only at hp
      omega
  -- the entry state of the first branch hits the main code
  have hent : ∀ (A2 : List Ann) out, Fits out ⟨h, nn + 1, .none⟩ → Hit (o + 1) (Am ++ A2) (o + 1) out := by
    intro A2 out hf
    rcases hE with hh | ⟨_, hb⟩
    · obtain ⟨hin, x, hx, hfit⟩ := hh
      exact Hit.left ⟨hin, x, hx, hf.trans hfit⟩
    · have := hb.2.1
      simp only at this
      omega
  by_cases hcl : cleanup = []
  · -- no cleanup blocks: the parameter clear is the last instruction
    subst hcl
    simp only [if_true, List.append_nil, List.length_nil, Nat.add_zero] at hM hE hle ⊢
    have S1 : Seg P caps n (o + 1 + main.length) [Instr.reset nn] [a1] (fun pc out => pc = PC + 1 ∧ Fits out bOut) :=
      Seg.one (succs := [(o + 1 + main.length + 1, ⟨h + 1, nn, .none⟩)]) (by simp [transfer, a1]) (by
        intro s hs
        simp only [List.mem_singleton] at hs
        subst hs
        exact ⟨by simp, by simp only; omega, Fits.refl _⟩)
    have hrest : Seg P caps n (o + 1) (main ++ [Instr.reset nn]) (Am ++ [a1]) (Exits [(PC + 1, bOut)]) := by
      refine Seg.append hM S1 ?_ ?_
      · intro pc out _ ⟨h1, hfit⟩
        rcases h1 with h1 | h1
        · rw [h1]
          exact Or.inl (Hit.right (Hit.at (Hit.head hfit) (by omega)))
        · omega
      · intro pc out hni ⟨hp, hfit⟩
        refine Or.inr ⟨?_, _, List.mem_cons_self, hp, hfit⟩
        simp only [InR, List.length_append, List.length_cons, List.length_nil, hlm]
        omega
    exact ⟨_, hstore _ _ (PC + 1) hrest (by simp only [List.length_append, List.length_cons, List.length_nil]; omega)
      (hent _)⟩
  · -- cleanup blocks after the parameter clear and the jump over them
    simp only [hcl, if_false] at hle ⊢
    have hclpos : 0 < cleanup.length := List.length_pos_iff.mpr hcl
    simp only [List.length_append, List.length_cons, List.length_nil] at hle
    generalize hEND : PC + 2 + cleanup.length = END at *
    -- Jump(over the cleanup blocks) ++ cleanup blocks
    have S2 : Seg P caps n (PC + 1) [Instr.jump ((cleanup.length : Nat) : Int)] [bOut]
        (fun pc out => pc = END ∧ Fits out bOut) :=
      Seg.one (transfer_jump (t := END) (by push_cast; omega) (by omega) (by omega)) (by
        intro s hs
        simp only [List.mem_singleton] at hs
        subst hs
        exact ⟨by simp only; omega, rfl, Fits.refl _⟩)
    let extJ : Nat → Ann → Prop := fun pc out => (pc = END ∧ Fits out bOut) ∨
      (pc ≤ PC ∧ Flow (o + 1) Am (BrExt PC (PC + 2) END a1) pc out)
    have SJ : Seg P caps n (PC + 1) ([Instr.jump ((cleanup.length : Nat) : Int)] ++ cleanup)
        ([bOut] ++ List.replicate cleanup.length a1) extJ := by
      refine Seg.append S2 (by simpa only [List.length_cons, List.length_nil] using hC) ?_ ?_
      · intro pc out _ ⟨hp, hfit⟩
        refine Or.inr ⟨?_, Or.inl ⟨hp, hfit⟩⟩
        simp only [InR, List.length_append, List.length_cons, List.length_nil, List.length_replicate]
        omega
      · intro pc out hni hf
        simp only [List.length_cons, List.length_nil, List.length_replicate] at hni
        have hle' : pc ≤ PC := by
          rcases hf with hh | ⟨_, ⟨h1, _⟩⟩
          · have := hh.1.2
            omega
          · rcases h1 with h1 | h1
            · omega
            · exact absurd ⟨by omega, by omega⟩ hni
        refine Or.inr ⟨?_, Or.inr ⟨hle', hf⟩⟩
        simp only [InR]
        omega
    -- the parameter clear in front
    have S1 : Seg P caps n PC [Instr.reset nn] [a1] (fun pc out => pc = PC + 1 ∧ Fits out bOut) :=
      Seg.one (succs := [(PC + 1, ⟨h + 1, nn, .none⟩)]) (by simp [transfer, a1]) (by
        intro s hs
        simp only [List.mem_singleton] at hs
        subst hs
        exact ⟨by simp, rfl, Fits.refl _⟩)
    let extR : Nat → Ann → Prop := fun pc out => (pc = END ∧ Fits out bOut) ∨
      (pc < PC ∧ Flow (o + 1) Am (BrExt PC (PC + 2) END a1) pc out)
    have SR : Seg P caps n PC ([Instr.reset nn] ++ ([Instr.jump ((cleanup.length : Nat) : Int)] ++ cleanup))
        ([a1] ++ ([bOut] ++ List.replicate cleanup.length a1)) extR := by
      refine Seg.append S1 (by simpa only [List.length_cons, List.length_nil] using SJ) ?_ ?_
      · intro pc out _ ⟨hp, hfit⟩
        rw [hp]
        exact Or.inl (Hit.right (Hit.head hfit))
      · intro pc out hni hx
        simp only [List.length_append, List.length_cons, List.length_nil, List.length_replicate] at hni
        rcases hx with ⟨hp, hfit⟩ | ⟨hp, hf⟩
        · refine Or.inr ⟨?_, Or.inl ⟨hp, hfit⟩⟩
          simp only [InR, List.length_append, List.length_cons, List.length_nil, List.length_replicate]
          omega
        · by_cases hpc : pc = PC
          · have hfit : Fits out a1 := by
              rcases hf with hh | ⟨_, hb⟩
              · have := hh.1.2; omega
              · exact hb.2
            rw [hpc]
            exact Or.inl (Hit.head hfit)
          · refine Or.inr ⟨?_, Or.inr ⟨by omega, hf⟩⟩
            simp only [InR]
            omega
    have hrest : Seg P caps n (o + 1)
        (main ++ ([Instr.reset nn] ++ ([Instr.jump ((cleanup.length : Nat) : Int)] ++ cleanup)))
        (Am ++ ([a1] ++ ([bOut] ++ List.replicate cleanup.length a1))) (Exits [(END, bOut)]) := by
      refine Seg.append hM (by rw [← hPC]; exact SR) ?_ ?_
      · intro pc out _ ⟨h1, hfit⟩
        rcases h1 with h1 | h1
        · rw [h1]
          exact Or.inl (Hit.right (Hit.at (Hit.head hfit) (by omega)))
        · refine Or.inl (Hit.right (Hit.right (Hit.right (Hit.replicate ?_ hfit))))
          simp only [InR, List.length_cons, List.length_nil]
          omega
      · intro pc out hni hx
        rcases hx with ⟨hp, hfit⟩ | ⟨hp, hf⟩
        · refine Or.inr ⟨?_, _, List.mem_cons_self, hp, hfit⟩
          simp only [InR, List.length_append, List.length_cons, List.length_nil, List.length_replicate, hlm]
          omega
        · rcases hf with hh | ⟨_, ⟨h1, _⟩⟩
          · exact Or.inl (Hit.left hh)
          · rcases h1 with h1 | h1 <;> omega
    exact ⟨_, hstore _ _ END hrest (by simp only [List.length_append, List.length_cons, List.length_nil]; omega)
      (hent _)⟩

end BrsStep

/-! ### `compileBrs`, one branch unfolded (main code = this branch's code ++ the later branches') -/

theorem compileBrs_none_eq (Γp : List String) (nn k : Nat) (first : Bool) (cond : Sq2) (rest : Brs2) :
    compileBrs Γp nn (.cons cond .none rest) k first =
      (((if first then [] else [Instr.pop]) ++ ([Instr.load nn] ++ ((compileSq Γp cond).1 ++
          (resetIf (compileSq Γp cond).2.length nn ++
            (if rest.isNil then [] else [Instr.duplicate, .jumpIf ((compileBrs Γp nn rest k false).1.length : Int)]))))) ++
        (compileBrs Γp nn rest k false).1,
       (compileBrs Γp nn rest k false).2) := by
  simp [compileBrs, List.append_assoc]

theorem compileBrs_some_eq (Γp : List String) (nn k : Nat) (first : Bool) (cond cons : Sq2) (rest : Brs2) :
    compileBrs Γp nn (.cons cond (.some cons) rest) k first =
      let needs : Bool := decide ((compileSq Γp cond).2.length > nn + 1)
      let r := compileBrs Γp nn rest (if needs then k + 1 else k) false
      let cc := compileSq (compileSq Γp cond).2 cons
      let ej : List Instr := if rest.isNil then [] else [Instr.jump (r.1.length : Int)]
      let tailLen : Nat := 2 + cc.1.length + (resetIf cc.2.length nn).length + ej.length
      let off : Nat := if needs then tailLen + r.1.length + 2 + 2 * k else tailLen
      (((if first then [] else [Instr.pop]) ++ ([Instr.load nn] ++ ((compileSq Γp cond).1 ++
          ([Instr.duplicate, .not, .jumpIf (off : Int)] ++
            ([Instr.pop, .load nn] ++ (cc.1 ++ (resetIf cc.2.length nn ++ ej))))))) ++ r.1,
       (if needs then [Instr.reset (nn + 1), .jump (-((r.1.length + 2 * k + 4 : Nat) : Int))] else []) ++ r.2) := by
  simp [compileBrs, List.append_assoc]

/-! ### Terms, chains, fields, sequences, branches -/

section Compile
variable {P : Prog} {caps n : Nat}

mutual
theorem compileT_blk (hn : n < maxCode) (hP : wfProg P) : (t : T2) → (Γ : List String) → (o h : Nat) →
    wfT P t → scT Γ t → o + (compileT Γ t).1.length ≤ n →
    ∃ A, Blk P caps n o (compileT Γ t).1 ⟨h + 1, Γ.length, .none⟩ A
      ⟨h + 1, (compileT Γ t).2.length, .none⟩ []
  | .int z i, Γ, o, h, hw, _, _ => by
    have hi : i < P.constants.size := (Array.getElem?_eq_some_iff.mp hw).1
    exact ⟨_, Blk.seq (c1 := [.pop]) Blk.pop (Blk.constant hi) (by simp)⟩
  | .ripple, Γ, o, h, _, _, _ => ⟨[], Blk.empty (Fits.refl _)⟩
  | .tup id fs, Γ, o, h, hw, hs, hle => by
    simp only [compileT, List.length_append, List.length_cons, List.length_nil] at hle ⊢
    obtain ⟨A1, h1⟩ := compileFs_blk hn hP fs Γ 0 o h hw.2 hs (by omega)
    refine ⟨_, Blk.seq h1
      (Blk.seq (c1 := [.tuple id]) (Blk.tuple (h' := h + 1) hw.1 (by omega))
        (Blk.seq (c1 := [.rotate 2]) Blk.rotate2 Blk.pop (by simp)) (by simp)) (by simp)⟩
  | .var x, Γ, o, h, _, hs, _ => by
    obtain ⟨i, hi⟩ := hs
    simp only [compileT, hi, Option.getD_some]
    exact ⟨_, Blk.seq (c1 := [.pop]) Blk.pop (Blk.load (F1.slot_lt Γ x i hi)) (by simp)⟩
  | .mtch p, Γ, o, h, hw, _, hle => by
    simp only [compileT, List.length_append] at hle ⊢
    exact F1.compilePat_blk hn hP p hw hle
  | .block bs, Γ, o, h, hw, hs, hle => by
    rcases hr : compileBrs (Γ ++ [""]) Γ.length bs 0 true with ⟨main, cleanup⟩
    simp only [compileT, hr] at hle ⊢
    have hle' := hle
    simp only [List.length_append, List.length_cons, List.length_nil] at hle'
    have hjl : (if cleanup = [] then [] else [Instr.jump ((cleanup.length : Nat) : Int)]).length ≤ 1 := by
      split <;> simp
    have hjl' : cleanup ≠ [] → (if cleanup = [] then [] else [Instr.jump ((cleanup.length : Nat) : Int)]).length = 1 := by
      intro hne; simp [hne]
    have hcl0 : cleanup = [] → cleanup.length = 0 := by intro hc; simp [hc]
    obtain ⟨Am, hM, hE, hC⟩ := compileBrs_typed hn hP bs (Γ ++ [""]) Γ.length 0 true (o + 1) h main cleanup
      hw.2 hs (by simp) (fun _ => hw.1) hr (by omega) (by intro hc; have := hjl' hc; omega)
    simp only [brEntry, if_true] at hE
    exact block_blk hn (PC := o + 1 + main.length) rfl hM hE hC hle
theorem compileCh_blk (hn : n < maxCode) (hP : wfProg P) : (c : Ch2) → (Γ : List String) → (o h : Nat) →
    wfCh P c → scCh Γ c → o + (compileCh Γ c).1.length ≤ n →
    ∃ A, Blk P caps n o (compileCh Γ c).1 ⟨h + 1, Γ.length, .none⟩ A
      ⟨h + 1, (compileCh Γ c).2.length, .none⟩ []
  | .nil, Γ, o, h, _, _, _ => ⟨[], Blk.empty (Fits.refl _)⟩
  | .cons t r, Γ, o, h, hw, hs, hle => by
    simp only [compileCh, List.length_append] at hle ⊢
    obtain ⟨A1, h1⟩ := compileT_blk hn hP t Γ o h hw.1 hs.1 (by omega)
    obtain ⟨A2, h2⟩ := compileCh_blk hn hP r (compileT Γ t).2 (o + (compileT Γ t).1.length) h hw.2 hs.2 (by omega)
    exact ⟨_, Blk.seq h1 h2 (by simp)⟩
theorem compileFs_blk (hn : n < maxCode) (hP : wfProg P) : (fs : Fs2) → (Γ : List String) → (k o h : Nat) →
    wfFs P fs → scFs Γ fs → o + (compileFs Γ fs k).1.length ≤ n →
    ∃ A, Blk P caps n o (compileFs Γ fs k).1 ⟨h + 1 + k, Γ.length, .none⟩ A
      ⟨h + 1 + k + fs.length, (compileFs Γ fs k).2.length, .none⟩ []
  | .nil, Γ, k, o, h, _, _, _ => ⟨[], Blk.empty (Fits.refl _)⟩
  | .cons c r, Γ, k, o, h, hw, hs, hle => by
    simp only [compileFs, List.length_append, List.length_cons, List.length_nil] at hle ⊢
    obtain ⟨A1, h1⟩ := compileCh_blk hn hP c Γ (o + 1) (h + 1 + k) hw.1 hs.1 (by omega)
    obtain ⟨A2, h2⟩ := compileFs_blk hn hP r (compileCh Γ c).2 (k + 1) (o + 1 + (compileCh Γ c).1.length) h hw.2 hs.2 (by omega)
    have e1 : (⟨h + 1 + (k + 1), (compileCh Γ c).2.length, .none⟩ : Ann) = ⟨h + 1 + k + 1, (compileCh Γ c).2.length, .none⟩ := rfl
    have e2 : (⟨h + 1 + (k + 1) + r.length, (compileFs (compileCh Γ c).2 r (k + 1)).2.length, .none⟩ : Ann) =
        ⟨h + 1 + k + (Fs2.cons c r).length, (compileFs (compileCh Γ c).2 r (k + 1)).2.length, .none⟩ := by
      simp only [Fs2.length]
      congr 1
      omega
    exact ⟨_, Blk.seq (Blk.seq (c1 := [.pick k]) (Blk.pick (by omega)) h1 (by simp))
      ((h2.cast e1 e2).at (by simp only [List.length_append, List.length_cons, List.length_nil]; omega)) (by simp)⟩
theorem compileSq_blk (hn : n < maxCode) (hP : wfProg P) : (sq : Sq2) → (Γ : List String) → (o h l0 : Nat) →
    wfSq P sq → scSq Γ sq → l0 ≤ Γ.length → o + (compileSq Γ sq).1.length ≤ n →
    ∃ A, Blk P caps n o (compileSq Γ sq).1 ⟨h + 1, Γ.length, .none⟩ A
      ⟨h + 1, l0, .top (compileSq Γ sq).2.length⟩ []
  | .last c, Γ, o, h, l0, hw, hs, hl0, hle => by
    simp only [compileSq] at hle ⊢
    obtain ⟨A, hA⟩ := compileCh_blk hn hP c Γ o h hw hs hle
    refine ⟨A, hA.exit ⟨rfl, Nat.le_trans hl0 (compileCh_len c Γ), ?_⟩⟩
    simp [guardFlows, Ann.eff]
  | .cons c r, Γ, o, h, l0, hw, hs, hl0, hle => by
    simp only [compileSq, List.length_append, List.length_cons, List.length_nil] at hle ⊢
    have hmono := compileCh_len c Γ
    obtain ⟨A1, h1⟩ := compileCh_blk hn hP c Γ o h hw.1 hs.1 (by omega)
    obtain ⟨A2, h2⟩ := compileSq_blk hn hP r (compileCh Γ c).2
      (o + (compileCh Γ c).1.length + [Instr.duplicate, .not, .jumpIf ((compileSq (compileCh Γ c).2 r).1.length : Int)].length)
      h l0 hw.2 hs.2 (by omega) (by simp only [List.length_cons, List.length_nil]; omega)
    generalize hE : o + (compileCh Γ c).1.length + 3 + (compileSq (compileCh Γ c).2 r).1.length = E at *
    let bE : Ann := ⟨h + 1, l0, .top (compileSq (compileCh Γ c).2 r).2.length⟩
    have hj : Blk P caps n (o + (compileCh Γ c).1.length)
        [.duplicate, .not, .jumpIf ((compileSq (compileCh Γ c).2 r).1.length : Int)]
        ⟨h + 1, (compileCh Γ c).2.length, .none⟩
        [⟨h + 1, (compileCh Γ c).2.length, .none⟩, ⟨h + 2, (compileCh Γ c).2.length, .dup (compileCh Γ c).2.length⟩,
          ⟨h + 2, (compileCh Γ c).2.length, .neg (compileCh Γ c).2.length⟩]
        ⟨h + 1, (compileCh Γ c).2.length, .none⟩ [(E, bE)] := by
      unfold maxCode at hn
      refine Blk.seq (c1 := [.duplicate]) Blk.duplicateG
        (Blk.seq (c1 := [.not]) Blk.notG
          (Blk.instr (transfer_jumpIf_neg (t := E) ?_ (by omega) (by omega)) ?_) ?_) ?_
      · simp only [List.length_cons, List.length_nil]; omega
      · intro s hs'
        simp only [List.mem_cons, List.not_mem_nil, or_false] at hs'
        rcases hs' with rfl | rfl
        · refine ⟨by simp only [List.length_cons, List.length_nil]; omega, (E, bE),
            List.mem_cons_of_mem _ List.mem_cons_self, rfl, rfl, Nat.le_trans hl0 hmono, ?_⟩
          simp [guardFlows, bE]
        · refine ⟨by simp, _, List.mem_cons_self, rfl, Fits.plain rfl ?_⟩
          simp
      all_goals
        (intro e he
         simp only [List.mem_singleton] at he
         subst he
         outside)
    have h12 := Blk.seq (h1.weaken (X' := [(E, bE)]) (by intro e he; cases he)) hj (by
      intro e he
      simp only [List.mem_singleton] at he
      subst he
      outside)
    have h123 := Blk.seq h12 ((h2.weaken (X' := [(E, bE)]) (by intro e he; cases he)).at
        (by simp only [List.length_append, List.length_cons, List.length_nil]; omega)) (by
      intro e he
      simp only [List.mem_singleton] at he
      subst he
      outside)
    have hEnd : o + ((compileCh Γ c).1 ++ [Instr.duplicate, .not, .jumpIf ((compileSq (compileCh Γ c).2 r).1.length : Int)] ++
        (compileSq (compileCh Γ c).2 r).1).length = E := by
      simp only [List.length_append, List.length_cons, List.length_nil]; omega
    rw [← hEnd] at h123
    have hassoc : (compileCh Γ c).1 ++ ([Instr.duplicate, .not, .jumpIf ((compileSq (compileCh Γ c).2 r).1.length : Int)] ++
        (compileSq (compileCh Γ c).2 r).1) = (compileCh Γ c).1 ++ [Instr.duplicate, .not, .jumpIf ((compileSq (compileCh Γ c).2 r).1.length : Int)] ++
        (compileSq (compileCh Γ c).2 r).1 := by simp
    rw [hassoc]
    exact ⟨_, h123.absorb⟩
/-- The branches: main code at `o` (it ends exactly at the parameter clear `PC`), cleanup blocks at
`PC + 2 + 2k`; each cleanup block jumps back INTO the main code (the next branch), so its exits are
typed against the main code's annotations. -/
theorem compileBrs_typed (hn : n < maxCode) (hP : wfProg P) : (bs : Brs2) → (Γp : List String) → (nn k : Nat) →
    (first : Bool) → (o h : Nat) → (main cleanup : List Instr) →
    wfBrs P bs → scBrs Γp bs → Γp.length = nn + 1 → (first = true → bs.isNil = false) →
    compileBrs Γp nn bs k first = (main, cleanup) →
    o + main.length ≤ n → (cleanup ≠ [] → o + main.length + 2 + 2 * k + cleanup.length ≤ n) →
    ∃ Am, Seg P caps n o main Am
        (BrExt (o + main.length) (o + main.length + 2 + 2 * k) (o + main.length + 2 + 2 * k + cleanup.length)
          ⟨h + 1, nn + 1, .none⟩) ∧
      Flow o Am (BrExt (o + main.length) (o + main.length + 2 + 2 * k) (o + main.length + 2 + 2 * k + cleanup.length)
          ⟨h + 1, nn + 1, .none⟩) o (brEntry first h nn) ∧
      Seg P caps n (o + main.length + 2 + 2 * k) cleanup (List.replicate cleanup.length ⟨h + 1, nn + 1, .none⟩)
        (fun pc out => Flow o Am (BrExt (o + main.length) (o + main.length + 2 + 2 * k)
          (o + main.length + 2 + 2 * k + cleanup.length) ⟨h + 1, nn + 1, .none⟩) pc out)
  | .nil, Γp, nn, k, first, o, h, main, cleanup, _, _, _, hne, heq, _, _ => by
    simp only [compileBrs, Prod.mk.injEq] at heq
    obtain ⟨rfl, rfl⟩ := heq
    have hf : first = false := by
      cases first with
      | false => rfl
      | true => simpa [Brs2.isNil] using hne rfl
    subst hf
    refine ⟨[], Seg.nil, Or.inr ⟨by simp [InR], Or.inl (by simp), ?_⟩, Seg.nil⟩
    simp only [brEntry]
    exact Fits.refl _
  | .cons cond .none rest, Γp, nn, k, first, o, h, main, cleanup, hw, hs, hΓ, _, heq, hle1, hle2 => by
    rcases hr : compileBrs Γp nn rest k false with ⟨rm, rc⟩
    rw [compileBrs_none_eq, hr] at heq
    simp only [Prod.mk.injEq] at heq
    obtain ⟨rfl, rfl⟩ := heq
    generalize hbr : (if first then [] else [Instr.pop]) ++ ([Instr.load nn] ++ ((compileSq Γp cond).1 ++
          (resetIf (compileSq Γp cond).2.length nn ++
            (if rest.isNil then [] else [Instr.duplicate, .jumpIf (rm.length : Int)])))) = br at *
    simp only [List.length_append] at hle1 hle2
    have hbrlen : br.length = (if first then [] else [Instr.pop]).length + (1 + ((compileSq Γp cond).1.length +
        ((resetIf (compileSq Γp cond).2.length nn).length +
          (if rest.isNil then [] else [Instr.duplicate, Instr.jumpIf (rm.length : Int)]).length))) := by
      rw [← hbr]; simp only [List.length_append, List.length_cons, List.length_nil]
    obtain ⟨Amr, hR, hE, hC⟩ := compileBrs_typed hn hP rest Γp nn k false (o + br.length) h rm rc hw.2 hs.2 hΓ
      (by simp) hr (by omega) (by intro hne; have := hle2 hne; omega)
    obtain ⟨Apre, hpre⟩ := brPre_blk (P := P) (caps := caps) (n := n) (o := o) (X := []) first h nn
    obtain ⟨Ac, hc⟩ := compileSq_blk hn hP cond Γp (o + (if first then [] else [Instr.pop]).length + 1) h (nn + 1)
      hw.1 hs.1 (by omega) (by omega)
    rw [hΓ] at hc
    obtain ⟨Ab, hb⟩ := branch_none_blk hn (rl := rm.length) rest.isNil hpre hc (by rw [hbr]; omega)
    rw [hbr] at hb
    have hb' := hb.weaken (X' := [(o + br.length + rm.length, ⟨h + 1, nn + 1, .none⟩),
        (o + br.length + rm.length + 0, ⟨h + 1, nn + 1, .none⟩)]) (by
      intro e he; simp only [List.mem_singleton] at he; subst he; exact List.mem_cons_self)
    have hbrne : br ≠ [] := by
      intro hh
      rw [hh] at hbrlen
      simp only [List.length_nil] at hbrlen
      omega
    have hpos : o + (br ++ rm).length = o + br.length + rm.length := by rw [List.length_append]; omega
    rw [hpos]
    have := brs_step (P := P) (caps := caps) (n := n) hn (k := k) (k' := k) (d := 0) (PC := o + br.length + rm.length)
      false rfl rfl rfl hbrne hb' hR hE hC (by omega)
    simpa only [Bool.false_eq_true, if_false, List.nil_append] using this
  | .cons cond (.some cons) rest, Γp, nn, k, first, o, h, main, cleanup, hw, hs, hΓ, _, heq, hle1, hle2 => by
    rw [compileBrs_some_eq] at heq
    simp only at heq
    generalize hneeds : decide ((compileSq Γp cond).2.length > nn + 1) = needs at heq
    rcases hr : compileBrs Γp nn rest (if needs then k + 1 else k) false with ⟨rm, rc⟩
    rw [hr] at heq
    simp only [Prod.mk.injEq] at heq
    obtain ⟨rfl, rfl⟩ := heq
    have hg := compileSq_len cond Γp
    rw [hΓ] at hg
    generalize hoff : (if needs then 2 + (compileSq (compileSq Γp cond).2 cons).1.length +
        (resetIf (compileSq (compileSq Γp cond).2 cons).2.length nn).length +
        (if rest.isNil then [] else [Instr.jump (rm.length : Int)]).length + rm.length + 2 + 2 * k
      else 2 + (compileSq (compileSq Γp cond).2 cons).1.length +
        (resetIf (compileSq (compileSq Γp cond).2 cons).2.length nn).length +
        (if rest.isNil then [] else [Instr.jump (rm.length : Int)]).length) = off at *
    generalize hbr : (if first then [] else [Instr.pop]) ++ ([Instr.load nn] ++ ((compileSq Γp cond).1 ++
          ([Instr.duplicate, .not, .jumpIf (off : Int)] ++
            ([Instr.pop, .load nn] ++ ((compileSq (compileSq Γp cond).2 cons).1 ++
              (resetIf (compileSq (compileSq Γp cond).2 cons).2.length nn ++
                (if rest.isNil then [] else [Instr.jump (rm.length : Int)]))))))) = br at *
    have hbrlen : br.length = (if first then [] else [Instr.pop]).length + (1 + ((compileSq Γp cond).1.length +
        (3 + (2 + ((compileSq (compileSq Γp cond).2 cons).1.length +
          ((resetIf (compileSq (compileSq Γp cond).2 cons).2.length nn).length +
            (if rest.isNil then [] else [Instr.jump (rm.length : Int)]).length)))))) := by
      rw [← hbr]; simp only [List.length_append, List.length_cons, List.length_nil]
    have hcllen : (if needs then [Instr.reset (nn + 1), .jump (-((rm.length + 2 * k + 4 : Nat) : Int))] else []).length =
        if needs then 2 else 0 := by cases needs <;> rfl
    simp only [List.length_append, hcllen] at hle1 hle2
    have hle2' : needs = true → o + br.length + rm.length + 2 + 2 * k + 2 + rc.length ≤ n := by
      intro hh
      subst hh
      have := hle2 (by simp)
      simp only [if_true] at this
      omega
    obtain ⟨Amr, hR, hE, hC⟩ := compileBrs_typed hn hP rest Γp nn (if needs then k + 1 else k) false (o + br.length) h rm rc
      hw.2.2 hs.2.2 hΓ (by simp) hr (by omega) (by
        intro hne
        have := hle2 (by simp [hne])
        cases needs <;> simp only [if_true, Bool.false_eq_true, if_false] at this ⊢ <;> omega)
    obtain ⟨Apre, hpre⟩ := brPre_blk (P := P) (caps := caps) (n := n) (o := o) (X := []) first h nn
    obtain ⟨Ac, hc⟩ := compileSq_blk hn hP cond Γp (o + (if first then [] else [Instr.pop]).length + 1) h (nn + 1)
      hw.1 hs.1 (by omega) (by omega)
    rw [hΓ] at hc
    obtain ⟨Acc, hcc⟩ := compileSq_blk hn hP cons (compileSq Γp cond).2
      (o + (if first then [] else [Instr.pop]).length + 1 + (compileSq Γp cond).1.length + 3 + 2) h (nn + 1)
      hw.2.1 hs.2.1 hg (by omega)
    have hnp : (needs = true) ↔ (compileSq Γp cond).2.length > nn + 1 := by
      rw [← hneeds]; simp
    have hcase : (needs = true ∧ (compileSq Γp cond).2.length > nn + 1) ∨
        (needs = false ∧ ¬ (compileSq Γp cond).2.length > nn + 1) := by
      cases hnd : needs with
      | true => exact Or.inl ⟨rfl, hnp.mp hnd⟩
      | false => exact Or.inr ⟨rfl, fun hh => by have := hnp.mpr hh; rw [hnd] at this; cases this⟩
    obtain ⟨Ab, hb⟩ := branch_some_blk hn (rl := rm.length) (k := k) (off := off) rest.isNil hg hpre hc hcc (by
        rw [← hoff]
        rcases hcase with ⟨h1, h2⟩ | ⟨h1, h2⟩
        · simp only [h1, h2, if_true]
        · simp only [h1, h2, Bool.false_eq_true, if_false]) (by
        rw [hbr]
        rcases hcase with ⟨h1, h2⟩ | ⟨h1, h2⟩
        · simp only [h2, if_true]; have := hle2' h1; omega
        · simp only [h2, if_false]; omega)
    rw [hbr] at hb
    have hdd : (if (compileSq Γp cond).2.length > nn + 1 then 2 + 2 * k else 0) = if needs then 2 + 2 * k else 0 := by
      rcases hcase with ⟨h1, h2⟩ | ⟨h1, h2⟩
      · simp only [h1, h2, if_true]
      · simp only [h1, h2, Bool.false_eq_true, if_false]
    rw [hdd] at hb
    have hbrne : br ≠ [] := by
      intro hh
      rw [hh] at hbrlen
      simp only [List.length_nil] at hbrlen
      omega
    have hpos : o + (br ++ rm).length = o + br.length + rm.length := by rw [List.length_append]; omega
    rw [hpos]
    exact brs_step (P := P) (caps := caps) (n := n) hn (k := k) (k' := if needs then k + 1 else k)
      (d := if needs then 2 + 2 * k else 0) (PC := o + br.length + rm.length)
      needs rfl rfl rfl hbrne hb hR hE hC (by omega)
end

end Compile

/-! ### Fragment 2: the compiled function passes the checker -/

/-- **Every function the fragment-2 compiler (blocks with branches and `=>`) emits is accepted by
the verified checker.** -/
theorem compileSq_checkFn {P : Prog} (hP : wfProg P) (Γ : List String) (sq : Sq2) (tid : Nat)
    (hw : wfSq P sq) (hs : scSq Γ sq) (hsmall : (compileSq Γ sq).1.length < maxCode) :
    ∃ anns, checkFn P { instructions := (compileSq Γ sq).1.toArray, captures := Γ.length, typeId := tid } anns = true := by
  obtain ⟨A, hA⟩ := compileSq_blk (caps := Γ.length) hsmall hP sq Γ 0 0 Γ.length hw hs (Nat.le_refl _) (by simp)
  exact ⟨_, checkFn_of_blk hA rfl hsmall⟩

/-- A program all of whose functions are compiled fragment-2 sequences. -/
def Frag2Prog (P : Prog) : Prop :=
  wfProg P ∧ ∀ (f : Nat) (fn : Function), P.functions[f]? = some fn →
    ∃ (Γ : List String) (sq : Sq2), fn.instructions = (compileSq Γ sq).1.toArray ∧ fn.captures = Γ.length ∧
      wfSq P sq ∧ scSq Γ sq ∧ (compileSq Γ sq).1.length < maxCode

theorem frag2_allChecked {P : Prog} (h : Frag2Prog P) : ∃ A, AllChecked P A := by
  obtain ⟨hP, hfn⟩ := h
  have hex : ∀ f : Nat, ∃ anns : Anns, f < P.functions.size → checkAnn P f anns = true := by
    intro f
    by_cases hf : f < P.functions.size
    · have hget : P.functions[f]? = some P.functions[f] := by simp [hf]
      obtain ⟨Γ, sq, hi, hc, hw, hs, hsmall⟩ := hfn f _ hget
      obtain ⟨anns, hck⟩ := compileSq_checkFn hP Γ sq P.functions[f].typeId hw hs hsmall
      refine ⟨anns, fun _ => ?_⟩
      unfold checkAnn
      rw [hget]
      have : P.functions[f] = Function.mk (compileSq Γ sq).1.toArray Γ.length P.functions[f].typeId := by
        cases hfv : P.functions[f] with
        | mk ins cap ty =>
          rw [hfv] at hi hc
          simp only at hi hc
          simp [hi, hc]
      rw [this]
      exact hck
    · exact ⟨#[], fun h => absurd h hf⟩
  obtain ⟨g, hg⟩ := Classical.axiomOfChoice hex
  refine ⟨Array.ofFn (n := P.functions.size) (fun i => g i), ?_⟩
  intro f hf
  have : annsOf (Array.ofFn (n := P.functions.size) (fun i => g i)) f = g f := by
    simp [annsOf, Array.getD, hf]
  rw [this]
  exact hg f hf

/-- **No program of fragment 2 ever fails structurally** (`checkAnn_sound`). -/
theorem frag2_no_structural_failure {P : Prog} (h : Frag2Prog P) (s0 : Nat) (p0 p : Proc)
    (h0 : EntryWF P s0 p0) (hr : ReachWF P p0 p) :
    (∃ A, Inv P A s0 p) ∧
    ∀ ev, EventWF P ev → ∀ e, transition P p ev = some (.error e) → e.isStructural = false := by
  obtain ⟨A, hA⟩ := frag2_allChecked h
  obtain ⟨hinv, herr⟩ := C07.checkAnn_sound P A s0 hA p0 p h0 hr
  exact ⟨⟨A, hinv⟩, herr⟩

/-! ### Example: the shape the nil guard is there for -/

/-- `[1, 2] { =[x, y], [x, y] =z => z | 0 }`: the condition binds `z` in its second step, after a
step (`=[x, y]`) that may be nil; the consequence reads `z`. -/
def exSq : Sq2 :=
  .last (.cons (.tup 2 (.cons (.cons (.int 1 0) .nil) (.cons (.cons (.int 2 1) .nil) .nil)))
    (.cons (.block
      (.cons
        (.cons (.cons (.mtch (.tup [.bind "x", .bind "y"])) .nil)
          (.last (.cons (.tup 2 (.cons (.cons (.var "x") .nil) (.cons (.cons (.var "y") .nil) .nil)))
            (.cons (.mtch (.top (.bind "z"))) .nil))))
        (.some (.last (.cons (.var "z") .nil)))
        (.cons (.last (.cons (.int 0 2) .nil)) .none .nil))) .nil))

def exP : Prog :=
  { constants := #[.int 1, .int 2, .int 0], functions := #[⟨(compileSq [] exSq).1.toArray, 0, 0⟩],
    tuples := #[0, 0, 2], types := 0, builtins := 0 }

example : Frag2Prog exP := by
  refine ⟨⟨rfl, rfl⟩, ?_⟩
  intro f fn hf
  have hf0 : f = 0 := by
    have := (Array.getElem?_eq_some_iff.mp hf).1
    simp [exP] at this; omega
  subst hf0
  have hfn : fn = ⟨(compileSq [] exSq).1.toArray, 0, 0⟩ := by simpa [exP] using hf.symm
  subst hfn
  refine ⟨[], exSq, rfl, rfl, ?_, ?_, by decide +kernel⟩
  · simp [exSq, wfSq, wfCh, wfT, wfFs, wfBrs, wfPat, QM.RefSem.C1.wfSubs, QM.RefSem.C1.wfSub, Fs2.length, Brs2.isNil, exP]
  · simp only [exSq, scSq, scCh, scT, scFs, scBrs, and_true, true_and]
    exact ⟨⟨⟨1, by decide +kernel⟩, ⟨2, by decide +kernel⟩⟩, ⟨3, by decide +kernel⟩⟩

/-- The inferred annotations pass too; the one at the end of the condition carries the guard. -/
example : checkAnn exP 0 (inferAnn exP 0) = true := by decide +kernel

example : ((inferAnn exP 0).toList.filterMap id).any (fun a => a.guard matches .top _) = true := by
  decide +kernel

end F2
end QM.C07Frag
