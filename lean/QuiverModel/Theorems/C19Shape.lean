import QuiverModel.Core.Dict
import QuiverModel.Core.DictShape
import QuiverModel.Generated.DictShape
/-
C19 — the model mirrors the source that exists NOW. `Generated/DictShape.lean` is regenerated from
`/repo/std/dict.qv` (real parser) and `builtins/binary.rs` before every build of this file.
-/
namespace C19
open QM.Dict

/-- the shape of the live `std/dict.qv` (type aliases; per definition and per exported field: type
parameters, parameter type, number of branches, callees and integer literals in order, structural
skeleton) is the shape M-Dict was written against -/
theorem dict_shape_matches : QM.Generated.dictShape = QM.Dict.modelShape := rfl

/-- the FNV-1a parameters in `builtin_binary_hash32` are the ones the model's hash uses … -/
theorem hash_constants_match :
    QM.Generated.hashOffset32 = modelHashOffset32 ∧ QM.Generated.hashPrime32 = modelHashPrime32 := by
  decide

/-- … literally: `fnv1a32` folds `(h ^ byte) * prime mod 2^32` from `offset` -/
theorem model_hash_uses_them (bs : List UInt8) :
    fnv1a32 bs = bs.foldl (fun h b => ((h ^^^ b.toNat) * modelHashPrime32) % 2 ^ 32) modelHashOffset32 :=
  rfl

/-- the constants the trie arithmetic is built on, as they appear in the source: fragments are
masked with 31 (5 bits), levels advance by 5, the root is entered at shift 0 -/
theorem trie_constants :
    (modelShape.defs.find? (·.name = "fragment")).map (·.ints) = some [0, 31] ∧
    (modelShape.defs.find? (·.name = "get")).map (·.ints) = some [1, 0, 5] ∧
    (modelShape.exports.find? (·.name = "get")).map (·.ints) = some [0] ∧
    (modelShape.exports.map (·.name)) =
      ["new", "get", "put", "remove", "has?", "count", "entries", "keys", "values", "iter", "from", "merge"] := by
  decide

end C19
